/-
  XotModel.Lemmas.DedupKeep — one pass of `deduplicate_namespaces` keeps every name writable.

  `is_redundant_declaration(node, p, N, kept)` answers `true` only with a WITNESS `q`: the nearest
  kept declaration of `q` above binds it to `N`, and `q = p`, or `q` is bound to nothing but `N`
  anywhere in the subtree of `node` and not (`q` is the empty prefix and an attribute of the subtree
  is in `N`) (`isRedundantDeclaration_spec`).

  Along the simultaneous recursion of the serialiser's check `wr` on the tree before and on the tree
  after the pass (`dpWalk`), the two top frames `W` (before) and `W'` (after) are related by
    `DdInv x W W'`  : every binding `(p, N)` of `W` is in `W'`, or `W'` has a binding `(q, N)` of a
                     prefix `q` that the subtree of `x` never binds to anything else (non-empty if an
                     attribute below is in `N`);
    `DdInv3 W W'`   : a default namespace in `W'` means one in `W`;
    `KW K W'`      : the nearest binding of every prefix in the kept stack is in `W'`.
  These are preserved by `push` on an element with unique prefixes (`DdInv.push`, …) and give every
  name check of the element (`elementOk_keep`).  `keep_wr`: `wr W x → wr W' (dpWalk K x)`.
-/
import XotModel.Lemmas.DedupUnique

namespace XotModel

/-! ### Membership in the pushed frame -/

theorem lookup_isSome_iff_mem_keys (d : List (Nat × Nat)) (p : Nat) :
    (d.lookup p).isSome = true ↔ p ∈ d.map Prod.fst := by
  rw [List.lookup_isSome_iff]
  constructor
  · rintro ⟨kv, hkv, h⟩
    simp only [beq_iff_eq] at h
    exact List.mem_map.2 ⟨kv, hkv, h.symm⟩
  · intro h
    obtain ⟨kv, hkv, rfl⟩ := List.mem_map.1 h
    exact ⟨kv, hkv, by simp⟩

theorem ddMem_of_lookup_eq_some {d : List (Nat × Nat)} {p n : Nat} (h : d.lookup p = some n) :
    (p, n) ∈ d := by
  induction d with
  | nil => simp at h
  | cons kv rest ih =>
    obtain ⟨k, v⟩ := kv
    rw [List.lookup_cons] at h
    by_cases hk : p = k
    · subst hk
      simp only [beq_self_eq_true, Option.some.injEq] at h
      subst h
      exact List.mem_cons_self ..
    · have hb : (p == k) = false := by simpa using hk
      rw [hb] at h
      exact List.mem_cons_of_mem _ (ih h)

theorem ddMem_pushTop (W d : List (Nat × Nat)) (p n : Nat) :
    (p, n) ∈ pushTop W d ↔ (p, n) ∈ d ∨ (p ∉ d.map Prod.fst ∧ (p, n) ∈ W) := by
  unfold pushTop
  cases d with
  | nil => simp
  | cons d0 rest =>
    have hf : ∀ x : Nat × Nat,
        (match x with | (p, _) => !(d0 :: rest).any fun (p2, _) => p2 == p) =
          !((d0 :: rest).lookup x.1).isSome := by
      intro ⟨a, b⟩; simp only [any_key_eq]
    have hkey : p ∉ (d0 :: rest).map Prod.fst ↔ ((d0 :: rest).lookup p).isSome = false := by
      rw [← lookup_isSome_iff_mem_keys]
      exact Iff.of_eq (Bool.not_eq_true _)
    simp only [List.isEmpty_cons, Bool.false_eq_true, ↓reduceIte, fullnameInfoNew, List.mem_append,
      List.mem_filter, hf, Bool.not_eq_true']
    rw [hkey, or_comm, and_comm]

/-! ### What `is_redundant_declaration` has found when it says `true` -/

/-- `q` is a witness for the removal of `xmlns:p = N` on `x`. -/
def RedWitness (env : Env) (x : Tree) (p N q : Nat) : Prop :=
  q = p ∨ (isPrefixRebound q N x = false ∧
    ¬ (q = Env.emptyPrefix ∧ hasAttributeInNamespace env N x = true))

theorem redundantScan_spec (env : Env) (x : Tree) (p N : Nat) : ∀ (d : List (Nat × Nat)) (seen : List Nat),
    ((redundantScan env x p N seen d).2 = true →
      ∃ q, q ∉ seen ∧ d.lookup q = some N ∧ RedWitness env x p N q) ∧
    ((redundantScan env x p N seen d).2 = false →
      ∀ q, q ∈ seen ∨ q ∈ d.map Prod.fst → q ∈ (redundantScan env x p N seen d).1) := by
  intro d
  induction d with
  | nil =>
    intro seen
    simp only [redundantScan, Bool.false_eq_true, false_implies, List.map_nil, List.not_mem_nil,
      or_false, true_and]
    exact fun _ q h => h
  | cons kv rest ih =>
    intro seen
    obtain ⟨kp, kn⟩ := kv
    -- going on with `rest` after recording `kp`
    have lift : ∀ (R : List Nat × Bool), R = redundantScan env x p N (seen ++ [kp]) rest →
        kp ∉ seen →
        (R.2 = true → ∃ q, q ∉ seen ∧ ((kp, kn) :: rest).lookup q = some N ∧ RedWitness env x p N q) ∧
        (R.2 = false → ∀ q, q ∈ seen ∨ q ∈ ((kp, kn) :: rest).map Prod.fst → q ∈ R.1) := by
      intro R hR hkp
      subst hR
      obtain ⟨h1, h2⟩ := ih (seen ++ [kp])
      refine ⟨fun ht => ?_, fun hf q hq => ?_⟩
      · obtain ⟨q, hq, hl, hw⟩ := h1 ht
        simp only [List.mem_append, List.mem_singleton, not_or] at hq
        refine ⟨q, hq.1, ?_, hw⟩
        rw [List.lookup_cons]
        have : (q == kp) = false := by simpa using hq.2
        rw [this]; exact hl
      · apply h2 hf
        simp only [List.map_cons, List.mem_cons] at hq
        simp only [List.mem_append, List.mem_singleton]
        rcases hq with hq | hq | hq
        · exact .inl (.inl hq)
        · exact .inl (.inr hq)
        · exact .inr hq
    rw [redundantScan]
    by_cases hc : seen.contains kp = true
    · simp only [hc, ↓reduceIte]
      have hkp : kp ∈ seen := by simpa using hc
      obtain ⟨h1, h2⟩ := ih seen
      refine ⟨fun ht => ?_, fun hf q hq => ?_⟩
      · obtain ⟨q, hq, hl, hw⟩ := h1 ht
        refine ⟨q, hq, ?_, hw⟩
        rw [List.lookup_cons]
        have : (q == kp) = false := by
          simp only [beq_eq_false_iff_ne, ne_eq]
          intro h; exact hq (h ▸ hkp)
        rw [this]; exact hl
      · apply h2 hf
        simp only [List.map_cons, List.mem_cons] at hq
        rcases hq with hq | hq | hq
        · exact .inl hq
        · exact .inl (hq ▸ hkp)
        · exact .inr hq
    · have hkp : kp ∉ seen := by simpa using hc
      simp only [hc, Bool.false_eq_true, ↓reduceIte]
      by_cases hn : (kn != N) = true
      · simp only [hn, ↓reduceIte]
        exact lift _ rfl hkp
      · simp only [hn, Bool.false_eq_true, ↓reduceIte]
        have hkn : kn = N := by simpa using hn
        by_cases hp : (kp == p) = true
        · simp only [hp, ↓reduceIte, true_implies, Bool.true_eq_false, false_implies, and_true]
          refine ⟨kp, hkp, ?_, .inl (by simpa using hp)⟩
          simp [hkn]
        · simp only [hp, Bool.false_eq_true, ↓reduceIte]
          by_cases hr : isPrefixRebound kp N x = true
          · simp only [hr, ↓reduceIte]
            exact lift _ rfl hkp
          · simp only [hr, Bool.false_eq_true, ↓reduceIte]
            by_cases ha : (kp == Env.emptyPrefix && hasAttributeInNamespace env N x) = true
            · simp only [ha, ↓reduceIte]
              exact lift _ rfl hkp
            · simp only [ha, Bool.false_eq_true, ↓reduceIte, true_implies, Bool.true_eq_false,
                false_implies, and_true]
              refine ⟨kp, hkp, by simp [hkn], .inr ⟨by simpa using hr, ?_⟩⟩
              simpa [Bool.and_eq_true] using ha

theorem redundantStack_spec (env : Env) (x : Tree) (p N : Nat) : ∀ (K : List (List (Nat × Nat)))
    (seen : List Nat), redundantStack env x p N seen K = true →
      ∃ q, q ∉ seen ∧ scopeOf K q = some N ∧ RedWitness env x p N q := by
  intro K
  induction K with
  | nil => intro seen h; simp [redundantStack] at h
  | cons d rest ih =>
    intro seen h
    simp only [redundantStack, Bool.or_eq_true] at h
    obtain ⟨h1, h2⟩ := redundantScan_spec env x p N d seen
    by_cases hr : (redundantScan env x p N seen d).2 = true
    · obtain ⟨q, hq, hl, hw⟩ := h1 hr
      exact ⟨q, hq, by simp [scopeOf, hl], hw⟩
    · have hr' : (redundantScan env x p N seen d).2 = false := by simpa using hr
      rcases h with h | h
      · exact absurd h hr
      · obtain ⟨q, hq, hl, hw⟩ := ih _ h
        have hq1 : q ∉ seen := fun hm => hq (h2 hr' q (.inl hm))
        have hq2 : q ∉ d.map Prod.fst := fun hm => hq (h2 hr' q (.inr hm))
        have hnone : d.lookup q = none := by
          cases hl' : d.lookup q with
          | none => rfl
          | some n =>
            exact absurd ((lookup_isSome_iff_mem_keys d q).1 (by rw [hl']; rfl)) hq2
        exact ⟨q, hq1, by simp [scopeOf, hnone, hl], hw⟩

theorem isRedundantDeclaration_spec (env : Env) (x : Tree) (K : List (List (Nat × Nat))) (p N : Nat)
    (h : isRedundantDeclaration env x K (p, N) = true) :
    N ≠ Env.noNamespace ∧ ∃ q, scopeOf K q = some N ∧ RedWitness env x p N q := by
  unfold isRedundantDeclaration at h
  by_cases h0 : N = Env.noNamespace
  · simp [h0] at h
  · have : (N == Env.noNamespace) = false := by simpa using h0
    simp only [this, Bool.false_eq_true, ↓reduceIte] at h
    obtain ⟨q, _, hl, hw⟩ := redundantStack_spec env x p N K [] h
    exact ⟨h0, q, hl, hw⟩

/-! ### `descendants(node).any(..)` -/

theorem anyNormal_node (f : Tree → Bool) (v : Value) (ks : List Tree) :
    Tree.anyNormal f (.node v ks) = ((v.isNormal && f (.node v ks)) || Tree.anyNormalList f ks) := by
  rw [Tree.anyNormal]

theorem anyNormalList_of_mem (f : Tree → Bool) : ∀ (ks : List Tree) (k : Tree), k ∈ ks →
    Tree.anyNormal f k = true → Tree.anyNormalList f ks = true
  | [], _, h, _ => by cases h
  | k0 :: ks, k, h, hk => by
    rw [Tree.anyNormalList]
    simp only [List.mem_cons] at h
    rcases h with rfl | h
    · simp [hk]
    · simp [anyNormalList_of_mem f ks k h hk]

theorem anyNormal_kid (f : Tree → Bool) (v : Value) (ks : List Tree) (k : Tree) (hk : k ∈ ks)
    (h : Tree.anyNormal f k = true) : Tree.anyNormal f (.node v ks) = true := by
  rw [anyNormal_node, anyNormalList_of_mem f ks k hk h]; simp

theorem isPrefixRebound_kid {q N : Nat} {v : Value} {ks : List Tree} {k : Tree} (hk : k ∈ ks)
    (h : isPrefixRebound q N (.node v ks) = false) : isPrefixRebound q N k = false := by
  cases hr : isPrefixRebound q N k with
  | false => rfl
  | true =>
    have := anyNormal_kid _ v ks k hk hr
    unfold isPrefixRebound at h
    rw [this] at h; cases h

theorem hasAttributeInNamespace_kid {env : Env} {N : Nat} {v : Value} {ks : List Tree} {k : Tree}
    (hk : k ∈ ks) (h : hasAttributeInNamespace env N k = true) :
    hasAttributeInNamespace env N (.node v ks) = true :=
  anyNormal_kid _ v ks k hk h

theorem isPrefixRebound_self {q N n' : Nat} {x : Tree} (hn : x.value.isNormal = true)
    (hm : (q, n') ∈ x.nsDecls) (h : isPrefixRebound q N x = false) : n' = N := by
  obtain ⟨v, ks⟩ := x
  unfold isPrefixRebound at h
  rw [anyNormal_node] at h
  simp only [Tree.value] at hn
  simp only [hn, Bool.true_and, Bool.or_eq_false_iff] at h
  have h1 := h.1
  rw [List.any_eq_false] at h1
  have := h1 (q, n') hm
  simpa using this

theorem hasAttributeInNamespace_self {env : Env} {N a : Nat} {x : Tree}
    (hn : x.value.isNormal = true) (ha : a ∈ x.attrs.map (·.1)) (hN : env.nsOfName a = N) :
    hasAttributeInNamespace env N x = true := by
  obtain ⟨v, ks⟩ := x
  unfold hasAttributeInNamespace
  rw [anyNormal_node]
  simp only [Tree.value] at hn
  obtain ⟨kv, hkv, rfl⟩ := List.mem_map.1 ha
  simp only [hn, Bool.true_and, Bool.or_eq_true, List.any_eq_true, beq_iff_eq]
  exact .inl ⟨kv, hkv, hN⟩

/-! ### The three invariants -/

/-- The nearest binding of every prefix in the kept stack is in the frame (bindings to the
    no-namespace id excepted: they are never the reason of a removal, and the frames of
    `namespaces_in_scope` do not list `xmlns=""`). -/
def KW (K : List (List (Nat × Nat))) (W' : List (Nat × Nat)) : Prop :=
  ∀ q n, n ≠ Env.noNamespace → scopeOf K q = some n → (q, n) ∈ W'

/-- Every binding of `W` is in `W'` or is made up for by a binding of the same namespace that the
    subtree of `x` can use. -/
def DdInv (env : Env) (x : Tree) (W W' : List (Nat × Nat)) : Prop :=
  ∀ p N, (p, N) ∈ W → (p, N) ∈ W' ∨ ∃ q, (q, N) ∈ W' ∧ isPrefixRebound q N x = false ∧
    ¬ (q = Env.emptyPrefix ∧ hasAttributeInNamespace env N x = true)

/-- A default namespace after means a default namespace before. -/
def DdInv3 (W W' : List (Nat × Nat)) : Prop :=
  ∀ n, (Env.emptyPrefix, n) ∈ W' → n ≠ Env.noNamespace →
    ∃ m, m ≠ Env.noNamespace ∧ (Env.emptyPrefix, m) ∈ W

/-- `W₁` is the frame `W` with the declarations `d` on top: the pairs of `d`, and the pairs of `W`
    whose prefix `d` does not declare.  `strict`: without the undeclaration `xmlns=""` (the frames
    `namespaces_in_scope` yields; the serialiser's `push` keeps the pair: `strict = false`). -/
def IsPush (strict : Bool) (W d W₁ : List (Nat × Nat)) : Prop :=
  ∀ p n, (p, n) ∈ W₁ ↔ (strict = true → ¬ (p = Env.emptyPrefix ∧ n = Env.noNamespace)) ∧
    ((p, n) ∈ d ∨ (p ∉ d.map Prod.fst ∧ (p, n) ∈ W))

theorem IsPush.pushTop (W d : List (Nat × Nat)) : IsPush false W d (pushTop W d) := by
  intro p n
  rw [ddMem_pushTop]
  simp

theorem KW.nil (W' : List (Nat × Nat)) : KW [] W' := fun _ _ _ h => by simp [scopeOf] at h

theorem DdInv.refl (env : Env) (x : Tree) (W : List (Nat × Nat)) : DdInv env x W W :=
  fun _ _ h => .inl h

theorem DdInv3.refl (W : List (Nat × Nat)) : DdInv3 W W := fun n h hn => ⟨n, hn, h⟩

theorem DdInv.kid {env : Env} {v : Value} {ks : List Tree} {W W' : List (Nat × Nat)}
    (h : DdInv env (.node v ks) W W') {k : Tree} (hk : k ∈ ks) : DdInv env k W W' := by
  intro p N hp
  rcases h p N hp with h1 | ⟨q, hq, hr, ha⟩
  · exact .inl h1
  · refine .inr ⟨q, hq, isPrefixRebound_kid hk hr, fun hc => ha ⟨hc.1, ?_⟩⟩
    exact hasAttributeInNamespace_kid hk hc.2

theorem KW.push {K : List (List (Nat × Nat))} {W' W₁' : List (Nat × Nat)} (h : KW K W')
    {s : Bool} {d' : List (Nat × Nat)} (hp : IsPush s W' d' W₁') : KW (d' :: K) W₁' := by
  intro q n hn0 hq
  rw [hp]
  refine ⟨fun _ hc => hn0 hc.2, ?_⟩
  simp only [scopeOf] at hq
  cases hl : d'.lookup q with
  | some m =>
    simp only [hl, Option.some.injEq] at hq
    subst hq
    exact .inl (ddMem_of_lookup_eq_some hl)
  | none =>
    simp only [hl] at hq
    refine .inr ⟨fun hm => ?_, h q n hn0 hq⟩
    have := (lookup_isSome_iff_mem_keys d' q).2 hm
    rw [hl] at this; cases this

theorem dpKeep_sublist (env : Env) (K : List (List (Nat × Nat))) (x : Tree) :
    (dpKeep env K x).Sublist x.nsDecls := List.filter_sublist

theorem not_mem_keys_dpKeep {env : Env} {K : List (List (Nat × Nat))} {x : Tree} {p : Nat}
    (h : p ∉ x.nsDecls.map Prod.fst) : p ∉ (dpKeep env K x).map Prod.fst :=
  fun hm => h (((dpKeep_sublist env K x).map Prod.fst).subset hm)

/-- A usable binding `(q, N)` of the frame after survives the push of the kept declarations. -/
theorem witness_push {env : Env} {x : Tree} {K : List (List (Nat × Nat))} {W' W₁' : List (Nat × Nat)}
    {s : Bool} {q N : Nat} (hn : x.value.isNormal = true) (hp : IsPush s W' (dpKeep env K x) W₁')
    (hq : (q, N) ∈ W') (hnu : s = true → ¬ (q = Env.emptyPrefix ∧ N = Env.noNamespace))
    (hr : isPrefixRebound q N x = false) : (q, N) ∈ W₁' := by
  rw [hp]
  refine ⟨hnu, ?_⟩
  by_cases hk : q ∈ (dpKeep env K x).map Prod.fst
  · obtain ⟨⟨q', n'⟩, hkv, rfl⟩ := List.mem_map.1 hk
    have hm : (q', n') ∈ x.nsDecls := (dpKeep_sublist env K x).subset hkv
    have := isPrefixRebound_self hn hm hr
    subst this
    exact .inl hkv
  · exact .inr ⟨hk, hq⟩

theorem DdInv.push {env : Env} {x : Tree} {K : List (List (Nat × Nat))} {W W' W₁ W₁' : List (Nat × Nat)}
    {s : Bool} (hn : x.value.isNormal = true) (hnd : (x.nsDecls.map Prod.fst).Nodup) (hK : KW K W')
    (h : DdInv env x W W') (hp : IsPush s W x.nsDecls W₁) (hp' : IsPush s W' (dpKeep env K x) W₁')
    (hnu' : s = true → ∀ p n, (p, n) ∈ W' → ¬ (p = Env.emptyPrefix ∧ n = Env.noNamespace)) :
    DdInv env x W₁ W₁' := by
  intro p N hpm
  obtain ⟨hstrict, hpm⟩ := (hp p N).1 hpm
  rcases hpm with hpm | ⟨hpk, hpm⟩
  · -- declared on `x` itself
    by_cases hred : isRedundantDeclaration env x K (p, N) = true
    · obtain ⟨hN0, q, hq, hw⟩ := isRedundantDeclaration_spec env x K p N hred
      have hqW := hK q N hN0 hq
      rcases hw with rfl | ⟨hr, ha⟩
      · -- the same prefix is bound to `N` above: it still is
        refine .inl ((hp' _ _).2 ⟨hstrict, .inr ⟨fun hm => ?_, hqW⟩⟩)
        obtain ⟨⟨q', n'⟩, hkv, rfl⟩ := List.mem_map.1 hm
        have hm' : (q', n') ∈ x.nsDecls := (dpKeep_sublist env K x).subset hkv
        have := eq_of_mem_of_key_eq hnd hm' hpm rfl
        rw [this] at hkv
        simp only [dpKeep, List.mem_filter, hred, Bool.not_true, Bool.false_eq_true, and_false] at hkv
      · exact .inr ⟨q, witness_push hn hp' hqW (fun hs => hnu' hs q N hqW) hr, hr, ha⟩
    · refine .inl ((hp' _ _).2 ⟨hstrict, .inl ?_⟩)
      simp only [dpKeep, List.mem_filter]
      exact ⟨hpm, by simpa using hred⟩
  · -- inherited
    rcases h p N hpm with h1 | ⟨q, hq, hr, ha⟩
    · exact .inl ((hp' _ _).2 ⟨hstrict, .inr ⟨not_mem_keys_dpKeep hpk, h1⟩⟩)
    · exact .inr ⟨q, witness_push hn hp' hq (fun hs => hnu' hs q N hq) hr, hr, ha⟩

theorem DdInv3.push {env : Env} {x : Tree} {K : List (List (Nat × Nat))} {W W' W₁ W₁' : List (Nat × Nat)}
    {s : Bool} (h : DdInv3 W W') (hp : IsPush s W x.nsDecls W₁)
    (hp' : IsPush s W' (dpKeep env K x) W₁') : DdInv3 W₁ W₁' := by
  intro n hn hn0
  obtain ⟨_, hn⟩ := (hp' _ _).1 hn
  rcases hn with hn | ⟨hk, hn⟩
  · exact ⟨n, hn0, (hp _ _).2 ⟨fun _ hc => hn0 hc.2, .inl ((dpKeep_sublist env K x).subset hn)⟩⟩
  · obtain ⟨m, hm0, hm⟩ := h n hn hn0
    by_cases hd : Env.emptyPrefix ∈ x.nsDecls.map Prod.fst
    · -- the element declares the empty prefix but does not keep the declaration: it was removed,
      -- so it is not an undeclaration
      obtain ⟨⟨e, m'⟩, hkv, he⟩ := List.mem_map.1 hd
      simp only at he
      subst he
      have hm'0 : m' ≠ Env.noNamespace := by
        intro h0
        apply hk
        refine List.mem_map.2 ⟨(Env.emptyPrefix, m'), ?_, rfl⟩
        simp only [dpKeep, List.mem_filter]
        exact ⟨hkv, by rw [isRedundantDeclaration_undecl env x K _ h0]; rfl⟩
      exact ⟨m', hm'0, (hp _ _).2 ⟨fun _ hc => hm'0 hc.2, .inl hkv⟩⟩
    · exact ⟨m, hm0, (hp _ _).2 ⟨fun _ hc => hm0 hc.2, .inr ⟨hd, hm⟩⟩⟩

/-! ### The name checks of one element -/

theorem ddHasDefaultNamespace_iff (top : List (Nat × Nat)) :
    FStack.hasDefaultNamespace [top] = true ↔
      ∃ n, n ≠ Env.noNamespace ∧ (Env.emptyPrefix, n) ∈ top := by
  simp only [FStack.hasDefaultNamespace, FStack.top, List.headD_cons, List.any_eq_true,
    Bool.and_eq_true, beq_iff_eq, bne_iff_ne, ne_eq]
  constructor
  · rintro ⟨⟨a, b⟩, hm, ha, hb⟩
    simp only at ha hb
    subst ha
    exact ⟨b, hb, hm⟩
  · rintro ⟨n, hn, hm⟩
    exact ⟨(Env.emptyPrefix, n), hm, rfl, hn⟩

theorem elementOk_keep (env : Env) (x x' : Tree) (name : Nat) (W W' : List (Nat × Nat))
    (hattrs : x'.attrs = x.attrs) (hn : x.value.isNormal = true) (hI : DdInv env x W W')
    (h3 : DdInv3 W W') (h : elementOk env W x name = true) : elementOk env W' x' name = true := by
  simp only [elementOk, Bool.and_eq_true, Bool.not_eq_true', Bool.and_eq_false_iff,
    sc_elementFullname_ok, sc_attributeFullname_ok, List.all_eq_true, Bool.or_eq_true, beq_iff_eq,
    beq_eq_false_iff_ne, ne_eq, hattrs] at h ⊢
  obtain ⟨⟨hd, he⟩, ha⟩ := h
  refine ⟨⟨?_, ?_⟩, ?_⟩
  · rcases hd with hd | hd
    · exact .inl hd
    · refine .inr ?_
      cases hd' : FStack.hasDefaultNamespace [W'] with
      | false => rfl
      | true =>
        obtain ⟨n, hn0, hm⟩ := (ddHasDefaultNamespace_iff W').1 hd'
        obtain ⟨m, hm0, hmm⟩ := h3 n hm hn0
        have := (ddHasDefaultNamespace_iff W).2 ⟨m, hm0, hmm⟩
        rw [hd] at this; cases this
  · rcases he with he | he
    · exact .inl he
    · refine .inr ?_
      obtain ⟨p, hp⟩ := (knownIn_iff W _).1 he
      rcases hI p _ hp with h1 | ⟨q, hq, _, _⟩
      · exact (knownIn_iff W' _).2 ⟨p, h1⟩
      · exact (knownIn_iff W' _).2 ⟨q, hq⟩
  · intro a hax
    rcases ha a hax with h1 | h1
    · exact .inl h1
    · refine .inr ?_
      obtain ⟨p, hpe, hp⟩ := (attrKnownIn_iff W _).1 h1
      rcases hI p _ hp with h2 | ⟨q, hq, _, hqa⟩
      · exact (attrKnownIn_iff W' _).2 ⟨p, hpe, h2⟩
      · refine (attrKnownIn_iff W' _).2 ⟨q, fun hqe => hqa ⟨hqe, ?_⟩, hq⟩
        exact hasAttributeInNamespace_self hn hax rfl

/-! ### Attributes and writability of a child list under the removals -/

theorem dropWhile_removeNsKid (p : Nat) (ks : List Tree) :
    (removeNsKid p ks).dropWhile (fun k => k.value.category == .namespace) =
      ks.dropWhile (fun k => k.value.category == .namespace) := by
  induction ks with
  | nil => rfl
  | cons k rest ih =>
    by_cases hc : (k.value.category == Category.namespace) = true
    · obtain ⟨q, n, hv⟩ := (category_namespace_iff_ex _).1 hc
      simp only [removeNsKid, hv]
      by_cases hp : q = p
      · simp only [hp, beq_self_eq_true, ↓reduceIte]
        rw [List.dropWhile_cons]
        simp [hv, Value.category]
      · have : (q == p) = false := by simpa using hp
        simp only [this, Bool.false_eq_true, ↓reduceIte, List.dropWhile_cons, hc, ih]
    · rw [removeNsKid_not_namespace p k rest hc]

theorem attrs_removeNsKid (v : Value) (p : Nat) (ks : List Tree) :
    (Tree.node v (removeNsKid p ks)).attrs = (Tree.node v ks).attrs := by
  simp only [Tree.attrs, Tree.attributeNodes, Tree.kids, dropWhile_removeNsKid]

theorem attrs_removeOwn (v : Value) (pfxs : List Nat) (ks : List Tree) :
    (Tree.node v (removeOwn pfxs ks)).attrs = (Tree.node v ks).attrs := by
  unfold removeOwn
  generalize pfxs.reverse = l
  induction l generalizing ks with
  | nil => rfl
  | cons a rest ih => simp only [List.foldl_cons]; rw [ih, attrs_removeNsKid]

theorem ddAttrs_congr (v v' : Value) (ks ks' : List Tree) (h : ks.map Tree.value = ks'.map Tree.value) :
    (Tree.node v ks).attrs = (Tree.node v' ks').attrs := by
  have key : ∀ l : List Tree, (Tree.node v l).attrs =
      (((l.map Tree.value).dropWhile (fun x => x.category == .namespace)).takeWhile
        (fun x => x.category == .attribute)).filterMap (fun x => match x with
          | .attribute n s => some (n, s)
          | _ => none) := by
    intro l
    simp only [Tree.attrs, Tree.attributeNodes, Tree.kids, List.dropWhile_map, List.takeWhile_map,
      List.filterMap_map]
    rfl
  have key' : ∀ l : List Tree, (Tree.node v' l).attrs = (Tree.node v l).attrs := fun l => rfl
  rw [key, key', key, h]

theorem wrList_removeNsKid (env : Env) (top : List (Nat × Nat)) (p : Nat) (ks : List Tree)
    (h : wr.wrList env top ks = true) : wr.wrList env top (removeNsKid p ks) = true := by
  induction ks with
  | nil => exact h
  | cons k rest ih =>
    simp only [wr.wrList, Bool.and_eq_true] at h
    unfold removeNsKid
    split
    · split
      · exact h.2
      · simp only [wr.wrList, Bool.and_eq_true]; exact ⟨h.1, ih h.2⟩
    · simp only [wr.wrList, Bool.and_eq_true]; exact h

theorem wrList_removeOwn (env : Env) (top : List (Nat × Nat)) (pfxs : List Nat) (ks : List Tree)
    (h : wr.wrList env top ks = true) : wr.wrList env top (removeOwn pfxs ks) = true := by
  unfold removeOwn
  generalize pfxs.reverse = l
  induction l generalizing ks with
  | nil => exact h
  | cons a rest ih => exact ih _ (wrList_removeNsKid env top a ks h)

theorem wr_nonElement (env : Env) (W : List (Nat × Nat)) (v : Value) (ks : List Tree)
    (he : v.isElement = false) : wr env W (.node v ks) = wr.wrList env W ks := by
  cases v <;> first | rfl | simp [Value.isElement] at he

theorem wr_element (env : Env) (W : List (Nat × Nat)) (name : Nat) (ks : List Tree) :
    wr env W (.node (.element name) ks) =
      (elementOk env (pushTop W (Tree.node (.element name) ks).nsDecls) (.node (.element name) ks) name &&
        wr.wrList env (pushTop W (Tree.node (.element name) ks).nsDecls) ks) := rfl

theorem isElement_iff_ex (v : Value) : v.isElement = true ↔ ∃ name, v = .element name := by
  cases v <;> simp [Value.isElement]

/-! ### The pass keeps every name writable -/

theorem dpWalk_element (env : Env) (K : List (List (Nat × Nat))) (name : Nat) (ks : List Tree) :
    dpWalk env K (.node (.element name) ks) = .node (.element name)
      (removeOwn ((dpRed env K (.node (.element name) ks)).map (·.1))
        (dpWalk.dpWalkList env (dpKeep env K (.node (.element name) ks) :: K) ks)) := by
  simp only [dpWalk, Value.isElement, ↓reduceIte]

/-- The part of `keep_wr` below the push of an element's declarations: the invariants of the frames
    AFTER the push give the element's own name checks and (through `hkids`) its children. -/
theorem keep_body (env : Env) (name : Nat) (ks : List Tree) (K : List (List (Nat × Nat)))
    (W₁ W₁' : List (Nat × Nat))
    (hI : DdInv env (.node (.element name) ks) W₁ W₁') (h3 : DdInv3 W₁ W₁')
    (hkids : wr.wrList env W₁ ks = true →
      wr.wrList env W₁' (dpWalk.dpWalkList env (dpKeep env K (.node (.element name) ks) :: K) ks) = true)
    (he : elementOk env W₁ (.node (.element name) ks) name = true)
    (hw : wr.wrList env W₁ ks = true) :
    elementOk env W₁' (dpWalk env K (.node (.element name) ks)) name = true ∧
    wr.wrList env W₁' (dpWalk env K (.node (.element name) ks)).kids = true := by
  rw [dpWalk_element]
  refine ⟨elementOk_keep env _ _ name W₁ W₁' ?_ rfl hI h3 he, ?_⟩
  · rw [attrs_removeOwn]
    exact ddAttrs_congr _ _ _ _ (dpWalkList_values env ks _)
  · exact wrList_removeOwn env _ _ _ (hkids hw)

/-- An element, given the frames below the push of its declarations as pushes onto frames `S`, `S'`
    that satisfy the invariants (the serialiser's own frames, or the frames of
    `namespaces_in_scope` of the element's parent when serialisation starts at the element). -/
theorem keep_element (env : Env) (name : Nat) (ks : List Tree) (K : List (List (Nat × Nat)))
    (S S' W₀ W₀' : List (Nat × Nat))
    (hnd : ((Tree.node (.element name) ks).nsDecls.map Prod.fst).Nodup) (hK : KW K S')
    (hI : DdInv env (.node (.element name) ks) S S') (h3 : DdInv3 S S')
    (hQ : IsPush false S (Tree.node (.element name) ks).nsDecls
      (pushTop W₀ (Tree.node (.element name) ks).nsDecls))
    (hQ' : IsPush false S' (dpKeep env K (.node (.element name) ks))
      (pushTop W₀' (dpKeep env K (.node (.element name) ks))))
    (hkids : ∀ W₁ W₁', KW (dpKeep env K (.node (.element name) ks) :: K) W₁' →
      (∀ k ∈ ks, DdInv env k W₁ W₁') → DdInv3 W₁ W₁' → wr.wrList env W₁ ks = true →
      wr.wrList env W₁' (dpWalk.dpWalkList env (dpKeep env K (.node (.element name) ks) :: K) ks) = true)
    (hw : wr env W₀ (.node (.element name) ks) = true) :
    wr env W₀' (dpWalk env K (.node (.element name) ks)) = true := by
  have hI₁ := DdInv.push (K := K) (x := .node (.element name) ks) rfl hnd hK hI hQ hQ'
    (fun hs => by cases hs)
  have h3₁ := DdInv3.push h3 hQ hQ'
  have hK₁ := hK.push hQ'
  rw [wr_element, Bool.and_eq_true] at hw
  have hb := keep_body env name ks K _ _ hI₁ h3₁
    (fun hwk => hkids _ _ hK₁ (fun k hk => hI₁.kid hk) h3₁ hwk) hw.1 hw.2
  have hd := nsDecls_dpWalk env K (.element name) ks rfl hnd
  rw [dpWalk_element] at hb hd ⊢
  rw [wr_element, hd, Bool.and_eq_true]
  exact hb

mutual
theorem keep_wr (env : Env) : ∀ (x : Tree) (K : List (List (Nat × Nat))) (W W' : List (Nat × Nat)),
    UniqueDeclsBelow x → KW K W' → DdInv env x W W' → DdInv3 W W' →
    wr env W x = true → wr env W' (dpWalk env K x) = true
  | .node v ks, K, W, W', hu, hK, hI, h3, hw => by
    have hukids : ∀ (i : Nat) (k : Tree), ks[i]? = some k → UniqueDeclsBelow k :=
      fun i k hk => hu.kid hk
    by_cases he : v.isElement = true
    · obtain ⟨name, rfl⟩ := (isElement_iff_ex v).1 he
      have hnd := hu.self (t := .node (.element name) ks) rfl
      exact keep_element env name ks K W W' W W' hnd hK hI h3 (IsPush.pushTop _ _) (IsPush.pushTop _ _)
        (fun W₁ W₁' hK₁ hI₁ h3₁ hwk => keep_wr_list env ks _ W₁ W₁' hukids hK₁ hI₁ h3₁ hwk) hw
    · have he' : v.isElement = false := by simpa using he
      rw [wr_nonElement env W v ks he'] at hw
      have hwalk : dpWalk env K (.node v ks) = .node v (dpWalk.dpWalkList env K ks) := by
        simp only [dpWalk, he', Bool.false_eq_true, ↓reduceIte]
      rw [hwalk, wr_nonElement env W' v _ he']
      exact keep_wr_list env ks K W W' hukids hK (fun k hk => hI.kid hk) h3 hw
theorem keep_wr_list (env : Env) : ∀ (ks : List Tree) (K : List (List (Nat × Nat)))
    (W W' : List (Nat × Nat)),
    (∀ (i : Nat) (k : Tree), ks[i]? = some k → UniqueDeclsBelow k) → KW K W' →
    (∀ k ∈ ks, DdInv env k W W') → DdInv3 W W' →
    wr.wrList env W ks = true → wr.wrList env W' (dpWalk.dpWalkList env K ks) = true
  | [], _, _, _, _, _, _, _, _ => by simp [dpWalk.dpWalkList, wr.wrList]
  | k :: ks, K, W, W', hu, hK, hI, h3, hw => by
    simp only [wr.wrList, Bool.and_eq_true] at hw
    simp only [dpWalk.dpWalkList, wr.wrList, Bool.and_eq_true]
    exact ⟨keep_wr env k K W W' (hu 0 k rfl) hK (hI k (List.mem_cons_self ..)) h3 hw.1,
      keep_wr_list env ks K W W' (fun i k' hk => hu (i + 1) k' (by simpa using hk)) hK
        (fun k' hk' => hI k' (List.mem_cons_of_mem _ hk')) h3 hw.2⟩
end

/-- A pass started at `x` (empty kept stack), seen from ANY serialiser frame `W`. -/
theorem keep_from_empty (env : Env) (x : Tree) (W : List (Nat × Nat)) (hu : UniqueDeclsBelow x)
    (hw : wr env W x = true) : wr env W (dpWalk env [] x) = true :=
  keep_wr env x [] W W hu (KW.nil W) (DdInv.refl env x W) (DdInv3.refl W) hw

end XotModel
