/-
  After the insertions every name of the repaired subtree has a usable prefix: the frames of the
  rebuilt tree are the frames the walk held plus the new declarations (`Ext`), the walk recorded
  the namespace of every name that failed, and the elements it recorded for `xmlns=""` are exactly
  the no-namespace elements under a default namespace.
-/
import XotModel.Lemmas.RepairApply
import XotModel.Lemmas.RepairSets
import XotModel.Lemmas.Trace

namespace XotModel.Repair
open XotModel

/-- The checks `render_output` makes for one element against the top frame (its own declarations
    pushed): not a no-namespace element under a default namespace, `element_fullname` and every
    `attribute_fullname` succeed. -/
def elementOkAt (nsOf : Nat → Nat) (top1 : List (Nat × Nat)) (name : Nat) (attrs : List Nat) : Bool :=
  !(nsOf name == Env.noNamespace && hasDefault top1) && elemOk (nsOf name) top1 &&
    attrs.all (fun a => attrOk (nsOf a) top1)

mutual
/-- Serialisation of the subtree finds a prefix for every name, entered with the top frame `top`. -/
def okRec (nsOf : Nat → Nat) (top : List (Nat × Nat)) : Tree → Bool
  | .node v ks =>
    match v with
    | .element name =>
      elementOkAt nsOf (pushTop top (Tree.node v ks).nsDecls) name ((Tree.node v ks).attrs.map (·.1)) &&
        okKids nsOf (pushTop top (Tree.node v ks).nsDecls) ks
    | _ => okKids nsOf top ks
def okKids (nsOf : Nat → Nat) (top : List (Nat × Nat)) : List Tree → Bool
  | [] => true
  | k :: ks => okRec nsOf top k && okKids nsOf top ks
end

theorem okRec_element (nsOf : Nat → Nat) (top : List (Nat × Nat)) (name : Nat) (ks : List Tree) :
    okRec nsOf top (.node (.element name) ks) =
      (elementOkAt nsOf (pushTop top (declsOfKids ks)) name ((Tree.node (.element name) ks).attrs.map (·.1)) &&
        okKids nsOf (pushTop top (declsOfKids ks)) ks) := by
  simp only [okRec, nsDecls_node]

theorem okRec_other (nsOf : Nat → Nat) (top : List (Nat × Nat)) (v : Value) (ks : List Tree)
    (hv : v.isElement = false) : okRec nsOf top (.node v ks) = okKids nsOf top ks := by
  cases v <;> simp_all [okRec, Value.isElement]

theorem okKids_insertNsKid (nsOf : Nat → Nat) (top : List (Nat × Nat)) (p ns : Nat) (ks : List Tree) :
    okKids nsOf top (insertNsKid p ns ks) = okKids nsOf top ks := by
  induction ks with
  | nil => simp [insertNsKid, okKids, okRec]
  | cons k ks ih =>
    cases k with
    | node kv kk =>
      cases kv with
      | «namespace» q m =>
        simp only [insertNsKid, Tree.value]
        by_cases hq : (q == p) = true
        · simp [hq, okKids, okRec, Tree.kids]
        · simp only [hq, Bool.false_eq_true, if_false, okKids, ih]
      | _ => simp [insertNsKid, Tree.value, okKids, okRec]

theorem okKids_insertNsKids (nsOf : Nat → Nat) (top : List (Nat × Nat)) (nd : List (Nat × Nat)) (v : Value)
    (ks : List Tree) :
    okKids nsOf top (insertNamespaces nd (.node v ks)).kids = okKids nsOf top ks := by
  unfold insertNamespaces
  induction nd generalizing ks with
  | nil => rfl
  | cons d nd ih =>
    rw [List.foldl_cons]
    show okKids nsOf top (List.foldl (fun t d => insertNamespace d.1 d.2 t)
      (Tree.node v (insertNsKid d.1 d.2 ks)) nd).kids = _
    rw [ih, okKids_insertNsKid]

/-! ### `rebuild` keeps values -/

theorem value_rebuild (nsOf : Nat → Nat) (nd : List (Nat × Nat)) (b : Bool) (top : List (Nat × Nat))
    (x : Tree) : (rebuild nsOf nd b top x).value = x.value := by
  cases x with
  | node v ks =>
    cases v <;> simp only [rebuild] <;> (repeat' split) <;>
      (try simp only [value_insertNamespace, value_insertNamespaces]) <;> rfl

theorem map_value_rebuildKids (nsOf : Nat → Nat) (nd : List (Nat × Nat)) (top : List (Nat × Nat))
    (ks : List Tree) : (rebuildKids nsOf nd top ks).map Tree.value = ks.map Tree.value := by
  induction ks with
  | nil => simp [rebuildKids]
  | cons k ks ih => simp [rebuildKids, value_rebuild, ih]

theorem collectRec_other (nsOf : Nat → Nat) (top : List (Nat × Nat)) (pre : Path) (v : Value)
    (ks : List Tree) (acc : Acc) (hv : v.isElement = false) :
    collectRec nsOf top pre (.node v ks) acc = collectKids nsOf top pre 0 ks acc := by
  cases v <;> simp_all [collectRec, Value.isElement]

theorem rebuild_other (nsOf : Nat → Nat) (nd : List (Nat × Nat)) (b : Bool) (top : List (Nat × Nat))
    (v : Value) (ks : List Tree) (hv : v.isElement = false) :
    rebuild nsOf nd b top (.node v ks) =
      if b then insertNamespaces nd (.node v (rebuildKids nsOf nd top ks))
      else .node v (rebuildKids nsOf nd top ks) := by
  cases v <;> simp_all [rebuild, Value.isElement]

/-! ### The collections only grow -/

theorem addMissing_sub {m : List Nat} {ns x : Nat} (h : x ∈ m) : x ∈ addMissing m ns := by
  unfold addMissing; split <;> simp [h]

theorem mem_addMissing (m : List Nat) (ns : Nat) : ns ∈ addMissing m ns := by
  unfold addMissing
  split
  · rename_i h; simpa using h
  · simp

theorem foldl_missing_sub (c : Nat → Bool) (g : Nat → Nat) (as : List Nat) (m : List Nat) (x : Nat)
    (h : x ∈ m) : x ∈ as.foldl (fun m a => if c a then addMissing m (g a) else m) m := by
  induction as generalizing m with
  | nil => exact h
  | cons a as ih =>
    simp only [List.foldl_cons]
    apply ih
    split
    · exact addMissing_sub h
    · exact h

theorem foldl_missing_mem (c : Nat → Bool) (g : Nat → Nat) (as : List Nat) (m : List Nat) (a : Nat)
    (ha : a ∈ as) (hc : c a = true) : g a ∈ as.foldl (fun m a => if c a then addMissing m (g a) else m) m := by
  induction as generalizing m with
  | nil => cases ha
  | cons b as ih =>
    simp only [List.foldl_cons]
    rcases List.mem_cons.mp ha with rfl | ha
    · apply foldl_missing_sub
      simp [hc, mem_addMissing]
    · exact ih _ ha

theorem foldl_missing_id (c : Nat → Bool) (g : Nat → Nat) (as : List Nat) (m : List Nat)
    (h : ∀ a ∈ as, c a = false) : as.foldl (fun m a => if c a then addMissing m (g a) else m) m = m := by
  induction as generalizing m with
  | nil => rfl
  | cons b as ih =>
    simp only [List.foldl_cons, h b (by simp), Bool.false_eq_true, if_false]
    exact ih m (fun a ha => h a (by simp [ha]))

theorem missOf_sub (nsOf : Nat → Nat) (top : List (Nat × Nat)) (name : Nat) (as m : List Nat) (x : Nat)
    (h : x ∈ m) : x ∈ missOf nsOf top name as m := by
  unfold missOf
  apply foldl_missing_sub (fun a => !attrOk (nsOf a) top) nsOf
  split
  · exact addMissing_sub h
  · exact h

theorem missOf_elem (nsOf : Nat → Nat) (top : List (Nat × Nat)) (name : Nat) (as m : List Nat)
    (h : elemOk (nsOf name) top = false) : nsOf name ∈ missOf nsOf top name as m := by
  unfold missOf
  apply foldl_missing_sub (fun a => !attrOk (nsOf a) top) nsOf
  simp [h, mem_addMissing]

theorem missOf_attr (nsOf : Nat → Nat) (top : List (Nat × Nat)) (name : Nat) (as m : List Nat) (a : Nat)
    (ha : a ∈ as) (h : attrOk (nsOf a) top = false) : nsOf a ∈ missOf nsOf top name as m := by
  unfold missOf
  exact foldl_missing_mem (fun a => !attrOk (nsOf a) top) nsOf as _ a ha (by simp [h])

theorem missOf_ok (nsOf : Nat → Nat) (top : List (Nat × Nat)) (name : Nat) (as m : List Nat)
    (he : elemOk (nsOf name) top = true) (ha : ∀ a ∈ as, attrOk (nsOf a) top = true) :
    missOf nsOf top name as m = m := by
  unfold missOf
  simp only [he, Bool.not_true, Bool.false_eq_true, if_false]
  exact foldl_missing_id (fun a => !attrOk (nsOf a) top) nsOf as m (fun a h => by simp [ha a h])

mutual
theorem collect_mono (nsOf : Nat → Nat) : ∀ (t : Tree) (top : List (Nat × Nat)) (pre : Path) (acc : Acc),
    (∀ x ∈ acc.missing, x ∈ (collectRec nsOf top pre t acc).missing) ∧
    (∀ x ∈ acc.used, x ∈ (collectRec nsOf top pre t acc).used)
  | .node v ks, top, pre, acc => by
    cases v with
    | element name =>
      simp only [collectRec]
      obtain ⟨h1, h2⟩ := collectKids_mono nsOf ks (walkTop nsOf top (.node (.element name) ks) name) pre 0
        { missing := missOf nsOf (walkTop nsOf top (.node (.element name) ks) name) name
            ((Tree.node (.element name) ks).attrs.map (·.1)) acc.missing
          undeclare := if needsUndeclare nsOf top (.node (.element name) ks) name then acc.undeclare ++ [pre]
            else acc.undeclare
          used := acc.used ++ (Tree.node (.element name) ks).nsDecls.map (·.1) }
      exact ⟨fun x hx => h1 x (missOf_sub _ _ _ _ _ x hx), fun x hx => h2 x (by simp [hx])⟩
    | document => simpa [collectRec] using collectKids_mono nsOf ks top pre 0 acc
    | text s => simpa [collectRec] using collectKids_mono nsOf ks top pre 0 acc
    | pi a b => simpa [collectRec] using collectKids_mono nsOf ks top pre 0 acc
    | comment s => simpa [collectRec] using collectKids_mono nsOf ks top pre 0 acc
    | «attribute» a b => simpa [collectRec] using collectKids_mono nsOf ks top pre 0 acc
    | «namespace» a b => simpa [collectRec] using collectKids_mono nsOf ks top pre 0 acc
theorem collectKids_mono (nsOf : Nat → Nat) : ∀ (ks : List Tree) (top : List (Nat × Nat)) (pre : Path) (i : Nat)
    (acc : Acc),
    (∀ x ∈ acc.missing, x ∈ (collectKids nsOf top pre i ks acc).missing) ∧
    (∀ x ∈ acc.used, x ∈ (collectKids nsOf top pre i ks acc).used)
  | [], top, pre, i, acc => by simp [collectKids]
  | k :: ks, top, pre, i, acc => by
    simp only [collectKids]
    obtain ⟨a1, a2⟩ := collect_mono nsOf k top (pre ++ [i]) acc
    obtain ⟨b1, b2⟩ := collectKids_mono nsOf ks top pre (i + 1) (collectRec nsOf top (pre ++ [i]) k acc)
    exact ⟨fun x hx => b1 x (a1 x hx), fun x hx => b2 x (a2 x hx)⟩
end

/-! ### Frames of the rebuilt tree -/

/-- `topN` holds what `top` holds plus the new declarations. -/
def Ext (nd top topN : List (Nat × Nat)) : Prop :=
  ∀ p n, (p, n) ∈ topN ↔ (p, n) ∈ top ∨ (p, n) ∈ nd

/-- The namespace got a new non-empty prefix. -/
def HasNd (nd : List (Nat × Nat)) (ns : Nat) : Prop := ∃ p, p ≠ Env.emptyPrefix ∧ (p, ns) ∈ nd

theorem ext_push {nd top topN WD D' : List (Nat × Nat)} (h : Ext nd top topN)
    (heq : ∀ q m, (q, m) ∈ D' ↔ (q, m) ∈ WD) (hk : ∀ p ∈ keys nd, p ∉ keys WD) :
    Ext nd (pushTop top WD) (pushTop topN D') := by
  have hkeys : ∀ q, q ∈ keys D' ↔ q ∈ keys WD := by
    intro q
    rw [mem_keys, mem_keys]
    exact exists_congr (fun m => heq q m)
  intro p n
  rw [mem_pushTop, mem_pushTop, h p n, heq, hkeys]
  constructor
  · rintro (⟨h1 | h1, h2⟩ | h1)
    · exact Or.inl (Or.inl ⟨h1, h2⟩)
    · exact Or.inr h1
    · exact Or.inl (Or.inr h1)
  · rintro ((⟨h1, h2⟩ | h1) | h1)
    · exact Or.inl ⟨Or.inl h1, h2⟩
    · exact Or.inr h1
    · exact Or.inl ⟨Or.inr h1, hk p (mem_keys.mpr ⟨n, h1⟩)⟩

theorem elemOk_ext {nd top topN : List (Nat × Nat)} (h : Ext nd top topN) {ns : Nat}
    (hok : elemOk ns top = true) : elemOk ns topN = true := by
  rw [elemOk_iff] at hok ⊢
  rcases hok with h1 | h1 | ⟨p, hp⟩
  · exact Or.inl h1
  · exact Or.inr (Or.inl h1)
  · exact Or.inr (Or.inr ⟨p, (h p ns).mpr (Or.inl hp)⟩)

theorem attrOk_ext {nd top topN : List (Nat × Nat)} (h : Ext nd top topN) {ns : Nat}
    (hok : attrOk ns top = true) : attrOk ns topN = true := by
  rw [attrOk_iff] at hok ⊢
  rcases hok with h1 | h1 | ⟨p, hne, hp⟩
  · exact Or.inl h1
  · exact Or.inr (Or.inl h1)
  · exact Or.inr (Or.inr ⟨p, hne, (h p ns).mpr (Or.inl hp)⟩)

theorem ok_of_hasNd {nd top topN : List (Nat × Nat)} (h : Ext nd top topN) {ns : Nat} (hnd : HasNd nd ns) :
    elemOk ns topN = true ∧ attrOk ns topN = true := by
  obtain ⟨p, hne, hp⟩ := hnd
  exact ⟨(elemOk_iff _ _).mpr (Or.inr (Or.inr ⟨p, (h p ns).mpr (Or.inr hp)⟩)),
    (attrOk_iff _ _).mpr (Or.inr (Or.inr ⟨p, hne, (h p ns).mpr (Or.inr hp)⟩))⟩

theorem hasDefault_ext {nd top topN : List (Nat × Nat)} (h : Ext nd top topN)
    (hn1 : ∀ d ∈ nd, d.1 ≠ Env.emptyPrefix) (hd : hasDefault top = false) : hasDefault topN = false := by
  cases hc : hasDefault topN with
  | false => rfl
  | true =>
    obtain ⟨n, hn, hm⟩ := (hasDefault_iff _).mp hc
    rcases (h _ _).mp hm with h1 | h1
    · have := (hasDefault_iff top).mpr ⟨n, hn, h1⟩
      rw [hd] at this; cases this
    · exact absurd rfl (hn1 _ h1)

/-- Membership in the declarations the walk continues with. -/
theorem mem_undeclaredDecls (D : List (Nat × Nat)) (q m : Nat) :
    (q, m) ∈ undeclaredDecls D ↔
      (q ≠ Env.emptyPrefix ∧ (q, m) ∈ D) ∨ (q = Env.emptyPrefix ∧ m = Env.noNamespace) := by
  unfold undeclaredDecls
  simp only [List.mem_append, List.mem_filter, bne_iff_ne, ne_eq, List.mem_singleton, Prod.mk.injEq]
  constructor
  · rintro (⟨h1, h2⟩ | h)
    · exact Or.inl ⟨h2, h1⟩
    · exact Or.inr h
  · rintro (⟨h1, h2⟩ | h)
    · exact Or.inl ⟨h2, h1⟩
    · exact Or.inr h

/-- Below an element in no namespace the walk's frame binds no default namespace. -/
theorem walkTop_noDefault (nsOf : Nat → Nat) (top : List (Nat × Nat)) (t : Tree) (name : Nat)
    (hname : nsOf name = Env.noNamespace) : hasDefault (walkTop nsOf top t name) = false := by
  unfold walkTop walkDecls
  cases hu : needsUndeclare nsOf top t name with
  | false =>
    simp only [Bool.false_eq_true, if_false]
    simpa [needsUndeclare, hname] using hu
  | true =>
    simp only [if_true]
    cases hc : hasDefault (pushTop top (undeclaredDecls t.nsDecls)) with
    | false => rfl
    | true =>
      exfalso
      obtain ⟨n, hn, hm⟩ := (hasDefault_iff _).mp hc
      rw [mem_pushTop] at hm
      rcases hm with ⟨_, h2⟩ | h2
      · exact h2 (mem_keys.mpr ⟨Env.noNamespace, (mem_undeclaredDecls _ _ _).mpr (Or.inr ⟨rfl, rfl⟩)⟩)
      · rcases (mem_undeclaredDecls _ _ _).mp h2 with ⟨h3, _⟩ | ⟨_, h3⟩
        · exact h3 rfl
        · exact hn h3

/-- The declarations of the rebuilt element, as a set, are the ones the walk continued with. -/
theorem insertDecl_undeclared (D : List (Nat × Nat)) (hu : (keys D).Nodup) (q m : Nat) :
    (q, m) ∈ insertDecl Env.emptyPrefix Env.noNamespace D ↔ (q, m) ∈ undeclaredDecls D := by
  rw [mem_insertDecl _ _ _ hu, mem_undeclaredDecls]

theorem keys_walkDecls_sub (nsOf : Nat → Nat) (top : List (Nat × Nat)) (t : Tree) (name : Nat) (p : Nat)
    (h : p ∈ keys (walkDecls nsOf top t name)) : p ∈ keys t.nsDecls ∨ p = Env.emptyPrefix := by
  unfold walkDecls at h
  split at h
  · obtain ⟨m, hm⟩ := mem_keys.mp h
    rcases (mem_undeclaredDecls _ _ _).mp hm with ⟨_, h2⟩ | ⟨h2, _⟩
    · exact Or.inl (mem_keys.mpr ⟨m, h2⟩)
    · exact Or.inr h2
  · exact Or.inl h

/-- The element's own checks in the rebuilt tree, from the frame relation. -/
theorem elementOkAt_rebuilt (nsOf : Nat → Nat) (nd : List (Nat × Nat))
    (hn1 : ∀ d ∈ nd, d.1 ≠ Env.emptyPrefix) (top : List (Nat × Nat)) (t : Tree) (name : Nat)
    (top1' : List (Nat × Nat)) (attrs m : List Nat)
    (hext : Ext nd (walkTop nsOf top t name) top1')
    (hm : ∀ ns ∈ missOf nsOf (walkTop nsOf top t name) name attrs m, HasNd nd ns) :
    elementOkAt nsOf top1' name attrs = true := by
  unfold elementOkAt
  simp only [Bool.and_eq_true, Bool.not_eq_true', Bool.and_eq_false_imp, beq_iff_eq, List.all_eq_true]
  refine ⟨⟨?_, ?_⟩, ?_⟩
  · intro hname
    exact hasDefault_ext hext hn1 (walkTop_noDefault nsOf top t name hname)
  · cases he : elemOk (nsOf name) (walkTop nsOf top t name) with
    | true => exact elemOk_ext hext he
    | false => exact (ok_of_hasNd hext (hm _ (missOf_elem _ _ _ _ _ he))).1
  · intro a ha
    cases he : attrOk (nsOf a) (walkTop nsOf top t name) with
    | true => exact attrOk_ext hext he
    | false => exact (ok_of_hasNd hext (hm _ (missOf_attr _ _ _ _ _ a ha he))).2

theorem uniqueBelow_kids {v : Value} {ks : List Tree} (h : UniqueBelow (.node v ks)) :
    ∀ k ∈ ks, UniqueBelow k := by
  intro k hk
  obtain ⟨i, hi⟩ := List.mem_iff_getElem?.mp hk
  exact h.kid hi

theorem uniqueBelow_self {name : Nat} {ks : List Tree} (h : UniqueBelow (.node (.element name) ks)) :
    (keys (declsOfKids ks)).Nodup := by
  have := h [] _ rfl
  simpa [frameOf, Tree.value, UniquePrefixes, nsDecls_node] using this

mutual
/-- Below the repaired element: the rebuilt subtree is fine in any frame that extends the walk's
    frame by the new declarations. -/
theorem rebuild_ok (nsOf : Nat → Nat) (nd : List (Nat × Nat)) (hn1 : ∀ d ∈ nd, d.1 ≠ Env.emptyPrefix) :
    ∀ (x : Tree) (top topN : List (Nat × Nat)) (pre : Path) (acc : Acc), Ext nd top topN → UniqueBelow x →
      (∀ ns ∈ (collectRec nsOf top pre x acc).missing, HasNd nd ns) →
      (∀ p ∈ keys nd, p ∉ (collectRec nsOf top pre x acc).used) →
      okRec nsOf topN (rebuild nsOf nd false top x) = true
  | .node v ks, top, topN, pre, acc, hext, hu, hm, hused => by
    by_cases hv : v.isElement = true
    · cases v <;> simp [Value.isElement] at hv
      rename_i name
      -- abbreviations
      have hD := uniqueBelow_self hu
      simp only [collectRec] at hm hused
      obtain ⟨mono1, mono2⟩ := collectKids_mono nsOf ks (walkTop nsOf top (.node (.element name) ks) name) pre 0
        { missing := missOf nsOf (walkTop nsOf top (.node (.element name) ks) name) name
            ((Tree.node (.element name) ks).attrs.map (·.1)) acc.missing
          undeclare := if needsUndeclare nsOf top (.node (.element name) ks) name then acc.undeclare ++ [pre]
            else acc.undeclare
          used := acc.used ++ (Tree.node (.element name) ks).nsDecls.map (·.1) }
      -- new prefixes are not declared here
      have hfresh : ∀ p ∈ keys nd, p ∉ keys (walkDecls nsOf top (.node (.element name) ks) name) := by
        intro p hp hk
        rcases keys_walkDecls_sub nsOf top _ name p hk with h | h
        · exact hused p hp (mono2 p (by simp only [List.mem_append]; exact Or.inr h))
        · obtain ⟨n, hn⟩ := mem_keys.mp hp
          exact hn1 _ hn h
      have hvals := map_value_rebuildKids nsOf nd (walkTop nsOf top (.node (.element name) ks) name) ks
      have hdk : declsOfKids (rebuildKids nsOf nd (walkTop nsOf top (.node (.element name) ks) name) ks) =
          declsOfKids ks := declsOfKids_congr hvals
      have hat : (Tree.node (.element name)
          (rebuildKids nsOf nd (walkTop nsOf top (.node (.element name) ks) name) ks)).attrs =
          (Tree.node (.element name) ks).attrs := attrs_congr hvals
      cases hc : needsUndeclare nsOf top (.node (.element name) ks) name with
      | false =>
        have hext2 : Ext nd (walkTop nsOf top (.node (.element name) ks) name)
            (pushTop topN (declsOfKids ks)) := by
          have := ext_push (WD := walkDecls nsOf top (.node (.element name) ks) name)
            (D' := declsOfKids ks) hext (by simp [walkDecls, hc, nsDecls_node]) hfresh
          exact this
        simp only [rebuild, hc, Bool.false_eq_true, if_false]
        rw [okRec_element, hdk, hat, Bool.and_eq_true]
        refine ⟨elementOkAt_rebuilt nsOf nd hn1 top _ name _ _ acc.missing hext2
          (fun ns hns => hm ns (mono1 ns hns)), ?_⟩
        exact rebuildKids_ok nsOf nd hn1 ks _ _ pre 0 _ hext2 (uniqueBelow_kids hu) hm hused
      | true =>
        have hext2 : Ext nd (walkTop nsOf top (.node (.element name) ks) name)
            (pushTop topN (insertDecl Env.emptyPrefix Env.noNamespace (declsOfKids ks))) := by
          have := ext_push (WD := walkDecls nsOf top (.node (.element name) ks) name)
            (D' := insertDecl Env.emptyPrefix Env.noNamespace (declsOfKids ks)) hext
            (by intro q m; simp only [walkDecls, hc, if_true, nsDecls_node]; exact insertDecl_undeclared _ hD q m)
            hfresh
          exact this
        simp only [rebuild, hc, if_true, Bool.false_eq_true, if_false, insertNamespace]
        rw [okRec_element, declsOfKids_insertNsKid, hdk, okKids_insertNsKid, Bool.and_eq_true]
        have hat2 : (Tree.node (.element name) (insertNsKid Env.emptyPrefix Env.noNamespace
            (rebuildKids nsOf nd (walkTop nsOf top (.node (.element name) ks) name) ks))).attrs =
            (Tree.node (.element name) ks).attrs := by
          have := attrs_insertNamespace Env.emptyPrefix Env.noNamespace (Tree.node (.element name)
            (rebuildKids nsOf nd (walkTop nsOf top (.node (.element name) ks) name) ks))
          simp only [insertNamespace] at this
          rw [this, hat]
        rw [hat2]
        refine ⟨elementOkAt_rebuilt nsOf nd hn1 top _ name _ _ acc.missing hext2
          (fun ns hns => hm ns (mono1 ns hns)), ?_⟩
        exact rebuildKids_ok nsOf nd hn1 ks _ _ pre 0 _ hext2 (uniqueBelow_kids hu) hm hused
    · have hve : v.isElement = false := by simpa using hv
      rw [collectRec_other nsOf top pre v ks acc hve] at hm hused
      rw [rebuild_other nsOf nd false top v ks hve]
      simp only [Bool.false_eq_true, if_false]
      rw [okRec_other nsOf topN v _ hve]
      exact rebuildKids_ok nsOf nd hn1 ks top topN pre 0 acc hext (uniqueBelow_kids hu) hm hused
theorem rebuildKids_ok (nsOf : Nat → Nat) (nd : List (Nat × Nat)) (hn1 : ∀ d ∈ nd, d.1 ≠ Env.emptyPrefix) :
    ∀ (ks : List Tree) (top topN : List (Nat × Nat)) (pre : Path) (i : Nat) (acc : Acc), Ext nd top topN →
      (∀ k ∈ ks, UniqueBelow k) →
      (∀ ns ∈ (collectKids nsOf top pre i ks acc).missing, HasNd nd ns) →
      (∀ p ∈ keys nd, p ∉ (collectKids nsOf top pre i ks acc).used) →
      okKids nsOf topN (rebuildKids nsOf nd top ks) = true
  | [], _, _, _, _, _, _, _, _, _ => by simp [rebuildKids, okKids]
  | k :: ks, top, topN, pre, i, acc, hext, hu, hm, hused => by
    simp only [collectKids] at hm hused
    obtain ⟨b1, b2⟩ := collectKids_mono nsOf ks top pre (i + 1) (collectRec nsOf top (pre ++ [i]) k acc)
    simp only [rebuildKids, okKids, Bool.and_eq_true]
    refine ⟨?_, ?_⟩
    · exact rebuild_ok nsOf nd hn1 k top topN (pre ++ [i]) acc hext (hu k (by simp))
        (fun ns hns => hm ns (b1 ns hns)) (fun p hp hin => hused p hp (b2 p hin))
    · exact rebuildKids_ok nsOf nd hn1 ks top topN pre (i + 1) _ hext (fun k' hk' => hu k' (by simp [hk']))
        hm hused
end

end XotModel.Repair
