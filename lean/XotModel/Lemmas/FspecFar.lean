/-
  FspecFar — a move whose destination child list is NOT the child list the node leaves (the
  node is a parentless tree, or has another parent).  Everything the four moves need is
  packaged in `Far`: the forest `X` after xot's old-site merge, the forest `Y` after the cut
  (= the specification's cut + merge at the old site), the destination child list seen in `Y`,
  and the specification in the form "insert into `Y`, then merge at the destination".
-/
import XotModel.Lemmas.FspecOld

namespace XotModel
open HTree Spec

theorem kidMap_id : KidMap (id : HTree → HTree) := ⟨fun _ => rfl, fun _ => rfl, fun _ _ => rfl⟩

theorem findList?_setValTop {x a : Nat} (v : Value) (hx : x ≠ a) : ∀ L : List HTree,
    findList? x (replaceTop a (fun k => [k.setValue v]) L) = findList? x L
  | [] => rfl
  | k :: ks => by
    rw [replaceTop_cons]
    by_cases hk : k.handle = a
    · rw [if_pos hk]
      simp only [List.singleton_append]
      rw [findList?_cons, findList?_cons, find?_setValue v (fun e => hx (e.symm.trans hk))]
    · rw [if_neg hk, findList?_cons, findList?_cons, findList?_setValTop v hx ks]

theorem handlesList_setValTop (a : Nat) (v : Value) : ∀ L : List HTree,
    handlesList (replaceTop a (fun k => [k.setValue v]) L) = handlesList L
  | [] => rfl
  | k :: ks => by
    rw [replaceTop_cons]
    split
    · simp [handlesList_cons, setValue_handles]
    · rw [handlesList_cons, handlesList_cons, handlesList_setValTop a v ks]

theorem isTop_split {a : Nat} {L : List HTree} (h : IsTop a L) : ∃ A ka B, L = A ++ ka :: B ∧ ka.handle = a := by
  obtain ⟨k, hk, e⟩ := h
  obtain ⟨A, B, hAB⟩ := List.append_of_mem hk
  exact ⟨A, k, B, hAB, e⟩

/-- The package. -/
structure Far (f : Forest) (keep : Keep) (c : Nat) (t : HTree) (q : Nat) (vq : Value) (Lq : List HTree)
    (X Y : Forest) (φ : HTree → HTree) : Prop where
  xnd : X.allHandles.Nodup
  xget : X.get? c = some t
  xcut : X.editAt (X.parent? c) (dropTop c) = Y
  xcons : X.consolidation = f.consolidation
  ycons : Y.consolidation = f.consolidation
  kid : KidMap φ
  fix : φ t = t
  ysite : SiteAt Y q vq (Lq.map φ)
  yleaf : (∀ k ∈ Lq, k.value.isText = true → k.kids = []) → ∀ k ∈ Lq.map φ, k.value.isText = true → k.kids = []
  spec : ∀ dest : Dest, dest.occupiedBy f c = false → dest.site f = some q →
    (∀ ψ, KidMap ψ → ψ t = t → NatFor ψ (dest.insert t)) →
    specMove keep dest c f = (Y.editAt (some q) (dest.insert t)).mergeAt keep (some q)
  flow2 : X = f → ∀ a v, IsTop a Lq → a ≠ c → t.kids = [] → (∀ ka ∈ Lq, ka.handle = a → ka.kids = []) →
    (f.setValue a v).spliceOut c = Y.editAt (some q) (replaceTop a (fun k => [k.setValue v]))

/-- The moved node is a parentless tree. -/
theorem far_root {f : Forest} {keep : Keep} {c : Nat} {t : HTree} {q : Nat} {vq : Value} {Lq : List HTree}
    (hgc : f.get? c = some t) (hroot : f.ctx? c = none) (sq : SiteAt f q vq Lq) (hq : q ∉ handles t) :
    Far f keep c t q vq Lq f (f.editAt none (dropTop c)) id := by
  have nd := sq.nd
  have hpar : f.parent? c = none := Forest.parent?_of_no_ctx hroot
  refine ⟨nd, hgc, by rw [hpar], rfl, rfl, kidMap_id, rfl, ?_,
    (by intro h; rw [List.map_id]; exact h), ?_, ?_⟩
  · rw [List.map_id]; exact sq.dropRoot hgc hq
  · intro dest hocc hs _
    rw [specMove_unfold hocc hgc hs, hpar, mergeAt_none]
  · intro _ a v hta hac hleaf _
    obtain ⟨A, ka, B, hL, hka⟩ := isTop_split hta
    subst hL
    subst hka
    have hset : f.setValue ka.handle v = f.editAt (some q) (replaceTop ka.handle (fun k => [k.setValue v])) :=
      Forest.setValue_of_ctx v nd sq.ctx
    rw [hset]
    let S : List HTree → List HTree := replaceTop ka.handle (fun k => [k.setValue v])
    have sZ := sq.edit S (by rw [handlesList_setValTop]; exact List.Sublist.refl _)
    have hcq : c ≠ q := fun e => hq (e ▸ ((findList?_some f.roots t hgc).1 ▸ fs_handle_mem_handles t))
    have hZget : (f.editAt (some q) S).get? c = some t := by
      rw [Forest.get?_editAt_other hcq nd (by
        intro v' L' e
        exact findList?_setValTop v (fun e' => hac e'.symm) L'), hgc]
      simp only [Option.map_some]
      rw [editAt_of_not_mem t hq]
    rw [Forest.spliceOut_leaf sZ.nd hZget hleaf]
    have hZroot : (f.editAt (some q) S).ctx? c = none := by
      apply Forest.ctx_none_of_root sZ.nd
      have hr : f.isRoot c = true := by
        rcases Forest.root_or_ctx hgc with h | ⟨cx, h⟩
        · exact h
        · rw [hroot] at h; cases h
      unfold Forest.isRoot at hr ⊢
      rw [Forest.editAt_some_roots, List.any_map]
      simpa [Function.comp, editAt_handle] using hr
    rw [Forest.parent?_of_no_ctx hZroot, Forest.editAt_none_comm]

/-- The moved node has a parent other than the destination parent. -/
theorem far_kid {f : Forest} {keep : Keep} {po : Nat} {vo : Value} {l : List HTree} {t : HTree} {r : List HTree}
    {q : Nat} {vq : Value} {Lq : List HTree} (inv : f.Inv) (norm : f.Normal)
    (hkeep : ∀ a b, a ≠ t.handle → keep a b = true)
    (so : SiteAt f po vo (l ++ t :: r)) (sq : SiteAt f q vq Lq) (hne : po ≠ q) (hq : q ∉ handles t)
    (hvq : vq.isText = false) :
    (∃ φ, Far f keep t.handle t q vq Lq (f.removeConsolidate (prevOf l t) (nextOf r t)).1
      ((f.editAt (some po) (dropTop t.handle)).mergeAt keep (some po)) φ) ∧
    (∃ φ', KidMap φ' ∧ SiteAt (f.removeConsolidate (prevOf l t) (nextOf r t)).1 q vq (Lq.map φ')) := by
  have nd := sq.nd
  have hold := old_stage inv norm so
  have hleafo := so.leaf inv.valid
  obtain ⟨l1, r1, sX, hX, ⟨hsubl, hsubr⟩, hlk⟩ := hold.site so hleafo
  have hsub : (handlesList (l1 ++ r1)).Sublist (handlesList (l ++ r)) := by
    rw [fs_handlesList_append, fs_handlesList_append]; exact hsubl.append hsubr
  have hcut := hold.cut_eq inv norm so hkeep
  obtain ⟨ndL, hpoL⟩ := so.nodupKids
  obtain ⟨tl, tr⟩ := tops_ne_of_nodup ndL
  obtain ⟨ndL1, _⟩ := sX.nodupKids
  obtain ⟨tl1, tr1⟩ := tops_ne_of_nodup ndL1
  have hpot : po ∉ handles t := by
    intro hin
    apply hpoL
    rw [fs_handlesList_append, handlesList_cons]
    exact List.mem_append_right _ (List.mem_append_left _ hin)
  have hXpar : (f.removeConsolidate (prevOf l t) (nextOf r t)).1.parent? t.handle = some po :=
    Forest.parent?_of_ctx sX.ctx
  have hdrop1 : dropTop t.handle (l1 ++ t :: r1) = l1 ++ r1 := dropTop_mid rfl tl1 tr1
  -- `Y` as one edit of `f`
  have hY : (f.editAt (some po) (dropTop t.handle)).mergeAt keep (some po) =
      f.editAt (some po) (fun _ => l1 ++ r1) := by
    rw [← hcut, hX, Forest.editAt_editAt]
    apply so.congr
    simp only [Function.comp]
    exact hdrop1
  -- lookups of `q` in the old child list
  have hqtext : ∀ k ∈ l ++ t :: r, k.value.isText = true → k.handle ≠ q := by
    intro k hk htx e
    obtain ⟨A, B, hAB⟩ := List.append_of_mem hk
    have so' : SiteAt f po vo (A ++ k :: B) := hAB ▸ so
    have := so'.getKid
    rw [e, sq.kids] at this
    have := Option.some.inj this
    rw [← this] at htx
    simp only [HTree.value] at htx
    rw [hvq] at htx; cases htx
  have hlook : findList? q (l1 ++ r1) = findList? q (l ++ t :: r) := by
    have hqt : find? q t = none := find?_eq_none t hq
    obtain ⟨e1, e2⟩ := hlk q (fun k hk => hqtext k (by
      cases List.mem_append.1 hk with
      | inl e => exact List.mem_append_left _ e
      | inr e => exact List.mem_append_right _ (List.mem_cons_of_mem _ e)))
    rw [findList?_append, findList?_append, findList?_cons, hqt, e1, e2]
    rfl
  have hsub' : (handlesList (l1 ++ r1)).Sublist (handlesList (l ++ t :: r)) := by
    refine hsub.trans ?_
    simp only [fs_handlesList_append, handlesList_cons]
    exact (List.Sublist.refl _).append (List.sublist_append_right _ _)
  have sY := so.other sq.kids hne.symm (fun _ => l1 ++ r1) hsub' hlook
  have hlookX : findList? q (l1 ++ t :: r1) = findList? q (l ++ t :: r) := by
    obtain ⟨e1, e2⟩ := hlk q (fun k hk => hqtext k (by
      cases List.mem_append.1 hk with
      | inl e => exact List.mem_append_left _ e
      | inr e => exact List.mem_append_right _ (List.mem_cons_of_mem _ e)))
    rw [findList?_append, findList?_append, findList?_cons, findList?_cons, e1, e2]
  have hsubX : (handlesList (l1 ++ t :: r1)).Sublist (handlesList (l ++ t :: r)) := by
    rw [fs_handlesList_append, fs_handlesList_append, handlesList_cons, handlesList_cons]
    exact hsubl.append ((List.Sublist.refl _).append hsubr)
  have sXq := so.other sq.kids hne.symm (fun _ => l1 ++ t :: r1) hsubX hlookX
  rw [← hX] at sXq
  refine ⟨⟨HTree.editAt po (fun _ => l1 ++ r1), sX.nd, sX.getKid, ?_, ?_, ?_, kidMap_editAt _ _,
    editAt_of_not_mem t hpot, ?_, ?_, ?_, ?_⟩, ⟨_, kidMap_editAt _ _, sXq⟩⟩
  · rw [hXpar]; exact hcut
  · rw [hX]; rfl
  · rw [hY]; rfl
  · rw [hY]; exact sY
  · -- text children of the destination are still leaves
    intro hlf k hk htx
    obtain ⟨k0, hk0, e⟩ := List.mem_map.1 hk
    subst e
    rw [editAt_value] at htx
    have hk0l := hlf k0 hk0 htx
    have hk0po : k0.handle ≠ po := by
      intro e
      obtain ⟨A, B, hAB⟩ := List.append_of_mem hk0
      have sq' : SiteAt f q vq (A ++ k0 :: B) := hAB ▸ sq
      have := sq'.getKid
      rw [e, so.kids] at this
      have := Option.some.inj this
      rw [← this] at hk0l
      simp only [HTree.kids] at hk0l
      cases l <;> cases hk0l
    cases k0 with
    | node h v ks =>
      simp only [HTree.kids] at hk0l
      simp only [HTree.handle] at hk0po
      subst hk0l
      rw [editAt_node, if_neg hk0po]
      rfl
  · -- the specification: graft and old-site merge commute
    intro dest hocc hs hnat
    have hpar : f.parent? t.handle = some po := Forest.parent?_of_ctx so.ctx
    have hgc : f.get? t.handle = some t := so.getKid
    rw [specMove_unfold hocc hgc hs, hpar]
    rcases Bool.eq_false_or_eq_true f.consolidation with hc | hc
    · have c1 : ((f.editAt (some po) (dropTop t.handle)).editAt (some q) (dest.insert t)).consolidation = true := by
        rw [Forest.editAt_consolidation, Forest.editAt_consolidation]; exact hc
      have c2 : (f.editAt (some po) (dropTop t.handle)).consolidation = true := by
        rw [Forest.editAt_consolidation]; exact hc
      rw [mergeAt_on c1, mergeAt_on c2]
      congr 1
      exact Forest.editAt_comm _ hne (natFor_mergeRuns (kidMap_editAt _ _) keep)
        (hnat _ (kidMap_editAt _ _) (editAt_of_not_mem t hpot))
    · have c1 : ((f.editAt (some po) (dropTop t.handle)).editAt (some q) (dest.insert t)).consolidation = false := by
        rw [Forest.editAt_consolidation, Forest.editAt_consolidation]; exact hc
      have c2 : (f.editAt (some po) (dropTop t.handle)).consolidation = false := by
        rw [Forest.editAt_consolidation]; exact hc
      rw [mergeAt_off c1, mergeAt_off c2]
  · -- nothing merged at the old site: a value update at the destination commutes with the cut
    intro hXf a v hta hac hleaf haleaf
    obtain ⟨A, ka, B, hL, hka⟩ := isTop_split hta
    subst hL
    subst hka
    have hset : f.setValue ka.handle v = f.editAt (some q) (replaceTop ka.handle (fun k => [k.setValue v])) :=
      Forest.setValue_of_ctx v nd sq.ctx
    rw [hset]
    have hkaleaf : ka.kids = [] := haleaf ka (List.mem_append_right _ List.mem_cons_self) rfl
    have hpoa : po ≠ ka.handle := by
      intro e
      have := sq.getKid
      rw [← e, so.kids] at this
      have := Option.some.inj this
      rw [← this] at hkaleaf
      simp only [HTree.kids] at hkaleaf
      cases l <;> cases hkaleaf
    have sZo := sq.other so.kids hne (replaceTop ka.handle (fun k => [k.setValue v]))
      (by rw [handlesList_setValTop]; exact List.Sublist.refl _)
      (findList?_setValTop v hpoa _)
    have hψt : HTree.editAt q (replaceTop ka.handle (fun k => [k.setValue v])) t = t := editAt_of_not_mem t hq
    rw [List.map_append, List.map_cons, hψt] at sZo
    rw [Forest.spliceOut_leaf sZo.nd sZo.getKid hleaf, Forest.parent?_of_ctx sZo.ctx]
    have hcomm := Forest.editAt_comm f (p := po) (q := q) (g := dropTop t.handle)
      (g' := replaceTop ka.handle (fun k => [k.setValue v])) hne
      (natFor_dropTop (kidMap_editAt _ _) _) (natFor_setValTop (kidMap_editAt _ _) _ _)
    rw [hcomm]
    congr 1
    rw [← hcut, hXf]

end XotModel
