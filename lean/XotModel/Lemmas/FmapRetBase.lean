/-
  Lemmas for C11 histories with returned values, part 1: what every update of `MapOp2` returns
  (`MapOp2.ret`) is what the reference returns (`specRet2`), from any forest satisfying the
  invariant whose views agree with the reference family.
-/
import XotModel.Lemmas.FmapHistAll
import XotModel.Model.FmapRet

namespace XotModel
namespace Fmap
open HTree
open Forest (MapKind entryKey mapChildren MapEntry)

/-! ### The reads -/

theorem getP_eq (f : Forest) (k : MapKind) (e key : Nat) : getP f k e key = omGet (abs k f e) key :=
  get_eq f k e key

theorem getP_agree {f : Forest} {F : Fam} (hF : Agree f F) (k : MapKind) (e key : Nat) :
    getP f k e key = omGet (F e k) key := by
  rw [getP_eq, hF]

theorem getN_of_absHV (f : Forest) (k : MapKind) (e key : Nat) :
    getN f k e key = ((absHV k f e).find? (fun p => entryKey p.2 == key)).map (·.1) := by
  unfold getN Forest.mapGetNode absHV
  cases f.get? e with
  | none => rfl
  | some t =>
    simp only [List.find?_map, Option.map_map]
    rfl

theorem SameViews.getN {f f' : Forest} {x : Nat} (s : SameViews f f' x) (k : MapKind) (key : Nat) :
    Fmap.getN f' k x key = Fmap.getN f k x key := by
  rw [getN_of_absHV, getN_of_absHV, s.hv k]

theorem getN_some {f : Forest} {k : MapKind} {e key : Nat} {n : HTree}
    (h : f.mapGetNode k e key = some n) : getN f k e key = some n.handle := by
  simp [getN, h]

theorem getN_none {f : Forest} {k : MapKind} {e key : Nat}
    (h : f.mapGetNode k e key = none) : getN f k e key = none := by
  simp [getN, h]

theorem contains_of_getNode {f : Forest} {k : MapKind} {e key : Nat} {n : HTree}
    (h : f.mapGetNode k e key = some n) : omContainsKey (abs k f e) key = true := by
  rw [← containsKey_eq, h]; rfl

theorem Fam.upd_same (F : Fam) (e : Nat) (k : MapKind) (g : OMap Payload → OMap Payload) :
    F.upd e k g e k = g (F e k) := by
  simp [Fam.upd, Fam.set]

/-- The value stored under a key after a step is the reference's. -/
theorem post_get {f : Forest} {F : Fam} (hi : f.Inv) (hF : Agree f F) (op : MapOp2)
    (hok : op.ok f = true) (k : MapKind) (e key : Nat) :
    getP (op.run f).1 k e key = omGet (specStep F op e k) key := by
  rw [getP_eq, (step_all hi hF op hok).2.agree e k]

/-! ### The node returned by `append_*_node` -/

/-- A parentless entry leaf is appended: the node returned is the carrier of the key, or the
    node itself. -/
theorem appendLeafRoot_ret {f : Forest} (hi : f.Inv) (k : MapKind) (e nd : Nat) (v : Value)
    (he : f.isElement e = true) (hm : k.matches v = true) (hroot : HTree.node nd v [] ∈ f.roots) :
    some (f.appendEntryNode k e nd).2.2 =
      if omContainsKey (abs k f e) (entryKey v) then getN f k e (entryKey v) else some nd := by
  obtain ⟨nm, N, A, S, h⟩ := minv_of_inv f e hi he
  have hval : f.value? nd = some v := by
    simp [Forest.value?, leafRoot_get f hi.nodup nd v hroot, HTree.value]
  cases hn : f.mapGetNode k e (entryKey v) with
  | some n =>
    obtain ⟨_, _, heq, _, _⟩ := appendEntryNode_existing h k nd v hval hm n hn
    rw [heq, contains_of_getNode hn, getN_some hn]
    rfl
  | none =>
    obtain ⟨hr, _, _⟩ := touch_place hi h k nd v hm hroot hn
    rw [hr, (getNode_none_iff f k e (entryKey v)).mp hn]
    rfl

/-- `new_*_node(v)` followed by `append_*_node`. -/
theorem appendNew_ret {f : Forest} (hi : f.Inv) (k : MapKind) (e : Nat) (v : Value)
    (he : f.isElement e = true) (hm : k.matches v = true) :
    some ((f.newNode v).1.appendEntryNode k e f.next).2.2 =
      if omContainsKey (abs k f e) (entryKey v) then getN f k e (entryKey v) else some f.next := by
  have hi1 := newNode_inv f hi v
  have he1 := isElement_newNode f v e he
  have hroot : HTree.node f.next v [] ∈ (f.newNode v).1.roots := by simp [newNode_eq]
  have s := newNode_sameViews f hi v (matches_not_element k v hm)
  rw [appendLeafRoot_ret hi1 k e f.next v he1 hm hroot, (s e).abs k, (s e).getN k]

/-- Appending to `e` the entry node of another element `e2` found under `key`. -/
theorem appendRef_ret {f : Forest} (hi : f.Inv) (k : MapKind) (e e2 key : Nat)
    (he : f.isElement e = true) (he2 : f.isElement e2 = true) :
    (f.mapGetNode k e2 key).map (fun n => (f.appendEntryNode k e n.handle).2.2) =
      carrierOf (famOf f) (nodeView f) k e e2 key := by
  unfold carrierOf
  by_cases hne : e2 = e
  · subst hne
    rw [if_pos rfl]
    cases hn : f.mapGetNode k e2 key with
    | none => simp [nodeView, getN, hn]
    | some n =>
      simp only [Option.map_some, nodeView, getN_some hn]
      rw [appendOwn_eq hi k e2 key n he hn]
  · rw [if_neg hne]
    show _ = match omGet (abs k f e2) key with
      | none => none
      | some _ => if omContainsKey (abs k f e) key then getN f k e key else getN f k e2 key
    cases hn : f.mapGetNode k e2 key with
    | none =>
      rw [get_none_of_not_contains _ _ ((getNode_none_iff f k e2 key).mp hn)]
      rfl
    | some n =>
      rw [getNode_payload f k e2 key n hn]
      obtain ⟨hval, hmv, hkey⟩ := getNode_value hi k e2 key n he2 hn
      simp only [Option.map_some]
      cases hn0 : f.mapGetNode k e key with
      | some n0 =>
        obtain ⟨nm, N, A, S, h⟩ := minv_of_inv f e hi he
        have hn0' : f.mapGetNode k e (entryKey n.value) = some n0 := by rw [hkey]; exact hn0
        obtain ⟨_, _, heq, _, _⟩ := appendEntryNode_existing h k n.handle n.value hval hmv n0 hn0'
        rw [heq, contains_of_getNode hn0, getN_some hn0]
        rfl
      | none =>
        rw [(getNode_none_iff f k e key).mp hn0, getN_some hn]
        have hne' : e ≠ e2 := fun h => hne h.symm
        have habs' : f.mapGetNode k e (entryKey n.value) = none := by rw [hkey]; exact hn0
        rw [appendEntryNode_moved hi k e e2 key n he he2 hne' hn habs']
        obtain ⟨nm2, N2, A2, S2, h2⟩ := minv_of_inv f e2 hi he2
        obtain ⟨_, t2, hroot, _, _⟩ := touch_detach hi h2 k key n hn
        have hefd : (f.detach n.handle).1.isElement e = true := by
          rw [(t2.frame e hne').elem]; exact he
        obtain ⟨nm, N, A, S, h⟩ := minv_of_inv _ e t2.inv hefd
        have habs2 : (f.detach n.handle).1.mapGetNode k e (entryKey n.value) = none := by
          rw [getNode_none_iff, (t2.frame e hne').abs k, ← getNode_none_iff]
          exact habs'
        obtain ⟨hr, _, _⟩ := touch_place t2.inv h k n.handle n.value hmv hroot habs2
        rw [hr]
        rfl

/-! ### The entry calls -/

theorem entryAndModify_occupied (f : Forest) (k : MapKind) (e key : Nat) (g : Value → Value)
    (he : f.isElement e = true) :
    (f.entryAndModify k e key g).2.2.isOccupied = omContainsKey (abs k f e) key := by
  cases hn : f.mapGetNode k e key with
  | some n =>
    rw [entryAndModify_found f k e key g n he hn, contains_of_getNode hn]
    rfl
  | none =>
    rw [entryAndModify_absent f k e key g he hn, (getNode_none_iff f k e key).mp hn]
    rfl

/-- `match entry(key) { Occupied(_) => Some(old), Vacant(_) => None }` is the reference lookup. -/
theorem occupied_old {f : Forest} {F : Fam} (hF : Agree f F) (k : MapKind) (e key : Nat) :
    (match f.mapEntry k e key with
      | .occupied key' => Ret.value (getP f k e key')
      | .vacant _ => Ret.value none) = Ret.value (omGet (F e k) key) := by
  rw [mapEntry_eq, hF]
  cases hc : omContainsKey (F e k) key with
  | true => simp only [if_true]; rw [getP_agree hF]
  | false =>
    simp only [Bool.false_eq_true, if_false]
    rw [get_none_of_not_contains _ _ hc]

theorem carrier_agree {f : Forest} {F : Fam} (hF : Agree f F) (k : MapKind) (e key given : Nat) :
    carrier F (nodeView f) k e key given =
      if omContainsKey (abs k f e) key then getN f k e key else some given := by
  unfold carrier
  rw [hF]
  rfl

theorem carrierOf_agree {f : Forest} {F : Fam} (hF : Agree f F) (V : NodeView) (k : MapKind)
    (e e2 key : Nat) : carrierOf F V k e e2 key = carrierOf (famOf f) V k e e2 key := by
  unfold carrierOf famOf
  rw [hF, hF]

/-- What an update returns is what the reference returns. -/
theorem ret_all {f : Forest} {F : Fam} (hi : f.Inv) (hF : Agree f F) (op : MapOp2)
    (hok : op.ok f = true) : op.ret f = specRet2 F (nodeView f) op := by
  cases op with
  | insert k e v => exact congrArg Ret.value (getP_agree hF k e _)
  | remove k e key => exact congrArg Ret.value (getP_agree hF k e _)
  | clear k e => rfl
  | getMutSet k e key new => exact congrArg Ret.value (getP_agree hF k e _)
  | entryOrInsert k e d =>
    have := post_get hi hF (.entryOrInsert k e d) hok k e (entryKey d)
    rw [show specStep F (.entryOrInsert k e d) = F.upd e k (opOrInsert d) from rfl, Fam.upd_same] at this
    exact congrArg Ret.value this
  | entryOrDefault e name =>
    have := post_get hi hF (.entryOrDefault e name) hok .attributes e name
    rw [show specStep F (.entryOrDefault e name) = F.upd e .attributes (opOrInsert (.attribute name []))
      from rfl, Fam.upd_same] at this
    exact congrArg Ret.value this
  | entryAndModify k e key g =>
    simp only [MapOp2.ok] at hok
    show Ret.bool _ = Ret.bool _
    rw [entryAndModify_occupied f k e key _ hok, hF]
  | entryAndModifyOrInsert k e d g =>
    have := post_get hi hF (.entryAndModifyOrInsert k e d g) hok k e (entryKey d)
    rw [show specStep F (.entryAndModifyOrInsert k e d g) = F.upd e k (opModifyOrInsert k d g) from rfl,
      Fam.upd_same] at this
    exact congrArg Ret.value this
  | entryInsert k e v => exact occupied_old hF k e _
  | occupiedInsert k e v => exact occupied_old hF k e _
  | vacantInsert k e v =>
    show (match f.mapEntry k e (entryKey v) with
      | .occupied _ => Ret.value none
      | .vacant key => Ret.value (getP (f.vacantInsert k e v).1 k e key)) = _
    rw [mapEntry_eq, hF]
    show _ = Ret.value (if omContainsKey (F e k) (entryKey v) then none else some (payloadOf v))
    cases hc : omContainsKey (F e k) (entryKey v) with
    | true => rfl
    | false =>
      simp only [Bool.false_eq_true, if_false]
      have := post_get hi hF (.vacantInsert k e v) hok k e (entryKey v)
      rw [show specStep F (.vacantInsert k e v) = F.upd e k (opOrInsert v) from rfl, Fam.upd_same,
        opInsert_of_contains_false v _ hc] at this
      rw [show (MapOp2.vacantInsert k e v).run f = f.vacantInsert k e v from rfl] at this
      rw [this]
      unfold opInsert
      rw [omGet_insert_self]
  | entryRemove k e key => exact occupied_old hF k e _
  | setAttribute e name value => rfl
  | removeAttribute e name => rfl
  | setNamespace e pfx ns => rfl
  | removeNamespace e pfx => rfl
  | appendNewNode k e v =>
    simp only [MapOp2.ok, Bool.and_eq_true] at hok
    show Ret.node (some ((f.newNode v).1.appendEntryNode k e f.next).2.2) =
      Ret.node (carrier F (nodeView f) k e (entryKey v) f.next)
    rw [appendNew_ret hi k e v hok.1 hok.2, carrier_agree hF]
  | appendDetachedNode k e nd v =>
    simp only [MapOp2.ok, Bool.and_eq_true] at hok
    obtain ⟨hroot, hm, _⟩ := isDetachedEntry_root hi k nd v hok.2
    show Ret.node (some (f.appendEntryNode k e nd).2.2) = Ret.node (carrier F (nodeView f) k e (entryKey v) nd)
    rw [appendLeafRoot_ret hi k e nd v hok.1 hm hroot, carrier_agree hF]
  | appendOwnNode k e key =>
    simp only [MapOp2.ok] at hok
    have := appendRef_ret hi k e e key hok hok
    unfold carrierOf at this
    rw [if_pos rfl] at this
    exact congrArg Ret.node this
  | appendAttachedNode k e e2 key =>
    simp only [MapOp2.ok, Bool.and_eq_true] at hok
    show Ret.node _ = Ret.node (carrierOf F (nodeView f) k e e2 key)
    rw [carrierOf_agree hF, ← appendRef_ret hi k e e2 key hok.1.1 hok.1.2]
  | anyAppend e r =>
    cases r with
    | new v =>
      simp only [MapOp2.ok, Bool.and_eq_true] at hok
      cases hk : kindOf? v with
      | none => rw [hk] at hok; simp at hok
      | some k =>
        have hm := kindOf_matches v k hk
        have hi1 := newNode_inv f hi v
        have hg : (f.newNode v).1.get? f.next = some (.node f.next v []) :=
          findList?_direct _ hi1.nodup (.node f.next v []) (by simp [newNode_eq])
        have hval : (f.newNode v).1.value? f.next = some v := by
          simp [Forest.value?, hg, HTree.value]
        show Ret.node (some ((f.newNode v).1.anyAppend e f.next).2.2) = specRet2 F (nodeView f) _
        simp only [specRet2, hk]
        rw [anyAppend_entry _ k e f.next v hval hm, appendNew_ret hi k e v hok.1 hm, carrier_agree hF]
        rfl
    | detached nd v =>
      simp only [MapOp2.ok, Bool.and_eq_true] at hok
      cases hk : kindOf? v with
      | none => rw [hk] at hok; simp at hok
      | some k =>
        rw [hk] at hok
        obtain ⟨hroot, hm, hval⟩ := isDetachedEntry_root hi k nd v hok.2
        show Ret.node (some (f.anyAppend e nd).2.2) = specRet2 F (nodeView f) _
        simp only [specRet2, hk]
        rw [anyAppend_entry _ k e nd v hval hm, appendLeafRoot_ret hi k e nd v hok.1 hm hroot,
          carrier_agree hF]
    | entry k e2 key =>
      simp only [MapOp2.ok, Bool.and_eq_true] at hok
      show Ret.node ((f.mapGetNode k e2 key).map fun n => (f.anyAppend e n.handle).2.2) =
        Ret.node (carrierOf F (nodeView f) k e e2 key)
      rw [carrierOf_agree hF, ← appendRef_ret hi k e e2 key hok.1 hok.2]
      cases hn : f.mapGetNode k e2 key with
      | none => rfl
      | some n =>
        obtain ⟨hval, hmv, _⟩ := getNode_value hi k e2 key n hok.2 hn
        simp only [Option.map_some]
        rw [anyAppend_entry f k e n.handle n.value hval hmv]
  | detachEntryNode k e key => rfl
  | removeEntryNode k e key => rfl

end Fmap
end XotModel
