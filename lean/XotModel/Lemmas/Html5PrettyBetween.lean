/-
  Whitespace of the HTML pretty printer between two consecutive tokens (the HTML counterpart of
  Lemmas/PrettyAdjacent + Lemmas/PrettyBetween; `serialize_pretty` of html5_serializer.rs with
  `Pretty::prettify` of pretty.rs):
    * a newline is written only behind an event that closes markup (`>`, end tag, comment, PI), indentation
      only in front of an event that opens markup (`<name`, end tag, comment, PI);
    * the stack between two consecutive events decides both, and around a text event whose parent is an
      element it holds that parent's `Mixed` entry — so no whitespace on either side of such a text token;
    * with the tag grammar of the event stream: whitespace only between a token that closes markup and a
      token that opens markup;
    * the texts: a token that opens markup begins with `<`, one that closes markup ends with `>` — except the
      EMPTY end-tag token of a void element.
  Family prefix `hpb_`.
-/
import XotModel.Lemmas.Html5PrettyWhere
import XotModel.Lemmas.Html5Stream
import XotModel.Lemmas.PrettyBetween

namespace XotModel
open Gen

variable (c : HtmlCtx) (sup : List Nat) (t : Tree)

/-! ### Kinds of the decorated events -/

theorem hpb_newline_kind (s : PStack) (node : Tree) (o : Output)
    (h : (prettifyHtml c sup s node o).2.2 = true) : o.closesMarkup = true := by
  cases o <;> first | rfl | (simp [prettifyHtml] at h)

theorem hpb_indent_kind (s : PStack) (node : Tree) (o : Output)
    (h : (prettifyHtml c sup s node o).2.1 > 0) : o.opensMarkup = true := by
  cases o with
  | startTagClose =>
    simp only [prettifyHtml] at h
    split at h
    · split at h <;> simp at h
    · simp at h
  | startTagOpen n => rfl
  | endTag n => rfl
  | comment x => rfl
  | pi a b => rfl
  | text x => simp [prettifyHtml] at h
  | pfx a b => simp [prettifyHtml] at h
  | «attribute» a b => simp [prettifyHtml] at h

/-- A granted newline: the event closes markup and the stack it leaves behind grants newlines. -/
theorem hpb_newline_after (s : PStack) (p : Path) (o : Output)
    (h : (prettifyHtmlAt c sup t s p o).2.2 = true) :
    o.closesMarkup = true ∧ (hstep c sup t s (p, o)).getNewline = true := by
  unfold hstep
  unfold prettifyHtmlAt at h ⊢
  cases hn : t.at? p with
  | none => simp [hn] at h
  | some node =>
    simp only [hn] at h ⊢
    exact ⟨hpb_newline_kind c sup s node o h, prettifyHtml_newline_after c sup s node o h⟩

/-- Granted indentation: the event opens markup and the stack it finds is neither mixed nor in
    `xml:space="preserve"` scope. -/
theorem hpb_indent_before (s : PStack) (p : Path) (o : Output)
    (h : (prettifyHtmlAt c sup t s p o).2.1 > 0) :
    o.opensMarkup = true ∧ s.inMixed = false ∧ s.inSpacePreserve = false := by
  unfold prettifyHtmlAt at h
  cases hn : t.at? p with
  | none => simp [hn] at h
  | some node =>
    simp only [hn] at h
    exact ⟨hpb_indent_kind c sup s node o h, prettifyHtml_indent_before c sup s node o h⟩

/-! ### Two consecutive decorated events -/

/-- Two consecutive entries of the decoration list paired with its events: both are trace entries, the
    second one's stack is the stack the first leaves behind. -/
theorem hpb_adjacent (ps : PStack) (evs : List (Path × Output))
    (pre post : List ((Nat × Bool) × Path × Output)) (y1 y2 : (Nat × Bool) × Path × Output)
    (h : List.zip (htmlPrettyTrace c sup t ps evs) evs = pre ++ y1 :: y2 :: post) :
    ∃ ps1, (ps1, y1.2.1, y1.2.2) ∈ htrace c sup t ps evs ∧
      (hstep c sup t ps1 y1.2, y2.2.1, y2.2.2) ∈ htrace c sup t ps evs ∧
      y1.1 = (prettifyHtmlAt c sup t ps1 y1.2.1 y1.2.2).2 ∧
      y2.1 = (prettifyHtmlAt c sup t (hstep c sup t ps1 y1.2) y2.2.1 y2.2.2).2 := by
  induction evs generalizing ps pre with
  | nil => cases pre <;> simp [htmlPrettyTrace] at h
  | cons po evs ih =>
    obtain ⟨p, o⟩ := po
    simp only [htmlPrettyTrace, List.zip_cons_cons] at h
    cases pre with
    | nil =>
      simp only [List.nil_append, List.cons.injEq] at h
      obtain ⟨h1, h2⟩ := h
      subst h1
      cases evs with
      | nil => simp [htmlPrettyTrace] at h2
      | cons po2 evs2 =>
        obtain ⟨p2, o2⟩ := po2
        simp only [htmlPrettyTrace, List.zip_cons_cons, List.cons.injEq] at h2
        obtain ⟨h3, _⟩ := h2
        subst h3
        exact ⟨ps, by simp [htrace], by simp [htrace, hstep], rfl, rfl⟩
    | cons x pre' =>
      simp only [List.cons_append, List.cons.injEq] at h
      obtain ⟨ps1, m1, m2, e1, e2⟩ := ih _ pre' h.2
      exact ⟨ps1, by simp only [htrace, List.mem_cons]; exact Or.inr m1,
        by simp only [htrace, List.mem_cons]; exact Or.inr m2, e1, e2⟩

/-- The events of the zipped list, in order. -/
theorem hpb_zip_events (ps : PStack) (evs : List (Path × Output)) :
    (List.zip (htmlPrettyTrace c sup t ps evs) evs).map (fun y => y.2) = evs := by
  induction evs generalizing ps with
  | nil => rfl
  | cons po evs ih => obtain ⟨p, o⟩ := po; simp [htmlPrettyTrace, ih]

/-- The events of a successful rendered stream are the events it was run on. -/
theorem hpb_rendered_events (outs : List (Path × Output)) :
    ∀ s l, renderHtmlAll c t s outs = .ok l → l.map (fun k => (k.1, k.2.1)) = outs := by
  induction outs with
  | nil =>
    intro s l h
    simp only [renderHtmlAll, Outcome.ok.injEq] at h
    subst h; rfl
  | cons po rest ih =>
    intro s l h
    obtain ⟨p, o⟩ := po
    simp only [renderHtmlAll] at h
    cases hr : renderHtmlAt c t s p o with
    | ok v =>
      obtain ⟨s', tok⟩ := v
      rw [hr] at h
      simp only at h
      cases hrest : renderHtmlAll c t s' rest with
      | ok l' =>
        rw [hrest] at h
        simp only [Outcome.ok.injEq] at h
        subst h
        simp [ih s' l' hrest]
      | err e => rw [hrest] at h; cases h
      | panic => rw [hrest] at h; cases h
    | err e => rw [hr] at h; cases h
    | panic => rw [hr] at h; cases h

/-- Forgetting the token texts of the decorated token stream gives the decorated event stream. -/
theorem hpb_zip_forget (d : List (Nat × Bool)) (l : List (Path × Output × OutputToken)) :
    (List.zip d l).map (fun x => (x.1, x.2.1, x.2.2.1)) = List.zip d (l.map (fun k => (k.1, k.2.1))) := by
  induction d generalizing l with
  | nil => simp
  | cons a d ih =>
    cases l with
    | nil => simp
    | cons k l => simp [ih]

/-! ### Text events -/

/-- A text node whose parent is an element: that parent's stack entry is `Mixed`. -/
theorem hpb_text_parent_mixed (n : Tree) (rel : Path) (i : Nat) (x : Str) (node a : Tree) (name : Nat)
    (hat : n.at? (rel ++ [i]) = some node) (hv : node.value = .text x)
    (ha : n.at? rel = some a) (hav : a.value = .element name) :
    PStack.inMixed (hpentriesAbove c sup n (rel ++ [i])) = true := by
  obtain ⟨a', ha', hk⟩ := at?_snoc n rel i node hat
  rw [ha] at ha'
  cases ha'
  have hmem : node ∈ a.kids := List.mem_of_getElem? hk
  have hnorm : node.value.isNormal = true := by rw [hv]; rfl
  have hnk : node ∈ a.normalKids := mem_normalKids a node hmem hnorm
  have hinl : htmlHasInlineChild c a = true := by
    simp only [htmlHasInlineChild, List.any_eq_true]
    exact ⟨node, hnk, by rw [hv]⟩
  have hfc : a.firstChild?.isSome = true := by
    unfold Tree.firstChild?
    cases hh : a.normalKids with
    | nil => rw [hh] at hnk; cases hnk
    | cons y ys => rfl
  have hopen : StackEntry.mixed ∈ hopenEntryOf c sup a := by
    simp [hopenEntryOf, hav, hfc, hentryFor, hinl]
  have hin := openAbove_hentry c sup n (rel ++ [i]) a ⟨rel, [i], rfl, by simp, ⟨node, hat⟩, ha⟩ _ hopen
  simp only [PStack.inMixed, List.any_eq_true]
  exact ⟨_, hin, rfl⟩

/-- A text event of the HTML run: its node is the start node, or its parent is not an element, or the
    stack around it is inside mixed content. -/
theorem hpb_text_event_stack (start : Path) (n : Tree) (inScope : List (Nat × Nat))
    (hat : t.at? start = some n) (hs : namespacesInScope t start = some inScope)
    (ps : PStack) (p : Path) (x : Str)
    (hx : (ps, p, Output.text x) ∈ htrace c sup t [] (genOutputs t start)) :
    ∃ rel node, p = start ++ rel ∧ n.at? rel = some node ∧ node.value = .text x ∧
      ∀ rel0 i a name, rel = rel0 ++ [i] → n.at? rel0 = some a → a.value = .element name →
        ps.inMixed = true := by
  obtain ⟨rel, h1, h2⟩ := genOutputs_htrace c sup t start n inScope hat hs _ hx
  simp only at h1 h2
  have hev := htrace_mem_events c sup t _ _ _ hx
  simp only at hev
  have hg : genOutputs t start = genNode inScope true start n := by simp [genOutputs, hat, hs]
  rw [hg] at hev
  obtain ⟨rel', n', hp', hat', _, hown⟩ := genNode_tagged inScope true start n _ _ hev
  have hrr : rel' = rel := by
    rw [h1] at hp'
    exact (List.append_cancel_left hp').symm
  subst hrr
  have hv := ownEvent_text hown
  refine ⟨rel', n', h1, hat', hv, ?_⟩
  intro rel0 i a name hr ha hav
  subst hr
  rw [h2]
  simp only [hpentriesFor]
  exact hpb_text_parent_mixed c sup n rel0 i x n' a name hat' hv ha hav

/-- In a `TextOk` tree: the stream is that single text event, or the stack around it is mixed. -/
theorem hpb_text_event_ok (start : Path) (n : Tree) (inScope : List (Nat × Nat))
    (hat : t.at? start = some n) (hs : namespacesInScope t start = some inScope) (hok : TextOk n)
    (ps : PStack) (p : Path) (x : Str)
    (hx : (ps, p, Output.text x) ∈ htrace c sup t [] (genOutputs t start)) :
    (genOutputs t start).length = 1 ∨ ps.inMixed = true := by
  obtain ⟨rel, node, _, hnode, hv, hpar⟩ := hpb_text_event_stack c sup t start n inScope hat hs ps p x hx
  have hg : genOutputs t start = genNode inScope true start n := by simp [genOutputs, hat, hs]
  rcases List.eq_nil_or_concat rel with hnil | ⟨rel0, i, hsn⟩
  · left
    subst hnil
    simp only [Tree.at?, Option.some.injEq] at hnode
    subst hnode
    cases n with
    | node v ks =>
      simp only [Tree.value] at hv
      subst hv
      have hks : ks = [] := ((Tree.forall_node TextOkAt _ ks).mp hok).1.1 rfl
      subst hks
      rw [hg, genNode_text]
      simp [genNode.genKids]
  · right
    rw [List.concat_eq_append] at hsn
    subst hsn
    obtain ⟨a, ha, hk⟩ := at?_snoc n rel0 i node hnode
    have hmem : node ∈ a.kids := List.mem_of_getElem? hk
    obtain ⟨hleaf, hdoc⟩ := Tree.forall_at? TextOkAt n rel0 a hok ha
    cases hav : a.value with
    | element name => exact hpar rel0 i a name rfl ha hav
    | document =>
      have := hdoc hav node hmem
      rw [hv] at this
      cases this
    | text s => have := hleaf (by rw [hav]; rfl); rw [this] at hmem; cases hmem
    | comment s => have := hleaf (by rw [hav]; rfl); rw [this] at hmem; cases hmem
    | pi tg d => have := hleaf (by rw [hav]; rfl); rw [this] at hmem; cases hmem
    | «attribute» a1 a2 => have := hleaf (by rw [hav]; rfl); rw [this] at hmem; cases hmem
    | «namespace» a1 a2 => have := hleaf (by rw [hav]; rfl); rw [this] at hmem; cases hmem

/-! ### Between two consecutive events -/

/-- Whitespace between two consecutive events of the HTML pretty run, EVERY tree: the first closes markup
    or is a text event, the second opens markup or is a text event, and the stack between them (the
    entries of the open elements the whitespace lands in) is neither mixed nor in `preserve` scope. -/
theorem hpb_between_events (start : Path) (n : Tree) (inScope : List (Nat × Nat))
    (hat : t.at? start = some n) (hs : namespacesInScope t start = some inScope)
    (pre post : List ((Nat × Bool) × Path × Output)) (y1 y2 : (Nat × Bool) × Path × Output)
    (h : List.zip (htmlPrettyTrace c sup t [] (genOutputs t start)) (genOutputs t start) = pre ++ y1 :: y2 :: post)
    (hw : y1.1.2 = true ∨ y2.1.1 > 0) :
    ∃ ps1, (ps1, y1.2.1, y1.2.2) ∈ htrace c sup t [] (genOutputs t start) ∧
      (hstep c sup t ps1 y1.2, y2.2.1, y2.2.2) ∈ htrace c sup t [] (genOutputs t start) ∧
      (hstep c sup t ps1 y1.2).inMixed = false ∧ (hstep c sup t ps1 y1.2).inSpacePreserve = false ∧
      (y1.2.2.closesMarkup = true ∨ ∃ x, y1.2.2 = .text x) ∧
      (y2.2.2.opensMarkup = true ∨ ∃ x, y2.2.2 = .text x) := by
  obtain ⟨ps1, m1, m2, e1, e2⟩ := hpb_adjacent c sup t [] _ pre post y1 y2 h
  obtain ⟨d1, p1, o1⟩ := y1
  obtain ⟨d2, p2, o2⟩ := y2
  simp only at m1 m2 e1 e2 hw ⊢
  have hS : (hstep c sup t ps1 (p1, o1)).inMixed = false ∧ (hstep c sup t ps1 (p1, o1)).inSpacePreserve = false := by
    rcases hw with hw | hw
    · rw [e1] at hw
      have := (hpb_newline_after c sup t ps1 p1 o1 hw).2
      exact ⟨getNewline_true this, getNewline_true_preserve this⟩
    · rw [e2] at hw
      exact (hpb_indent_before c sup t _ p2 o2 hw).2
  have hgram : o2.contTag = o1.inTag := by
    have hg : genOutputs t start = genNode inScope true start n := by simp [genOutputs, hat, hs]
    have hev := hpb_zip_events c sup t [] (genOutputs t start)
    rw [h] at hev
    have := genNode_gram inScope true start n
    rw [← hg, ← hev] at this
    simp only [List.map_append, List.map_cons] at this
    exact gram_adjacent _ _ _ _ this
  refine ⟨ps1, m1, m2, hS.1, hS.2, ?_⟩
  rcases hw with hw | hw
  · rw [e1] at hw
    have hc := (hpb_newline_after c sup t ps1 p1 o1 hw).1
    refine ⟨Or.inl hc, ?_⟩
    cases o1 <;> simp [Output.closesMarkup] at hc <;>
      (simp only [Output.inTag] at hgram
       cases o2 <;> simp [Output.contTag] at hgram <;>
         first | exact Or.inl rfl | exact Or.inr ⟨_, rfl⟩)
  · rw [e2] at hw
    have ho := (hpb_indent_before c sup t _ p2 o2 hw).1
    refine ⟨?_, Or.inl ho⟩
    cases o2 <;> simp [Output.opensMarkup] at ho <;>
      (simp only [Output.contTag] at hgram
       cases o1 <;> simp [Output.inTag] at hgram <;>
         first | exact Or.inl rfl | exact Or.inr ⟨_, rfl⟩)

/-! ### What the markup tokens look like -/

/-- A token that opens markup begins with `<` — except the EMPTY end-tag token of a void element. -/
theorem hpb_render_opens (s s' : HState) (node : Tree) (parent : Option Tree) (o : Output) (tok : OutputToken)
    (ho : o.opensMarkup = true) (h : renderHtml c s node parent o = .ok (s', tok)) :
    tok.space = false ∧
    (tok.text.head? = some '<' ∨
      (∃ name, o = .endTag name ∧ c.h.void.matches c.env name = true) ∧ tok.text = []) := by
  cases o with
  | startTagOpen name =>
    simp only [renderHtml] at h
    split at h
    · cases h; exact ⟨rfl, Or.inl (by simp [fmt, fmtHtmlStartTagOpenNs])⟩
    · split at h
      · cases h; exact ⟨rfl, Or.inl (by simp [fmt, fmtHtmlStartTagOpen])⟩
      · cases h
  | endTag name =>
    simp only [renderHtml] at h
    split at h
    · rename_i hv
      cases h
      exact ⟨rfl, Or.inr ⟨⟨name, rfl, hv⟩, rfl⟩⟩
    · split at h
      · cases h; exact ⟨rfl, Or.inl (by simp [fmt, fmtHtmlEndTag])⟩
      · cases h
  | comment x =>
    simp only [renderHtml] at h
    cases h
    exact ⟨rfl, Or.inl (by simp [fmt, fmtHtmlComment])⟩
  | pi tg d =>
    simp only [renderHtml] at h
    split at h
    · cases h
    · split at h
      · split at h
        · cases h
        · cases h; exact ⟨rfl, Or.inl (by simp [fmt, fmtHtmlPiData])⟩
      · cases h; exact ⟨rfl, Or.inl (by simp [fmt, fmtHtmlPi])⟩
  | text x => cases ho
  | pfx a b => cases ho
  | «attribute» a v => cases ho
  | startTagClose => cases ho

/-- A token that closes markup ends with `>` — with the same exception. -/
theorem hpb_render_closes (s s' : HState) (node : Tree) (parent : Option Tree) (o : Output) (tok : OutputToken)
    (ho : o.closesMarkup = true) (h : renderHtml c s node parent o = .ok (s', tok)) :
    tok.text.getLast? = some '>' ∨
      (∃ name, o = .endTag name ∧ c.h.void.matches c.env name = true) ∧ tok.text = [] := by
  cases o with
  | startTagClose =>
    simp only [renderHtml] at h
    cases h
    exact Or.inl (by simp [litHtmlTagClose])
  | endTag name =>
    simp only [renderHtml] at h
    split at h
    · rename_i hv
      cases h
      exact Or.inr ⟨⟨name, rfl, hv⟩, rfl⟩
    · split at h
      · cases h; exact Or.inl (by simpa [fmt, fmtHtmlEndTag] using getLast?_cons_snoc '/' _ [] '>')
      · cases h
  | comment x =>
    simp only [renderHtml] at h
    cases h
    exact Or.inl (by simpa [fmt, fmtHtmlComment] using getLast?_cons_snoc '!' ('-' :: '-' :: x) ['-','-'] '>')
  | pi tg d =>
    simp only [renderHtml] at h
    split at h
    · cases h
    · split at h
      · split at h
        · cases h
        · cases h
          exact Or.inl (by simpa [fmt, fmtHtmlPiData] using getLast?_cons_snoc '?' (c.env.localName tg ++ ' ' :: _) [] '>')
      · cases h
        exact Or.inl (by simpa [fmt, fmtHtmlPi] using getLast?_cons_snoc '?' (c.env.localName tg) [] '>')
  | text x => cases ho
  | pfx a b => cases ho
  | «attribute» a v => cases ho
  | startTagOpen name => cases ho

/-! ### The statement on the decorated token stream -/

/-- No `Mixed` entry above the node: no open element strictly above it has a text or inline-element child,
    is formatted or matches the suppress list. -/
theorem hpb_not_mixed_above (n : Tree) (rel : Path)
    (hm : PStack.inMixed (hpentriesAbove c sup n rel) = false) :
    ∀ a name, OpenAbove n rel a → a.value = .element name → a.firstChild?.isSome = true →
      htmlHasInlineChild c a = false ∧ htmlIsSuppressed c sup name = false := by
  intro a name ha hv hc
  have hopen : hentryFor c sup a ∈ hopenEntryOf c sup a := by simp [hopenEntryOf, hv, hc]
  have hin := openAbove_hentry c sup n rel a ha _ hopen
  have hne : hentryFor c sup a ≠ StackEntry.mixed := by
    intro he
    have : PStack.inMixed (hpentriesAbove c sup n rel) = true := by
      simp only [PStack.inMixed, List.any_eq_true]
      exact ⟨_, hin, by simp [he]⟩
    rw [hm] at this
    cases this
  have h3 : ¬ (htmlHasInlineChild c a = true ∨ htmlIsSuppressed c sup name = true) :=
    fun hor => hne ((hentryFor_mixed_iff c sup a name hv).mpr hor)
  simp only [not_or, Bool.not_eq_true] at h3
  exact h3

/-- The decorated token stream of a successful run: between two consecutive tokens `x1 x2` that have
    whitespace between them (a newline behind `x1` or indentation in front of `x2`), EVERY tree: each is a
    markup token of the right kind and shape, or the token of a text node that is not the child of an
    element; the stack between them is neither mixed nor in `preserve` scope. -/
theorem hpb_between_tokens (start : Path) (n : Tree) (inScope : List (Nat × Nat))
    (hat : t.at? start = some n) (hs : namespacesInScope t start = some inScope)
    (s0 : HState) (l : List (Path × Output × OutputToken))
    (hl : renderHtmlAll c t s0 (genOutputs t start) = .ok l)
    (pre post : List ((Nat × Bool) × Path × Output × OutputToken)) (x1 x2 : (Nat × Bool) × Path × Output × OutputToken)
    (hz : List.zip (htmlPrettyTrace c sup t [] (genOutputs t start)) l = pre ++ x1 :: x2 :: post)
    (hw : x1.1.2 = true ∨ x2.1.1 > 0) :
    ((x1.2.2.1.closesMarkup = true ∧
        (x1.2.2.2.text.getLast? = some '>' ∨
          (∃ name, x1.2.2.1 = .endTag name ∧ c.h.void.matches c.env name = true) ∧ x1.2.2.2.text = [])) ∨
      ∃ x rel node, x1.2.2.1 = .text x ∧ x1.2.1 = start ++ rel ∧ n.at? rel = some node ∧ node.value = .text x ∧
        ∀ rel0 i a name, rel = rel0 ++ [i] → n.at? rel0 = some a → a.value ≠ .element name) ∧
    ((x2.2.2.1.opensMarkup = true ∧ x2.2.2.2.space = false ∧
        (x2.2.2.2.text.head? = some '<' ∨
          (∃ name, x2.2.2.1 = .endTag name ∧ c.h.void.matches c.env name = true) ∧ x2.2.2.2.text = [])) ∨
      ∃ x rel node, x2.2.2.1 = .text x ∧ x2.2.1 = start ++ rel ∧ n.at? rel = some node ∧ node.value = .text x ∧
        ∀ rel0 i a name, rel = rel0 ++ [i] → n.at? rel0 = some a → a.value ≠ .element name) ∧
    ∃ rel, x2.2.1 = start ++ rel ∧
      PStack.inMixed (hpentriesFor c sup x2.2.2.1 n rel) = false ∧
      PStack.inSpacePreserve (hpentriesFor c sup x2.2.2.1 n rel) = false := by
  have hev := hpb_rendered_events c t _ s0 l hl
  have hz' := congrArg (List.map (fun x : (Nat × Bool) × Path × Output × OutputToken => (x.1, x.2.1, x.2.2.1))) hz
  rw [hpb_zip_forget, hev] at hz'
  simp only [List.map_append, List.map_cons] at hz'
  obtain ⟨ps1, m1, m2, hS1, hS2, k1, k2⟩ :=
    hpb_between_events c sup t start n inScope hat hs _ _ _ _ hz' hw
  simp only at m1 m2 hS1 hS2 k1 k2
  have hx1 : x1.2 ∈ l := by
    have : x1 ∈ List.zip (htmlPrettyTrace c sup t [] (genOutputs t start)) l := by rw [hz]; simp
    exact (List.of_mem_zip this).2
  have hx2 : x2.2 ∈ l := by
    have : x2 ∈ List.zip (htmlPrettyTrace c sup t [] (genOutputs t start)) l := by rw [hz]; simp
    exact (List.of_mem_zip this).2
  obtain ⟨sa, sb, node1, hn1, hr1⟩ := renderHtmlAll_mem c t _ s0 l hl _ hx1
  obtain ⟨sc, sd, node2, hn2, hr2⟩ := renderHtmlAll_mem c t _ s0 l hl _ hx2
  obtain ⟨rel, hr1', hr2'⟩ := genOutputs_htrace c sup t start n inScope hat hs _ m2
  simp only at hr1' hr2'
  refine ⟨?_, ?_, rel, hr1', by rw [← hr2']; exact hS1, by rw [← hr2']; exact hS2⟩
  · rcases k1 with k1 | ⟨x, hx⟩
    · exact Or.inl ⟨k1, hpb_render_closes c sa sb node1 _ _ _ k1 hr1⟩
    · right
      rw [hx] at m1
      obtain ⟨rel1, nd, e1, e2, e3, e4⟩ := hpb_text_event_stack c sup t start n inScope hat hs _ _ x m1
      refine ⟨x, rel1, nd, hx, e1, e2, e3, ?_⟩
      intro rel0 i a name hrel ha hav
      have hmx := e4 rel0 i a name hrel ha hav
      have hst : hstep c sup t ps1 (x1.2.1, x1.2.2.1) = ps1 := by
        rw [hx]; exact hstep_neutral c sup t ps1 _ _ rfl
      rw [hst, hmx] at hS1
      cases hS1
  · rcases k2 with k2 | ⟨x, hx⟩
    · obtain ⟨a, b⟩ := hpb_render_opens c sc sd node2 _ _ _ k2 hr2
      exact Or.inl ⟨k2, a, b⟩
    · right
      rw [hx] at m2
      obtain ⟨rel1, nd, e1, e2, e3, e4⟩ := hpb_text_event_stack c sup t start n inScope hat hs _ _ x m2
      refine ⟨x, rel1, nd, hx, e1, e2, e3, ?_⟩
      intro rel0 i a name hrel ha hav
      have hmx := e4 rel0 i a name hrel ha hav
      rw [hmx] at hS1
      cases hS1

/-- `TextOk` trees (well-formed documents and element-rooted subtrees): no text token is involved. -/
theorem hpb_between_tokens_ok (start : Path) (n : Tree) (inScope : List (Nat × Nat))
    (hat : t.at? start = some n) (hs : namespacesInScope t start = some inScope) (hok : TextOk n)
    (s0 : HState) (l : List (Path × Output × OutputToken))
    (hl : renderHtmlAll c t s0 (genOutputs t start) = .ok l)
    (pre post : List ((Nat × Bool) × Path × Output × OutputToken)) (x1 x2 : (Nat × Bool) × Path × Output × OutputToken)
    (hz : List.zip (htmlPrettyTrace c sup t [] (genOutputs t start)) l = pre ++ x1 :: x2 :: post)
    (hw : x1.1.2 = true ∨ x2.1.1 > 0) :
    (x1.2.2.1.closesMarkup = true ∧
      (x1.2.2.2.text.getLast? = some '>' ∨
        (∃ name, x1.2.2.1 = .endTag name ∧ c.h.void.matches c.env name = true) ∧ x1.2.2.2.text = [])) ∧
    (x2.2.2.1.opensMarkup = true ∧ x2.2.2.2.space = false ∧
      (x2.2.2.2.text.head? = some '<' ∨
        (∃ name, x2.2.2.1 = .endTag name ∧ c.h.void.matches c.env name = true) ∧ x2.2.2.2.text = [])) ∧
    ∃ rel, x2.2.1 = start ++ rel ∧
      PStack.inMixed (hpentriesFor c sup x2.2.2.1 n rel) = false ∧
      PStack.inSpacePreserve (hpentriesFor c sup x2.2.2.1 n rel) = false ∧
      ∀ a name, OpenAbove n rel a → a.value = .element name → a.firstChild?.isSome = true →
        htmlHasInlineChild c a = false ∧ htmlIsSuppressed c sup name = false := by
  obtain ⟨g1, g2, rel, g3, g4, g5⟩ :=
    hpb_between_tokens c sup t start n inScope hat hs s0 l hl pre post x1 x2 hz hw
  have hev := hpb_rendered_events c t _ s0 l hl
  have hlen : (genOutputs t start).length ≠ 1 := by
    have h1 := congrArg List.length hz
    have h2 : l.length = (genOutputs t start).length := by rw [← hev]; simp
    rw [List.length_zip, htmlPrettyTrace_length, h2] at h1
    simp at h1
    omega
  -- a text node of a `TextOk` tree below the start node is the child of an element
  have notext : ∀ x rel node, n.at? rel = some node → node.value = .text x →
      (∀ rel0 i a name, rel = rel0 ++ [i] → n.at? rel0 = some a → a.value ≠ .element name) → False := by
    intro x rel1 node hnode hv hpar
    have hg : genOutputs t start = genNode inScope true start n := by simp [genOutputs, hat, hs]
    rcases List.eq_nil_or_concat rel1 with hnil | ⟨rel0, i, hsn⟩
    · subst hnil
      simp only [Tree.at?, Option.some.injEq] at hnode
      subst hnode
      cases n with
      | node v ks =>
        simp only [Tree.value] at hv
        subst hv
        have hks : ks = [] := ((Tree.forall_node TextOkAt _ ks).mp hok).1.1 rfl
        subst hks
        apply hlen
        rw [hg, genNode_text]
        simp [genNode.genKids]
    · rw [List.concat_eq_append] at hsn
      subst hsn
      obtain ⟨a, ha, hk⟩ := at?_snoc n rel0 i node hnode
      have hmem : node ∈ a.kids := List.mem_of_getElem? hk
      obtain ⟨hleaf, hdoc⟩ := Tree.forall_at? TextOkAt n rel0 a hok ha
      cases hav : a.value with
      | element name => exact hpar rel0 i a name rfl ha hav
      | document =>
        have := hdoc hav node hmem
        rw [hv] at this
        cases this
      | text s => have := hleaf (by rw [hav]; rfl); rw [this] at hmem; cases hmem
      | comment s => have := hleaf (by rw [hav]; rfl); rw [this] at hmem; cases hmem
      | pi tg d => have := hleaf (by rw [hav]; rfl); rw [this] at hmem; cases hmem
      | «attribute» a1 a2 => have := hleaf (by rw [hav]; rfl); rw [this] at hmem; cases hmem
      | «namespace» a1 a2 => have := hleaf (by rw [hav]; rfl); rw [this] at hmem; cases hmem
  have hnode2 : ∃ node, n.at? rel = some node := by
    have hx2 : x2.2 ∈ l := by
      have : x2 ∈ List.zip (htmlPrettyTrace c sup t [] (genOutputs t start)) l := by rw [hz]; simp
      exact (List.of_mem_zip this).2
    obtain ⟨_, _, node2, hn2, _⟩ := renderHtmlAll_mem c t _ s0 l hl _ hx2
    rw [g3, at?_append, hat] at hn2
    exact ⟨node2, hn2⟩
  obtain ⟨node2, hnode2⟩ := hnode2
  refine ⟨?_, ?_, rel, g3, g4, g5,
    hpb_not_mixed_above c sup n rel (inMixed_above_of_for c sup _ n rel node2 hnode2 g4)⟩
  · rcases g1 with g1 | ⟨x, rel1, nd, _, _, e2, e3, e4⟩
    · exact g1
    · exact (notext x rel1 nd e2 e3 e4).elim
  · rcases g2 with g2 | ⟨x, rel1, nd, _, _, e2, e3, e4⟩
    · exact g2
    · exact (notext x rel1 nd e2 e3 e4).elim

end XotModel
