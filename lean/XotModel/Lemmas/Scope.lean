/-
  XotModel.Lemmas.Scope — one scope function behind the implementations of nameaccess.rs.

  `allDecls chain` is the list of all declarations visible from a node (nearest element first,
  node order inside an element, then the base `xml` binding).  Nearest-declaration-wins scoping
  is `lookup` in that list; the seen-list walk of `namespace_traverse`, the ancestor walks of
  `namespace_for_prefix` / `prefix_for_namespace` are characterised against it.
-/
import XotModel.Model.Scope

namespace XotModel

/-- Declarations along the chain, nearest first. -/
def flatDecls (chain : List Tree) : List (Nat × Nat) := chain.flatMap Tree.nsDecls

/-- … followed by the base prefixes. -/
def allDecls (chain : List Tree) : List (Nat × Nat) := flatDecls chain ++ basePrefixes

/-- What a declaration `(p, ns)` binds `p` to: `xmlns=""` binds nothing. -/
def bindingOf (p ns : Nat) : Option Nat :=
  if p == Env.emptyPrefix && ns == Env.noNamespace then none else some ns

theorem flatDecls_cons (a : Tree) (rest : List Tree) :
    flatDecls (a :: rest) = a.nsDecls ++ flatDecls rest := by
  simp [flatDecls]

theorem allDecls_cons (a : Tree) (rest : List Tree) :
    allDecls (a :: rest) = a.nsDecls ++ allDecls rest := by
  simp [allDecls, flatDecls_cons]

theorem allDecls_nil : allDecls [] = basePrefixes := by simp [allDecls, flatDecls]

/-- The specification is `lookup` in `allDecls`. -/
theorem scopeSpecChain_eq (chain : List Tree) (p : Nat) :
    scopeSpecChain chain p = ((allDecls chain).lookup p).bind (bindingOf p) := by
  induction chain with
  | nil =>
    simp only [scopeSpecChain, allDecls_nil, basePrefixes, List.lookup_cons, List.lookup_nil]
    by_cases h : p = Env.xmlPrefix
    · subst h; simp [bindingOf, Env.xmlPrefix, Env.xmlNamespace, Env.emptyPrefix]
    · have : (p == Env.xmlPrefix) = false := by simpa using h
      simp [this]
  | cons a rest ih =>
    simp only [scopeSpecChain, allDecls_cons, List.lookup_append]
    cases h : a.nsDecls.lookup p with
    | none => simp [ih]
    | some ns => simp [bindingOf]

/-! ### `namespace_traverse` -/

theorem traverseDecls_nil (seen : List Nat) : traverseDecls seen [] = (seen, []) := rfl

theorem traverseDecls_cons_seen_sc {seen : List Nat} {p n : Nat} {rest : List (Nat × Nat)}
    (h : p ∈ seen) :
    traverseDecls seen ((p, n) :: rest) = traverseDecls seen rest := by
  simp [traverseDecls, h]

theorem traverseDecls_cons_new_sc {seen : List Nat} {p n : Nat} {rest : List (Nat × Nat)}
    (h : p ∉ seen) :
    traverseDecls seen ((p, n) :: rest) =
      ((traverseDecls (seen ++ [p]) rest).1,
        if (p == Env.emptyPrefix) && (n == Env.noNamespace) then (traverseDecls (seen ++ [p]) rest).2
        else (p, n) :: (traverseDecls (seen ++ [p]) rest).2) := by
  simp [traverseDecls, h]

theorem bindingOf_eq_some {p n ns : Nat} : bindingOf p n = some ns ↔ n = ns ∧ ¬(p = Env.emptyPrefix ∧ n = Env.noNamespace) := by
  unfold bindingOf
  by_cases h : p = Env.emptyPrefix ∧ n = Env.noNamespace
  · simp [h]
  · have : ((p == Env.emptyPrefix) && (n == Env.noNamespace)) = false := by
      simpa using h
    simp [this, h]

/-- The `seen` list after the loop: what was seen before plus every declared prefix. -/
theorem traverseDecls_seen_sc (l : List (Nat × Nat)) : ∀ (seen : List Nat) (q : Nat),
    q ∈ (traverseDecls seen l).1 ↔ q ∈ seen ∨ q ∈ l.map Prod.fst := by
  induction l with
  | nil => intro seen q; simp [traverseDecls_nil]
  | cons d rest ih =>
    obtain ⟨p, n⟩ := d
    intro seen q
    by_cases h : p ∈ seen
    · rw [traverseDecls_cons_seen_sc h, ih]
      simp only [List.map_cons, List.mem_cons]
      constructor
      · rintro (h1 | h1)
        · exact .inl h1
        · exact .inr (.inr h1)
      · rintro (h1 | h1 | h1)
        · exact .inl h1
        · exact .inl (h1 ▸ h)
        · exact .inr h1
    · rw [traverseDecls_cons_new_sc h]
      simp only [ih, List.mem_append, List.map_cons, List.mem_cons, List.mem_nil_iff, or_false]
      constructor
      · rintro ((h1 | h1) | h1)
        · exact .inl h1
        · exact .inr (.inl h1)
        · exact .inr (.inr h1)
      · rintro (h1 | h1 | h1)
        · exact .inl (.inl h1)
        · exact .inl (.inr h1)
        · exact .inr h1

/-- What the loop yields: the first declaration of every prefix not seen before, unless it is
    `xmlns=""`. -/
theorem traverseDecls_out_mem (l : List (Nat × Nat)) : ∀ (seen : List Nat) (p ns : Nat),
    (p, ns) ∈ (traverseDecls seen l).2 ↔
      p ∉ seen ∧ l.lookup p = some ns ∧ bindingOf p ns = some ns := by
  induction l with
  | nil => intro seen p ns; simp [traverseDecls_nil]
  | cons d rest ih =>
    obtain ⟨k, v⟩ := d
    intro seen p ns
    by_cases h : k ∈ seen
    · rw [traverseDecls_cons_seen_sc h, ih]
      by_cases hpk : p = k
      · subst hpk; simp [h]
      · have : (p == k) = false := by simpa using hpk
        simp [List.lookup_cons, this]
    · rw [traverseDecls_cons_new_sc h]
      by_cases hpk : p = k
      · subst hpk
        have hnot : ∀ x, (p, x) ∉ (traverseDecls (seen ++ [p]) rest).2 := by
          intro x hx
          have := ((ih (seen ++ [p]) p x).1 hx).1
          simp at this
        by_cases hu : p = Env.emptyPrefix ∧ v = Env.noNamespace
        · have hb : ((p == Env.emptyPrefix) && (v == Env.noNamespace)) = true := by simpa using hu
          simp only [hb, ↓reduceIte, List.lookup_cons_self]
          constructor
          · intro hx; exact absurd hx (hnot ns)
          · rintro ⟨_, h2, h3⟩
            simp only [Option.some.injEq] at h2
            subst h2
            rw [bindingOf_eq_some] at h3
            exact absurd hu h3.2
        · have hb : ((p == Env.emptyPrefix) && (v == Env.noNamespace)) = false := by simpa using hu
          simp only [hb, Bool.false_eq_true, ↓reduceIte, List.lookup_cons_self, List.mem_cons,
            Prod.mk.injEq, true_and]
          constructor
          · rintro (h1 | h1)
            · subst h1
              exact ⟨h, rfl, bindingOf_eq_some.2 ⟨rfl, hu⟩⟩
            · exact absurd h1 (hnot ns)
          · rintro ⟨_, h2, _⟩
            simp only [Option.some.injEq] at h2
            exact .inl h2.symm
      · have hbeq : (p == k) = false := by simpa using hpk
        have hmem : (p, ns) ∈ (if ((k == Env.emptyPrefix) && (v == Env.noNamespace)) = true
            then (traverseDecls (seen ++ [k]) rest).2
            else (k, v) :: (traverseDecls (seen ++ [k]) rest).2) ↔
            (p, ns) ∈ (traverseDecls (seen ++ [k]) rest).2 := by
          split
          · rfl
          · simp [hpk]
        simp only [hmem, ih, List.lookup_cons, hbeq, List.mem_append, List.mem_singleton, hpk, or_false]

theorem traverseDecls_out_nodup (l : List (Nat × Nat)) : ∀ (seen : List Nat),
    ((traverseDecls seen l).2.map Prod.fst).Nodup := by
  induction l with
  | nil => intro seen; simp [traverseDecls_nil]
  | cons d rest ih =>
    obtain ⟨k, v⟩ := d
    intro seen
    by_cases h : k ∈ seen
    · rw [traverseDecls_cons_seen_sc h]; exact ih seen
    · rw [traverseDecls_cons_new_sc h]
      split
      · exact ih _
      · simp only [List.map_cons, List.nodup_cons]
        refine ⟨?_, ih _⟩
        intro hk
        obtain ⟨⟨k', x⟩, hx, hk'⟩ := List.mem_map.1 hk
        simp only at hk'
        subst hk'
        have := ((traverseDecls_out_mem rest (seen ++ [k']) k' x).1 hx).1
        simp at this

theorem traverseDecls_append (l1 l2 : List (Nat × Nat)) : ∀ (seen : List Nat),
    traverseDecls seen (l1 ++ l2) =
      ((traverseDecls (traverseDecls seen l1).1 l2).1,
       (traverseDecls seen l1).2 ++ (traverseDecls (traverseDecls seen l1).1 l2).2) := by
  induction l1 with
  | nil => intro seen; simp [traverseDecls_nil]
  | cons d rest ih =>
    obtain ⟨k, v⟩ := d
    intro seen
    by_cases h : k ∈ seen
    · simp only [List.cons_append, traverseDecls_cons_seen_sc h, ih]
    · simp only [List.cons_append, traverseDecls_cons_new_sc h, ih]
      split <;> simp

theorem traverseChain_eq (chain : List Tree) : ∀ (seen : List Nat),
    traverseChain seen chain = traverseDecls seen (flatDecls chain) := by
  induction chain with
  | nil => intro seen; simp [traverseChain, flatDecls, traverseDecls_nil]
  | cons a rest ih =>
    intro seen
    simp only [traverseChain, flatDecls_cons, traverseDecls_append, ih]

/-- `namespaces_in_scope` is one seen-list pass over `allDecls`. -/
theorem namespacesInScopeChain_eq (chain : List Tree) :
    namespacesInScopeChain chain = (traverseDecls [] (allDecls chain)).2 := by
  simp only [namespacesInScopeChain, traverseChain_eq, allDecls, traverseDecls_append, basePrefixes]
  congr 1
  by_cases h : Env.xmlPrefix ∈ (traverseDecls [] (flatDecls chain)).1
  · rw [traverseDecls_cons_seen_sc h]; simp [traverseDecls_nil, h]
  · rw [traverseDecls_cons_new_sc h]
    have h' : ¬ 1 ∈ (traverseDecls [] (flatDecls chain)).fst := h
    simp [traverseDecls_nil, h', Env.xmlPrefix, Env.emptyPrefix]

theorem mem_namespacesInScopeChain (chain : List Tree) (p ns : Nat) :
    (p, ns) ∈ namespacesInScopeChain chain ↔ scopeSpecChain chain p = some ns := by
  rw [namespacesInScopeChain_eq, traverseDecls_out_mem, scopeSpecChain_eq]
  constructor
  · rintro ⟨_, h2, h3⟩
    simp [h2, h3]
  · intro h
    cases hl : (allDecls chain).lookup p with
    | none => simp [hl] at h
    | some n =>
      simp only [hl, Option.bind_some] at h
      have := (bindingOf_eq_some.1 h).1
      subst this
      exact ⟨by simp, rfl, h⟩

theorem namespacesInScopeChain_nodup (chain : List Tree) :
    ((namespacesInScopeChain chain).map Prod.fst).Nodup := by
  rw [namespacesInScopeChain_eq]; exact traverseDecls_out_nodup _ _

/-! ### `namespace_for_prefix`, `is_prefix_defined` -/

theorem namespaceForPrefixChain_eq_lookup (chain : List Tree) (p : Nat) :
    namespaceForPrefixChain chain p = ((allDecls chain).lookup p).bind (bindingOf p) := by
  induction chain with
  | nil =>
    simp only [namespaceForPrefixChain, allDecls_nil, basePrefixes, List.lookup_cons, List.lookup_nil]
    by_cases h : p = Env.xmlPrefix
    · subst h; simp [bindingOf, Env.xmlPrefix, Env.xmlNamespace, Env.emptyPrefix]
    · have : (p == Env.xmlPrefix) = false := by simpa using h
      simp [this]
  | cons a rest ih =>
    simp only [namespaceForPrefixChain, allDecls_cons, List.lookup_append, Tree.getNamespace]
    cases h : a.nsDecls.lookup p with
    | none => simp [ih]
    | some ns => simp [bindingOf, Bool.and_comm]

/-- `namespace_for_prefix` IS the nearest-declaration-wins binding (since /repo debae56: only
    `xmlns=""` hides). -/
theorem namespaceForPrefixChain_eq (chain : List Tree) (p : Nat) :
    namespaceForPrefixChain chain p = scopeSpecChain chain p := by
  rw [namespaceForPrefixChain_eq_lookup, scopeSpecChain_eq]

theorem containsKey_eq (d : List (Nat × Nat)) (p : Nat) : containsKey d p = (d.lookup p).isSome := by
  induction d with
  | nil => simp [containsKey]
  | cons e rest ih =>
    obtain ⟨k, v⟩ := e
    simp only [containsKey, List.any_cons, List.lookup_cons] at ih ⊢
    by_cases h : p = k
    · subst h; simp
    · have h1 : (p == k) = false := by simpa using h
      have h2 : (k == p) = false := by simpa using (Ne.symm h)
      simp [h1, h2, ih]

theorem isPrefixDefinedChain_eq (chain : List Tree) (p : Nat) :
    isPrefixDefinedChain chain p = ((allDecls chain).lookup p).isSome := by
  induction chain with
  | nil => simp [isPrefixDefinedChain, allDecls_nil, containsKey_eq]
  | cons a rest ih =>
    simp only [isPrefixDefinedChain, allDecls_cons, List.lookup_append, containsKey_eq, ih]
    cases a.nsDecls.lookup p <;> simp

/-! ### `namespace_prefix` (`prefix_for_namespace` is the instance `nonEmpty = false`) -/

/-- May the loop return prefix `k`?  Not the empty prefix when `non_empty` is set. -/
def pfnUsable (ne : Bool) (k : Nat) : Bool := !(ne && k == Env.emptyPrefix)

@[simp] theorem pfnUsable_false (k : Nat) : pfnUsable false k = true := rfl

theorem pfnUsable_true_iff (k : Nat) : pfnUsable true k = true ↔ k ≠ Env.emptyPrefix := by
  simp [pfnUsable]

theorem pfnDecls_nil (ns : Nat) (ne : Bool) (seen : List Nat) : pfnDecls ns ne seen [] = .cont seen := rfl

theorem pfnDecls_cons_seen {ns : Nat} {ne : Bool} {seen : List Nat} {k v : Nat} {rest : List (Nat × Nat)}
    (h : k ∈ seen) : pfnDecls ns ne seen ((k, v) :: rest) = pfnDecls ns ne seen rest := by
  simp [pfnDecls, h]

theorem pfnDecls_cons_skip {ns : Nat} {ne : Bool} {seen : List Nat} {k v : Nat} {rest : List (Nat × Nat)}
    (h : k ∉ seen) (hu : pfnUsable ne k = false) :
    pfnDecls ns ne seen ((k, v) :: rest) = pfnDecls ns ne (k :: seen) rest := by
  have hu' : (ne && k == Env.emptyPrefix) = true := by simpa [pfnUsable] using hu
  simp only [pfnDecls, List.contains_eq_mem, h, decide_false, Bool.false_eq_true, ↓reduceIte, hu']

theorem pfnDecls_cons_hit {ns : Nat} {ne : Bool} {seen : List Nat} {k v : Nat} {rest : List (Nat × Nat)}
    (h : k ∉ seen) (hu : pfnUsable ne k = true) (hv : v = ns) :
    pfnDecls ns ne seen ((k, v) :: rest) = .ret (some k) := by
  have hu' : (ne && k == Env.emptyPrefix) = false := by
    cases h' : (ne && k == Env.emptyPrefix)
    · rfl
    · simp [pfnUsable, h'] at hu
  simp [pfnDecls, h, hv, hu']

theorem pfnDecls_cons_miss {ns : Nat} {ne : Bool} {seen : List Nat} {k v : Nat} {rest : List (Nat × Nat)}
    (h : k ∉ seen) (hv : v ≠ ns) :
    pfnDecls ns ne seen ((k, v) :: rest) = pfnDecls ns ne (k :: seen) rest := by
  cases hu : (ne && k == Env.emptyPrefix) <;> simp [pfnDecls, h, hv, hu]

/-- The result of a loop that ran to its end without returning is `None`. -/
def pfnResult : PfnStep → Option Nat
  | .ret r => r
  | .cont _ => none

/-- Two loops one after the other. -/
def pfnThen (s : PfnStep) (f : List Nat → PfnStep) : PfnStep :=
  match s with
  | .ret r => .ret r
  | .cont seen => f seen

theorem pfnDecls_append (ns : Nat) (ne : Bool) (l1 l2 : List (Nat × Nat)) : ∀ (seen : List Nat),
    pfnDecls ns ne seen (l1 ++ l2) =
      pfnThen (pfnDecls ns ne seen l1) (fun s => pfnDecls ns ne s l2) := by
  induction l1 with
  | nil => intro seen; simp [pfnDecls_nil, pfnThen]
  | cons d rest ih =>
    obtain ⟨k, v⟩ := d
    intro seen
    by_cases h : k ∈ seen
    · simp only [List.cons_append, pfnDecls_cons_seen h, ih]
    · cases hu : pfnUsable ne k with
      | false => simp only [List.cons_append, pfnDecls_cons_skip h hu, ih]
      | true =>
        by_cases hv : v = ns
        · simp [pfnDecls_cons_hit h hu hv, pfnThen]
        · simp only [List.cons_append, pfnDecls_cons_miss h hv, ih]

/-- `namespace_prefix` is one pass over `allDecls`. -/
theorem pfnChain_eq (ns : Nat) (ne : Bool) (chain : List Tree) : ∀ (seen : List Nat),
    pfnChain ns ne seen chain = pfnResult (pfnDecls ns ne seen (allDecls chain)) := by
  induction chain with
  | nil =>
    intro seen
    simp only [pfnChain, allDecls_nil]
    cases pfnDecls ns ne seen basePrefixes <;> rfl
  | cons a rest ih =>
    intro seen
    simp only [pfnChain, allDecls_cons, pfnDecls_append]
    cases pfnDecls ns ne seen a.nsDecls with
    | ret r => rfl
    | cont s => simp only [pfnThen, ih]

theorem namespacePrefixChain_eq (chain : List Tree) (ns : Nat) (ne : Bool) :
    namespacePrefixChain chain ns ne = pfnResult (pfnDecls ns ne [] (allDecls chain)) :=
  pfnChain_eq ns ne chain []

/-- Soundness: a returned prefix was not seen before, its first declaration binds it to `ns`,
    and it is not the empty prefix when `non_empty` is set. -/
theorem pfnDecls_sound (ns : Nat) (ne : Bool) (l : List (Nat × Nat)) : ∀ (seen : List Nat) (p : Nat),
    pfnDecls ns ne seen l = .ret (some p) →
      p ∉ seen ∧ l.lookup p = some ns ∧ pfnUsable ne p = true := by
  induction l with
  | nil => intro seen p h; simp [pfnDecls_nil] at h
  | cons d rest ih =>
    obtain ⟨k, v⟩ := d
    intro seen p h
    by_cases hk : k ∈ seen
    · rw [pfnDecls_cons_seen hk] at h
      obtain ⟨h1, h2, h3⟩ := ih _ _ h
      have : (p == k) = false := by
        have : p ≠ k := fun hpk => h1 (hpk ▸ hk)
        simpa using this
      exact ⟨h1, by simp [List.lookup_cons, this, h2], h3⟩
    · have hrec : pfnDecls ns ne (k :: seen) rest = .ret (some p) →
          p ∉ seen ∧ List.lookup p ((k, v) :: rest) = some ns ∧ pfnUsable ne p = true := by
        intro h
        obtain ⟨h1, h2, h3⟩ := ih _ _ h
        simp only [List.mem_cons, not_or] at h1
        have : (p == k) = false := by simpa using h1.1
        exact ⟨h1.2, by simp [List.lookup_cons, this, h2], h3⟩
      cases hu : pfnUsable ne k with
      | false => rw [pfnDecls_cons_skip hk hu] at h; exact hrec h
      | true =>
        by_cases hv : v = ns
        · rw [pfnDecls_cons_hit hk hu hv] at h
          simp only [PfnStep.ret.injEq, Option.some.injEq] at h
          subst h; subst hv
          exact ⟨hk, by simp, hu⟩
        · rw [pfnDecls_cons_miss hk hv] at h; exact hrec h

/-- Completeness: a usable prefix not seen before whose first declaration binds it to `ns` makes
    the loop return some prefix (shadowed prefixes are skipped, not fatal). -/
theorem pfnDecls_complete (ns : Nat) (ne : Bool) (l : List (Nat × Nat)) : ∀ (seen : List Nat),
    (∃ p, p ∉ seen ∧ l.lookup p = some ns ∧ pfnUsable ne p = true) →
      ∃ q, pfnDecls ns ne seen l = .ret (some q) := by
  induction l with
  | nil => intro seen h; simp at h
  | cons d rest ih =>
    obtain ⟨k, v⟩ := d
    intro seen ⟨p, hp, hl, hpu⟩
    by_cases hk : k ∈ seen
    · rw [pfnDecls_cons_seen hk]
      have hpk : (p == k) = false := by
        have : p ≠ k := fun h => hp (h ▸ hk)
        simpa using this
      simp only [List.lookup_cons, hpk] at hl
      exact ih seen ⟨p, hp, hl, hpu⟩
    · cases hu : pfnUsable ne k with
      | false =>
        rw [pfnDecls_cons_skip hk hu]
        have hpk : p ≠ k := fun h => by rw [h, hu] at hpu; exact Bool.false_ne_true hpu
        have hb : (p == k) = false := by simpa using hpk
        simp only [List.lookup_cons, hb] at hl
        exact ih (k :: seen) ⟨p, by simp [hpk, hp], hl, hpu⟩
      | true =>
        by_cases hv : v = ns
        · exact ⟨k, pfnDecls_cons_hit hk hu hv⟩
        · rw [pfnDecls_cons_miss hk hv]
          by_cases hpk : p = k
          · subst hpk
            simp only [List.lookup_cons_self, Option.some.injEq] at hl
            exact absurd hl hv
          · have hb : (p == k) = false := by simpa using hpk
            simp only [List.lookup_cons, hb] at hl
            exact ih (k :: seen) ⟨p, by simp [hpk, hp], hl, hpu⟩

/-- The loop never returns `Some`-less: `.ret none` does not occur. -/
theorem pfnDecls_ret_some (ns : Nat) (ne : Bool) (l : List (Nat × Nat)) : ∀ (seen : List Nat) (r : Option Nat),
    pfnDecls ns ne seen l = .ret r → ∃ p, r = some p := by
  induction l with
  | nil => intro seen r h; simp [pfnDecls_nil] at h
  | cons d rest ih =>
    obtain ⟨k, v⟩ := d
    intro seen r h
    by_cases hk : k ∈ seen
    · rw [pfnDecls_cons_seen hk] at h; exact ih _ _ h
    · cases hu : pfnUsable ne k with
      | false => rw [pfnDecls_cons_skip hk hu] at h; exact ih _ _ h
      | true =>
        by_cases hv : v = ns
        · rw [pfnDecls_cons_hit hk hu hv] at h
          exact ⟨k, by simpa using h.symm⟩
        · rw [pfnDecls_cons_miss hk hv] at h; exact ih _ _ h

/-! ### Facts about the specification -/

theorem mem_of_lookup_eq_some {l : List (Nat × Nat)} {k b : Nat} (h : l.lookup k = some b) :
    (k, b) ∈ l := by
  obtain ⟨l1, l2, rfl, _⟩ := List.lookup_eq_some_iff.1 h
  simp

/-- `xmlns=""` is never reported as a binding. -/
theorem scopeSpecChain_empty_ne (chain : List Tree) :
    scopeSpecChain chain Env.emptyPrefix ≠ some Env.noNamespace := by
  rw [scopeSpecChain_eq]
  intro h
  cases hl : (allDecls chain).lookup Env.emptyPrefix with
  | none => simp [hl] at h
  | some n =>
    simp only [hl, Option.bind_some] at h
    obtain ⟨h1, h2⟩ := bindingOf_eq_some.1 h
    exact h2 ⟨rfl, h1⟩

/-- The `xml` prefix is always bound. -/
theorem scopeSpecChain_xml (chain : List Tree) : ∃ ns, scopeSpecChain chain Env.xmlPrefix = some ns := by
  rw [scopeSpecChain_eq]
  have : ∃ n, (allDecls chain).lookup Env.xmlPrefix = some n := by
    simp only [allDecls, List.lookup_append, basePrefixes, List.lookup_cons_self]
    cases (flatDecls chain).lookup Env.xmlPrefix <;> simp
  obtain ⟨n, hn⟩ := this
  exact ⟨n, by rw [hn]; simp [bindingOf, Env.xmlPrefix, Env.emptyPrefix]⟩

/-- A real namespace bound by the specification comes from a declaration. -/
theorem scopeSpecChain_some_lookup {chain : List Tree} {p ns : Nat}
    (h : scopeSpecChain chain p = some ns) : (allDecls chain).lookup p = some ns := by
  rw [scopeSpecChain_eq] at h
  cases hl : (allDecls chain).lookup p with
  | none => simp [hl] at h
  | some n =>
    simp only [hl, Option.bind_some] at h
    rw [(bindingOf_eq_some.1 h).1]

theorem scopeSpecChain_of_lookup {chain : List Tree} {p ns : Nat}
    (h : (allDecls chain).lookup p = some ns) (hns : ns ≠ Env.noNamespace) :
    scopeSpecChain chain p = some ns := by
  rw [scopeSpecChain_eq, h]
  exact bindingOf_eq_some.2 ⟨rfl, fun h' => hns h'.2⟩

theorem ancestorsOrSelf_ne_nil : ∀ (path : Path) (t : Tree) (chain : List Tree),
    t.ancestorsOrSelf path = some chain → chain ≠ [] := by
  intro path
  cases path with
  | nil => intro t chain h; simp only [Tree.ancestorsOrSelf, Option.some.injEq] at h; subst h; simp
  | cons i p =>
    intro t chain h
    simp only [Tree.ancestorsOrSelf] at h
    cases hk : t.kids[i]? with
    | none => simp [hk] at h
    | some k =>
      simp only [hk, Option.map_eq_some_iff] at h
      obtain ⟨c, _, rfl⟩ := h
      simp

theorem ancestorsOrSelf_head : ∀ (path : Path) (t : Tree) (chain : List Tree),
    t.ancestorsOrSelf path = some chain → chain.head? = t.at? path := by
  intro path
  induction path with
  | nil => intro t chain h; simp only [Tree.ancestorsOrSelf, Option.some.injEq] at h; subst h; rfl
  | cons i p ih =>
    intro t chain h
    obtain ⟨v, ks⟩ := t
    simp only [Tree.ancestorsOrSelf, Tree.kids] at h
    simp only [Tree.at?]
    cases hk : ks[i]? with
    | none => simp [hk] at h
    | some k =>
      simp only [hk, Option.map_eq_some_iff] at h
      obtain ⟨c, hc, rfl⟩ := h
      have h1 := ih k c hc
      have h2 := ancestorsOrSelf_ne_nil p k c hc
      cases c with
      | nil => exact absurd rfl h2
      | cons a r => simpa using h1

end XotModel
