/-
  FspecMove — what the four moves have in common: the argument check unpacked, `cut` and the
  removal of a leaf as the specification's `dropTop` at the old site, the specification of a
  move in normal form.
-/
import XotModel.Lemmas.FspecNat
import XotModel.Lemmas.FspecRemove

namespace XotModel
open HTree Spec

namespace Forest

theorem parent?_of_ctx {f : Forest} {n : Nat} {c : Ctx} (e : f.ctx? n = some c) : f.parent? n = some c.parent := by
  unfold Forest.parent?; rw [e]; rfl

theorem parent?_of_no_ctx {f : Forest} {n : Nat} (e : f.ctx? n = none) : f.parent? n = none := by
  unfold Forest.parent?; rw [e]; rfl

theorem ctx_none_of_root {f : Forest} {n : Nat} (nd : f.allHandles.Nodup) (h : f.isRoot n = true) :
    f.ctx? n = none := by
  cases hc : f.ctx? n with
  | none => rfl
  | some c => rw [Forest.isRoot_of_ctx nd hc] at h; cases h

/-- `cut`, uniformly: the subtree leaves the child list it is in (or the list of parentless trees). -/
theorem cut_any {f : Forest} {c : Nat} {t : HTree} (nd : f.allHandles.Nodup) (hg : f.get? c = some t) :
    f.cut c = (f.editAt (f.parent? c) (dropTop c), some t) := by
  rcases Forest.root_or_ctx hg with hroot | ⟨cx, hctx⟩
  · have hno := ctx_none_of_root nd hroot
    unfold Forest.cut
    rw [hg, parent?_of_no_ctx hno]
    simp only [hroot, if_true, Forest.editAt]
    rw [dropTop_eq_filter]
  · obtain ⟨e0, v, s⟩ := SiteAt.of_ctx nd hctx
    obtain ⟨ndL, _⟩ := s.nodupKids
    have hself : cx.self = t := by
      have := Forest.get?_of_ctx nd hctx
      rw [hg] at this
      exact (Option.some.inj this).symm
    obtain ⟨tl, tr⟩ := tops_ne_of_nodup ndL
    rw [Forest.cut_of_ctx nd hctx, parent?_of_ctx hctx, hself]
    congr 1
    apply s.congr
    rw [replaceTop_mid e0 (fun k hk => e0 ▸ tl k hk), dropTop_mid e0 (fun k hk => e0 ▸ tl k hk) (fun k hk => e0 ▸ tr k hk)]
    simp

/-- Removing a leaf with `spliceOut` is dropping it. -/
theorem spliceOut_leaf {f : Forest} {c : Nat} {t : HTree} (nd : f.allHandles.Nodup) (hg : f.get? c = some t)
    (hleaf : t.kids = []) : f.spliceOut c = f.editAt (f.parent? c) (dropTop c) := by
  rcases Forest.root_or_ctx hg with hroot | ⟨cx, hctx⟩
  · have hno := ctx_none_of_root nd hroot
    unfold Forest.spliceOut
    rw [hg, parent?_of_no_ctx hno]
    simp only [hroot, if_true, hleaf, List.append_nil, List.length_nil, Nat.zero_le, Forest.editAt]
    rw [dropTop_eq_filter]
  · obtain ⟨e0, v, s⟩ := SiteAt.of_ctx nd hctx
    obtain ⟨ndL, _⟩ := s.nodupKids
    have hself : cx.self = t := by
      have := Forest.get?_of_ctx nd hctx
      rw [hg] at this
      exact (Option.some.inj this).symm
    obtain ⟨tl, tr⟩ := tops_ne_of_nodup ndL
    rw [Forest.spliceOut_of_ctx nd hctx, parent?_of_ctx hctx]
    apply s.congr
    rw [replaceTop_mid e0 (fun k hk => e0 ▸ tl k hk), dropTop_mid e0 (fun k hk => e0 ▸ tl k hk) (fun k hk => e0 ▸ tr k hk),
      hself, hleaf]
    simp

/-! ### `add_structure_check` unpacked -/

theorem isLive_of_get {f : Forest} {n : Nat} {t : HTree} (h : f.get? n = some t) : f.isLive n = true := by
  unfold Forest.isLive; rw [h]; rfl

/-- What a passed structure check says (with distinct handles). -/
theorem structureCheck_unpack {f : Forest} {p c : Nat} (nd : f.allHandles.Nodup)
    (h : f.structureCheck (some p) c = true) :
    ∃ vp Lp t, f.get? p = some (.node p vp Lp) ∧ f.get? c = some t ∧ p ∉ handles t ∧
      t.value.isNormal = true ∧ t.value.isDocument = false ∧
      (vp.isElement = true ∨ vp.isDocument = true) := by
  unfold Forest.structureCheck at h
  simp only [Bool.and_eq_true, Bool.or_eq_true, Bool.not_eq_true'] at h
  obtain ⟨⟨hp, hanc⟩, hc⟩ := h
  -- the parent is live
  have hplive : ∃ tp, f.get? p = some tp := by
    cases hg : f.get? p with
    | some tp => exact ⟨tp, rfl⟩
    | none =>
      unfold Forest.isElement Forest.isDocument Forest.value? at hp
      rw [hg] at hp
      simp at hp
  obtain ⟨tp, hgp⟩ := hplive
  have htp : tp.handle = p := (findList?_some f.roots tp hgp).1
  cases tp with
  | node ph vp Lp =>
    simp only [HTree.handle] at htp
    subst htp
    cases hgc : f.get? c with
    | none =>
      unfold Forest.value? at hc
      rw [hgc] at hc
      simp at hc
    | some t =>
      refine ⟨vp, Lp, t, hgp, rfl, ?_, ?_, ?_, ?_⟩
      · intro hin
        have := (ancestors_contains_iff (r := ph) (n := c) nd).2 ⟨t, hgc, hin⟩
        rw [this] at hanc; cases hanc
      · unfold Forest.value? at hc
        rw [hgc] at hc
        simp only [Option.map_some] at hc
        cases hv : t.value <;> rw [hv] at hc <;> simp_all [Value.isNormal, Value.category]
      · unfold Forest.value? at hc
        rw [hgc] at hc
        simp only [Option.map_some] at hc
        cases hv : t.value <;> rw [hv] at hc <;> simp_all [Value.isDocument]
      · unfold Forest.isElement Forest.isDocument Forest.value? at hp
        rw [hgp] at hp
        simpa [HTree.value] using hp

end Forest

/-! ### The specification of a move, unfolded -/

theorem specMove_unfold {keep : Keep} {dest : Dest} {c : Nat} {f : Forest} {t : HTree} {q : Nat}
    (hocc : dest.occupiedBy f c = false) (hg : f.get? c = some t) (hs : dest.site f = some q) :
    specMove keep dest c f =
      (((f.editAt (f.parent? c) (dropTop c)).editAt (some q) (dest.insert t)).mergeAt keep (f.parent? c)).mergeAt
        keep (some q) := by
  unfold specMove
  rw [hocc, hg, hs]
  simp

theorem mergeAt_some (f : Forest) (keep : Keep) (p : Nat) :
    f.mergeAt keep (some p) = if f.consolidation then f.editAt (some p) (mergeRuns keep) else f := rfl

theorem mergeAt_none (f : Forest) (keep : Keep) : f.mergeAt keep none = f := rfl

theorem mergeAt_off {f : Forest} (h : f.consolidation = false) (keep : Keep) (s : Option Nat) :
    f.mergeAt keep s = f := by
  cases s with
  | none => rfl
  | some p => rw [mergeAt_some, h]; rfl

theorem mergeAt_on {f : Forest} (h : f.consolidation = true) (keep : Keep) (p : Nat) :
    f.mergeAt keep (some p) = f.editAt (some p) (mergeRuns keep) := by
  rw [mergeAt_some, h]; rfl

end XotModel
