/-
  The parts of the pre-order around a node, seen from the node upwards (`π ++ [i]`): this is
  the direction in which the iterator machines of access.rs walk.
-/
import XotModel.Lemmas.AxesPre

namespace XotModel.Axes

theorem at?_cons_node {v : Value} {ks : List Tree} {j : Nat} {π : Path} {s : Tree}
    (h : (Tree.node v ks).at? (j :: π) = some s) : ∃ k, ks[j]? = some k ∧ k.at? π = some s := by
  simp only [Tree.at?] at h
  cases hk : ks[j]? with
  | none => rw [hk] at h; cases h
  | some k => rw [hk] at h; exact ⟨k, rfl, h⟩

theorem afterRel_snoc : ∀ (t : Tree) (π : Path) (v : Value) (ks : List Tree) (i : Nat),
    t.at? π = some (.node v ks) → i < ks.length →
    afterRel t (π ++ [i]) = (allPreList (i + 1) (ks.drop (i + 1))).map (π ++ ·) ++ afterRel t π
  | t, [], v, ks, i, h, hi => by
    simp only [Tree.at?, Option.some.injEq] at h
    subst h
    simp [afterRel, List.getElem?_eq_getElem hi]
  | .node v' ks', j :: π, v, ks, i, h, hi => by
    obtain ⟨k, hk, hk'⟩ := at?_cons_node h
    have ih := afterRel_snoc k π v ks i hk' hi
    simp only [List.cons_append, afterRel, hk, ih, List.map_append, List.map_map,
      Function.comp_def, List.append_assoc]

theorem beforeRel_snoc : ∀ (t : Tree) (π : Path) (v : Value) (ks : List Tree) (i : Nat),
    t.at? π = some (.node v ks) → i < ks.length →
    beforeRel t (π ++ [i]) = beforeRel t π ++ π :: (allPreList 0 (ks.take i)).map (π ++ ·)
  | t, [], v, ks, i, h, hi => by
    simp only [Tree.at?, Option.some.injEq] at h
    subst h
    simp [beforeRel, List.getElem?_eq_getElem hi]
  | .node v' ks', j :: π, v, ks, i, h, hi => by
    obtain ⟨k, hk, hk'⟩ := at?_cons_node h
    have ih := beforeRel_snoc k π v ks i hk' hi
    simp only [List.cons_append, beforeRel, hk, ih, List.map_append, List.map_map,
      Function.comp_def, List.append_assoc, List.map_cons]

theorem precRel_snoc : ∀ (t : Tree) (π : Path) (v : Value) (ks : List Tree) (i : Nat),
    t.at? π = some (.node v ks) → i < ks.length →
    precRel t (π ++ [i]) = precRel t π ++ (allPreList 0 (ks.take i)).map (π ++ ·)
  | t, [], v, ks, i, h, hi => by
    simp only [Tree.at?, Option.some.injEq] at h
    subst h
    simp [precRel, List.getElem?_eq_getElem hi]
  | .node v' ks', j :: π, v, ks, i, h, hi => by
    obtain ⟨k, hk, hk'⟩ := at?_cons_node h
    have ih := precRel_snoc k π v ks i hk' hi
    simp only [List.cons_append, precRel, hk, ih, List.map_append, List.map_map,
      Function.comp_def, List.append_assoc]

theorem ancRel_snoc : ∀ (π : Path) (i : Nat), ancRel (π ++ [i]) = ancRel π ++ [π]
  | [], i => by simp [ancRel]
  | j :: π, i => by simp [ancRel, ancRel_snoc π i]

/-- `ancestors p` lists `p` and then its proper prefixes, longest first. -/
theorem ancestorsR_eq (r : List Nat) : ancestorsR r = r.reverse :: (ancRel r.reverse).reverse := by
  induction r with
  | nil => simp [ancestorsR, ancRel]
  | cons i r ih => simp [ancestorsR, ih, ancRel_snoc]

theorem ancestors_eq (p : Path) : ancestors p = p :: (ancRel p).reverse := by
  simp [ancestors, ancestorsR_eq]

/-! ### Membership and order of the pre-order -/

mutual
  theorem mem_allPre_valid : ∀ (s : Tree) (q : Path), q ∈ allPre s → Valid s q
    | .node v ks, q, h => by
      simp only [allPre, List.mem_cons] at h
      rcases h with rfl | h
      · exact valid_nil _
      · exact mem_allPreList_valid ks 0 v ks q (by simp) h
  theorem mem_allPreList_valid : ∀ (ks : List Tree) (j : Nat) (v : Value) (all : List Tree) (q : Path),
      all.drop j = ks → q ∈ allPreList j ks → Valid (.node v all) q
    | [], _, _, _, _, _, h => by simp [allPreList] at h
    | k :: ks, j, v, all, q, hd, h => by
      simp only [allPreList, List.mem_append, List.mem_map] at h
      have hj : all[j]? = some k := by
        have : (all.drop j)[0]? = some k := by rw [hd]; rfl
        simpa using this
      rcases h with ⟨q', hq', rfl⟩ | h
      · have := mem_allPre_valid k q' hq'
        unfold Valid at *
        simp only [Tree.at?, hj]; exact this
      · refine mem_allPreList_valid ks (j + 1) v all q ?_ h
        have : all.drop (j + 1) = (all.drop j).drop 1 := by simp [List.drop_drop]
        rw [this, hd]; rfl
end

theorem valid_mem_allPre : ∀ (t : Tree) (p : Path), Valid t p → p ∈ allPre t := by
  intro t p h
  rw [allPre_split t p h]
  have : p ∈ (allPre (subAt t p)).map (p ++ ·) := by
    apply List.mem_map.mpr
    refine ⟨[], ?_, by simp⟩
    cases subAt t p with
    | node v ks => simp [allPre]
  simp [this]

theorem mem_allPre_iff (t : Tree) (p : Path) : p ∈ allPre t ↔ Valid t p :=
  ⟨mem_allPre_valid t p, valid_mem_allPre t p⟩

mutual
  /-- The pre-order is strictly increasing in document order. -/
  theorem allPre_sorted : ∀ s : Tree, (allPre s).Pairwise (fun a b => docLt a b = true)
    | .node v ks => by
      simp only [allPre, List.pairwise_cons]
      refine ⟨?_, allPreList_sorted ks 0⟩
      intro q hq
      obtain ⟨j', q', rfl, _⟩ := mem_allPreList hq
      rfl
  theorem allPreList_sorted : ∀ (ks : List Tree) (j : Nat),
      (allPreList j ks).Pairwise (fun a b => docLt a b = true)
    | [], _ => by simp [allPreList]
    | k :: ks, j => by
      simp only [allPreList, List.pairwise_append]
      refine ⟨?_, allPreList_sorted ks (j + 1), ?_⟩
      · rw [List.pairwise_map]
        exact (allPre_sorted k).imp (by intro a b h; simpa using h)
      · intro a ha b hb
        obtain ⟨a', _, rfl⟩ := List.mem_map.mp ha
        obtain ⟨j', q', rfl, h1, _⟩ := mem_allPreList hb
        have : j < j' := by omega
        simp [this]
end

theorem pairwise_docLt_nodup {l : List Path} (h : l.Pairwise (fun a b => docLt a b = true)) : l.Nodup := by
  apply h.imp
  intro a b hab e
  subst e
  rw [docLt_irrefl] at hab; cases hab

theorem allPre_nodup (t : Tree) : (allPre t).Nodup := pairwise_docLt_nodup (allPre_sorted t)

theorem pre_sorted (t : Tree) : (pre t).Pairwise (fun a b => docLt a b = true) :=
  (allPre_sorted t).filter _

theorem pre_nodup (t : Tree) : (pre t).Nodup := pairwise_docLt_nodup (pre_sorted t)

theorem mem_pre_iff (t : Tree) (p : Path) : p ∈ pre t ↔ Valid t p ∧ isNormalAt t p = true := by
  simp [pre, mem_allPre_iff]

end XotModel.Axes
