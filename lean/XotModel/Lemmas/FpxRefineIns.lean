/-
  FpxRefine, part 1: `namespaces_mut(e).insert(p, ns)` of the forest model (`Forest.mapInsert
  .namespaces e (.namespace p ns)`) as ONE edit of the child list of `e` by `insertNsKidH`, the
  tree-level `insertNsKid` (Model/Repair.lean) with handles: an existing entry keeps its handle, a new
  one gets the handle `f.next`.  `eraseList` turns `insertNsKidH` into `insertNsKid`.
-/
import XotModel.Lemmas.FpxRepair

namespace XotModel
open HTree
open Forest (MapKind entryKey entryUpdate)

namespace HTree

/-- `insertNsKid` (Model/Repair.lean) on a child list with handles; `fresh` is the handle a new
    namespace node gets. -/
def insertNsKidH (p ns fresh : Nat) : List HTree → List HTree
  | [] => [.node fresh (.namespace p ns) []]
  | k :: ks =>
    match k.value with
    | .namespace q _ =>
      if q == p then .node k.handle (.namespace q ns) k.kids :: ks else k :: insertNsKidH p ns fresh ks
    | _ => .node fresh (.namespace p ns) [] :: k :: ks

theorem erase_value' (k : HTree) : (erase k).value = k.value := by cases k; rfl

theorem erase_kids' (k : HTree) : (erase k).kids = eraseList k.kids := by cases k; rfl

/-- Forgetting the handles gives the tree-level insertion. -/
theorem eraseList_insertNsKidH (p ns fresh : Nat) : ∀ ks : List HTree,
    eraseList (insertNsKidH p ns fresh ks) = insertNsKid p ns (eraseList ks)
  | [] => by simp [insertNsKidH, insertNsKid, eraseList, erase]
  | k :: ks => by
    have ih := eraseList_insertNsKidH p ns fresh ks
    cases k with
    | node h v kk =>
      cases v with
      | «namespace» q x =>
        by_cases hq : (q == p) = true
        · simp [insertNsKidH, insertNsKid, eraseList, erase, HTree.value, Tree.value, hq, HTree.handle,
            HTree.kids, Tree.kids]
        · simp [insertNsKidH, insertNsKid, eraseList, erase, HTree.value, Tree.value, hq, ih]
      | _ => simp [insertNsKidH, insertNsKid, eraseList, erase, HTree.value, Tree.value]

end HTree

namespace HTree

theorem fpxr_cat_ns (c : HTree) : c.value.category = .namespace ↔ ∃ q x, c.value = .namespace q x := by
  cases c with
  | node h v kk => cases v <;> simp [HTree.value, Value.category]

/-- Leading namespace nodes with other prefixes are walked over. -/
theorem insertNsKidH_skip (p ns fresh : Nat) : ∀ (X rest : List HTree),
    (∀ a ∈ X, a.value.category = .namespace) → (∀ a ∈ X, Fmap.keyOf a ≠ p) →
    insertNsKidH p ns fresh (X ++ rest) = X ++ insertNsKidH p ns fresh rest
  | [], _, _, _ => rfl
  | a :: X, rest, hc, hk => by
    obtain ⟨q, x, hv⟩ := (fpxr_cat_ns a).mp (hc a (by simp))
    have hq : (q == p) = false := by
      have := hk a (by simp)
      simp only [Fmap.keyOf, hv, entryKey] at this
      simpa using this
    have ih := insertNsKidH_skip p ns fresh X rest (fun b hb => hc b (by simp [hb])) (fun b hb => hk b (by simp [hb]))
    simp only [List.cons_append, insertNsKidH, hv, hq, Bool.false_eq_true, if_false, ih]

theorem insertNsKidH_hit (p ns fresh : Nat) (n : HTree) (rest : List HTree)
    (hc : n.value.category = .namespace) (hk : Fmap.keyOf n = p) :
    insertNsKidH p ns fresh (n :: rest) = n.setValue (entryUpdate n.value (.namespace p ns)) :: rest := by
  obtain ⟨q, x, hv⟩ := (fpxr_cat_ns n).mp hc
  have hq : q = p := by simpa [Fmap.keyOf, hv, entryKey] using hk
  subst hq
  cases n with
  | node h v kk =>
    simp only [HTree.value] at hv
    subst hv
    simp [insertNsKidH, HTree.value, HTree.setValue, entryUpdate, HTree.handle, HTree.kids]

theorem insertNsKidH_end (p ns fresh : Nat) (rest : List HTree)
    (hc : ∀ a ∈ rest, a.value.category ≠ .namespace) :
    insertNsKidH p ns fresh rest = .node fresh (.namespace p ns) [] :: rest := by
  cases rest with
  | nil => rfl
  | cons a rest =>
    have := hc a (by simp)
    cases a with
    | node h v kk => cases v <;> simp_all [insertNsKidH, HTree.value, Value.category]

end HTree

namespace Forest
open Fmap

/-- **One call `namespaces_mut(e).insert(p, ns)`** on an element of a forest with the invariant: the
    roots afterwards are the roots with the child list of `e` edited by `insertNsKidH` (an existing
    entry keeps its handle, a new one gets `f.next`); `next` does not decrease. -/
theorem fpxr_mapInsert_roots {f : Forest} (hi : f.Inv) {e : Nat} (he : f.isElement e = true) (p ns : Nat) :
    (f.mapInsert .namespaces e (.namespace p ns)).1.roots =
      mapAtList e (atKids (insertNsKidH p ns f.next)) f.roots ∧
    f.next ≤ (f.mapInsert .namespaces e (.namespace p ns)).1.next := by
  obtain ⟨nm, N, A, S, h⟩ := minv_of_inv f e hi he
  have hw := withKids_of f.roots e (insertNsKidH p ns f.next) _ h.loc.nodup h.loc.get
  rw [hw]
  simp only [HTree.kids]
  have hrest : ∀ a ∈ A ++ S, a.value.category ≠ .namespace := by
    intro a ha
    rcases List.mem_append.mp ha with ha | ha
    · rw [h.sect.allAt a ha]; decide
    · rw [h.sect.allNm a ha]; decide
  cases hn : f.mapGetNode .namespaces e p with
  | some n =>
    rw [mapInsert_found f .namespaces e (.namespace p ns) n he hn]
    rw [h.getNode .namespaces] at hn
    obtain ⟨hkey, s1, s2, hs, hs1⟩ := find?_key_split _ _ _ hn
    obtain ⟨heq, _⟩ := insert_existing h .namespaces (.namespace p ns) rfl n s1 s2 hs p hkey hs1
    simp only [Sect.sec] at hs
    have hNs : ∀ a ∈ s1, a.value.category = .namespace := fun a ha => h.sect.allNs a (by rw [hs]; simp [ha])
    have hnc : n.value.category = .namespace := h.sect.allNs n (by rw [hs]; simp)
    refine ⟨?_, ?_⟩
    · simp only
      rw [heq]
      simp only [preK, postK, List.nil_append]
      congr 1
      have : N ++ A ++ S = s1 ++ (n :: (s2 ++ (A ++ S))) := by rw [hs]; simp
      rw [this, insertNsKidH_skip p ns f.next s1 _ hNs hs1, insertNsKidH_hit p ns f.next n _ hnc hkey]
      simp
    · simp only; rw [heq]; exact Nat.le_refl _
  | none =>
    have hn' := hn
    rw [h.getNode .namespaces] at hn'
    have habs := find?_key_none _ _ hn'
    obtain ⟨hloc1, hroot1, hne1, hbelow1⟩ := located_newNode h.loc h.below (.namespace p ns)
    have h1 : MInv (f.newNode (.namespace p ns)).1 e nm N A S := ⟨hloc1, h.sect, h.uniq, hbelow1, h.leaf⟩
    obtain ⟨hplace, _⟩ := place_absent h1 .namespaces f.next (.namespace p ns) rfl hroot1 hne1 habs
    rw [rootsWithout_newNode f h.below (.namespace p ns)] at hplace
    have hcall : f.mapInsert .namespaces e (.namespace p ns) =
        (f.newNode (.namespace p ns)).1.mapPlace .namespaces e f.next := by
      simp [Forest.mapInsert, he, hn, entryKey, newNode_eq]
    rw [hcall, hplace]
    simp only [Sect.sec] at habs
    refine ⟨?_, ?_⟩
    · simp only [preK, postK, Sect.sec, List.nil_append]
      congr 1
      rw [List.append_assoc N A S, insertNsKidH_skip p ns f.next N _ h.sect.allNs habs,
        insertNsKidH_end p ns f.next _ hrest]
      simp
    · simp [newNode_eq]

end Forest
end XotModel
