/-
  Scope facts for the C10 repair theorems: `namespaces_in_scope` is nearest-declaration-wins
  (`scopeSpecChain`).  These are the lemmas of Lemmas/Scope.lean (C09 family) restated under the
  `XotModel.Repair` namespace with an `rs_` prefix, because the C09 and C10 lemma families reuse
  names and cannot be imported together.
-/
import XotModel.Model.Scope

namespace XotModel.Repair
open XotModel


/-- Declarations along the chain, nearest first. -/
def rs_flatDecls (chain : List Tree) : List (Nat × Nat) := chain.flatMap Tree.nsDecls

/-- … followed by the base prefixes. -/
def rs_allDecls (chain : List Tree) : List (Nat × Nat) := rs_flatDecls chain ++ basePrefixes

/-- What a declaration `(p, ns)` binds `p` to: `xmlns=""` binds nothing. -/
def rs_bindingOf (p ns : Nat) : Option Nat :=
  if p == Env.emptyPrefix && ns == Env.noNamespace then none else some ns

theorem rs_flatDecls_cons (a : Tree) (rest : List Tree) :
    rs_flatDecls (a :: rest) = a.nsDecls ++ rs_flatDecls rest := by
  simp [rs_flatDecls]

theorem rs_allDecls_cons (a : Tree) (rest : List Tree) :
    rs_allDecls (a :: rest) = a.nsDecls ++ rs_allDecls rest := by
  simp [rs_allDecls, rs_flatDecls_cons]

theorem rs_allDecls_nil : rs_allDecls [] = basePrefixes := by simp [rs_allDecls, rs_flatDecls]

/-- The specification is `lookup` in `rs_allDecls`. -/
theorem rs_scopeSpecChain_eq (chain : List Tree) (p : Nat) :
    scopeSpecChain chain p = ((rs_allDecls chain).lookup p).bind (rs_bindingOf p) := by
  induction chain with
  | nil =>
    simp only [scopeSpecChain, rs_allDecls_nil, basePrefixes, List.lookup_cons, List.lookup_nil]
    by_cases h : p = Env.xmlPrefix
    · subst h; simp [rs_bindingOf, Env.xmlPrefix, Env.xmlNamespace, Env.emptyPrefix]
    · have : (p == Env.xmlPrefix) = false := by simpa using h
      simp [this]
  | cons a rest ih =>
    simp only [scopeSpecChain, rs_allDecls_cons, List.lookup_append]
    cases h : a.nsDecls.lookup p with
    | none => simp [ih]
    | some ns => simp [rs_bindingOf]

/-! ### `namespace_traverse` -/

theorem rs_traverseDecls_nil (seen : List Nat) : traverseDecls seen [] = (seen, []) := rfl

theorem rs_traverseDecls_cons_seen {seen : List Nat} {p n : Nat} {rest : List (Nat × Nat)}
    (h : p ∈ seen) :
    traverseDecls seen ((p, n) :: rest) = traverseDecls seen rest := by
  simp [traverseDecls, h]

theorem rs_traverseDecls_cons_new {seen : List Nat} {p n : Nat} {rest : List (Nat × Nat)}
    (h : p ∉ seen) :
    traverseDecls seen ((p, n) :: rest) =
      ((traverseDecls (seen ++ [p]) rest).1,
        if (p == Env.emptyPrefix) && (n == Env.noNamespace) then (traverseDecls (seen ++ [p]) rest).2
        else (p, n) :: (traverseDecls (seen ++ [p]) rest).2) := by
  simp [traverseDecls, h]

theorem rs_bindingOf_eq_some {p n ns : Nat} : rs_bindingOf p n = some ns ↔ n = ns ∧ ¬(p = Env.emptyPrefix ∧ n = Env.noNamespace) := by
  unfold rs_bindingOf
  by_cases h : p = Env.emptyPrefix ∧ n = Env.noNamespace
  · simp [h]
  · have : ((p == Env.emptyPrefix) && (n == Env.noNamespace)) = false := by
      simpa using h
    simp [this, h]

/-- The `seen` list after the loop: what was seen before plus every declared prefix. -/
theorem rs_traverseDecls_seen (l : List (Nat × Nat)) : ∀ (seen : List Nat) (q : Nat),
    q ∈ (traverseDecls seen l).1 ↔ q ∈ seen ∨ q ∈ l.map Prod.fst := by
  induction l with
  | nil => intro seen q; simp [rs_traverseDecls_nil]
  | cons d rest ih =>
    obtain ⟨p, n⟩ := d
    intro seen q
    by_cases h : p ∈ seen
    · rw [rs_traverseDecls_cons_seen h, ih]
      simp only [List.map_cons, List.mem_cons]
      constructor
      · rintro (h1 | h1)
        · exact .inl h1
        · exact .inr (.inr h1)
      · rintro (h1 | h1 | h1)
        · exact .inl h1
        · exact .inl (h1 ▸ h)
        · exact .inr h1
    · rw [rs_traverseDecls_cons_new h]
      simp only [ih, List.mem_append, List.map_cons, List.mem_cons, List.mem_nil_iff, or_false]
      constructor
      · rintro ((h1 | h1) | h1)
        · exact .inl h1
        · exact .inr (.inl h1)
        · exact .inr (.inr h1)
      · rintro (h1 | h1 | h1)
        · exact .inl (.inl h1)
        · exact .inl (.inr h1)
        · exact .inr h1

/-- What the loop yields: the first declaration of every prefix not seen before, unless it is
    `xmlns=""`. -/
theorem rs_traverseDecls_out_mem (l : List (Nat × Nat)) : ∀ (seen : List Nat) (p ns : Nat),
    (p, ns) ∈ (traverseDecls seen l).2 ↔
      p ∉ seen ∧ l.lookup p = some ns ∧ rs_bindingOf p ns = some ns := by
  induction l with
  | nil => intro seen p ns; simp [rs_traverseDecls_nil]
  | cons d rest ih =>
    obtain ⟨k, v⟩ := d
    intro seen p ns
    by_cases h : k ∈ seen
    · rw [rs_traverseDecls_cons_seen h, ih]
      by_cases hpk : p = k
      · subst hpk; simp [h]
      · have : (p == k) = false := by simpa using hpk
        simp [List.lookup_cons, this]
    · rw [rs_traverseDecls_cons_new h]
      by_cases hpk : p = k
      · subst hpk
        have hnot : ∀ x, (p, x) ∉ (traverseDecls (seen ++ [p]) rest).2 := by
          intro x hx
          have := ((ih (seen ++ [p]) p x).1 hx).1
          simp at this
        by_cases hu : p = Env.emptyPrefix ∧ v = Env.noNamespace
        · have hb : ((p == Env.emptyPrefix) && (v == Env.noNamespace)) = true := by simpa using hu
          simp only [hb, ↓reduceIte, List.lookup_cons_self]
          constructor
          · intro hx; exact absurd hx (hnot ns)
          · rintro ⟨_, h2, h3⟩
            simp only [Option.some.injEq] at h2
            subst h2
            rw [rs_bindingOf_eq_some] at h3
            exact absurd hu h3.2
        · have hb : ((p == Env.emptyPrefix) && (v == Env.noNamespace)) = false := by simpa using hu
          simp only [hb, Bool.false_eq_true, ↓reduceIte, List.lookup_cons_self, List.mem_cons,
            Prod.mk.injEq, true_and]
          constructor
          · rintro (h1 | h1)
            · subst h1
              exact ⟨h, rfl, rs_bindingOf_eq_some.2 ⟨rfl, hu⟩⟩
            · exact absurd h1 (hnot ns)
          · rintro ⟨_, h2, _⟩
            simp only [Option.some.injEq] at h2
            exact .inl h2.symm
      · have hbeq : (p == k) = false := by simpa using hpk
        have hmem : (p, ns) ∈ (if ((k == Env.emptyPrefix) && (v == Env.noNamespace)) = true
            then (traverseDecls (seen ++ [k]) rest).2
            else (k, v) :: (traverseDecls (seen ++ [k]) rest).2) ↔
            (p, ns) ∈ (traverseDecls (seen ++ [k]) rest).2 := by
          split
          · rfl
          · simp [hpk]
        simp only [hmem, ih, List.lookup_cons, hbeq, List.mem_append, List.mem_singleton, hpk, or_false]

theorem rs_traverseDecls_out_nodup (l : List (Nat × Nat)) : ∀ (seen : List Nat),
    ((traverseDecls seen l).2.map Prod.fst).Nodup := by
  induction l with
  | nil => intro seen; simp [rs_traverseDecls_nil]
  | cons d rest ih =>
    obtain ⟨k, v⟩ := d
    intro seen
    by_cases h : k ∈ seen
    · rw [rs_traverseDecls_cons_seen h]; exact ih seen
    · rw [rs_traverseDecls_cons_new h]
      split
      · exact ih _
      · simp only [List.map_cons, List.nodup_cons]
        refine ⟨?_, ih _⟩
        intro hk
        obtain ⟨⟨k', x⟩, hx, hk'⟩ := List.mem_map.1 hk
        simp only at hk'
        subst hk'
        have := ((rs_traverseDecls_out_mem rest (seen ++ [k']) k' x).1 hx).1
        simp at this

theorem rs_traverseDecls_append (l1 l2 : List (Nat × Nat)) : ∀ (seen : List Nat),
    traverseDecls seen (l1 ++ l2) =
      ((traverseDecls (traverseDecls seen l1).1 l2).1,
       (traverseDecls seen l1).2 ++ (traverseDecls (traverseDecls seen l1).1 l2).2) := by
  induction l1 with
  | nil => intro seen; simp [rs_traverseDecls_nil]
  | cons d rest ih =>
    obtain ⟨k, v⟩ := d
    intro seen
    by_cases h : k ∈ seen
    · simp only [List.cons_append, rs_traverseDecls_cons_seen h, ih]
    · simp only [List.cons_append, rs_traverseDecls_cons_new h, ih]
      split <;> simp

theorem rs_traverseChain_eq (chain : List Tree) : ∀ (seen : List Nat),
    traverseChain seen chain = traverseDecls seen (rs_flatDecls chain) := by
  induction chain with
  | nil => intro seen; simp [traverseChain, rs_flatDecls, rs_traverseDecls_nil]
  | cons a rest ih =>
    intro seen
    simp only [traverseChain, rs_flatDecls_cons, rs_traverseDecls_append, ih]

/-- `namespaces_in_scope` is one seen-list pass over `rs_allDecls`. -/
theorem rs_namespacesInScopeChain_eq (chain : List Tree) :
    namespacesInScopeChain chain = (traverseDecls [] (rs_allDecls chain)).2 := by
  simp only [namespacesInScopeChain, rs_traverseChain_eq, rs_allDecls, rs_traverseDecls_append, basePrefixes]
  congr 1
  by_cases h : Env.xmlPrefix ∈ (traverseDecls [] (rs_flatDecls chain)).1
  · rw [rs_traverseDecls_cons_seen h]; simp [rs_traverseDecls_nil, h]
  · rw [rs_traverseDecls_cons_new h]
    have h' : ¬ 1 ∈ (traverseDecls [] (rs_flatDecls chain)).fst := h
    simp [rs_traverseDecls_nil, h', Env.xmlPrefix, Env.emptyPrefix]

theorem rs_mem_namespacesInScopeChain (chain : List Tree) (p ns : Nat) :
    (p, ns) ∈ namespacesInScopeChain chain ↔ scopeSpecChain chain p = some ns := by
  rw [rs_namespacesInScopeChain_eq, rs_traverseDecls_out_mem, rs_scopeSpecChain_eq]
  constructor
  · rintro ⟨_, h2, h3⟩
    simp [h2, h3]
  · intro h
    cases hl : (rs_allDecls chain).lookup p with
    | none => simp [hl] at h
    | some n =>
      simp only [hl, Option.bind_some] at h
      have := (rs_bindingOf_eq_some.1 h).1
      subst this
      exact ⟨by simp, rfl, h⟩

theorem rs_namespacesInScopeChain_nodup (chain : List Tree) :
    ((namespacesInScopeChain chain).map Prod.fst).Nodup := by
  rw [rs_namespacesInScopeChain_eq]; exact rs_traverseDecls_out_nodup _ _

/-! ### `namespace_for_prefix`, `is_prefix_defined` -/


end XotModel.Repair
