/-
  Lemmas for C12, part 23 (clone_with_prefixes serialises): what `addSpec` does to the
  declarations, the attributes and the writability of the clone's root.
-/
import XotModel.Lemmas.FclonePrefix4
import XotModel.Lemmas.FclonePrefix5

namespace XotModel
open HTree

/-- A node that only carries a declaration. -/
def IsNsLeaf (x : HTree) : Prop := ∃ h p ns, x = .node h (.namespace p ns) []

theorem IsNsLeaf.cat {x : HTree} (hx : IsNsLeaf x) : (x.value.category == Category.namespace) = true := by
  obtain ⟨h, p, ns, rfl⟩ := hx
  rfl

theorem mem_takeWhile_imp {α} (p : α → Bool) : ∀ (l : List α) (x : α), x ∈ l.takeWhile p → p x = true
  | [], _, h => by simp at h
  | a :: l, x, h => by
    rw [List.takeWhile_cons] at h
    split at h
    · rcases List.mem_cons.mp h with rfl | h'
      · assumption
      · exact mem_takeWhile_imp p l x h'
    · simp at h

theorem head_dropWhile_not {α} (p : α → Bool) : ∀ (l : List α) (y : α), (l.dropWhile p).head? = some y →
    p y = false
  | [], _, h => by simp at h
  | a :: l, y, h => by
    rw [List.dropWhile_cons] at h
    split at h
    · exact head_dropWhile_not p l y h
    · simp at h
      subst h
      simpa using ‹¬p a = true›

theorem takeWhile_split {α} (p : α → Bool) (A B : List α) (hA : ∀ x ∈ A, p x = true)
    (hB : ∀ y, B.head? = some y → p y = false) :
    (A ++ B).takeWhile p = A ∧ (A ++ B).dropWhile p = B := by
  refine ⟨?_, ?_⟩
  · rw [List.takeWhile_append_of_pos hA]
    cases B with
    | nil => simp
    | cons y B => simp [List.takeWhile_cons, hB y rfl]
  · rw [List.dropWhile_append_of_pos hA]
    cases B with
    | nil => simp
    | cons y B => simp [List.dropWhile_cons, hB y rfl]

/-- Shape of the result: new declaration leaves between the namespace nodes and the rest. -/
theorem addSpec_shape : ∀ (order : List (Nat × Nat)) (A B : List HTree) (n : Nat),
    (∀ x ∈ A, (x.value.category == Category.namespace) = true) →
    (∀ y, B.head? = some y → (y.value.category == Category.namespace) = false) →
    ∃ New, (∀ x ∈ New, IsNsLeaf x) ∧ (addSpec (A ++ B) n order).1 = A ++ New ++ B
  | [], A, B, n, _, _ => ⟨[], by simp, by simp [addSpec]⟩
  | (p, ns) :: rest, A, B, n, hA, hB => by
    obtain ⟨ht, hd⟩ := takeWhile_split (fun c : HTree => c.value.category == .namespace) A B hA hB
    simp only [addSpec]
    split
    · exact addSpec_shape rest A B n hA hB
    · rw [ht, hd]
      have hA' : ∀ x ∈ A ++ [HTree.node n (.namespace p ns) []],
          (x.value.category == Category.namespace) = true := by
        intro x hx
        rcases List.mem_append.mp hx with h | h
        · exact hA x h
        · simp at h; subst h; rfl
      obtain ⟨New, h1, h2⟩ := addSpec_shape rest (A ++ [.node n (.namespace p ns) []]) B (n + 1) hA' hB
      refine ⟨.node n (.namespace p ns) [] :: New, ?_, ?_⟩
      · intro x hx
        rcases List.mem_cons.mp hx with rfl | h
        · exact ⟨n, p, ns, rfl⟩
        · exact h1 x h
      · rw [h2]; simp

theorem declsOfKids_split (A B : List HTree)
    (hA : ∀ x ∈ A, (x.value.category == Category.namespace) = true)
    (hB : ∀ y, B.head? = some y → (y.value.category == Category.namespace) = false) :
    fcDeclsOfKids (A ++ B) = A.filterMap (fun k => fcNsPair k.value) := by
  unfold fcDeclsOfKids
  rw [(takeWhile_split _ A B hA hB).1]

/-- The loop's test: is the prefix declared by a namespace child? -/
theorem find_key_iff (A : List HTree) (hA : ∀ x ∈ A, (x.value.category == Category.namespace) = true)
    (p : Nat) :
    (A.find? (fun c => Forest.entryKey c.value == p)).isSome = true ↔
      ∃ b ∈ A.filterMap (fun k => fcNsPair k.value), b.1 = p := by
  rw [List.find?_isSome]
  constructor
  · rintro ⟨x, hx, hk⟩
    have hc := hA x hx
    cases x with
    | node h v ks =>
      cases v with
      | «namespace» q ns =>
        have hq : q = p := by simpa [HTree.value, Forest.entryKey] using hk
        exact ⟨(q, ns), List.mem_filterMap.mpr ⟨HTree.node h (.namespace q ns) ks, hx, rfl⟩, hq⟩
      | document => simp [HTree.value, Value.category] at hc
      | element e => simp [HTree.value, Value.category] at hc
      | text t => simp [HTree.value, Value.category] at hc
      | pi t d => simp [HTree.value, Value.category] at hc
      | comment t => simp [HTree.value, Value.category] at hc
      | «attribute» a t => simp [HTree.value, Value.category] at hc
  · rintro ⟨b, hb, rfl⟩
    obtain ⟨x, hx, hp⟩ := List.mem_filterMap.mp hb
    refine ⟨x, hx, ?_⟩
    cases x with
    | node h v ks =>
      cases v with
      | «namespace» q ns =>
        have : (q, ns) = b := by simpa [HTree.value, fcNsPair] using hp
        subst this
        simp [HTree.value, Forest.entryKey]
      | document => simp [HTree.value, fcNsPair] at hp
      | element e => simp [HTree.value, fcNsPair] at hp
      | text t => simp [HTree.value, fcNsPair] at hp
      | pi t d => simp [HTree.value, fcNsPair] at hp
      | comment t => simp [HTree.value, fcNsPair] at hp
      | «attribute» a t => simp [HTree.value, fcNsPair] at hp

/-- Every prefix of `order` whose only declarations so far are itself ends up declared. -/
theorem addSpec_declares : ∀ (order : List (Nat × Nat)) (A B : List HTree) (n : Nat),
    (∀ x ∈ A, (x.value.category == Category.namespace) = true) →
    (∀ y, B.head? = some y → (y.value.category == Category.namespace) = false) →
    (∀ a ∈ order, ∀ b ∈ order, a.1 = b.1 → a = b) →
    (∀ x ∈ A.filterMap (fun k => fcNsPair k.value), x ∈ fcDeclsOfKids (addSpec (A ++ B) n order).1) ∧
    ∀ b ∈ order, (∀ x ∈ A.filterMap (fun k => fcNsPair k.value), x.1 = b.1 → x = b) →
      b ∈ fcDeclsOfKids (addSpec (A ++ B) n order).1
  | [], A, B, n, hA, hB, _ => by
    simp only [addSpec]
    rw [declsOfKids_split A B hA hB]
    exact ⟨fun x hx => hx, fun b hb => by cases hb⟩
  | (p, ns) :: rest, A, B, n, hA, hB, hfun => by
    obtain ⟨ht, hd⟩ := takeWhile_split (fun c : HTree => c.value.category == .namespace) A B hA hB
    have hfun' : ∀ a ∈ rest, ∀ b ∈ rest, a.1 = b.1 → a = b :=
      fun a ha b hb => hfun a (by simp [ha]) b (by simp [hb])
    simp only [addSpec]
    rw [ht, hd]
    by_cases hs : (A.find? (fun c => Forest.entryKey c.value == p)).isSome = true
    · rw [if_pos hs]
      obtain ⟨mono, ih⟩ := addSpec_declares rest A B n hA hB hfun'
      refine ⟨mono, ?_⟩
      intro b hb hyp
      rcases List.mem_cons.mp hb with rfl | hb'
      · obtain ⟨x, hx, hk⟩ := (find_key_iff A hA _).mp hs
        have := hyp x hx hk
        subst this
        exact mono _ hx
      · exact ih b hb' hyp
    · rw [if_neg hs]
      have hA' : ∀ x ∈ A ++ [HTree.node n (.namespace p ns) []],
          (x.value.category == Category.namespace) = true := by
        intro x hx
        rcases List.mem_append.mp hx with h | h
        · exact hA x h
        · simp at h; subst h; rfl
      obtain ⟨mono, ih⟩ := addSpec_declares rest (A ++ [.node n (.namespace p ns) []]) B (n + 1) hA' hB hfun'
      have e : (A ++ [HTree.node n (.namespace p ns) []]).filterMap (fun k => fcNsPair k.value) =
          A.filterMap (fun k => fcNsPair k.value) ++ [(p, ns)] := by
        simp [List.filterMap_append, fcNsPair, HTree.value]
      rw [e] at mono ih
      have eK : A ++ [HTree.node n (.namespace p ns) []] ++ B = A ++ [.node n (.namespace p ns) []] ++ B := rfl
      refine ⟨fun x hx => mono x (by simp [hx]), ?_⟩
      intro b hb hyp
      rcases List.mem_cons.mp hb with rfl | hb'
      · exact mono _ (by simp)
      · apply ih b hb'
        intro x hx hk
        rcases List.mem_append.mp hx with h | h
        · exact hyp x h hk
        · simp only [List.mem_singleton] at h
          subst h
          exact hfun _ (by simp) b (by simp [hb']) hk

/-- Every declaration of the result was there before or comes from `order` (and then its prefix
    was not declared before). -/
theorem addSpec_decls_sub : ∀ (order : List (Nat × Nat)) (A B : List HTree) (n : Nat),
    (∀ x ∈ A, (x.value.category == Category.namespace) = true) →
    (∀ y, B.head? = some y → (y.value.category == Category.namespace) = false) →
    ∀ b ∈ fcDeclsOfKids (addSpec (A ++ B) n order).1,
      b ∈ A.filterMap (fun k => fcNsPair k.value) ∨
      (b ∈ order ∧ ∀ x ∈ A.filterMap (fun k => fcNsPair k.value), x.1 ≠ b.1)
  | [], A, B, n, hA, hB => by
    intro b hb
    simp only [addSpec] at hb
    rw [declsOfKids_split A B hA hB] at hb
    exact Or.inl hb
  | (p, ns) :: rest, A, B, n, hA, hB => by
    obtain ⟨ht, hd⟩ := takeWhile_split (fun c : HTree => c.value.category == .namespace) A B hA hB
    intro b hb
    simp only [addSpec] at hb
    rw [ht, hd] at hb
    by_cases hs : (A.find? (fun c => Forest.entryKey c.value == p)).isSome = true
    · rw [if_pos hs] at hb
      rcases addSpec_decls_sub rest A B n hA hB b hb with h | ⟨h1, h2⟩
      · exact Or.inl h
      · exact Or.inr ⟨by simp [h1], h2⟩
    · rw [if_neg hs] at hb
      have hA' : ∀ x ∈ A ++ [HTree.node n (.namespace p ns) []],
          (x.value.category == Category.namespace) = true := by
        intro x hx
        rcases List.mem_append.mp hx with h | h
        · exact hA x h
        · simp at h; subst h; rfl
      have e : (A ++ [HTree.node n (.namespace p ns) []]).filterMap (fun k => fcNsPair k.value) =
          A.filterMap (fun k => fcNsPair k.value) ++ [(p, ns)] := by
        simp [List.filterMap_append, fcNsPair, HTree.value]
      have hnokey : ∀ x ∈ A.filterMap (fun k => fcNsPair k.value), x.1 ≠ p := by
        intro x hx e'
        exact hs ((find_key_iff A hA p).mpr ⟨x, hx, e'⟩)
      rcases addSpec_decls_sub rest (A ++ [.node n (.namespace p ns) []]) B (n + 1) hA' hB b hb with h | ⟨h1, h2⟩
      · rw [e] at h
        rcases List.mem_append.mp h with h' | h'
        · exact Or.inl h'
        · simp only [List.mem_singleton] at h'
          subst h'
          exact Or.inr ⟨by simp, hnokey⟩
      · rw [e] at h2
        exact Or.inr ⟨by simp [h1], fun x hx => h2 x (by simp [hx])⟩

/-! #### attributes and writability do not see the new declaration leaves -/

theorem attrs_eq (t : Tree) : t.attrs = t.attributeNodes.filterMap (fun k => match k.value with
    | .attribute n v => some (n, v)
    | _ => none) := rfl

theorem eraseList_map (L : List HTree) : eraseList L = L.map erase := by
  induction L with
  | nil => rfl
  | cons a L ih => simp [eraseList, ih]

theorem attributeNodes_insert (v : Value) (A New B : List HTree)
    (hA : ∀ x ∈ A, (x.value.category == Category.namespace) = true)
    (hN : ∀ x ∈ New, IsNsLeaf x) :
    (Tree.node v (eraseList (A ++ New ++ B))).attributeNodes = (Tree.node v (eraseList (A ++ B))).attributeNodes := by
  simp only [Tree.attributeNodes, Tree.kids, eraseList_map, List.map_append]
  have h1 : ∀ a ∈ A.map erase ++ New.map erase, (a.value.category == Category.namespace) = true := by
    intro a ha
    rcases List.mem_append.mp ha with h | h
    · obtain ⟨x, hx, rfl⟩ := List.mem_map.mp h
      rw [erase_value']; exact hA x hx
    · obtain ⟨x, hx, rfl⟩ := List.mem_map.mp h
      rw [erase_value']; exact (hN x hx).cat
  have h2 : ∀ a ∈ A.map erase, (a.value.category == Category.namespace) = true :=
    fun a ha => h1 a (List.mem_append_left _ ha)
  rw [List.dropWhile_append_of_pos h1, List.dropWhile_append_of_pos h2]

theorem writableList_append (env : Env) (s : FStack) (A B : List Tree) :
    writableList env s (A ++ B) = (writableList env s A && writableList env s B) := by
  induction A with
  | nil => simp [writableList]
  | cons a A ih => simp [writableList, ih, Bool.and_assoc]

theorem writableList_nsLeaves (env : Env) (s : FStack) (New : List HTree) (hN : ∀ x ∈ New, IsNsLeaf x) :
    writableList env s (eraseList New) = true := by
  induction New with
  | nil => rfl
  | cons x New ih =>
    obtain ⟨h, p, ns, rfl⟩ := hN x (by simp)
    simp only [eraseList, erase, writableList, writableTree, Bool.true_and]
    exact ih (fun y hy => hN y (by simp [hy]))

theorem writableList_insert (env : Env) (s : FStack) (A New B : List HTree) (hN : ∀ x ∈ New, IsNsLeaf x) :
    writableList env s (eraseList (A ++ New ++ B)) = writableList env s (eraseList (A ++ B)) := by
  simp only [eraseList_append, writableList_append, writableList_nsLeaves env s New hN, Bool.and_true]

end XotModel
