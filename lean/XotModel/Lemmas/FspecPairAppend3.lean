/-
  FspecPairAppend3 — `prepend` against the PAIR reading (`specMoveP` to `firstNormalChildOf p`),
  for every forest satisfying the invariant: the second half of `prepend` against "insert into
  the forest after the cut, merge the new pair", the indextree insertion in the geometries, and
  `prepend_pair`.
-/
import XotModel.Lemmas.FspecPairAppend2

namespace XotModel
open HTree Spec

namespace PairAppend

/-! ### The destination list with the node inserted behind the namespace / attribute nodes -/

/-- The node stands behind children that are not text: only its right neighbour counts. -/
theorem mergeNew_first {Ab Nm : List HTree} {t : HTree}
    (hAb : ∀ a, Ab.getLast? = some a → ¬ a.value.isText = true)
    (hA : ∀ x ∈ Ab, x.handle ≠ t.handle) (hB : ∀ x ∈ Nm, x.handle ≠ t.handle) :
    mergeNew t.handle (Ab ++ t :: Nm) = Ab ++ mergeNewHead t Nm := by
  rcases List.eq_nil_or_concat Ab with e | ⟨A, a, e⟩
  · subst e
    exact mergeNew_head Nm hB
  · rw [List.concat_eq_append] at e
    subst e
    have e1 : (A ++ [a]) ++ t :: Nm = A ++ a :: t :: Nm := by simp
    rw [e1, mergeNew_mid_right (fun h => hAb a (by simp) h.1) A Nm (fun x hx => hA x (by simp [hx])) (hA a (by simp))]
    simp

theorem not_text_last_abn {L : List HTree} : ∀ a, (L.takeWhile abn).getLast? = some a → ¬ a.value.isText = true :=
  fun _ ha => not_text_of_abn (abn_of_mem_takeWhile (List.mem_of_getLast? ha))

/-! ### The second half of `prepend` -/

theorem prependTail_pair {X Y : Forest} {p c : Nat} {t : HTree} {vp : Value} {LY : List HTree}
    (S : Stage X Y p c t vp LY) (htc : t.handle = c)
    (hleaf_t : t.value.isText = true → t.kids = [])
    (hfirst : X.firstChild p = ((LY.dropWhile abn).head?).map (·.handle))
    (hplace : (prependTail X p c).2 = .ok → X.addConsolidate c none (X.firstChild p) = (X, false) →
      (prependTail X p c).1 = Y.editAt (some p) (insertFirstNormal t))
    (hok : (prependTail X p c).2 = .ok) :
    (prependTail X p c).1 = (Y.editAt (some p) (insertFirstNormal t)).mergeNewAt p c := by
  subst htc
  have hYc : (Y.editAt (some p) (insertFirstNormal t)).consolidation = X.consolidation := by
    rw [Forest.editAt_consolidation, S.ycons]
  have hXtext : X.textOf t.handle = textData t := Forest.textOf_of_get S.xget
  have hsplit : LY.takeWhile abn ++ LY.dropWhile abn = LY := List.takeWhile_append_dropWhile
  have hA : ∀ x ∈ LY.takeWhile abn, x.handle ≠ t.handle :=
    fun x hx => S.ynot x (by rw [← hsplit]; exact List.mem_append_left _ hx)
  have hB : ∀ x ∈ LY.dropWhile abn, x.handle ≠ t.handle :=
    fun x hx => S.ynot x (by rw [← hsplit]; exact List.mem_append_right _ hx)
  have hnew : mergeNew t.handle (insertFirstNormal t LY) = LY.takeWhile abn ++ mergeNewHead t (LY.dropWhile abn) := by
    rw [insertFirstNormal_eq, mergeNew_first not_text_last_abn hA hB]
  -- Flow 1: no merge at the destination
  have flow1 : X.addConsolidate t.handle none (X.firstChild p) = (X, false) →
      (X.consolidation = true → ∀ kb, (LY.dropWhile abn).head? = some kb →
        ¬ (t.value.isText = true ∧ kb.value.isText = true)) →
      (prependTail X p t.handle).1 = (Y.editAt (some p) (insertFirstNormal t)).mergeNewAt p t.handle := by
    intro hr2 hs
    rw [hplace hok hr2]
    rcases Bool.eq_false_or_eq_true X.consolidation with hc | hc
    · rw [Forest.mergeNewAt_on (hYc.trans hc), Forest.editAt_editAt]
      apply S.ysite.congr
      simp only [Function.comp]
      rw [hnew, insertFirstNormal_eq]
      cases hN : LY.dropWhile abn with
      | nil => rfl
      | cons kb rest => rw [mergeNewHead_other (hs hc kb (by rw [hN]; rfl))]
    · rw [Forest.mergeNewAt_off (hYc.trans hc)]
  rcases Bool.eq_false_or_eq_true X.consolidation with hc | hc
  case inr =>
    exact flow1 (Forest.addConsolidate_off hc _ _ _) (fun h => by rw [hc] at h; cases h)
  cases htd : textData t with
  | none =>
    exact flow1 (Forest.addConsolidate_not_text (hXtext.trans htd) _ _)
      (fun _ _ _ h => not_text_of_textData_none htd h.1)
  | some tc =>
    have htt : t.value.isText = true := isText_iff_textData.2 ⟨tc, htd⟩
    cases hN : LY.dropWhile abn with
    | nil =>
      refine flow1 (by
        rw [hfirst, hN]
        exact Forest.addConsolidate_none (fun a h => by cases h) (fun b h => by cases h)) ?_
      intro _ kb hkb; rw [hN] at hkb; cases hkb
    | cons kb rest =>
      have hLY : LY = LY.takeWhile abn ++ kb :: rest := by rw [← hN, hsplit]
      have hkbmem : kb ∈ LY := by rw [hLY]; simp
      cases htb : textData kb with
      | none =>
        refine flow1 (by
          rw [hfirst, hN]
          exact Forest.addConsolidate_none (fun a h => by cases h)
            (fun b h => by cases h; exact (S.xtext kb hkbmem).trans htb)) ?_
        intro _ kb' hkb' ⟨_, h2⟩
        rw [hN] at hkb'
        cases hkb'
        exact not_text_of_textData_none htb h2
      | some tb =>
        -- merged into the first normal child: the LATER node survives
        have hkbt : kb.value.isText = true := isText_iff_textData.2 ⟨tb, htb⟩
        have hkbc : kb.handle ≠ t.handle := S.ynot kb hkbmem
        have hr2 : X.addConsolidate t.handle none (X.firstChild p) =
            ((X.setValue kb.handle (.text (tc ++ tb))).spliceOut t.handle, true) := by
          rw [hfirst, hN]
          exact Forest.addConsolidate_next hc (hXtext.trans htd) (fun a h => by cases h)
            ((S.xtext kb hkbmem).trans htb) hkbc
        obtain ⟨ndLY, _⟩ := S.ysite.nodupKids
        have ndLY' : (handlesList (LY.takeWhile abn ++ kb :: rest)).Nodup := hLY ▸ ndLY
        have hflow := S.flow kb.handle (.text (tc ++ tb)) ⟨kb, hkbmem, rfl⟩ hkbc (hleaf_t htt) (by
          intro k' hk' e
          rw [eq_of_handle ndLY' (hLY ▸ hk') e]; exact hkbt)
        unfold prependTail
        rw [hr2]
        simp only [if_true]
        rw [hflow, Forest.mergeNewAt_on (hYc.trans hc), Forest.editAt_editAt]
        apply S.ysite.congr
        simp only [Function.comp]
        rw [hnew, hN, mergeNewHead_text (textData_some htd) (textData_some htb)]
        conv => lhs; rw [hLY]
        rw [replaceTop_mid rfl (tops_ne_of_nodup ndLY').1]
        simp

/-! ### The indextree insertion of `prepend` when the node comes from elsewhere -/

theorem prepend_place_far {X Y : Forest} {p c : Nat} {t : HTree} {vp : Value} {LX : List HTree}
    {ψ : HTree → HTree} (hψ : KidMap ψ) (sXp : SiteAt X p vp LX) (S : Stage X Y p c t vp (LX.map ψ))
    (hpt : p ∉ handles t)
    (hok' : (prependTail X p c).2 = .ok) (hr2 : X.addConsolidate c none (X.firstChild p) = (X, false)) :
    (prependTail X p c).1 = Y.editAt (some p) (insertFirstNormal t) := by
  have sY := S.ysite
  have hI : insertFirstNormal t (LX.map ψ) = (LX.takeWhile abn).map ψ ++ t :: (LX.dropWhile abn).map ψ := by
    rw [insertFirstNormal_eq, takeWhile_abn_map hψ, dropWhile_abn_map hψ]
  unfold prependTail at hok' ⊢
  rw [hr2] at hok' ⊢
  simp only [Bool.false_eq_true, if_false] at hok' ⊢
  rw [Forest.prependPoint_of_get sXp.kids] at hok' ⊢
  cases hl : (LX.takeWhile abn).getLast? with
  | none =>
    rw [hl] at hok'
    simp only [Option.map_none] at hok' ⊢
    have hr3 : (X.checkedPrepend p c).2 = true := by
      cases h : (X.checkedPrepend p c).2 with
      | true => rfl
      | false => rw [h] at hok'; simp at hok'
    rw [hr3]
    simp only [if_true]
    rw [Forest.checkedPrepend_ok S.xnd S.xget hr3, S.xcut]
    apply sY.congr
    have hnil : LX.takeWhile abn = [] := List.getLast?_eq_none_iff.1 hl
    rw [hI, hnil]
    simp only [List.map_nil, List.nil_append]
    have : LX.dropWhile abn = LX := by
      have := List.takeWhile_append_dropWhile (p := abn) (l := LX)
      rw [hnil] at this
      simpa using this
    rw [this]
  | some kip =>
    rw [hl] at hok'
    simp only [Option.map_some] at hok' ⊢
    obtain ⟨Ab2, eAb⟩ := List.getLast?_eq_some_iff.1 hl
    have hLX : LX = Ab2 ++ kip :: LX.dropWhile abn := by
      calc LX = LX.takeWhile abn ++ LX.dropWhile abn := (List.takeWhile_append_dropWhile).symm
        _ = Ab2 ++ kip :: LX.dropWhile abn := by rw [eAb]; simp
    have sXp' : SiteAt X p vp (Ab2 ++ kip :: LX.dropWhile abn) := hLX ▸ sXp
    have hmap : LX.map ψ = Ab2.map ψ ++ ψ kip :: (LX.dropWhile abn).map ψ := by
      conv => lhs; rw [hLX]
      simp
    have hkipc : kip.handle ≠ c := by
      have := S.ynot (ψ kip) (by rw [hmap]; simp)
      rwa [hψ.handle] at this
    rw [Forest.checkedInsertAfter_ok S.xget sXp' hpt hkipc]
    simp only [if_true]
    rw [S.xcut]
    have sY' : SiteAt Y p vp (Ab2.map ψ ++ ψ kip :: (LX.dropWhile abn).map ψ) := hmap ▸ sY
    have hctx := sY'.ctx
    rw [hψ.handle] at hctx
    rw [Forest.placeAfter_of_ctx t sY'.nd hctx]
    apply sY.congr
    rw [hI, eAb, hmap]
    obtain ⟨ndLY, _⟩ := sY'.nodupKids
    have := insertAfterTop_mid (A := Ab2.map ψ) (w := ψ kip) (B := (LX.dropWhile abn).map ψ) t
      (tops_ne_of_nodup ndLY).1
    rw [hψ.handle] at this
    rw [this]
    simp

theorem firstOf_map {φ : HTree → HTree} (hφ : KidMap φ) (L : List HTree) :
    (((L.map φ).dropWhile abn).head?).map (·.handle) = ((L.dropWhile abn).head?).map (·.handle) := by
  rw [dropWhile_abn_map hφ, List.head?_map]
  cases (L.dropWhile abn).head? with
  | none => rfl
  | some k => simp only [Option.map_some, hφ.handle]

/-- The first normal child when a normal child stands before `t`. -/
theorem firstOf_before {l1 : List HTree} (t : HTree) (r1 : List HTree) (hN : ∃ k ∈ l1, abn k = false) :
    (((l1 ++ t :: r1).dropWhile abn).head?).map (·.handle) = (((l1 ++ r1).dropWhile abn).head?).map (·.handle) := by
  rw [dropWhile_abn_append_of_normal _ hN, dropWhile_abn_append_of_normal _ hN]
  have hne := dropWhile_abn_ne_nil_of_normal hN
  cases hd : l1.dropWhile abn with
  | nil => exact absurd hd hne
  | cons x xs => rfl

end PairAppend

open PairAppend

/-- **prepend**, pair reading: for every forest satisfying the invariant (adjacent text nodes
    allowed) the model's `prepend` is the specification `specMoveP` — cut, graft as first normal
    child, merge exactly the pair the node separated and exactly the node with the text node it
    now precedes. -/
theorem prepend_pair {f : Forest} {p c : Nat} (inv : f.Inv) (hok : (f.prepend p c).2 = .ok) :
    (f.prepend p c).1 = specMoveP (.firstNormalChildOf p) c f := by
  have nd := inv.nodup
  have hsc : f.structureCheck (some p) c = true := by
    cases h : f.structureCheck (some p) c with
    | true => rfl
    | false => rw [prepend_unfold] at hok; simp [h] at hok
  obtain ⟨vp, Lp, t, hgp, hgc, hpt, hnorm, hndoc, hvp⟩ := Forest.structureCheck_unpack nd hsc
  have sp : SiteAt f p vp Lp := ⟨nd, hgp⟩
  have htc : t.handle = c := (findList?_some f.roots t hgc).1
  have hfirst : f.firstChild p = ((Lp.dropWhile abn).head?).map (·.handle) := Forest.firstChild_of_get hgp
  have hoccEq := occupied_firstNormal (c := c) sp
  by_cases hsame : ((Lp.dropWhile abn).head?).map (·.handle) = some c
  · rw [prepend_unfold]
    unfold specMoveP
    simp [hsc, hfirst, hsame, hoccEq]
  · have hocc : Dest.occupiedBy f c (.firstNormalChildOf p) = false := by
      rw [hoccEq]; simpa using hsame
    have hsite : Dest.site f (.firstNormalChildOf p) = some p := by
      simp [Dest.site, Forest.isLive_of_get sp.kids]
    have hleaf_t : t.value.isText = true → t.kids = [] := leaf_of_text inv.valid hgc
    have hvpt : vp.isText = false := not_text_of_kids hvp
    rw [prepend_unfold] at hok ⊢
    simp only [hsc, hfirst, Bool.not_true, Bool.false_eq_true, if_false, beq_iff_eq, hsame] at hok ⊢
    rcases Forest.root_or_ctx hgc with hroot | ⟨cx, hctx⟩
    · have hno := Forest.ctx_none_of_root nd hroot
      rw [Forest.prevSibling_of_no_ctx hno, Forest.removeConsolidate_none_left] at hok ⊢
      rw [spec_root hgc hno hocc hsite]
      have S := stage_root inv sp hgc hno hpt
      have S' : Stage f (f.editAt none (dropTop c)) p c t vp (Lp.map id) := by rw [List.map_id]; exact S
      exact prependTail_pair S htc hleaf_t hfirst
        (fun h1 h2 => prepend_place_far kidMap_id sp S' hpt h1 h2) hok
    · obtain ⟨e0, vo, so⟩ := SiteAt.of_ctx nd hctx
      have hself : cx.self = t := by
        have := Forest.get?_of_ctx nd hctx
        rw [hgc] at this
        exact (Option.some.inj this).symm
      obtain ⟨po, l, k, r⟩ := cx
      simp only at e0 so hself
      subst hself
      subst htc
      rw [Forest.prevSibling_of_ctx hctx, Forest.nextSibling_of_ctx hctx] at hok ⊢
      simp only at hok ⊢
      obtain ⟨l1, r1, O⟩ := old_pair inv so
      obtain ⟨ndL, _⟩ := so.nodupKids
      by_cases hpo : po = p
      · subst hpo
        have : vo = vp ∧ l ++ k :: r = Lp := by
          have := so.kids
          rw [hgp] at this
          have := Option.some.inj this
          injection this with _ e2 e3
          exact ⟨e2.symm, e3.symm⟩
        obtain ⟨ev, eL⟩ := this
        subst ev eL
        -- a normal child stands before the node, also after the old-place consolidation
        have hN := normal_before hnorm hsame
        have hN1 : ∃ k' ∈ l1, abn k' = false := by
          rcases O.shape with ⟨e1, _, _⟩ | ⟨_, l', a, b, r', x, y, _, _, _, _, e1, _⟩
          · rw [e1]; exact hN
          · rw [e1]
            exact ⟨a.setValue (.text (x ++ y)), by simp, by simp [abn, setValue_value, Value.isNormal, Value.category]⟩
        rw [spec_same so O hocc hsite (O.adj_first ndL)]
        refine prependTail_pair (stage_same O.sX (O.leaf inv so)) rfl hleaf_t ?_
          (fun h1 h2 => prepend_place_same O.sX hnorm hN1 h1 h2) hok
        rw [Forest.firstChild_of_get O.sX.kids]
        exact firstOf_before k r1 hN1
      · have sXp := O.other inv so sp hpo hvpt
        have hvo : vo.isElement = true ∨ vo.isDocument = true := by
          have hv := (validTree_node (so.valid inv.valid)).1 k (by simp)
          cases vo <;> simp_all [kidAllowed, Value.isElement, Value.isDocument]
        have S := stage_kid O.sX sXp hpo hpt (not_text_of_kids hvo)
        rw [spec_kid so O hpo hocc hsite (fun ψ hk hψ => natFor_insertFirstNormal hk hψ)]
        refine prependTail_pair S rfl hleaf_t ?_
          (fun h1 h2 => prepend_place_far (kidMap_editAt _ _) sXp S hpt h1 h2) hok
        rw [Forest.firstChild_of_get sXp.kids, firstOf_map (kidMap_editAt _ _), firstOf_map (kidMap_editAt _ _),
          firstOf_map (kidMap_editAt _ _)]

/-- `<e>` with FOUR adjacent text nodes `a b c d`, `<g v="v">` with two, `x y` (consolidation was
    off when they were appended, and is on again). -/
def PairAppend.witness : Forest :=
  { roots := [.node 0 (.element 2) [.node 1 (.text ['a']) [], .node 2 (.text ['b']) [], .node 3 (.text ['c']) [],
        .node 4 (.text ['d']) []],
      .node 5 (.element 3) [.node 6 (.attribute 5 ['v']) [], .node 7 (.text ['x']) [], .node 8 (.text ['y']) []]],
    next := 9, consolidation := true, everOff := true }

/-- The hypotheses of `append_pair` / `prepend_pair` hold on a forest with adjacent text nodes (the
    node comes from another parent / from the same parent; both merges happen), and the conclusion
    is the pair reading: `append(g, b)` gives `ac d` and `x yb`; `prepend(e, c)` gives `ca bd`. -/
example :
    PairAppend.witness.inv = true ∧
    (PairAppend.witness.append 5 2).2 = .ok ∧ selfMerge PairAppend.witness (.lastChildOf 5) 2 = false ∧
    (PairAppend.witness.append 5 2).1 = specMoveP (.lastChildOf 5) 2 PairAppend.witness ∧
    (PairAppend.witness.append 5 2).1.content =
      [.node (.element 2) [.node (.text ['a', 'c']) [], .node (.text ['d']) []],
       .node (.element 3) [.node (.attribute 5 ['v']) [], .node (.text ['x']) [], .node (.text ['y', 'b']) []]] ∧
    (PairAppend.witness.append 0 2).2 = .ok ∧ selfMerge PairAppend.witness (.lastChildOf 0) 2 = false ∧
    (PairAppend.witness.append 0 2).1 = specMoveP (.lastChildOf 0) 2 PairAppend.witness ∧
    (PairAppend.witness.prepend 5 2).2 = .ok ∧
    (PairAppend.witness.prepend 5 2).1 = specMoveP (.firstNormalChildOf 5) 2 PairAppend.witness ∧
    (PairAppend.witness.prepend 0 3).2 = .ok ∧
    (PairAppend.witness.prepend 0 3).1 = specMoveP (.firstNormalChildOf 0) 3 PairAppend.witness ∧
    (PairAppend.witness.prepend 0 3).1.content =
      [.node (.element 2) [.node (.text ['c', 'a']) [], .node (.text ['b', 'd']) []],
       .node (.element 3) [.node (.attribute 5 ['v']) [], .node (.text ['x']) [], .node (.text ['y']) []]] := by
  decide

end XotModel
