/-
  XotModel.Lemmas.FatomRefusal — C06: WHICH error a call answers in WHICH state (`Call.refusal`,
  Model/FrefusalSpec.lean).  The outcome lemmas of Lemmas/Fatom*.lean say "refused with `InvalidOperation`
  and nothing changed, or carried out"; here the two cases are told apart by the argument checks: when every
  check passes the call is carried out (`replace_accepted`, `elementWrap_accepted` are the accepted branches
  of `replace_outcome` / `elementWrap_outcome`, same proofs), when a check fails the error is the one
  `Call.refusal` names.  `call_answer`: the outcome of every call on live arguments is `Call.answer`.
-/
import XotModel.Lemmas.FatomAll
import XotModel.Model.FrefusalSpec

namespace XotModel
namespace Forest

/-- `replace` after its five checks: carried out. -/
theorem replace_accepted {f : Forest} (w : f.W) {a b parent : Nat} (hd : f.isDocument a = false)
    (hpa : f.parent? a = some parent) (hna : f.isNormalNode a = true)
    (hs : f.structureCheck (some parent) b = true) (hanc : (f.ancestors b).contains a = false) :
    OkRes f (f.replace a b) := by
  unfold replace
  simp only [hd, hpa, hna, hs, hanc, Bool.false_eq_true, if_false, Bool.not_true]
  cases hsame : (f.prevSibling a == some b || f.nextSibling a == some b) with
  | true => simp only [if_true]; exact remove_ok w a
  | false =>
    simp only [Bool.false_eq_true, if_false]
    have ck := structureCheck_some hs
    have hab : a ∉ f.ancestors b := by simpa using hanc
    obtain ⟨hla, _⟩ := parent?_live hpa
    obtain ⟨t, hg⟩ := get?_of_isLive hla
    obtain ⟨_, w1, _, fr, _⟩ := cut_spec w hg
    have hf1 : f.dropSubtree a = (f.cut a).1 := rfl
    rw [hf1]
    have hap : a ∉ f.ancestors parent := not_mem_ancestors_parent w hpa
    have kpar : Kept f (f.cut a).1 parent := fr.keptOutside w w1 hg ck.liveP hap
    have kb : Kept f (f.cut a).1 b := fr.keptOutside w w1 hg ck.liveC hab
    have ck1 : Checked (f.cut a).1 parent b := ck.transfer kpar kb.shape
    have hs1 := structureCheck_of_checked ck1
    generalize (f.cut a).1 = f1 at w1 fr kpar kb ck1 hs1 ⊢
    cases hprev : f.prevSibling a with
    | none =>
      simp only
      have m := prepend_ok w1 hs1
      exact ⟨m.ok, m.w, by rw [m.corrupt, fr.corrupt]⟩
    | some p =>
      simp only
      have sib := prevSibling_sib w hprev
      obtain ⟨q, hq1, hq2⟩ := sib.parent
      have hqp : q = parent := Option.some.inj (hq1.symm.trans hpa)
      rw [hqp] at hq2
      have hanp : a ∉ f.ancestors p := by
        rw [ancestors_step w hq2]
        intro h'
        rcases List.mem_cons.1 h' with e | e
        · exact sib.ne e.symm
        · exact hap e
      have kp : Kept f f1 p := fr.keptOutside w w1 hg sib.live hanp
      have hpp1 : f1.parent? p = some parent := by rw [kp.parent]; exact hq2
      have hpb : p ≠ b := by
        intro e
        rw [hprev, e] at hsame
        simp at hsame
      have hsr1 : f1.siblingReferenceCheck p b = true := by
        unfold siblingReferenceCheck
        rw [kp.isNormalNode]
        have : f.isNormalNode p = true :=
          isNormalNode_of_cat (by rw [sib.cat]; exact isNormalNode_cat hna)
        simp [hpb, this]
      have m := insertAfter_ok w1 hpp1 hs1 hsr1
      rcases hres : f1.insertAfter p b with ⟨f2, r⟩
      rw [hres] at m
      have hr : r = .ok := m.ok
      subst hr
      simp only
      cases f.nextSibling a with
      | none => exact ⟨rfl, m.w, by rw [m.corrupt, fr.corrupt]⟩
      | some n => exact okRes_consolidate m.w (by rw [m.corrupt, fr.corrupt]) _ _

/-- `element_wrap` after its three checks: carried out. -/
theorem elementWrap_accepted {f : Forest} (w : f.W) (node name : Nat) (hd : f.isDocument node = false)
    (hn : f.isNormalNode node = true)
    (hdp : (f.hasDocumentParent node && !f.isDocumentElement node) = false) :
    OkRes f ((f.elementWrap node name).1, (f.elementWrap node name).2.1) := by
  unfold elementWrap
  simp only [hd, hn, hdp, Bool.false_eq_true, if_false, Bool.not_true]
  have hnorm := isNormalNode_checked hn hd
  have hlive : f.isLive node = true := by
    rw [isLive_iff_value?]; obtain ⟨v, hv, _⟩ := hnorm; rw [hv]; rfl
  -- the wrapper
  obtain ⟨hwr, w1, fr1, hg1, hr1, hdead⟩ := newNode_spec w (.element name)
  have hne : node ≠ f.next := fun e => by rw [e, hdead] at hlive; cases hlive
  have k1 : ∀ x, f.isLive x = true → Kept f (f.newNode (.element name)).1 x :=
    fun x hx => newNode_kept w _ hx
  unfold newElement
  rcases hnew : f.newNode (.element name) with ⟨f1, wr⟩
  rw [hnew] at hwr w1 fr1 hg1 hr1 k1
  simp only at hwr w1 fr1 hg1 hr1 k1
  subst hwr
  have k1n := k1 node hlive
  have hnorm1 : ∃ v, f1.value? node = some v ∧ v.category = .normal ∧ v.isDocument = false :=
    isNormalNode_checked (by rw [k1n.isNormalNode]; exact hn) (by rw [k1n.isDocument]; exact hd)
  have hel1 : f1.isElement f.next = true := by
    unfold isElement value?; rw [hg1]; rfl
  have hp1 : f1.parent? f.next = none := isRoot_noParent w1 hr1
  cases hpar : f.parent? node with
  | none =>
    simp only
    have ck : Checked f1 f.next node := checked_root_element hel1 hp1 hnorm1 hne
    have m := append_ok w1 (structureCheck_of_checked ck)
    exact ⟨m.ok, m.w, by rw [m.corrupt, fr1.corrupt]⟩
  | some parent =>
    simp only
    -- detach the node
    have hl1 : f1.isLive node = true := by rw [k1n.isLive]; exact hlive
    obtain ⟨t, hgt⟩ := get?_of_isLive hl1
    obtain ⟨w2, fr2, hg2, hr2, _⟩ := detachRaw_spec w1 hgt
    have hanc1w : node ∉ f1.ancestors f.next := by
      rw [ancestors_root_of_isRoot w1 hr1]; simpa using hne
    have k2 : ∀ x, f1.isLive x = true → node ∉ f1.ancestors x → Kept f1 (f1.detachRaw node) x :=
      fun x hx hax => fr2.keptOutside w1 w2 hgt hx hax
    have k2w := k2 f.next (isRoot_live hr1) hanc1w
    have hnorm2 : ∃ v, (f1.detachRaw node).value? node = some v ∧ v.category = .normal ∧
        v.isDocument = false := by
      have : (f1.detachRaw node).value? node = f1.value? node := by
        unfold value?; rw [hg2, hgt]
      rw [this]; exact hnorm1
    have hp2n : (f1.detachRaw node).parent? node = none := isRoot_noParent w2 hr2
    generalize f1.detachRaw node = f2 at w2 fr2 hg2 hr2 k2 k2w hnorm2 hp2n ⊢
    have ck2 : Checked f2 f.next node :=
      checked_root_element (by rw [k2w.isElement]; exact hel1) (by rw [k2w.parent]; exact hp1)
        hnorm2 hne
    have m3 := append_ok w2 (structureCheck_of_checked ck2)
    have hns2 : ∀ x, f2.nextSibling node ≠ some x := by
      intro x; rw [nextSibling_none_of_root hp2n]; simp
    have k3 : ∀ x, f2.isLive x = true → node ∉ f2.ancestors x →
        Kept f2 (f2.append f.next node).1 x :=
      fun x hx hax => m3.kept w2 hx hax (hns2 x)
    -- everything that does not have `node` among its ancestors is kept all the way
    have chain : ∀ x, f.isLive x = true → node ∉ f.ancestors x →
        Kept f (f2.append f.next node).1 x := by
      intro x hx hax
      have a1 := k1 x hx
      have a2 := k2 x (by rw [a1.isLive]; exact hx) (by rw [a1.anc]; exact hax)
      have a12 := a1.trans a2
      have a3 := k3 x (by rw [a12.isLive]; exact hx) (by rw [a12.anc]; exact hax)
      exact a12.trans a3
    have k3w : Kept f2 (f2.append f.next node).1 f.next :=
      k3 f.next (by rw [k2w.isLive]; exact isRoot_live hr1)
        (by rw [k2w.anc]; exact hanc1w)
    have hanp : node ∉ f.ancestors parent := not_mem_ancestors_parent w hpar
    have hlp : f.isLive parent = true := (parent?_live hpar).2
    have kpar := chain parent hlp hanp
    rcases happ : f2.append f.next node with ⟨f3, r3⟩
    rw [happ] at m3 k3w kpar chain
    have hr3 : r3 = .ok := m3.ok
    subst hr3
    simp only at m3 k3w kpar chain ⊢
    have w3 : f3.W := m3.w
    have hcor3 : f3.corrupt = f.corrupt := by
      have := m3.corrupt; simp only at this; rw [this, fr2.corrupt, fr1.corrupt]
    -- the wrapper can go under the old parent
    have hwel3 : f3.isElement f.next = true := by
      rw [k3w.isElement, k2w.isElement]; exact hel1
    have ck3 : Checked f3 parent f.next := by
      refine ⟨?_, ?_, ?_⟩
      · rw [kpar.isElement, kpar.isDocument]; exact parent?_container w hpar
      · rw [kpar.anc]
        intro h'
        rw [ancestors_live w h'] at hdead; cases hdead
      · obtain ⟨n, hv⟩ := isElement_value hwel3
        exact ⟨_, hv, rfl, rfl⟩
    have hs3 := structureCheck_of_checked ck3
    cases hprev : f.prevSibling node with
    | none =>
      simp only
      have m := prepend_ok w3 hs3
      exact ⟨m.ok, m.w, by rw [m.corrupt, hcor3]⟩
    | some p =>
      simp only
      have sib := prevSibling_sib w hprev
      obtain ⟨q, hq1, hq2⟩ := sib.parent
      have hqp : q = parent := Option.some.inj (hq1.symm.trans hpar)
      rw [hqp] at hq2
      have hanpp : node ∉ f.ancestors p := by
        rw [ancestors_step w hq2]
        intro h'
        rcases List.mem_cons.1 h' with e | e
        · exact sib.ne e.symm
        · exact hanp e
      have kp := chain p sib.live hanpp
      have hpp3 : f3.parent? p = some parent := by rw [kp.parent]; exact hq2
      have hpw : p ≠ f.next := fun e => by
        have := sib.live; rw [e, hdead] at this; cases this
      have hsr3 : f3.siblingReferenceCheck p f.next = true := by
        unfold siblingReferenceCheck
        rw [kp.isNormalNode]
        have : f.isNormalNode p = true :=
          isNormalNode_of_cat (by rw [sib.cat]; exact isNormalNode_cat hn)
        simp [hpw, this]
      have m := insertAfter_ok w3 hpp3 hs3 hsr3
      exact ⟨m.ok, m.w, by rw [m.corrupt, hcor3]⟩

/-! ### The answer of every call -/

theorem append_answer {f : Forest} (w : f.W) (p c : Nat) :
    (f.append p c).2 = if f.structureCheck (some p) c then .ok else .err .invalidOperation := by
  cases hs : f.structureCheck (some p) c with
  | false => simp [append, hs]
  | true => simp only [if_true]; exact (append_ok w hs).ok

theorem prepend_answer {f : Forest} (w : f.W) (p c : Nat) :
    (f.prepend p c).2 = if f.structureCheck (some p) c then .ok else .err .invalidOperation := by
  cases hs : f.structureCheck (some p) c with
  | false => simp [prepend, hs]
  | true => simp only [if_true]; exact (prepend_ok w hs).ok

theorem insertAfter_answer {f : Forest} (w : f.W) (r n : Nat) :
    (f.insertAfter r n).2 =
      if f.structureCheck (f.parent? r) n && f.siblingReferenceCheck r n then .ok else .err .invalidOperation := by
  cases hpr : f.parent? r with
  | none => simp [insertAfter, hpr, structureCheck]
  | some q =>
    cases hs : f.structureCheck (some q) n with
    | false => simp [insertAfter, hpr, hs]
    | true =>
      cases hsr : f.siblingReferenceCheck r n with
      | false => simp [insertAfter, hpr, hs, hsr]
      | true => simp only [Bool.and_self, if_true]; exact (insertAfter_ok w hpr hs hsr).ok

theorem insertBefore_answer {f : Forest} (w : f.W) (r n : Nat) :
    (f.insertBefore r n).2 =
      if f.structureCheck (f.parent? r) n && f.siblingReferenceCheck r n then .ok else .err .invalidOperation := by
  cases hpr : f.parent? r with
  | none => simp [insertBefore, hpr, structureCheck]
  | some q =>
    cases hs : f.structureCheck (some q) n with
    | false => simp [insertBefore, hpr, hs]
    | true =>
      cases hsr : f.siblingReferenceCheck r n with
      | false => simp [insertBefore, hpr, hs, hsr]
      | true => simp only [Bool.and_self, if_true]; exact (insertBefore_ok w hpr hs hsr).ok

theorem replace_answer {f : Forest} (w : f.W) (a b : Nat) :
    (f.replace a b).2 = if f.replaceRefused a b then .err .invalidOperation else .ok := by
  unfold replaceRefused
  cases hd : f.isDocument a with
  | true => simp [replace, hd]
  | false =>
    cases hpa : f.parent? a with
    | none => simp [replace, hd, hpa]
    | some parent =>
      cases hna : f.isNormalNode a with
      | false => simp [replace, hd, hpa, hna]
      | true =>
        cases hs : f.structureCheck (some parent) b with
        | false => simp [replace, hd, hpa, hna, hs]
        | true =>
          cases hanc : (f.ancestors b).contains a with
          | true =>
            unfold replace
            simp only [hd, hpa, hna, hs, hanc, Bool.false_eq_true, if_false, Bool.not_true, if_true,
              Bool.or_true, Bool.or_self]
          | false =>
            simp only [hs, Bool.not_true, Bool.or_self, Bool.false_eq_true, if_false]
            exact (replace_accepted w hd hpa hna hs hanc).ok

theorem elementWrap_answer {f : Forest} (w : f.W) (node name : Nat) :
    (f.elementWrap node name).2.1 = if f.wrapRefused node then .err .invalidOperation else .ok := by
  unfold wrapRefused
  cases hd : f.isDocument node with
  | true => simp [elementWrap, hd]
  | false =>
    cases hn : f.isNormalNode node with
    | false => simp [elementWrap, hd, hn]
    | true =>
      cases hdp : (f.hasDocumentParent node && !f.isDocumentElement node) with
      | true =>
        unfold elementWrap
        simp only [hd, hn, hdp, Bool.false_eq_true, if_false, Bool.not_true, if_true, Bool.or_true]
      | false =>
        simp only [Bool.not_true, Bool.or_self, Bool.false_eq_true, if_false]
        exact (elementWrap_accepted w node name hd hn hdp).ok

theorem elementUnwrap_answer {f : Forest} (hi : f.Inv) (node : Nat) :
    (f.elementUnwrap node).2 = if f.unwrapRefused node then .err .invalidOperation else .ok := by
  unfold unwrapRefused
  cases he : f.isElement node with
  | false => simp [elementUnwrap, he]
  | true =>
    cases hfc : f.firstChild node with
    | none =>
      unfold elementUnwrap
      simp only [he, hfc, Bool.not_true, Bool.false_eq_true, if_false, Option.isSome_none, Bool.false_and,
        Bool.or_self]
      rfl
    | some first =>
      cases hp : f.parent? node with
      | none => simp [elementUnwrap, he, hfc, hp]
      | some q =>
        obtain ⟨last, hlc⟩ := lastChild_of_firstChild hi hfc
        unfold elementUnwrap
        simp only [he, hfc, hp, hlc, Bool.not_true, Bool.false_eq_true, if_false, Option.isSome_some,
          Option.isNone_some, Bool.and_false, Bool.or_self]
        split
        · split <;> rfl
        · rfl

theorem appendEntryNode_answer {f : Forest} (w : f.W) (k : MapKind) (parent child : Nat)
    (hl : f.isLive child = true) :
    (f.appendEntryNode k parent child).2.1 =
      if f.entryRefused k parent child then .err .invalidOperation else .ok := by
  unfold entryRefused
  cases hel : f.isElement parent with
  | false => simp [appendEntryNode, hel]
  | true =>
    cases hv : f.value? child with
    | none => rw [isLive_iff_value?, hv] at hl; cases hl
    | some v =>
      cases hm : k.matches v with
      | false => simp [appendEntryNode, hel, hv, hm]
      | true =>
        have := (mapInsertNode_ok w hel hv hm).ok
        unfold appendEntryNode
        simp only [hel, hv, hm, Bool.not_true, Bool.false_eq_true, if_false, Bool.or_self]
        exact this

theorem textContentSet_answer {f : Forest} (w : f.W) (node : Nat) (s : Str) :
    (f.textContentSet node s).2 = if f.textContentRefused node then .err .invalidOperation else .ok := by
  unfold textContentRefused
  cases hfc : f.firstChild node with
  | some child =>
    cases hns : (f.nextSibling child).isSome with
    | true => simp [textContentSet, hfc, hns]
    | false =>
      cases ht : f.isText child with
      | false => simp [textContentSet, hfc, hns, ht]
      | true => simp [textContentSet, hfc, hns, ht]
  | none =>
    cases hel : f.isElement node with
    | false => simp [textContentSet, hfc, hel]
    | true =>
      simp only [Bool.not_true, Bool.false_eq_true, if_false]
      rcases textContentSet_outcome w node s with h | h
      · exfalso
        have h2 : (f.textContentSet node s).2 = .err .invalidOperation := by rw [h]
        revert h2
        unfold textContentSet
        simp only [hfc, hel, if_true]
        split <;> (try split) <;> (try split) <;> simp
      · exact h.ok

/-- **The outcome of every call on live arguments**, read off the state and the arguments. -/
theorem call_answer {f : Forest} (hi : f.Inv) (c : Call) (hl : c.liveArgs f) :
    (c.run f).2 = c.answer f := by
  have w := hi.toW
  cases c with
  | append p c =>
    simp only [Call.run, Call.answer, Call.refusal, Call.documentedPanic, append_answer w]
    cases f.structureCheck (some p) c <;> simp
  | prepend p c =>
    simp only [Call.run, Call.answer, Call.refusal, Call.documentedPanic, prepend_answer w]
    cases f.structureCheck (some p) c <;> simp
  | insertAfter r n =>
    simp only [Call.run, Call.answer, Call.refusal, Call.documentedPanic, insertAfter_answer w]
    cases (f.structureCheck (f.parent? r) n && f.siblingReferenceCheck r n) <;> simp
  | insertBefore r n =>
    simp only [Call.run, Call.answer, Call.refusal, Call.documentedPanic, insertBefore_answer w]
    cases (f.structureCheck (f.parent? r) n && f.siblingReferenceCheck r n) <;> simp
  | detach n => exact (detach_ok w n).ok
  | remove n => exact (remove_ok w n).ok
  | replace a b =>
    simp only [Call.run, Call.answer, Call.refusal, Call.documentedPanic, replace_answer w]
    cases f.replaceRefused a b <;> simp
  | elementWrap n name =>
    simp only [Call.run, Call.answer, Call.refusal, Call.documentedPanic, elementWrap_answer w]
    cases f.wrapRefused n <;> simp
  | elementUnwrap n =>
    simp only [Call.run, Call.answer, Call.refusal, Call.documentedPanic, elementUnwrap_answer hi]
    cases f.unwrapRefused n <;> simp
  | cloneNode n =>
    obtain ⟨h1, _⟩ := cloneNode_spec hi (hl n (by simp [Call.args]))
    have hs : (f.cloneNode n).2.isSome = true := by
      cases h : (f.cloneNode n).2 with
      | none => exact absurd h h1
      | some _ => rfl
    simp [Call.run, Call.answer, Call.refusal, Call.documentedPanic, hs]
  | anyAppend p c =>
    have hlc : f.isLive c = true := hl c (by simp [Call.args])
    have hentry : ∀ k v, f.value? c = some v → k.matches v = true →
        (f.appendEntryNode k p c).2.1 = if f.isElement p then .ok else .err .invalidOperation := by
      intro k v hv hm
      rw [appendEntryNode_answer w k p c hlc]
      unfold entryRefused
      simp only [hv, hm, Bool.not_true, Bool.or_false]
      cases f.isElement p <;> simp
    simp only [Call.run, Call.answer, Call.refusal, Call.documentedPanic]
    cases hv : f.value? c with
    | none =>
      simp only [anyAppend, hv, append_answer w]
      cases f.structureCheck (some p) c <;> simp
    | some v =>
      cases v <;> first
        | (simp only [anyAppend, hv, hentry .namespaces _ hv rfl]; cases f.isElement p <;> simp)
        | (simp only [anyAppend, hv, hentry .attributes _ hv rfl]; cases f.isElement p <;> simp)
        | (simp only [anyAppend, hv, append_answer w]; cases f.structureCheck (some p) c <;> simp)
  | appendEntryNode k p c =>
    simp only [Call.run, Call.answer, Call.refusal, Call.documentedPanic,
      appendEntryNode_answer w k p c (hl c (by simp [Call.args]))]
    cases f.entryRefused k p c <;> simp
  | mapInsert k p e =>
    rcases mapInsert_outcome w k p e with ⟨h1, h2⟩ | ⟨h1, h2⟩
    · simp [Call.run, Call.answer, Call.refusal, Call.documentedPanic, h1, h2]
    · simp [Call.run, Call.answer, Call.refusal, Call.documentedPanic, h1, h2.ok]
  | mapRemove k p key =>
    rcases mapRemove_outcome w k p key with ⟨h1, h2⟩ | ⟨h1, h2⟩
    · simp [Call.run, Call.answer, Call.refusal, Call.documentedPanic, h1, h2]
    · simp [Call.run, Call.answer, Call.refusal, Call.documentedPanic, h1, h2.ok]
  | mapClear k p =>
    rcases mapClear_outcome w k p with ⟨h1, h2⟩ | ⟨h1, h2⟩
    · simp [Call.run, Call.answer, Call.refusal, Call.documentedPanic, h1, h2]
    · simp [Call.run, Call.answer, Call.refusal, Call.documentedPanic, h1, h2.ok]
  | setElementName n name =>
    rcases setElementName_outcome w n name with ⟨h1, h2⟩ | ⟨h1, h2⟩
    · simp [Call.run, Call.answer, Call.refusal, Call.documentedPanic, h1, h2]
    · simp [Call.run, Call.answer, Call.refusal, Call.documentedPanic, h1, h2.ok]
  | setText n s =>
    simp only [Call.run, Call.answer, Call.refusal, Call.documentedPanic, setText]
    cases f.isText n <;> simp
  | setComment n s =>
    simp only [Call.run, Call.answer, Call.refusal, Call.documentedPanic, setComment]
    cases hv : f.value? n with
    | none => simp
    | some v =>
      cases v with
      | comment c => cases hasDoubleDash s <;> simp
      | _ => simp
  | setPiData n d =>
    simp only [Call.run, Call.answer, Call.refusal, Call.documentedPanic, setPiData]
    cases hv : f.value? n with
    | none => simp
    | some v => cases v <;> simp
  | textContentSet n s =>
    simp only [Call.run, Call.answer, Call.refusal, Call.documentedPanic, textContentSet_answer w]
    cases f.textContentRefused n <;> simp

/-- The error of a call, exactly. -/
theorem call_refusal_iff {f : Forest} (hi : f.Inv) (c : Call) (hl : c.liveArgs f) (e : XotError) :
    (c.run f).2 = .err e ↔ c.refusal f = some e := by
  rw [call_answer hi c hl]
  unfold Call.answer
  cases c.refusal f with
  | some e' => simp
  | none => cases c.documentedPanic f <;> simp

end Forest
end XotModel
