/-
  Lemmas for C12, part 18 (clone_with_prefixes serialises): whether a name can be written depends
  only on which (prefix, namespace) pairs the top of the name stack offers, and is monotone in
  them; hence the transfer lemma `writable_transfer`.
-/
import XotModel.Model.FcloneModel

namespace XotModel

/-- The top of the stack offers a prefix for `ns` (a non-empty one when `attr`). -/
def Offers (L : List (Nat × Nat)) (ns : Nat) (attr : Bool) : Prop :=
  ∃ q, (q, ns) ∈ L ∧ (attr = true → q ≠ Env.emptyPrefix)

theorem fc_mem_fullnameInfoNew (d L : List (Nat × Nat)) (b : Nat × Nat) :
    b ∈ fullnameInfoNew d L ↔ b ∈ d ∨ (b ∈ L ∧ ∀ x ∈ d, x.1 ≠ b.1) := by
  unfold fullnameInfoNew
  simp only [List.mem_append, List.mem_filter, Bool.not_eq_true', List.any_eq_false, beq_iff_eq]
  constructor
  · rintro (⟨h1, h2⟩ | h)
    · exact Or.inr ⟨h1, fun x hx => by simpa using h2 x hx⟩
    · exact Or.inl h
  · rintro (h | ⟨h1, h2⟩)
    · exact Or.inr h
    · exact Or.inl ⟨h1, fun x hx => by simpa using h2 x hx⟩

theorem fullnameInfoNew_nil (L : List (Nat × Nat)) : fullnameInfoNew [] L = L := by
  simp [fullnameInfoNew]

theorem push_top (s : FStack) (d : List (Nat × Nat)) : (s.push d).top = fullnameInfoNew d s.top := by
  unfold FStack.push
  by_cases h : d.isEmpty = true
  · have : d = [] := by simpa using h
    subst this
    simp [fullnameInfoNew_nil]
  · simp [h, FStack.top]

theorem prefixesByNamespace_mem (L : List (Nat × Nat)) (ns q : Nat) :
    q ∈ prefixesByNamespace L ns ↔ (q, ns) ∈ L := by
  unfold prefixesByNamespace
  simp only [List.mem_map, List.mem_filter, List.mem_reverse, beq_iff_eq]
  constructor
  · rintro ⟨⟨a, b⟩, ⟨h1, h2⟩, rfl⟩
    simp only at h2
    subst h2
    exact h1
  · intro h
    exact ⟨(q, ns), ⟨h, rfl⟩, rfl⟩

theorem elementPrefixByNamespace_isSome (L : List (Nat × Nat)) (ns : Nat) :
    (elementPrefixByNamespace L ns).isSome = true ↔ Offers L ns false := by
  unfold elementPrefixByNamespace Offers
  constructor
  · intro h
    split at h
    · rename_i hany
      simp only [List.any_eq_true, beq_iff_eq] at hany
      obtain ⟨q, hq, _⟩ := hany
      exact ⟨q, (prefixesByNamespace_mem L ns q).mp hq, by simp⟩
    · cases hh : (prefixesByNamespace L ns).head? with
      | none => simp [hh] at h
      | some q =>
        exact ⟨q, (prefixesByNamespace_mem L ns q).mp (List.mem_of_head? hh), by simp⟩
  · rintro ⟨q, hq, _⟩
    have hm := (prefixesByNamespace_mem L ns q).mpr hq
    split
    · rfl
    · cases hh : (prefixesByNamespace L ns).head? with
      | none =>
        have : prefixesByNamespace L ns = [] := by simpa using hh
        rw [this] at hm
        cases hm
      | some x => rfl

theorem attributePrefixByNamespace_isSome (L : List (Nat × Nat)) (ns : Nat) :
    (attributePrefixByNamespace L ns).isSome = true ↔ Offers L ns true := by
  unfold attributePrefixByNamespace Offers
  rw [List.find?_isSome]
  constructor
  · rintro ⟨q, hq, hne⟩
    exact ⟨q, (prefixesByNamespace_mem L ns q).mp hq, fun _ => by simpa using hne⟩
  · rintro ⟨q, hq, hne⟩
    exact ⟨q, (prefixesByNamespace_mem L ns q).mpr hq, by simpa using hne rfl⟩

/-- A name can be written. -/
def NameOK (env : Env) (L : List (Nat × Nat)) (name : Nat) (attr : Bool) : Prop :=
  env.nsOfName name = Env.noNamespace ∨ env.nsOfName name = Env.xmlNamespace ∨
    Offers L (env.nsOfName name) attr

theorem elementPrefix_ok (env : Env) (s : FStack) (name : Nat) :
    fcIsError (s.elementPrefix env name) = false ↔ NameOK env s.top name false := by
  unfold FStack.elementPrefix NameOK
  by_cases h0 : env.nsOfName name = Env.noNamespace
  · simp [h0, fcIsError]
  · by_cases h1 : env.nsOfName name = Env.xmlNamespace
    · simp [h1, fcIsError, Env.xmlNamespace, Env.noNamespace]
    · have := elementPrefixByNamespace_isSome s.top (env.nsOfName name)
      simp only [h0, h1, false_or, beq_iff_eq, if_false]
      rw [← this]
      cases elementPrefixByNamespace s.top (env.nsOfName name) with
      | none => simp [fcIsError]
      | some p => by_cases hp : p = Env.emptyPrefix <;> simp [hp, fcIsError]

theorem attributePrefix_ok (env : Env) (s : FStack) (name : Nat) :
    fcIsError (s.attributePrefix env name) = false ↔ NameOK env s.top name true := by
  unfold FStack.attributePrefix NameOK
  by_cases h0 : env.nsOfName name = Env.noNamespace
  · simp [h0, fcIsError]
  · by_cases h1 : env.nsOfName name = Env.xmlNamespace
    · simp [h1, fcIsError, Env.xmlNamespace, Env.noNamespace]
    · have := attributePrefixByNamespace_isSome s.top (env.nsOfName name)
      simp only [h0, h1, false_or, beq_iff_eq, if_false]
      rw [← this]
      cases attributePrefixByNamespace s.top (env.nsOfName name) <;> simp [fcIsError]

theorem elementFullname_ok (env : Env) (s : FStack) (name : Nat) :
    fcIsOk (s.elementFullname env name) = true ↔ NameOK env s.top name false := by
  rw [← elementPrefix_ok]
  unfold FStack.elementFullname
  cases s.elementPrefix env name <;> simp [fcIsOk, fcIsError]

theorem attributeFullname_ok (env : Env) (s : FStack) (name : Nat) :
    fcIsOk (s.attributeFullname env name) = true ↔ NameOK env s.top name true := by
  rw [← attributePrefix_ok]
  unfold FStack.attributeFullname
  cases s.attributePrefix env name <;> simp [fcIsOk, fcIsError]

theorem NameOK.mono {env : Env} {L1 L2 : List (Nat × Nat)} {name : Nat} {attr : Bool}
    (h : NameOK env L1 name attr) (hsub : ∀ b ∈ L1, b.2 = env.nsOfName name → b ∈ L2) :
    NameOK env L2 name attr := by
  rcases h with h | h | ⟨q, hq, hne⟩
  · exact Or.inl h
  · exact Or.inr (Or.inl h)
  · exact Or.inr (Or.inr ⟨q, hsub _ hq rfl, hne⟩)

/-- One name: written in place, hence in the clone — either the declarations inside the source
    suffice, or its namespace is unresolved and the clone offers what the context offers. -/
theorem name_transfer (env : Env) (U : Nat → Prop) (sIn sOnly sCl : FStack) (name : Nat) (attr : Bool)
    (H1 : ∀ b ∈ sOnly.top, b ∈ sCl.top) (H2 : ∀ b ∈ sIn.top, U b.2 → b ∈ sCl.top)
    (hU : ¬ NameOK env sOnly.top name attr → U (env.nsOfName name))
    (hin : NameOK env sIn.top name attr) : NameOK env sCl.top name attr := by
  by_cases ho : NameOK env sOnly.top name attr
  · exact ho.mono (fun b hb _ => H1 b hb)
  · exact hin.mono (fun b hb e => H2 b hb (e ▸ hU ho))

end XotModel
