/-
  GENERATED COPY (wt-c17str) of the declarations of XotModel.Lemmas.RoundTripSerialises that depend on `valueOK`, restated in the
  namespace `XotModel.PiColon`, where `valueOK` asks of a PI target what the tokenizer's `consume_name` accepts
  (`nameOK`: colons allowed) instead of an NCName (Lemmas/PiColonDefs.lean).  Proof texts unchanged except where noted.
-/
import XotModel.Lemmas.RoundTripSerialises
import XotModel.Lemmas.PiColonRoundTripEncode

namespace XotModel.PiColon
open XotModel.Repair

variable {env : Env}

theorem nodeOK_piOK (he : EnvFacts env) (n : Tree) (h : n.allNodes (nodeOK env) = true) :
    n.allNodes (piOK env) = true := by
  have key : ∀ (m : Tree), m.allNodes (nodeOK env) = true →
      m.allNodes (fun v ks => (Tree.node v ks).allNodes (nodeOK env)) = true := by
    intro m
    induction m using Tree.rec (motive_2 := fun ks => ∀ k ∈ ks, k.allNodes (nodeOK env) = true →
        k.allNodes (fun v ks => (Tree.node v ks).allNodes (nodeOK env)) = true) with
    | node v ks ih =>
      intro hm
      rw [allNodes_node, Bool.and_eq_true, List.all_eq_true]
      exact ⟨hm, fun k hk => ih k hk (allNodes_kid hm hk)⟩
    | nil => rename_i hk _; cases hk
    | cons k ks ih1 ih2 =>
      rename_i k' hk' hk2
      rcases List.mem_cons.mp hk' with rfl | hk'
      · exact ih1 hk2
      · exact ih2 k' hk' hk2
  refine allNodes_mono ?_ n (key n h)
  intro v ks hv
  have hval := allNodes_value env hv
  cases v <;> try rfl
  rename_i target data
  obtain ⟨_, h2⟩ := valueOK_pi_facts hval
  simp only [piOK, h2, he.ns0]
  rfl

/-- For a representable fragment: `serTokensTop` succeeds iff `namesWritable` answers `true`. -/
theorem serTokensTop_ok_iff {t : Tree} (hr : RepresentableFragment env t = true) :
    exceptIsOk (serTokensTop env t) = true ↔ namesWritable env t [] = some true := by
  obtain ⟨henv, hdocv, hn, _⟩ := (representableFragment_iff env t).mp hr
  have he := envFacts_of_envOK henv
  cases t with
  | node v ks =>
    cases v <;> simp [Tree.value, Value.isDocument] at hdocv
    have hpi := nodeOK_piOK he _ hn
    rw [allNodes_node, Bool.and_eq_true, List.all_eq_true] at hpi
    rw [serTokensTop_document, serKids_ok_iff false _ ks _ hpi.2]
    simp [namesWritable, Tree.ancestorsOrSelf, Tree.at?, namesWritableChain_eq, okRec, FStack.new, FStack.top]

end XotModel.PiColon
