/-
  Completeness of `WellNsDoc`, part 6: the guard is necessary and the tokenizer satisfies it; closed
  examples.

  * a well-formed spelling has no empty text token and no XML-declaration token, so
    `WellSpelledTokens` implies the guard `nonEmptyText` of `build_accepts_iff`;
  * every text token of the reference tokenizer is non-empty (from `Token.accLex`);
  * `goodDocSpelling`: the spelling reconstructed from the witness token list `goodDoc`.
-/
import XotModel.Lemmas.ParseNsCompleteTop
import XotModel.Lemmas.ParseNsCheck
import XotModel.Lemmas.AcceptedLex
import XotModel.Lemmas.ParseWitnessData

namespace XotModel

theorem renderPieces_ne_nil {ps : List Piece} (h : ps ≠ []) : renderPieces ps ≠ [] := by
  cases ps with
  | nil => exact absurd rfl h
  | cons p rest =>
    simp only [renderPieces, List.flatMap_cons]
    cases p <;> simp [renderPiece]

mutual
/-- The tokens of a well-formed spelling: no empty text token, no XML declaration. -/
theorem well_tokens_plain : ∀ (sn : NSNode) (scope : Scope), sn.Well scope → ∀ t ∈ sn.tokens, t.plain = true
  | .elem pfx loc junk attrs openSp kids cpfx cloc closeSp, scope, hw, t, ht => by
    simp only [NSNode.tokens, List.mem_cons, List.mem_append, List.mem_map, List.mem_singleton, List.not_mem_nil,
      or_false] at ht
    rcases ht with rfl | ⟨a, _, rfl⟩ | rfl | ht | rfl
    · rfl
    · rfl
    · rfl
    · exact wellList_tokens_plain kids _ hw.2.2.2.2.2.1 t ht
    · rfl
  | .empty pfx loc junk attrs endSp, scope, hw, t, ht => by
    simp only [NSNode.tokens, List.mem_cons, List.mem_append, List.mem_map, List.mem_singleton, List.not_mem_nil,
      or_false] at ht
    rcases ht with rfl | ⟨a, _, rfl⟩ | rfl
    · rfl
    · rfl
    · rfl
  | .chars parts, scope, hw, t, ht => by
    simp only [NSNode.tokens, List.mem_map] at ht
    obtain ⟨p, hp, rfl⟩ := ht
    have hpw := hw p hp
    cases p with
    | txt ps st =>
      have := renderPieces_ne_nil hpw.1
      simp only [SPart.token, Token.plain]
      cases h : renderPieces ps with
      | nil => exact absurd h this
      | cons c r => rfl
    | cd s sp => rfl
  | .comment text junk, _, _, t, ht => by
    simp only [NSNode.tokens, List.mem_singleton] at ht; subst ht; rfl
  | .pi target content junk, _, _, t, ht => by
    simp only [NSNode.tokens, List.mem_singleton] at ht; subst ht; rfl
theorem wellList_tokens_plain : ∀ (sns : List NSNode) (scope : Scope), NSNode.Well.wellList scope sns →
    ∀ t ∈ NSNode.tokens.tokensList sns, t.plain = true
  | [], _, _, t, ht => by simp [NSNode.tokens.tokensList] at ht
  | k :: ks, scope, hw, t, ht => by
    simp only [NSNode.tokens.tokensList, List.mem_append] at ht
    rcases ht with ht | ht
    · exact well_tokens_plain k scope hw.1 t ht
    · exact wellList_tokens_plain ks scope hw.2 t ht
end

theorem nonEmptyText_of_plain {t : Token} (h : t.plain = true) : t.nonEmptyText = true := by
  cases t <;> simp_all [Token.plain, Token.nonEmptyText]

/-- The guard of `build_accepts_iff` is implied by its right-hand side: a well-spelled token list
    has no empty text token. -/
theorem WellSpelledTokens.nonEmptyText {mode : Mode} {ts : List Token} (h : WellSpelledTokens mode ts) :
    ∀ t ∈ ts, t.nonEmptyText = true := by
  obtain ⟨_, sns, hw, _, htok⟩ := h
  intro t ht
  cases hd : t.isDeclTok with
  | true => cases t <;> simp_all [Token.isDeclTok, Token.nonEmptyText]
  | false =>
    have hm : t ∈ dropDecls ts := by simp [dropDecls, ht, hd]
    rw [← htok] at hm
    exact nonEmptyText_of_plain (wellList_tokens_plain sns baseScope hw.1 t hm)

/-- Every text token of the reference tokenizer is non-empty. -/
theorem nonEmptyText_of_accLex {t : Token} (h : t.accLex = true) : t.nonEmptyText = true := by
  cases t with
  | text s =>
    simp only [Token.accLex, Bool.and_eq_true] at h
    exact h.1
  | _ => rfl

/-- No XML declaration in the list. -/
theorem declsV10_of_noDecl {ts : List Token} (h : ts.all (fun t => !t.isDeclTok) = true) : declsV10 ts := by
  intro v e s sp hm
  rw [List.all_eq_true] at h
  have := h _ hm
  simp [Token.isDeclTok] at this

/-- The tables of a fresh `Xot` (`Env.fresh`) are base tables. -/
theorem envBaseNs_fresh : EnvBaseNs Env.fresh :=
  ⟨⟨[], rfl⟩, ⟨[], rfl⟩, ⟨(['s', 'p', 'a', 'c', 'e'], 1), [], rfl, by decide⟩⟩

/-! ### Closed examples -/

/-- The spelling reconstructed from `goodDoc` (Lemmas/ParseWitnessData.lean), the tokens of
    `<p:a xmlns:p='u' b='x&#10;y'><!--c-->t&lt;<![CDATA[c]]></p:a>`. -/
def goodDocSpelling : List NSNode :=
  [.elem ⟨['p'], 1⟩ ⟨['a'], 3⟩ ⟨['<', 'p', ':', 'a'], 0⟩
    [⟨⟨['x', 'm', 'l', 'n', 's'], 5⟩, ⟨['p'], 11⟩, [.lit 'u'], 14,
        ⟨['x', 'm', 'l', 'n', 's', ':', 'p', '=', '\'', 'u', '\''], 5⟩⟩,
     ⟨⟨[], 0⟩, ⟨['b'], 17⟩, [.lit 'x', .dec [1, 0], .lit 'y'], 20,
        ⟨['b', '=', '\'', 'x', '&', '#', '1', '0', ';', 'y', '\''], 17⟩⟩]
    ⟨['>'], 28⟩
    [.comment ⟨['c'], 33⟩ ⟨['<', '!', '-', '-', 'c', '-', '-', '>'], 29⟩,
     .chars [.txt [.lit 't', .named ['l', 't']] 37,
             .cd ⟨['c'], 51⟩ ⟨['<', '!', '[', 'C', 'D', 'A', 'T', 'A', '[', 'c', ']', ']', '>'], 42⟩]]
    ⟨['p'], 57⟩ ⟨['a'], 59⟩ ⟨['<', '/', 'p', ':', 'a', '>'], 55⟩]

/-- The builder takes an EMPTY text token (which no tokenizer emits) for an empty text node. -/
def emptyTextTokens : List Token := [.text ⟨[], 0⟩]

/-- `<?xml version="1.0"?><a/>` with the declaration token where the tokenizer puts it, and the
    same tokens with the declaration INSIDE the start tag (no tokenizer output). -/
def declFirstTokens : List Token :=
  [.declaration ⟨['1', '.', '0'], 15⟩ none none
     ⟨['<', '?', 'x', 'm', 'l', ' ', 'v', 'e', 'r', 's', 'i', 'o', 'n', '=', '"', '1', '.', '0', '"', '?', '>'], 0⟩,
   .elementStart ⟨[], 0⟩ ⟨['a'], 22⟩ ⟨['<', 'a'], 21⟩,
   .elementEnd .empty ⟨['/', '>'], 23⟩]

def declFirstSpelling : List NSNode := [.empty ⟨[], 0⟩ ⟨['a'], 22⟩ ⟨['<', 'a'], 21⟩ [] ⟨['/', '>'], 23⟩]

end XotModel
