/-
  Finv (C04), part 36: a value update and `remove_subtree` of an unrelated node commute; the merge
  of `remove_consolidate_text_nodes` commutes with `remove_subtree(a)` when neither text node is
  inside or above `a`.
-/
import XotModel.Lemmas.FinvReplN2

namespace XotModel
open HTree

theorem rb_setValue (c : Nat) (K : HTree) (w : Value) : rb c (K.setValue w) = (rb c K).setValue w := by
  cases K; simp [rb, replaceBelow, HTree.setValue]

namespace Forest

theorem ancestors_setValue {f : Forest} (nd : f.allHandles.Nodup) {x u : Nat} (w : Value)
    (hx : x ∈ f.allHandles) (hanc : (f.ancestors x).contains u = false) :
    (f.setValue u w).ancestors x = f.ancestors x := by
  obtain ⟨path, lx, K, rx, lc⟩ := exists_loc hx
  have lc' := setView w lc nd hanc
  have nd' : (f.setValue u w).allHandles.Nodup := by rw [allHandles_setValue]; exact nd
  rw [ancestors_of_loc lc' nd', ancestors_of_loc lc nd]
  simp [List.map_map, Function.comp_def]

/-- A text node or any other leaf kind is above nothing but itself. -/
theorem text_not_ancestor {f : Forest} (hi : f.Inv) {u x : Nat} {s : Str} (ht : f.textOf u = some s)
    (hx : x ∈ f.allHandles) (hne : x ≠ u) : (f.ancestors x).contains u = false :=
  fi_leaf_not_ancestor hi ((textOf_eq_some_iff _ _ _).mp ht) rfl rfl hx hne

/-- A value update at `u` and `remove_subtree(a)` commute when `u` is not inside `a`. -/
theorem setValue_drop_comm {f : Forest} (nd : f.allHandles.Nodup) {u a : Nat} (w : Value)
    (hu : u ∈ f.allHandles) (ha : a ∈ f.allHandles) (hanc : (f.ancestors u).contains a = false) :
    (f.dropSubtree a).setValue u w = (f.setValue u w).dropSubtree a := by
  obtain ⟨path, lu, K, ru, lc⟩ := exists_loc hu
  have v := dropView lc nd ha hanc
  have nd' : (f.setValue u w).allHandles.Nodup := by rw [allHandles_setValue]; exact nd
  have lc' : Loc (f.setValue u w).roots u path lu (K.setValue w) ru := by
    rw [setValue_of_loc w lc nd]; exact ⟨rfl, by simp [lc.hk]⟩
  have ha' : a ∈ (f.setValue u w).allHandles := by rw [allHandles_setValue]; exact ha
  have hanc' : ((f.setValue u w).ancestors u).contains a = false := by
    rw [ancestors_of_loc lc' nd', ← ancestors_of_loc lc nd]; exact hanc
  have v' := dropView lc' nd' ha' hanc'
  rw [setValue_of_loc w v.loc v.nodup, v'.eq, v.eq, setValue_of_loc w lc nd, rb_setValue]

/-- The merge `setValue u; spliceOut v` of two text nodes commutes with `remove_subtree(a)`. -/
theorem merge_drop_comm {f : Forest} (hi : f.Inv) {u v a : Nat} {us vs : Str} (s : Str)
    (tu : f.textOf u = some us) (tv : f.textOf v = some vs) (huv : u ≠ v)
    (ha : a ∈ f.allHandles) (hau : (f.ancestors u).contains a = false)
    (hav : (f.ancestors v).contains a = false) (hva : (f.ancestors a).contains v = false) :
    ((f.dropSubtree a).setValue u (.text s)).spliceOut v =
      ((f.setValue u (.text s)).spliceOut v).dropSubtree a := by
  have nd := hi.nodup
  have hu : u ∈ f.allHandles := mem_allHandles_of_isLive (isLive_of_value? ((textOf_eq_some_iff _ _ _).mp tu))
  have hv : v ∈ f.allHandles := mem_allHandles_of_isLive (isLive_of_value? ((textOf_eq_some_iff _ _ _).mp tv))
  have hfs : (f.setValue u (.text s)).Inv :=
    setValue_inv hi ((textOf_eq_some_iff _ _ _).mp tu) ⟨rfl, rfl, rfl, rfl⟩ (fun _ => rfl)
  rw [setValue_drop_comm nd _ hu ha hau]
  generalize hfsdef : f.setValue u (.text s) = fs at hfs
  have ndfs := hfs.nodup
  have hafs : a ∈ fs.allHandles := by rw [← hfsdef, allHandles_setValue]; exact ha
  have hvfs : v ∈ fs.allHandles := by rw [← hfsdef, allHandles_setValue]; exact hv
  have htv : fs.textOf v = some vs := by
    rw [← hfsdef, textOf_eq_some_iff, value?_setValue_ne nd (Ne.symm huv)]
    exact (textOf_eq_some_iff _ _ _).mp tv
  have hvu : (f.ancestors v).contains u = false := text_not_ancestor hi tu hv (Ne.symm huv)
  have hau' : (f.ancestors a).contains u = false := by
    by_cases e : a = u
    · subst e
      obtain ⟨pu, lu, Ku, ru, locu⟩ := exists_loc hu
      rw [ancestors_of_loc locu nd] at hau
      simp at hau
    · exact text_not_ancestor hi tu ha e
  have hav' : (fs.ancestors v).contains a = false := by
    rw [← hfsdef, ancestors_setValue nd _ hv hvu]; exact hav
  have hva' : (fs.ancestors a).contains v = false := by
    rw [← hfsdef, ancestors_setValue nd _ ha hau']; exact hva
  obtain ⟨pathv, lv, Vt, rv, locv⟩ := exists_loc hvfs
  have hVk : Vt.kids = [] := by
    have hval := value?_of_loc locv ndfs
    rw [(textOf_eq_some_iff _ _ _).mp htv] at hval
    exact kids_nil_of_text (hfs.validTree_of_loc locv) (by rw [← Option.some.inj hval]; rfl)
  have vv := dropView locv ndfs hafs hav'
  have hgv : (fs.dropSubtree a).get? v = some Vt := vv.get? (by rw [hVk]; simp)
  rw [spliceOut_leaf_eq_drop vv.nodup hgv hVk, spliceOut_leaf_eq_drop ndfs (get?_of_loc locv ndfs) hVk]
  exact (dropSubtree_comm ndfs hafs hvfs hav' hva').symm

end Forest
end XotModel
