/-
  Helper lemmas for C10: what the prefix choosers of output/fullname.rs return is an entry of the
  frame they search; `namespaces_in_scope` yields every prefix at most once.
-/
import XotModel.Lemmas.FStack

namespace XotModel

theorem mem_prefixesByNamespace (info : List (Nat × Nat)) (ns p : Nat) :
    p ∈ prefixesByNamespace info ns ↔ (p, ns) ∈ info := by
  unfold prefixesByNamespace
  simp only [List.mem_map, List.mem_filter, List.mem_reverse]
  constructor
  · rintro ⟨d, ⟨hd, hn⟩, rfl⟩
    obtain ⟨q, n⟩ := d
    have : n = ns := by simpa using hn
    subst this
    exact hd
  · intro h; exact ⟨(p, ns), ⟨h, by simp⟩, rfl⟩

theorem elementPrefixByNamespace_mem {info : List (Nat × Nat)} {ns q : Nat}
    (h : elementPrefixByNamespace info ns = some q) : (q, ns) ∈ info := by
  unfold elementPrefixByNamespace at h
  split at h
  · rename_i hany
    cases h
    obtain ⟨p, hp, he⟩ := List.any_eq_true.mp hany
    have : p = Env.emptyPrefix := by simpa using he
    subst this
    exact (mem_prefixesByNamespace info ns _).mp hp
  · exact (mem_prefixesByNamespace info ns q).mp (List.mem_of_mem_head? h)

theorem elementPrefixByNamespace_none {info : List (Nat × Nat)} {ns : Nat}
    (h : elementPrefixByNamespace info ns = none) (p : Nat) : (p, ns) ∉ info := by
  unfold elementPrefixByNamespace at h
  split at h
  · cases h
  · intro hm
    have := (mem_prefixesByNamespace info ns p).mpr hm
    rw [List.head?_eq_none_iff] at h
    rw [h] at this
    cases this

theorem attributePrefixByNamespace_mem {info : List (Nat × Nat)} {ns q : Nat}
    (h : attributePrefixByNamespace info ns = some q) : (q, ns) ∈ info ∧ q ≠ Env.emptyPrefix := by
  unfold attributePrefixByNamespace at h
  have h1 := List.mem_of_find?_eq_some h
  have h2 := List.find?_some h
  exact ⟨(mem_prefixesByNamespace info ns q).mp h1, by simpa using h2⟩

theorem attributePrefixByNamespace_none {info : List (Nat × Nat)} {ns : Nat}
    (h : attributePrefixByNamespace info ns = none) (p : Nat) (hp : p ≠ Env.emptyPrefix) :
    (p, ns) ∉ info := by
  unfold attributePrefixByNamespace at h
  intro hm
  have := List.find?_eq_none.mp h p ((mem_prefixesByNamespace info ns p).mpr hm)
  simp [hp] at this

/-- `has_default_namespace` on a flattened scope: the nearest declaration of the empty prefix binds
    it to a namespace other than the no-namespace id. -/
theorem hasDefaultNamespace_iff {s : FStack} {fs : Frames} (hf : Flat s.top fs) :
    s.hasDefaultNamespace = true ↔
      ∃ n, lookupFrames fs Env.emptyPrefix = some n ∧ n ≠ Env.noNamespace := by
  unfold FStack.hasDefaultNamespace
  rw [List.any_eq_true]
  constructor
  · rintro ⟨⟨p, n⟩, hm, hc⟩
    simp only [Bool.and_eq_true, beq_iff_eq, bne_iff_ne, ne_eq] at hc
    obtain ⟨rfl, hn⟩ := hc
    exact ⟨n, (hf.2 _ _).mp hm, hn⟩
  · rintro ⟨n, hl, hn⟩
    exact ⟨(Env.emptyPrefix, n), (hf.2 _ _).mpr hl, by simp [hn]⟩

/-! ### `namespace_traverse` yields each prefix once -/

/-- What one pass over a declaration list guarantees: `seen` only grows, every yielded prefix is
    new (not in the old `seen`) and recorded, and no prefix is yielded twice. -/
theorem traverseDecls_cons_seen (seen : List Nat) (p n : Nat) (rest : List (Nat × Nat))
    (h : seen.contains p = true) : traverseDecls seen ((p, n) :: rest) = traverseDecls seen rest := by
  rw [traverseDecls]
  simp only [h, if_true]

theorem traverseDecls_cons_new (seen : List Nat) (p n : Nat) (rest : List (Nat × Nat))
    (h : ¬ seen.contains p = true) :
    traverseDecls seen ((p, n) :: rest) =
      ((traverseDecls (seen ++ [p]) rest).1,
       if ((p == Env.emptyPrefix) && (n == Env.noNamespace)) = true then (traverseDecls (seen ++ [p]) rest).2
       else (p, n) :: (traverseDecls (seen ++ [p]) rest).2) := by
  rw [traverseDecls]
  simp only [h]
  cases traverseDecls (seen ++ [p]) rest
  rfl

theorem traverseDecls_spec (seen : List Nat) (ds : List (Nat × Nat)) :
    (∀ p ∈ seen, p ∈ (traverseDecls seen ds).1) ∧
    (∀ p ∈ (traverseDecls seen ds).2.map Prod.fst, p ∉ seen ∧ p ∈ (traverseDecls seen ds).1) ∧
    UniquePrefixes (traverseDecls seen ds).2 := by
  induction ds generalizing seen with
  | nil => simp [traverseDecls, UniquePrefixes]
  | cons d ds ih =>
    obtain ⟨p, n⟩ := d
    by_cases hs : seen.contains p = true
    · rw [traverseDecls_cons_seen seen p n ds hs]
      exact ih seen
    · rw [traverseDecls_cons_new seen p n ds hs]
      obtain ⟨h1, h2, h3⟩ := ih (seen ++ [p])
      have hp : p ∉ seen := by simpa using hs
      refine ⟨fun q hq => h1 q (by simp [hq]), ?_, ?_⟩
      · intro q hq
        simp only [] at hq ⊢
        split at hq
        · obtain ⟨a, b⟩ := h2 q hq
          exact ⟨fun hqs => a (by simp [hqs]), b⟩
        · simp only [List.map_cons, List.mem_cons] at hq
          rcases hq with rfl | hq
          · exact ⟨hp, h1 _ (by simp)⟩
          · obtain ⟨a, b⟩ := h2 q hq
            exact ⟨fun hqs => a (by simp [hqs]), b⟩
      · simp only []
        split
        · exact h3
        · unfold UniquePrefixes
          simp only [List.map_cons, List.nodup_cons]
          refine ⟨fun hq => ?_, h3⟩
          exact (h2 p hq).1 (by simp)

theorem traverseChain_spec (seen : List Nat) (chain : List Tree) :
    (∀ p ∈ seen, p ∈ (traverseChain seen chain).1) ∧
    (∀ p ∈ (traverseChain seen chain).2.map Prod.fst, p ∉ seen ∧ p ∈ (traverseChain seen chain).1) ∧
    UniquePrefixes (traverseChain seen chain).2 := by
  induction chain generalizing seen with
  | nil => simp [traverseChain, UniquePrefixes]
  | cons t rest ih =>
    unfold traverseChain
    obtain ⟨a1, a2, a3⟩ := traverseDecls_spec seen t.nsDecls
    obtain ⟨b1, b2, b3⟩ := ih (traverseDecls seen t.nsDecls).1
    simp only []
    refine ⟨fun p hp => b1 p (a1 p hp), ?_, ?_⟩
    · intro p hp
      simp only [List.map_append, List.mem_append] at hp
      rcases hp with hp | hp
      · exact ⟨(a2 p hp).1, b1 p (a2 p hp).2⟩
      · exact ⟨fun hs => (b2 p hp).1 (a1 p hs), (b2 p hp).2⟩
    · unfold UniquePrefixes
      rw [List.map_append, List.nodup_append]
      refine ⟨a3, b3, ?_⟩
      intro x hx y hy hxy
      subst hxy
      exact (b2 x hy).1 (a2 x hx).2

theorem namespacesInScopeChain_unique (chain : List Tree) :
    UniquePrefixes (namespacesInScopeChain chain) := by
  unfold namespacesInScopeChain
  obtain ⟨_, h2, h3⟩ := traverseChain_spec [] chain
  simp only []
  unfold UniquePrefixes
  rw [List.map_append, List.nodup_append]
  refine ⟨h3, ?_, ?_⟩
  · exact List.Nodup.sublist (List.Sublist.map _ List.filter_sublist) (by decide)
  · intro x hx y hy hxy
    subst hxy
    obtain ⟨d, hd, rfl⟩ := List.mem_map.mp hy
    have := (List.mem_filter.mp hd).2
    have hin := (h2 d.1 hx).2
    simp [hin] at this

theorem namespacesInScope_unique (t : Tree) (start : Path) (d : List (Nat × Nat))
    (h : namespacesInScope t start = some d) : UniquePrefixes d := by
  unfold namespacesInScope at h
  cases hc : t.ancestorsOrSelf start with
  | none => simp [hc] at h
  | some chain =>
    simp only [hc, Option.map_some, Option.some.injEq] at h
    rw [← h]
    exact namespacesInScopeChain_unique chain

end XotModel
