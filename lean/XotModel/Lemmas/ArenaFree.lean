/-
  XotModel.Lemmas.ArenaFree — `Arena::free_node` on a live, parentless, childless node of a
  well-formed arena: the slot joins the END of the free list (FIFO reuse), its stamp becomes
  negative with a strictly larger magnitude (unless saturated at 32767), no other slot's pointers
  change.
-/
import XotModel.Lemmas.ArenaIterKids

namespace XotModel
namespace Arena

theorem asRemoved_of_nonneg (t : Int) (h0 : 0 ≤ t) (h1 : t ≤ 32767) :
    Stamp.asRemoved t = (if t < 32767 then -t - 1 else -t) := by
  unfold Stamp.asRemoved
  by_cases h : t < 32767
  · rw [if_pos h, if_pos h, wrap16_id (-t) (by omega) (by omega), wrap16_id _ (by omega) (by omega)]
  · rw [if_neg h, if_neg h, wrap16_id (-t) (by omega) (by omega)]

/-- Transfer of the pointer facts of slot `j` when ids agree on every live slot but `i`, and `i` is
    mentioned nowhere. -/
theorem PtrOk.transfer_except {a a' : Arena} {g g' : Shape} {i j : Nat} {s : Slot} (r : Rep a g)
    (h : PtrOk a g j s) (hid : ∀ k, k ≠ i → Live a k → a'.idAt k = a.idAt k)
    (hipar : ∀ c, g.par c ≠ some i) (hikids : ∀ q, i ∉ g.kids q)
    (hpar : g'.par j = g.par j) (hkids : g'.kids j = g.kids j)
    (hpk : ∀ p, g.par j = some p → g'.kids p = g.kids p) : PtrOk a' g' j s := by
  have live_kids : ∀ p c, c ∈ g.kids p → Live a c := fun p c hc => (r.kidsLive p c hc).2.1
  have mapc : ∀ (o : Option Nat), (∀ k, o = some k → Live a k ∧ k ≠ i) → o.map a'.idAt = o.map a.idAt := by
    intro o ho
    cases o with
    | none => rfl
    | some k => simp [hid k (ho k rfl).2 (ho k rfl).1]
  refine ⟨?_, ?_, ?_, ?_, ?_⟩
  · rw [h.parent, hpar, mapc]
    intro k hk; exact ⟨(r.live_of_par hk).2, fun e => hipar j (e ▸ hk)⟩
  · rw [h.first, hkids, mapc]
    intro k hk
    have := List.mem_of_mem_head? hk
    exact ⟨live_kids j k this, fun e => hikids j (e ▸ this)⟩
  · rw [h.last, hkids, mapc]
    intro k hk
    have := List.mem_of_getLast? hk
    exact ⟨live_kids j k this, fun e => hikids j (e ▸ this)⟩
  · intro hn; rw [hpar] at hn; exact h.root hn
  · intro p hp
    rw [hpar] at hp
    obtain ⟨L, R, hk, hprev, hnext⟩ := h.sib p hp
    refine ⟨L, R, by rw [hpk p hp, hk], ?_, ?_⟩
    · rw [hprev, mapc]
      intro k hk'
      have : k ∈ g.kids p := by rw [hk]; exact List.mem_append_left _ (List.mem_of_getLast? hk')
      exact ⟨live_kids p k this, fun e => hikids p (e ▸ this)⟩
    · rw [hnext, mapc]
      intro k hk'
      have : k ∈ g.kids p := by rw [hk]; exact List.mem_append_right _ (List.mem_cons_of_mem _ (List.mem_of_mem_head? hk'))
      exact ⟨live_kids p k this, fun e => hikids p (e ▸ this)⟩

/-- What `free_node` guarantees on an isolated live node. -/
structure FreeNodeOk (b : Arena) (h : Shape) (i : Nat) (b' : Arena) : Prop where
  rep : Rep b' { h with free := h.free ++ [i] }
  others : ∀ j, j ≠ i → (b'.slot j).map (·.stamp) = (b.slot j).map (·.stamp)
  stamp : ∀ s, b.slot i = some s → ∃ s', b'.slot i = some s' ∧
    s'.stamp = (if s.stamp < 32767 then -s.stamp - 1 else -s.stamp)
  live : ∀ j, Live b' j ↔ (Live b j ∧ j ≠ i)
  payload : ∀ j s v, j ≠ i → b.slot j = some s → s.data = .data v → ∃ s', b'.slot j = some s' ∧ s'.data = .data v

theorem Rep.freeNode {b : Arena} {h : Shape} (r : Rep b h) (i : Nat) (hi : Live b i) (hpar : h.par i = none)
    (hkids : h.kids i = []) : ∃ b', freeNode b (b.idAt i) = .done b' () ∧ FreeNodeOk b h i b' := by
  obtain ⟨s, hs, h0⟩ := hi
  obtain ⟨_, hhi⟩ := r.stampRange i s hs
  have hst := asRemoved_of_nonneg s.stamp h0 hhi
  have hneg : Stamp.asRemoved s.stamp < 0 := by rw [hst]; split <;> omega
  have hlo : -32767 ≤ Stamp.asRemoved s.stamp := by rw [hst]; split <;> omega
  have hifree : i ∉ h.free := fun hm => by
    obtain ⟨s', hs', hn⟩ := (r.free.mem i).mp hm
    rw [hs] at hs'; cases hs'; omega
  have hikids : ∀ q, i ∉ h.kids q := fun q hm => by
    have := (r.kidsLive q i hm).2.2; rw [hpar] at this; cases this
  have hipar : ∀ c, h.par c ≠ some i := fun c hc => by
    have := (r.parKids c i hc).2; rw [hkids] at this; cases this
  -- the arena reached
  let node' : Slot := { s with data := .nextFree none, stamp := Stamp.asRemoved s.stamp }
  have hreuse : Stamp.reuseable node'.stamp = true := by
    simp only [Stamp.reuseable, decide_eq_true_eq]; show Stamp.asRemoved s.stamp > -32768; omega
  have hb1 : ∀ j, (b.setSlot i node').slot j = if i = j then some node' else b.slot j :=
    fun j => slot_setSlot b i j s node' hs
  cases hlf : h.free.getLast? with
  | none =>
    have hfnil : h.free = [] := List.getLast?_eq_none_iff.mp hlf
    have hlast : b.lastFree = none := by rw [r.free.last, hlf]
    have hcomp : Arena.freeNode b (b.idAt i) = .done { (b.setSlot i node') with firstFree := some i, lastFree := some i } () := by
      unfold Arena.freeNode
      rw [idAt_index0]
      have : b.nodes[i]? = some s := hs
      simp only [this]
      rw [if_pos hreuse]
      have : (b.setSlot i node').lastFree = none := hlast
      rw [this]
    refine ⟨_, hcomp, ?_⟩
    generalize hb' : ({ (b.setSlot i node') with firstFree := some i, lastFree := some i } : Arena) = b'
    have hslot : ∀ j, b'.slot j = if i = j then some node' else b.slot j := fun j => by rw [← hb']; exact hb1 j
    have hlive : ∀ j, Live b' j ↔ (Live b j ∧ j ≠ i) := by
      intro j
      by_cases hij : i = j
      · subst hij
        constructor
        · rintro ⟨s', hs', h0'⟩; rw [hslot, if_pos rfl] at hs'; cases hs'; exact absurd h0' (by show ¬ (0 ≤ Stamp.asRemoved s.stamp); omega)
        · rintro ⟨_, hne⟩; exact absurd rfl hne
      · unfold Live; rw [hslot, if_neg hij]
        exact ⟨fun hl => ⟨hl, fun e => hij e.symm⟩, fun hl => hl.1⟩
    have hid : ∀ k, k ≠ i → Live b k → b'.idAt k = b.idAt k := by
      intro k hk ⟨sk, hsk, _⟩
      rw [idAt_of_slot hsk, idAt_of_slot (show b'.slot k = some sk by rw [hslot, if_neg (Ne.symm hk)]; exact hsk)]
    refine ⟨⟨?_, ?_, ⟨?_, ?_, ?_, ?_, ?_⟩, ?_, ?_, r.kidsNodup, r.acyclic, ?_⟩, ?_, ?_, hlive,
      fun j sj v hj hsj hd => ⟨sj, by rw [hslot, if_neg (Ne.symm hj)]; exact hsj, hd⟩⟩
    · intro j s' hs'
      rw [hslot] at hs'; split at hs'
      · cases hs'; exact ⟨hlo, by show Stamp.asRemoved s.stamp ≤ 32767; omega⟩
      · exact r.stampRange j s' hs'
    · intro j s' hs'
      rw [hslot] at hs'; split at hs'
      · cases hs'
        constructor
        · intro h0'; exact absurd h0' (by show ¬ (0 ≤ Stamp.asRemoved s.stamp); omega)
        · rintro ⟨v, hv⟩; cases hv
      · exact r.dataLive j s' hs'
    · simp [hfnil]
    · intro j
      simp only [hfnil, List.nil_append, List.mem_singleton]
      constructor
      · intro e; subst e; exact ⟨node', by rw [hslot, if_pos rfl], hneg⟩
      · rintro ⟨s', hs', hn⟩
        by_cases hij : i = j
        · exact hij.symm
        · rw [hslot, if_neg hij] at hs'
          have := (r.free.mem j).mpr ⟨s', hs', hn⟩
          rw [hfnil] at this; cases this
    · rw [← hb']; simp [hfnil]
    · rw [← hb']; simp [hfnil]
    · intro k j hk
      simp only [hfnil, List.nil_append] at hk ⊢
      cases k with
      | zero => simp at hk; subst hk; exact ⟨node', by rw [hslot, if_pos rfl], by simp [node']⟩
      | succ k => simp at hk
    · intro p c hc
      obtain ⟨l1, l2, l3⟩ := r.kidsLive p c hc
      refine ⟨(hlive p).mpr ⟨l1, fun e => ?_⟩, (hlive c).mpr ⟨l2, fun e => hikids p (e ▸ hc)⟩, l3⟩
      subst e; rw [hkids] at hc; cases hc
    · intro c p hp
      obtain ⟨l1, l2⟩ := r.parKids c p hp
      exact ⟨(hlive c).mpr ⟨l1, fun e => by subst e; rw [hpar] at hp; cases hp⟩, l2⟩
    · intro j s' hs' h0'
      rw [hslot] at hs'
      by_cases hij : i = j
      · rw [if_pos hij] at hs'; cases hs'; exact absurd h0' (by show ¬ (0 ≤ Stamp.asRemoved s.stamp); omega)
      · rw [if_neg hij] at hs'
        exact (r.ptrs j s' hs' h0').transfer_except r hid hipar hikids rfl rfl (fun _ _ => rfl)
    · intro j hj; rw [hslot, if_neg (Ne.symm hj)]
    · intro s2 hs2
      rw [hs] at hs2; cases hs2
      exact ⟨node', by rw [hslot, if_pos rfl], hst⟩
  | some jl =>
    have hjl : jl ∈ h.free := List.mem_of_getLast? hlf
    obtain ⟨sj, hsj, hsjn⟩ := (r.free.mem jl).mp hjl
    have hjli : i ≠ jl := fun e => hifree (e ▸ hjl)
    have hlast : b.lastFree = some jl := by rw [r.free.last, hlf]
    have hsj1 : (b.setSlot i node').slot jl = some sj := by rw [hb1, if_neg hjli]; exact hsj
    have hcomp : Arena.freeNode b (b.idAt i) = .done
        { ((b.setSlot i node').setSlot jl { sj with data := .nextFree (some i) }) with lastFree := some i } () := by
      unfold Arena.freeNode
      rw [idAt_index0]
      have : b.nodes[i]? = some s := hs
      simp only [this]
      rw [if_pos hreuse]
      have : (b.setSlot i node').lastFree = some jl := hlast
      rw [this]
      simp only []
      rw [show (b.setSlot i { s with data := Data.nextFree none, stamp := Stamp.asRemoved s.stamp }).nodes[jl]? = some sj from hsj1]
    refine ⟨_, hcomp, ?_⟩
    generalize hb' : ({ ((b.setSlot i node').setSlot jl { sj with data := .nextFree (some i) }) with lastFree := some i } : Arena) = b'
    have hslot : ∀ j, b'.slot j = if jl = j then some { sj with data := .nextFree (some i) }
        else if i = j then some node' else b.slot j := fun j => by
      rw [← hb']
      show ((b.setSlot i node').setSlot jl _).slot j = _
      rw [slot_setSlot _ jl j sj _ hsj1, hb1]
    have hjlnl : ¬ Live b jl := Rep.not_live_of_neg hsj hsjn
    have hlive : ∀ j, Live b' j ↔ (Live b j ∧ j ≠ i) := by
      intro j
      by_cases hjj : jl = j
      · subst hjj
        constructor
        · rintro ⟨s', hs', h0'⟩; rw [hslot, if_pos rfl] at hs'; cases hs'; exact absurd h0' (by simp; omega)
        · rintro ⟨hl, _⟩; exact absurd hl hjlnl
      · by_cases hij : i = j
        · subst hij
          constructor
          · rintro ⟨s', hs', h0'⟩; rw [hslot, if_neg hjj, if_pos rfl] at hs'; cases hs'
            exact absurd h0' (by show ¬ (0 ≤ Stamp.asRemoved s.stamp); omega)
          · rintro ⟨_, hne⟩; exact absurd rfl hne
        · unfold Live; rw [hslot, if_neg hjj, if_neg hij]
          exact ⟨fun hl => ⟨hl, fun e => hij e.symm⟩, fun hl => hl.1⟩
    have hid : ∀ k, k ≠ i → Live b k → b'.idAt k = b.idAt k := by
      intro k hk hl
      obtain ⟨sk, hsk, hk0⟩ := hl
      have hkj : jl ≠ k := fun e => hjlnl (e ▸ ⟨sk, hsk, hk0⟩)
      rw [idAt_of_slot hsk, idAt_of_slot (show b'.slot k = some sk by rw [hslot, if_neg hkj, if_neg (Ne.symm hk)]; exact hsk)]
    have hlen : h.free.length ≠ 0 := fun e => by
      have : h.free = [] := List.length_eq_zero_iff.mp e
      rw [this] at hlf; cases hlf
    have hjlidx : h.free[h.free.length - 1]? = some jl := by
      rw [List.getLast?_eq_getElem?] at hlf; exact hlf
    have hsjfree : ∃ nf, sj.data = .nextFree nf := by
      obtain ⟨kk, hkk⟩ := List.getElem?_of_mem hjl
      obtain ⟨s2, hs2, hd2⟩ := r.free.link kk jl hkk
      rw [hsj] at hs2; cases hs2
      exact ⟨_, hd2⟩
    refine ⟨⟨?_, ?_, ⟨?_, ?_, ?_, ?_, ?_⟩, ?_, ?_, r.kidsNodup, r.acyclic, ?_⟩, ?_, ?_, hlive, ?_⟩
    rotate_right
    · intro j s2 v hj hs2 hd
      by_cases hjj : jl = j
      · subst hjj
        rw [hsj] at hs2; cases hs2
        obtain ⟨nf, hnf⟩ := hsjfree
        rw [hnf] at hd; cases hd
      · exact ⟨s2, by rw [hslot, if_neg hjj, if_neg (Ne.symm hj)]; exact hs2, hd⟩
    · intro j s' hs'
      rw [hslot] at hs'
      split at hs'
      · cases hs'; exact r.stampRange jl sj hsj
      · split at hs'
        · cases hs'; exact ⟨hlo, by show Stamp.asRemoved s.stamp ≤ 32767; omega⟩
        · exact r.stampRange j s' hs'
    · intro j s' hs'
      rw [hslot] at hs'
      split at hs'
      · cases hs'
        simp only
        constructor
        · intro h0'; omega
        · rintro ⟨v, hv⟩; cases hv
      · split at hs'
        · cases hs'
          constructor
          · intro h0'; exact absurd h0' (by show ¬ (0 ≤ Stamp.asRemoved s.stamp); omega)
          · rintro ⟨v, hv⟩; cases hv
        · exact r.dataLive j s' hs'
    · exact List.nodup_append.mpr ⟨r.free.nodup, by simp, fun x hx y hy e => by simp at hy; subst hy; subst e; exact hifree hx⟩
    · intro j
      simp only [List.mem_append, List.mem_singleton]
      rw [hslot]
      by_cases hjj : jl = j
      · subst hjj; rw [if_pos rfl]
        exact ⟨fun _ => ⟨_, rfl, hsjn⟩, fun _ => Or.inl hjl⟩
      · rw [if_neg hjj]
        by_cases hij : i = j
        · subst hij; rw [if_pos rfl]
          exact ⟨fun _ => ⟨_, rfl, hneg⟩, fun _ => Or.inr rfl⟩
        · rw [if_neg hij, ← r.free.mem j]
          exact ⟨fun hh => hh.elim id (fun e => absurd e.symm hij), Or.inl⟩
    · rw [← hb']; show b.firstFree = _
      rw [r.free.head]
      cases hf : h.free with
      | nil => rw [hf] at hlf; cases hlf
      | cons y ys => rfl
    · rw [← hb']; simp
    · intro k j hk
      simp only at hk ⊢
      by_cases hklt : k < h.free.length
      · rw [List.getElem?_append_left hklt] at hk
        obtain ⟨sk, hsk, hdk⟩ := r.free.link k j hk
        have hjmem : j ∈ h.free := List.mem_of_getElem? hk
        have hji : i ≠ j := fun e => hifree (e ▸ hjmem)
        by_cases hjj : jl = j
        · subst hjj
          -- the old tail: its link now points to `i`
          have hkeq : k = h.free.length - 1 := by
            have h1 := hk
            have h2 := hjlidx
            rw [List.getElem?_eq_some_iff] at h1 h2
            obtain ⟨h1a, h1b⟩ := h1
            obtain ⟨h2a, h2b⟩ := h2
            exact (List.getElem_inj r.free.nodup).mp (h1b.trans h2b.symm)
          refine ⟨_, by rw [hslot, if_pos rfl], ?_⟩
          have : k + 1 = h.free.length := by omega
          simp [this]
        · refine ⟨sk, by rw [hslot, if_neg hjj, if_neg hji]; exact hsk, ?_⟩
          rw [hdk]
          have hk1 : k + 1 < h.free.length := by
            rcases Nat.lt_or_ge (k + 1) h.free.length with h1 | h1
            · exact h1
            · exfalso
              have hkeq : k = h.free.length - 1 := by omega
              rw [hkeq, hjlidx] at hk
              cases hk; exact hjj rfl
          rw [List.getElem?_append_left hk1]
      · have hkge : h.free.length ≤ k := Nat.le_of_not_lt hklt
        rw [List.getElem?_append_right hkge] at hk
        have hk0 : k - h.free.length = 0 := by
          cases hkk : k - h.free.length with
          | zero => rfl
          | succ m => rw [hkk] at hk; simp at hk
        rw [hk0] at hk; simp at hk; subst hk
        refine ⟨node', by rw [hslot, if_neg hjli.symm, if_pos rfl], ?_⟩
        have : h.free.length ≤ k + 1 := by omega
        rw [List.getElem?_append_right this]
        have : k + 1 - h.free.length = 1 := by omega
        simp [this, node']
    · intro p c hc
      obtain ⟨l1, l2, l3⟩ := r.kidsLive p c hc
      refine ⟨(hlive p).mpr ⟨l1, fun e => ?_⟩, (hlive c).mpr ⟨l2, fun e => hikids p (e ▸ hc)⟩, l3⟩
      subst e; rw [hkids] at hc; cases hc
    · intro c p hp
      obtain ⟨l1, l2⟩ := r.parKids c p hp
      exact ⟨(hlive c).mpr ⟨l1, fun e => by subst e; rw [hpar] at hp; cases hp⟩, l2⟩
    · intro j s' hs' h0'
      rw [hslot] at hs'
      by_cases hjj : jl = j
      · rw [if_pos hjj] at hs'; cases hs'; exact absurd h0' (by simp; omega)
      · rw [if_neg hjj] at hs'
        by_cases hij : i = j
        · rw [if_pos hij] at hs'; cases hs'; exact absurd h0' (by show ¬ (0 ≤ Stamp.asRemoved s.stamp); omega)
        · rw [if_neg hij] at hs'
          exact (r.ptrs j s' hs' h0').transfer_except r hid hipar hikids rfl rfl (fun _ _ => rfl)
    · intro j hj
      rw [hslot]
      by_cases hjj : jl = j
      · subst hjj; rw [if_pos rfl, hsj]; rfl
      · rw [if_neg hjj, if_neg (Ne.symm hj)]
    · intro s2 hs2
      rw [hs] at hs2; cases hs2
      exact ⟨node', by rw [hslot, if_neg hjli.symm, if_pos rfl], hst⟩

end Arena
end XotModel
