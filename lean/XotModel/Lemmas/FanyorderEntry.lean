/-
  Lemmas for C20 (any construction order), part 2: attribute and namespace entries.

  `set_attribute` / `set_namespace` (`MutableNodeMap::insert`) and `any_append` of a parentless
  attribute / namespace node are, handle for handle, the specification's `specSetEntry` /
  `specAttachEntry` (Model/FanyorderSpec.lean): same key — the value replaced in place; new key — a
  node at the end of its block.  Built on the C11 lemmas (`Lemmas/Fmap*.lean`).
-/
import XotModel.Model.FanyorderSpec
import XotModel.Lemmas.FmapInv
import XotModel.Lemmas.FmapReads
import XotModel.Lemmas.FspecList

namespace XotModel
namespace Prog
open Spec Fmap HTree
open Forest (MapKind entryKey)

/-! ### List facts -/

theorem sameKey_true {a b : Value} (h : sameKey a b = true) :
    a.category = b.category ∧ a.category ≠ .normal ∧ entryKey a = entryKey b := by
  cases a <;> cases b <;> simp_all [sameKey, Value.category, entryKey]

theorem sameKey_of {k : MapKind} {a b : Value} (ha : a.category = kindCat k) (hb : k.matches b = true)
    (hk : entryKey a = entryKey b) : sameKey a b = true := by
  cases k <;> cases a <;> cases b <;>
    simp_all [sameKey, Value.category, entryKey, kindCat, MapKind.matches]

theorem sameKey_false_of_key {k : MapKind} {a b : Value} (ha : a.category = kindCat k)
    (hk : entryKey a ≠ entryKey b) : sameKey a b = false := by
  cases h : sameKey a b with
  | false => rfl
  | true => exact absurd (sameKey_true h).2.2 hk

theorem sameKey_false_of_cat {a b : Value} (hc : a.category ≠ b.category) : sameKey a b = false := by
  cases h : sameKey a b with
  | false => rfl
  | true => exact absurd (sameKey_true h).1 hc

theorem entryUpdate_same {k : MapKind} {a b : Value} (ha : a.category = kindCat k) (hb : k.matches b = true)
    (hk : entryKey a = entryKey b) : Forest.entryUpdate a b = b := by
  cases k <;> cases a <;> cases b <;>
    simp_all [Forest.entryUpdate, Value.category, entryKey, kindCat, MapKind.matches]

theorem updEntry_split (entry : Value) (P Q : List HTree) (n : HTree)
    (hP : ∀ a ∈ P, sameKey a.value entry = false) (hn : sameKey n.value entry = true) :
    updEntry entry (P ++ n :: Q) = P ++ n.setValue entry :: Q := by
  induction P with
  | nil => simp [updEntry, hn]
  | cons a P ih =>
    have ha := hP a List.mem_cons_self
    simp only [List.cons_append, updEntry, ha, Bool.false_eq_true, if_false]
    rw [ih (fun x hx => hP x (List.mem_cons_of_mem _ hx))]

theorem hasKey_false (entry : Value) (L : List HTree) (h : ∀ a ∈ L, sameKey a.value entry = false) :
    hasKey entry L = false := by
  unfold hasKey
  rw [List.any_eq_false]
  intro a ha
  simp [h a ha]

theorem hasKey_true (entry : Value) (L : List HTree) (n : HTree) (hn : n ∈ L) (h : sameKey n.value entry = true) :
    hasKey entry L = true := by
  unfold hasKey
  rw [List.any_eq_true]
  exact ⟨n, hn, h⟩

theorem takeWhile_split {α : Type} (p : α → Bool) (X Y : List α) (hX : ∀ a ∈ X, p a = true)
    (hY : ∀ a ∈ Y, p a = false) : (X ++ Y).takeWhile p = X ∧ (X ++ Y).dropWhile p = Y := by
  induction X with
  | nil =>
    cases Y with
    | nil => exact ⟨rfl, rfl⟩
    | cons b Y => simp [List.takeWhile, List.dropWhile, hY b List.mem_cons_self]
  | cons a X ih =>
    have ha := hX a List.mem_cons_self
    obtain ⟨i1, i2⟩ := ih (fun x hx => hX x (List.mem_cons_of_mem _ hx))
    simp only [List.cons_append, List.takeWhile, List.dropWhile, ha]
    exact ⟨by rw [i1], i2⟩

/-- In a sectioned child list, a new entry of kind `k` goes right after the section of `k`. -/
theorem insEntry_sect {N A S : List HTree} (hs : Sect (N ++ A ++ S) N A S) (k : MapKind) (t : HTree)
    (ht : t.value.category = kindCat k) :
    insEntry t (N ++ A ++ S) = preK k N ++ (Sect.sec k N A ++ [t]) ++ postK k A S := by
  unfold insEntry
  cases k with
  | namespaces =>
    have hr : t.value.category.rank = 0 := by rw [ht]; rfl
    rw [hr]
    have := takeWhile_split (fun c : HTree => decide (c.value.category.rank ≤ 0)) N (A ++ S)
      (by intro a ha; simp [hs.allNs a ha, Category.rank])
      (by
        intro a ha
        rcases List.mem_append.1 ha with h | h
        · simp [hs.allAt a h, Category.rank]
        · simp [hs.allNm a h, Category.rank])
    rw [List.append_assoc, this.1, this.2]
    simp [preK, postK, Sect.sec]
  | attributes =>
    have hr : t.value.category.rank = 1 := by rw [ht]; rfl
    rw [hr]
    have := takeWhile_split (fun c : HTree => decide (c.value.category.rank ≤ 1)) (N ++ A) S
      (by
        intro a ha
        rcases List.mem_append.1 ha with h | h
        · simp [hs.allNs a h, Category.rank]
        · simp [hs.allAt a h, Category.rank])
      (by intro a ha; simp [hs.allNm a ha, Category.rank])
    rw [this.1, this.2]
    simp [preK, postK, Sect.sec]

/-- No entry of another kind or in the content has the key. -/
theorem sameKey_outside {N A S : List HTree} (hs : Sect (N ++ A ++ S) N A S) (k : MapKind) (entry : Value)
    (hm : k.matches entry = true) :
    (∀ a ∈ preK k N, sameKey a.value entry = false) ∧ (∀ a ∈ postK k A S, sameKey a.value entry = false) := by
  have hc : entry.category = kindCat k := (matches_iff_cat k entry).1 hm
  cases k with
  | namespaces =>
    refine ⟨(by intro a ha; simp [preK] at ha), ?_⟩
    intro a ha
    apply sameKey_false_of_cat
    rw [hc]
    rcases List.mem_append.1 ha with h | h
    · rw [hs.allAt a h]; simp [kindCat]
    · rw [hs.allNm a h]; simp [kindCat]
  | attributes =>
    refine ⟨?_, ?_⟩
    · intro a ha
      apply sameKey_false_of_cat
      rw [hc, hs.allNs a ha]; simp [kindCat]
    · intro a ha
      apply sameKey_false_of_cat
      rw [hc, hs.allNm a ha]; simp [kindCat]

/-! ### Edits through `withKids` -/

theorem editAt_eq_withKids {f : Forest} {e : Nat} {ev : Value} {ks : List HTree} (loc : Located f e ev ks)
    (g : List HTree → List HTree) :
    f.editAt (some e) g = { f with roots := withKids f.roots e (g ks) } := by
  unfold Forest.editAt
  simp only
  congr 1
  have := withKids_of f.roots e g _ loc.nodup loc.get
  simp only [HTree.kids] at this
  rw [← this, mapAtList_eq_map]
  rfl

theorem kidsOf_located {f : Forest} {e : Nat} {ev : Value} {ks : List HTree} (loc : Located f e ev ks) :
    f.kidsOf e = ks := by
  unfold Forest.kidsOf
  rw [loc.get]
  rfl

/-- The specification in the existing-key case, in the normal form of the C11 lemmas. -/
theorem spec_existing {f : Forest} {e nm : Nat} {N A S : List HTree} (h : MInv f e nm N A S)
    (k : MapKind) (entry : Value) (hm : k.matches entry = true) (n : HTree) (s1 s2 : List HTree)
    (hs : Sect.sec k N A = s1 ++ n :: s2) (hkey : keyOf n = entryKey entry)
    (hs1 : ∀ a ∈ s1, keyOf a ≠ entryKey entry) :
    hasKey entry (f.kidsOf e) = true ∧
    f.editAt (some e) (updEntry entry) =
      { f with roots := withKids f.roots e (preK k N ++ (s1 ++ n.setValue (Forest.entryUpdate n.value entry) :: s2) ++ postK k A S) } := by
  have hkids := kidsOf_located h.loc
  have hsplit := kids_around k N A S s1 s2 n hs
  have hncat : n.value.category = kindCat k := h.sect.sec_cat k n (by rw [hs]; simp)
  have hnk : sameKey n.value entry = true := sameKey_of hncat hm hkey
  obtain ⟨hpre, _⟩ := sameKey_outside h.sect k entry hm
  have hP : ∀ a ∈ preK k N ++ s1, sameKey a.value entry = false := by
    intro a ha
    rcases List.mem_append.1 ha with ha | ha
    · exact hpre a ha
    · exact sameKey_false_of_key (h.sect.sec_cat k a (by rw [hs]; simp [ha])) (hs1 a ha)
  constructor
  · rw [hkids, hsplit]
    exact hasKey_true entry _ n (by simp) hnk
  · rw [editAt_eq_withKids h.loc, hsplit, updEntry_split entry _ _ n hP hnk,
      entryUpdate_same hncat hm hkey]
    simp

/-- The specification in the new-key case. -/
theorem spec_absent {f : Forest} {e nm : Nat} {N A S : List HTree} (h : MInv f e nm N A S)
    (k : MapKind) (t : HTree) (hm : k.matches t.value = true)
    (habs : ∀ a ∈ Sect.sec k N A, keyOf a ≠ entryKey t.value) :
    hasKey t.value (f.kidsOf e) = false ∧
    ∀ g : Forest, Located g e (.element nm) (N ++ A ++ S) →
      g.editAt (some e) (insEntry t) =
        { g with roots := withKids g.roots e (preK k N ++ (Sect.sec k N A ++ [t]) ++ postK k A S) } := by
  have hkids := kidsOf_located h.loc
  obtain ⟨hpre, hpost⟩ := sameKey_outside h.sect k t.value hm
  constructor
  · rw [hkids, split_kids k N A S]
    apply hasKey_false
    intro a ha
    rcases List.mem_append.1 ha with ha | ha
    · rcases List.mem_append.1 ha with ha | ha
      · exact hpre a ha
      · exact sameKey_false_of_key (h.sect.sec_cat k a ha) (habs a ha)
    · exact hpost a ha
  · intro g loc
    rw [editAt_eq_withKids loc, insEntry_sect h.sect k t ((matches_iff_cat k _).1 hm)]

/-! ### `set_attribute` / `set_namespace` -/

theorem isElementAt_eq (f : Forest) (e : Nat) : isElementAt f e = f.isElement e := rfl

/-- `MutableNodeMap::insert` on an element is the specification's `specSetEntry`; it never fails. -/
theorem mapInsert_spec {f : Forest} (hi : f.Inv) (k : MapKind) (e : Nat) (entry : Value)
    (he : f.isElement e = true) (hm : k.matches entry = true) :
    f.mapInsert k e entry = (specSetEntry e entry f, .ok) := by
  obtain ⟨nm, N, A, S, h⟩ := minv_of_inv f e hi he
  unfold Forest.mapInsert specSetEntry
  rw [h.isElement]
  simp only [Bool.not_true, Bool.false_eq_true, if_false]
  rw [h.getNode k]
  cases hf : (Sect.sec k N A).find? (fun c => entryKey c.value == entryKey entry) with
  | some n =>
    obtain ⟨hkey, s1, s2, hs, hs1⟩ := find?_key_split _ _ _ hf
    obtain ⟨heq, _, _, _⟩ := insert_existing h k entry hm n s1 s2 hs _ hkey hs1
    obtain ⟨hk, hsp⟩ := spec_existing h k entry hm n s1 s2 hs hkey hs1
    simp only
    rw [heq, hk, if_pos rfl, hsp]
  | none =>
    have habs := find?_key_none _ _ hf
    obtain ⟨hloc1, hroot1, hne1, hbelow1⟩ := located_newNode h.loc h.below entry
    have h1 : MInv (f.newNode entry).1 e nm N A S := ⟨hloc1, h.sect, h.uniq, hbelow1, h.leaf⟩
    obtain ⟨hplace, _, _, _⟩ := place_absent h1 k f.next entry hm hroot1 hne1 habs
    rw [rootsWithout_newNode f h.below entry] at hplace
    obtain ⟨hk, hsp⟩ := spec_absent h k (.node f.next entry []) hm habs
    have hk' : hasKey entry (f.kidsOf e) = false := hk
    simp only
    show (f.newNode entry).1.mapPlace k e f.next = _
    rw [hplace, hk']
    simp only [Bool.false_eq_true, if_false]
    rw [hsp f h.loc]
    simp only [newNode_eq]

/-! ### `any_append` of a parentless attribute / namespace node -/

/-- `append_attribute_node` / `append_namespace_node` of a parentless entry node is the
    specification's `specAttachEntry`; it never fails. -/
theorem appendEntryNode_spec {f : Forest} (hi : f.Inv) (k : MapKind) (e c : Nat) (t : HTree)
    (he : f.isElement e = true) (hg : f.get? c = some t) (hroot : f.isRoot c = true)
    (hm : k.matches t.value = true) :
    (f.appendEntryNode k e c).1 = specAttachEntry e c t f ∧ (f.appendEntryNode k e c).2.1 = .ok := by
  obtain ⟨nm, N, A, S, h⟩ := minv_of_inv f e hi he
  have hval : f.value? c = some t.value := by simp [Forest.value?, hg]
  have hleaf := leafRoot_of_inv f hi k c t.value hroot hval hm
  have htl : t = .node c t.value [] := by
    have := leafRoot_get f h.loc.nodup c t.value hleaf
    rw [hg] at this
    exact Option.some.inj this
  have hne := leafRoot_ne_elem h k c t.value hm hleaf
  unfold Forest.appendEntryNode specAttachEntry
  rw [h.isElement]
  simp only [Bool.not_true, Bool.false_eq_true, if_false, hval, hm]
  unfold Forest.mapInsertNode
  simp only [hval, hm, Bool.not_true, Bool.false_eq_true, if_false]
  rw [h.getNode k]
  cases hf : (Sect.sec k N A).find? (fun c => entryKey c.value == entryKey t.value) with
  | some n =>
    obtain ⟨hkey, s1, s2, hs, hs1⟩ := find?_key_split _ _ _ hf
    obtain ⟨heq, _, _, _⟩ := insert_existing h k t.value hm n s1 s2 hs _ hkey hs1
    obtain ⟨hk, hsp⟩ := spec_existing h k t.value hm n s1 s2 hs hkey hs1
    simp only
    rw [heq, hk, if_pos rfl, hsp]
    exact ⟨rfl, trivial⟩
  | none =>
    have habs := find?_key_none _ _ hf
    obtain ⟨hplace, _, _, _⟩ := place_absent h k c t.value hm hleaf hne habs
    obtain ⟨hk, hsp⟩ := spec_absent h k t hm habs
    simp only
    rw [hplace, hk]
    simp only [Bool.false_eq_true, if_false]
    have h0 := located_without h.loc c t.value hleaf hne
    have hroots : (f.editAt none (dropTop c)).roots = rootsWithout f c := by
      show dropTop c f.roots = _
      rw [dropTop_eq_filter]
      rfl
    have hloc' : Located (f.editAt none (dropTop c)) e (.element nm) (N ++ A ++ S) := by
      refine ⟨?_, ?_⟩
      · show (handlesList (f.editAt none (dropTop c)).roots).Nodup
        rw [hroots]; exact h0.nodup
      · show findList? e (f.editAt none (dropTop c)).roots = _
        rw [hroots]; exact h0.get
    rw [hsp _ hloc', hroots]
    refine ⟨?_, trivial⟩
    rw [← htl]
    rfl

end Prog
end XotModel
