/-
  Lemmas/FwsChar — what `is_insignificant_whitespace` computes at a position of a valid forest:
  exactly the rule of the property (`Fws.topDeleted`).
-/
import XotModel.Lemmas.FwsBasic

namespace XotModel
namespace Fws
open HTree

/-! ### characters -/

theorem isXmlWhitespace_eq (s : Str) : Forest.isXmlWhitespace s = allWs s := by
  unfold Forest.isXmlWhitespace allWs
  congr 1
  funext c
  simp only [wsChars, List.contains_cons, List.contains_nil, Bool.or_false, Bool.or_assoc]

theorem isSignificantText_eq (t : HTree) : Forest.isSignificantText t = isOtherText t := by
  unfold Forest.isSignificantText isOtherText
  cases t.value <;> simp [isXmlWhitespace_eq]

theorem isOtherText_normal {t : HTree} (h : isOtherText t = true) : t.value.category = .normal := by
  unfold isOtherText at h
  cases hv : t.value <;> rw [hv] at h <;> simp [Value.category] at h ⊢

/-! ### child order -/

def rank (t : HTree) : Nat := t.value.category.rank

theorem kidsOrdered_pairwise : ∀ {ks : List HTree}, kidsOrdered ks = true → ks.Pairwise (fun a b => rank a ≤ rank b)
  | [], _ => List.Pairwise.nil
  | [_], _ => by simp
  | a :: b :: rest, h => by
    simp only [kidsOrdered, Bool.and_eq_true, decide_eq_true_eq] at h
    have ih := kidsOrdered_pairwise h.2
    refine List.pairwise_cons.2 ⟨?_, ih⟩
    intro x hx
    rcases List.mem_cons.1 hx with rfl | hx
    · exact h.1
    · exact Nat.le_trans h.1 ((List.pairwise_cons.1 ih).1 x hx)

theorem pairwise_kidsOrdered : ∀ {ks : List HTree}, ks.Pairwise (fun a b => rank a ≤ rank b) → kidsOrdered ks = true
  | [], _ => rfl
  | [_], _ => rfl
  | a :: b :: rest, h => by
    simp only [kidsOrdered, Bool.and_eq_true, decide_eq_true_eq]
    obtain ⟨h1, h2⟩ := List.pairwise_cons.1 h
    exact ⟨h1 b List.mem_cons_self, pairwise_kidsOrdered h2⟩

theorem rank_normal {t : HTree} : rank t = 2 ↔ t.value.category = .normal := by
  unfold rank; cases t.value.category <;> simp [Category.rank]

theorem rank_le_two (t : HTree) : rank t ≤ 2 := by
  unfold rank; cases t.value.category <;> simp [Category.rank]

theorem kidsOrdered_of_valid {b : Bool} {t : HTree} (hv : validTree b t = true) : kidsOrdered t.kids = true := by
  cases t with
  | node h v ks =>
    simp only [validTree, Bool.and_eq_true] at hv
    exact hv.1.1.1.1.2

theorem text_no_kids {b : Bool} {t : HTree} (hv : validTree b t = true) {s : Str} (ht : t.value = .text s) :
    t.kids = [] := by
  cases t with
  | node h v ks =>
    simp only [HTree.value] at ht
    subst ht
    simp only [validTree, Bool.and_eq_true] at hv
    have := hv.1.1.1.1.1
    cases ks with
    | nil => rfl
    | cons k ks => simp [kidAllowed] at this

theorem parent_not_text {b : Bool} {p k : HTree} (hv : validTree b p = true) (hk : k ∈ p.kids) :
    p.value.isText = false := by
  cases hp : p.value with
  | text s => rw [text_no_kids hv hp] at hk; cases hk
  | _ => rfl

/-! ### the `xml:space` attribute -/

/-- The attribute test used by both lookups. -/
def spaceOfKid (c : HTree) : Option Str :=
  match c.value with
  | .attribute n v => if n == 0 then some v else none
  | _ => none

theorem spaceAttr_eq (t : HTree) : spaceAttr t = t.kids.findSome? spaceOfKid := by
  unfold spaceAttr
  congr 1

theorem xmlSpaceOf_eq' (t : HTree) : Forest.xmlSpaceOf t = (Forest.mapChildren .attributes t).findSome? spaceOfKid := by
  unfold Forest.xmlSpaceOf
  congr 1

theorem spaceOfKid_none {c : HTree} (h : c.value.category ≠ .attribute) : spaceOfKid c = none := by
  unfold spaceOfKid
  cases hv : c.value <;> simp [hv, Value.category] at h ⊢

theorem findSome_none_of_ge {ks : List HTree} (h : ∀ k ∈ ks, rank k = 2) : ks.findSome? spaceOfKid = none := by
  rw [List.findSome?_eq_none_iff]
  intro x hx
  apply spaceOfKid_none
  have := rank_normal.1 (h x hx)
  rw [this]; simp

theorem takeWhile_attr : ∀ {ks : List HTree}, ks.Pairwise (fun a b => rank a ≤ rank b) → (∀ k ∈ ks, 1 ≤ rank k) →
    (ks.takeWhile (fun c => c.value.category == .attribute)).findSome? spaceOfKid = ks.findSome? spaceOfKid
  | [], _, _ => rfl
  | a :: ks, hp, hge => by
    obtain ⟨h1, h2⟩ := List.pairwise_cons.1 hp
    by_cases ha : a.value.category = .attribute
    · simp only [List.takeWhile_cons, ha, beq_self_eq_true, if_true, List.findSome?_cons]
      rw [takeWhile_attr h2 (fun k hk => hge k (List.mem_cons_of_mem _ hk))]
    · have hr : rank a = 2 := by
        have := hge a List.mem_cons_self
        unfold rank at this ⊢
        cases hc : a.value.category <;> simp [hc, Category.rank] at this ha ⊢
      have : (a.value.category == Category.attribute) = false := by simp [ha]
      simp only [List.takeWhile_cons, this]
      symm
      apply findSome_none_of_ge
      intro k hk
      rcases List.mem_cons.1 hk with rfl | hk
      · exact hr
      · exact Nat.le_antisymm (rank_le_two k) (hr ▸ h1 k hk)

theorem dropWhile_ns : ∀ {ks : List HTree}, ks.Pairwise (fun a b => rank a ≤ rank b) →
    ((ks.dropWhile (fun c => c.value.category == .namespace)).takeWhile
      (fun c => c.value.category == .attribute)).findSome? spaceOfKid = ks.findSome? spaceOfKid
  | [], _ => rfl
  | a :: ks, hp => by
    obtain ⟨h1, h2⟩ := List.pairwise_cons.1 hp
    by_cases ha : a.value.category = .namespace
    · have hn : spaceOfKid a = none := spaceOfKid_none (by rw [ha]; simp)
      simp only [List.dropWhile_cons, ha, beq_self_eq_true, if_true, List.findSome?_cons, hn]
      exact dropWhile_ns h2
    · have : (a.value.category == Category.namespace) = false := by simp [ha]
      simp only [List.dropWhile_cons, this]
      have hr : 1 ≤ rank a := by
        unfold rank
        cases hc : a.value.category <;> simp [hc, Category.rank] at ha ⊢
      apply takeWhile_attr hp
      intro k hk
      rcases List.mem_cons.1 hk with rfl | hk
      · exact hr
      · exact Nat.le_trans hr (h1 k hk)

/-- On a well-ordered node the `take_while`/`skip_while` lookup finds the attribute. -/
theorem xmlSpaceOf_eq {t : HTree} (ho : kidsOrdered t.kids = true) : Forest.xmlSpaceOf t = spaceAttr t := by
  rw [xmlSpaceOf_eq', spaceAttr_eq]
  unfold Forest.mapChildren
  exact dropWhile_ns (kidsOrdered_pairwise ho)

/-! ### scope -/

theorem preserve_go {f : Forest} {b : Bool} (nd : f.allHandles.Nodup) (hv : validList b f.roots = true)
    {t : HTree} {anc : List HTree} (o : Occurs f t anc) :
    Forest.inPreserveSpace.go f ((t :: anc).map HTree.handle) = chainScope (t :: anc) := by
  induction o with
  | @root r hr =>
    have o : Occurs f r [] := .root hr
    simp only [List.map_cons, List.map_nil, Forest.inPreserveSpace.go, o.get? nd,
      xmlSpaceOf_eq (kidsOrdered_of_valid (o.valid hv)), chainScope, scope]
    cases spaceAttr r <;> simp [preserve]
  | @kid p k anc op hk ih =>
    have o : Occurs f k (p :: anc) := .kid op hk
    rw [List.map_cons, Forest.inPreserveSpace.go]
    simp only [o.get? nd, xmlSpaceOf_eq (kidsOrdered_of_valid (o.valid hv))]
    rw [ih]
    conv => rhs; rw [chainScope, scope]
    cases spaceAttr k <;> simp [preserve]

theorem inPreserveSpace_eq {f : Forest} {b : Bool} (nd : f.allHandles.Nodup) (hv : validList b f.roots = true)
    {t : HTree} {anc : List HTree} (o : Occurs f t anc) :
    f.inPreserveSpace t.handle = chainScope (t :: anc) := by
  unfold Forest.inPreserveSpace
  rw [o.ancestors nd]
  exact preserve_go nd hv o

/-! ### sibling look-around -/

theorem any_other_of_lt {l : List HTree} (h : ∀ x ∈ l, rank x < 2) : l.any isOtherText = false := by
  rw [Bool.eq_false_iff]
  intro ht
  obtain ⟨x, hx, hs⟩ := List.any_eq_true.1 ht
  have := rank_normal.2 (isOtherText_normal hs)
  have := h x hx
  omega

theorem any_filter_normal (l : List HTree) :
    (l.filter (fun k => k.value.category == Category.normal)).any Forest.isSignificantText = l.any isOtherText := by
  rw [List.any_filter]
  congr 1
  funext a
  rw [isSignificantText_eq]
  cases h : isOtherText a
  · simp
  · simp [isOtherText_normal h]

theorem before_eq {f : Forest} (nd : f.allHandles.Nodup) {k p : HTree} {anc l r : List HTree}
    (o : Occurs f k (p :: anc)) (hs : p.kids = l ++ k :: r) (kn : k.value.category = .normal)
    (ho : kidsOrdered p.kids = true) :
    (match f.prevSibling k.handle with
      | some q => (f.precedingSiblings q).any Forest.isSignificantText
      | none => false) = l.any isOtherText := by
  obtain ⟨op, _⟩ := o.parent
  unfold Forest.prevSibling
  rw [o.ctx nd hs]
  simp only
  rcases List.eq_nil_or_concat l with rfl | ⟨l', q, rfl⟩
  · simp
  · rw [List.concat_eq_append] at hs ⊢
    rw [List.getLast?_concat]
    simp only [kn]
    by_cases hq : q.value.category = .normal
    · simp only [hq, beq_self_eq_true, if_true]
      have hs' : p.kids = l' ++ q :: (k :: r) := by rw [hs]; simp
      have oq : Occurs f q (p :: anc) := .kid op (by rw [hs']; simp)
      unfold Forest.precedingSiblings
      rw [oq.ctx nd hs']
      simp only [hq]
      rw [any_filter_normal]
      simp only [List.any_cons, List.any_reverse, List.any_append, List.any_nil, Bool.or_false]
      exact Bool.or_comm _ _
    · have : (q.value.category == Category.normal) = false := by simp [hq]
      simp only [this]
      symm
      apply any_other_of_lt
      have hp := kidsOrdered_pairwise ho
      rw [hs] at hp
      have hqlt : rank q < 2 := by
        have := rank_le_two q
        have : rank q ≠ 2 := fun e => hq (rank_normal.1 e)
        omega
      intro x hx
      rcases List.mem_append.1 hx with hx | hx
      · have h1 := (List.pairwise_append.1 (List.pairwise_append.1 hp).1).2.2 x hx q (by simp)
        omega
      · simp only [List.mem_singleton] at hx
        subst hx; exact hqlt

theorem after_eq {f : Forest} (nd : f.allHandles.Nodup) {k p : HTree} {anc l r : List HTree}
    (o : Occurs f k (p :: anc)) (hs : p.kids = l ++ k :: r) (kn : k.value.category = .normal)
    (ho : kidsOrdered p.kids = true) :
    (match f.nextSibling k.handle with
      | some q => (f.followingSiblings q).any Forest.isSignificantText
      | none => false) = r.any isOtherText := by
  obtain ⟨op, _⟩ := o.parent
  unfold Forest.nextSibling
  rw [o.ctx nd hs]
  simp only
  cases r with
  | nil => simp
  | cons q r' =>
    simp only [List.head?_cons, kn]
    have hp := kidsOrdered_pairwise ho
    rw [hs] at hp
    have hq : q.value.category = .normal := by
      have h1 := (List.pairwise_cons.1 (List.pairwise_append.1 hp).2.1).1 q List.mem_cons_self
      have := rank_normal.2 kn
      have := rank_le_two q
      exact rank_normal.1 (by omega)
    simp only [hq, beq_self_eq_true, if_true]
    have hs' : p.kids = (l ++ [k]) ++ q :: r' := by rw [hs]; simp
    have oq : Occurs f q (p :: anc) := .kid op (by rw [hs']; simp)
    unfold Forest.followingSiblings
    rw [oq.ctx nd hs']
    simp only [hq]
    rw [any_filter_normal]

/-! ### the characterisation -/

theorem textOf_at {f : Forest} (nd : f.allHandles.Nodup) {t : HTree} {anc : List HTree} (o : Occurs f t anc) :
    f.textOf t.handle = (match t.value with | .text s => some s | _ => none) := by
  unfold Forest.textOf Forest.value?
  rw [o.get? nd]
  simp only [Option.map_some]
  cases t.value <;> rfl

/-- `is_insignificant_whitespace` at a position of a valid forest is the rule of the property. -/
theorem isInsig_eq {f : Forest} {b : Bool} (nd : f.allHandles.Nodup) (hv : validList b f.roots = true)
    {t : HTree} {anc : List HTree} (o : Occurs f t anc) :
    f.isInsignificantWhitespace t.handle = topDeleted anc t := by
  unfold Forest.isInsignificantWhitespace topDeleted deletable isWsOnlyText
  rw [textOf_at nd o]
  cases htv : t.value with
  | text s =>
    simp only
    have hk : t.kids = [] := text_no_kids (o.valid hv) htv
    have hsc : chainScope (t :: anc) = chainScope anc := by
      rw [chainScope, scope, spaceAttr_eq, hk]; rfl
    rw [inPreserveSpace_eq nd hv o, hsc, isXmlWhitespace_eq]
    have kn : t.value.category = .normal := by rw [htv]; rfl
    cases anc with
    | nil =>
      have hc := o.ctx_root nd
      simp only [Forest.prevSibling, Forest.nextSibling, hc, otherSibling]
      cases chainScope [] <;> cases allWs s <;> simp
    | cons p anc =>
      obtain ⟨op, hkp⟩ := o.parent
      obtain ⟨l, r, hs⟩ := List.append_of_mem hkp
      have ho := kidsOrdered_of_valid (op.valid hv)
      have hb := before_eq nd o hs kn ho
      have ha := after_eq nd o hs kn ho
      simp only [otherSibling]
      rw [hs]
      simp only [List.any_append, List.any_cons]
      have : isOtherText t = !allWs s := by unfold isOtherText; rw [htv]
      rw [this, ← hb, ← ha]
      cases f.prevSibling t.handle with
      | none =>
        cases f.nextSibling t.handle with
        | none =>
          simp only []
          cases chainScope (p :: anc) <;> cases allWs s <;> simp
        | some n =>
          simp only []
          generalize (f.followingSiblings n).any Forest.isSignificantText = Y
          cases chainScope (p :: anc) <;> cases allWs s <;> cases Y <;> simp
      | some q =>
        cases f.nextSibling t.handle with
        | none =>
          simp only []
          generalize (f.precedingSiblings q).any Forest.isSignificantText = X
          cases chainScope (p :: anc) <;> cases allWs s <;> cases X <;> simp
        | some n =>
          simp only []
          generalize (f.precedingSiblings q).any Forest.isSignificantText = X
          generalize (f.followingSiblings n).any Forest.isSignificantText = Y
          cases chainScope (p :: anc) <;> cases allWs s <;> cases X <;> cases Y <;> simp
  | _ => simp

end Fws
end XotModel
