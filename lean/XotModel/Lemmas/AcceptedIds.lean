/-
  XotModel.Lemmas.AcceptedIds — the xml:id values of an accepted tree are pairwise different
  (`DuplicateId` is raised otherwise): the builder's `seen_ids` holds every xml:id value of the
  nodes built so far, and no value occurs twice among them.
-/
import XotModel.Lemmas.ParseQName
import XotModel.Lemmas.AcceptedRun

namespace XotModel.Accepted

open XotModel

/-- The xml:id value a node carries itself (by the name id of `xml:id`, no tables needed). -/
def idOf : Value → List Str
  | .attribute n val => if n == Env.xmlIdName then [val] else []
  | _ => []

mutual
def idVals : Tree → List Str
  | .node v ks => idOf v ++ idValsList ks
def idValsList : List Tree → List Str
  | [] => []
  | k :: ks => idVals k ++ idValsList ks
end

theorem idValsList_eq (ks : List Tree) : idValsList ks = ks.flatMap idVals := by
  induction ks with
  | nil => rfl
  | cons k ks ih => simp [idValsList, ih]

theorem idValsList_reverse (ks : List Tree) : (idValsList ks.reverse).Perm (idValsList ks) := by
  rw [idValsList_eq, idValsList_eq]
  exact List.Perm.flatMap_right _ (List.reverse_perm ks)

theorem isXmlIdName_eq {env : Env} (hf : EnvFacts env) (n : Nat) : isXmlIdName env n = (n == Env.xmlIdName) := by
  by_cases hn : n = Env.xmlIdName
  · subst hn
    show ((env.names.getD Env.xmlIdName ([], 0)).2 == Env.xmlNamespace &&
      (env.names.getD Env.xmlIdName ([], 0)).1 == ['i', 'd']) = (Env.xmlIdName == Env.xmlIdName)
    rw [hf.id1]; rfl
  · have hb : (n == Env.xmlIdName) = false := by simpa using hn
    rw [hb]
    cases hc : isXmlIdName env n with
    | false => rfl
    | true =>
      exfalso
      simp only [isXmlIdName, Bool.and_eq_true, beq_iff_eq] at hc
      apply hn
      have hlt : n < env.names.length := EnvFacts.name_lt_of_ne (by rw [hc.2]; simp)
      apply (List.getD_inj (fallback := (([], 0) : Str × Nat)) hlt hf.names_len hf.nNodup).mp
      show env.names.getD n ([], 0) = env.names.getD Env.xmlIdName ([], 0)
      rw [hf.id1]
      exact Prod.ext hc.2 hc.1

mutual
theorem xmlIdValues_eq {env : Env} (hf : EnvFacts env) : ∀ t : Tree, xmlIdValues env t = idVals t
  | .node v ks => by
    cases v <;> simp only [xmlIdValues, idVals, idOf, idsList_eq hf ks, isXmlIdName_eq hf]
theorem idsList_eq {env : Env} (hf : EnvFacts env) : ∀ ks : List Tree, xmlIdValues.idsList env ks = idValsList ks
  | [] => rfl
  | k :: ks => by rw [xmlIdValues.idsList, idValsList, xmlIdValues_eq hf k, idsList_eq hf ks]
end

/-- The xml:id values of all nodes built so far. -/
def allIds (frames : List Frame) : List Str := frames.flatMap (fun f => idValsList f.rkids)

structure IdInv (b : Builder) : Prop where
  nodup : (allIds (b.cur :: b.parents)).Nodup
  seen : ∀ v ∈ allIds (b.cur :: b.parents), v ∈ b.seenIds

theorem idInv_new (env : Env) : IdInv (Builder.new env) :=
  ⟨by simp [allIds, Builder.new, idValsList], fun v hv => by simp [allIds, Builder.new, idValsList] at hv⟩

theorem allIds_cons (f : Frame) (rest : List Frame) : allIds (f :: rest) = idValsList f.rkids ++ allIds rest := by
  simp [allIds]

/-- Same ids up to order, same `seen_ids`: the invariant carries over. -/
theorem IdInv.of_perm {b b' : Builder} (h : IdInv b)
    (hp : (allIds (b'.cur :: b'.parents)).Perm (allIds (b.cur :: b.parents))) (hs : b'.seenIds = b.seenIds) :
    IdInv b' :=
  ⟨hp.nodup_iff.mpr h.nodup, fun v hv => by rw [hs]; exact h.seen v (hp.mem_iff.mp hv)⟩

theorem addText_ids (b : Builder) (c : Str) :
    allIds ((b.addText c).1.cur :: (b.addText c).1.parents) = allIds (b.cur :: b.parents) ∧
      (b.addText c).1.seenIds = b.seenIds := by
  unfold Builder.addText
  split
  · next s ks more hk =>
    refine ⟨?_, rfl⟩
    simp only [allIds_cons, hk, idValsList, idVals, idOf]
  · exact ⟨by simp only [allIds_cons, idValsList, idVals, idOf, List.nil_append], rfl⟩

theorem addLeaf_ids (b : Builder) (v : Value) (hv : idOf v = []) :
    allIds ((b.addLeaf v).1.cur :: (b.addLeaf v).1.parents) = allIds (b.cur :: b.parents) ∧
      (b.addLeaf v).1.seenIds = b.seenIds := by
  unfold Builder.addLeaf
  exact ⟨by simp only [allIds_cons, idValsList, idVals, hv, List.nil_append], rfl⟩

theorem toParent_ids {b b' : Builder} (hk : idOf b.cur.value = []) (hr : b.toParent = .ok b') :
    (allIds (b'.cur :: b'.parents)).Perm (allIds (b.cur :: b.parents)) ∧ b'.seenIds = b.seenIds := by
  unfold Builder.toParent at hr
  split at hr
  · cases hr
  · rename_i p rest hpar
    simp only [Step.ok.injEq] at hr
    subst hr
    refine ⟨?_, rfl⟩
    rw [hpar]
    simp only [allIds_cons, idValsList, Frame.close, idVals, hk, List.nil_append, List.append_assoc]
    exact List.Perm.append (idValsList_reverse _) (List.Perm.refl _)

theorem leave_ids {b b' : Builder} (node : Path) (sp : StrSpan) (hk : idOf b.cur.value = [])
    (hr : b.leave node sp = .ok b') :
    (allIds (b'.cur :: b'.parents)).Perm (allIds (b.cur :: b.parents)) ∧ b'.seenIds = b.seenIds := by
  unfold Builder.leave at hr
  cases hb : b.toParent with
  | ok b2 =>
    rw [hb] at hr
    simp only [Step.ok.injEq] at hr
    subst hr
    have := toParent_ids hk hb
    exact this
  | err e env => rw [hb] at hr; cases hr
  | panic => rw [hb] at hr; cases hr

/-- The attribute loop: `others` are the ids of the nodes outside the element being opened. -/
theorem addAttributes_ids (stack : NsStack) (node : Path) (others : List Str) :
    ∀ (abs : List AttributeBuilder) (st st' : AttrLoop),
      (idValsList st.rkids ++ others).Nodup → (∀ v ∈ idValsList st.rkids ++ others, v ∈ st.seenIds) →
      addAttributes stack node st abs = .ok st' →
        (idValsList st'.rkids ++ others).Nodup ∧ (∀ v ∈ idValsList st'.rkids ++ others, v ∈ st'.seenIds) := by
  intro abs
  induction abs with
  | nil =>
    intro st st' h1 h2 h
    simp only [addAttributes, Step.ok.injEq] at h
    subst h
    exact ⟨h1, h2⟩
  | cons ab rest ih =>
    intro st st' h1 h2 h
    simp only [addAttributes] at h
    split at h
    · cases h
    · cases h
    · rename_i env1 nameId _
      split at h
      · cases h
      · split at h
        · cases h
        · rename_i hdup
          refine ih _ st' ?_ ?_ h
          · simp only [idValsList, idVals, idOf, List.append_nil]
            by_cases hid : (nameId == Env.xmlIdName) = true
            · simp only [hid, if_true, List.singleton_append, List.cons_append, List.nodup_cons]
              refine ⟨fun hm => ?_, h1⟩
              have := h2 _ hm
              apply hdup
              simp only [hid, Bool.true_and]
              simpa using this
            · simp only [hid, Bool.false_eq_true, if_false, List.nil_append]
              exact h1
          · intro v hv
            simp only [idValsList, idVals, idOf, List.append_nil] at hv
            by_cases hid : (nameId == Env.xmlIdName) = true
            · simp only [hid, if_true, List.singleton_append, List.cons_append, List.mem_cons] at hv ⊢
              rcases hv with rfl | hv
              · exact .inl rfl
              · exact .inr (h2 v hv)
            · simp only [hid, Bool.false_eq_true, if_false, List.nil_append] at hv ⊢
              exact h2 v hv

theorem idValsList_namespaceKids (decls : List (Nat × Nat)) : idValsList (namespaceKids decls) = [] := by
  rw [idValsList_eq, List.flatMap_eq_nil_iff]
  intro k hk
  simp only [namespaceKids, List.mem_reverse, List.mem_map] at hk
  obtain ⟨d, _, rfl⟩ := hk
  rfl

theorem openElement_ids {b b' : Builder} (h : IdInv b) (hr : b.openElement = .ok b') : IdInv b' := by
  unfold Builder.openElement at hr
  split at hr
  · cases hr
  · rename_i eb hebs
    dsimp only at hr
    split at hr
    · cases hr
    · cases hr
    · rename_i env1 nameId _
      split at hr
      · cases hr
      · cases hr
      · rename_i st hst
        simp only [Step.ok.injEq] at hr
        subst hr
        obtain ⟨r1, r2⟩ := addAttributes_ids _ _ (allIds (b.cur :: b.parents)) eb.attributes _ st
          (by simp only [idValsList_namespaceKids, List.nil_append]; exact h.nodup)
          (by simp only [idValsList_namespaceKids, List.nil_append]; exact h.seen) hst
        exact ⟨by rw [allIds_cons]; exact r1, by rw [allIds_cons]; exact r2⟩

theorem idOf_cur {b : Builder} (h : AccInv b) : idOf b.cur.value = [] := by
  rcases h.chain.1.kind with hk | hk
  · cases hv : b.cur.value <;> simp_all [Value.isElement, idOf]
  · rw [hk]; rfl

theorem kind_idOf {v : Value} (h : v.isElement = true ∨ v = .document) : idOf v = [] := by
  rcases h with h | h
  · cases v <;> simp_all [Value.isElement, idOf]
  · subst h; rfl

theorem step_ids {b b' : Builder} (t : Token) (ha : AccInv b) (h : IdInv b) (hr : b.step t = .ok b') : IdInv b' := by
  replace hr := Builder.step_ok_core hr
  have hleave : ∀ (b1 b2 : Builder) (node : Path) (sp : StrSpan), b1.leave node sp = .ok b2 → IdInv b →
      b1.cur = b.cur → b1.parents = b.parents → b1.seenIds = b.seenIds → IdInv b2 := by
    intro b1 b2 node sp hl hi h1 h2 h3
    obtain ⟨p1, p2⟩ := leave_ids node sp (by rw [h1]; exact idOf_cur ha) hl
    exact hi.of_perm (by rw [h1, h2] at p1; exact p1) (by rw [p2, h3])
  cases t with
  | «attribute» pfx loc value sp =>
    have hsame : ∀ (p : Str) (u : StrSpan) (s : Span), b.prefix p u s = .ok b' → IdInv b' := by
      intro p u s hp
      unfold Builder.prefix at hp
      split at hp
      · cases hp
      · split at hp
        · cases hp
        dsimp only at hp
        split at hp
        · cases hp
        · split at hp
          · cases hp
          · simp only [Step.ok.injEq] at hp; subst hp; exact ⟨h.nodup, h.seen⟩
    simp only [Builder.stepCore] at hr
    split at hr
    · exact hsame _ _ _ hr
    · split at hr
      · exact hsame _ _ _ hr
      · unfold Builder.attribute at hr
        split at hr
        · cases hr
        · split at hr
          · cases hr
          · split at hr
            · cases hr
            · simp only [Step.ok.injEq] at hr; subst hr; exact ⟨h.nodup, h.seen⟩
  | text t =>
    simp only [Builder.stepCore, Builder.text] at hr
    split at hr
    · cases hr
    · rename_i content _
      simp only [Step.ok.injEq] at hr; subst hr
      obtain ⟨e1, e2⟩ := addText_ids b content
      exact h.of_perm (by simp only [e1]; exact List.Perm.refl _) e2
  | cdata t sp =>
    simp only [Builder.stepCore, Builder.cdata] at hr
    split at hr
    · simp only [Step.ok.injEq] at hr; subst hr; exact h
    · simp only [Step.ok.injEq] at hr; subst hr
      obtain ⟨e1, e2⟩ := addText_ids b (replaceCr (replaceCrLf t.text))
      exact h.of_perm (by simp only [e1]; exact List.Perm.refl _) e2
  | elementStart pfx loc sp =>
    simp only [Builder.stepCore, Builder.element, Step.ok.injEq] at hr
    subst hr
    exact ⟨h.nodup, h.seen⟩
  | elementEnd e sp =>
    cases e with
    | «open» => exact openElement_ids h hr
    | close pfx loc =>
      simp only [Builder.stepCore] at hr
      unfold Builder.closeElement at hr
      split at hr
      · cases hr
      · cases hr
      · split at hr
        · cases hr
        · split at hr
          · split at hr
            · cases hr
            · exact hleave _ _ _ _ hr h rfl rfl rfl
          · exact hleave _ _ _ _ hr h rfl rfl rfl
    | empty =>
      simp only [Builder.stepCore] at hr
      cases hb : b.openElement with
      | ok b1 =>
        rw [hb] at hr
        have h1 := openElement_ids h hb
        obtain ⟨a1, a2, a3⟩ := openElement_acc ha.facts ha.chain ha.eb hb
        have hk : idOf b1.cur.value = [] := kind_idOf a2.1.kind
        unfold Builder.closeImmediate at hr
        by_cases he : b1.cur.value.isElement = true
        · simp only [he, if_true] at hr
          obtain ⟨p1, p2⟩ := leave_ids (b := { b1 with nsStack := b1.nsStack.tail, openPrefixes := b1.openPrefixes.tail })
            _ sp hk hr
          exact h1.of_perm p1 p2
        · simp only [he, Bool.false_eq_true, if_false] at hr
          obtain ⟨p1, p2⟩ := leave_ids _ sp hk hr
          exact h1.of_perm p1 p2
      | err e env => rw [hb] at hr; cases hr
      | panic => rw [hb] at hr; cases hr
  | comment t sp =>
    simp only [Builder.stepCore, Builder.comment, Step.ok.injEq] at hr
    subst hr
    obtain ⟨e1, e2⟩ := addLeaf_ids b (.comment (normalizeLineEnds t.text)) rfl
    exact h.of_perm (by simp only [e1]; exact List.Perm.refl _) e2
  | pi target content sp =>
    simp only [Builder.stepCore] at hr
    split at hr
    · cases hr
    simp only [Builder.processingInstruction, Step.ok.injEq] at hr
    subst hr
    obtain ⟨e1, e2⟩ := addLeaf_ids { b with env := (b.env.internName target.text Env.noNamespace).1 }
      (.pi (b.env.internName target.text Env.noNamespace).2
        (content.map fun c => normalizeLineEnds c.text)) rfl
    exact h.of_perm (by simp only [e1]; exact List.Perm.refl _) e2
  | declaration v e s sp =>
    simp only [Builder.stepCore] at hr
    split at hr
    · cases hr
    · simp only [Step.ok.injEq] at hr; subst hr; exact h
  | dtdStart sp => simp [Builder.stepCore] at hr
  | dtdEnd sp => simp [Builder.stepCore] at hr
  | emptyDtd sp => simp [Builder.stepCore] at hr
  | entityDecl sp => simp [Builder.stepCore] at hr

theorem run_ids (ts : List Token) (lexErr : Option Nat) :
    ∀ {b b' : Builder}, AccInv b → IdInv b → (∀ t ∈ ts, t.accLex = true) → b.run ts lexErr = .ok b' → IdInv b' := by
  induction ts with
  | nil =>
    intro b b' _ h _ hr
    cases lexErr with
    | none =>
      simp only [Builder.run] at hr
      split at hr
      · cases hr
      · simp only [Step.ok.injEq] at hr; subst hr; exact h
    | some p => simp [Builder.run] at hr
  | cons t ts ih =>
    intro b b' ha h hts hr
    simp only [Builder.run] at hr
    cases hb : b.step t with
    | ok b1 =>
      rw [hb] at hr
      exact ih (step_acc t ha (hts t (by simp)) hb).1 (step_ids t ha h hb) (fun t' ht' => hts t' (by simp [ht'])) hr
    | err e env => rw [hb] at hr; cases hr
    | panic => rw [hb] at hr; cases hr

theorem chain_ids {env : Env} : ∀ (rest : List Frame) (f : Frame) (st : NsStack),
    ChainAcc env (f :: rest) st → (idVals (zipInto f.close rest)).Perm (allIds (f :: rest))
  | [], f, st, hc => by
    simp only [zipInto, Frame.close, idVals, kind_idOf hc.1.kind, List.nil_append, allIds_cons, allIds,
      List.flatMap_nil, List.flatMap_cons, List.append_nil]
    exact idValsList_reverse _
  | p :: rest, f, st, hc => by
    obtain ⟨hf, hp, hrest⟩ := hc
    have e : zipInto f.close (p :: rest) = zipInto (Frame.close { p with rkids := f.close :: p.rkids }) rest := rfl
    rw [e]
    refine (chain_ids rest _ (parentStack f st) ⟨hp.addKid hf.close (kind_nsPair hf.kind), hrest⟩).trans ?_
    simp only [allIds_cons, idValsList, Frame.close, idVals, kind_idOf hf.kind, List.nil_append, List.append_assoc]
    exact List.Perm.append (idValsList_reverse _) (List.Perm.refl _)

/-- The xml:id values of an accepted tree are pairwise different. -/
theorem build_ids {m : Mode} {len : Nat} {env : Env} {ts : List Token} {lexErr : Option Nat} {p : Parsed}
    (hf : EnvFacts env) (hts : ∀ t ∈ ts, t.accLex = true) (h : build m len env ts lexErr = .ok p) :
    (xmlIdValues p.env p.tree).Nodup := by
  obtain ⟨hfp, _, _⟩ := build_acc hf hts h
  rw [xmlIdValues_eq hfp]
  unfold build at h
  split at h
  · cases h
  · cases h
  · rename_i b hb
    obtain ⟨hinv, _⟩ := run_acc ts lexErr (accInv_new hf) hts hb
    have hid := run_ids ts lexErr (accInv_new hf) (idInv_new env) hts hb
    have hroot : (idVals b.root).Nodup :=
      (chain_ids b.parents b.cur b.nsStack hinv.chain).nodup_iff.mpr hid.nodup
    have : p.tree = b.root := by
      cases m with
      | document =>
        simp only at h
        unfold Builder.finishDocument at h
        split at h
        · split at h
          · cases h
          · cases h
          · split at h
            · cases h
            · simp only [BuildResult.ok.injEq] at h; rw [← h]; rfl
            · split at h <;> cases h
        · exact absurd h (unclosed_not_ok b p)
      | fragment =>
        simp only at h
        unfold Builder.finishFragment at h
        split at h
        · simp only [BuildResult.ok.injEq] at h; rw [← h]; rfl
        · exact absurd h (unclosed_not_ok b p)
    rw [this]; exact hroot

end XotModel.Accepted
