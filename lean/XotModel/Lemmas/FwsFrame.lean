/-
  Lemmas/FwsFrame — frame, idempotence and loop-safety facts of `remove_insignificant_whitespace`.
-/
import XotModel.Lemmas.FwsMain

namespace XotModel
namespace Fws
open HTree

/-- With consolidation never switched off the invariant gives strict validity. -/
theorem strict_of_inv {f : Forest} (hinv : f.Inv) (hoff : f.everOff = false) :
    validList true f.roots = true := by
  have := hinv.valid
  rw [hoff] at this
  exact this

/-! ### liveness -/

theorem get?_isSome_iff {f : Forest} {h : Nat} : (∃ q, f.get? h = some q) ↔ h ∈ f.allHandles :=
  ⟨fun ⟨q, hq⟩ => findList?_support h f.roots q hq, fun hm => findList?_some_of_mem h f.roots hm⟩

theorem ctx?_support {f : Forest} {h : Nat} {c : Ctx} (hc : f.ctx? h = some c) : h ∈ f.allHandles := by
  unfold Forest.ctx? at hc
  obtain ⟨r, hr, hcr⟩ := List.exists_of_findSome?_eq_some hc
  exact mem_handlesList.2 ⟨r, hr, ctxBelow_support' h r c hcr⟩

/-- A sublist of a duplicate-free list is determined by its members. -/
theorem sublist_eq_filter {l1 l2 : List Nat} (p : Nat → Bool) (hs : l1.Sublist l2) (nd : l2.Nodup)
    (hm : ∀ h, h ∈ l1 ↔ h ∈ l2 ∧ p h = true) : l1 = l2.filter p := by
  induction hs with
  | slnil => rfl
  | @cons l1 l2 a hs ih =>
    obtain ⟨ha, nd'⟩ := List.nodup_cons.1 nd
    have hna : a ∉ l1 := fun h => ha (hs.subset h)
    have hpa : p a = false := by
      rw [Bool.eq_false_iff]; intro hp
      exact hna ((hm a).2 ⟨List.mem_cons_self, hp⟩)
    rw [List.filter_cons, hpa]
    simp only [Bool.false_eq_true, if_false]
    apply ih nd'
    intro h
    rw [hm h]
    constructor
    · rintro ⟨h1, h2⟩
      rcases List.mem_cons.1 h1 with rfl | h1
      · rw [hpa] at h2; cases h2
      · exact ⟨h1, h2⟩
    · rintro ⟨h1, h2⟩; exact ⟨List.mem_cons_of_mem _ h1, h2⟩
  | @cons_cons l1 l2 a hs ih =>
    obtain ⟨ha, nd'⟩ := List.nodup_cons.1 nd
    have hpa : p a = true := ((hm a).1 List.mem_cons_self).2
    rw [List.filter_cons, hpa]
    simp only [if_true]
    congr 1
    apply ih nd'
    intro h
    constructor
    · intro h1
      have := (hm h).1 (List.mem_cons_of_mem _ h1)
      rcases List.mem_cons.1 this.1 with rfl | h2
      · exact absurd (hs.subset h1) ha
      · exact ⟨h2, this.2⟩
    · rintro ⟨h1, h2⟩
      rcases List.mem_cons.1 ((hm h).2 ⟨List.mem_cons_of_mem _ h1, h2⟩) with rfl | h3
      · exact absurd h1 ha
      · exact h3

/-! ### members of the specification's set -/

/-- Every handle of the specification's set is a whitespace-only text node the rule selects. -/
theorem removed_text {f : Forest} {b : Bool} (nd : f.allHandles.Nodup) (hv : validList b f.roots = true)
    {t : HTree} {anc : List HTree} (o : Occurs f t anc) {n : Nat} (hn : n ∈ specTopRemoved anc t) :
    ∃ k ancn, Occurs f k ancn ∧ k.handle = n ∧ k.value.isText = true ∧ topDeleted ancn k = true := by
  rw [← toRemove_eq nd hv o] at hn
  have hi := (List.mem_filter.1 hn).2
  obtain ⟨k, ancn, ok, rfl, hk⟩ := collected_text hi
  rw [isInsig_eq nd hv ok] at hi
  exact ⟨k, ancn, ok, rfl, hk, hi⟩

theorem removed_nodup {f : Forest} {b : Bool} (nd : f.allHandles.Nodup) (hv : validList b f.roots = true)
    {t : HTree} {anc : List HTree} (o : Occurs f t anc) : (specTopRemoved anc t).Nodup := by
  rw [← toRemove_eq nd hv o]
  exact (List.filter_sublist.trans (descendantsNormal_sublist t)).nodup (o.nodup nd)

/-! ### frame -/

/-- The handles after the call, in document order: the old ones minus the specification's set. -/
theorem strip_handles {f : Forest} {b : Bool} (nd : f.allHandles.Nodup) (hv : validList b f.roots = true)
    {t : HTree} {anc : List HTree} (o : Occurs f t anc) :
    (f.removeInsignificantWhitespace t.handle).allHandles =
      f.allHandles.filter (fun h => !(specTopRemoved anc t).contains h) := by
  have e := strip_eq_pruned nd hv o
  apply sublist_eq_filter _ (by rw [e]; exact pruned_sublist f _) nd
  intro h
  constructor
  · intro hm
    have hmf : h ∈ f.allHandles := by rw [e] at hm; exact (pruned_sublist f _).subset hm
    refine ⟨hmf, ?_⟩
    obtain ⟨x, hx⟩ := get?_isSome_iff.2 hm
    rw [e] at hx
    obtain ⟨q, hq, _, hkeep⟩ := pruned_get? _ nd hx
    cases hR : (specTopRemoved anc t).contains h with
    | false => rfl
    | true =>
      obtain ⟨k, ancn, ok, rfl, hk, _⟩ := removed_text nd hv o (List.contains_iff_mem.1 hR)
      rw [ok.get? nd] at hq
      cases hq
      rw [hk, hR] at hkeep
      cases hkeep
  · rintro ⟨hmf, hR⟩
    obtain ⟨q, hq⟩ := get?_isSome_iff.2 hmf
    obtain ⟨ancq, oq⟩ := occurs_of_get? hq
    have hh := handle_of_get? hq
    have hnot : q.handle ∉ specTopRemoved anc t := by
      rw [hh]; intro hm
      rw [List.contains_iff_mem.2 hm] at hR; cases hR
    have o' := strip_occurs nd hv o oq hnot
    have := o'.sublist.subset (handle_mem_handles _)
    rw [pruneText_handle, hh] at this
    exact this

/-- A live handle is gone after the call iff it is in the specification's set. -/
theorem strip_removed_iff {f : Forest} {b : Bool} (nd : f.allHandles.Nodup) (hv : validList b f.roots = true)
    {t : HTree} {anc : List HTree} (o : Occurs f t anc) {h : Nat} (hl : f.isLive h = true) :
    (f.removeInsignificantWhitespace t.handle).isLive h = false ↔ h ∈ specTopRemoved anc t := by
  have hh := strip_handles nd hv o
  generalize f.removeInsignificantWhitespace t.handle = g at hh ⊢
  have hlf : h ∈ f.allHandles := by
    unfold Forest.isLive at hl
    cases hq : f.get? h with
    | none => rw [hq] at hl; cases hl
    | some q => exact get?_isSome_iff.1 ⟨q, hq⟩
  have hiff : g.isLive h = true ↔ h ∈ g.allHandles := by
    unfold Forest.isLive
    rw [← get?_isSome_iff]
    cases g.get? h <;> simp
  constructor
  · intro hg
    have : h ∉ g.allHandles := fun hm => by rw [hiff.2 hm] at hg; cases hg
    rw [hh, List.mem_filter] at this
    cases hc : (specTopRemoved anc t).contains h with
    | true => exact List.contains_iff_mem.1 hc
    | false => exact absurd ⟨hlf, by rw [hc]; rfl⟩ this
  · intro hm
    rw [Bool.eq_false_iff]
    intro hg
    have := hiff.1 hg
    rw [hh, List.mem_filter] at this
    simp only [Bool.not_eq_true', List.contains_eq_mem, decide_eq_false_iff_not] at this
    exact this.2 hm

/-- Values and parents of everything outside the specification's set are untouched. -/
theorem strip_frame {f : Forest} {b : Bool} (nd : f.allHandles.Nodup) (hv : validList b f.roots = true)
    {t : HTree} {anc : List HTree} (o : Occurs f t anc) {h : Nat} (hR : h ∉ specTopRemoved anc t) :
    (f.removeInsignificantWhitespace t.handle).value? h = f.value? h ∧
    (f.removeInsignificantWhitespace t.handle).parent? h = f.parent? h := by
  have e := strip_eq_pruned nd hv o
  have ndg : (f.removeInsignificantWhitespace t.handle).allHandles.Nodup := by
    rw [e]; exact pruned_nodup _ nd
  cases hq : f.get? h with
  | none =>
    have hnf : h ∉ f.allHandles := fun hm => by
      obtain ⟨q, hq'⟩ := get?_isSome_iff.2 hm
      rw [hq] at hq'; cases hq'
    have hng : h ∉ (f.removeInsignificantWhitespace t.handle).allHandles := fun hm =>
      hnf (by rw [e] at hm; exact (pruned_sublist f _).subset hm)
    have g1 : (f.removeInsignificantWhitespace t.handle).get? h = none := by
      cases hx : (f.removeInsignificantWhitespace t.handle).get? h with
      | none => rfl
      | some x => exact absurd (get?_isSome_iff.1 ⟨x, hx⟩) hng
    have c1 : f.ctx? h = none := by
      cases hc : f.ctx? h with
      | none => rfl
      | some c => exact absurd (ctx?_support hc) hnf
    have c2 : (f.removeInsignificantWhitespace t.handle).ctx? h = none := by
      cases hc : (f.removeInsignificantWhitespace t.handle).ctx? h with
      | none => rfl
      | some c => exact absurd (ctx?_support hc) hng
    simp [Forest.value?, Forest.parent?, hq, g1, c1, c2]
  | some q =>
    obtain ⟨ancq, oq⟩ := occurs_of_get? hq
    have hh := handle_of_get? hq
    have o' := strip_occurs nd hv o oq (by rw [hh]; exact hR)
    have g1 := o'.get? ndg
    rw [pruneText_handle, hh] at g1
    refine ⟨by simp [Forest.value?, hq, g1, pruneText_value], ?_⟩
    cases ancq with
    | nil =>
      have c1 := oq.ctx_root nd
      have c2 := o'.ctx_root ndg
      rw [pruneText_handle] at c2
      rw [hh] at c1 c2
      simp [Forest.parent?, c1, c2]
    | cons p ancq =>
      obtain ⟨_, hkp⟩ := oq.parent
      obtain ⟨l, r, hs⟩ := List.append_of_mem hkp
      have c1 := oq.ctx nd hs
      obtain ⟨_, hkp'⟩ := (show Occurs _ _ (pruneText _ p :: ancq.map _) from o').parent
      obtain ⟨l', r', hs'⟩ := List.append_of_mem hkp'
      have c2 := (show Occurs _ _ (pruneText _ p :: ancq.map _) from o').ctx ndg hs'
      rw [pruneText_handle] at c2
      rw [hh] at c1 c2
      simp [Forest.parent?, c1, c2, pruneText_handle]

theorem Occurs.root_above {f : Forest} {t : HTree} {anc : List HTree} (o : Occurs f t anc) :
    ∃ r ∈ f.roots, ∀ h ∈ handles t, h ∈ handles r := by
  induction o with
  | @root r hr => exact ⟨r, hr, fun _ h => h⟩
  | @kid p k anc _ hk ih =>
    obtain ⟨r, hr, hsub⟩ := ih
    exact ⟨r, hr, fun h hh => hsub h ((handles_kid_sublist hk).subset hh)⟩

/-- Trees that do not hold the start node are untouched. -/
theorem strip_other_roots {f : Forest} {b : Bool} (nd : f.allHandles.Nodup) (hv : validList b f.roots = true)
    {t : HTree} {anc : List HTree} (o : Occurs f t anc) {r : HTree} (hr : r ∈ f.roots)
    (hnot : t.handle ∉ handles r) : r ∈ (f.removeInsignificantWhitespace t.handle).roots := by
  rw [strip_eq_pruned nd hv o]
  show r ∈ pruneTextKids _ f.roots
  obtain ⟨r0, hr0, hsub⟩ := o.root_above
  have hS : ∀ h ∈ handles r, (specTopRemoved anc t).contains h = false := by
    intro h hh
    rw [Bool.eq_false_iff]
    intro hc
    have h0 : h ∈ handles r0 := hsub h (specTopRemoved_subset anc t h (List.contains_iff_mem.1 hc))
    obtain ⟨l, rr, hs⟩ := List.append_of_mem hr0
    unfold Forest.allHandles at nd
    rw [hs] at nd hr
    obtain ⟨_, dl, dr⟩ := split_disjoint nd
    rcases List.mem_append.1 hr with hr | hr
    · exact dl r hr h h0 hh
    · rcases List.mem_cons.1 hr with rfl | hr
      · exact hnot (hsub _ (handle_mem_handles t))
      · exact dr r hr h h0 hh
  rw [pruneTextKids_eq]
  refine List.mem_map.2 ⟨r, List.mem_filter.2 ⟨hr, ?_⟩, pruneText_id _ r hS⟩
  rw [hS r.handle (handle_mem_handles r)]; simp

/-! ### idempotence -/

theorem specStrip_value (p : Bool) (t : HTree) : (specStrip p t).value = t.value := by
  cases t; simp [specStrip, HTree.value]

theorem spaceOfKid_congr {a b : HTree} (h : a.value = b.value) : spaceOfKid a = spaceOfKid b := by
  unfold spaceOfKid; rw [h]

theorem isOtherText_congr {a b : HTree} (h : a.value = b.value) : isOtherText a = isOtherText b := by
  unfold isOtherText; rw [h]

theorem deletable_congr {p sig : Bool} {a b : HTree} (h : a.value = b.value) : deletable p sig a = deletable p sig b := by
  unfold deletable isWsOnlyText; rw [h]

theorem spaceOfKid_text {k : HTree} (h : k.value.isText = true) : spaceOfKid k = none := by
  unfold spaceOfKid
  cases hv : k.value <;> rw [hv] at h <;> simp [Value.isText] at h ⊢

theorem deletable_not_other {p sig : Bool} {k : HTree} (h : deletable p sig k = true) : isOtherText k = false := by
  unfold deletable isWsOnlyText at h
  unfold isOtherText
  cases hv : k.value <;> rw [hv] at h <;> simp at h ⊢
  exact h.1.1

theorem findSome_specStripKids (p sig : Bool) : ∀ ks : List HTree,
    (specStripKids p sig ks).findSome? spaceOfKid = ks.findSome? spaceOfKid
  | [] => rfl
  | k :: ks => by
    simp only [specStripKids]
    by_cases hd : deletable p sig k = true
    · obtain ⟨s, hs⟩ := deletable_text hd
      simp only [hd, if_true, List.findSome?_cons, spaceOfKid_text (k := k) (by rw [hs]; rfl)]
      exact findSome_specStripKids p sig ks
    · simp only [hd, Bool.false_eq_true, if_false, List.findSome?_cons,
        spaceOfKid_congr (specStrip_value p k), findSome_specStripKids p sig ks]

theorem any_specStripKids (p sig : Bool) : ∀ ks : List HTree,
    (specStripKids p sig ks).any isOtherText = ks.any isOtherText
  | [] => rfl
  | k :: ks => by
    simp only [specStripKids]
    by_cases hd : deletable p sig k = true
    · simp only [hd, if_true, List.any_cons, deletable_not_other hd, Bool.false_or]
      exact any_specStripKids p sig ks
    · simp only [hd, Bool.false_eq_true, if_false, List.any_cons,
        isOtherText_congr (specStrip_value p k), any_specStripKids p sig ks]

mutual
  /-- The specification is idempotent: after stripping nothing is left to delete. -/
  theorem specRemoved_specStrip (p : Bool) : ∀ t : HTree, specRemoved p (specStrip p t) = []
    | .node h v ks => by
      simp only [specStrip, specRemoved]
      have e1 : scope p (.node h v (specStripKids (scope p (.node h v ks)) (ks.any isOtherText) ks)) =
          scope p (.node h v ks) := by
        simp only [scope, spaceAttr_eq, HTree.kids, findSome_specStripKids]
      rw [e1, any_specStripKids]
      exact specRemovedKids_specStripKids _ _ ks
  theorem specRemovedKids_specStripKids (p sig : Bool) : ∀ ks : List HTree,
      specRemovedKids p sig (specStripKids p sig ks) = []
    | [] => rfl
    | k :: ks => by
      simp only [specStripKids]
      by_cases hd : deletable p sig k = true
      · simp only [hd, if_true]
        exact specRemovedKids_specStripKids p sig ks
      · have hd' : deletable p sig (specStrip p k) = false := by
          rw [deletable_congr (specStrip_value p k)]; simpa using hd
        simp only [hd, Bool.false_eq_true, if_false, specRemovedKids, hd',
          specRemoved_specStrip p k, specRemovedKids_specStripKids p sig ks, List.append_nil]
end

theorem findSome_pruneTextKids (S : Nat → Bool) : ∀ ks : List HTree,
    (pruneTextKids S ks).findSome? spaceOfKid = ks.findSome? spaceOfKid
  | [] => rfl
  | k :: ks => by
    simp only [pruneTextKids]
    by_cases hd : (k.value.isText && S k.handle) = true
    · have ht : k.value.isText = true := by
        simp only [Bool.and_eq_true] at hd; exact hd.1
      simp only [hd, if_true, List.findSome?_cons, spaceOfKid_text ht]
      exact findSome_pruneTextKids S ks
    · simp only [hd, Bool.false_eq_true, if_false, List.findSome?_cons,
        spaceOfKid_congr (pruneText_value S k), findSome_pruneTextKids S ks]

theorem chainScope_prune (S : Nat → Bool) : ∀ anc : List HTree, chainScope (anc.map (pruneText S)) = chainScope anc
  | [] => rfl
  | a :: anc => by
    simp only [List.map_cons, chainScope, scope, spaceAttr_eq, pruneText_kids, findSome_pruneTextKids,
      chainScope_prune S anc]

theorem any_pruneTextKids (S : Nat → Bool) : ∀ ks : List HTree,
    (∀ k ∈ ks, (k.value.isText && S k.handle) = true → isOtherText k = false) →
    (pruneTextKids S ks).any isOtherText = ks.any isOtherText
  | [], _ => rfl
  | k :: ks, h => by
    have ih := any_pruneTextKids S ks (fun k' hk' => h k' (List.mem_cons_of_mem _ hk'))
    simp only [pruneTextKids]
    by_cases hd : (k.value.isText && S k.handle) = true
    · simp only [hd, if_true, List.any_cons, h k List.mem_cons_self hd, Bool.false_or, ih]
    · simp only [hd, Bool.false_eq_true, if_false, List.any_cons, isOtherText_congr (pruneText_value S k), ih]

theorem strip_unfold_none {g : Forest} {n : Nat} (h : g.get? n = none) :
    g.removeInsignificantWhitespace n = g := by
  unfold Forest.removeInsignificantWhitespace; rw [h]

theorem strip_unfold_some {g : Forest} {n : Nat} {t : HTree} (h : g.get? n = some t) :
    g.removeInsignificantWhitespace n =
      { ((Forest.descendantsNormal t).filter g.isInsignificantWhitespace).foldl
          (fun acc n => (acc.remove n).1) (consOff g) with consolidation := g.consolidation } := by
  unfold Forest.removeInsignificantWhitespace; rw [h]; rfl

theorem consOff_restore (g : Forest) : { consOff g with consolidation := g.consolidation } = g := by
  cases g; rfl

theorem specTopRemoved_after (S : Nat → Bool) (anc : List HTree) (t : HTree)
    (hscope : chainScope (anc.map (pruneText S)) = chainScope anc)
    (hsib : otherSibling (anc.map (pruneText S)) = otherSibling anc)
    (hdf : topDeleted anc t = false) (hstrip : pruneText S t = specStrip (chainScope anc) t) :
    specTopRemoved (anc.map (pruneText S)) (pruneText S t) = [] := by
  unfold specTopRemoved topDeleted
  rw [hscope, hsib, deletable_congr (pruneText_value _ t)]
  unfold topDeleted at hdf
  rw [hdf, hstrip]
  simp only [Bool.false_eq_true, if_false]
  exact specRemoved_specStrip _ t

/-- A second application changes nothing. -/
theorem strip_idem {f : Forest} {b : Bool} (nd : f.allHandles.Nodup) (hv : validList b f.roots = true)
    {t : HTree} {anc : List HTree} (o : Occurs f t anc) :
    (f.removeInsignificantWhitespace t.handle).removeInsignificantWhitespace t.handle =
      f.removeInsignificantWhitespace t.handle := by
  have hg := strip_get? nd hv o
  by_cases hd : topDeleted anc t = true
  · -- the start node is gone: the second call does nothing
    simp only [specTop, hd, if_true] at hg
    exact strip_unfold_none hg
  · have e := strip_eq_pruned nd hv o
    have hdf : topDeleted anc t = false := by simpa using hd
    have hnot : t.handle ∉ specTopRemoved anc t := by
      simp only [specTopRemoved, hdf, Bool.false_eq_true, if_false]
      exact fun hm => (nodup_kids (o.nodup nd)).1 (specRemoved_subset _ t _ hm)
    have o' := strip_occurs nd hv o o hnot
    simp only at o'
    have ndg : (f.removeInsignificantWhitespace t.handle).allHandles.Nodup := by
      rw [e]; exact pruned_nodup _ nd
    have hvg : validList b (f.removeInsignificantWhitespace t.handle).roots = true := by
      rw [e]; exact pruned_valid _ hv
    have hstrip : pruneText (fun h => (specTopRemoved anc t).contains h) t = specStrip (chainScope anc) t := by
      apply prune_eq_specStrip _ _ t (o.nodup nd)
      intro h _
      simp [specTopRemoved, hdf]
    -- the second collection is empty
    have hcoll := toRemove_eq ndg hvg o'
    have hscope := chainScope_prune (fun h => (specTopRemoved anc t).contains h) anc
    have hsib : otherSibling (anc.map (pruneText (fun h => (specTopRemoved anc t).contains h))) = otherSibling anc := by
      cases anc with
      | nil => rfl
      | cons p anc =>
        obtain ⟨op, _⟩ := o.parent
        simp only [List.map_cons, otherSibling, pruneText_kids]
        apply any_pruneTextKids
        intro k hk hS
        simp only [Bool.and_eq_true] at hS
        obtain ⟨k', ancn, ok', hh, _, hdel⟩ := removed_text nd hv o (List.contains_iff_mem.1 hS.2)
        have ok : Occurs f k (p :: anc) := .kid op hk
        have : f.get? k.handle = some k' := by rw [← hh]; exact ok'.get? nd
        rw [ok.get? nd] at this
        cases this
        have h1 := isInsig_eq nd hv ok
        have h2 := isInsig_eq nd hv ok'
        rw [h1] at h2
        exact deletable_not_other (h2 ▸ hdel)
    have hempty := specTopRemoved_after _ anc t hscope hsib hdf hstrip
    have hget := o'.get? ndg
    rw [pruneText_handle] at hget
    rw [strip_unfold_some hget, hcoll, hempty]
    exact consOff_restore _

/-! ### safety of the loop -/

/-- After any prefix of the loop (which runs with consolidation off): the state is the pruning
    by that prefix, the next `remove` is a plain `remove_subtree`, and the nodes still to be
    removed are untouched text nodes. -/
theorem strip_safe {f : Forest} {b : Bool} (nd : f.allHandles.Nodup) (hv : validList b f.roots = true)
    {t : HTree} {anc : List HTree} (o : Occurs f t anc) {pre post : List Nat} {n : Nat}
    (hsplit : specTopRemoved anc t = pre ++ n :: post) :
    let g := pre.foldl (fun acc x => (acc.remove x).1) (consOff f)
    g = pruned (consOff f) (fun h => pre.contains h) ∧
    (g.remove n).1 = g.dropSubtree n ∧
    ∀ m ∈ n :: post, g.textOf m = f.textOf m ∧ (f.textOf m).isSome = true := by
  intro g
  have hnd := removed_nodup nd hv o
  rw [hsplit] at hnd
  obtain ⟨ndpre, ndrest, hdisj⟩ := List.nodup_append.1 hnd
  have hmem : ∀ m ∈ pre ++ n :: post, ∃ k ancn, Occurs (consOff f) k ancn ∧ k.handle = m ∧ k.value.isText = true := by
    intro m hm
    obtain ⟨k, ancn, ok, hh, hk, _⟩ := removed_text nd hv o (hsplit ▸ hm)
    exact ⟨k, ancn, Occurs.of_roots_eq (f := f) (f' := consOff f) rfl ok, hh, hk⟩
  have nd0 : (consOff f).allHandles.Nodup := nd
  have hv0 : validList b (consOff f).roots = true := hv
  have hgeq : g = pruned (consOff f) (fun h => pre.contains h) := by
    have := fold_remove nd0 hv0 rfl pre (fun _ => false) ndpre (fun _ _ => rfl)
      (fun m hm => hmem m (List.mem_append_left _ hm))
    rw [pruned_none] at this
    show pre.foldl _ (consOff f) = _
    rw [this]; simp
  have ndg : g.allHandles.Nodup := by rw [hgeq]; exact pruned_nodup _ nd0
  have surv : ∀ m ∈ n :: post, ∃ k ancn, Occurs (consOff f) k ancn ∧ k.handle = m ∧ k.value.isText = true ∧
      Occurs g (pruneText (fun h => pre.contains h) k) (ancn.map (pruneText (fun h => pre.contains h))) := by
    intro m hm
    obtain ⟨k, ancn, ok, hh, hk⟩ := hmem m (List.mem_append_right _ hm)
    refine ⟨k, ancn, ok, hh, hk, ?_⟩
    rw [hgeq]
    apply ok.prune _ hv0
    have : m ∉ pre := fun hp => hdisj m hp m hm rfl
    simp [hh, this]
  refine ⟨hgeq, ?_, ?_⟩
  · exact remove_eq_drop_off (by rw [hgeq]; rfl) n
  · intro m hm
    obtain ⟨k, ancn, ok, hh, hk, og⟩ := surv m hm
    have h1 := textOf_at ndg og
    have h2 := textOf_at nd0 ok
    rw [pruneText_handle, pruneText_value, hh] at h1
    rw [hh] at h2
    have h3 : (consOff f).textOf m = f.textOf m := rfl
    rw [h1, ← h3, h2]
    refine ⟨rfl, ?_⟩
    cases hv' : k.value <;> rw [hv'] at hk <;> simp [Value.isText] at hk ⊢

end Fws
end XotModel
