/-
  `append(parent, child)` when `child` is a root of a forest with distinct handles and `parent`
  lives in another tree: the child's tree becomes the last child of `parent`, nothing else moves.
-/
import XotModel.Lemmas.FfixedForest

namespace XotModel
open HTree

namespace Forest

theorem removeConsolidate_none (f : Forest) : f.removeConsolidate none none = (f, false) := by
  unfold removeConsolidate; split <;> rfl

theorem addConsolidate_of_textOf_none (f : Forest) (node : Nat) (prev next : Option Nat)
    (h : f.textOf node = none) : f.addConsolidate node prev next = (f, false) := by
  rw [addConsolidate_eq_old]; exact addConsolidateOld_not_text h _ _

theorem addConsolidate_off_ff (f : Forest) (node : Nat) (prev next : Option Nat)
    (h : f.consolidation = false) : f.addConsolidate node prev next = (f, false) := by
  rw [addConsolidate_eq_old]; exact addConsolidateOld_off h _ _ _

theorem addConsolidate_no_text_neighbour (f : Forest) (node : Nat) (prev next : Option Nat)
    (hp : ∀ p, prev = some p → f.textOf p = none) (hn : ∀ n, next = some n → f.textOf n = none) :
    f.addConsolidate node prev next = (f, false) := by
  cases hnode : f.textOf node with
  | none => rw [addConsolidate_eq_old]; exact addConsolidateOld_not_text hnode _ _
  | some added =>
    have h1 : prev ≠ some node := fun h => by rw [hp node h] at hnode; cases hnode
    have h2 : next ≠ some node := fun h => by rw [hn node h] at hnode; cases hnode
    rw [addConsolidate_eq_old_of_ne h1 h2]
    exact addConsolidateOld_nontext_neighbours hp hn

theorem textOf_eq_none_of_value {f : Forest} {h : Nat} {v : Value} (hv : f.value? h = some v)
    (ht : v.isText = false) : f.textOf h = none := by
  unfold textOf; rw [hv]; cases v <;> simp_all [Value.isText]

theorem value?_of_get? {f : Forest} {h : Nat} {t : HTree} (hg : f.get? h = some t) :
    f.value? h = some t.value := by
  unfold value?; rw [hg]; rfl

theorem lastChild_eq {f : Forest} {p : Nat} {tp : HTree} (hg : f.get? p = some tp) :
    f.lastChild p = tp.kids.getLast?.bind (fun k => if k.value.isNormal then some k.handle else none) := by
  unfold lastChild; rw [hg]
  cases hk : tp.kids.getLast? <;> simp [hk]

end Forest

namespace RootAt
variable {f : Forest} {X Y : List HTree} {tc : HTree}

theorem mem_subtrees_rest (h : RootAt f X tc Y) {s : HTree} (hs : s ∈ subtreesList (X ++ Y)) :
    s ∈ subtreesList f.roots := by
  rw [h.roots]
  rw [subtreesList_append] at hs ⊢
  simp only [subtreesList, List.mem_append] at hs ⊢
  rcases hs with hs | hs
  · exact Or.inl hs
  · exact Or.inr (Or.inr hs)

theorem get?_of_mem_subtrees_rest (h : RootAt f X tc Y) {s : HTree} (hs : s ∈ subtreesList (X ++ Y)) :
    f.get? s.handle = some s :=
  findList?_of_mem_subtrees f.roots s h.nodup (h.mem_subtrees_rest hs)

theorem mem_rest_of_find {p : Nat} {tp : HTree} (hp : findList? p (X ++ Y) = some tp) :
    p ∈ handlesList (X ++ Y) := by
  obtain ⟨hs, rfl⟩ := mem_subtreesList_of_findList? hp
  exact handles_subset_of_mem_subtreesList hs _ (handle_mem_handles_ff tp)

theorem kid_handle_ne {p : Nat} {tp k : HTree} (h : RootAt f X tc Y)
    (hp : findList? p (X ++ Y) = some tp) (hk : k ∈ tp.kids) : k.handle ≠ tc.handle := by
  obtain ⟨hs, _⟩ := mem_subtreesList_of_findList? hp
  have hk' : k ∈ subtreesList (X ++ Y) := subtreesList_trans _ tp hs k (kid_mem_subtrees hk)
  intro e
  apply h.not_mem_rest tc.handle (handle_mem_handles_ff tc)
  rw [← e]
  exact handles_subset_of_mem_subtreesList hk' _ (handle_mem_handles_ff k)

theorem structureCheck_ok (h : RootAt f X tc Y) {p : Nat} {tp : HTree}
    (hp : findList? p (X ++ Y) = some tp)
    (hpv : tp.value.isElement = true ∨ tp.value.isDocument = true)
    (hcn : tc.value.isNormal = true) (hcd : tc.value.isDocument = false) :
    f.structureCheck (some p) tc.handle = true := by
  have hpm := mem_rest_of_find hp
  have hget : f.get? p = some tp := by rw [h.get?_rest hpm]; exact hp
  have hvp := Forest.value?_of_get? hget
  have hvc := Forest.value?_of_get? h.get?_self
  have hanc : (f.ancestors p).contains tc.handle = false := by
    simpa using h.ancestors_rest hpm
  unfold Forest.structureCheck
  simp only [Forest.isElement, Forest.isDocument, hvp, hvc, hanc, Option.map_some]
  cases hv : tc.value <;> simp_all [Value.isNormal, Value.category, Value.isDocument]

/-- `append` of a root into another tree. -/
theorem append_spec (h : RootAt f X tc Y) {p : Nat} {tp : HTree}
    (hp : findList? p (X ++ Y) = some tp)
    (hpv : tp.value.isElement = true ∨ tp.value.isDocument = true)
    (hcn : tc.value.isNormal = true) (hcd : tc.value.isDocument = false)
    (htext : f.consolidation = true → tc.value.isText = true →
        ∀ k, tp.kids.getLast? = some k → k.value.isText = false) :
    f.append p tc.handle =
      ({ f with roots := (X ++ Y).map (mapAt p (fun n => n.setKids (n.kids ++ [tc]))) }, .ok) := by
  have hpm := mem_rest_of_find hp
  have hget : f.get? p = some tp := by rw [h.get?_rest hpm]; exact hp
  have hsc := h.structureCheck_ok hp hpv hcn hcd
  have hlast : (f.lastChild p == some tc.handle) = false := by
    rw [Forest.lastChild_eq hget]
    cases hk : tp.kids.getLast? with
    | none => simp
    | some k =>
      have hne := h.kid_handle_ne hp (List.mem_of_getLast? hk)
      simp only [Option.bind_some]
      split <;> simp [hne]
  have hprev : f.prevSibling tc.handle = none := by unfold Forest.prevSibling; rw [h.ctx?_self]
  have hnext : f.nextSibling tc.handle = none := by unfold Forest.nextSibling; rw [h.ctx?_self]
  have hadd : f.addConsolidate tc.handle (f.lastChild p) none = (f, false) := by
    cases hc : f.consolidation with
    | false => exact Forest.addConsolidate_off_ff _ _ _ _ hc
    | true =>
      cases ht : tc.value.isText with
      | false =>
        exact Forest.addConsolidate_of_textOf_none _ _ _ _
          (Forest.textOf_eq_none_of_value (Forest.value?_of_get? h.get?_self) ht)
      | true =>
        apply Forest.addConsolidate_no_text_neighbour
        · intro l hl
          rw [Forest.lastChild_eq hget] at hl
          cases hk : tp.kids.getLast? with
          | none => rw [hk] at hl; simp at hl
          | some k =>
            rw [hk] at hl
            simp only [Option.bind_some] at hl
            split at hl
            · cases hl
              obtain ⟨hs, _⟩ := mem_subtreesList_of_findList? hp
              have hk' : k ∈ subtreesList (X ++ Y) :=
                subtreesList_trans _ tp hs k (kid_mem_subtrees (List.mem_of_getLast? hk))
              exact Forest.textOf_eq_none_of_value
                (Forest.value?_of_get? (h.get?_of_mem_subtrees_rest hk')) (htext hc ht k hk)
            · cases hl
        · intro n hn; cases hn
  have hne : (p == tc.handle) = false := by
    have : p ≠ tc.handle := fun e => h.rest_not_mem_tc hpm (e ▸ handle_mem_handles_ff tc)
    simpa using this
  have hanc : (f.ancestors p).contains tc.handle = false := by
    simpa using h.ancestors_rest hpm
  unfold Forest.append
  simp only [hsc, hlast, hprev, hnext, Forest.removeConsolidate_none, hadd, Bool.not_true,
    Bool.false_eq_true, if_false]
  unfold Forest.checkedAppend
  simp only [hanc, h.cut_self, Bool.or_false]
  have hne' : ¬ (p = tc.handle) := by simpa using hne
  simp only [hne', decide_false, Bool.false_eq_true, if_false, if_true]
  rfl

end RootAt
end XotModel
