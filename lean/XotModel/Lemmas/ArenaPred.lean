/-
  XotModel.Lemmas.ArenaPred — indextree's `predecessors` iterator (`Iter` along
  `previous_sibling.or(parent)`; not used by xot) on a well-formed arena: from a live node it yields the
  node, its preceding siblings nearest first, its parent, the parent's preceding siblings, … up to the
  root (`PredChain`, the list-level definition); the chain exists, has no repetition, hence at most
  `count` members, so the limit is never reached; no panic.
-/
import XotModel.Lemmas.ArenaAnc
import XotModel.Lemmas.ArenaIterKids

namespace XotModel
namespace Arena

/-- `l` is the list `c`, the siblings before `c` (nearest first), then the same for the parent of `c`,
    … up to a parentless node (which has no siblings). -/
inductive PredChain (g : Shape) : Nat → List Nat → Prop where
  | root {c : Nat} : g.par c = none → PredChain g c [c]
  | step {c q : Nat} {L R l : List Nat} : g.par c = some q → g.kids q = L ++ c :: R → PredChain g q l →
      PredChain g c (c :: L.reverse ++ l)

theorem PredChain.head {g : Shape} {c : Nat} {l : List Nat} (h : PredChain g c l) : ∃ rest, l = c :: rest := by
  cases h with
  | root _ => exact ⟨[], rfl⟩
  | step _ _ _ => exact ⟨_, rfl⟩

/-- The chain of a node with a parent exists along its ancestor chain. -/
theorem Rep.predChain_of_upChain {a : Arena} {g : Shape} (r : Rep a g) {c : Nat} {u : List Nat}
    (h : UpChain g.par c u) : ∃ l, PredChain g c l := by
  induction h with
  | root hc => exact ⟨_, .root hc⟩
  | @step c q _ hc _ ih =>
    obtain ⟨l, hl⟩ := ih
    obtain ⟨L, R, e⟩ := List.append_of_mem (r.parKids c q hc).2
    exact ⟨_, .step hc e hl⟩

/-- Every member of the chain is a sibling-or-self of an ancestor-or-self of `c`. -/
theorem Rep.predChain_mem {a : Arena} {g : Shape} (r : Rep a g) {c : Nat} {l : List Nat} (h : PredChain g c l) :
    ∀ z ∈ l, Live a c → Live a z ∧ ∃ y, Reach g.par c y ∧ g.par z = g.par y := by
  induction h with
  | @root c hc =>
    intro z hz hl
    simp at hz; subst hz
    exact ⟨hl, z, .refl _, rfl⟩
  | @step c q L R l hc hk _ ih =>
    intro z hz hl
    rw [List.cons_append, List.mem_cons, List.mem_append, List.mem_reverse] at hz
    rcases hz with hz | hz | hz
    · subst hz; exact ⟨hl, z, .refl _, rfl⟩
    · have hm : z ∈ g.kids q := by rw [hk]; simp [hz]
      have := r.kidsLive q z hm
      exact ⟨this.2.1, c, .refl _, by rw [this.2.2, hc]⟩
    · obtain ⟨h1, y, hy, e⟩ := ih z hz (r.live_of_par hc).2
      exact ⟨h1, y, .step hc hy, e⟩

theorem Rep.predChain_nodup {a : Arena} {g : Shape} (r : Rep a g) {c : Nat} {l : List Nat} (h : PredChain g c l) :
    Live a c → l.Nodup := by
  induction h with
  | root _ => intro _; simp
  | @step c q L R l hc hk hq ih =>
    intro hl
    have hql := (r.live_of_par hc).2
    have hnd : (L ++ c :: R).Nodup := by rw [← hk]; exact r.kidsNodup q
    have h1 : (c :: L.reverse).Nodup := by
      have h2 : (L ++ [c]).Nodup := by
        have : (L ++ c :: R) = (L ++ [c]) ++ R := by simp
        rw [this] at hnd
        exact (List.nodup_append.mp hnd).1
      have : (c :: L.reverse) = (L ++ [c]).reverse := by simp
      rw [this]
      exact (List.reverse_perm _).nodup_iff.mpr h2
    rw [show c :: L.reverse ++ l = (c :: L.reverse) ++ l by rfl]
    refine List.nodup_append.mpr ⟨h1, ih hql, ?_⟩
    intro x hx z hz e
    subst e
    have hxq : g.par x = some q := by
      rcases List.mem_cons.mp hx with e | e
      · subst e; exact hc
      · exact (r.kidsLive q x (by rw [hk]; simp [List.mem_reverse.mp e])).2.2
    obtain ⟨_, y, hy, e⟩ := r.predChain_mem hq x hz hql
    rw [hxq] at e
    exact r.acyclic y q e.symm hy

theorem Rep.predChain_length {a : Arena} {g : Shape} (r : Rep a g) {c : Nat} {l : List Nat} (h : PredChain g c l)
    (hl : Live a c) : l.length ≤ a.nodes.length := by
  refine nodup_bounded a.nodes.length l (r.predChain_nodup h hl) ?_
  intro x hx
  obtain ⟨⟨s, hs, _⟩, _⟩ := r.predChain_mem h x hx hl
  exact lt_of_slot hs

theorem Rep.predChain {a : Arena} {g : Shape} (r : Rep a g) (c : Nat) (hc : Live a c) :
    ∃ l, PredChain g c l ∧ l.length ≤ a.nodes.length := by
  obtain ⟨u, hu, _⟩ := r.upChain c hc
  obtain ⟨l, hl⟩ := r.predChain_of_upChain hu
  exact ⟨l, hl, r.predChain_length hl hc⟩

/-- The walk along `previous_sibling.or(parent)` over the siblings before `k`, continued at the parent. -/
theorem Rep.walk_pred_sibs {a : Arena} {g : Shape} (r : Rep a g) (q : Nat) (lq : List Nat)
    (hq : ∀ limit, lq.length ≤ limit →
      walk a (fun s => s.prev.or s.parent) limit (some (a.idAt q)) = .done a (lq.map a.idAt)) :
    ∀ (rpre suf : List Nat) (k : Nat), g.kids q = rpre.reverse ++ k :: suf → ∀ limit,
      (k :: rpre ++ lq).length ≤ limit →
      walk a (fun s => s.prev.or s.parent) limit (some (a.idAt k)) = .done a ((k :: rpre ++ lq).map a.idAt) := by
  intro rpre
  induction rpre with
  | nil =>
    intro suf k hk limit hlim
    obtain ⟨n, rfl⟩ : ∃ n, limit = n + 1 := ⟨limit - 1, by simp at hlim; omega⟩
    have hkmem : k ∈ g.kids q := by rw [hk]; simp
    obtain ⟨sk, hsk, hk0⟩ := (r.kidsLive q k hkmem).2.1
    have hpar := (r.kidsLive q k hkmem).2.2
    obtain ⟨L1, R1, e1, e2, _⟩ := (r.ptrs k sk hsk hk0).sib q hpar
    obtain ⟨hL, _⟩ := split_unique (by rw [← e1]; exact r.kidsNodup q) (e1.symm.trans hk)
    subst hL
    unfold walk
    simp only []
    rw [rd_some _ _ _ _ (show a.slot (a.idAt k).index0 = some sk by rw [idAt_index0]; exact hsk)]
    have h1 : sk.prev = none := by rw [e2]; rfl
    have h2 : sk.parent = some (a.idAt q) := by rw [(r.ptrs k sk hsk hk0).parent, hpar]; rfl
    rw [h1, h2]
    simp only [Option.none_or]
    rw [hq n (by simp at hlim; omega)]
    simp [Step.bind]
  | cons k' rp ih =>
    intro suf k hk limit hlim
    obtain ⟨n, rfl⟩ : ∃ n, limit = n + 1 := ⟨limit - 1, by simp at hlim; omega⟩
    have hkmem : k ∈ g.kids q := by rw [hk]; simp
    obtain ⟨sk, hsk, hk0⟩ := (r.kidsLive q k hkmem).2.1
    obtain ⟨L1, R1, e1, e2, _⟩ := (r.ptrs k sk hsk hk0).sib q (r.kidsLive q k hkmem).2.2
    obtain ⟨hL, _⟩ := split_unique (by rw [← e1]; exact r.kidsNodup q) (e1.symm.trans hk)
    subst hL
    unfold walk
    simp only []
    rw [rd_some _ _ _ _ (show a.slot (a.idAt k).index0 = some sk by rw [idAt_index0]; exact hsk)]
    have : sk.prev = some (a.idAt k') := by rw [e2]; simp
    rw [this]
    simp only [Option.some_or]
    rw [ih (k :: suf) k' (by rw [hk]; simp) n (by simp at hlim ⊢; omega)]
    simp [Step.bind]

/-- The `predecessors` iterator yields the chain. -/
theorem Rep.predecessors_chain {a : Arena} {g : Shape} (r : Rep a g) :
    ∀ (c : Nat) (l : List Nat), PredChain g c l → Live a c → ∀ limit, l.length ≤ limit →
      predecessors a (a.idAt c) limit = .done a (l.map a.idAt) := by
  intro c l h
  induction h with
  | @root c hc =>
    intro hl limit hf
    obtain ⟨s, hs, h0⟩ := hl
    obtain ⟨n, rfl⟩ : ∃ n, limit = n + 1 := ⟨limit - 1, by simp at hf; omega⟩
    unfold predecessors walk
    simp only []
    rw [rd_some _ _ _ _ (show a.slot (a.idAt c).index0 = some s by rw [idAt_index0]; exact hs)]
    have hpar : s.parent = none := by rw [(r.ptrs c s hs h0).parent, hc]; rfl
    have hprev : s.prev = none := ((r.ptrs c s hs h0).root hc).1
    rw [hpar, hprev]
    cases n <;> simp [walk, Step.bind]
  | @step c q L R l hc hk _ ih =>
    intro hl limit hf
    have hq := ih (r.live_of_par hc).2
    unfold predecessors at hq ⊢
    exact r.walk_pred_sibs q l hq L.reverse R c (by rw [hk]; simp) limit hf

end Arena
end XotModel
