/-
  FspecPairBefore — C05 for `insert_before` against the PAIR reading of the consolidation clause
  (`Model/FspecSpec3.lean`, `specMoveP`), for EVERY forest with `Forest.Inv` (no `Forest.Normal`:
  the forest may hold adjacent text nodes while consolidation is on).

  Part 1 (this file): list facts (`mergeAdj` / `mergeNew` commute with maps over the children), the
  package `Tail` = what the second half of `insert_before` reads and does, stated on the forest `Y`
  reached by cutting the moved node, and `tail_core`: the second half is "insert into `Y`, then
  merge the moved text node with the neighbour it is put next to".
-/
import XotModel.Lemmas.FspecSameBefore
import XotModel.Lemmas.FspecPair

namespace XotModel
open HTree Spec

namespace PairBefore

/-! ### The pair merges commute with maps over the children -/

theorem joinLeft_map {φ : HTree → HTree} (hφ : KidMap φ) (x y : HTree) :
    joinLeft (φ x) (φ y) = (joinLeft x y).map φ := by
  unfold joinLeft
  rw [hφ.value, hφ.value]
  split
  · simp [hφ.setValue]
  · rfl

theorem joinRight_map {φ : HTree → HTree} (hφ : KidMap φ) (x y : HTree) :
    joinRight (φ x) (φ y) = (joinRight x y).map φ := by
  unfold joinRight
  rw [hφ.value, hφ.value]
  split
  · simp [hφ.setValue]
  · rfl

theorem mergeAdj_map {φ : HTree → HTree} (hφ : KidMap φ) (a b : Nat) :
    ∀ L : List HTree, mergeAdj a b (L.map φ) = (mergeAdj a b L).map φ
  | [] => by simp [mergeAdj_nil]
  | [x] => by simp [mergeAdj_single]
  | x :: y :: rest => by
    have ih := mergeAdj_map hφ a b (y :: rest)
    simp only [List.map_cons] at ih ⊢
    rw [mergeAdj_cons_cons, mergeAdj_cons_cons, hφ.handle, hφ.handle, joinLeft_map hφ, ih]
    split
    · cases joinLeft x y <;> simp
    · simp

theorem natFor_mergeAdj {φ : HTree → HTree} (hφ : KidMap φ) (a b : Nat) : NatFor φ (mergeAdj a b) :=
  mergeAdj_map hφ a b

theorem mergeNewHead_map {φ : HTree → HTree} (hφ : KidMap φ) (t : HTree) (L : List HTree) :
    mergeNewHead (φ t) (L.map φ) = (mergeNewHead t L).map φ := by
  cases L with
  | nil => rfl
  | cons z rest =>
    simp only [List.map_cons, mergeNewHead]
    rw [joinRight_map hφ]
    cases joinRight t z <;> simp

theorem mergeNew_map {φ : HTree → HTree} (hφ : KidMap φ) (n : Nat) :
    ∀ L : List HTree, mergeNew n (L.map φ) = (mergeNew n L).map φ
  | [] => by simp [mergeNew_nil]
  | [x] => by simp [mergeNew_single]
  | x :: y :: rest => by
    have ih := mergeNew_map hφ n (y :: rest)
    have hh := mergeNewHead_map hφ y rest
    have hh2 := mergeNewHead_map hφ x (y :: rest)
    simp only [List.map_cons] at ih hh2 ⊢
    rw [mergeNew_cons_cons, mergeNew_cons_cons, hφ.handle, hφ.handle, joinLeft_map hφ, ih, hh, hh2]
    split
    · cases joinLeft x y <;> simp
    · split <;> simp

theorem natFor_mergeNew {φ : HTree → HTree} (hφ : KidMap φ) (n : Nat) : NatFor φ (mergeNew n) :=
  mergeNew_map hφ n

/-! ### Small list facts -/

/-- Two children with the same handle are the same child. -/
theorem eq_of_handle_eq {L : List HTree} (nd : (handlesList L).Nodup) {x y : HTree} (hx : x ∈ L) (hy : y ∈ L)
    (e : x.handle = y.handle) : x = y := by
  obtain ⟨l, r, hL⟩ := List.append_of_mem hx
  subst hL
  obtain ⟨tl, tr⟩ := tops_ne_of_nodup nd
  cases List.mem_append.1 hy with
  | inl h => exact absurd e.symm (tl y h)
  | inr h =>
    cases List.mem_cons.1 h with
    | inl h' => exact h'.symm
    | inr h' => exact absurd e.symm (tr y h')

theorem normal_category {v : Value} (h : v.isNormal = true) : v.category = .normal := by
  simpa [Value.isNormal] using h

theorem not_text_of_textData_none {k : HTree} (h : textData k = none) : ¬ k.value.isText = true := by
  intro hx
  obtain ⟨z, hz⟩ := isText_iff_textData.1 hx
  rw [h] at hz; cases hz

theorem prevOf_concat_normal {A2 : List HTree} {ka kr : HTree} (hka : ka.value.isNormal = true)
    (hkr : kr.value.isNormal = true) : prevOf (A2 ++ [ka]) kr = some ka.handle := by
  simp [prevOf, normal_category hka, normal_category hkr]

theorem prevOf_map {φ : HTree → HTree} (hφ : KidMap φ) (A : List HTree) (kr : HTree) :
    prevOf (A.map φ) (φ kr) = prevOf A kr := by
  unfold prevOf
  rw [List.getLast?_map]
  cases A.getLast? with
  | none => rfl
  | some a => simp only [Option.map_some, hφ.value, hφ.handle]

/-- The moved node, not a text node's left neighbour: only the right neighbour counts. -/
theorem mergeNew_noleft {T : HTree} (A B : List HTree) (hA : ∀ x ∈ A, x.handle ≠ T.handle)
    (hB : ∀ x ∈ B, x.handle ≠ T.handle)
    (hl : ∀ ka, A.getLast? = some ka → ¬ ka.value.isText = true) :
    mergeNew T.handle (A ++ T :: B) = A ++ mergeNewHead T B := by
  rcases List.eq_nil_or_concat A with e | ⟨A', a, e⟩
  · subst e
    simp only [List.nil_append]
    exact mergeNew_head B hB
  · rw [List.concat_eq_append] at e
    subst e
    have ha : a.handle ≠ T.handle := hA a (by simp)
    have e1 : (A' ++ [a]) ++ T :: B = A' ++ a :: T :: B := by simp
    have e2 : (A' ++ [a]) ++ mergeNewHead T B = A' ++ a :: mergeNewHead T B := by simp
    rw [e1, e2]
    exact mergeNew_mid_right (fun h => hl a (by simp) h.1) A' B (fun x hx => hA x (by simp [hx])) ha

/-! ### The second half of `insert_before` -/

/-- The node before the reference is not the moved node: the helper takes it as it is. -/
theorem selfPrev_prevOf {X : Forest} {c : Nat} {A : List HTree} {kr : HTree}
    (hnot : ∀ k ∈ A, k.handle ≠ c) (h : X.prevSibling kr.handle = prevOf A kr) :
    X.selfPrev c (X.prevSibling kr.handle) = prevOf A kr := by
  rw [h]
  apply Forest.selfPrev_of_ne
  intro e
  unfold prevOf at e
  cases hl : A.getLast? with
  | none => rw [hl] at e; cases e
  | some k =>
    rw [hl] at e
    simp only at e
    split at e
    · exact hnot k (List.mem_of_getLast? hl) (Option.some.inj e)
    · cases e

/-- What the second half of `insert_before(kr, c)` reads from the state `X` (after the
    old-place consolidation) and what its two ways of placing the node do, in terms of the forest
    `Y` = `X` without the moved subtree, whose child list of `q` is `A ++ kr :: B`. -/
structure Tail (X Y : Forest) (c : Nat) (t : HTree) (q : Nat) (vq : Value) (A : List HTree) (kr : HTree)
    (B : List HTree) : Prop where
  xget : X.get? c = some t
  ycons : Y.consolidation = X.consolidation
  ysite : SiteAt Y q vq (A ++ kr :: B)
  notin : ∀ k ∈ A ++ kr :: B, k.handle ≠ c
  place : X.checkedInsertBefore kr.handle c = (Y.editAt (some q) (insertBeforeTop kr.handle t), true)
  prev : t.value.isText = true → X.selfPrev c (X.prevSibling kr.handle) = prevOf A kr
  text : ∀ k ∈ A ++ kr :: B, X.textOf k.handle = textData k
  flow : t.value.isText = true → ∀ k ∈ A ++ kr :: B, k.value.isText = true → ∀ v,
    (X.setValue k.handle v).spliceOut c = Y.editAt (some q) (replaceTop k.handle (fun k' => [k'.setValue v]))

/-- The second half of `insert_before`: the node is inserted into `Y` before `kr` and merged with
    the text node it now stands next to (pair reading). -/
theorem tail_core {X Y : Forest} {c : Nat} {t : HTree} {q : Nat} {vq : Value} {A : List HTree} {kr : HTree}
    {B : List HTree} (T : Tail X Y c t q vq A kr B) (htc : t.handle = c) (hkrn : kr.value.isNormal = true) :
    (insertBeforeTail X kr.handle c).1 = (Y.editAt (some q) (insertBeforeTop kr.handle t)).mergeNewAt q c := by
  subst htc
  have sY := T.ysite
  obtain ⟨ndLY, _⟩ := sY.nodupKids
  obtain ⟨tA, tB⟩ := tops_ne_of_nodup ndLY
  have hI : insertBeforeTop kr.handle t (A ++ kr :: B) = A ++ t :: kr :: B := insertBeforeTop_mid t tA
  have hYc : (Y.editAt (some q) (insertBeforeTop kr.handle t)).consolidation = X.consolidation := by
    rw [Forest.editAt_consolidation, T.ycons]
  have hAt : ∀ x ∈ A, x.handle ≠ t.handle := fun x hx => T.notin x (List.mem_append_left _ hx)
  have hBt : ∀ x ∈ kr :: B, x.handle ≠ t.handle := fun x hx => T.notin x (List.mem_append_right _ hx)
  have hXtext : X.textOf t.handle = textData t := Forest.textOf_of_get T.xget
  -- nothing merged by the model
  have flow1 : X.addConsolidate t.handle (X.prevSibling kr.handle) (some kr.handle) = (X, false) →
      (X.consolidation = true → mergeNew t.handle (A ++ t :: kr :: B) = A ++ t :: kr :: B) →
      (insertBeforeTail X kr.handle t.handle).1 =
        (Y.editAt (some q) (insertBeforeTop kr.handle t)).mergeNewAt q t.handle := by
    intro hr2 hm
    unfold insertBeforeTail
    rw [hr2]
    simp only [Bool.false_eq_true, if_false]
    rw [T.place]
    simp only [if_true]
    rcases Bool.eq_false_or_eq_true X.consolidation with hc | hc
    · rw [Forest.mergeNewAt_on (hYc.trans hc), Forest.editAt_editAt]
      apply sY.congr
      simp only [Function.comp]
      rw [hI, hm hc]
    · rw [Forest.mergeNewAt_off (hYc.trans hc)]
  -- merged into the child `k`
  have flow2 : ∀ (k : HTree) (v : Value), k ∈ A ++ kr :: B → k.value.isText = true → t.value.isText = true →
      X.consolidation = true →
      X.addConsolidate t.handle (X.prevSibling kr.handle) (some kr.handle) =
        ((X.setValue k.handle v).spliceOut t.handle, true) →
      replaceTop k.handle (fun k' => [k'.setValue v]) (A ++ kr :: B) = mergeNew t.handle (A ++ t :: kr :: B) →
      (insertBeforeTail X kr.handle t.handle).1 =
        (Y.editAt (some q) (insertBeforeTop kr.handle t)).mergeNewAt q t.handle := by
    intro k v hk hkt htt hc hr2 hm
    unfold insertBeforeTail
    rw [hr2]
    simp only [if_true]
    rw [T.flow htt k hk hkt v, Forest.mergeNewAt_on (hYc.trans hc), Forest.editAt_editAt]
    apply sY.congr
    simp only [Function.comp]
    rw [hI, hm]
  rcases Bool.eq_false_or_eq_true X.consolidation with hc | hc
  case inr =>
    exact flow1 (Forest.addConsolidate_off hc _ _ _) (fun h => by rw [hc] at h; cases h)
  cases htd : textData t with
  | none =>
    have hnt : t.value.isText = false := by
      cases h : t.value.isText with
      | false => rfl
      | true => exact absurd h (not_text_of_textData_none htd)
    exact flow1 (Forest.addConsolidate_not_text (hXtext.trans htd) _ _)
      (fun _ => mergeNew_nontext hnt A (kr :: B) hAt hBt)
  | some tc =>
    have htt : t.value.isText = true := isText_iff_textData.2 ⟨tc, htd⟩
    have hvt : t.value = .text tc := textData_some htd
    -- eccbbb7: the helper works with `selfPrev` of the node before the reference
    have hprevS : ∀ nx, X.addConsolidate t.handle (X.prevSibling kr.handle) nx =
        X.addConsolidate t.handle (prevOf A kr) nx := by
      intro nx
      have hne : prevOf A kr ≠ some t.handle := by
        intro e
        unfold prevOf at e
        cases hl : A.getLast? with
        | none => rw [hl] at e; cases e
        | some k =>
          rw [hl] at e
          simp only at e
          split at e
          · exact hAt k (List.mem_of_getLast? hl) (Option.some.inj e)
          · cases e
      rw [Forest.addConsolidate_eq_old, T.prev htt, Forest.addConsolidate_eq_old (prev := prevOf A kr),
        Forest.selfPrev_of_ne hne]
    have hkrtext : X.textOf kr.handle = textData kr := T.text kr (by simp)
    -- is there a text node directly before the reference?
    have prevCase : (∃ A2 ka ta, A = A2 ++ [ka] ∧ textData ka = some ta) ∨
        (∀ a, prevOf A kr = some a → X.textOf a = none) ∧
          (∀ ka, A.getLast? = some ka → ¬ ka.value.isText = true) := by
      cases hA : A.getLast? with
      | none =>
        right
        refine ⟨?_, fun ka h => by cases h⟩
        intro a h; simp [prevOf, hA] at h
      | some ka =>
        obtain ⟨A2, eA⟩ := List.getLast?_eq_some_iff.1 hA
        cases hta : textData ka with
        | some ta => exact Or.inl ⟨A2, ka, ta, eA, hta⟩
        | none =>
          right
          refine ⟨?_, ?_⟩
          · intro a h
            obtain ⟨A2', ka', eA', eka', _⟩ := prevOf_eq_some h
            rw [eA] at eA'
            have := List.append_inj' eA' rfl
            have hk : ka = ka' := by simpa using this.2
            subst hk
            subst eA
            rw [← eka', T.text ka (by simp)]; exact hta
          · intro ka' h
            cases h
            exact not_text_of_textData_none hta
    rcases prevCase with ⟨A2, ka, ta, eA, hta⟩ | ⟨hprevNone, hprevNT⟩
    · -- merged into the text node before the reference
      subst eA
      have hkat : ka.value.isText = true := isText_iff_textData.2 ⟨ta, hta⟩
      have hkan : ka.value.isNormal = true := by
        have := text_category hkat
        simp [Value.isNormal, this]
      have hpv : prevOf (A2 ++ [ka]) kr = some ka.handle := prevOf_concat_normal hkan hkrn
      have hkamem : ka ∈ (A2 ++ [ka]) ++ kr :: B := by simp
      refine flow2 ka (.text (ta ++ tc)) hkamem hkat htt hc ?_ ?_
      · rw [hprevS, hpv]
        exact Forest.addConsolidate_prev hc (hXtext.trans htd) ((T.text ka hkamem).trans hta) _
          (hAt ka (by simp))
      · have e1 : (A2 ++ [ka]) ++ kr :: B = A2 ++ ka :: (kr :: B) := by simp
        have e2 : (A2 ++ [ka]) ++ t :: kr :: B = A2 ++ ka :: t :: (kr :: B) := by simp
        have ndL2 : (handlesList (A2 ++ ka :: (kr :: B))).Nodup := e1 ▸ ndLY
        rw [e1, e2, replaceTop_mid rfl (tops_ne_of_nodup ndL2).1,
          mergeNew_mid_left (textData_some hta) hvt A2 (kr :: B) (fun x hx => hAt x (by simp [hx]))
            (hAt ka (by simp))]
        simp
    · have hnoleft : mergeNew t.handle (A ++ t :: kr :: B) = A ++ mergeNewHead t (kr :: B) :=
        mergeNew_noleft A (kr :: B) hAt hBt hprevNT
      cases htb : textData kr with
      | none =>
        refine flow1 (by
          rw [hprevS]
          exact Forest.addConsolidate_none hprevNone (by
            intro b h; cases h
            exact hkrtext.trans htb)) ?_
        intro _
        rw [hnoleft, mergeNewHead_other (fun h => not_text_of_textData_none htb h.2)]
      | some tb =>
        -- merged into the reference node
        have hkrt : kr.value.isText = true := isText_iff_textData.2 ⟨tb, htb⟩
        refine flow2 kr (.text (tc ++ tb)) (by simp) hkrt htt hc ?_ ?_
        · rw [hprevS]
          exact Forest.addConsolidate_next hc (hXtext.trans htd) hprevNone (hkrtext.trans htb)
            (hBt kr (by simp))
        · rw [hnoleft, replaceTop_mid rfl tA, mergeNewHead_text hvt (textData_some htb)]
          simp

end PairBefore
end XotModel
