/-
  C06 lemmas: `detach`, `remove`, `replace`: either refused with nothing changed, or carried out.
-/
import XotModel.Lemmas.FatomKept

namespace XotModel
open HTree

namespace Forest

/-- A call that went through: `ok`, invariant kept, `corrupt` untouched. -/
structure OkRes (f : Forest) (r : Forest × Res) : Prop where
  ok : r.2 = .ok
  w : r.1.W
  corrupt : r.1.corrupt = f.corrupt

theorem okRes_consolidate {f f1 : Forest} (w1 : f1.W) (hc : f1.corrupt = f.corrupt)
    (prev next : Option Nat) : OkRes f ((f1.removeConsolidate prev next).1, .ok) := by
  obtain ⟨w2, _, P, _, fr⟩ := removeConsolidate_spec w1 prev next
  exact ⟨rfl, w2, by rw [fr.corrupt, hc]⟩

theorem detach_ok {f : Forest} (w : f.W) (n : Nat) : OkRes f (f.detach n) := by
  unfold detach
  cases hg : f.get? n with
  | none => rw [detachRaw_dead hg]; exact okRes_consolidate w rfl _ _
  | some t =>
    obtain ⟨w1, fr, _⟩ := detachRaw_spec w hg
    exact okRes_consolidate w1 fr.corrupt _ _

theorem dropSubtree_spec {f : Forest} (w : f.W) (n : Nat) :
    (f.dropSubtree n).W ∧ (f.dropSubtree n).corrupt = f.corrupt := by
  unfold dropSubtree
  cases hg : f.get? n with
  | none => rw [cut_dead hg]; exact ⟨w, rfl⟩
  | some t =>
    obtain ⟨_, w1, _, fr, _⟩ := cut_spec w hg
    exact ⟨w1, fr.corrupt⟩

theorem remove_ok {f : Forest} (w : f.W) (n : Nat) : OkRes f (f.remove n) := by
  unfold remove
  obtain ⟨w1, hc⟩ := dropSubtree_spec w n
  exact okRes_consolidate w1 hc _ _

theorem isNormalNode_cat {f : Forest} {x : Nat} (h : f.isNormalNode x = true) :
    (f.value? x).map Value.category = some .normal := by
  unfold isNormalNode at h
  cases hv : f.value? x with
  | none => rw [hv] at h; simp at h
  | some v =>
    rw [hv] at h
    simp only [Option.map_some, beq_iff_eq, Option.some.injEq, Value.isNormal] at h
    simp [h]

theorem isNormalNode_of_cat {f : Forest} {x : Nat}
    (h : (f.value? x).map Value.category = some .normal) : f.isNormalNode x = true := by
  unfold isNormalNode
  cases hv : f.value? x with
  | none => rw [hv] at h; simp at h
  | some v =>
    rw [hv] at h
    simp only [Option.map_some, Option.some.injEq] at h
    simp [Value.isNormal, h]

/-- `replace`: refused with nothing changed, or carried out. -/
theorem replace_outcome {f : Forest} (w : f.W) (a b : Nat) :
    f.replace a b = (f, .err .invalidOperation) ∨ OkRes f (f.replace a b) := by
  unfold replace
  cases hd : f.isDocument a with
  | true => left; simp
  | false =>
    simp only [Bool.false_eq_true, if_false]
    cases hpa : f.parent? a with
    | none => left; rfl
    | some parent =>
      simp only
      cases hna : f.isNormalNode a with
      | false => left; simp
      | true =>
        cases hs : f.structureCheck (some parent) b with
        | false => left; simp
        | true =>
          cases hanc : (f.ancestors b).contains a with
          | true => left; simp
          | false =>
            right
            simp only [Bool.not_true, Bool.false_eq_true, if_false]
            cases hsame : (f.prevSibling a == some b || f.nextSibling a == some b) with
            | true => simp only [if_true]; exact remove_ok w a
            | false =>
              simp only [Bool.false_eq_true, if_false]
              have ck := structureCheck_some hs
              have hab : a ∉ f.ancestors b := by simpa using hanc
              obtain ⟨hla, _⟩ := parent?_live hpa
              obtain ⟨t, hg⟩ := get?_of_isLive hla
              obtain ⟨_, w1, _, fr, _⟩ := cut_spec w hg
              have hf1 : f.dropSubtree a = (f.cut a).1 := rfl
              rw [hf1]
              have hap : a ∉ f.ancestors parent := not_mem_ancestors_parent w hpa
              have kpar : Kept f (f.cut a).1 parent := fr.keptOutside w w1 hg ck.liveP hap
              have kb : Kept f (f.cut a).1 b := fr.keptOutside w w1 hg ck.liveC hab
              have ck1 : Checked (f.cut a).1 parent b := ck.transfer kpar kb.shape
              have hs1 := structureCheck_of_checked ck1
              generalize (f.cut a).1 = f1 at w1 fr kpar kb ck1 hs1 ⊢
              cases hprev : f.prevSibling a with
              | none =>
                simp only
                have m := prepend_ok w1 hs1
                exact ⟨m.ok, m.w, by rw [m.corrupt, fr.corrupt]⟩
              | some p =>
                simp only
                have sib := prevSibling_sib w hprev
                obtain ⟨q, hq1, hq2⟩ := sib.parent
                have hqp : q = parent := Option.some.inj (hq1.symm.trans hpa)
                rw [hqp] at hq2
                have hanp : a ∉ f.ancestors p := by
                  rw [ancestors_step w hq2]
                  intro h'
                  rcases List.mem_cons.1 h' with e | e
                  · exact sib.ne e.symm
                  · exact hap e
                have kp : Kept f f1 p := fr.keptOutside w w1 hg sib.live hanp
                have hpp1 : f1.parent? p = some parent := by rw [kp.parent]; exact hq2
                have hpb : p ≠ b := by
                  intro e
                  rw [hprev, e] at hsame
                  simp at hsame
                have hsr1 : f1.siblingReferenceCheck p b = true := by
                  unfold siblingReferenceCheck
                  rw [kp.isNormalNode]
                  have : f.isNormalNode p = true :=
                    isNormalNode_of_cat (by rw [sib.cat]; exact isNormalNode_cat hna)
                  simp [hpb, this]
                have m := insertAfter_ok w1 hpp1 hs1 hsr1
                rcases hres : f1.insertAfter p b with ⟨f2, r⟩
                rw [hres] at m
                have hr : r = .ok := m.ok
                subst hr
                simp only
                cases f.nextSibling a with
                | none => exact ⟨rfl, m.w, by rw [m.corrupt, fr.corrupt]⟩
                | some n => exact okRes_consolidate m.w (by rw [m.corrupt, fr.corrupt]) _ _

end Forest
end XotModel
