/-
  Fcreation — the convenience calls of `Model/Fcreation.lean` (compositions of a node creation
  and one call of the forest model, node-map wrappers, value setters): preservation of the
  invariant (C04) and the C06 clauses, as corollaries of the statements about the calls they
  consist of.  (The C05 statements need the `Fspec` lemma family, which cannot be imported
  together with this one: they are proved in `Props/C05.lean`.)
-/
import XotModel.Model.Fcreation
import XotModel.Lemmas.FinvReach2
import XotModel.Lemmas.FatomAll

namespace XotModel
namespace Forest

/-! ### C04: the invariant -/

theorem attributeSetValue_inv {f : Forest} (hi : f.Inv) (node : Nat) (s : Str) :
    (f.attributeSetValue node s).1.Inv := by
  unfold attributeSetValue
  split
  · rename_i n v0 hv
    exact setValue_inv hi hv ⟨rfl, rfl, rfl, rfl⟩ (fun x => rfl)
  · exact hi

theorem namespaceSetNamespace_inv {f : Forest} (hi : f.Inv) (node ns : Nat) :
    (f.namespaceSetNamespace node ns).1.Inv := by
  unfold namespaceSetNamespace
  split
  · rename_i p n0 hv
    exact setValue_inv hi hv ⟨rfl, rfl, rfl, rfl⟩ (fun x => rfl)
  · exact hi

theorem piSetTarget_inv {f : Forest} (hi : f.Inv) (node target : Nat) : (f.piSetTarget node target).1.Inv := by
  unfold piSetTarget
  split
  · rename_i t d hv
    exact setValue_inv hi hv ⟨rfl, rfl, rfl, rfl⟩ (fun x => rfl)
  · exact hi

theorem textPush_inv {f : Forest} (hi : f.Inv) (node : Nat) (s : Str) : (f.textPush node s).1.Inv := by
  unfold textPush
  split
  · rename_i old hv
    exact setValue_inv hi hv ⟨rfl, rfl, rfl, rfl⟩ (fun x => rfl)
  · exact hi

theorem elementSetName_inv {f : Forest} (hi : f.Inv) (node name : Nat) : (f.elementSetName node name).1.Inv := by
  unfold elementSetName
  split
  · rename_i he
    obtain ⟨n, hv⟩ := value?_of_isElement he
    exact setValue_inv hi hv ⟨rfl, rfl, rfl, rfl⟩ (fun x => rfl)
  · exact hi

theorem valueMutSet_inv {f : Forest} (hi : f.Inv) (node : Nat) (s : Str) : (f.valueMutSet node s).1.Inv := by
  unfold valueMutSet
  split
  · exact setText_inv hi node s
  · exact setComment_inv hi node s
  · exact attributeSetValue_inv hi node s
  · exact setPiData_inv hi node (some s)
  · exact hi

theorem newDocumentWithElement_inv {f : Forest} (hi : f.Inv) (node : Nat) :
    (f.newDocumentWithElement node).1.Inv := by
  unfold newDocumentWithElement
  split
  · exact hi
  · exact append_inv (newNode_inv hi _) _ _

/-- Every call of `Model/Fcreation.lean` preserves the invariant, for all arguments (live or
    not) and whatever it answers: each is a composition of steps of `Forest.step`. -/
theorem COp.run_inv {f : Forest} (hi : f.Inv) (c : COp) : (c.run f).1.Inv := by
  cases c with
  | newDocumentWithElement n => exact newDocumentWithElement_inv hi n
  | appendNew p v => exact append_inv (newNode_inv hi v) _ _
  | appendNamespace p pfx ns => exact appendEntryNode_inv (newNode_inv hi _) _ _ _
  | setAttribute n k v => exact mapInsert_inv hi _ n _ rfl
  | removeAttribute n k => exact mapRemove_inv hi _ n k
  | setNamespace n p ns => exact mapInsert_inv hi _ n _ rfl
  | removeNamespace n p => exact mapRemove_inv hi _ n p
  | elementSetName n name => exact elementSetName_inv hi n name
  | attributeSetValue n s => exact attributeSetValue_inv hi n s
  | namespaceSetNamespace n ns => exact namespaceSetNamespace_inv hi n ns
  | piSetTarget n t => exact piSetTarget_inv hi n t
  | textPush n s => exact textPush_inv hi n s
  | valueMutSet n s => exact valueMutSet_inv hi n s

/-! ### C06: refusals, panics, `corrupt` -/

/-- The clauses of C06 for one call of `Model/Fcreation.lean`. -/
structure CClauses (f : Forest) (c : COp) : Prop where
  /-- a refusal leaves the store as it was, plus (for the calls that create a node before they
      ask `append`) that one fresh node, parentless -/
  atomic : ∀ e, (c.run f).2 = .err e → (c.run f).1 = c.refusedState f
  /-- the only panics are the documented ones … -/
  panic_iff : (c.run f).2 = .panic ↔ c.documentedPanic f = true
  /-- … and they change nothing -/
  panic_same : (c.run f).2 = .panic → (c.run f).1 = f
  notCorrupt : (c.run f).1.corrupt = false

theorem cclauses_of_clauses {f g : Forest} {c : COp} (hdoc : c.documentedPanic f = false)
    (hg : c.refusedState f = g) (h : C06Clauses g (c.run f)) : CClauses f c :=
  ⟨fun e he => (by rw [hg]; exact h.atomic e he),
   ⟨fun hp => absurd hp h.noPanic, fun hd => (by rw [hdoc] at hd; cases hd)⟩,
   fun hp => absurd hp h.noPanic, h.notCorrupt⟩

theorem cclauses_of_elementOnly {f : Forest} {c : COp} {n : Nat}
    (hdoc : c.documentedPanic f = !f.isElement n) (hg : c.refusedState f = f) (hc : f.corrupt = false)
    (h : ElementOnly f n (c.run f)) : CClauses f c := by
  refine ⟨fun e he => ?_, ?_, fun hp => ?_, h.notCorrupt hc⟩
  · rw [hg]
    cases hel : f.isElement n with
    | false => rw [h.panics hel] at he; cases he
    | true => exact (h.clauses hel).atomic e he
  · rw [hdoc, h.panic_iff]; cases f.isElement n <;> simp
  · rw [h.panics (h.panic_iff.mp hp)]

/-- A setter: refused with nothing changed, or exactly one value written. -/
def SetterShape (f : Forest) (r : Forest × Res) : Prop :=
  r = (f, .err .invalidOperation) ∨ (∃ n v, r = (f.setValue n v, .ok)) ∨ r = (f, .err .invalidComment)

theorem cclauses_of_setter {f : Forest} {c : COp} (hdoc : c.documentedPanic f = false)
    (hg : c.refusedState f = f) (hc : f.corrupt = false) (h : SetterShape f (c.run f)) : CClauses f c := by
  have key : ∀ g r, c.run f = (g, r) → r ≠ .panic → (∀ e, r = .err e → g = f) → g.corrupt = false →
      CClauses f c := by
    intro g r h hnp hat hgc
    refine ⟨fun e he => ?_, ⟨fun hp => ?_, fun hd => ?_⟩, fun hp => ?_, ?_⟩
    · rw [h] at he ⊢; rw [hg]; exact hat e he
    · rw [h] at hp; exact absurd hp hnp
    · rw [hdoc] at hd; cases hd
    · rw [h] at hp; exact absurd hp hnp
    · rw [h]; exact hgc
  rcases h with h | ⟨n, v, h⟩ | h
  · exact key _ _ h (by simp) (fun _ _ => rfl) hc
  · exact key _ _ h (by simp) (fun e he => by cases he) hc
  · exact key _ _ h (by simp) (fun _ _ => rfl) hc

theorem setText_shape (f : Forest) (n : Nat) (s : Str) : SetterShape f (f.setText n s) := by
  unfold setText; split
  · exact Or.inr (Or.inl ⟨_, _, rfl⟩)
  · exact Or.inl rfl

theorem setComment_shape (f : Forest) (n : Nat) (s : Str) : SetterShape f (f.setComment n s) := by
  unfold setComment; split
  · split
    · exact Or.inr (Or.inr rfl)
    · exact Or.inr (Or.inl ⟨_, _, rfl⟩)
  · exact Or.inl rfl

theorem setPiData_shape (f : Forest) (n : Nat) (d : Option Str) : SetterShape f (f.setPiData n d) := by
  unfold setPiData; split
  · exact Or.inr (Or.inl ⟨_, _, rfl⟩)
  · exact Or.inl rfl

theorem elementSetName_shape (f : Forest) (n name : Nat) : SetterShape f (f.elementSetName n name) := by
  unfold elementSetName; split
  · exact Or.inr (Or.inl ⟨_, _, rfl⟩)
  · exact Or.inl rfl

theorem attributeSetValue_shape (f : Forest) (n : Nat) (s : Str) : SetterShape f (f.attributeSetValue n s) := by
  unfold attributeSetValue; split
  · exact Or.inr (Or.inl ⟨_, _, rfl⟩)
  · exact Or.inl rfl

theorem namespaceSetNamespace_shape (f : Forest) (n ns : Nat) : SetterShape f (f.namespaceSetNamespace n ns) := by
  unfold namespaceSetNamespace; split
  · exact Or.inr (Or.inl ⟨_, _, rfl⟩)
  · exact Or.inl rfl

theorem piSetTarget_shape (f : Forest) (n t : Nat) : SetterShape f (f.piSetTarget n t) := by
  unfold piSetTarget; split
  · exact Or.inr (Or.inl ⟨_, _, rfl⟩)
  · exact Or.inl rfl

theorem textPush_shape (f : Forest) (n : Nat) (s : Str) : SetterShape f (f.textPush n s) := by
  unfold textPush; split
  · exact Or.inr (Or.inl ⟨_, _, rfl⟩)
  · exact Or.inl rfl

theorem valueMutSet_shape (f : Forest) (n : Nat) (s : Str) : SetterShape f (f.valueMutSet n s) := by
  unfold valueMutSet; split
  · exact setText_shape f n s
  · exact setComment_shape f n s
  · exact attributeSetValue_shape f n s
  · exact setPiData_shape f n (some s)
  · exact Or.inl rfl

/-- Under a fresh document node `append` of an element passes the structure check, so it is
    carried out (`append_ok`: no late `NodeError`). -/
theorem newDocument_append_ok {f : Forest} (w : f.W) {n : Nat} (he : f.isElement n = true) :
    MoveOk (f.newNode .document).1 ((f.newNode .document).1.append f.next n) n := by
  obtain ⟨_, w1, fr, hg, hr, _⟩ := newNode_spec w .document
  have hlive : f.isLive n = true := by
    unfold isElement value? at he; unfold isLive
    cases hgn : f.get? n with
    | none => rw [hgn] at he; simp at he
    | some t => rfl
  have hne : n ≠ f.next := fun e => by
    have := w.below n ((isLive_iff_mem f n).1 hlive); omega
  have hsc : (f.newNode .document).1.structureCheck (some f.next) n = true := by
    have h1 : (f.newNode .document).1.isDocument f.next = true := by
      unfold isDocument value?; rw [hg]; rfl
    have h2 : (f.newNode .document).1.ancestors f.next = [f.next] := ancestors_root_of_isRoot w1 hr
    have h3 : (f.newNode .document).1.value? n = f.value? n := by
      unfold value?; rw [newNode_get? _ hlive]
    obtain ⟨nm, hv⟩ := value?_of_isElement he
    simp only [structureCheck, h1, h2, h3, hv]
    simp [hne]
  exact append_ok w1 hsc

/-- `new_document_with_element` of an element never fails (the only refusal is the `is_element`
    test, made before anything is created) and returns the new document node. -/
theorem newDocumentWithElement_ok {f : Forest} (w : f.W) {n : Nat} (he : f.isElement n = true) :
    (f.newDocumentWithElement n).2.1 = .ok ∧ (f.newDocumentWithElement n).2.2 = f.next := by
  have m := newDocument_append_ok w he
  unfold newDocumentWithElement
  simp only [he, Bool.not_true, Bool.false_eq_true, if_false]
  exact ⟨m.ok, rfl⟩

/-- The calls of `Model/Fcreation.lean` on a store satisfying the invariant: C06. -/
theorem COp.run_clauses {f : Forest} (hi : f.Inv) (c : COp) : CClauses f c := by
  have w := hi.toW
  have hc := hi.notCorrupt
  cases c with
  | newDocumentWithElement n =>
    refine cclauses_of_clauses rfl rfl ?_
    show C06Clauses f ((f.newDocumentWithElement n).1, (f.newDocumentWithElement n).2.1)
    unfold Forest.newDocumentWithElement
    split
    · exact clauses_refused hc _
    · -- after the `is_element` test the `append` under the fresh document node cannot be refused
      rename_i he
      have m := newDocument_append_ok w (n := n) (by simpa using he)
      show C06Clauses f (((f.newNode .document).1.append f.next n).1, ((f.newNode .document).1.append f.next n).2)
      exact ⟨fun e he' => (by rw [m.ok] at he'; cases he'), (by rw [m.ok]; simp),
        (by rw [m.corrupt]; exact hc)⟩
  | appendNew p v =>
    obtain ⟨_, w1, _, _, _, _⟩ := newNode_spec w v
    exact cclauses_of_clauses rfl rfl ((append_outcome w1 p _).clauses hc)
  | appendNamespace p pfx ns =>
    obtain ⟨_, w1, _, hg, _, _⟩ := newNode_spec w (.namespace pfx ns)
    have hl : (f.newNode (.namespace pfx ns)).1.isLive f.next = true := by unfold isLive; rw [hg]; rfl
    exact cclauses_of_clauses rfl rfl
      (clauses_of_outcome3 (f := (f.newNode (.namespace pfx ns)).1) hc (appendEntryNode_outcome w1 .namespaces p f.next hl))
  | setAttribute n k v =>
    exact cclauses_of_elementOnly rfl rfl hc (elementOnly_of hc (mapInsert_outcome w _ n _))
  | removeAttribute n k =>
    exact cclauses_of_elementOnly rfl rfl hc (elementOnly_of hc (mapRemove_outcome w _ n k))
  | setNamespace n p ns =>
    exact cclauses_of_elementOnly rfl rfl hc (elementOnly_of hc (mapInsert_outcome w _ n _))
  | removeNamespace n p =>
    exact cclauses_of_elementOnly rfl rfl hc (elementOnly_of hc (mapRemove_outcome w _ n p))
  | elementSetName n name => exact cclauses_of_setter rfl rfl hc (elementSetName_shape f n name)
  | attributeSetValue n s => exact cclauses_of_setter rfl rfl hc (attributeSetValue_shape f n s)
  | namespaceSetNamespace n ns => exact cclauses_of_setter rfl rfl hc (namespaceSetNamespace_shape f n ns)
  | piSetTarget n t => exact cclauses_of_setter rfl rfl hc (piSetTarget_shape f n t)
  | textPush n s => exact cclauses_of_setter rfl rfl hc (textPush_shape f n s)
  | valueMutSet n s => exact cclauses_of_setter rfl rfl hc (valueMutSet_shape f n s)

end Forest
end XotModel
