/-
  XotModel.Lemmas.ArenaInsert — `insert_with_neighbors` on a well-formed arena: for a node that is
  still attached it is `detach` followed by the insertion of the then parentless node (the
  stale `parent` left by `detach_from_siblings` is overwritten by `rewrite_parents`), and the
  result stores the list-level insertion.
-/
import XotModel.Lemmas.ArenaAnc

namespace XotModel
namespace Arena

/-- The neighbours of a live slot are in range and are other slots. -/
theorem Rep.neighbours {a : Arena} {g : Shape} (r : Rep a g) (i : Nat) (s : Slot) (hs : a.slot i = some s)
    (h0 : 0 ≤ s.stamp) :
    InRange a s.parent ∧ InRange a s.prev ∧ InRange a s.next ∧
    (∀ id, s.parent = some id → id.index0 ≠ i) ∧ (∀ id, s.prev = some id → id.index0 ≠ i) ∧
    (∀ id, s.next = some id → id.index0 ≠ i) := by
  have P := r.ptrs i s hs h0
  have live_kids : ∀ p c, c ∈ g.kids p → Live a c := fun p c hc => (r.kidsLive p c hc).2.1
  cases hpar : g.par i with
  | none =>
    have hsp : s.parent = none := by rw [P.parent, hpar]; rfl
    obtain ⟨hsv, hsn⟩ := P.root hpar
    rw [hsp, hsv, hsn]
    exact ⟨InRange.none a, InRange.none a, InRange.none a, (by intro id h; cases h), (by intro id h; cases h),
      (by intro id h; cases h)⟩
  | some p =>
    obtain ⟨L, R, hk, hsv, hsn⟩ := P.sib p hpar
    have hsp : s.parent = (some p).map a.idAt := by rw [P.parent, hpar]
    have hnd : (L ++ i :: R).Nodup := by rw [← hk]; exact r.kidsNodup p
    have hpi : p ≠ i := r.par_ne hpar
    have hiL : i ∉ L := fun hm => (List.nodup_append.mp hnd).2.2 i hm i (by simp) rfl
    have hiR : i ∉ R := (List.nodup_cons.mp (List.nodup_append.mp hnd).2.1).1
    have hLp : ∀ y, y ∈ L → y ∈ g.kids p := fun y h => by rw [hk]; exact List.mem_append_left _ h
    have hRp : ∀ y, y ∈ R → y ∈ g.kids p := fun y h => by rw [hk]; exact List.mem_append_right _ (List.mem_cons_of_mem _ h)
    refine ⟨?_, ?_, ?_, ?_, ?_, ?_⟩
    · rw [hsp]; exact Rep.inRange_map _ (fun j hj => by cases hj; exact (r.live_of_par hpar).2)
    · rw [hsv]; exact Rep.inRange_map _ (fun j hj => live_kids p j (hLp j (List.mem_of_getLast? hj)))
    · rw [hsn]; exact Rep.inRange_map _ (fun j hj => live_kids p j (hRp j (List.mem_of_mem_head? hj)))
    · rw [hsp]; intro id h; simp at h; subst h; simpa using hpi
    · rw [hsv]; intro id h
      cases hl : L.getLast? with
      | none => rw [hl] at h; cases h
      | some l => rw [hl] at h; simp at h; subst h; simp; intro e; subst e; exact hiL (List.mem_of_getLast? hl)
    · rw [hsn]; intro id h
      cases hl : R.head? with
      | none => rw [hl] at h; cases h
      | some l => rw [hl] at h; simp at h; subst h; simp; intro e; subst e; exact hiR (List.mem_of_mem_head? hl)

theorem linkArena_mod_parent (b : Arena) (x pid : NodeId) (prev next : Option NodeId) (o : Option NodeId) :
    linkArena (b.mod x.index0 (fun s => { s with parent := o })) x pid prev next = linkArena b x pid prev next := by
  unfold linkArena
  rw [mod_mod_same]
  rfl

/-- `insert_with_neighbors` of a (possibly attached) node = `detach`, then the three-slot insertion. -/
theorem insertWithNeighbors_attached_eq (a : Arena) (x pid : NodeId) (prev next : Option NodeId) (s : Slot)
    (hs : a.slot x.index0 = some s)
    (hp : InRange a s.parent) (hv : InRange a s.prev) (hn : InRange a s.next)
    (h1 : ∀ id, s.parent = some id → id.index0 ≠ x.index0) (h2 : ∀ id, s.prev = some id → id.index0 ≠ x.index0)
    (h3 : ∀ id, s.next = some id → id.index0 ≠ x.index0)
    (hxp : x ≠ pid) (hxv : prev ≠ some x) (hxn : next ≠ some x)
    (hpr : InRange a (some pid)) (hvr : InRange a prev) (hnr : InRange a next)
    (D : Arena) (hD : detach a x = .done D ()) :
    insertWithNeighbors a x (some pid) prev next = .done (linkArena D x pid prev next) (.ok ()) := by
  rw [detach_eq a x s hs hp hv hn h1 h2 h3] at hD
  cases hD
  unfold insertWithNeighbors
  have e1 : (prev = some x || next = some x) = false := by simp [hxv, hxn]
  have e2 : (some pid = some x) = False := by simp [Ne.symm hxp]
  simp only [e1, Bool.false_eq_true, if_false, e2]
  rw [detachFromSiblings_self_eq a x s hs hp hv hn]
  simp only [Step.bind_done]
  have hb : (a.mod x.index0 clearSib).slot x.index0 = some (clearSib s) := by simp [hs]
  have hu : (unlink (a.mod x.index0 clearSib) s.parent s.prev s.next).slot x.index0 = some (clearSib s) := by
    rw [slot_unlink_ne _ _ _ _ _ h1 h2 h3, hb]
  have hr : ∀ o, InRange a o → InRange (unlink (a.mod x.index0 clearSib) s.parent s.prev s.next) o := by
    intro o ho
    unfold unlink
    exact (((ho.mod _ _).modOpt _ _).modOpt _ _).modOpt _ _
  rw [transplant_single_eq _ x pid prev next (clearSib s) hu rfl hxp (hr _ hpr) (hr _ hvr) (hr _ hnr)]
  simp only [Step.bind_done]
  rw [linkArena_mod_parent]

/-- The head of a list is kept when another element is erased. -/
theorem head?_erase_of_ne {l : List Nat} {i : Nat} (h : l.head? ≠ some i) : (l.erase i).head? = l.head? := by
  cases l with
  | nil => rfl
  | cons y ys =>
    have : y ≠ i := fun e => h (by simp [e])
    simp [List.erase_cons, this]

end Arena
end XotModel
