/-
  Lemmas/FwsCollect — the collection phase of `remove_insignificant_whitespace` gathers exactly
  the handles the specification deletes, in document order.
-/
import XotModel.Lemmas.FwsChar

namespace XotModel
namespace Fws
open HTree

theorem descendantsNormal_eq (t : HTree) :
    Forest.descendantsNormal t =
      (if t.value.isNormal then [t.handle] else []) ++ Forest.descendantsNormalList t.kids := by
  cases t; simp only [Forest.descendantsNormal, HTree.value, HTree.handle, HTree.kids]; split <;> simp [*]

theorem deletable_text {p sig : Bool} {k : HTree} (h : deletable p sig k = true) : ∃ s, k.value = .text s := by
  unfold deletable isWsOnlyText at h
  cases hv : k.value <;> rw [hv] at h <;> simp at h
  exact ⟨_, rfl⟩

/-- One node of the pre-order walk. -/
theorem collect_node {f : Forest} {b : Bool} (nd : f.allHandles.Nodup) (hv : validList b f.roots = true)
    {t : HTree} {anc : List HTree} (o : Occurs f t anc) :
    (Forest.descendantsNormal t).filter f.isInsignificantWhitespace =
      if topDeleted anc t then [t.handle]
      else (Forest.descendantsNormalList t.kids).filter f.isInsignificantWhitespace := by
  rw [descendantsNormal_eq, List.filter_append]
  by_cases hd : topDeleted anc t = true
  · obtain ⟨s, hs⟩ := deletable_text hd
    have hk : t.kids = [] := text_no_kids (o.valid hv) hs
    simp [hd, hk, hs, Value.isNormal, Value.category, Forest.descendantsNormalList, isInsig_eq nd hv o]
  · simp only [hd]
    by_cases hn : t.value.isNormal = true
    · simp [hn, isInsig_eq nd hv o, hd]
    · simp [hn]

mutual
  theorem collect_tree {f : Forest} {b : Bool} (nd : f.allHandles.Nodup) (hv : validList b f.roots = true) :
      ∀ (t : HTree) (anc : List HTree), Occurs f t anc →
        (Forest.descendantsNormalList t.kids).filter f.isInsignificantWhitespace = specRemoved (chainScope anc) t
    | .node h v ks, anc, o => by
      simp only [HTree.kids, specRemoved]
      exact collect_kids nd hv ks (.node h v ks) anc o (fun k hk => hk)
  theorem collect_kids {f : Forest} {b : Bool} (nd : f.allHandles.Nodup) (hv : validList b f.roots = true) :
      ∀ (ks : List HTree) (p : HTree) (anc : List HTree), Occurs f p anc → (∀ k ∈ ks, k ∈ p.kids) →
        (Forest.descendantsNormalList ks).filter f.isInsignificantWhitespace =
          specRemovedKids (chainScope (p :: anc)) (p.kids.any isOtherText) ks
    | [], _, _, _, _ => by simp [Forest.descendantsNormalList, specRemovedKids]
    | k :: ks, p, anc, o, hsub => by
      have ok : Occurs f k (p :: anc) := .kid o (hsub k List.mem_cons_self)
      simp only [Forest.descendantsNormalList, specRemovedKids, List.filter_append]
      rw [collect_node nd hv ok, collect_tree nd hv k (p :: anc) ok,
        collect_kids nd hv ks p anc o (fun k' hk' => hsub k' (List.mem_cons_of_mem _ hk'))]
      rfl
end

/-- The list collected by the first loop of `remove_insignificant_whitespace`. -/
theorem toRemove_eq {f : Forest} {b : Bool} (nd : f.allHandles.Nodup) (hv : validList b f.roots = true)
    {t : HTree} {anc : List HTree} (o : Occurs f t anc) :
    (Forest.descendantsNormal t).filter f.isInsignificantWhitespace = specTopRemoved anc t := by
  rw [collect_node nd hv o, collect_tree nd hv t anc o]
  rfl

end Fws
end XotModel
