/-
  Lemmas for C11, part 16: the frame for OTHER nodes.  After the child list of `e` is replaced,
  every other node `e'` still has the same value and the same direct children (handles and
  values), provided the lookup of `e'` inside the old and the new child list agree that far.
-/
import XotModel.Lemmas.FmapInv

namespace XotModel
namespace Fmap
open HTree
open Forest (MapKind entryKey mapChildren)

/-- Handle and value of a node. -/
def hv (c : HTree) : Nat × Value := (c.handle, c.value)

/-- A node seen without its grandchildren: its value and its children's handles and values. -/
def shallow (t : HTree) : Value × List (Nat × Value) := (t.value, t.kids.map hv)

theorem mapAt_atKids_handle (e : Nat) (F : List HTree → List HTree) (k : HTree) :
    (mapAt e (atKids F) k).handle = k.handle := by
  cases k with
  | node h v ks =>
    simp only [mapAt]
    split <;> rfl

theorem hv_mapAt_atKids (e : Nat) (F : List HTree → List HTree) (k : HTree) :
    hv (mapAt e (atKids F) k) = hv k := by
  simp [hv, mapAt_atKids_handle, mapAt_atKids_value]

mutual
  theorem shallow_find?_withKids (e e' : Nat) (ev : Value) (ks ks' : List HTree) (hne : e' ≠ e)
      (hH : (findList? e' ks').map shallow = (findList? e' ks).map shallow) :
      ∀ k : HTree, (handles k).Nodup → find? e k = some (.node e ev ks) →
      (find? e' (mapAt e (atKids (fun _ => ks')) k)).map shallow = (find? e' k).map shallow
    | .node h' v ks0 => by
      intro hnd hf
      simp only [handles, List.nodup_cons] at hnd
      simp only [find?] at hf
      simp only [mapAt]
      split at hf
      · rename_i hh
        simp only [Option.some.injEq, HTree.node.injEq] at hf
        obtain ⟨h1, h2, h3⟩ := hf
        subst h1 h2 h3
        rw [if_pos rfl]
        show (find? e' (.node h' v ks')).map shallow = _
        have hne' : ¬ h' = e' := fun h => hne h.symm
        simp only [find?, if_neg hne']
        exact hH
      · rename_i hh
        rw [if_neg hh]
        simp only [find?]
        by_cases he' : h' = e'
        · simp only [if_pos he', Option.map_some, shallow, HTree.value, HTree.kids]
          rw [mapAtList_eq_map, List.map_map]
          congr 2
          apply List.map_congr_left
          intro c _
          exact hv_mapAt_atKids e _ c
        · simp only [if_neg he']
          exact shallow_findList?_withKids e e' ev ks ks' hne hH ks0 hnd.2 hf
  theorem shallow_findList?_withKids (e e' : Nat) (ev : Value) (ks ks' : List HTree) (hne : e' ≠ e)
      (hH : (findList? e' ks').map shallow = (findList? e' ks).map shallow) :
      ∀ l : List HTree, (handlesList l).Nodup → findList? e l = some (.node e ev ks) →
      (findList? e' (mapAtList e (atKids (fun _ => ks')) l)).map shallow =
        (findList? e' l).map shallow
    | [] => by simp [findList?]
    | k :: l => by
      intro hnd hf
      simp only [handlesList] at hnd
      have hnd' := List.nodup_append.mp hnd
      simp only [findList?] at hf
      simp only [mapAtList, findList?]
      cases hk : find? e k with
      | some t' =>
        rw [hk] at hf; cases hf
        have hek : e ∈ handles k := find?_mem e k _ hk
        have h2 : e ∉ handlesList l := fun hx => hnd'.2.2 _ hek _ hx rfl
        rw [mapAtList_not_mem e _ l h2]
        have ih := shallow_find?_withKids e e' ev ks ks' hne hH k hnd'.1 hk
        cases h1 : find? e' (mapAt e (atKids (fun _ => ks')) k) with
        | some a =>
          cases h3 : find? e' k with
          | some b => rw [h1, h3] at ih; simpa using ih
          | none => rw [h1, h3] at ih; simp at ih
        | none =>
          cases h3 : find? e' k with
          | some b => rw [h1, h3] at ih; simp at ih
          | none => rfl
      | none =>
        rw [hk] at hf
        have h2 : e ∉ handles k := not_mem_of_find?_none e k hk
        rw [mapAt_not_mem e _ k h2]
        cases h3 : find? e' k with
        | some b => rfl
        | none => exact shallow_findList?_withKids e e' ev ks ks' hne hH l hnd'.2.1 hf
end

/-! ### What depends on the shallow view only -/

/-- The adapters' selection at the level of (handle, value) pairs. -/
def kidsOfP (k : MapKind) (ps : List (Nat × Value)) : List (Nat × Value) :=
  match k with
  | .namespaces => ps.takeWhile (fun p => p.2.category == .namespace)
  | .attributes =>
    (ps.dropWhile (fun p => p.2.category == .namespace)).takeWhile (fun p => p.2.category == .attribute)

theorem kidsOf_hv (k : MapKind) (ks : List HTree) : (kidsOf k ks).map hv = kidsOfP k (ks.map hv) := by
  cases k
  · simp only [kidsOf, kidsOfP, List.dropWhile_map, List.takeWhile_map]
    rfl
  · simp only [kidsOf, kidsOfP, List.takeWhile_map]
    rfl

theorem absT_of_shallow (k : MapKind) (t : HTree) :
    absT k t = (kidsOfP k (shallow t).2).map (fun p => (entryKey p.2, payloadOf p.2)) := by
  unfold absT shallow
  rw [mapChildren_eq, ← kidsOf_hv, List.map_map]
  rfl

theorem nodes_of_shallow (k : MapKind) (t : HTree) :
    (mapChildren k t).map (·.handle) = (kidsOfP k (shallow t).2).map (·.1) := by
  unfold shallow
  rw [mapChildren_eq, ← kidsOf_hv, List.map_map]
  rfl

/-- Equal shallow views give equal map views, entry nodes, element-ness. -/
theorem views_of_shallow (f f' : Forest) (e' : Nat)
    (h : (f'.get? e').map shallow = (f.get? e').map shallow) :
    (∀ k, abs k f' e' = abs k f e') ∧ (∀ k, absNodes k f' e' = absNodes k f e') ∧
    f'.isElement e' = f.isElement e' ∧ f'.value? e' = f.value? e' := by
  cases h1 : f'.get? e' with
  | none =>
    cases h2 : f.get? e' with
    | none => simp [Fmap.abs, absNodes, Forest.isElement, Forest.value?, h1, h2]
    | some b => rw [h1, h2] at h; simp at h
  | some a =>
    cases h2 : f.get? e' with
    | none => rw [h1, h2] at h; simp at h
    | some b =>
      rw [h1, h2] at h
      simp only [Option.map_some, Option.some.injEq] at h
      have hv' : a.value = b.value := by
        have := congrArg Prod.fst h; exact this
      refine ⟨?_, ?_, ?_, ?_⟩
      · intro k
        simp only [Fmap.abs, h1, h2]
        rw [absT_of_shallow, absT_of_shallow, h]
      · intro k
        simp only [absNodes, h1, h2]
        rw [nodes_of_shallow, nodes_of_shallow, h]
      · simp [Forest.isElement, Forest.value?, h1, h2, hv']
      · simp [Forest.value?, h1, h2, hv']

/-! ### Lookups inside a child list that lost or gained a leaf -/

theorem findList?_append (e : Nat) (a b : List HTree) :
    findList? e (a ++ b) = (findList? e a).or (findList? e b) := by
  induction a with
  | nil => simp [findList?]
  | cons k a ih =>
    simp only [List.cons_append, findList?]
    cases find? e k with
    | some t => rfl
    | none => exact ih

theorem findList?_skip_leaf (e' : Nat) (a b : List HTree) (n : HTree) (hk : n.kids = [])
    (hne : n.handle ≠ e') : findList? e' (a ++ n :: b) = findList? e' (a ++ b) := by
  have hn : find? e' n = none := by
    apply find?_none_of_not_mem
    rw [handles_eq, hk]
    simp only [handlesList, List.mem_cons, List.not_mem_nil, or_false]
    exact fun h => hne h.symm
  rw [findList?_append, findList?_append]
  simp only [findList?, hn]

end Fmap
end XotModel
