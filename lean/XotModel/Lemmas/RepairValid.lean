/-
  Structural validity (Model/Valid) gives the two side conditions of the document-level repair
  theorems: no element declares a prefix twice (`UniqueKids`), and the children of a document that
  are not elements are leaves (`KindsOk`: text / comment / PI nodes have no children, a document is
  never a child).
-/
import XotModel.Model.Valid
import XotModel.Lemmas.RepairKeepTop

namespace XotModel.Repair
open XotModel

theorem keys_declsOfKids_sublist (ks : List Tree) : (keys (declsOfKids ks)).Sublist (nsPrefixes ks) := by
  have h1 : keys (declsOfKids ks) =
      nsPrefixes (ks.takeWhile (fun k => k.value.category == .namespace)) := by
    unfold keys declsOfKids nsPrefixes
    rw [List.map_filterMap]
    congr 1
    funext k
    cases k.value <;> rfl
  rw [h1]
  exact (List.takeWhile_sublist _).filterMap _

theorem forall_at? (p : Value → List Tree → Prop) : ∀ (rel : Path) (t : Tree), t.Forall p →
    ∀ v ks, t.at? rel = some (.node v ks) → p v ks
  | [], .node v ks, h, v', ks', hat => by
    simp only [Tree.at?, Option.some.injEq, Tree.node.injEq] at hat
    obtain ⟨rfl, rfl⟩ := hat
    exact ((Tree.forall_node p v ks).mp h).1
  | i :: rel, .node v ks, h, v', ks', hat => by
    rw [at?_cons] at hat
    cases hk : ks[i]? with
    | none => rw [hk] at hat; cases hat
    | some k =>
      rw [hk] at hat
      exact forall_at? p rel k (((Tree.forall_node p v ks).mp h).2 k (List.mem_of_getElem? hk)) v' ks' hat

/-- `UniqueKids` everywhere ⇒ no element declares a prefix twice. -/
theorem uniqueBelow_of_uniqueKids (t : Tree) (h : t.Forall (fun _ ks => UniqueKids ks)) : UniqueBelow t := by
  intro rel n' hn
  cases n' with
  | node v ks =>
    have hu := forall_at? _ rel t h v ks hn
    rw [frameOf_node]
    split
    · exact hu.2.sublist (keys_declsOfKids_sublist ks)
    · exact List.nodup_nil

/-- `KindsOk` at a document and at its children ⇒ the children that are not elements are leaves. -/
theorem leaves_of_kindsOk (doc : Tree) (h : doc.Forall KindsOk) :
    ∀ (i : Nat) (k : Tree), doc.kids[i]? = some k → k.value.isElement = false → k.kids = [] := by
  intro i k hk hne
  cases doc with
  | node v ks =>
    simp only [Tree.kids] at hk
    obtain ⟨hdoc, hkids⟩ := (Tree.forall_node KindsOk v ks).mp h
    have hmem : k ∈ ks := List.mem_of_getElem? hk
    have hnd : k.value.isDocument = false := hdoc.2.2 k hmem
    cases k with
    | node kv kk =>
      have hkk := ((Tree.forall_node KindsOk kv kk).mp (hkids _ hmem)).1.1
      simp only [Tree.value] at hne hnd
      simp only [Tree.kids]
      apply hkk
      cases kv <;> simp_all [Value.isLeafKind, Value.isElement, Value.isDocument]

end XotModel.Repair
