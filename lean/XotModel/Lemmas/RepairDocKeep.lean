/-
  `KeptNode` / `BindingsKept` (Lemmas/RepairKeep, RepairKeepTop) for the DOCUMENT branch of
  `create_missing_prefixes`: the loop over the element children is a sequence of
  `create_missing_prefixes_for_element` calls; a call leaves the siblings, the scope of the document node and
  the namespaces of the names alone, so what `facts_kept` says of each call — relative to the element as it was
  BEFORE the whole loop and to the declarations it inherited then — still holds at the end.
  Family prefix `rdk_`.
-/
import XotModel.Lemmas.RepairDoc
import XotModel.Lemmas.RepairKeepTop

namespace XotModel.Repair
open XotModel

/-- What one call establishes about the repaired element `E` (before) / `E'` (after), `inh` the declarations
    it inherits: same value, the bindings in force at it are kept, every node below it is `KeptNode`. -/
def rdk_KeptCall (nsOf : Nat → Nat) (inh : List (Nat × Nat)) (E E' : Tree) : Prop :=
  E'.value = E.value ∧
  BindingsKept (E.nsDecls :: [inh]) (E'.nsDecls :: [inh]) ∧
  AllPairs (KeptNode nsOf) (nodesBelow [inh] E) (nodesBelow [inh] E')

/-- The loop of the document branch: every repaired child is `rdk_KeptCall` relative to the tree before the
    loop. -/
theorem rdk_repairElements_kept (path : Path) : ∀ (is : List Nat) (env : Env) (t : Tree) (env' : Env) (t' : Tree),
    is.Nodup → EnvOk env →
    (∀ i ∈ is, ∃ name ks, t.at? (path ++ [i]) = some (.node (.element name) ks) ∧
      UniqueBelow (.node (.element name) ks)) →
    repairElements is path env t = .ok (env', t') →
    ∀ i ∈ is, ∀ E, t.at? (path ++ [i]) = some E →
      ∃ E', t'.at? (path ++ [i]) = some E' ∧
        rdk_KeptCall env.nsOfName ((namespacesInScope t path).getD []) E E'
  | [], _, _, _, _, _, _, _, _ => fun i hi => by cases hi
  | i0 :: is, env, t, env', t', hnd, hok, hel, h => by
    simp only [repairElements] at h
    obtain ⟨name, ks, hat0, hu0⟩ := hel i0 (by simp)
    cases h0 : repairElement env t (path ++ [i0]) with
    | err e => rw [h0] at h; cases h
    | panic => rw [h0] at h; cases h
    | ok r =>
      obtain ⟨env1, t1⟩ := r
      rw [h0] at h
      simp only at h
      have hf := repairElement_facts env hok t (path ++ [i0]) name ks hat0 hu0 env1 t1 h0
      obtain ⟨nd, _, ht1, _, _, _, _, _⟩ := hf.nd
      have hval : ∀ x, t.at? (path ++ [i0]) = some x →
          ((fun _ => rebuild env.nsOfName nd true (inheritedDecls t (path ++ [i0])) (.node (.element name) ks)) x).value
            = x.value := by
        intro x hx; rw [hat0] at hx; cases hx; exact value_rebuild _ _ _ _ _
      simp only [List.nodup_cons] at hnd
      have hsib : ∀ i, i ≠ i0 → ∀ r, t1.at? (path ++ i :: r) = t.at? (path ++ i :: r) := by
        intro i hi r; rw [ht1]; exact at?_scopeModifyAt_sibling _ path t i i0 r hi
      have hscope1 : namespacesInScope t1 path = namespacesInScope t path := by
        rw [ht1]; exact namespacesInScope_scopeModifyAt_child _ t path i0 hval
      have hel1 : ∀ i ∈ is, ∃ name ks, t1.at? (path ++ [i]) = some (.node (.element name) ks) ∧
          UniqueBelow (.node (.element name) ks) := by
        intro i hi
        obtain ⟨nm, ks', h1, h2⟩ := hel i (by simp [hi])
        have hne : i ≠ i0 := fun he => hnd.1 (he ▸ hi)
        exact ⟨nm, ks', by rw [hsib i hne []]; exact h1, h2⟩
      have hns1 : env1.nsOfName = env.nsOfName := nsOfName_congr hf.names
      intro i hi E hE
      rcases List.mem_cons.mp hi with rfl | hi
      · -- the child repaired by this call; the rest of the loop leaves it alone
        rw [hat0] at hE
        cases hE
        obtain ⟨E', k1, k2, k3, k4⟩ := facts_kept hat0 hu0 hf
        have hothers := (repairElements_facts path is env1 t1 env' t' hnd.2 hf.envOk hel1 h).others i hnd.1 []
        rw [inheritedDecls_child] at k3 k4
        exact ⟨E', by rw [hothers]; exact k1, by rw [k2]; rfl, k3, k4⟩
      · have hne : i ≠ i0 := fun he => hnd.1 (he ▸ hi)
        obtain ⟨E', k1, k2⟩ := rdk_repairElements_kept path is env1 t1 env' t' hnd.2 hf.envOk hel1 h i hi E
          (by rw [hsib i hne []]; exact hE)
        rw [hns1, hscope1] at k2
        exact ⟨E', k1, k2⟩

/-- The call on a document node: every element child is `rdk_KeptCall`; the other children are untouched. -/
theorem rdk_document_kept (env : Env) (hok : EnvOk env) (t : Tree) (path : Path) (doc : Tree)
    (hat : t.at? path = some doc) (hdoc : doc.value.isDocument = true)
    (hu : ∀ (i : Nat) (k : Tree), doc.kids[i]? = some k → k.value.isElement = true → UniqueBelow k)
    (env' : Env) (t' : Tree) (h : createMissingPrefixes env t path = .ok (env', t')) :
    (∀ (i : Nat) (k : Tree), doc.kids[i]? = some k → k.value.isElement = true →
      ∃ E', t'.at? (path ++ [i]) = some E' ∧
        rdk_KeptCall env.nsOfName ((namespacesInScope t path).getD []) k E') ∧
    (∀ (j : Nat) (k : Tree), doc.kids[j]? = some k → k.value.isElement = false →
      ∀ r, t'.at? (path ++ j :: r) = t.at? (path ++ j :: r)) := by
  obtain ⟨_, hrun⟩ := createMissingPrefixes_document env t path doc hat hdoc env' t' h
  have hel : ∀ i ∈ elementKidIndices doc.kids, ∃ name ks,
      t.at? (path ++ [i]) = some (.node (.element name) ks) ∧ UniqueBelow (.node (.element name) ks) := by
    intro i hi
    obtain ⟨k, hk, hv⟩ := mem_elementKidIndices.mp hi
    obtain ⟨name, ks, rfl⟩ := isElement_node hv
    exact ⟨name, ks, by rw [at?_child t path i doc hat]; exact hk, hu i _ hk hv⟩
  constructor
  · intro i k hk hv
    have hi : i ∈ elementKidIndices doc.kids := mem_elementKidIndices.mpr ⟨k, hk, hv⟩
    exact rdk_repairElements_kept path _ env t env' t' (elementKidIndices_nodup _) hok hel hrun i hi k
      (by rw [at?_child t path i doc hat]; exact hk)
  · intro j k hk hv r
    have hj : j ∉ elementKidIndices doc.kids := by
      intro hj
      obtain ⟨k', hk', hv'⟩ := mem_elementKidIndices.mp hj
      rw [hk] at hk'
      cases hk'
      rw [hv] at hv'
      cases hv'
    exact (document_facts env hok t path doc hat hdoc hu env' t' h).others j hj r

end XotModel.Repair
