/-
  C03_sound, ordering / kinds / adjacency part: an invariant of the zipper builder.

  Every open frame's finished children (kept last-first) are ordered namespaces → attributes →
  normal, respect the kind rules, contain no two neighbouring text nodes, and are themselves
  sound trees; the chain of open frames is `element … element document`.
-/
import XotModel.Lemmas.ParseQName
import XotModel.Model.Parse
import XotModel.Model.Valid

namespace XotModel

/-- What `C03_sound` establishes at every node. -/
def SoundAt (v : Value) (ks : List Tree) : Prop :=
  OrderedKids ks ∧ KindsOk v ks ∧ noAdjText ks = true ∧ UniqueKids ks

/-! ### Attribute names / prefixes of a child list -/

theorem attrNames_append (a b : List Tree) : attrNames (a ++ b) = attrNames a ++ attrNames b := by
  simp [attrNames]

theorem nsPrefixes_append (a b : List Tree) : nsPrefixes (a ++ b) = nsPrefixes a ++ nsPrefixes b := by
  simp [nsPrefixes]

theorem attrNames_reverse (l : List Tree) : attrNames l.reverse = (attrNames l).reverse := by
  simp [attrNames, List.filterMap_reverse]

theorem nsPrefixes_reverse (l : List Tree) : nsPrefixes l.reverse = (nsPrefixes l).reverse := by
  simp [nsPrefixes, List.filterMap_reverse]

theorem nodup_reverse' {l : List Nat} : l.reverse.Nodup ↔ l.Nodup := by
  unfold List.Nodup
  rw [List.pairwise_reverse]
  constructor <;> intro h <;> exact h.imp (fun hab => fun e => hab e.symm)

theorem uniqueKids_reverse {l : List Tree} (h : UniqueKids l) : UniqueKids l.reverse := by
  unfold UniqueKids at h ⊢
  rw [attrNames_reverse, nsPrefixes_reverse, nodup_reverse', nodup_reverse']
  exact h

/-- A normal node contributes neither an attribute name nor a prefix. -/
theorem uniqueKids_cons_normal {k : Tree} {l : List Tree} (hph : k.value.phase = 2) (h : UniqueKids l) :
    UniqueKids (k :: l) := by
  unfold UniqueKids attrNames nsPrefixes at h ⊢
  cases hv : k.value <;> simp_all [Value.phase, List.filterMap_cons]

/-! ### `noAdjText` and reversal -/

theorem noAdjText_snoc (l : List Tree) (a : Tree) :
    noAdjText (l ++ [a]) =
      (noAdjText l && !((l.getLast?.map (fun t => t.value.isText)).getD false && a.value.isText)) := by
  match l with
  | [] => simp [noAdjText]
  | [x] => simp [noAdjText]
  | x :: y :: rest =>
    have ih := noAdjText_snoc (y :: rest) a
    simp only [List.cons_append] at ih ⊢
    simp only [noAdjText, ih, List.getLast?_cons_cons, Bool.and_assoc]

theorem noAdjText_reverse (l : List Tree) : noAdjText l.reverse = noAdjText l := by
  induction l with
  | nil => rfl
  | cons x l ih =>
    rw [List.reverse_cons, noAdjText_snoc, ih, List.getLast?_reverse]
    cases l with
    | nil => simp [noAdjText]
    | cons y rest => simp [noAdjText, Bool.and_comm]

/-! ### Frames -/

/-- Invariant of one open frame, stated on the children as stored (last child first). -/
def FrameOk (f : Frame) : Prop :=
  f.rkids.Pairwise (fun a b => b.value.phase ≤ a.value.phase) ∧
  KindsOk f.value f.rkids ∧
  noAdjText f.rkids = true ∧
  UniqueKids f.rkids ∧
  ∀ k ∈ f.rkids, k.Forall SoundAt

theorem kindsOk_reverse {v : Value} {ks : List Tree} (h : KindsOk v ks) : KindsOk v ks.reverse := by
  obtain ⟨h1, h2, h3⟩ := h
  refine ⟨fun hv => by simp [h1 hv], fun hv k hk => h2 hv k (by simpa using hk), fun k hk => h3 k (by simpa using hk)⟩

theorem Frame.close_sound {f : Frame} (h : FrameOk f) : f.close.Forall SoundAt := by
  obtain ⟨h1, h2, h3, hu, h4⟩ := h
  unfold Frame.close
  rw [Tree.forall_node]
  refine ⟨⟨?_, kindsOk_reverse h2, ?_, uniqueKids_reverse hu⟩, fun k hk => h4 k (by simpa using hk)⟩
  · unfold OrderedKids; rw [List.pairwise_reverse]; exact h1
  · rw [noAdjText_reverse]; exact h3

theorem ps_phase_le_two (v : Value) : v.phase ≤ 2 := by cases v <;> simp [Value.phase]

/-- Adding a normal, non-document node in front of the stored children. -/
theorem FrameOk.cons_normal {f : Frame} {k : Tree} (h : FrameOk f)
    (hleaf : f.value.isLeafKind = false) (hph : k.value.phase = 2) (hdoc : k.value.isDocument = false)
    (hadj : k.value.isText = true → (f.rkids.head?.map (fun t => t.value.isText)).getD false = false)
    (hk : k.Forall SoundAt) : FrameOk { f with rkids := k :: f.rkids } := by
  obtain ⟨h1, h2, h3, hu, h4⟩ := h
  have hnormal : k.value.isNormal = true := by
    cases hv : k.value <;> simp_all [Value.phase, Value.isNormal, Value.category]
  refine ⟨?_, ?_, ?_, uniqueKids_cons_normal hph hu, ?_⟩
  · simp only [List.pairwise_cons]
    exact ⟨fun b _ => by rw [hph]; exact ps_phase_le_two _, h1⟩
  · obtain ⟨a, b, c⟩ := h2
    refine ⟨fun hv => by simp [hleaf] at hv, fun hv x hx => ?_, fun x hx => ?_⟩
    · simp only [List.mem_cons] at hx
      rcases hx with rfl | hx
      · exact hnormal
      · exact b hv x hx
    · simp only [List.mem_cons] at hx
      rcases hx with rfl | hx
      · exact hdoc
      · exact c x hx
  · cases hr : f.rkids with
    | nil => simp [noAdjText]
    | cons y rest =>
      simp only [hr] at h3 hadj ⊢
      simp only [noAdjText, h3, Bool.and_true, Bool.not_eq_true', Bool.and_eq_false_iff]
      by_cases ht : k.value.isText = true
      · right; simpa using hadj ht
      · left; simpa using ht
  · intro x hx
    simp only [List.mem_cons] at hx
    rcases hx with rfl | hx
    · exact hk
    · exact h4 x hx

theorem soundAt_leaf (v : Value) : SoundAt v [] := by
  refine ⟨List.Pairwise.nil, ⟨fun _ => rfl, fun _ k hk => by simp at hk, fun k hk => by simp at hk⟩, rfl,
    ⟨List.nodup_nil, List.nodup_nil⟩⟩

theorem forall_leaf (v : Value) : (Tree.node v []).Forall SoundAt := by
  rw [Tree.forall_node]; exact ⟨soundAt_leaf v, fun k hk => by simp at hk⟩

/-- The chain of open frames: elements, then the document node at the bottom. -/
def ShapeOk : List Frame → Prop
  | [] => False
  | [f] => f.value = .document
  | f :: rest => f.value.isElement = true ∧ ShapeOk rest

theorem ShapeOk.head_not_leaf : ∀ {fs : List Frame} {f : Frame}, ShapeOk (f :: fs) → f.value.isLeafKind = false
  | [], f, h => by simp only [ShapeOk] at h; rw [h]; rfl
  | g :: gs, f, h => by
    simp only [ShapeOk] at h
    cases hv : f.value <;> simp_all [Value.isElement, Value.isLeafKind]

/-- Builder invariant (independent of interning tables, spans, namespace stack). -/
def EbOk (eb : Option ElementBuilder) : Prop :=
  ∀ e, eb = some e → (e.namespaces.map (fun d => d.1)).Nodup

/-- Builder invariant (independent of interning tables, spans, namespace stack): the open
    frames, and the prefixes collected for the start tag being read are pairwise different. -/
def BuilderOk (b : Builder) : Prop :=
  FrameOk b.cur ∧ (∀ p ∈ b.parents, FrameOk p) ∧ ShapeOk (b.cur :: b.parents) ∧ EbOk b.eb

theorem builderOk_new (env : Env) : BuilderOk (Builder.new env) := by
  refine ⟨⟨List.Pairwise.nil, ⟨fun _ => rfl, fun _ k hk => by simp [Builder.new] at hk, fun k hk => by simp [Builder.new] at hk⟩, rfl, ⟨List.nodup_nil, List.nodup_nil⟩, fun k hk => by simp [Builder.new] at hk⟩, fun p hp => by simp [Builder.new] at hp, ?_, fun e he => by simp [Builder.new] at he⟩
  simp [Builder.new, ShapeOk]

/-! ### Steps that add a node to the current frame -/

theorem shape_congr {c c' : Frame} {ps : List Frame} (hv : c'.value = c.value) (hs : ShapeOk (c :: ps)) :
    ShapeOk (c' :: ps) := by
  cases ps with
  | nil => simpa [ShapeOk, hv] using hs
  | cons g gs => simpa [ShapeOk, hv] using hs

theorem addText_ok {b : Builder} (content : Str) (h : BuilderOk b) : BuilderOk (b.addText content).1 := by
  obtain ⟨hc, hp, hs, he⟩ := h
  unfold Builder.addText
  split
  · rename_i s ks more hr
    refine ⟨?_, hp, shape_congr (c := b.cur) rfl hs, he⟩
    obtain ⟨h1, h2, h3, hu, h4⟩ := hc
    rw [hr] at h1 h2 h3 hu h4
    refine ⟨?_, ?_, ?_, ?_, ?_⟩
    · simp only [List.pairwise_cons] at h1 ⊢
      exact ⟨fun x hx => by simpa [Tree.value, Value.phase] using h1.1 x hx, h1.2⟩
    · obtain ⟨a, c, d⟩ := h2
      refine ⟨fun hv => by simpa using a hv, fun hv x hx => ?_, fun x hx => ?_⟩
      · simp only [List.mem_cons] at hx
        rcases hx with rfl | hx
        · rfl
        · exact c hv x (by simp [hx])
      · simp only [List.mem_cons] at hx
        rcases hx with rfl | hx
        · rfl
        · exact d x (by simp [hx])
    · cases more with
      | nil => simp [noAdjText]
      | cons y rest => simpa [noAdjText, Tree.value, Value.isText] using h3
    · unfold UniqueKids attrNames nsPrefixes at hu ⊢
      simpa [List.filterMap_cons, Tree.value] using hu
    · intro x hx
      simp only [List.mem_cons] at hx
      rcases hx with rfl | hx
      · have := h4 (.node (.text s) ks) (by simp)
        rw [Tree.forall_node] at this ⊢
        obtain ⟨⟨o, k, n, u⟩, rest⟩ := this
        exact ⟨⟨o, ⟨fun _ => k.1 rfl, fun _ => k.2.1 rfl, k.2.2⟩, n, u⟩, rest⟩
      · exact h4 x (by simp [hx])
  · rename_i hne
    refine ⟨?_, hp, shape_congr (c := b.cur) rfl hs, he⟩
    have := FrameOk.cons_normal (k := .node (.text content) []) hc hs.head_not_leaf rfl rfl ?_ (forall_leaf _)
    · exact this
    · intro _
      cases hr : b.cur.rkids with
      | nil => rfl
      | cons y rest =>
        simp only [List.head?_cons, Option.map_some, Option.getD_some]
        cases hy : y with
        | node v ks =>
          cases v with
          | text s => exact absurd (by rw [hr, hy]) (hne s ks rest)
          | _ => rfl

theorem addLeaf_ok {b : Builder} (v : Value) (h : BuilderOk b) (hph : v.phase = 2)
    (hdoc : v.isDocument = false) (htext : v.isText = false) : BuilderOk (b.addLeaf v).1 := by
  obtain ⟨hc, hp, hs, he⟩ := h
  unfold Builder.addLeaf
  refine ⟨?_, hp, shape_congr (c := b.cur) rfl hs, he⟩
  exact FrameOk.cons_normal (k := .node v []) hc hs.head_not_leaf hph hdoc
    (fun ht => by simp [Tree.value, htext] at ht) (forall_leaf _)

/-- `BuilderOk` only looks at `cur`, `parents` and `eb`. -/
theorem builderOk_congr {b b' : Builder} (h : BuilderOk b) (hc : b'.cur = b.cur) (hp : b'.parents = b.parents)
    (he : b'.eb = b.eb) : BuilderOk b' := by
  unfold BuilderOk at h ⊢
  rw [hc, hp, he]; exact h

theorem builderOk_setEb {b b' : Builder} (h : BuilderOk b) (hc : b'.cur = b.cur) (hp : b'.parents = b.parents)
    (he : EbOk b'.eb) : BuilderOk b' := by
  obtain ⟨h1, h2, h3, _⟩ := h
  unfold BuilderOk
  rw [hc, hp]; exact ⟨h1, h2, h3, he⟩

/-! ### Opening an element -/

/-- Children of a fresh element: attribute leaves (names `names`, in order of appearance) in
    front of the namespace leaves for `decls` (all last first). -/
def AttrKids (rk : List Tree) (names : List Nat) (decls : List (Nat × Nat)) : Prop :=
  ∃ attrs : List Tree, rk = attrs ++ namespaceKids decls ∧
    (∀ k ∈ attrs, ∃ n v, k = .node (.attribute n v) []) ∧ attrNames attrs = names.reverse

theorem attrKids_namespaceKids (decls : List (Nat × Nat)) : AttrKids (namespaceKids decls) [] decls :=
  ⟨[], rfl, fun k hk => by simp at hk, rfl⟩

theorem namespaceKids_spec (decls : List (Nat × Nat)) :
    (∀ k ∈ namespaceKids decls, ∃ p n, k = .node (.namespace p n) []) ∧
    attrNames (namespaceKids decls) = [] ∧
    nsPrefixes (namespaceKids decls) = (decls.map (fun d => d.1)).reverse := by
  refine ⟨fun k hk => ?_, ?_, ?_⟩
  · simp only [namespaceKids, List.mem_reverse, List.mem_map] at hk
    obtain ⟨d, _, rfl⟩ := hk
    exact ⟨d.1, d.2, rfl⟩
  · induction decls with
    | nil => rfl
    | cons d ds ih =>
      simp only [namespaceKids, List.map_cons, List.reverse_cons] at ih ⊢
      rw [attrNames_append, ih]; rfl
  · induction decls with
    | nil => rfl
    | cons d ds ih =>
      simp only [namespaceKids, List.map_cons, List.reverse_cons] at ih ⊢
      rw [nsPrefixes_append, ih]; rfl

theorem addAttributes_attrKids (stack : NsStack) (node : Path) (decls : List (Nat × Nat))
    (abs : List AttributeBuilder) :
    ∀ (st st' : AttrLoop), AttrKids st.rkids st.seenNames decls → st.seenNames.Nodup →
      addAttributes stack node st abs = .ok st' → AttrKids st'.rkids st'.seenNames decls ∧ st'.seenNames.Nodup := by
  induction abs with
  | nil => intro st st' h hn hr; simp only [addAttributes, Step.ok.injEq] at hr; subst hr; exact ⟨h, hn⟩
  | cons ab rest ih =>
    intro st st' h hn hr
    simp only [addAttributes] at hr
    split at hr
    · cases hr
    · cases hr
    · rename_i env1 nameId _
      split at hr
      · cases hr
      · rename_i hnew
        split at hr
        · cases hr
        · refine ih _ st' ?_ ?_ hr
          · obtain ⟨attrs, he, ha, hnames⟩ := h
            refine ⟨.node (.attribute nameId (xmlIdValue nameId ab.value)) [] :: attrs, by simp [he], fun k hk => ?_, ?_⟩
            · simp only [List.mem_cons] at hk
              rcases hk with rfl | hk
              · exact ⟨_, _, rfl⟩
              · exact ha k hk
            · simp [attrNames, List.filterMap_cons, Tree.value] at hnames ⊢
              exact hnames
          · simp only
            rw [List.nodup_append]
            refine ⟨hn, by simp, ?_⟩
            intro a ha b hb
            simp only [List.mem_singleton] at hb
            subst hb
            intro hab; subst hab
            exact hnew (by simpa using ha)

theorem frameOk_of_attrKids {name : Nat} {rk : List Tree} {names : List Nat} {decls : List (Nat × Nat)}
    (h : AttrKids rk names decls) (hn : names.Nodup) (hd : (decls.map (fun d => d.1)).Nodup) :
    FrameOk ⟨.element name, rk⟩ := by
  obtain ⟨attrs, rfl, ha, hnames⟩ := h
  obtain ⟨hns, hns1, hns2⟩ := namespaceKids_spec decls
  have hattr_ns : nsPrefixes attrs = [] := by
    clear hnames
    induction attrs with
    | nil => rfl
    | cons x xs ih =>
      obtain ⟨n, v, rfl⟩ := ha x (by simp)
      simp only [nsPrefixes, List.filterMap_cons, Tree.value]
      exact ih (fun k hk => ha k (by simp [hk]))
  have hph : ∀ k ∈ attrs ++ namespaceKids decls, k.value.phase ≤ 1 ∧ k.value.isDocument = false ∧ k.value.isText = false ∧ k.Forall SoundAt := by
    intro k hk
    simp only [List.mem_append] at hk
    rcases hk with hk | hk
    · obtain ⟨n, v, rfl⟩ := ha k hk; exact ⟨by simp [Tree.value, Value.phase], rfl, rfl, forall_leaf _⟩
    · obtain ⟨p, n, rfl⟩ := hns k hk; exact ⟨by simp [Tree.value, Value.phase], rfl, rfl, forall_leaf _⟩
  refine ⟨?_, ⟨fun hv => by simp [Value.isLeafKind] at hv, fun hv => by simp [Value.isElement] at hv, fun k hk => (hph k hk).2.1⟩, ?_, ?_, fun k hk => (hph k hk).2.2.2⟩
  · rw [List.pairwise_append]
    refine ⟨?_, ?_, ?_⟩
    · refine List.Pairwise.imp_of_mem (R := fun _ _ => True) ?_ (List.pairwise_of_forall (fun _ _ => trivial))
      intro a b ha' hb' _
      obtain ⟨n, v, rfl⟩ := ha a ha'
      obtain ⟨n', v', rfl⟩ := ha b hb'
      simp [Tree.value, Value.phase]
    · refine List.Pairwise.imp_of_mem (R := fun _ _ => True) ?_ (List.pairwise_of_forall (fun _ _ => trivial))
      intro a b ha' hb' _
      obtain ⟨n, v, rfl⟩ := hns a ha'
      obtain ⟨n', v', rfl⟩ := hns b hb'
      simp [Tree.value, Value.phase]
    · intro a ha' b hb'
      obtain ⟨n, v, rfl⟩ := ha a ha'
      obtain ⟨n', v', rfl⟩ := hns b hb'
      simp [Tree.value, Value.phase]
  · -- no text at all
    have : ∀ l : List Tree, (∀ k ∈ l, k.value.isText = false) → noAdjText l = true := by
      intro l
      induction l with
      | nil => intro _; rfl
      | cons x xs ih =>
        intro hx
        cases xs with
        | nil => rfl
        | cons y ys =>
          simp only [noAdjText, hx x (by simp), Bool.false_and, Bool.not_false, Bool.true_and]
          exact ih (fun k hk => hx k (by simp [hk]))
    exact this _ (fun k hk => (hph k hk).2.2.1)
  · unfold UniqueKids
    rw [attrNames_append, nsPrefixes_append, hnames, hns1, hns2, hattr_ns]
    simp only [List.append_nil, List.nil_append, nodup_reverse']
    exact ⟨hn, hd⟩

theorem openElement_ok {b b' : Builder} (h : BuilderOk b) (hr : b.openElement = .ok b') : BuilderOk b' := by
  obtain ⟨hc, hp, hs, he⟩ := h
  unfold Builder.openElement at hr
  split at hr
  · cases hr
  · rename_i eb heb
    dsimp only at hr
    split at hr
    · cases hr
    · cases hr
    · rename_i env1 nameId _
      split at hr
      · cases hr
      · cases hr
      · rename_i st hst
        simp only [Step.ok.injEq] at hr
        subst hr
        obtain ⟨hk, hn⟩ := addAttributes_attrKids _ _ eb.namespaces _ _ st
          (attrKids_namespaceKids eb.namespaces) List.nodup_nil hst
        refine ⟨frameOk_of_attrKids hk hn (he eb heb), ?_, ⟨rfl, hs⟩, fun e h => by simp at h⟩
        intro p hp'
        simp only [List.mem_cons] at hp'
        rcases hp' with rfl | hp'
        · exact hc
        · exact hp p hp'

/-! ### Closing an element -/

theorem toParent_ok {b b' : Builder} (h : BuilderOk b) (hr : b.toParent = .ok b') : BuilderOk b' := by
  obtain ⟨hc, hp, hs, he⟩ := h
  unfold Builder.toParent at hr
  split at hr
  · cases hr
  · rename_i p rest hpar
    simp only [Step.ok.injEq] at hr
    subst hr
    rw [hpar] at hs hp
    have hcur : b.cur.value.isElement = true := by
      simp only [ShapeOk] at hs; exact hs.1
    have hshape : ShapeOk (p :: rest) := by simp only [ShapeOk] at hs; exact hs.2
    refine ⟨?_, fun q hq => hp q (by simp [hq]), shape_congr (c := p) rfl hshape, he⟩
    have hcv : b.cur.close.value = b.cur.value := rfl
    refine FrameOk.cons_normal (k := b.cur.close) (hp p (by simp)) hshape.head_not_leaf ?_ ?_ ?_ (Frame.close_sound hc)
    · rw [hcv]; cases hv : b.cur.value <;> simp_all [Value.isElement, Value.phase]
    · rw [hcv]; cases hv : b.cur.value <;> simp_all [Value.isElement, Value.isDocument]
    · rw [hcv]; intro ht; cases hv : b.cur.value <;> simp_all [Value.isElement, Value.isText]

theorem leave_ok {b b' : Builder} (node : Path) (sp : StrSpan) (h : BuilderOk b)
    (hr : b.leave node sp = .ok b') : BuilderOk b' := by
  unfold Builder.leave at hr
  cases hb : b.toParent with
  | ok b2 =>
    rw [hb] at hr
    simp only [Step.ok.injEq] at hr
    subst hr
    exact builderOk_congr (toParent_ok h hb) rfl rfl rfl
  | err e env => rw [hb] at hr; cases hr
  | panic => rw [hb] at hr; cases hr

theorem closeImmediate_ok {b b' : Builder} (sp : StrSpan) (h : BuilderOk b)
    (hr : b.closeImmediate sp = .ok b') : BuilderOk b' := by
  unfold Builder.closeImmediate at hr
  refine leave_ok _ _ ?_ hr
  split
  · exact builderOk_congr h rfl rfl rfl
  · exact h

theorem closeElement_ok {b b' : Builder} (pfx loc sp : StrSpan) (h : BuilderOk b)
    (hr : b.closeElement pfx loc sp = .ok b') : BuilderOk b' := by
  unfold Builder.closeElement at hr
  split at hr
  · cases hr
  · cases hr
  · split at hr
    · cases hr
    · split at hr
      · split at hr
        · cases hr
        · refine leave_ok _ _ ?_ hr
          exact builderOk_congr h rfl rfl rfl
      · refine leave_ok _ _ ?_ hr
        exact builderOk_congr h rfl rfl rfl

/-! ### The token loop -/

theorem prefix_ok {b b' : Builder} (p : Str) (u : StrSpan) (sp : Span) (h : BuilderOk b)
    (hr : b.prefix p u sp = .ok b') : BuilderOk b' := by
  unfold Builder.prefix at hr
  split at hr
  · cases hr
  · split at hr
    · cases hr
    dsimp only at hr
    split at hr
    · cases hr
    · rename_i eb heb
      split at hr
      · cases hr
      · rename_i hnew
        simp only [Step.ok.injEq] at hr
        subst hr
        refine builderOk_setEb h rfl rfl ?_
        intro e he
        simp only [Option.some.injEq] at he
        subst he
        simp only [List.map_append, List.map_cons, List.map_nil]
        rw [List.nodup_append]
        refine ⟨h.2.2.2 eb heb, by simp, ?_⟩
        intro a ha c hc
        simp only [List.mem_singleton] at hc
        subst hc
        intro hac
        apply hnew
        simp only [List.mem_map] at ha
        obtain ⟨d, hd, hda⟩ := ha
        rw [List.any_eq_true]
        exact ⟨d, hd, by simp [hda, hac]⟩

theorem step_ok {b b' : Builder} (t : Token) (h : BuilderOk b) (hr : b.step t = .ok b') : BuilderOk b' := by
  replace hr := Builder.step_ok_core hr
  cases t with
  | «attribute» pfx loc value sp =>
    simp only [Builder.stepCore] at hr
    split at hr
    · exact prefix_ok _ _ _ h hr
    · split at hr
      · exact prefix_ok _ _ _ h hr
      · unfold Builder.attribute at hr
        split at hr
        · cases hr
        · rename_i eb heb
          split at hr
          · cases hr
          · split at hr
            · cases hr
            · simp only [Step.ok.injEq] at hr; subst hr
              refine builderOk_setEb h rfl rfl ?_
              intro e he
              simp only [Option.some.injEq] at he
              subst he
              exact h.2.2.2 eb heb
  | text t =>
    simp only [Builder.stepCore, Builder.text] at hr
    split at hr
    · cases hr
    · simp only [Step.ok.injEq] at hr; subst hr
      refine builderOk_congr (addText_ok _ h) rfl rfl ?_
      unfold Builder.addText; split <;> rfl
  | cdata t sp =>
    simp only [Builder.stepCore, Builder.cdata] at hr
    split at hr
    · simp only [Step.ok.injEq] at hr; subst hr; exact h
    · simp only [Step.ok.injEq] at hr; subst hr
      refine builderOk_congr (addText_ok _ h) rfl rfl ?_
      unfold Builder.addText; split <;> rfl
  | elementStart pfx loc sp =>
    simp only [Builder.stepCore, Builder.element, Step.ok.injEq] at hr
    subst hr
    refine builderOk_setEb h rfl rfl ?_
    intro e he
    simp only [Option.some.injEq] at he
    subst he
    simp [ElementBuilder.new]
  | elementEnd e sp =>
    cases e with
    | «open» => exact openElement_ok h hr
    | close pfx loc => exact closeElement_ok pfx loc sp h hr
    | empty =>
      simp only [Builder.stepCore] at hr
      cases hb : b.openElement with
      | ok b1 => rw [hb] at hr; exact closeImmediate_ok sp (openElement_ok h hb) hr
      | err e env => rw [hb] at hr; cases hr
      | panic => rw [hb] at hr; cases hr
  | comment t sp =>
    simp only [Builder.stepCore, Builder.comment, Step.ok.injEq] at hr
    subst hr
    exact builderOk_congr (addLeaf_ok (.comment (normalizeLineEnds t.text)) h rfl rfl rfl) rfl rfl rfl
  | pi target content sp =>
    simp only [Builder.stepCore] at hr
    split at hr
    · cases hr
    simp only [Builder.processingInstruction, Step.ok.injEq] at hr
    subst hr
    refine builderOk_congr (addLeaf_ok (b := { b with env := (b.env.internName target.text Env.noNamespace).1 })
      (.pi (b.env.internName target.text Env.noNamespace).2 (content.map fun c => normalizeLineEnds c.text))
      (builderOk_congr h rfl rfl rfl) rfl rfl rfl) rfl rfl rfl
  | declaration v e s sp =>
    simp only [Builder.stepCore] at hr
    split at hr
    · cases hr
    · simp only [Step.ok.injEq] at hr; subst hr; exact h
  | dtdStart sp => simp [Builder.stepCore] at hr
  | dtdEnd sp => simp [Builder.stepCore] at hr
  | emptyDtd sp => simp [Builder.stepCore] at hr
  | entityDecl sp => simp [Builder.stepCore] at hr

theorem run_ok (ts : List Token) (lexErr : Option Nat) :
    ∀ {b b' : Builder}, BuilderOk b → b.run ts lexErr = .ok b' → BuilderOk b' := by
  induction ts with
  | nil =>
    intro b b' h hr
    cases lexErr with
    | none =>
      simp only [Builder.run] at hr
      split at hr
      · cases hr
      · simp only [Step.ok.injEq] at hr; subst hr; exact h
    | some p => simp [Builder.run] at hr
  | cons t ts ih =>
    intro b b' h hr
    simp only [Builder.run] at hr
    cases hb : b.step t with
    | ok b1 => rw [hb] at hr; exact ih (step_ok t h hb) hr
    | err e env => rw [hb] at hr; cases hr
    | panic => rw [hb] at hr; cases hr

/-! ### The finished tree -/

theorem zipInto_sound : ∀ (parents : List Frame) (t : Tree), t.Forall SoundAt →
    (∀ p ∈ parents, FrameOk p) →
    (parents = [] → t.value = .document) →
    (parents ≠ [] → t.value.isElement = true ∧ ShapeOk parents) →
    (zipInto t parents).Forall SoundAt ∧ (zipInto t parents).value = .document := by
  intro parents
  induction parents with
  | nil => intro t ht _ hd _; exact ⟨ht, hd rfl⟩
  | cons p rest ih =>
    intro t ht hp _ hs
    obtain ⟨hel, hshape⟩ := hs (by simp)
    simp only [zipInto]
    have hfo : FrameOk { p with rkids := t :: p.rkids } := by
      refine FrameOk.cons_normal (hp p (by simp)) hshape.head_not_leaf ?_ ?_ ?_ ht
      · cases hv : t.value <;> simp_all [Value.isElement, Value.phase]
      · cases hv : t.value <;> simp_all [Value.isElement, Value.isDocument]
      · intro h; cases hv : t.value <;> simp_all [Value.isElement, Value.isText]
    have hclose := Frame.close_sound hfo
    refine ih _ hclose (fun q hq => hp q (by simp [hq])) ?_ ?_
    · intro hr; subst hr; simpa [ShapeOk, Frame.close, Tree.value] using hshape
    · intro hne
      cases rest with
      | nil => exact absurd rfl hne
      | cons g gs =>
        simp only [ShapeOk] at hshape
        exact ⟨by simpa [Frame.close, Tree.value] using hshape.1, hshape.2⟩

theorem root_sound {b : Builder} (h : BuilderOk b) :
    b.root.Forall SoundAt ∧ b.root.value = .document := by
  obtain ⟨hc, hp, hs, _⟩ := h
  unfold Builder.root
  refine zipInto_sound b.parents b.cur.close (Frame.close_sound hc) hp ?_ ?_
  · intro hnil; rw [hnil] at hs; simpa [ShapeOk, Frame.close, Tree.value] using hs
  · intro hne
    cases hpar : b.parents with
    | nil => exact absurd hpar hne
    | cons g gs =>
      rw [hpar] at hs
      simp only [ShapeOk] at hs
      exact ⟨by simpa [Frame.close, Tree.value] using hs.1, hs.2⟩

/-- Whatever `build` accepts is a document-rooted tree that is sound at every node. -/
theorem build_sound {m : Mode} {len : Nat} {env : Env} {ts : List Token} {lexErr : Option Nat} {p : Parsed}
    (h : build m len env ts lexErr = .ok p) : p.tree.Forall SoundAt ∧ p.tree.value = .document := by
  unfold build at h
  split at h
  · cases h
  · cases h
  · rename_i b hb
    have hok := run_ok ts lexErr (builderOk_new env) hb
    have hroot := root_sound hok
    cases m with
    | document =>
      simp only [Builder.finishDocument] at h
      split at h
      · split at h
        · cases h
        · cases h
        · split at h
          · cases h
          · simp only [BuildResult.ok.injEq] at h; subst h; exact hroot
          · split at h <;> cases h
      · unfold Builder.unclosed at h; split at h <;> cases h
    | fragment =>
      simp only [Builder.finishFragment] at h
      split at h
      · simp only [BuildResult.ok.injEq] at h; subst h; exact hroot
      · unfold Builder.unclosed at h; split at h <;> cases h

end XotModel
