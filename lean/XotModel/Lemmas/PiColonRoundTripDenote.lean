/-
  GENERATED COPY (wt-c17str) of the declarations of XotModel.Lemmas.RoundTripDenote that depend on `valueOK`, restated in the
  namespace `XotModel.PiColon`, where `valueOK` asks of a PI target what the tokenizer's `consume_name` accepts
  (`nameOK`: colons allowed) instead of an NCName (Lemmas/PiColonDefs.lean).  Proof texts unchanged except where noted.
-/
import XotModel.Lemmas.RoundTripDenote
import XotModel.Lemmas.PiColonRoundTripItems

namespace XotModel.PiColon

variable {env : Env}

/-- The spelled content of an element the serialiser writes `<a/>`. -/
theorem spellKids_empty {name : Nat} {ks : List Tree}
    (hn : (Tree.node (.element name) ks).allNodes (nodeOK env) = true)
    (hfc : (Tree.node (.element name) ks).firstChild?.isNone = true) (inScope : List (Nat × Nat))
    (s : FStack) : spellNode.spellKids env inScope s ks = [] := by
  have hab := firstChild_none_abnormal hfc
  apply spellKids_abnormal
  intro k hk
  refine ⟨hab k hk, ?_⟩
  cases k with
  | node v' ks' => exact allNodes_leaf env (allNodes_kid hn hk) (abnormal_leafKind (hab _ hk))

mutual
/-- Lemma B, one node (any node but a document node). -/
theorem spellNode_denote (he : EnvFacts env) (inScope : List (Nat × Nat)) (n : Tree) (s : FStack)
    (fs : Frames) (sc : Scope) (hrel : ScopeRel env s fs sc) (hn : n.allNodes (nodeOK env) = true)
    (hdoc : n.value.isDocument = false) (ts : List Token)
    (h : serNode env false inScope false s n = .ok ts) :
    ∃ item, decodeNsTree env n = some item ∧
      [item].filterMap NItem.decl? = (kidDecls [n]).map (declStr env) ∧
      [item].filterMap NItem.attr? = (kidAttrs [n]).map (attrStr env) ∧
      NSNode.denote.denoteList sc (spellNode env inScope false s n) = [item].filterMap NItem.node? := by
  cases n with
  | node v ks =>
    have hval := allNodes_value env hn
    cases v with
    | document => simp [Tree.value, Value.isDocument] at hdoc
    | «attribute» a b =>
      have hl := allNodes_leaf env hn rfl
      subst hl
      exact ⟨.attr (env.expanded a, b), rfl, rfl, rfl, rfl⟩
    | «namespace» a b =>
      have hl := allNodes_leaf env hn rfl
      subst hl
      exact ⟨.decl (env.prefixStr a, env.namespaceStr b), rfl, rfl, rfl, rfl⟩
    | text str =>
      have hl := allNodes_leaf env hn rfl
      subst hl
      refine ⟨.node (.text str), rfl, rfl, rfl, ?_⟩
      simp only [Tree.value, valueOK, Bool.and_eq_true, Bool.not_eq_true', List.isEmpty_eq_false_iff] at hval
      simp only [spellNode, spellNode.spellKids, denoteList_cons, NSNode.denote, partsValue_text, hval.1,
        if_false, NSNode.denote.denoteList]
      rfl
    | comment str =>
      have hl := allNodes_leaf env hn rfl
      subst hl
      refine ⟨.node (.comment str), rfl, rfl, rfl, ?_⟩
      -- no CR in the comment text (`valueOK`): the parser's line-end normalisation is the identity
      have hcr : str.contains '\r' = false := by
        simp only [Tree.value, valueOK, Bool.and_eq_true, Bool.not_eq_true'] at hval
        exact hval.2
      simp only [spellNode, spellNode.spellKids, denoteList_cons, NSNode.denote, sp0,
        NSNode.denote.denoteList, normalizeLineEnds_noCr' str hcr]
      rfl
    | pi target data =>
      have hl := allNodes_leaf env hn rfl
      subst hl
      refine ⟨.node (.pi (env.localName target) data), rfl, rfl, rfl, ?_⟩
      have hdata : (data.map sp0).map (fun c => normalizeLineEnds c.text) = data := by
        cases data with
        | none => rfl
        | some d =>
          simp only [Tree.value, valueOK, Bool.and_eq_true, Bool.not_eq_true'] at hval
          simp only [Option.map_some, sp0, normalizeLineEnds_noCr' d hval.2.2]
      simp only [spellNode, spellNode.spellKids, denoteList_cons, NSNode.denote, hdata,
        NSNode.denote.denoteList]
      rfl
    | element name =>
      obtain ⟨p, ats, content, hcheck, hp, ha, hk, _⟩ := serNode_element_ok env h
      have hnode : nodeOK env (.element name) ks = true := by
        rw [allNodes_node, Bool.and_eq_true] at hn; exact hn.1
      obtain ⟨hord, hkinds, _, _, _⟩ := (nodeOK_iff env _ ks).mp hnode
      have hdecls := declsOK_of_nodeOK hn
      have hrel' := hrel.push he hdecls
      obtain ⟨items, hitems, hid, hia, hin⟩ := spellKids_denote he inScope ks _ _ _ hrel'
        (fun k hk' => allNodes_kid hn hk') hkinds.2.2 content hk
      have hfacts := spellItems_facts he hrel' inScope (Tree.node (.element name) ks) hdecls
        (fun a ha' => attrs_valueOK env hn ha') (attrTokens_prefixes _ ats ha)
      obtain ⟨hdo, hao, _⟩ := hfacts
      have hres := (hrel'.element he hp hcheck).1
      refine ⟨.node (.elem (env.expanded name).1 (env.expanded name).2 (items.filterMap NItem.decl?)
        (items.filterMap NItem.attr?) (items.filterMap NItem.node?)), ?_, rfl, rfl, ?_⟩
      · simp only [decodeNsTree, hitems]
      · rw [← nsDecls_eq_kidDecls (.element name) ks hord] at hid
        rw [← attrs_eq_kidAttrs (.element name) ks hord] at hia
        simp only [spellNode, hp, okPrefix]
        by_cases hfc : (Tree.node (.element name) ks).firstChild?.isNone = true
        · have hempty := spellKids_empty hn hfc inScope
            (s.push (Tree.node (.element name) ks).nsDecls)
          rw [hempty] at hin
          simp only [hfc, if_true, hempty, denoteList_cons, NSNode.denote, NSNode.denote.denoteList,
            List.append_nil, hdo, hao, sp0, Scope.resolve, hres, Option.getD_some,
            List.filterMap_cons, List.filterMap_nil, NItem.node?, Env.expanded]
          rw [hid, hia, ← hin]
          rfl
        · simp only [hfc, Bool.false_eq_true, if_false, denoteList_cons, NSNode.denote,
            NSNode.denote.denoteList, List.append_nil, hdo, hao, sp0, Scope.resolve, hres, Option.getD_some,
            hin, List.filterMap_cons, List.filterMap_nil, NItem.node?, Env.expanded]
          rw [hid, hia]

/-- Lemma B, a child list. -/
theorem spellKids_denote (he : EnvFacts env) (inScope : List (Nat × Nat)) (ks : List Tree) (s : FStack)
    (fs : Frames) (sc : Scope) (hrel : ScopeRel env s fs sc) (hn : ∀ k ∈ ks, k.allNodes (nodeOK env) = true)
    (hdoc : ∀ k ∈ ks, k.value.isDocument = false) (ts : List Token)
    (h : serNode.serKids env false inScope s ks = .ok ts) :
    ∃ items, decodeNsTree.decodeItems env ks = some items ∧
      items.filterMap NItem.decl? = (kidDecls ks).map (declStr env) ∧
      items.filterMap NItem.attr? = (kidAttrs ks).map (attrStr env) ∧
      NSNode.denote.denoteList sc (spellNode.spellKids env inScope s ks) = items.filterMap NItem.node? := by
  cases ks with
  | nil => exact ⟨[], rfl, rfl, rfl, rfl⟩
  | cons k ks =>
    obtain ⟨x, y, hx, hy, _⟩ := serKids_cons_ok env h
    obtain ⟨item, h1, h2, h3, h4⟩ := spellNode_denote he inScope k s fs sc hrel (hn k (by simp))
      (hdoc k (by simp)) x hx
    obtain ⟨items, k1, k2, k3, k4⟩ := spellKids_denote he inScope ks s fs sc hrel
      (fun k' hk' => hn k' (by simp [hk'])) (fun k' hk' => hdoc k' (by simp [hk'])) y hy
    refine ⟨item :: items, decodeItems_cons env k ks item items h1 k1, ?_, ?_, ?_⟩
    · have : kidDecls (k :: ks) = kidDecls [k] ++ kidDecls ks := by simp [kidDecls, List.filterMap_cons]; split <;> rfl
      rw [this, List.map_append, ← h2, ← k2]
      simp [List.filterMap_cons]; split <;> rfl
    · have : kidAttrs (k :: ks) = kidAttrs [k] ++ kidAttrs ks := by simp [kidAttrs, List.filterMap_cons]; split <;> rfl
      rw [this, List.map_append, ← h3, ← k3]
      simp [List.filterMap_cons]; split <;> rfl
    · rw [spellNode.spellKids, denoteList_append, h4, k4]
      simp [List.filterMap_cons]; split <;> rfl
end

end XotModel.PiColon
