/-
  XotModel.Lemmas.AcceptedLex — the lexical classes of the token texts of the reference tokenizer
  (Model/Lex*.lean: xmlparser 0.13.6), for EVERY input, well formed or not:

      ∀ t ∈ (lexMode m s).1, t.accLex = true

  `Token.accLex` is what the tokenizer really checks (and nothing more):
    * element / attribute / end-tag names: prefix and local part NCNames (`consume_qname`), the local
      part not empty;
    * attribute values, text, CDATA, comment and PI content: XML `Char`s only (`skip_chars`);
      text is not empty; comments have no `--` and do not end in `-`; PI content is not empty, does
      not start with white space and has no `?>`;
    * PI targets: `consume_name` — a NAME, colons allowed, and NO test that the target is not
      `xml` in some letter case (only the literal `<?xml ` is refused).
  Proved over the step analysis of Lemmas/LexSliceStep.lean (`TokStep`).
-/
import XotModel.Lemmas.LexSlice

namespace XotModel

/-- What the tokenizer guarantees of the texts of one token. -/
def Token.accLex : Token → Bool
  | .elementStart p l _ => qnameOK p.text l.text
  | .attribute p l v _ => qnameOK p.text l.text && v.text.all isXmlChar
  | .elementEnd (.close p l) _ => qnameOK p.text l.text
  | .elementEnd _ _ => true
  | .text t => !t.text.isEmpty && t.text.all isXmlChar
  | .cdata t _ => t.text.all isXmlChar
  | .comment t _ => t.text.all isXmlChar && !hasInfix ['-', '-'] t.text && t.text.getLast? != some '-'
  | .pi t none _ => nameOK t.text
  | .pi t (some c) _ =>
      nameOK t.text && !c.text.isEmpty && !(c.text.head?.any isXmlSpace) && c.text.all isXmlChar &&
        !hasInfix ['?', '>'] c.text
  | _ => true

namespace Lex.Acc

open XotModel.Lex XotModel.Lex.Stream XotModel.Lex.Slice

/-! ### Slices as `take` / `drop` -/

theorem sliceBack_adv_text (s : Lex.Stream) (k : Nat) : (sliceBack s (s.adv k)).text = s.rest.take k := by
  simp only [sliceBack, adv, List.length_drop]
  by_cases h : k ≤ s.rest.length
  · congr 1; omega
  · have h1 : s.rest.length - (s.rest.length - k) = s.rest.length := by omega
    rw [h1, List.take_of_length_le (Nat.le_refl _), List.take_of_length_le (by omega)]

theorem sliceBack_adv_adv_text (s : Lex.Stream) (m k : Nat) (hmk : m ≤ k) :
    (sliceBack (s.adv m) (s.adv k)).text = (s.rest.drop m).take (k - m) := by
  have := sliceBack_adv_text (s.adv m) (k - m)
  rw [adv_adv] at this
  have e : m + (k - m) = k := by omega
  rw [e] at this
  rw [this]; rfl

/-! ### `skip_chars` -/

theorem scanChars_spec {f : Str → Char → Bool} : ∀ (r : Str) (k : Nat), scanChars f r = some k →
    k ≤ r.length ∧ (r.take k).all isXmlChar = true ∧
      ∀ a c b, r = a ++ c :: b → a.length < k → f (c :: b) c = true
  | [], k, h => by
    simp only [scanChars, Option.some.injEq] at h
    subst h
    exact ⟨Nat.le_refl _, rfl, fun a c b _ hl => absurd hl (by omega)⟩
  | c :: cs, k, h => by
    simp only [scanChars] at h
    split at h
    · simp at h
    · next hx =>
      have hx' : isXmlChar c = true := by simpa using hx
      split at h
      · next hf =>
        simp only [Option.map_eq_some_iff] at h
        obtain ⟨j, hj, rfl⟩ := h
        obtain ⟨h1, h2, h3⟩ := scanChars_spec cs j hj
        refine ⟨by simp only [List.length_cons]; omega, by simp [List.take_succ_cons, hx', h2], ?_⟩
        intro a c' b hr hl
        cases a with
        | nil =>
          simp only [List.nil_append, List.cons.injEq] at hr
          obtain ⟨rfl, rfl⟩ := hr
          exact hf
        | cons a0 a =>
          simp only [List.cons_append, List.cons.injEq] at hr
          exact h3 a c' b hr.2 (by simp only [List.length_cons] at hl; omega)
      · simp only [Option.some.injEq] at h
        subst h
        exact ⟨Nat.zero_le _, rfl, fun a c' b _ hl => absurd hl (by omega)⟩

/-- What `skip_chars(f)` consumed. -/
theorem skipChars_text {f : Str → Char → Bool} {s s' : Lex.Stream} (h : s.skipChars f = some s') :
    ∃ k, s' = s.adv k ∧ k ≤ s.rest.length ∧ ((sliceBack s s').text = s.rest.take k) ∧
      (s.rest.take k).all isXmlChar = true ∧
      ∀ a c b, s.rest = a ++ c :: b → a.length < k → f (c :: b) c = true := by
  simp only [skipChars, Option.map_eq_some_iff] at h
  obtain ⟨k, hk, rfl⟩ := h
  obtain ⟨h1, h2, h3⟩ := scanChars_spec s.rest k hk
  exact ⟨k, rfl, h1, sliceBack_adv_text s k, h2, h3⟩

/-- No occurrence of a two-character pattern `x y` inside what `skip_chars` consumed when the
    predicate stops at an `x` followed by `y`. -/
theorem no_infix_of_scan {x y : Char} {r : Str} {k : Nat}
    (h3 : ∀ a c b, r = a ++ c :: b → a.length < k → (!(c == x && [x, y].isPrefixOf (c :: b))) = true) :
    hasInfix [x, y] (r.take k) = false := by
  induction r generalizing k with
  | nil => simp [hasInfix]
  | cons c cs ih =>
    cases k with
    | zero => simp [hasInfix]
    | succ k =>
      simp only [List.take_succ_cons, hasInfix, Bool.or_eq_false_iff]
      refine ⟨?_, ih (fun a c' b hr hl => h3 (c :: a) c' b (by rw [hr]; rfl) (by simp only [List.length_cons]; omega))⟩
      have h0 := h3 [] c cs rfl (by simp)
      cases hcs : cs.take k with
      | nil => simp [List.isPrefixOf]
      | cons d ds =>
        have hd : ∃ cs', cs = d :: cs' := by
          cases cs with
          | nil => simp at hcs
          | cons d' cs' =>
            cases k with
            | zero => simp at hcs
            | succ k => simp only [List.take_succ_cons, List.cons.injEq] at hcs; exact ⟨cs', by rw [hcs.1]⟩
        obtain ⟨cs', rfl⟩ := hd
        simp only [List.isPrefixOf, Bool.and_true] at h0 ⊢
        by_cases hc : c = x
        · subst hc
          simp only [beq_self_eq_true, Bool.true_and, Bool.not_eq_true'] at h0
          simp [h0]
        · have : (x == c) = false := by simpa using fun h => hc h.symm
          simp [this]

/-! ### `consume_name`, `consume_qname` -/

theorem consumeName_nameOK {s s' : Lex.Stream} {n : StrSpan} (h : s.consumeName = some (n, s')) :
    nameOK n.text = true := by
  unfold consumeName at h
  split at h
  · simp at h
  · next s1 h1 =>
    dsimp only at h
    split at h
    · simp at h
    · next hne =>
      simp only [Option.some.injEq, Prod.mk.injEq] at h
      obtain ⟨rfl, rfl⟩ := h
      unfold skipName at h1
      split at h1
      · next hr =>
        simp only [Option.some.injEq] at h1
        subst h1
        simp [sliceBack, hr] at hne
      · next c cs hr =>
        split at h1
        · next hc =>
          simp only [Option.some.injEq] at h1
          subst h1
          rw [sliceBack_adv_text, hr]
          have : 1 + (List.takeWhile isNameChar cs).length = (List.takeWhile isNameChar cs).length + 1 := by omega
          rw [this, List.take_succ_cons]
          simp only [nameOK, hc, Bool.true_and]
          rw [List.all_eq_true]
          intro x hx
          rw [← List.prefix_iff_eq_take.mp (List.takeWhile_prefix _)] at hx
          exact List.all_eq_true.mp List.all_takeWhile x hx
        · simp at h1

/-- A character of an NCName: a name character other than the colon. -/
def ncChar (c : Char) : Bool := isNameChar c && c != ':'

theorem qnameLoop_some (r : Str) : ∀ (j s0 k : Nat) (sp' : Option Nat),
    qnameLoop r j (some s0) = some (k, sp') →
      sp' = some s0 ∧ ∃ a b, r = a ++ b ∧ k = j + a.length ∧ a.all ncChar = true := by
  induction r with
  | nil =>
    intro j s0 k sp' h
    simp only [qnameLoop, Option.some.injEq, Prod.mk.injEq] at h
    exact ⟨h.2.symm, [], [], rfl, by simp [h.1], rfl⟩
  | cons c cs ih =>
    intro j s0 k sp' h
    simp only [qnameLoop] at h
    split at h
    · simp at h
    · next hc =>
      split at h
      · next hn =>
        obtain ⟨h1, a, b, rfl, rfl, ha⟩ := ih (j + 1) s0 k sp' h
        refine ⟨h1, c :: a, b, rfl, by simp only [List.length_cons]; omega, ?_⟩
        simp only [List.all_cons, ha, Bool.and_true, ncChar, hn, Bool.true_and]
        simpa using hc
      · simp only [Option.some.injEq, Prod.mk.injEq] at h
        exact ⟨h.2.symm, [], c :: cs, rfl, by simp [h.1], rfl⟩

theorem qnameLoop_none (r : Str) : ∀ (j k : Nat) (sp' : Option Nat),
    qnameLoop r j none = some (k, sp') →
      (sp' = none ∧ ∃ a b, r = a ++ b ∧ k = j + a.length ∧ a.all ncChar = true) ∨
      (∃ a b c, r = a ++ ':' :: (b ++ c) ∧ sp' = some (j + a.length) ∧ k = j + a.length + 1 + b.length ∧
        a.all ncChar = true ∧ b.all ncChar = true) := by
  induction r with
  | nil =>
    intro j k sp' h
    simp only [qnameLoop, Option.some.injEq, Prod.mk.injEq] at h
    exact .inl ⟨h.2.symm, [], [], rfl, by simp [h.1], rfl⟩
  | cons c cs ih =>
    intro j k sp' h
    simp only [qnameLoop] at h
    split at h
    · next hc =>
      have hc' : c = ':' := by simpa using hc
      subst hc'
      obtain ⟨h1, a, b, rfl, rfl, ha⟩ := qnameLoop_some cs (j + 1) j k sp' h
      exact .inr ⟨[], a, b, rfl, by simpa using h1, by simp, rfl, ha⟩
    · next hc =>
      split at h
      · next hn =>
        have hcc : ncChar c = true := by
          simp only [ncChar, hn, Bool.true_and]; simpa using hc
        rcases ih (j + 1) k sp' h with ⟨h1, a, b, rfl, rfl, ha⟩ | ⟨a, b, d, rfl, h1, rfl, ha, hb⟩
        · exact .inl ⟨h1, c :: a, b, rfl, by simp only [List.length_cons]; omega, by simp [hcc, ha]⟩
        · refine .inr ⟨c :: a, b, d, rfl, ?_, by simp only [List.length_cons]; omega, by simp [hcc, ha], hb⟩
          rw [h1]; simp only [List.length_cons]; congr 1; omega
      · simp only [Option.some.injEq, Prod.mk.injEq] at h
        exact .inl ⟨h.2.symm, [], c :: cs, rfl, by simp [h.1], rfl⟩

theorem ncNameOK_of {a : Str} (ha : a.all ncChar = true) (hs : startsName ⟨a, 0⟩ = true) : ncNameOK a = true := by
  unfold ncNameOK
  rw [Bool.and_eq_true]
  refine ⟨ha, ?_⟩
  cases a with
  | nil => rfl
  | cons c cs => simpa [startsName] using hs

theorem not_or_not {a b : Bool} (h : ¬ (a || !b) = true) : a = false ∧ b = true := by
  cases a <;> cases b <;> simp_all

theorem consumeQName_qnameOK {s s' : Lex.Stream} {p l : StrSpan} (h : s.consumeQName = some (p, l, s')) :
    qnameOK p.text l.text = true := by
  unfold consumeQName at h
  split at h
  · simp at h
  · next k sp hk =>
    rcases qnameLoop_none s.rest 0 k sp hk with ⟨rfl, a, b, hr, rfl, ha⟩ | ⟨a, b, c, hr, rfl, rfl, ha, hb⟩
    · dsimp only at h
      split at h
      · simp at h
      · split at h
        · simp at h
        · next hp hl =>
          simp only [Option.some.injEq, Prod.mk.injEq] at h
          obtain ⟨rfl, rfl, _⟩ := h
          have ht : (sliceBack s (s.adv (0 + a.length))).text = a := by
            rw [sliceBack_adv_text, hr]; simp
          replace hl := not_or_not hl
          simp only [qnameOK, emptySpan, Bool.and_eq_true]
          refine ⟨⟨rfl, ?_⟩, by simpa using hl.1⟩
          rw [ht]
          refine ncNameOK_of ha ?_
          have := hl.2
          rw [show startsName (sliceBack s (s.adv (0 + a.length))) = startsName ⟨a, 0⟩ from by
            unfold startsName; rw [ht]] at this
          exact this
    · dsimp only at h
      split at h
      · simp at h
      · split at h
        · simp at h
        · next hp hl =>
          simp only [Option.some.injEq, Prod.mk.injEq] at h
          obtain ⟨rfl, rfl, _⟩ := h
          have ht1 : (sliceBack s (s.adv (0 + a.length))).text = a := by
            rw [sliceBack_adv_text, hr]; simp
          have ht2 : (sliceBack (s.adv (0 + a.length + 1)) (s.adv (0 + a.length + 1 + b.length))).text = b := by
            rw [sliceBack_adv_adv_text _ _ _ (by omega), hr]
            have e1 : 0 + a.length + 1 = (a ++ [':']).length := by simp
            have e2 : a ++ ':' :: (b ++ c) = (a ++ [':']) ++ (b ++ c) := by simp
            rw [e2, e1, List.drop_left]
            have e3 : (a ++ [':']).length + b.length - (a ++ [':']).length = b.length := by omega
            rw [e3, List.take_left]
          replace hl := not_or_not hl
          have hp' : startsName (sliceBack s (s.adv (0 + a.length))) = true := by simpa using hp
          simp only [qnameOK, Bool.and_eq_true]
          refine ⟨⟨?_, ?_⟩, by simpa using hl.1⟩
          · rw [ht1]
            refine ncNameOK_of ha ?_
            rw [show startsName (sliceBack s (s.adv (0 + a.length))) = startsName ⟨a, 0⟩ from by
              unfold startsName; rw [ht1]] at hp'
            exact hp'
          · rw [ht2]
            refine ncNameOK_of hb ?_
            have := hl.2
            rw [show startsName (sliceBack (s.adv (0 + a.length + 1)) (s.adv (0 + a.length + 1 + b.length)))
              = startsName ⟨b, 0⟩ from by unfold startsName; rw [ht2]] at this
            exact this

end Lex.Acc
end XotModel
