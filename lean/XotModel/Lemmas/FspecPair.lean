/-
  FspecPair — list-level facts about the PAIR reading of the consolidation clause
  (`Model/FspecSpec3.lean`): `neighbours`, `mergeAdj`, `mergeNew` on a child list given by its
  pieces.
-/
import XotModel.Model.FspecSpec3
import XotModel.Lemmas.FspecNew

namespace XotModel
open HTree Spec

namespace Spec

theorem neighbours_mid {n : Nat} {k : HTree} (hk : k.handle = n) (r : List HTree) :
    ∀ (l : List HTree), (∀ x ∈ l, x.handle ≠ n) →
      neighbours n (l ++ k :: r) = (l.getLast?.map (·.handle), r.head?.map (·.handle))
  | [], _ => by
    cases r with
    | nil => rfl
    | cons y rest => simp [neighbours, hk]
  | [x], hl => by
    have hx : x.handle ≠ n := hl x (by simp)
    simp [neighbours, hx, hk]
  | x :: x' :: l, hl => by
    have hx : x.handle ≠ n := hl x (by simp)
    have hx' : x'.handle ≠ n := hl x' (by simp)
    have ih := neighbours_mid hk r (x' :: l) (fun y hy => hl y (List.mem_cons_of_mem _ hy))
    simp only [List.cons_append] at ih ⊢
    rw [neighbours]
    simp only [hx, hx', if_false]
    rw [ih]
    simp [List.getLast?_cons_cons]

theorem joinLeft_text {x y : HTree} {s u : Str} (hx : x.value = .text s) (hy : y.value = .text u) :
    joinLeft x y = some (x.setValue (.text (s ++ u))) := by
  simp [joinLeft, hx, hy]

theorem joinLeft_none {x y : HTree} (h : ¬ (x.value.isText = true ∧ y.value.isText = true)) :
    joinLeft x y = none := by
  unfold joinLeft
  split
  · rename_i s u e1 e2
    exact absurd ⟨by rw [e1]; rfl, by rw [e2]; rfl⟩ h
  · rfl

theorem joinRight_text {t z : HTree} {u w : Str} (ht : t.value = .text u) (hz : z.value = .text w) :
    joinRight t z = some (z.setValue (.text (u ++ w))) := by
  simp [joinRight, ht, hz]

theorem joinRight_none {t z : HTree} (h : ¬ (t.value.isText = true ∧ z.value.isText = true)) :
    joinRight t z = none := by
  unfold joinRight
  split
  · rename_i s u e1 e2
    exact absurd ⟨by rw [e1]; rfl, by rw [e2]; rfl⟩ h
  · rfl

theorem mergeAdj_nil (a b : Nat) : mergeAdj a b [] = [] := by simp [mergeAdj]
theorem mergeAdj_single (a b : Nat) (x : HTree) : mergeAdj a b [x] = [x] := by simp [mergeAdj]

theorem mergeAdj_cons_cons (a b : Nat) (x y : HTree) (rest : List HTree) :
    mergeAdj a b (x :: y :: rest) =
      if x.handle = a ∧ y.handle = b then
        ((joinLeft x y).map (fun j => j :: rest)).getD (x :: y :: rest)
      else x :: mergeAdj a b (y :: rest) := by
  rw [mergeAdj]

/-- No child has handle `a`: nothing to merge. -/
theorem mergeAdj_of_not_top {a b : Nat} : ∀ (L : List HTree), (∀ x ∈ L, x.handle ≠ a) → mergeAdj a b L = L
  | [], _ => mergeAdj_nil a b
  | [x], _ => mergeAdj_single a b x
  | x :: y :: rest, h => by
    rw [mergeAdj_cons_cons, if_neg (fun e => h x (by simp) e.1),
      mergeAdj_of_not_top (y :: rest) (fun z hz => h z (List.mem_cons_of_mem _ hz))]

/-- The pair `A B` in the middle of a list whose earlier children do not have `A`'s handle. -/
theorem mergeAdj_mid {A B : HTree} (r : List HTree) :
    ∀ (l : List HTree), (∀ x ∈ l, x.handle ≠ A.handle) →
      mergeAdj A.handle B.handle (l ++ A :: B :: r) =
        ((joinLeft A B).map (fun j => l ++ j :: r)).getD (l ++ A :: B :: r)
  | [], _ => by
    simp only [List.nil_append]
    rw [mergeAdj_cons_cons, if_pos ⟨rfl, rfl⟩]
  | x :: l, h => by
    have hx : x.handle ≠ A.handle := h x (by simp)
    have ih := mergeAdj_mid (A := A) (B := B) r l (fun y hy => h y (List.mem_cons_of_mem _ hy))
    cases l with
    | nil =>
      simp only [List.nil_append, List.cons_append] at ih ⊢
      rw [mergeAdj_cons_cons, if_neg (fun e => hx e.1), ih]
      cases joinLeft A B <;> rfl
    | cons x' l' =>
      simp only [List.cons_append] at ih ⊢
      rw [mergeAdj_cons_cons, if_neg (fun e => hx e.1), ih]
      cases joinLeft A B <;> rfl

theorem mergeAdj_mid_text {A B : HTree} {s u : Str} (hA : A.value = .text s) (hB : B.value = .text u)
    {l : List HTree} (r : List HTree) (hl : ∀ x ∈ l, x.handle ≠ A.handle) :
    mergeAdj A.handle B.handle (l ++ A :: B :: r) = l ++ A.setValue (.text (s ++ u)) :: r := by
  rw [mergeAdj_mid r l hl, joinLeft_text hA hB]
  rfl

theorem mergeAdj_mid_other {A B : HTree} (h : ¬ (A.value.isText = true ∧ B.value.isText = true))
    {l : List HTree} (r : List HTree) (hl : ∀ x ∈ l, x.handle ≠ A.handle) :
    mergeAdj A.handle B.handle (l ++ A :: B :: r) = l ++ A :: B :: r := by
  rw [mergeAdj_mid r l hl, joinLeft_none h]
  rfl

theorem mergeNewHead_text {t z : HTree} {u w : Str} (ht : t.value = .text u) (hz : z.value = .text w)
    (rest : List HTree) : mergeNewHead t (z :: rest) = z.setValue (.text (u ++ w)) :: rest := by
  simp [mergeNewHead, joinRight_text ht hz]

theorem mergeNewHead_other {t z : HTree} (h : ¬ (t.value.isText = true ∧ z.value.isText = true))
    (rest : List HTree) : mergeNewHead t (z :: rest) = t :: z :: rest := by
  simp [mergeNewHead, joinRight_none h]

theorem mergeNewHead_nil (t : HTree) : mergeNewHead t [] = [t] := rfl

theorem mergeNewHead_nontext {T : HTree} (hT : T.value.isText = false) (B : List HTree) :
    mergeNewHead T B = T :: B := by
  cases B with
  | nil => rfl
  | cons z rest => exact mergeNewHead_other (fun h => by rw [hT] at h; cases h.1) rest

theorem mergeNew_nil (n : Nat) : mergeNew n [] = [] := by simp [mergeNew]
theorem mergeNew_single (n : Nat) (x : HTree) : mergeNew n [x] = [x] := by simp [mergeNew]

theorem mergeNew_cons_cons (n : Nat) (x y : HTree) (rest : List HTree) :
    mergeNew n (x :: y :: rest) =
      if y.handle = n then
        ((joinLeft x y).map (fun j => j :: rest)).getD (x :: mergeNewHead y rest)
      else if x.handle = n then mergeNewHead x (y :: rest)
      else x :: mergeNew n (y :: rest) := by
  rw [mergeNew]

/-- The node right at the head. -/
theorem mergeNew_head {T : HTree} (B : List HTree) (hB : ∀ x ∈ B, x.handle ≠ T.handle) :
    mergeNew T.handle (T :: B) = mergeNewHead T B := by
  cases B with
  | nil => rw [mergeNew_single]; rfl
  | cons y rest =>
    rw [mergeNew_cons_cons, if_neg (hB y (by simp)), if_pos rfl]

/-- The node `T` after the children `A ++ [a]`, none of which has its handle. -/
theorem mergeNew_mid {T a : HTree} (B : List HTree) :
    ∀ (A : List HTree), (∀ x ∈ A, x.handle ≠ T.handle) → a.handle ≠ T.handle →
      mergeNew T.handle (A ++ a :: T :: B) =
        ((joinLeft a T).map (fun j => A ++ j :: B)).getD (A ++ a :: mergeNewHead T B)
  | [], _, ha => by
    simp only [List.nil_append]
    rw [mergeNew_cons_cons, if_pos rfl]
  | x :: A, h, ha => by
    have hx : x.handle ≠ T.handle := h x (by simp)
    have ih := mergeNew_mid (T := T) (a := a) B A (fun y hy => h y (List.mem_cons_of_mem _ hy)) ha
    cases A with
    | nil =>
      simp only [List.nil_append, List.cons_append] at ih ⊢
      rw [mergeNew_cons_cons, if_neg ha, if_neg hx, ih]
      cases joinLeft a T <;> rfl
    | cons x' A' =>
      have hx' : x'.handle ≠ T.handle := h x' (by simp)
      simp only [List.cons_append] at ih ⊢
      rw [mergeNew_cons_cons, if_neg hx', if_neg hx, ih]
      cases joinLeft a T <;> rfl

/-- Merged into the left neighbour. -/
theorem mergeNew_mid_left {T a : HTree} {s u : Str} (ha : a.value = .text s) (hT : T.value = .text u)
    (A B : List HTree) (hA : ∀ x ∈ A, x.handle ≠ T.handle) (hne : a.handle ≠ T.handle) :
    mergeNew T.handle (A ++ a :: T :: B) = A ++ a.setValue (.text (s ++ u)) :: B := by
  rw [mergeNew_mid B A hA hne, joinLeft_text ha hT]
  rfl

/-- The left neighbour is not text (or the node is not): only the right neighbour counts. -/
theorem mergeNew_mid_right {T a : HTree} (h : ¬ (a.value.isText = true ∧ T.value.isText = true))
    (A B : List HTree) (hA : ∀ x ∈ A, x.handle ≠ T.handle) (hne : a.handle ≠ T.handle) :
    mergeNew T.handle (A ++ a :: T :: B) = A ++ a :: mergeNewHead T B := by
  rw [mergeNew_mid B A hA hne, joinLeft_none h]
  rfl

/-- A node that is not text stays where it is. -/
theorem mergeNew_nontext {T : HTree} (hT : T.value.isText = false) (A B : List HTree)
    (hA : ∀ x ∈ A, x.handle ≠ T.handle) (hB : ∀ x ∈ B, x.handle ≠ T.handle) :
    mergeNew T.handle (A ++ T :: B) = A ++ T :: B := by
  have hh := mergeNewHead_nontext hT B
  rcases List.eq_nil_or_concat A with e | ⟨A', a, e⟩
  · subst e
    simp only [List.nil_append]
    rw [mergeNew_head B hB, hh]
  · rw [List.concat_eq_append] at e
    subst e
    have ha : a.handle ≠ T.handle := hA a (by simp)
    have : (A' ++ [a]) ++ T :: B = A' ++ a :: T :: B := by simp
    rw [this, mergeNew_mid_right (fun h => by rw [hT] at h; cases h.2) A' B (fun x hx => hA x (by simp [hx])) ha, hh]

end Spec

namespace Forest

theorem mergeLeftAt_none (f : Forest) (nb : Option Nat × Option Nat) : f.mergeLeftAt none nb = f := rfl

theorem mergeLeftAt_some (f : Forest) (p a b : Nat) :
    f.mergeLeftAt (some p) (some a, some b) =
      if f.consolidation then f.editAt (some p) (mergeAdj a b) else f := rfl

theorem mergeLeftAt_none_left (f : Forest) (p : Nat) (b : Option Nat) : f.mergeLeftAt (some p) (none, b) = f := rfl

theorem mergeLeftAt_none_right (f : Forest) (p : Nat) (a : Option Nat) : f.mergeLeftAt (some p) (a, none) = f := by
  cases a <;> rfl

theorem mergeLeftAt_off {f : Forest} (h : f.consolidation = false) (s : Option Nat) (nb : Option Nat × Option Nat) :
    f.mergeLeftAt s nb = f := by
  obtain ⟨a, b⟩ := nb
  cases s <;> cases a <;> cases b <;> simp [mergeLeftAt, h]

theorem mergeNewAt_off {f : Forest} (h : f.consolidation = false) (q n : Nat) : f.mergeNewAt q n = f := by
  simp [mergeNewAt, h]

theorem mergeNewAt_on {f : Forest} (h : f.consolidation = true) (q n : Nat) :
    f.mergeNewAt q n = f.editAt (some q) (mergeNew n) := by
  simp [mergeNewAt, h]

theorem mergeLeftAt_consolidation (f : Forest) (s : Option Nat) (nb : Option Nat × Option Nat) :
    (f.mergeLeftAt s nb).consolidation = f.consolidation := by
  obtain ⟨a, b⟩ := nb
  cases s <;> cases a <;> cases b <;> simp only [mergeLeftAt] <;> try rfl
  split <;> simp [Forest.editAt_consolidation]

end Forest

theorem Forest.nbOf_root {f : Forest} {n : Nat} (h : f.parent? n = none) : f.nbOf n = (none, none) := by
  unfold Forest.nbOf; rw [h]

theorem Forest.nbOf_kid {f : Forest} {n p : Nat} (h : f.parent? n = some p) :
    f.nbOf n = neighbours n (f.kidsOf p) := by
  unfold Forest.nbOf; rw [h]

/-- The neighbours of a child given by the pieces of its parent's child list. -/
theorem SiteAt.nbOf {f : Forest} {p : Nat} {v : Value} {l : List HTree} {k : HTree} {r : List HTree}
    (s : SiteAt f p v (l ++ k :: r)) :
    f.nbOf k.handle = (l.getLast?.map (·.handle), r.head?.map (·.handle)) := by
  rw [Forest.nbOf_kid (Forest.parent?_of_ctx s.ctx), Forest.kidsOf_of_get s.kids]
  obtain ⟨ndL, _⟩ := s.nodupKids
  exact neighbours_mid rfl r l (tops_ne_of_nodup ndL).1

/-- The specification of a move (pair reading), unfolded. -/
theorem specMoveP_unfold {dest : Dest} {c : Nat} {f : Forest} {t : HTree} {q : Nat}
    (hocc : dest.occupiedBy f c = false) (hg : f.get? c = some t) (hs : dest.site f = some q) :
    specMoveP dest c f =
      (((f.editAt (f.parent? c) (dropTop c)).editAt (some q) (dest.insert t)).mergeLeftAt (f.parent? c)
        (f.nbOf c)).mergeNewAt q c := by
  unfold specMoveP
  rw [hocc, hg, hs]
  simp

end XotModel
