/-
  Finv (C04), part 19: handles are never re-used.  `Forest.Le f f'` says that `f'` is later than
  `f`: `next` has not decreased and every handle of `f'` is a handle of `f` or is fresh
  (`≥ f.next`).  Every primitive and every operation of the model is `Le`, for all forests and all
  arguments (no invariant needed), hence `isRemoved` is monotone.
-/
import XotModel.Lemmas.FinvOps5

namespace XotModel
open HTree

/-! ### Containment of handles under the tree edits (no distinctness needed) -/

mutual
  theorem handles_replaceBelow_sub (h : Nat) (g : HTree → List HTree) (E : List Nat)
      (hg : ∀ k, ∀ x ∈ handlesList (g k), x ∈ handles k ∨ x ∈ E) :
      ∀ t : HTree, ∀ x ∈ handles (replaceBelow h g t), x ∈ handles t ∨ x ∈ E
    | .node h' v ks => by
      intro x hx
      rw [replaceBelow, fi_handles_node, List.mem_cons] at hx
      rcases hx with hx | hx
      · exact Or.inl (by simp [hx])
      · rcases handlesList_replaceKids_sub h g E hg ks x hx with h1 | h1
        · exact Or.inl (by simp [h1])
        · exact Or.inr h1
  theorem handlesList_replaceKids_sub (h : Nat) (g : HTree → List HTree) (E : List Nat)
      (hg : ∀ k, ∀ x ∈ handlesList (g k), x ∈ handles k ∨ x ∈ E) :
      ∀ ks : List HTree, ∀ x ∈ handlesList (replaceKids h g ks), x ∈ handlesList ks ∨ x ∈ E
    | [] => by intro x hx; simp [replaceKids] at hx
    | k :: ks => by
      intro x hx
      rw [replaceKids_cons] at hx
      split at hx
      · rw [fi_handlesList_append, List.mem_append] at hx
        rcases hx with hx | hx
        · rcases hg k x hx with h1 | h1
          · exact Or.inl (by simp [h1])
          · exact Or.inr h1
        · exact Or.inl (by simp [hx])
      · rw [fi_handlesList_cons, List.mem_append] at hx
        rcases hx with hx | hx
        · rcases handles_replaceBelow_sub h g E hg k x hx with h1 | h1
          · exact Or.inl (by simp [h1])
          · exact Or.inr h1
        · rcases handlesList_replaceKids_sub h g E hg ks x hx with h1 | h1
          · exact Or.inl (by simp [h1])
          · exact Or.inr h1
end

mutual
  theorem handles_mapAt_sub (h : Nat) (g : HTree → HTree) (E : List Nat)
      (hg : ∀ k, ∀ x ∈ handles (g k), x ∈ handles k ∨ x ∈ E) :
      ∀ t : HTree, ∀ x ∈ handles (mapAt h g t), x ∈ handles t ∨ x ∈ E
    | .node h' v ks => by
      intro x hx
      rw [mapAt] at hx
      split at hx
      · exact hg _ x hx
      · rw [fi_handles_node, List.mem_cons] at hx
        rcases hx with hx | hx
        · exact Or.inl (by simp [hx])
        · rcases handlesList_mapAtList_sub h g E hg ks x hx with h1 | h1
          · exact Or.inl (by simp [h1])
          · exact Or.inr h1
  theorem handlesList_mapAtList_sub (h : Nat) (g : HTree → HTree) (E : List Nat)
      (hg : ∀ k, ∀ x ∈ handles (g k), x ∈ handles k ∨ x ∈ E) :
      ∀ ks : List HTree, ∀ x ∈ handlesList (mapAtList h g ks), x ∈ handlesList ks ∨ x ∈ E
    | [] => by intro x hx; simp [mapAtList] at hx
    | k :: ks => by
      intro x hx
      rw [mapAtList, fi_handlesList_cons, List.mem_append] at hx
      rcases hx with hx | hx
      · rcases handles_mapAt_sub h g E hg k x hx with h1 | h1
        · exact Or.inl (by simp [h1])
        · exact Or.inr h1
      · rcases handlesList_mapAtList_sub h g E hg ks x hx with h1 | h1
        · exact Or.inl (by simp [h1])
        · exact Or.inr h1
end

mutual
  theorem handles_of_find? (h : Nat) : ∀ t s : HTree, find? h t = some s → ∀ x ∈ handles s, x ∈ handles t
    | .node h' v ks, s => by
      intro hf x hx
      rw [find?] at hf
      split at hf
      · cases hf; exact hx
      · exact List.mem_cons_of_mem _ (handles_of_findList? h ks s hf x hx)
  theorem handles_of_findList? (h : Nat) : ∀ (ks : List HTree) (s : HTree), findList? h ks = some s →
      ∀ x ∈ handles s, x ∈ handlesList ks
    | [], s => by intro hf; simp [findList?] at hf
    | k :: ks, s => by
      intro hf x hx
      rw [fi_findList?_cons] at hf
      rw [fi_handlesList_cons, List.mem_append]
      cases hk : find? h k with
      | some t' =>
        rw [hk] at hf; simp only [Option.some_or, Option.some.injEq] at hf
        subst hf
        exact Or.inl (handles_of_find? h k t' hk x hx)
      | none =>
        rw [hk] at hf; simp only [Option.none_or] at hf
        exact Or.inr (handles_of_findList? h ks s hf x hx)
end

theorem handlesList_map_replaceBelow_sub (h : Nat) (g : HTree → List HTree) (E : List Nat)
    (hg : ∀ k, ∀ x ∈ handlesList (g k), x ∈ handles k ∨ x ∈ E) (ks : List HTree) :
    ∀ x ∈ handlesList (ks.map (replaceBelow h g)), x ∈ handlesList ks ∨ x ∈ E := by
  induction ks with
  | nil => intro x hx; simp at hx
  | cons k ks ih =>
    intro x hx
    rw [List.map_cons, fi_handlesList_cons, List.mem_append] at hx
    rcases hx with hx | hx
    · rcases handles_replaceBelow_sub h g E hg k x hx with h1 | h1
      · exact Or.inl (by simp [h1])
      · exact Or.inr h1
    · rcases ih x hx with h1 | h1
      · exact Or.inl (by simp [h1])
      · exact Or.inr h1

theorem handlesList_filter_sub (p : HTree → Bool) (ks : List HTree) :
    ∀ x ∈ handlesList (ks.filter p), x ∈ handlesList ks := by
  induction ks with
  | nil => intro x hx; simp at hx
  | cons k ks ih =>
    intro x hx
    rw [List.filter_cons] at hx
    split at hx
    · rw [fi_handlesList_cons, List.mem_append] at hx ⊢
      rcases hx with hx | hx
      · exact Or.inl hx
      · exact Or.inr (ih x hx)
    · rw [fi_handlesList_cons, List.mem_append]; exact Or.inr (ih x hx)

mutual
  theorem find?_ne_none_of_mem (h : Nat) : ∀ t : HTree, h ∈ handles t → find? h t ≠ none
    | .node h' v ks => by
      intro hm hn
      rw [find?] at hn
      split at hn
      · cases hn
      · rename_i hne
        rw [fi_handles_node, List.mem_cons] at hm
        rcases hm with hm | hm
        · exact hne hm.symm
        · exact findList?_ne_none_of_mem h ks hm hn
  theorem findList?_ne_none_of_mem (h : Nat) : ∀ ks : List HTree, h ∈ handlesList ks → findList? h ks ≠ none
    | [] => by intro hm; simp at hm
    | k :: ks => by
      intro hm hn
      rw [fi_findList?_cons] at hn
      cases hk : find? h k with
      | some _ => rw [hk] at hn; simp at hn
      | none =>
        rw [hk] at hn; simp only [Option.none_or] at hn
        rw [fi_handlesList_cons, List.mem_append] at hm
        rcases hm with hm | hm
        · exact find?_ne_none_of_mem h k hm hk
        · exact findList?_ne_none_of_mem h ks hm hn
end

namespace Forest

/-- `f'` is a later state than `f`. -/
structure Le (f f' : Forest) : Prop where
  next : f.next ≤ f'.next
  old : ∀ h ∈ f'.allHandles, h ∈ f.allHandles ∨ f.next ≤ h

theorem Le.refl (f : Forest) : Le f f := ⟨Nat.le_refl _, fun _ h => Or.inl h⟩

theorem Le.trans {f g k : Forest} (h1 : Le f g) (h2 : Le g k) : Le f k := by
  refine ⟨Nat.le_trans h1.next h2.next, ?_⟩
  intro h hh
  rcases h2.old h hh with h3 | h3
  · exact h1.old h h3
  · exact Or.inr (Nat.le_trans h1.next h3)

/-- No new handles, same `next`. -/
theorem Le.of_sub {f f' : Forest} (hn : f'.next = f.next)
    (hs : ∀ h ∈ f'.allHandles, h ∈ f.allHandles) : Le f f' :=
  ⟨by rw [hn]; exact Nat.le_refl _, fun h hh => Or.inl (hs h hh)⟩

theorem isLive_of_mem_allHandles {f : Forest} {h : Nat} (hm : h ∈ f.allHandles) : f.isLive h = true := by
  unfold isLive get?
  cases hf : findList? h f.roots with
  | some _ => rfl
  | none => exact absurd hf (findList?_ne_none_of_mem h f.roots hm)

/-- Removed stays removed. -/
theorem isRemoved_mono {f f' : Forest} (hle : Le f f') {h : Nat} (hr : f.isRemoved h = true) :
    f'.isRemoved h = true := by
  unfold isRemoved at hr ⊢
  simp only [Bool.and_eq_true, decide_eq_true_eq, Bool.not_eq_true'] at hr ⊢
  refine ⟨Nat.lt_of_lt_of_le hr.1 hle.next, ?_⟩
  cases hl : f'.isLive h with
  | false => rfl
  | true =>
    exfalso
    rcases hle.old h (mem_allHandles_of_isLive hl) with h1 | h1
    · rw [isLive_of_mem_allHandles h1] at hr; cases hr.2
    · exact Nat.lt_irrefl _ (Nat.lt_of_lt_of_le hr.1 h1)

/-! ### The primitives -/

theorem le_newNode (f : Forest) (v : Value) : Le f (f.newNode v).1 := by
  refine ⟨Nat.le_succ _, ?_⟩
  intro h hh
  rw [allHandles_newNode, List.mem_append, List.mem_singleton] at hh
  rcases hh with hh | hh
  · exact Or.inl hh
  · exact Or.inr (by rw [hh]; exact Nat.le_refl _)

theorem le_setValue (f : Forest) (h : Nat) (v : Value) : Le f (f.setValue h v) :=
  Le.of_sub (by rfl) (by rw [allHandles_setValue]; exact fun _ h => h)

theorem le_cut (f : Forest) (h : Nat) : Le f (f.cut h).1 ∧
    ∀ t, (f.cut h).2 = some t → ∀ x ∈ handles t, x ∈ f.allHandles := by
  unfold cut
  cases hg : f.get? h with
  | none => exact ⟨Le.refl f, fun t ht => by cases ht⟩
  | some t =>
    simp only
    refine ⟨?_, ?_⟩
    · split
      · exact Le.of_sub (by rfl) (handlesList_filter_sub _ _)
      · apply Le.of_sub (by rfl)
        intro x hx
        rcases handlesList_map_replaceBelow_sub h _ [] (by intro k x hx; simp at hx) f.roots x hx with h1 | h1
        · exact h1
        · cases h1
    · intro t' ht' x hx
      have : t' = t := by split at ht' <;> (cases ht'; rfl)
      subst this
      exact handles_of_findList? h f.roots t' hg x hx

theorem le_dropSubtree (f : Forest) (h : Nat) : Le f (f.dropSubtree h) := (le_cut f h).1

theorem le_detachRaw (f : Forest) (h : Nat) : Le f (f.detachRaw h) := by
  unfold detachRaw
  have := le_cut f h
  cases hc : f.cut h with
  | mk f' o =>
    rw [hc] at this
    cases o with
    | none => exact this.1
    | some t =>
      simp only
      refine ⟨this.1.next, ?_⟩
      intro x hx
      unfold addRoot allHandles at hx
      simp only [fi_handlesList_append, fi_handlesList_cons, fi_handlesList_nil, List.append_nil, List.mem_append] at hx
      rcases hx with hx | hx
      · exact this.1.old x hx
      · exact Or.inl (this.2 t rfl x hx)

theorem le_spliceOut (f : Forest) (h : Nat) : Le f (f.spliceOut h) := by
  unfold spliceOut
  cases hg : f.get? h with
  | none => exact Le.refl f
  | some t =>
    simp only
    have hkids : ∀ x ∈ handlesList t.kids, x ∈ f.allHandles := by
      intro x hx
      apply handles_of_findList? h f.roots t hg x
      rw [fi_handles_eq]; exact List.mem_cons_of_mem _ hx
    have key : ∀ x ∈ handlesList (f.roots.filter (fun r => r.handle != h) ++ t.kids), x ∈ f.allHandles := by
      intro x hx
      rw [fi_handlesList_append, List.mem_append] at hx
      rcases hx with hx | hx
      · exact handlesList_filter_sub _ _ x hx
      · exact hkids x hx
    split
    · split
      · exact Le.of_sub (by rfl) key
      · exact Le.of_sub (by rfl) key
    · apply Le.of_sub (by rfl)
      intro x hx
      rcases handlesList_map_replaceBelow_sub h (fun n => n.kids) []
        (by intro k x hx; left; rw [fi_handles_eq]; exact List.mem_cons_of_mem _ hx) f.roots x hx with h1 | h1
      · exact h1
      · cases h1

/-- Raw placement of a tree whose handles are old or fresh. -/
theorem le_place {f0 f : Forest} (hle : Le f0 f) (t : HTree)
    (ht : ∀ x ∈ handles t, x ∈ f0.allHandles ∨ f0.next ≤ x) :
    ∀ ref, Le f0 (f.placeAfter ref t) ∧ Le f0 (f.placeBefore ref t) ∧ Le f0 (f.placeLast ref t) ∧
      Le f0 (f.placeFirst ref t) := by
  intro ref
  have fin : ∀ f' : Forest, f'.next = f.next → (∀ x ∈ f'.allHandles, x ∈ f.allHandles ∨ x ∈ handles t) → Le f0 f' := by
    intro f' hn hs
    refine ⟨by rw [hn]; exact hle.next, ?_⟩
    intro x hx
    rcases hs x hx with h1 | h1
    · exact hle.old x h1
    · exact ht x h1
  refine ⟨?_, ?_, ?_, ?_⟩
  · apply fin _ (by rfl)
    intro x hx
    exact handlesList_map_replaceBelow_sub ref _ (handles t) (by
      intro k x hx
      simp only [fi_handlesList_cons, fi_handlesList_nil, List.append_nil, List.mem_append] at hx
      exact hx) f.roots x hx
  · apply fin _ (by rfl)
    intro x hx
    exact handlesList_map_replaceBelow_sub ref _ (handles t) (by
      intro k x hx
      simp only [fi_handlesList_cons, fi_handlesList_nil, List.append_nil, List.mem_append] at hx
      exact hx.symm) f.roots x hx
  · apply fin _ (by rfl)
    intro x hx
    unfold placeLast allHandles at hx
    simp only at hx
    rw [← mapAtList_eq_map] at hx
    exact handlesList_mapAtList_sub ref _ (handles t) (by
      intro k x hx
      rw [handles_setKids, List.mem_cons, fi_handlesList_append, List.mem_append] at hx
      rw [fi_handles_eq k, List.mem_cons]
      simp only [fi_handlesList_cons, fi_handlesList_nil, List.append_nil] at hx
      rcases hx with hx | hx | hx
      · exact Or.inl (Or.inl hx)
      · exact Or.inl (Or.inr hx)
      · exact Or.inr hx) f.roots x hx
  · apply fin _ (by rfl)
    intro x hx
    unfold placeFirst allHandles at hx
    simp only at hx
    rw [← mapAtList_eq_map] at hx
    exact handlesList_mapAtList_sub ref _ (handles t) (by
      intro k x hx
      rw [handles_setKids, List.mem_cons, fi_handlesList_cons, List.mem_append] at hx
      rw [fi_handles_eq k, List.mem_cons]
      rcases hx with hx | hx | hx
      · exact Or.inl (Or.inl hx)
      · exact Or.inr hx
      · exact Or.inl (Or.inr hx)) f.roots x hx

theorem le_corrupt {f0 f : Forest} (h : Le f0 f) : Le f0 { f with corrupt := true } := ⟨h.next, h.old⟩

/-- Cut, then place: the four indextree `checked_*` calls. -/
theorem le_checked (f : Forest) (a b : Nat) :
    Le f (f.checkedAppend a b).1 ∧ Le f (f.checkedPrepend a b).1 ∧
    Le f (f.checkedInsertAfter a b).1 ∧ Le f (f.checkedInsertBefore a b).1 := by
  have hc := le_cut f b
  have key : ∀ ref, (match f.cut b with
      | (f', some t) => Le f (f'.placeAfter ref t) ∧ Le f (f'.placeBefore ref t) ∧
          Le f (f'.placeLast ref t) ∧ Le f (f'.placeFirst ref t)
      | (f', none) => Le f { f' with corrupt := true }) := by
    intro ref
    cases hcut : f.cut b with
    | mk f' o =>
      rw [hcut] at hc
      cases o with
      | none => exact le_corrupt hc.1
      | some t => exact le_place hc.1 t (fun x hx => Or.inl (hc.2 t rfl x hx)) ref
  refine ⟨?_, ?_, ?_, ?_⟩
  · unfold checkedAppend
    split
    · exact Le.refl f
    · have := key a
      cases hcut : f.cut b with
      | mk f' o => rw [hcut] at this; cases o with
        | none => exact this
        | some t => exact this.2.2.1
  · unfold checkedPrepend
    split
    · exact Le.refl f
    · have := key a
      cases hcut : f.cut b with
      | mk f' o => rw [hcut] at this; cases o with
        | none => exact this
        | some t => exact this.2.2.2
  · unfold checkedInsertAfter
    split
    · exact Le.refl f
    · split
      · exact le_corrupt (Le.refl f)
      · have := key a
        cases hcut : f.cut b with
        | mk f' o => rw [hcut] at this; cases o with
          | none => exact this
          | some t => exact this.1
  · unfold checkedInsertBefore
    split
    · exact Le.refl f
    · split
      · exact le_corrupt (Le.refl f)
      · have := key a
        cases hcut : f.cut b with
        | mk f' o => rw [hcut] at this; cases o with
          | none => exact this
          | some t => exact this.2.1

end Forest
end XotModel
