/-
  Finv (C04), part 33: `VStep` for the node maps, `any_append`, the setters, `text_content_mut`,
  `remove_insignificant_whitespace`, `replace`, `element_wrap`, `element_unwrap`.  Here the text
  nodes consolidation may extend are not tracked (`T = Any`); the handles a setter may overwrite
  are (`S`): the setter's argument, the entry node carrying the key of a map insertion, the text
  node `text_content_mut` hands out.
-/
import XotModel.Lemmas.FinvValue2
import XotModel.Model.FlocalSpec

namespace XotModel
open HTree

namespace Forest

/-- No restriction. -/
def Any : Nat → Prop := fun _ => True

variable {S T : Nat → Prop}

theorem vstep_append_any (f : Forest) (p c : Nat) : VStep S Any f (f.append p c).1 :=
  vstep_append f p c (fun _ _ => trivial) (fun _ _ => trivial)
theorem vstep_prepend_any (f : Forest) (p c : Nat) : VStep S Any f (f.prepend p c).1 :=
  vstep_prepend f p c (fun _ _ => trivial) (fun _ _ => trivial)
theorem vstep_insertAfter_any (f : Forest) (r c : Nat) : VStep S Any f (f.insertAfter r c).1 :=
  vstep_insertAfter f r c (fun _ _ => trivial) trivial (fun _ _ => trivial) (fun _ _ _ => trivial)
theorem vstep_insertBefore_any (f : Forest) (r c : Nat) : VStep S Any f (f.insertBefore r c).1 :=
  vstep_insertBefore f r c (fun _ _ => trivial) trivial (fun _ _ => trivial)
theorem vstep_detach_any (f : Forest) (n : Nat) : VStep S Any f (f.detach n).1 :=
  vstep_detach f n (fun _ _ => trivial)
theorem vstep_remove_any (f : Forest) (n : Nat) : VStep S Any f (f.remove n).1 :=
  vstep_remove f n (fun _ _ => trivial)
theorem vstep_removeConsolidate_any (f : Forest) (a b : Option Nat) :
    VStep S Any f (f.removeConsolidate a b).1 := vstep_removeConsolidate f a b (fun _ _ => trivial)

theorem vstep_foldl_remove {α : Type} (g : α → Nat) (xs : List α) (f : Forest) :
    VStep S Any f (xs.foldl (fun acc c => (acc.remove (g c)).1) f) := by
  induction xs generalizing f with
  | nil => exact VStep.refl f
  | cons x xs ih => exact (vstep_remove_any f (g x)).trans (ih _)

theorem fv_mapChildren_sub (k : MapKind) (t : HTree) : ∀ x ∈ mapChildren k t, x ∈ t.kids := by
  intro x hx
  cases k with
  | namespaces => exact (List.takeWhile_sublist _).mem hx
  | attributes => exact (List.dropWhile_sublist _).mem ((List.takeWhile_sublist _).mem hx)

/-- The entry node a map lookup returns is a node of the forest. -/
theorem hv_of_mapGetNode {f : Forest} {k : MapKind} {p key : Nat} {n : HTree}
    (hn : f.mapGetNode k p key = some n) : (n.handle, n.value) ∈ hvList f.roots := by
  unfold mapGetNode at hn
  cases hg : f.get? p with
  | none => rw [hg] at hn; cases hn
  | some t0 =>
    rw [hg] at hn
    simp only at hn
    have hx : n ∈ t0.kids := fv_mapChildren_sub k t0 n (List.mem_of_find?_eq_some hn)
    exact hv_of_get? hg _ (hv_kid_sub hx _ (hv_self_mem n))

theorem vstep_mapInsert (f : Forest) (k : MapKind) (parent : Nat) (entry : Value)
    (hS : ∀ n, f.mapGetNode k parent (entryKey entry) = some n → S n.handle) :
    VStep S T f (f.mapInsert k parent entry).1 := by
  unfold mapInsert
  split
  · exact VStep.refl f
  · cases hg : f.mapGetNode k parent (entryKey entry) with
    | some n =>
      exact vstep_setValue_target f _ (hS n hg) (hv_of_mapGetNode hg) (sameKind_entryUpdate _ _).1
    | none => exact (vstep_newNode f entry).trans (vstep_mapPlace _ k parent _)

theorem vstep_mapInsertNode (f : Forest) (k : MapKind) (parent node : Nat)
    (hS : ∀ v n, f.value? node = some v → f.mapGetNode k parent (entryKey v) = some n → S n.handle) :
    VStep S T f (f.mapInsertNode k parent node).1 := by
  unfold mapInsertNode
  cases hv' : f.value? node with
  | none => exact VStep.refl f
  | some v =>
    simp only
    split
    · exact VStep.refl f
    · cases hg : f.mapGetNode k parent (entryKey v) with
      | some e =>
        exact vstep_setValue_target f _ (hS v e hv' hg) (hv_of_mapGetNode hg) (sameKind_entryUpdate _ _).1
      | none => exact vstep_mapPlace f k parent node

theorem vstep_mapRemove (f : Forest) (k : MapKind) (parent key : Nat) :
    VStep S Any f (f.mapRemove k parent key).1 := by
  unfold mapRemove
  split
  · exact VStep.refl f
  · cases f.mapGetNode k parent key with
    | some n => exact vstep_remove_any f _
    | none => exact VStep.refl f

theorem vstep_mapClear (f : Forest) (k : MapKind) (parent : Nat) :
    VStep S Any f (f.mapClear k parent).1 := by
  unfold mapClear
  split
  · exact VStep.refl f
  · cases f.get? parent with
    | none => exact VStep.refl f
    | some t => exact vstep_foldl_remove (fun c : HTree => c.handle) _ f

theorem vstep_appendEntryNode (f : Forest) (k : MapKind) (parent child : Nat)
    (hS : ∀ x ∈ f.entryTarget k parent child, S x) :
    VStep S T f (f.appendEntryNode k parent child).1 := by
  unfold appendEntryNode
  split
  · exact VStep.refl f
  · cases hv' : f.value? child with
    | none => exact VStep.refl f
    | some v =>
      simp only
      split
      · exact VStep.refl f
      · apply vstep_mapInsertNode f k parent child
        intro v1 n h1 h2
        apply hS
        unfold entryTarget
        rw [h1]
        simp [h2]

theorem vstep_anyAppend (f : Forest) (parent child : Nat)
    (hS : ∀ x ∈ (Call.anyAppend parent child).targets f, S x)
    (hT1 : ∀ q, f.prevSibling child = some q → T q)
    (hT2 : ∀ q, (f.afterOldSite child).selfPrev child ((f.afterOldSite child).lastChild parent) = some q →
      T q) :
    VStep S T f (f.anyAppend parent child).1 := by
  unfold anyAppend
  split
  · rename_i a b hv'
    apply vstep_appendEntryNode
    intro x hx; apply hS; simp only [Call.targets, hv']; exact hx
  · rename_i a b hv'
    apply vstep_appendEntryNode
    intro x hx; apply hS; simp only [Call.targets, hv']; exact hx
  · exact vstep_append f _ _ hT1 hT2

theorem vstep_anyAppend_any (f : Forest) (parent child : Nat)
    (hS : ∀ x ∈ (Call.anyAppend parent child).targets f, S x) :
    VStep S Any f (f.anyAppend parent child).1 :=
  vstep_anyAppend f parent child hS (fun _ _ => trivial) (fun _ _ => trivial)

theorem isElement_hv {f : Forest} {c : Nat} (ht : f.isElement c = true) :
    ∃ n, (c, Value.element n) ∈ hvList f.roots := by
  unfold isElement at ht
  cases hv' : f.value? c with
  | none => rw [hv'] at ht; simp at ht
  | some v =>
    rw [hv'] at ht
    cases v <;> simp [Value.isElement] at ht
    exact ⟨_, hv_of_value? hv'⟩

theorem vstep_setElementName (f : Forest) (node name : Nat) (hS : S node) :
    VStep S Any f (f.setElementName node name).1 := by
  unfold setElementName
  split
  · rename_i he
    obtain ⟨n, e⟩ := isElement_hv he
    exact vstep_setValue_target f _ hS e ⟨rfl, rfl, rfl, rfl⟩
  · exact VStep.refl f

theorem vstep_setText (f : Forest) (node : Nat) (s : Str) (hS : S node) :
    VStep S Any f (f.setText node s).1 := by
  unfold setText
  split
  · rename_i ht
    unfold isText at ht
    cases hv' : f.value? node with
    | none => rw [hv'] at ht; simp at ht
    | some v =>
      rw [hv'] at ht
      cases v <;> simp [Value.isText] at ht
      exact vstep_setValue_target f _ hS (hv_of_value? hv') ⟨rfl, rfl, rfl, rfl⟩
  · exact VStep.refl f

theorem vstep_setComment (f : Forest) (node : Nat) (s : Str) (hS : S node) :
    VStep S Any f (f.setComment node s).1 := by
  unfold setComment
  split
  · rename_i c hv'
    split
    · exact VStep.refl f
    · exact vstep_setValue_target f _ hS (hv_of_value? hv') ⟨rfl, rfl, rfl, rfl⟩
  · exact VStep.refl f

theorem vstep_setPiData (f : Forest) (node : Nat) (d : Option Str) (hS : S node) :
    VStep S Any f (f.setPiData node d).1 := by
  unfold setPiData
  split
  · rename_i t d0 hv'
    exact vstep_setValue_target f _ hS (hv_of_value? hv') ⟨rfl, rfl, rfl, rfl⟩
  · exact VStep.refl f

theorem vstep_setConsolidation (f : Forest) (b : Bool) : VStep S Any f (f.setConsolidation b) :=
  VStep.of_sub rfl (fun _ h => h)

theorem isText_hv {f : Forest} {c : Nat} (ht : f.isText c = true) :
    ∃ s0, (c, Value.text s0) ∈ hvList f.roots := by
  unfold isText at ht
  cases hv' : f.value? c with
  | none => rw [hv'] at ht; simp at ht
  | some v =>
    rw [hv'] at ht
    cases v <;> simp [Value.isText] at ht
    exact ⟨_, hv_of_value? hv'⟩

theorem vstep_textContentSet (f : Forest) (node : Nat) (s : Str)
    (hS : ∀ c, f.textContentTarget node = some c → S c) :
    VStep S Any f (f.textContentSet node s).1 := by
  unfold textContentSet
  unfold textContentTarget at hS
  cases hfc : f.firstChild node with
  | some child =>
    rw [hfc] at hS
    simp only at hS ⊢
    split
    · exact VStep.refl f
    · split
      · rename_i ht
        obtain ⟨s0, h0⟩ := isText_hv ht
        exact vstep_setValue_target f _ (hS child rfl) h0 ⟨rfl, rfl, rfl, rfl⟩
      · exact VStep.refl f
  | none =>
    rw [hfc] at hS
    simp only at hS ⊢
    split
    · have h1 : VStep S Any f (f.newText []).1 := vstep_newNode f _
      cases hnt : f.newText [] with
      | mk f1 t =>
        rw [hnt] at h1 hS
        simp only at hS ⊢
        have h2 := vstep_append_any (S := S) f1 node t
        cases h3 : f1.append node t with
        | mk f2 r =>
          rw [h3] at h2 hS
          simp only at hS ⊢
          have h12 := h1.trans h2
          cases r with
          | ok =>
            simp only
            cases hfc2 : f2.firstChild node with
            | some c =>
              simp only
              split
              · rename_i ht
                obtain ⟨s0, h0⟩ := isText_hv ht
                exact h12.trans (vstep_setValue_target f2 _ (hS c hfc2) h0 ⟨rfl, rfl, rfl, rfl⟩)
              · exact h12
            | none => exact h12
          | err e => exact h12
          | panic => exact h12
    · exact VStep.refl f

theorem vstep_removeInsignificantWhitespace (f : Forest) (node : Nat) :
    VStep S Any f (f.removeInsignificantWhitespace node) := by
  unfold removeInsignificantWhitespace
  cases f.get? node with
  | none => exact VStep.refl f
  | some t =>
    simp only
    have h0 : VStep S Any f ({ f with consolidation := false } : Forest) := VStep.of_sub rfl (fun _ h => h)
    have h1 := vstep_foldl_remove (S := S) (fun n : Nat => n)
      ((descendantsNormal t).filter f.isInsignificantWhitespace) ({ f with consolidation := false } : Forest)
    exact ⟨(h0.trans h1).next, (h0.trans h1).old⟩

theorem vstep_replace (f : Forest) (a b : Nat) : VStep S Any f (f.replace a b).1 := by
  unfold replace
  split
  · exact VStep.refl f
  cases f.parent? a with
  | none => exact VStep.refl f
  | some parent =>
    simp only
    split
    · exact VStep.refl f
    split
    · exact VStep.refl f
    split
    · exact VStep.refl f
    split
    · exact vstep_remove_any f a
    · have h1 := vstep_dropSubtree (S := S) (T := Any) f a
      cases f.prevSibling a with
      | none => exact h1.trans (vstep_prepend_any _ parent b)
      | some p =>
        simp only
        have h2 := vstep_insertAfter_any (S := S) (f.dropSubtree a) p b
        cases hi : (f.dropSubtree a).insertAfter p b with
        | mk f2 r =>
          rw [hi] at h2
          simp only
          cases r with
          | ok =>
            cases f.nextSibling a with
            | none => exact h1.trans h2
            | some n => exact (h1.trans h2).trans (vstep_removeConsolidate_any _ _ _)
          | err e => exact h1.trans h2
          | panic => exact h1.trans h2

theorem vstep_elementWrap (f : Forest) (node name : Nat) : VStep S Any f (f.elementWrap node name).1 := by
  unfold elementWrap
  split
  · exact VStep.refl f
  split
  · exact VStep.refl f
  split
  · exact VStep.refl f
  cases f.parent? node with
  | some parent =>
    simp only
    have h1 : VStep S Any f (f.newElement name).1 := vstep_newNode f _
    cases hn : f.newElement name with
    | mk f1 wrapper =>
      rw [hn] at h1
      simp only
      have h2 := vstep_detachRaw (S := S) (T := Any) f1 node
      have h3 := vstep_append_any (S := S) (f1.detachRaw node) wrapper node
      cases ha : (f1.detachRaw node).append wrapper node with
      | mk f3 r3 =>
        rw [ha] at h3
        simp only
        have h123 := (h1.trans h2).trans h3
        cases r3 with
        | ok =>
          simp only
          cases f.prevSibling node with
          | some p => exact h123.trans (vstep_insertAfter_any f3 p wrapper)
          | none => exact h123.trans (vstep_prepend_any f3 parent wrapper)
        | err e => exact h123
        | panic => exact h123
  | none =>
    simp only
    have h1 : VStep S Any f (f.newElement name).1 := vstep_newNode f _
    cases hn : f.newElement name with
    | mk f1 wrapper =>
      rw [hn] at h1
      simp only
      exact h1.trans (vstep_append_any f1 wrapper node)

theorem vstep_foldl_spliceOut (xs : List HTree) (f : Forest) :
    VStep S Any f (xs.foldl (fun acc k => acc.spliceOut k.handle) f) := by
  induction xs generalizing f with
  | nil => exact VStep.refl f
  | cons x xs ih => exact (vstep_spliceOut f x.handle).trans (ih _)

theorem vstep_removeElement (f : Forest) (node : Nat) : VStep S Any f (f.removeElement node) := by
  unfold removeElement
  cases f.get? node with
  | none => exact VStep.refl f
  | some t => exact (vstep_foldl_spliceOut _ f).trans (vstep_spliceOut _ node)

theorem vstep_elementUnwrap (f : Forest) (node : Nat) : VStep S Any f (f.elementUnwrap node).1 := by
  unfold elementUnwrap
  split
  · exact VStep.refl f
  cases f.firstChild node with
  | none => exact vstep_remove_any f node
  | some first =>
    simp only
    split
    · exact VStep.refl f
    cases f.lastChild node with
    | none => exact VStep.refl f
    | some last =>
      simp only
      have h1 := vstep_removeElement (S := S) f node
      have h2 := vstep_removeConsolidate_any (S := S) (f.removeElement node)
        ((f.removeElement node).prevSibling first) (some first)
      cases hr : (f.removeElement node).removeConsolidate ((f.removeElement node).prevSibling first) (some first) with
      | mk f2 c =>
        rw [hr] at h2
        simp only
        have h12 := h1.trans h2
        split
        · split
          · exact h12.trans (vstep_removeConsolidate_any _ _ _)
          · exact h12.trans (vstep_removeConsolidate_any _ _ _)
        · exact h12.trans (vstep_removeConsolidate_any _ _ _)

end Forest
end XotModel
