/-
  FspecPairBefore3 — `insert_before` against the pair reading, part 3: the three geometries and the
  total theorem `insertBefore_pair` (`Forest.Inv` only; the `selfMerge` corner excluded).
-/
import XotModel.Lemmas.FspecPairBefore2

namespace XotModel
open HTree Spec

namespace PairBefore

/-! ### The moved node is a parentless tree -/

theorem pair_root {f : Forest} {c : Nat} {t : HTree} {q : Nat} {vq : Value} {A : List HTree} {kr : HTree}
    {B : List HTree} (inv : f.Inv) (sq : SiteAt f q vq (A ++ kr :: B)) (hgc : f.get? c = some t)
    (hroot : f.ctx? c = none) (hqt : q ∉ handles t) (hrc : kr.handle ≠ c) (hkrn : kr.value.isNormal = true)
    (hocc : Dest.occupiedBy f c (.before kr.handle) = false) :
    (insertBeforeTail (f.removeConsolidate (f.prevSibling c) (f.nextSibling c)).1 kr.handle c).1 =
      specMoveP (.before kr.handle) c f := by
  have htc : t.handle = c := (findList?_some f.roots t hgc).1
  have hsite : Dest.site f (.before kr.handle) = some q := by
    simp only [Dest.site]; exact Forest.parent?_of_ctx sq.ctx
  have T := tail_root sq hgc hroot hqt (fun h => leaf_of_text inv.valid hgc h) (sq.leaf inv.valid) hrc
  rw [Forest.prevSibling_of_no_ctx hroot, Forest.removeConsolidate_none_left, tail_core T htc hkrn,
    specMoveP_unfold hocc hgc hsite, Forest.parent?_of_no_ctx hroot, Forest.mergeLeftAt_none]
  rfl

/-! ### The moved node is a child of another node than the reference's parent -/

theorem pair_far {f : Forest} {po q : Nat} {vo vq : Value} {l : List HTree} {t : HTree} {r : List HTree}
    {A : List HTree} {kr : HTree} {B : List HTree} (inv : f.Inv)
    (so : SiteAt f po vo (l ++ t :: r)) (sq : SiteAt f q vq (A ++ kr :: B)) (hne : po ≠ q)
    (hqt : q ∉ handles t) (hvq : vq.isText = false) (hkrn : kr.value.isNormal = true)
    (hocc : Dest.occupiedBy f t.handle (.before kr.handle) = false) :
    (insertBeforeTail (f.removeConsolidate (f.prevSibling t.handle) (f.nextSibling t.handle)).1 kr.handle
        t.handle).1 = specMoveP (.before kr.handle) t.handle f := by
  have nd := sq.nd
  have hgc : f.get? t.handle = some t := so.getKid
  have hsite : Dest.site f (.before kr.handle) = some q := by
    simp only [Dest.site]; exact Forest.parent?_of_ctx sq.ctx
  obtain ⟨ndLo, hpoL⟩ := so.nodupKids
  have hpot : po ∉ handles t := by
    intro hin
    apply hpoL
    rw [fs_handlesList_append, handlesList_cons]
    exact List.mem_append_right _ (List.mem_append_left _ hin)
  obtain ⟨X, l1, r1, M, hrcX, O⟩ := oldP inv so
  rw [Forest.prevSibling_of_ctx so.ctx, Forest.nextSibling_of_ctx so.ctx]
  simp only
  rw [hrcX]
  -- the destination child list in `X`
  have hqtext : ∀ k ∈ l ++ r, k.value.isText = true → k.handle ≠ q := by
    intro k hk htx e
    have hk' : k ∈ l ++ t :: r := by
      cases List.mem_append.1 hk with
      | inl h => exact List.mem_append_left _ h
      | inr h => exact List.mem_append_right _ (List.mem_cons_of_mem _ h)
    obtain ⟨P, Q, hPQ⟩ := List.append_of_mem hk'
    have so' : SiteAt f po vo (P ++ k :: Q) := hPQ ▸ so
    have := so'.getKid
    rw [e, sq.kids] at this
    have := Option.some.inj this
    rw [← this] at htx
    simp only [HTree.value] at htx
    rw [hvq] at htx; cases htx
  let φ : HTree → HTree := HTree.editAt po (fun _ => l1 ++ t :: r1)
  have hφ : KidMap φ := kidMap_editAt _ _
  have sXq0 := so.other sq.kids hne.symm (fun _ => l1 ++ t :: r1) O.sub (O.look q hqtext)
  rw [← O.eqX] at sXq0
  have sXq : SiteAt X q vq (A.map φ ++ φ kr :: B.map φ) := by simpa using sXq0
  have hleafq := sq.leaf inv.valid
  have hleafXq : ∀ k ∈ A.map φ ++ φ kr :: B.map φ, k.value.isText = true → k.kids = [] := by
    intro k hk htx
    have : k ∈ (A ++ kr :: B).map φ := by simpa using hk
    obtain ⟨k0, hk0, e⟩ := List.mem_map.1 this
    subst e
    rw [hφ.value] at htx
    have hk0l := hleafq k0 hk0 htx
    have hk0po : k0.handle ≠ po := by
      intro e
      obtain ⟨P, Q, hPQ⟩ := List.append_of_mem hk0
      have sq' : SiteAt f q vq (P ++ k0 :: Q) := hPQ ▸ sq
      have := sq'.getKid
      rw [e, so.kids] at this
      have := Option.some.inj this
      rw [← this] at hk0l
      simp only [HTree.kids] at hk0l
      cases l <;> cases hk0l
    cases k0 with
    | node h v ks =>
      simp only [HTree.kids] at hk0l
      simp only [HTree.handle] at hk0po
      subst hk0l
      simp only [φ]
      rw [editAt_node, if_neg hk0po]
      rfl
  obtain ⟨A', kr', B', hh, hv, T⟩ := tail_kid O.site sXq hne hqt (fun h => leaf_of_text inv.valid hgc h) hleafXq
  have hcore := tail_core T rfl (by rw [hv, hφ.value]; exact hkrn)
  rw [hh, hφ.handle] at hcore
  rw [hcore, specMoveP_unfold hocc hgc hsite, Forest.parent?_of_ctx so.ctx]
  simp only [Dest.insert]
  congr 1
  -- the forest before the final merge
  obtain ⟨ndL1, _⟩ := O.site.nodupKids
  obtain ⟨tl1, tr1⟩ := tops_ne_of_nodup ndL1
  obtain ⟨tl, tr⟩ := tops_ne_of_nodup ndLo
  rw [O.spec _ (by rw [Forest.editAt_consolidation, Forest.editAt_consolidation]),
    Forest.editAt_comm _ hne (O.nat _ (kidMap_editAt _ _))
      (natFor_insertBeforeTop (kidMap_editAt _ _) _ (editAt_of_not_mem t hpot)),
    Forest.editAt_editAt, O.eqX, Forest.editAt_editAt]
  congr 1
  apply so.congr
  simp only [Function.comp]
  rw [dropTop_mid rfl tl1 tr1, dropTop_mid rfl tl tr, O.far]

/-! ### The moved node is a child of the reference's parent -/

theorem mem_dropTop {n : Nat} {x : HTree} : ∀ L : List HTree, x ∈ dropTop n L → x ∈ L
  | [], h => h
  | k :: ks, h => by
    rw [dropTop_cons] at h
    split at h
    · exact List.mem_cons_of_mem _ (mem_dropTop ks h)
    · cases List.mem_cons.1 h with
      | inl e => rw [e]; exact List.mem_cons_self
      | inr e => exact List.mem_cons_of_mem _ (mem_dropTop ks e)

theorem mem_insertBeforeTop {rf : Nat} {t x : HTree} : ∀ L : List HTree, x ∈ insertBeforeTop rf t L → x = t ∨ x ∈ L
  | [], h => Or.inr h
  | k :: ks, h => by
    unfold insertBeforeTop at h
    rw [replaceTop_cons] at h
    split at h
    · simp only [List.cons_append, List.nil_append, List.mem_cons] at h
      rcases h with e | e | e
      · exact Or.inl e
      · exact Or.inr (by rw [e]; exact List.mem_cons_self)
      · exact Or.inr (List.mem_cons_of_mem _ e)
    · cases List.mem_cons.1 h with
      | inl e => exact Or.inr (by rw [e]; exact List.mem_cons_self)
      | inr e =>
        cases mem_insertBeforeTop (rf := rf) ks e with
        | inl e' => exact Or.inl e'
        | inr e' => exact Or.inr (List.mem_cons_of_mem _ e')

/-- The corner xot gets wrong. -/
theorem selfMerge_true {f : Forest} {q : Nat} {vq : Value} {l' : List HTree} {a t b kr : HTree} {B : List HTree}
    (so : SiteAt f q vq ((l' ++ [a]) ++ t :: b :: kr :: B)) (hc : f.consolidation = true)
    (hat : a.value.isText = true) (htt : t.value.isText = true) (hbt : b.value.isText = true) :
    selfMerge f (.before kr.handle) t.handle = true := by
  unfold selfMerge
  rw [so.ctx]
  simp [hc, hat, htt, hbt]

theorem prevOf_cons_normal {l : List HTree} {t kr : HTree} (ht : t.value.isNormal = true)
    (hkr : kr.value.isNormal = true) : prevOf (l ++ [t]) kr = some t.handle :=
  prevOf_concat_normal ht hkr

/-- Within one child list, nothing merged at the old place. -/
theorem pair_same_nomerge {f : Forest} {q : Nat} {vq : Value} {l : List HTree} {t : HTree} {r : List HTree}
    {A : List HTree} {kr : HTree} {B : List HTree} {M : List HTree → List HTree} (inv : f.Inv)
    (so : SiteAt f q vq (l ++ t :: r)) (hAB : A ++ kr :: B = l ++ t :: r)
    (hrc : kr.handle ≠ t.handle) (hkrn : kr.value.isNormal = true) (htn : t.value.isNormal = true)
    (hsame : ¬ prevOf A kr = some t.handle)
    (hnoop : ∀ L', (∀ x ∈ L', x ∈ l ++ t :: r) → M L' = L') :
    (insertBeforeTail f kr.handle t.handle).1 =
      (f.editAt (some q) (M ∘ (insertBeforeTop kr.handle t ∘ dropTop t.handle))).mergeNewAt q t.handle := by
  have sq : SiteAt f q vq (A ++ kr :: B) := hAB ▸ so
  have hgc : f.get? t.handle = some t := so.getKid
  have hkt : kr ≠ t := fun e => hrc (by rw [e])
  have hleafAll := so.leaf inv.valid
  have hleaf' : ∀ k ∈ l ++ r, k.value.isText = true → k.kids = [] := by
    intro k hk
    apply hleafAll
    cases List.mem_append.1 hk with
    | inl h => exact List.mem_append_left _ h
    | inr h => exact List.mem_append_right _ (List.mem_cons_of_mem _ h)
  have hprev0 : f.prevSibling kr.handle = prevOf A kr := Forest.prevSibling_of_ctx sq.ctx
  have key : ∃ A' B', l ++ r = A' ++ kr :: B' ∧ f.prevSibling kr.handle = prevOf A' kr := by
    rcases split_two hAB hkt with ⟨m, hA, hr⟩ | ⟨m, hl, hB⟩
    · have hm : m ≠ [] := by
        intro em
        apply hsame
        rw [hA, em]
        exact prevOf_cons_normal htn hkrn
      refine ⟨l ++ m, B, by rw [hr]; simp, ?_⟩
      rw [hprev0, hA]
      exact prevOf_insert_ne_nil l t kr hm
    · exact ⟨A, m ++ r, by rw [hl]; simp, hprev0⟩
  obtain ⟨A', B', hAB', hprev⟩ := key
  obtain ⟨ndLs, _⟩ := so.nodupKids
  obtain ⟨tls, trs⟩ := tops_ne_of_nodup ndLs
  have hnotA' : ∀ k ∈ A', k.handle ≠ t.handle := by
    intro k hk
    have : k ∈ l ++ r := by rw [hAB']; exact List.mem_append_left _ hk
    cases List.mem_append.1 this with
    | inl h => exact tls k h
    | inr h => exact trs k h
  have T := tail_same so hAB' (fun h => leaf_of_text inv.valid hgc h) hleaf'
    (fun _ => selfPrev_prevOf hnotA' hprev)
  rw [tail_core T rfl hkrn, Forest.editAt_editAt]
  congr 1
  apply so.congr
  simp only [Function.comp]
  rw [hnoop]
  intro x hx
  cases mem_insertBeforeTop _ hx with
  | inl e => rw [e]; simp
  | inr e => exact mem_dropTop _ e

/-- Within one child list, the two text nodes around the moved node were merged. -/
theorem pair_same_merged {f : Forest} {q : Nat} {vq : Value} {l' : List HTree} {a t b : HTree} {r' : List HTree}
    {x y : Str} {A : List HTree} {kr : HTree} {B : List HTree} {X : Forest} (inv : f.Inv)
    (so : SiteAt f q vq ((l' ++ [a]) ++ t :: b :: r')) (hc : f.consolidation = true)
    (hx : a.value = .text x) (hy : b.value = .text y)
    (hAB : A ++ kr :: B = (l' ++ [a]) ++ t :: b :: r')
    (hrc : kr.handle ≠ t.handle) (hkrn : kr.value.isNormal = true) (htn : t.value.isNormal = true)
    (hsame : ¬ prevOf A kr = some t.handle)
    (O : OldP f q vq (l' ++ [a]) t (b :: r') X (l' ++ [a.setValue (.text (x ++ y))]) r'
      (mergeAdj a.handle b.handle)) :
    (insertBeforeTail X kr.handle t.handle).1 =
      (f.editAt (some q) (mergeAdj a.handle b.handle ∘ (insertBeforeTop kr.handle t ∘ dropTop t.handle))).mergeNewAt q
        t.handle := by
  have hgc : f.get? t.handle = some t := so.getKid
  have hkt : kr ≠ t := fun e => hrc (by rw [e])
  have hat : a.value.isText = true := by rw [hx]; rfl
  have hbt : b.value.isText = true := by rw [hy]; rfl
  have hleafT : t.value.isText = true → t.kids = [] := fun h => leaf_of_text inv.valid hgc h
  obtain ⟨ndL, _⟩ := so.nodupKids
  obtain ⟨tl, tr⟩ := tops_ne_of_nodup ndL
  have hdrop : dropTop t.handle ((l' ++ [a]) ++ t :: b :: r') = (l' ++ [a]) ++ b :: r' := dropTop_mid rfl tl tr
  have hak : a.handle ≠ t.handle := tl a (by simp)
  have htopsAB : ∀ k ∈ A, k.handle ≠ kr.handle := (tops_ne_of_nodup (hAB ▸ ndL)).1
  let a' := a.setValue (.text (x ++ y))
  have sX : SiteAt X q vq ((l' ++ [a']) ++ t :: r') := O.site
  obtain ⟨ndLX, _⟩ := sX.nodupKids
  obtain ⟨tlX, trX⟩ := tops_ne_of_nodup ndLX
  have hdropX : dropTop t.handle ((l' ++ [a']) ++ t :: r') = (l' ++ [a']) ++ r' := dropTop_mid rfl tlX trX
  have hl'a : ∀ k ∈ l', k.handle ≠ a.handle := by
    have : (handlesList (l' ++ a :: (t :: b :: r'))).Nodup := by
      have e2 : l' ++ a :: (t :: b :: r') = (l' ++ [a]) ++ t :: b :: r' := by simp
      rw [e2]; exact ndL
    exact (tops_ne_of_nodup this).1
  -- the common end: the lists agree
  have finish : ∀ (kr' : HTree) (A' B' : List HTree), kr'.handle = kr.handle → kr'.value.isNormal = true →
      (l' ++ [a']) ++ r' = A' ++ kr' :: B' →
      (t.value.isText = true → X.selfPrev t.handle (X.prevSibling kr'.handle) = prevOf A' kr') →
      A' ++ t :: kr' :: B' =
        mergeAdj a.handle b.handle (insertBeforeTop kr.handle t ((l' ++ [a]) ++ b :: r')) →
      (insertBeforeTail X kr.handle t.handle).1 =
        (f.editAt (some q) (mergeAdj a.handle b.handle ∘ (insertBeforeTop kr.handle t ∘ dropTop t.handle))).mergeNewAt q
          t.handle := by
    intro kr' A' B' hh hn hAB1 hprev hlist
    have T := tail_same sX hAB1 hleafT O.leaf1 hprev
    have hcore := tail_core T rfl hn
    rw [hh] at hcore
    have sY := T.ysite
    obtain ⟨ndLY, _⟩ := sY.nodupKids
    have hI := insertBeforeTop_mid (A := A') (w := kr') (B := B') t (tops_ne_of_nodup ndLY).1
    rw [hh] at hI
    rw [hcore]
    congr 1
    rw [O.eqX, Forest.editAt_editAt, Forest.editAt_editAt]
    apply so.congr
    simp only [Function.comp]
    rw [hdropX, hAB1, hI, hdrop, hlist]
  have conv : ∀ (A' : List HTree) (kr' : HTree) (B' : List HTree), (l' ++ [a']) ++ r' = A' ++ kr' :: B' →
      X.prevSibling kr'.handle = prevOf A' kr' →
      X.selfPrev t.handle (X.prevSibling kr'.handle) = prevOf A' kr' := by
    intro A' kr' B' hAB1 h
    refine selfPrev_prevOf ?_ h
    intro k hk
    have : k ∈ (l' ++ [a']) ++ r' := by rw [hAB1]; exact List.mem_append_left _ hk
    cases List.mem_append.1 this with
    | inl h => exact tlX k h
    | inr h => exact trX k h
  rcases split_two hAB hkt with ⟨m, hA, hr⟩ | ⟨m, hl, hB⟩
  · -- `t` before the reference
    cases m with
    | nil =>
      exfalso
      apply hsame
      rw [hA]
      exact prevOf_cons_normal htn hkrn
    | cons b0 Z =>
      simp only [List.cons_append] at hr
      injection hr with e1 e2
      subst e1
      subst e2
      refine finish kr ((l' ++ [a']) ++ Z) B rfl hkrn (by simp) ?_ ?_
      · intro htt
        have sX' : SiteAt X q vq (((l' ++ [a']) ++ t :: Z) ++ kr :: B) := by
          have e : ((l' ++ [a']) ++ t :: Z) ++ kr :: B = (l' ++ [a']) ++ t :: (Z ++ kr :: B) := by simp
          rw [e]; exact sX
        by_cases hZ : Z = []
        · -- the corner `selfMerge`: after the old-place merge the node stands before the
          -- reference already; the helper takes the node's own previous sibling
          subst hZ
          have ha'n : a'.value.isNormal = true := by
            simp [a', setValue_value, Value.isNormal, Value.category]
          rw [Forest.prevSibling_of_ctx sX'.ctx]
          simp only [List.append_nil]
          have e1 : prevOf ((l' ++ [a']) ++ t :: []) kr = some t.handle :=
            prevOf_cons_normal (l := l' ++ [a']) htn hkrn
          rw [e1, Forest.selfPrev_self, Forest.prevSibling_of_ctx sX.ctx]
          simp only
          rw [prevOf_concat_normal ha'n htn, prevOf_concat_normal ha'n hkrn]
        · refine conv ((l' ++ [a']) ++ Z) kr B (by simp) ?_
          rw [Forest.prevSibling_of_ctx sX'.ctx]
          simp only
          exact prevOf_insert_ne_nil (l' ++ [a']) t kr hZ
      · have htopsk : ∀ k ∈ (l' ++ [a]) ++ b :: Z, k.handle ≠ kr.handle := by
          intro k hk
          apply htopsAB k
          rw [hA]
          simp only [List.mem_append, List.mem_cons] at hk ⊢
          rcases hk with (h | h) | h | h
          · exact Or.inl (Or.inl h)
          · exact Or.inl (Or.inr h)
          · exact Or.inr (Or.inr (Or.inl h))
          · exact Or.inr (Or.inr (Or.inr h))
        have e3 : (l' ++ [a]) ++ b :: (Z ++ kr :: B) = ((l' ++ [a]) ++ b :: Z) ++ kr :: B := by simp
        have e4 : ((l' ++ [a]) ++ b :: Z) ++ t :: kr :: B = l' ++ a :: b :: (Z ++ t :: kr :: B) := by simp
        rw [e3, insertBeforeTop_mid t htopsk, e4, mergeAdj_mid_text hx hy _ hl'a]
        simp [a']
  · -- `t` after the reference
    cases hm : m.getLast? with
    | none =>
      -- the reference is the surviving text node `a`
      have em : m = [] := List.getLast?_eq_none_iff.1 hm
      subst em
      have e0 : l' ++ [a] = A ++ [kr] := by rw [hl]
      obtain ⟨el, ea⟩ := List.append_inj' e0 rfl
      have ea' : a = kr := by simpa using ea
      subst ea'
      subst el
      refine finish a' l' r' (setValue_handle _ _) (by simp [a', setValue_value, Value.isNormal, Value.category])
        (by simp) ?_ ?_
      · intro _
        have sX' : SiteAt X q vq (l' ++ a' :: (t :: r')) := by
          have e : l' ++ a' :: (t :: r') = (l' ++ [a']) ++ t :: r' := by simp
          rw [e]; exact sX
        refine conv l' a' r' (by simp) ?_
        rw [Forest.prevSibling_of_ctx sX'.ctx]
      · have e3 : (l' ++ [a]) ++ b :: r' = l' ++ a :: (b :: r') := by simp
        have e4 : l' ++ t :: a :: (b :: r') = (l' ++ [t]) ++ a :: b :: r' := by simp
        have hpre : ∀ k ∈ l' ++ [t], k.handle ≠ a.handle := by
          intro k hk
          cases List.mem_append.1 hk with
          | inl h => exact hl'a k h
          | inr h =>
            have : k = t := by simpa using h
            rw [this]; exact fun e => hak e.symm
        rw [e3, insertBeforeTop_mid t hl'a, e4, mergeAdj_mid_text hx hy _ hpre]
        simp [a']
    | some a0 =>
      obtain ⟨W, em⟩ := List.getLast?_eq_some_iff.1 hm
      subst em
      have e0 : l' ++ [a] = (A ++ kr :: W) ++ [a0] := by rw [hl]; simp
      obtain ⟨el, ea⟩ := List.append_inj' e0 rfl
      have ea' : a = a0 := by simpa using ea
      subst ea'
      subst el
      refine finish kr A (W ++ a' :: r') rfl hkrn (by simp) ?_ ?_
      · intro _
        have sX' : SiteAt X q vq (A ++ kr :: (W ++ a' :: t :: r')) := by
          have e : A ++ kr :: (W ++ a' :: t :: r') = ((A ++ kr :: W) ++ [a']) ++ t :: r' := by simp
          rw [e]; exact sX
        refine conv A kr (W ++ a' :: r') (by simp) ?_
        rw [Forest.prevSibling_of_ctx sX'.ctx]
      · have e3 : ((A ++ kr :: W) ++ [a]) ++ b :: r' = A ++ kr :: (W ++ a :: b :: r') := by simp
        have e4 : A ++ t :: kr :: (W ++ a :: b :: r') = (A ++ t :: kr :: W) ++ a :: b :: r' := by simp
        have hpre : ∀ k ∈ A ++ t :: kr :: W, k.handle ≠ a.handle := by
          intro k hk
          have hk' : k = t ∨ k ∈ A ++ kr :: W := by
            simp only [List.mem_append, List.mem_cons] at hk ⊢
            rcases hk with h | h | h | h
            · exact Or.inr (Or.inl h)
            · exact Or.inl h
            · exact Or.inr (Or.inr (Or.inl h))
            · exact Or.inr (Or.inr (Or.inr h))
          cases hk' with
          | inl h => rw [h]; exact fun e => hak e.symm
          | inr h => exact hl'a k h
        rw [e3, insertBeforeTop_mid t htopsAB, e4, mergeAdj_mid_text hx hy _ hpre]
        simp [a']

end PairBefore

open PairBefore

/-- `insert_before` after its argument checks and the same-position exit, all geometries of the
    moved node (parentless, child of another node, sibling of the reference). -/
theorem insertBefore_pair_tail {f : Forest} {c : Nat} {t : HTree} {q : Nat} {vq : Value} {A : List HTree}
    {kr : HTree} {B : List HTree} (inv : f.Inv) (sq : SiteAt f q vq (A ++ kr :: B))
    (hkrn : kr.value.isNormal = true) (hrc : kr.handle ≠ c) (hgc : f.get? c = some t) (hqt : q ∉ handles t)
    (hnorm : t.value.isNormal = true) (hvq : vq.isText = false)
    (hsame : ¬ prevOf A kr = some c)
    (hocc : Dest.occupiedBy f c (.before kr.handle) = false) :
    (insertBeforeTail (f.removeConsolidate (f.prevSibling c) (f.nextSibling c)).1 kr.handle c).1 =
      specMoveP (.before kr.handle) c f := by
  have nd := inv.nodup
  have htc : t.handle = c := (findList?_some f.roots t hgc).1
  rcases Forest.root_or_ctx hgc with hroot | ⟨cx, hctx⟩
  · exact pair_root inv sq hgc (Forest.ctx_none_of_root nd hroot) hqt hrc hkrn hocc
  · obtain ⟨e0, vo, so⟩ := SiteAt.of_ctx nd hctx
    have hself : cx.self = t := by
      have := Forest.get?_of_ctx nd hctx
      rw [hgc] at this
      exact (Option.some.inj this).symm
    obtain ⟨po, l, k, r⟩ := cx
    simp only at e0 so hself
    subst hself
    subst htc
    by_cases hpo : po = q
    · subst hpo
      have hlists : vo = vq ∧ A ++ kr :: B = l ++ k :: r := by
        have := so.kids
        rw [sq.kids] at this
        have := Option.some.inj this
        injection this with _ e2 e3
        exact ⟨e2.symm, e3⟩
      obtain ⟨ev, hAB⟩ := hlists
      subst ev
      have hsite : Dest.site f (.before kr.handle) = some po := by
        simp only [Dest.site]; exact Forest.parent?_of_ctx sq.ctx
      obtain ⟨X, l1, r1, M, hrcX, O⟩ := oldP inv so
      rw [Forest.prevSibling_of_ctx hctx, Forest.nextSibling_of_ctx hctx]
      simp only
      rw [hrcX, specMoveP_unfold hocc hgc hsite, Forest.parent?_of_ctx so.ctx]
      simp only [Dest.insert]
      rw [O.spec _ (by rw [Forest.editAt_consolidation, Forest.editAt_consolidation]), Forest.editAt_editAt,
        Forest.editAt_editAt]
      rcases O.cases with ⟨e1, e2, eX, hnoop⟩ | ⟨l', a, b, r', x, y, el, er, hx, hy, hc, e1, e2, eM⟩
      · subst eX
        exact pair_same_nomerge inv so hAB hrc hkrn hnorm hsame hnoop
      · subst el er e1 e2 eM
        exact pair_same_merged inv so hc hx hy hAB hrc hkrn hnorm hsame O
    · exact pair_far inv so sq hpo hqt hvq hkrn hocc

/-- **insert_before** against the pair reading of the consolidation clause, for every forest
    satisfying the invariant (adjacent text nodes allowed); also in the corner `selfMerge` (the
    old-place merge brings the node before the reference already: since xot eccbbb7 the helper
    then merges it into its own previous sibling). -/
theorem insertBefore_pair {f : Forest} {r c : Nat} (inv : f.Inv) (hok : (f.insertBefore r c).2 = .ok) :
    (f.insertBefore r c).1 = specMoveP (.before r) c f := by
  have nd := inv.nodup
  have hsc : f.structureCheck (f.parent? r) c = true := by
    cases h : f.structureCheck (f.parent? r) c with
    | true => rfl
    | false => rw [insertBefore_unfold] at hok; simp [h] at hok
  have hsr : f.siblingReferenceCheck r c = true := by
    cases h : f.siblingReferenceCheck r c with
    | true => rfl
    | false => rw [insertBefore_unfold] at hok; simp [hsc, h] at hok
  obtain ⟨q, vq, A, kr, B, t, sq, ekr, hkrn, hrc, hgc, hqt, hnorm, hndoc, hvq⟩ := sibling_checks_unpack nd hsc hsr
  subst ekr
  have hprev : f.prevSibling kr.handle = prevOf A kr := Forest.prevSibling_of_ctx sq.ctx
  have hoccIff := occupied_before sq hgc hnorm hkrn
  by_cases hsame : prevOf A kr = some c
  · have hocc := hoccIff.2 hsame
    rw [insertBefore_unfold]
    unfold specMoveP
    simp [hsc, hsr, hprev, hsame, hocc]
  · have hocc : Dest.occupiedBy f c (.before kr.handle) = false := by
      cases h : Dest.occupiedBy f c (.before kr.handle) with
      | false => rfl
      | true => exact absurd (hoccIff.1 h) hsame
    rw [insertBefore_unfold]
    simp only [hsc, hsr, hprev, Bool.not_true, Bool.false_eq_true, if_false, beq_iff_eq, hsame]
    exact insertBefore_pair_tail inv sq hkrn hrc hgc hqt hnorm hvq hsame hocc

/-- The hypotheses are satisfiable on a forest WITH adjacent text nodes (consolidation on after
    having been off): a text node moved next to a run (merged into its left neighbour only), the
    neighbours of a leaving node merged, a move within one child list; and the corner `selfMerge`
    (`2` between `1` and `3`, moved before `4`: merged into `1`, which then reads `acb`). -/
example :
    let f : Forest := { roots := [.node 0 (.element 2) [.node 1 (.text ['a']) [], .node 2 (.text ['b']) [],
                          .node 3 (.text ['c']) [], .node 4 (.element 3) [], .node 5 (.text ['d']) []],
                          .node 6 (.text ['e']) [],
                          .node 7 (.element 2) [.node 8 (.text ['x']) [], .node 9 (.comment ['k']) [],
                            .node 10 (.text ['y']) [], .node 11 (.text ['z']) []]],
                        next := 12, consolidation := true, everOff := true }
    f.inv = true ∧
      (f.insertBefore 3 6).2 = .ok ∧ selfMerge f (.before 3) 6 = false ∧
      (f.insertBefore 3 6).1 = specMoveP (.before 3) 6 f ∧
      (f.insertBefore 3 6).1.value? 2 = some (.text ['b', 'e']) ∧ (f.insertBefore 3 6).1.value? 3 = some (.text ['c']) ∧
      (f.insertBefore 4 9).2 = .ok ∧ selfMerge f (.before 4) 9 = false ∧
      (f.insertBefore 4 9).1 = specMoveP (.before 4) 9 f ∧
      (f.insertBefore 4 9).1.value? 8 = some (.text ['x', 'y']) ∧ (f.insertBefore 4 9).1.value? 11 = some (.text ['z']) ∧
      (f.insertBefore 1 5).2 = .ok ∧ selfMerge f (.before 1) 5 = false ∧
      (f.insertBefore 1 5).1 = specMoveP (.before 1) 5 f ∧
      selfMerge f (.before 4) 2 = true ∧ (f.insertBefore 4 2).2 = .ok ∧ (f.insertBefore 4 2).1.isLive 2 = false ∧
      (f.insertBefore 4 2).1 = specMoveP (.before 4) 2 f ∧
      (f.insertBefore 4 2).1.value? 1 = some (.text ['a', 'c', 'b']) := by
  decide

end XotModel
