/-
  Finv (C04), part 5: edits of one child list that keep `KidsOK`: dropping children, inserting one
  child, changing a value within its kind; leaves stay leaves.
-/
import XotModel.Lemmas.FinvValid

namespace XotModel
open HTree

def lastText (l : List HTree) : Bool := lastB (textFlags l)
def headText (r : List HTree) : Bool := headB (textFlags r)

@[simp] theorem textFlags_append (a b : List HTree) : textFlags (a ++ b) = textFlags a ++ textFlags b := by
  simp [textFlags]
@[simp] theorem textFlags_cons (k : HTree) (ks : List HTree) :
    textFlags (k :: ks) = k.value.isText :: textFlags ks := by simp [textFlags]
@[simp] theorem textFlags_nil : textFlags [] = [] := rfl

@[simp] theorem lastText_nil : lastText [] = false := rfl
@[simp] theorem headText_nil : headText [] = false := rfl
@[simp] theorem headText_cons (k : HTree) (ks : List HTree) : headText (k :: ks) = k.value.isText := by
  simp [headText, headB]
@[simp] theorem lastText_concat (l : List HTree) (k : HTree) : lastText (l ++ [k]) = k.value.isText := by
  simp [lastText, lastB]

theorem lastText_append_cons (l : List HTree) (k : HTree) (r : List HTree) :
    lastText (l ++ k :: r) = lastText (k :: r) := by
  simp [lastText, lastB, List.getLast?_append]
  cases h : (k.value.isText :: textFlags r).getLast? with
  | none => simp at h
  | some b => simp

theorem lastText_cons_cons (a b : HTree) (r : List HTree) : lastText (a :: b :: r) = lastText (b :: r) := by
  simp [lastText, lastB, List.getLast?_cons_cons]

theorem headText_append_cons (k : HTree) (l r : List HTree) :
    headText ((k :: l) ++ r) = k.value.isText := by simp

/-! ### Sublists -/

theorem KidsOK.of_sublist {s : Bool} {v : Value} {ks ks' : List HTree} (h : KidsOK s v ks)
    (hs : ks'.Sublist ks) (ht : s = true → noAdjB (textFlags ks') = true) : KidsOK s v ks' := by
  obtain ⟨h1, h2, h3, h4, _⟩ := h
  refine ⟨fun k hk => h1 k (hs.subset hk), ?_, ?_, ?_, ht⟩
  · exact List.Pairwise.sublist (hs.map _) h2
  · exact List.Nodup.sublist ((hs.filter _).map _) h3
  · exact List.Nodup.sublist ((hs.filter _).map _) h4

theorem sublist_remove (l : List HTree) (m r : List HTree) : (l ++ r).Sublist (l ++ m ++ r) := by
  rw [List.append_assoc]
  exact List.Sublist.append_left (List.sublist_append_right m r) l

/-- Dropping one child, when (in strict mode) its neighbours are not both text. -/
theorem KidsOK.remove {s : Bool} {v : Value} {l : List HTree} {k : HTree} {r : List HTree}
    (h : KidsOK s v (l ++ k :: r)) (ht : s = true → (lastText l && headText r) = false) :
    KidsOK s v (l ++ r) := by
  refine h.of_sublist (by simpa using sublist_remove l [k] r) ?_
  intro hs
  have h5 := h.text hs
  have ht' := ht hs
  simp only [textFlags_append, textFlags_cons, noAdjB_append, noAdjB_cons, Bool.and_eq_true,
    Bool.not_eq_true'] at h5 ⊢
  unfold lastText headText at ht'
  exact ⟨⟨h5.1.1, h5.1.2.2⟩, ht'⟩

/-- Dropping a text child never needs a side condition. -/
theorem KidsOK.remove_text {s : Bool} {v : Value} {l : List HTree} {k : HTree} {r : List HTree}
    (h : KidsOK s v (l ++ k :: r)) (hk : k.value.isText = true) : KidsOK s v (l ++ r) := by
  apply h.remove
  intro hs
  have h5 := h.text hs
  simp only [textFlags_append, textFlags_cons, noAdjB_append, noAdjB_cons, Bool.and_eq_true,
    Bool.not_eq_true', hk, Bool.true_and, headB, List.head?_cons, Option.getD_some,
    Bool.and_true] at h5
  unfold lastText headText headB
  rw [h5.2]; rfl

/-! ### Same kind -/

/-- Two values that no clause of the invariant can tell apart as children. -/
structure SameKind (a b : Value) : Prop where
  cat : a.category = b.category
  text : a.isText = b.isText
  key : Forest.entryKey a = Forest.entryKey b
  doc : a.isDocument = b.isDocument

theorem SameKind.refl (a : Value) : SameKind a a := ⟨rfl, rfl, rfl, rfl⟩
theorem SameKind.symm {a b : Value} (h : SameKind a b) : SameKind b a :=
  ⟨h.cat.symm, h.text.symm, h.key.symm, h.doc.symm⟩

theorem kidAllowed_sameKind (v : Value) {a b : Value} (h : SameKind a b) :
    kidAllowed v a = kidAllowed v b := by
  cases v <;> simp [kidAllowed, Value.isNormal, h.cat, h.doc]

theorem KidsOK.sameKind {s : Bool} {v : Value} {l : List HTree} {k k' : HTree} {r : List HTree}
    (h : KidsOK s v (l ++ k :: r)) (hk : SameKind k.value k'.value) : KidsOK s v (l ++ k' :: r) := by
  obtain ⟨h1, h2, h3, h4, h5⟩ := h
  have ef : ∀ c : Category,
      ((l ++ k' :: r).filter (fun k => k.value.category == c)).map (fun k => Forest.entryKey k.value)
      = ((l ++ k :: r).filter (fun k => k.value.category == c)).map (fun k => Forest.entryKey k.value) := by
    intro c
    simp only [List.filter_append, List.filter_cons, hk.cat]
    split <;> simp [hk.key]
  refine ⟨?_, ?_, ?_, ?_, ?_⟩
  · intro x hx
    simp only [List.mem_append, List.mem_cons] at hx
    rcases hx with hx | hx | hx
    · exact h1 x (by simp [hx])
    · subst hx; rw [← kidAllowed_sameKind v hk]; exact h1 k (by simp)
    · exact h1 x (by simp [hx])
  · unfold Sorted at *
    have : rankOf k' = rankOf k := by simp [rankOf, hk.cat]
    simpa [this] using h2
  · unfold KeysU at *; rw [ef]; exact h3
  · unfold KeysU at *; rw [ef]; exact h4
  · intro hs; have := h5 hs
    simpa [hk.text] using this

/-- The parent's value matters only through `kidAllowed`. -/
theorem KidsOK.parent {s : Bool} {v v' : Value} {ks : List HTree} (h : KidsOK s v ks)
    (ha : ∀ x, kidAllowed v' x = kidAllowed v x) : KidsOK s v' ks :=
  ⟨fun k hk => by rw [ha]; exact h.allowed k hk, h.sorted, h.attrs, h.nss, h.text⟩

/-! ### Inserting one child -/

theorem fi_rank_le_two (c : Category) : c.rank ≤ 2 := by cases c <;> simp [Category.rank]

/-- Insert `t` between `l` and `r`. -/
theorem KidsOK.insert {s : Bool} {v : Value} {l r : List HTree} {t : HTree}
    (h : KidsOK s v (l ++ r)) (ha : kidAllowed v t.value = true)
    (hl : ∀ x ∈ l, rankOf x ≤ rankOf t) (hr : ∀ x ∈ r, rankOf t ≤ rankOf x)
    (hkey : t.value.category = .normal ∨
      ∀ x ∈ l ++ r, x.value.category = t.value.category → Forest.entryKey x.value ≠ Forest.entryKey t.value)
    (ht : s = true → t.value.isText = true → lastText l = false ∧ headText r = false) :
    KidsOK s v (l ++ t :: r) := by
  obtain ⟨h1, h2, h3, h4, h5⟩ := h
  have keys : ∀ c : Category, c ≠ .normal → KeysU c (l ++ r) → KeysU c (l ++ t :: r) := by
    intro c hc hu
    unfold KeysU at *
    simp only [List.filter_append, List.filter_cons, List.map_append] at hu ⊢
    split
    · rename_i hcat
      simp only [beq_iff_eq] at hcat
      simp only [List.map_cons]
      refine (List.perm_middle.nodup_iff).mpr ?_
      rw [List.nodup_cons]
      refine ⟨?_, hu⟩
      cases hkey with
      | inl hn => rw [hn] at hcat; exact absurd hcat.symm hc
      | inr hk =>
        intro hm
        rw [← List.map_append, ← List.filter_append] at hm
        obtain ⟨x, hx, he⟩ := List.mem_map.mp hm
        rw [List.mem_filter] at hx
        have hxc : x.value.category = c := by simpa using hx.2
        exact hk x hx.1 (by rw [hxc, hcat]) he
    · exact hu
  refine ⟨?_, ?_, keys _ (by decide) h3, keys _ (by decide) h4, ?_⟩
  · intro x hx
    simp only [List.mem_append, List.mem_cons] at hx
    rcases hx with hx | hx | hx
    · exact h1 x (by simp [hx])
    · subst hx; exact ha
    · exact h1 x (by simp [hx])
  · unfold Sorted at *
    simp only [List.map_append, List.map_cons, List.pairwise_append, List.pairwise_cons,
      List.mem_map, List.mem_cons, forall_exists_index, and_imp, forall_apply_eq_imp_iff₂] at h2 ⊢
    obtain ⟨p1, p2, p3⟩ := h2
    refine ⟨p1, ⟨fun x hx => hr x hx, p2⟩, ?_⟩
    intro a ha b hb
    rcases hb with hb | ⟨y, hy, rfl⟩
    · subst hb; exact hl a ha
    · exact p3 a ha y hy
  · intro hs
    have h5' := h5 hs
    simp only [textFlags_append, textFlags_cons, noAdjB_append, noAdjB_cons, Bool.and_eq_true,
      Bool.not_eq_true'] at h5' ⊢
    obtain ⟨⟨q1, q2⟩, q3⟩ := h5'
    cases htt : t.value.isText with
    | false => simp [q1, q2, headB]
    | true =>
      obtain ⟨e1, e2⟩ := ht hs htt
      unfold lastText at e1
      unfold headText at e2
      simp [q1, q2, headB, e1]
      simpa [headB] using e2

/-! ### Leaves -/

theorem kids_nil_of_kidsOK {s : Bool} {v : Value} {ks : List HTree}
    (hv : ∀ x, kidAllowed v x = false) (h : kidsOK s v ks = true) : ks = [] := by
  cases ks with
  | nil => rfl
  | cons k ks =>
    have := ((kidsOK_iff s v _).mp h).allowed k (by simp)
    rw [hv] at this; cases this

theorem kidAllowed_leaf {v : Value} (he : v.isElement = false) (hd : v.isDocument = false) :
    ∀ x, kidAllowed v x = false := by
  intro x; cases v <;> simp_all [kidAllowed, Value.isElement, Value.isDocument]

theorem fi_kids_nil_of_valid {s : Bool} {t : HTree} (hv : validTree s t = true)
    (he : t.value.isElement = false) (hd : t.value.isDocument = false) : t.kids = [] := by
  rw [validTree_eq, Bool.and_eq_true] at hv
  exact kids_nil_of_kidsOK (kidAllowed_leaf he hd) hv.1

theorem kids_nil_of_text {s : Bool} {t : HTree} (hv : validTree s t = true)
    (ht : t.value.isText = true) : t.kids = [] := by
  apply fi_kids_nil_of_valid hv <;> cases h : t.value <;> simp_all [Value.isText, Value.isElement, Value.isDocument]

/-- A parent in a valid forest is an element or a document. -/
theorem parent_kind_of_kidsOK {s : Bool} {v : Value} {k : HTree} {ks : List HTree}
    (h : KidsOK s v ks) (hk : k ∈ ks) : v.isElement = true ∨ v.isDocument = true := by
  have := h.allowed k hk
  cases v <;> simp_all [kidAllowed, Value.isElement, Value.isDocument]

/-- A value update within the kind keeps a subtree valid. -/
theorem validTree_setValue {s : Bool} {t : HTree} {v' : Value} (hv : validTree s t = true)
    (ha : ∀ x, kidAllowed v' x = kidAllowed t.value x) : validTree s (t.setValue v') = true := by
  cases t with
  | node h v ks =>
    simp only [HTree.setValue, fi_validTree_node, Bool.and_eq_true] at hv ⊢
    exact ⟨(kidsOK_iff _ _ _).mpr (((kidsOK_iff _ _ _).mp hv.1).parent ha), hv.2⟩

@[simp] theorem fi_setValue_handle (t : HTree) (v : Value) : (t.setValue v).handle = t.handle := by
  cases t; rfl
@[simp] theorem fi_setValue_value (t : HTree) (v : Value) : (t.setValue v).value = v := by
  cases t; rfl
@[simp] theorem fi_setValue_kids (t : HTree) (v : Value) : (t.setValue v).kids = t.kids := by
  cases t; rfl
@[simp] theorem setKids_handle (t : HTree) (ks : List HTree) : (t.setKids ks).handle = t.handle := by
  cases t; rfl
@[simp] theorem setKids_value (t : HTree) (ks : List HTree) : (t.setKids ks).value = t.value := by
  cases t; rfl
@[simp] theorem setKids_kids (t : HTree) (ks : List HTree) : (t.setKids ks).kids = ks := by
  cases t; rfl
@[simp] theorem handles_setValue (t : HTree) (v : Value) : handles (t.setValue v) = handles t := by
  cases t; simp [HTree.setValue]

end XotModel
