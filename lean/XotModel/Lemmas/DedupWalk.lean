/-
  XotModel.Lemmas.DedupWalk — one pass of `deduplicate_namespaces` as structural recursion.

  1. `dpRem`: the traversal loop of `deduplicate_namespaces_pass` (kept stack, `to_remove`) as a
     recursive function of the kept stack; `dedup_fold` ties it to the fold over the edge stream.
  2. `dpWalk`: the tree after the removal loop, rebuilt recursively; `dedupPass_eq`:
     `dedupPass env t path sub = (scopeModifyAt (dpWalk env []) t path, !(dpRem env [] sub).isEmpty)`.
-/
import XotModel.Lemmas.ScopeWalk
import XotModel.Lemmas.ScopeDedup

namespace XotModel

/-- The declarations of `x` found redundant against the kept stack `K`. -/
def dpRed (env : Env) (K : List (List (Nat × Nat))) (x : Tree) : List (Nat × Nat) :=
  x.nsDecls.filter (isRedundantDeclaration env x K)

/-- The declarations of `x` that are kept (`kept` of the Rust loop). -/
def dpKeep (env : Env) (K : List (List (Nat × Nat))) (x : Tree) : List (Nat × Nat) :=
  x.nsDecls.filter (fun kv => !isRedundantDeclaration env x K kv)

def prefixRem (pre : Path) (r : Path × Nat) : Path × Nat := (pre ++ r.1, r.2)

/-- `to_remove` of a pass over the subtree, paths relative to the subtree, traversal order. -/
def dpRem (env : Env) (K : List (List (Nat × Nat))) : Tree → List (Path × Nat)
  | .node v ks =>
    if v.isElement then
      (dpRed env K (.node v ks)).map (fun kv => (([] : Path), kv.1)) ++
        dpRemList env (dpKeep env K (.node v ks) :: K) 0 ks
    else dpRemList env K 0 ks
where
  dpRemList (env : Env) (K : List (List (Nat × Nat))) (i : Nat) : List Tree → List (Path × Nat)
    | [] => []
    | k :: ks => (dpRem env K k).map (prefixRem [i]) ++ dpRemList env K (i + 1) ks

theorem isNormal_of_isElement {v : Value} (h : v.isElement = true) : v.isNormal = true := by
  cases v <;> simp_all [Value.isElement, Value.isNormal, Value.category]

theorem prefixRem_prefixRem (pre : Path) (i : Nat) (l : List (Path × Nat)) :
    (l.map (prefixRem [i])).map (prefixRem pre) = l.map (prefixRem (pre ++ [i])) := by
  simp [prefixRem, List.append_assoc]

mutual
theorem dedup_fold (env : Env) : ∀ (t : Tree) (pre : Path) (st : DedupState),
    (scopeTraverse pre t).foldl (dedupStep env) st =
      { kept := st.kept, toRemove := st.toRemove ++ (dpRem env st.kept t).map (prefixRem pre) }
  | .node v ks, pre, st => by
    rw [foldl_scopeTraverse]
    by_cases he : v.isElement = true
    · have hn := isNormal_of_isElement he
      simp only [hn, ↓reduceIte]
      rw [show dedupStep env st (.start pre (.node v ks)) =
          { kept := dpKeep env st.kept (.node v ks) :: st.kept,
            toRemove := st.toRemove ++ (dpRed env st.kept (.node v ks)).map (fun kv => (pre, kv.1)) } by
        simp [dedupStep, Tree.value, he, dpKeep, dpRed]]
      rw [dedup_fold_list env ks pre 0]
      simp only [dedupStep, Tree.value, he, ↓reduceIte, List.tail_cons, dpRem, List.map_append,
        List.map_map, List.append_assoc]
      congr 2
      simp [prefixRem, Function.comp_def]
    · have he' : v.isElement = false := by simpa using he
      by_cases hn : v.isNormal = true
      · simp only [hn, ↓reduceIte, dedupStep, Tree.value, he', Bool.false_eq_true, dpRem]
        exact dedup_fold_list env ks pre 0 st
      · simp only [hn, Bool.false_eq_true, ↓reduceIte, dpRem, he']
        exact dedup_fold_list env ks pre 0 st
theorem dedup_fold_list (env : Env) : ∀ (ks : List Tree) (pre : Path) (i : Nat) (st : DedupState),
    (scopeTraverse.go pre i ks).foldl (dedupStep env) st =
      { kept := st.kept,
        toRemove := st.toRemove ++ (dpRem.dpRemList env st.kept i ks).map (prefixRem pre) }
  | [], pre, i, st => by simp [foldl_go_nil, dpRem.dpRemList]
  | k :: ks, pre, i, st => by
    rw [foldl_go_cons, dedup_fold env k, dedup_fold_list env ks]
    simp [dpRem.dpRemList, prefixRem, List.append_assoc]
end

theorem dedupToRemove_eq (env : Env) (path : Path) (sub : Tree) :
    dedupToRemove env path sub = (dpRem env [] sub).map (prefixRem path) := by
  simp [dedupToRemove, dedup_fold]

/-! ### The tree after the removals, rebuilt recursively -/

/-- The removal loop for one element's own entries of `to_remove`, last entry first. -/
def removeOwn (pfxs : List Nat) (ks : List Tree) : List Tree :=
  pfxs.reverse.foldl (fun ks p => removeNsKid p ks) ks

/-- The subtree after one pass with kept stack `K` above it. -/
def dpWalk (env : Env) (K : List (List (Nat × Nat))) : Tree → Tree
  | .node v ks =>
    if v.isElement then
      .node v (removeOwn ((dpRed env K (.node v ks)).map (·.1))
        (dpWalkList env (dpKeep env K (.node v ks) :: K) ks))
    else .node v (dpWalkList env K ks)
where
  dpWalkList (env : Env) (K : List (List (Nat × Nat))) : List Tree → List Tree
    | [] => []
    | k :: ks => dpWalk env K k :: dpWalkList env K ks

/-- The fix-up list a removal list stands for: last entry first, one prefix each. -/
def remFixups (rem : List (Path × Nat)) : List (Path × List Nat) :=
  rem.reverse.map fun r => (r.1, [r.2])

def prefixFix (pre : Path) (fp : Path × List Nat) : Path × List Nat := (pre ++ fp.1, fp.2)

theorem remFixups_append (a b : List (Path × Nat)) :
    remFixups (a ++ b) = remFixups b ++ remFixups a := by
  simp [remFixups]

theorem remFixups_prefix (pre : Path) (rem : List (Path × Nat)) :
    remFixups (rem.map (prefixRem pre)) = (remFixups rem).map (prefixFix pre) := by
  simp [remFixups, prefixRem, prefixFix, Function.comp_def]

theorem applyFixups_append' (t : Tree) (a b : List (Path × List Nat)) :
    applyFixups t (a ++ b) = applyFixups (applyFixups t a) b := by
  simp [applyFixups, List.foldl_append]

theorem removeNamespacesAt_cons' (v : Value) (q : Path) (i : Nat) (pfxs : List Nat) :
    ∀ l : List Tree, removeNamespacesAt (.node v l) (i :: q) pfxs =
      .node v (l.modify i (fun k => removeNamespacesAt k q pfxs)) := by
  induction pfxs with
  | nil =>
    intro l
    simp only [removeNamespacesAt, List.foldl_nil]
    exact congrArg (Tree.node v) (List.modify_id i l).symm
  | cons p rest ih =>
    intro l
    have := ih (l.modify i (fun k => scopeModifyAt (removeNsKidsOf p) k q))
    simp only [removeNamespacesAt, List.foldl_cons, scopeModifyAt] at this ⊢
    rw [this, List.modify_modify_eq]
    rfl

theorem applyFixups_kid' (v : Value) (i : Nat) (fps : List (Path × List Nat)) :
    ∀ l : List Tree, applyFixups (.node v l) (fps.map (prefixFix [i])) =
      .node v (l.modify i (fun k => applyFixups k fps)) := by
  induction fps with
  | nil =>
    intro l
    simp only [applyFixups, List.map_nil, List.foldl_nil]
    exact congrArg (Tree.node v) (List.modify_id i l).symm
  | cons fp rest ih =>
    intro l
    have := ih (l.modify i (fun k => removeNamespacesAt k fp.1 fp.2))
    simp only [applyFixups, List.map_cons, List.foldl_cons, prefixFix, List.singleton_append,
      removeNamespacesAt_cons'] at this ⊢
    rw [this, List.modify_modify_eq]
    rfl

theorem modify_length_append' (done : List Tree) (k : Tree) (ks : List Tree) (f : Tree → Tree) :
    (done ++ k :: ks).modify done.length f = done ++ f k :: ks := by
  induction done with
  | nil => simp
  | cons d rest ih => simp [ih]

/-- The element's own removals, carried out on its (already rebuilt) child list. -/
theorem applyFixups_own (v : Value) (pfxs : List Nat) : ∀ (ks : List Tree),
    applyFixups (.node v ks) (remFixups (pfxs.map fun p => (([] : Path), p))) =
      .node v (removeOwn pfxs ks) := by
  intro ks
  simp only [remFixups, removeOwn, ← List.map_reverse, List.map_map]
  generalize pfxs.reverse = l
  induction l generalizing ks with
  | nil => rfl
  | cons p rest ih =>
    simp only [List.map_cons, applyFixups, List.foldl_cons, Function.comp_apply] at ih ⊢
    rw [show removeNamespacesAt (Tree.node v ks) [] [p] = .node v (removeNsKid p ks) from rfl]
    exact ih _

mutual
theorem rebuild_tree (env : Env) : ∀ (x : Tree) (K : List (List (Nat × Nat))),
    applyFixups x (remFixups (dpRem env K x)) = dpWalk env K x
  | .node v ks, K => by
    by_cases he : v.isElement = true
    · have h2 := rebuild_list env ks (dpKeep env K (.node v ks) :: K) 0 v [] rfl
      simp only [List.nil_append] at h2
      simp only [dpRem, dpWalk, he, ↓reduceIte, remFixups_append, applyFixups_append', h2]
      have := applyFixups_own v ((dpRed env K (.node v ks)).map (·.1))
        (dpWalk.dpWalkList env (dpKeep env K (Tree.node v ks) :: K) ks)
      simpa only [List.map_map, Function.comp_def] using this
    · have he' : v.isElement = false := by simpa using he
      have h2 := rebuild_list env ks K 0 v [] rfl
      simp only [List.nil_append] at h2
      simp only [dpRem, dpWalk, he', Bool.false_eq_true, ↓reduceIte, h2]
theorem rebuild_list (env : Env) : ∀ (ks : List Tree) (K : List (List (Nat × Nat))) (i : Nat)
    (v : Value) (done : List Tree), done.length = i →
    applyFixups (.node v (done ++ ks)) (remFixups (dpRem.dpRemList env K i ks)) =
      .node v (done ++ dpWalk.dpWalkList env K ks)
  | [], K, i, v, done, _ => by
    simp [dpRem.dpRemList, dpWalk.dpWalkList, remFixups, applyFixups]
  | k :: ks, K, i, v, done, hd => by
    subst hd
    have h4 := rebuild_list env ks K (done.length + 1) v (done ++ [k]) (by simp)
    simp only [List.append_assoc, List.singleton_append] at h4
    simp only [dpRem.dpRemList, dpWalk.dpWalkList, remFixups_append, applyFixups_append', h4,
      remFixups_prefix, applyFixups_kid']
    rw [modify_length_append', rebuild_tree env k K]
end

/-! ### A pass on an inner node -/

theorem modify_congr_at {α : Type} (f g : α → α) : ∀ (l : List α) (i : Nat) (k : α),
    l[i]? = some k → f k = g k → l.modify i f = l.modify i g
  | [], _, _, h, _ => by simp at h
  | a :: l, 0, k, h, hfg => by
    simp only [List.getElem?_cons_zero, Option.some.injEq] at h
    subst h
    simp [hfg]
  | a :: l, i + 1, k, h, hfg => by
    simp only [List.getElem?_cons_succ] at h
    simp [modify_congr_at f g l i k h hfg]

theorem ddScopeModifyAt_congr (f g : Tree → Tree) : ∀ (q : Path) (x sub : Tree),
    x.at? q = some sub → f sub = g sub → scopeModifyAt f x q = scopeModifyAt g x q
  | [], x, sub, h, hfg => by
    simp only [Tree.at?, Option.some.injEq] at h
    subst h
    simpa [scopeModifyAt] using hfg
  | i :: q, .node v l, sub, h, hfg => by
    simp only [Tree.at?] at h
    cases hk : l[i]? with
    | none => simp [hk] at h
    | some k =>
      simp only [hk] at h
      simp only [scopeModifyAt]
      congr 1
      exact modify_congr_at _ _ l i k hk (ddScopeModifyAt_congr f g q k sub h hfg)

/-- Fix-ups recorded below `q` only touch the subtree at `q`. -/
theorem applyFixups_at (fps : List (Path × List Nat)) : ∀ (q : Path) (x : Tree),
    applyFixups x (fps.map (prefixFix q)) = scopeModifyAt (fun s => applyFixups s fps) x q
  | [], x => by
    have : prefixFix [] = id := by funext ⟨a, b⟩; rfl
    simp [this, scopeModifyAt]
  | i :: q, .node v l => by
    have h1 : fps.map (prefixFix (i :: q)) = (fps.map (prefixFix q)).map (prefixFix [i]) := by
      simp [prefixFix]
    rw [h1, applyFixups_kid']
    simp only [scopeModifyAt]
    congr 2
    funext k
    exact applyFixups_at fps q k

/-- One pass started at `path`: the subtree there is rebuilt from an EMPTY kept stack (nothing above
    the node is looked at), everything else is untouched. -/
theorem dedupPass_eq (env : Env) (t : Tree) (path : Path) (sub : Tree) (hs : t.at? path = some sub) :
    dedupPass env t path sub =
      (scopeModifyAt (dpWalk env []) t path, !(dpRem env [] sub).isEmpty) := by
  simp only [dedupPass, dedupToRemove_eq, List.isEmpty_map]
  congr 1
  have := remFixups_prefix path (dpRem env [] sub)
  simp only [remFixups] at this
  rw [this, applyFixups_at]
  exact ddScopeModifyAt_congr _ _ path t sub hs (rebuild_tree env sub [])

end XotModel
