/-
  XotModel.Lemmas.SpanDescMono — `Desc` and the frame invariants survive a change of the span map
  outside the keys they read (`Prot`), and growth of the interning tables (`SdEnvApp`); which paths
  are not `Frozen`; closing a frame.
-/
import XotModel.Lemmas.SpanDescDefs

namespace XotModel

/-! ### Tables -/

theorem idxOf_append_of_mem {α : Type} [BEq α] [LawfulBEq α] {l x : List α} {v : α} (h : v ∈ l) :
    (l ++ x).idxOf v = l.idxOf v := by
  rw [List.idxOf_append]; simp [h]

theorem getElem?_append_of_some {α : Type} {l x : List α} {i : Nat} {v : α} (h : l[i]? = some v) :
    (l ++ x)[i]? = some v := by
  have hlt : i < l.length := by
    rcases Nat.lt_or_ge i l.length with h' | h'
    · exact h'
    · rw [List.getElem?_eq_none h'] at h; cases h
  rw [List.getElem?_append_left hlt]; exact h

theorem NameFacts.mono {env env' : Env} (he : SdEnvApp env env') {stack : NsStack} {attr : Bool} {id : Nat}
    {p l : Str} (h : NameFacts env stack attr id p l) : NameFacts env' stack attr id p l := by
  obtain ⟨hm, ns, hn, hl⟩ := h
  obtain ⟨x, hx⟩ := he.pfx
  obtain ⟨z, hz⟩ := he.nm
  refine ⟨by rw [hx]; exact List.mem_append_left _ hm, ns, by rw [hz]; exact getElem?_append_of_some hn, ?_⟩
  rw [hx, idxOf_append_of_mem hm]
  exact hl

/-! ### Facts read `g` only at keys of their own path -/

theorem AttrFacts.mono {ts : List Token} {g g' : SpanKey → Option Span} {env env' : Env} (he : SdEnvApp env env')
    {stack : NsStack} {path : Path} {n : Nat} {v : Str} (hg : ∀ kind, g' ⟨path, kind⟩ = g ⟨path, kind⟩)
    (h : AttrFacts ts g env stack path n v) : AttrFacts ts g' env' stack path n v := by
  obtain ⟨p, l, val, sp, hm, h1, h2, h3, h4⟩ := h
  exact ⟨p, l, val, sp, hm, by rw [hg]; exact h1, by rw [hg]; exact h2, h3, h4.mono he⟩

theorem StartFacts.mono {ts : List Token} {g g' : SpanKey → Option Span} {env env' : Env} (he : SdEnvApp env env')
    {stack : NsStack} {path : Path} {id : Nat} {ks : List Tree}
    (hg : ∀ kind, kind ≠ .elementEnd → g' ⟨path, kind⟩ = g ⟨path, kind⟩)
    (h : StartFacts ts g env stack path id ks) : StartFacts ts g' env' stack path id ks := by
  obtain ⟨⟨p, l, sp, hm, h1, h2⟩, ha⟩ := h
  refine ⟨⟨p, l, sp, hm, by rw [hg _ (by simp)]; exact h1, h2.mono he⟩, fun k hk n v hv => ?_⟩
  obtain ⟨p, l, val, sp, hm, h1, h2, h3, h4⟩ := ha k hk n v hv
  exact ⟨p, l, val, sp, hm, by rw [hg _ (by simp)]; exact h1, by rw [hg _ (by simp)]; exact h2, h3, h4.mono he⟩

theorem StartFacts.of_perm {ts : List Token} {g : SpanKey → Option Span} {env : Env}
    {stack : NsStack} {path : Path} {id : Nat} {ks ks' : List Tree} (hsub : ∀ k ∈ ks', k ∈ ks)
    (h : StartFacts ts g env stack path id ks) : StartFacts ts g env stack path id ks' :=
  ⟨h.1, fun k hk => h.2 k (hsub k hk)⟩

theorem NodeFacts.mono {ts : List Token} {g g' : SpanKey → Option Span} {env env' : Env} (he : SdEnvApp env env')
    {stack : NsStack} {path : Path} {v : Value} {ks : List Tree} (hg : ∀ kind, g' ⟨path, kind⟩ = g ⟨path, kind⟩)
    (h : NodeFacts ts g env stack path v ks) : NodeFacts ts g' env' stack path v ks := by
  cases v with
  | element id =>
    obtain ⟨h1, e, sp, hm, hne, h2, h3⟩ := h
    refine ⟨h1.mono he (fun kind _ => hg kind), e, sp, hm, hne, by rw [hg]; exact h2, fun p l hpl => ?_⟩
    obtain ⟨ps, ls, wsp, a, b, c, d⟩ := h3 p l hpl
    exact ⟨ps, ls, wsp, a, by rw [hg]; exact b, c, d⟩
  | text s =>
    obtain ⟨run, sp, h1, h2, h3, h4⟩ := h
    exact ⟨run, sp, h1, h2, h3, by rw [hg]; exact h4⟩
  | comment s =>
    obtain ⟨t, sp, h1, h2, h3⟩ := h
    exact ⟨t, sp, h1, by rw [hg]; exact h2, h3⟩
  | pi id d =>
    obtain ⟨tg, c, sp, h1, h2, h3, h4, h5, h6⟩ := h
    obtain ⟨z, hz⟩ := he.nm
    exact ⟨tg, c, sp, h1, by rw [hg]; exact h2, by rw [hz]; exact getElem?_append_of_some h3, h4,
      fun x hx => by rw [hg]; exact h5 x hx, h6⟩
  | document => trivial
  | «attribute» n v => trivial
  | «namespace» p n => trivial

mutual
theorem desc_mono {ts : List Token} {g g' : SpanKey → Option Span} {env env' : Env} (he : SdEnvApp env env') :
    ∀ (t : Tree) (stack : NsStack) (path : Path), (∀ k, path <+: k.path → g' k = g k) →
      Desc ts g env stack path t → Desc ts g' env' stack path t
  | .node v ks, stack, path, hg, hd => by
    rw [Desc] at hd ⊢
    exact ⟨hd.1.mono he (fun kind => hg _ (List.prefix_refl _)),
      descList_mono he ks _ path 0 (fun k j hk => hg k ((List.prefix_append path [j]).trans hk)) hd.2⟩
/-- The children read only keys strictly below `path`. -/
theorem descList_mono {ts : List Token} {g g' : SpanKey → Option Span} {env env' : Env} (he : SdEnvApp env env') :
    ∀ (ks : List Tree) (stack : NsStack) (path : Path) (i : Nat),
      (∀ k j, (path ++ [j]) <+: k.path → g' k = g k) →
      Desc.descList ts g env stack path i ks → Desc.descList ts g' env' stack path i ks
  | [], _, _, _, _, _ => trivial
  | k :: ks, stack, path, i, hg, hd =>
    ⟨desc_mono he k stack _ (fun x hx => hg x i hx) hd.1,
      descList_mono he ks stack path (i + 1) hg hd.2⟩
end

theorem snoc_not_prefix_self (a : Path) (i : Nat) : ¬ (a ++ [i]) <+: a := by
  intro h
  have := h.length_le
  simp only [List.length_append, List.length_cons, List.length_nil] at this
  omega

/-! ### Frames -/

theorem descR_mono {ts : List Token} {g g' : SpanKey → Option Span} {env env' : Env} (he : SdEnvApp env env')
    {stack : NsStack} {path : Path} : ∀ (l : List Tree),
      (∀ k, (∃ i, i < l.length ∧ (path ++ [i]) <+: k.path) → g' k = g k) →
      DescR ts g env stack path l → DescR ts g' env' stack path l
  | [], _, _ => trivial
  | k :: rest, hg, ⟨a, b⟩ =>
    ⟨desc_mono he k stack _ (fun x hx => hg x ⟨rest.length, by simp, hx⟩) a,
      descR_mono he rest (fun x ⟨i, hi, hx⟩ => hg x ⟨i, by simp only [List.length_cons]; omega, hx⟩) b⟩

theorem frameDesc_mono {ts : List Token} {g g' : SpanKey → Option Span} {env env' : Env} (he : SdEnvApp env env')
    {stack : NsStack} {path : Path} {f : Frame}
    (hg1 : ∀ k, (∃ i, i < f.rkids.length ∧ (path ++ [i]) <+: k.path) → g' k = g k)
    (hg2 : ∀ kind, kind ≠ .elementEnd → g' ⟨path, kind⟩ = g ⟨path, kind⟩)
    (h : FrameDesc ts g env stack path f) : FrameDesc ts g' env' stack path f := by
  refine ⟨descR_mono he _ hg1 h.1, ?_⟩
  have h2 := h.2
  cases hv : f.value with
  | element id => rw [hv] at h2; exact ⟨h2.1.mono he hg2, h2.2⟩
  | _ => rw [hv] at h2; exact h2

theorem prot_cons {f : Frame} {rest : List Frame} {k : SpanKey} (h : Prot rest k) : Prot (f :: rest) k := by
  rcases h with h | h
  · exact .inl (.inr h)
  · exact .inr (.inr h)

theorem stackDesc_mono {ts : List Token} {g g' : SpanKey → Option Span} {env env' : Env} (he : SdEnvApp env env') :
    ∀ (l : List Frame) (stack : NsStack), (∀ k, Prot l k → g' k = g k) →
      StackDesc ts g env stack l → StackDesc ts g' env' stack l
  | [], _, _, _ => trivial
  | f :: rest, stack, hg, ⟨a, b⟩ =>
    ⟨frameDesc_mono he (fun k hk => hg k (.inl (.inl hk)))
        (fun kind hkind => hg ⟨framesPath rest, kind⟩ (.inr (.inl ⟨rfl, hkind⟩))) a,
      stackDesc_mono he rest _ (fun k hk => hg k (prot_cons hk)) b⟩

/-- `PfxDesc` reads the span map only at the `ElementStart` keys of the open frames. -/
theorem pfxDesc_mono {ts : List Token} {g g' : SpanKey → Option Span} {env env' : Env} (he : SdEnvApp env env') :
    ∀ (l : List Frame) (ops : List Str), (∀ k, OwnKey l k → g' k = g k) →
      PfxDesc ts g env l ops → PfxDesc ts g' env' l ops
  | [], _, _, _ => trivial
  | f :: rest, ops, hg, h => by
    unfold PfxDesc at h ⊢
    cases hv : f.value with
    | element id =>
      rw [hv] at h
      simp only at h ⊢
      obtain ⟨⟨p, l, sp, a, b, c, ns, d⟩, h2⟩ := h
      obtain ⟨z, hz⟩ := he.nm
      exact ⟨⟨p, l, sp, a, by rw [hg _ (.inl ⟨rfl, by simp⟩)]; exact b, c, ns,
        by rw [hz]; exact getElem?_append_of_some d⟩,
        pfxDesc_mono he rest _ (fun k hk => hg k (.inr hk)) h2⟩
    | document => rw [hv] at h; exact pfxDesc_mono he rest _ (fun k hk => hg k (.inr hk)) h
    | text _ => rw [hv] at h; exact pfxDesc_mono he rest _ (fun k hk => hg k (.inr hk)) h
    | comment _ => rw [hv] at h; exact pfxDesc_mono he rest _ (fun k hk => hg k (.inr hk)) h
    | pi _ _ => rw [hv] at h; exact pfxDesc_mono he rest _ (fun k hk => hg k (.inr hk)) h
    | «attribute» _ _ => rw [hv] at h; exact pfxDesc_mono he rest _ (fun k hk => hg k (.inr hk)) h
    | «namespace» _ _ => rw [hv] at h; exact pfxDesc_mono he rest _ (fun k hk => hg k (.inr hk)) h

/-- Only the value of the top frame matters. -/
theorem pfxDesc_head {ts : List Token} {g : SpanKey → Option Span} {env : Env} {f f' : Frame} {rest : List Frame}
    {ops : List Str} (hv : f'.value = f.value) (h : PfxDesc ts g env (f :: rest) ops) :
    PfxDesc ts g env (f' :: rest) ops := by
  unfold PfxDesc at h ⊢
  rw [hv]
  exact h

theorem pfxDesc_element {ts : List Token} {g : SpanKey → Option Span} {env : Env} {f : Frame} {rest : List Frame}
    {ops : List Str} {id : Nat} (hv : f.value = .element id) (h : PfxDesc ts g env (f :: rest) ops) :
    (∃ p l sp, Token.elementStart p l sp ∈ ts ∧
      g ⟨framesPath rest, .elementStart⟩ = some (Span.fromPrefixName p l) ∧ ops.head? = some p.text ∧
      ∃ ns, env.names[id]? = some (l.text, ns)) ∧ PfxDesc ts g env rest ops.tail := by
  unfold PfxDesc at h
  rw [hv] at h
  exact h

theorem pfxDesc_of_element {ts : List Token} {g : SpanKey → Option Span} {env : Env} {f : Frame} {rest : List Frame}
    {ops : List Str} {id : Nat} (hv : f.value = .element id)
    (h : (∃ p l sp, Token.elementStart p l sp ∈ ts ∧
      g ⟨framesPath rest, .elementStart⟩ = some (Span.fromPrefixName p l) ∧ ops.head? = some p.text ∧
      ∃ ns, env.names[id]? = some (l.text, ns)) ∧ PfxDesc ts g env rest ops.tail) :
    PfxDesc ts g env (f :: rest) ops := by
  unfold PfxDesc
  rw [hv]
  exact h

/-! ### Paths -/

theorem framesPath_cons (f : Frame) (rest : List Frame) :
    framesPath (f :: rest) = framesPath rest ++ [f.rkids.length] := by
  simp [framesPath]

theorem framesPath_length (l : List Frame) : (framesPath l).length = l.length := by
  simp [framesPath]

theorem prefix_snoc_ne {a x r : Path} {i j : Nat} (h1 : (a ++ [i]) <+: x) (h2 : x <+: a ++ j :: r) : i = j := by
  have h := h1.trans h2
  have e : a ++ j :: r = a ++ ([j] ++ r) := by simp
  rw [e, List.prefix_append_right_inj] at h
  obtain ⟨t, ht⟩ := h
  simp only [List.cons_append, List.nil_append, List.cons.injEq] at ht
  exact ht.1

/-- A prefix of (an extension of) the path of the top frame is in no finished subtree. -/
theorem not_frozen : ∀ (l : List Frame) (x r : Path), x <+: framesPath l ++ r → ¬ Frozen l x
  | [], _, _, _, h => h
  | f :: rest, x, r, hx, h => by
    rw [framesPath_cons, List.append_assoc] at hx
    rcases h with ⟨i, hi, hp⟩ | h
    · have := prefix_snoc_ne hp hx
      omega
    · exact not_frozen rest x _ hx h

theorem not_ownKey_of_length : ∀ (l : List Frame) (k : SpanKey), l.length ≤ k.path.length → ¬ OwnKey l k
  | [], _, _, h => h
  | f :: rest, k, hl, h => by
    rcases h with ⟨hp, _⟩ | h
    · have := framesPath_length rest
      rw [← hp] at this
      simp only [List.length_cons] at hl
      omega
    · exact not_ownKey_of_length rest k (by simp only [List.length_cons] at hl; omega) h

/-- Keys at the path of the NEXT node (`framesPath l`), or below it, are not protected. -/
theorem not_prot_new (l : List Frame) (k : SpanKey) (r : Path) (hk : k.path = framesPath l ++ r) : ¬ Prot l k := by
  rintro (h | h)
  · exact not_frozen l k.path r (by rw [hk]; exact List.prefix_refl _) h
  · exact not_ownKey_of_length l k (by rw [hk, List.length_append, framesPath_length]; omega) h

/-- The `ElementEnd` key of the current node is not protected. -/
theorem not_prot_end (f : Frame) (rest : List Frame) : ¬ Prot (f :: rest) ⟨framesPath rest, .elementEnd⟩ := by
  rintro (h | h)
  · exact not_frozen (f :: rest) (framesPath rest) [f.rkids.length]
      (by rw [framesPath_cons, List.append_assoc]; exact List.prefix_append _ _) h
  · rcases h with ⟨_, hk⟩ | h
    · exact hk rfl
    · exact not_ownKey_of_length rest ⟨framesPath rest, .elementEnd⟩ (by simp [framesPath_length]) h

/-! ### Closing -/

theorem descList_snoc {ts : List Token} {g : SpanKey → Option Span} {env : Env} (stack : NsStack) (path : Path)
    (k : Tree) : ∀ (l : List Tree) (i : Nat), Desc.descList ts g env stack path i l →
      Desc ts g env stack (path ++ [i + l.length]) k → Desc.descList ts g env stack path i (l ++ [k]) := by
  intro l
  induction l with
  | nil => intro i _ hk; exact ⟨by simpa using hk, trivial⟩
  | cons x xs ih =>
    intro i h hk
    refine ⟨h.1, ih (i + 1) h.2 ?_⟩
    have : i + 1 + xs.length = i + (x :: xs).length := by simp; omega
    rw [this]; exact hk

theorem descList_of_R {ts : List Token} {g : SpanKey → Option Span} {env : Env} (stack : NsStack) (path : Path) :
    ∀ rk : List Tree, DescR ts g env stack path rk → Desc.descList ts g env stack path 0 rk.reverse := by
  intro rk
  induction rk with
  | nil => intro _; trivial
  | cons k rest ih =>
    intro h
    rw [List.reverse_cons]
    exact descList_snoc stack path k _ 0 (ih h.2) (by simpa using h.1)

theorem sdDeclsOf_append (a b : List Tree) : sdDeclsOf (a ++ b) = sdDeclsOf a ++ sdDeclsOf b := by
  simp [sdDeclsOf, List.filterMap_append]

/-- A child that is not a namespace node does not change the declarations. -/
theorem declsOf_reverse_cons {k : Tree} (l : List Tree) (h : ∀ p n, k.value ≠ .namespace p n) :
    sdDeclsOf (k :: l).reverse = sdDeclsOf l.reverse := by
  rw [List.reverse_cons, sdDeclsOf_append]
  suffices sdDeclsOf [k] = [] by rw [this, List.append_nil]
  cases k with
  | node v ks => cases v <;> simp_all [sdDeclsOf, Tree.value]

end XotModel
