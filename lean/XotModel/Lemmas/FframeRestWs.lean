/-
  FframeRestWs — the `get?`-form frame of `remove_insignificant_whitespace(n)`: the call is `Fws.pruned` by the
  specification's set (`Fws.strip_eq_pruned`), which lies inside the subtree of `n`; a node outside that subtree that
  is not the parent of `n` keeps its value and all its children (a removed child of it would be `n` itself or would
  have its parent inside the subtree).
-/
import XotModel.Lemmas.FframeRestEntry
import XotModel.Lemmas.FwsFrame

namespace XotModel
namespace Fws
open HTree

/-- Children outside the pruned set all stay, in order. -/
theorem pruneTextKids_handles (S : Nat → Bool) : ∀ ks : List HTree, (∀ k ∈ ks, S k.handle = false) →
    (pruneTextKids S ks).map (·.handle) = ks.map (·.handle)
  | [], _ => rfl
  | k :: ks, h => by
    have hk := h k List.mem_cons_self
    have ih := pruneTextKids_handles S ks (fun x hx => h x (List.mem_cons_of_mem _ hx))
    unfold pruneTextKids
    rw [hk, Bool.and_false]
    simp only [Bool.false_eq_true, if_false, List.map_cons, pruneText_handle, ih]

mutual
  theorem fr_ctxBelow_parent_mem (h : Nat) : ∀ (t : HTree) (c : Ctx), ctxBelow h t = some c →
      c.parent ∈ handles t
    | .node p v ks, c => by
      intro hc
      unfold ctxBelow at hc
      rcases fr_ctxKids_parent_mem h p ks [] c hc with e | e
      · simp [handles, e]
      · simp [handles, e]
  theorem fr_ctxKids_parent_mem (h p : Nat) : ∀ (ks left : List HTree) (c : Ctx),
      ctxKids h p left ks = some c → c.parent = p ∨ c.parent ∈ handlesList ks
    | [], left, c => by intro hc; simp [ctxKids] at hc
    | k :: ks, left, c => by
      intro hc
      unfold ctxKids at hc
      by_cases e : k.handle = h
      · rw [if_pos e] at hc
        cases hc
        exact Or.inl rfl
      · rw [if_neg e] at hc
        cases hb : ctxBelow h k with
        | some c' =>
          rw [hb] at hc
          cases hc
          right
          simp [handlesList, fr_ctxBelow_parent_mem h k _ hb]
        | none =>
          rw [hb] at hc
          rcases fr_ctxKids_parent_mem h p ks (left ++ [k]) c hc with x | x
          · exact Or.inl x
          · right; simp [handlesList, x]
end

mutual
  theorem fr_ctxBelow_exists (h : Nat) : ∀ (t : HTree), h ∈ handlesList t.kids → ∃ c, ctxBelow h t = some c
    | .node p v ks => by
      intro hm
      unfold ctxBelow
      exact fr_ctxKids_exists h p ks [] hm
  theorem fr_ctxKids_exists (h p : Nat) : ∀ (ks left : List HTree), h ∈ handlesList ks →
      ∃ c, ctxKids h p left ks = some c
    | [], left => by intro hm; simp [handlesList] at hm
    | k :: ks, left => by
      intro hm
      unfold ctxKids
      by_cases e : k.handle = h
      · rw [if_pos e]; exact ⟨_, rfl⟩
      · rw [if_neg e]
        cases hb : ctxBelow h k with
        | some c' => exact ⟨c', rfl⟩
        | none =>
          simp only
          apply fr_ctxKids_exists h p ks (left ++ [k])
          simp only [handlesList, List.mem_append] at hm
          rcases hm with hm | hm
          · exfalso
            rw [handles_eq, List.mem_cons] at hm
            rcases hm with hm | hm
            · exact e hm.symm
            · obtain ⟨c, hc⟩ := fr_ctxBelow_exists h k hm
              rw [hb] at hc; cases hc
          · exact hm
end

end Fws

open HTree Spec PairAll

/-- **The frame of `remove_insignificant_whitespace`.** -/
theorem getFrame_riw {f : Forest} (inv : f.Inv) {n : Nat} {t : HTree} (hg : f.get? n = some t) {z : Nat}
    (hz : z ∉ handles t) (hzp : some z ≠ f.parent? n) : GetFrame f (f.removeInsignificantWhitespace n) z := by
  have nd := inv.nodup
  have hv := inv.valid
  obtain ⟨anc, o⟩ := Fws.occurs_of_get? hg
  have hn : t.handle = n := Fws.handle_of_get? hg
  intro q hq
  obtain ⟨ancq, oq⟩ := Fws.occurs_of_get? hq
  have hh : q.handle = z := Fws.handle_of_get? hq
  have hnot : q.handle ∉ Fws.specTopRemoved anc t := by
    rw [hh]; intro hm; exact hz (Fws.specTopRemoved_subset anc t z hm)
  have e := Fws.strip_eq_pruned nd hv o
  have ndg : (f.removeInsignificantWhitespace t.handle).allHandles.Nodup := by
    rw [e]; exact Fws.pruned_nodup _ nd
  have o' := Fws.strip_occurs nd hv o oq hnot
  have g1 := o'.get? ndg
  rw [Fws.pruneText_handle, hh, hn] at g1
  refine ⟨_, g1, Fws.pruneText_value _ q, ?_⟩
  rw [Fws.pruneText_kids]
  apply Fws.pruneTextKids_handles
  intro k hk
  cases hS : (Fws.specTopRemoved anc t).contains k.handle with
  | false => rfl
  | true =>
    exfalso
    have hkt : k.handle ∈ handles t := Fws.specTopRemoved_subset anc t _ (List.contains_iff_mem.1 hS)
    have ok : Fws.Occurs f k (q :: ancq) := Fws.Occurs.kid oq hk
    obtain ⟨l, r, hs⟩ := List.append_of_mem hk
    have c1 := ok.ctx nd hs
    rw [Fws.handles_eq, List.mem_cons] at hkt
    rcases hkt with hkt | hkt
    · apply hzp
      rw [← hn, ← hkt, Forest.parent?_of_ctx c1]
      show some z = some q.handle
      rw [hh]
    · obtain ⟨c, hc⟩ := Fws.fr_ctxBelow_exists k.handle t hkt
      have c2 := o.ctx_local nd _ _ hc
      rw [c1] at c2
      have hpm := Fws.fr_ctxBelow_parent_mem k.handle t c hc
      rw [← Option.some.inj c2] at hpm
      apply hz
      rw [← hh]
      exact hpm

end XotModel
