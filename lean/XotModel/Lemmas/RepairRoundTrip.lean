/-
  C10 and the round trip, part 2: `create_missing_prefixes` keeps a document inside the C01 domain.

  Hypothesis on the tables besides `envOK`: `nameTableOK env` — the namespace of every registered name
  has an XML-expressible URI (XML Chars only, and not empty unless it is the no-namespace id).  A tree
  can be `Representable` with an element in a namespace whose URI is, say, U+0001 (it is just not
  writable: no declaration of that namespace is `valueOK`); `create_missing_prefixes` would then add
  `xmlns:n0="&#x1;"`, which no parser accepts.  With `nameTableOK` every declaration the call adds —
  `xmlns:n{k}="URI of a name's namespace"`, `xmlns=""` — is a well-formed declaration.
-/
import XotModel.Lemmas.RepairRepresentable
import XotModel.Lemmas.CanonDropNs
import XotModel.Lemmas.RoundTripDeepEqual

namespace XotModel.Repair
open XotModel

/-- The namespace `ns` can be declared: the no-namespace id, or a non-empty URI of XML Chars other
    than the xmlns namespace name (to which nothing can be bound: the parser refuses it). -/
def nsStrOK (env : Env) (ns : Nat) : Bool :=
  ns == Env.noNamespace || (!(env.namespaceStr ns).isEmpty && (env.namespaceStr ns).all isXmlChar &&
    env.namespaceStr ns != xmlnsNamespaceUri)

/-- Every registered name is in a declarable namespace. -/
def nameTableOK (env : Env) : Bool := env.names.all (fun n => nsStrOK env n.2)

theorem nsStrOK_nsOfName {env : Env} (h : nameTableOK env = true) (a : Nat) :
    nsStrOK env (env.nsOfName a) = true := by
  simp only [Env.nsOfName, List.getD_eq_getElem?_getD]
  cases hg : env.names[a]? with
  | none => simp [nsStrOK, Env.noNamespace]
  | some n =>
    simp only [nameTableOK, List.all_eq_true] at h
    exact h n (List.mem_of_getElem? hg)

theorem nameTableOK_ext {env env' : Env} (h : PrefixExt env env') (ht : nameTableOK env = true) :
    nameTableOK env' = true := by
  simpa [nameTableOK, nsStrOK, h.names, h.namespaceStr] using ht

/-! ### What the walk reports missing -/

/-- A namespace the walk can report: a name's namespace other than none and XML. -/
def Reportable (nsOf : Nat → Nat) (ns : Nat) : Prop :=
  ns ≠ Env.noNamespace ∧ ns ≠ Env.xmlNamespace ∧ ∃ a, ns = nsOf a

theorem mem_addMissing_cases {m : List Nat} {ns x : Nat} (h : x ∈ addMissing m ns) : x ∈ m ∨ x = ns := by
  unfold addMissing at h
  split at h
  · exact Or.inl h
  · simpa using h

theorem reportable_of_not_elemOk {nsOf : Nat → Nat} {a : Nat} {top : List (Nat × Nat)}
    (h : (!elemOk (nsOf a) top) = true) : Reportable nsOf (nsOf a) := by
  simp only [elemOk, Bool.not_eq_true', Bool.or_eq_false_iff, beq_eq_false_iff_ne, ne_eq] at h
  exact ⟨h.1.1, h.1.2, a, rfl⟩

theorem reportable_of_not_attrOk {nsOf : Nat → Nat} {a : Nat} {top : List (Nat × Nat)}
    (h : (!attrOk (nsOf a) top) = true) : Reportable nsOf (nsOf a) := by
  simp only [attrOk, Bool.not_eq_true', Bool.or_eq_false_iff, beq_eq_false_iff_ne, ne_eq] at h
  exact ⟨h.1.1, h.1.2, a, rfl⟩

theorem mem_missOf (nsOf : Nat → Nat) (top : List (Nat × Nat)) (name : Nat) :
    ∀ (attrs : List Nat) (m : List Nat) (x : Nat), x ∈ missOf nsOf top name attrs m →
      x ∈ m ∨ Reportable nsOf x := by
  have hfold : ∀ (attrs : List Nat) (m : List Nat) (x : Nat),
      x ∈ attrs.foldl (fun m a => if !attrOk (nsOf a) top then addMissing m (nsOf a) else m) m →
      x ∈ m ∨ Reportable nsOf x := by
    intro attrs
    induction attrs with
    | nil => intro m x h; exact Or.inl h
    | cons a rest ih =>
      intro m x h
      simp only [List.foldl_cons] at h
      rcases ih _ x h with h1 | h1
      · split at h1
        · rename_i hc
          rcases mem_addMissing_cases h1 with h2 | h2
          · exact Or.inl h2
          · exact Or.inr (h2 ▸ reportable_of_not_attrOk hc)
        · exact Or.inl h1
      · exact Or.inr h1
  intro attrs m x h
  unfold missOf at h
  rcases hfold attrs _ x h with h1 | h1
  · split at h1
    · rename_i hc
      rcases mem_addMissing_cases h1 with h2 | h2
      · exact Or.inl h2
      · exact Or.inr (h2 ▸ reportable_of_not_elemOk hc)
    · exact Or.inl h1
  · exact Or.inr h1

mutual
theorem mem_missing_collectRec (nsOf : Nat → Nat) : ∀ (t : Tree) (top : List (Nat × Nat)) (pre : Path)
    (acc : Acc) (x : Nat), x ∈ (collectRec nsOf top pre t acc).missing → x ∈ acc.missing ∨ Reportable nsOf x
  | .node v ks, top, pre, acc, x, h => by
    cases v with
    | element name =>
      simp only [collectRec] at h
      rcases mem_missing_collectKids nsOf ks _ pre 0 _ x h with h1 | h1
      · exact mem_missOf nsOf _ name _ _ x h1
      · exact Or.inr h1
    | document => simp only [collectRec] at h; exact mem_missing_collectKids nsOf ks top pre 0 acc x h
    | text s => simp only [collectRec] at h; exact mem_missing_collectKids nsOf ks top pre 0 acc x h
    | comment s => simp only [collectRec] at h; exact mem_missing_collectKids nsOf ks top pre 0 acc x h
    | pi a b => simp only [collectRec] at h; exact mem_missing_collectKids nsOf ks top pre 0 acc x h
    | «attribute» a b => simp only [collectRec] at h; exact mem_missing_collectKids nsOf ks top pre 0 acc x h
    | «namespace» a b => simp only [collectRec] at h; exact mem_missing_collectKids nsOf ks top pre 0 acc x h
theorem mem_missing_collectKids (nsOf : Nat → Nat) : ∀ (ks : List Tree) (top : List (Nat × Nat)) (pre : Path)
    (i : Nat) (acc : Acc) (x : Nat), x ∈ (collectKids nsOf top pre i ks acc).missing →
      x ∈ acc.missing ∨ Reportable nsOf x
  | [], _, _, _, _, _, h => by simp only [collectKids] at h; exact Or.inl h
  | k :: ks, top, pre, i, acc, x, h => by
    simp only [collectKids] at h
    rcases mem_missing_collectKids nsOf ks top pre (i + 1) _ x h with h1 | h1
    · exact mem_missing_collectRec nsOf k top (pre ++ [i]) acc x h1
    · exact Or.inr h1
end

/-! ### The rebuilt element stays in the C01 domain -/

theorem keeps_insertNamespace_t {env : Env} (p ns : Nat) (hv : valueOK env (.namespace p ns) = true)
    (t : Tree) (hel : t.value.isElement = true) (h : t.allNodes (nodeOK env) = true) :
    Keeps env (insertNamespace p ns t) t := by
  cases t with
  | node v ks =>
    cases v <;> simp [Tree.value, Value.isElement] at hel
    exact keeps_insertNamespace p ns hv _ ks h

theorem keeps_insertNamespaces_t {env : Env} (nd : List (Nat × Nat))
    (hv : ∀ d ∈ nd, valueOK env (.namespace d.1 d.2) = true)
    (t : Tree) (hel : t.value.isElement = true) (h : t.allNodes (nodeOK env) = true) :
    Keeps env (insertNamespaces nd t) t := by
  cases t with
  | node v ks =>
    cases v <;> simp [Tree.value, Value.isElement] at hel
    exact keeps_insertNamespaces nd hv _ ks h

mutual
theorem keeps_rebuild {env : Env} (nsOf : Nat → Nat) (nd : List (Nat × Nat))
    (hnd : ∀ d ∈ nd, valueOK env (.namespace d.1 d.2) = true)
    (h00 : valueOK env (.namespace Env.emptyPrefix Env.noNamespace) = true) :
    ∀ (t : Tree) (isTop : Bool) (top : List (Nat × Nat)), t.allNodes (nodeOK env) = true →
      (isTop = true → t.value.isElement = true) → Keeps env (rebuild nsOf nd isTop top t) t
  | .node v ks, isTop, top, h, htop => by
    have hks : ∀ k ∈ ks, k.allNodes (nodeOK env) = true := fun k hk => allNodes_kid h hk
    cases v with
    | element name =>
      simp only [rebuild]
      have K1 := keeps_node (.element name)
        (keepsList_rebuildKids nsOf nd hnd h00 ks (walkTop nsOf top (.node (.element name) ks) name) hks)
        (nodeOK_of_allNodes h)
      have K2 : Keeps env (if isTop = true then insertNamespaces nd
          (Tree.node (.element name) (rebuildKids nsOf nd (walkTop nsOf top (.node (.element name) ks) name) ks))
          else Tree.node (.element name) (rebuildKids nsOf nd (walkTop nsOf top (.node (.element name) ks) name) ks))
          (.node (.element name) ks) := by
        split
        · exact (keeps_insertNamespaces_t nd hnd _ rfl K1.ok).trans K1
        · exact K1
      split
      · refine (keeps_insertNamespace_t _ _ h00 _ ?_ K2.ok).trans K2
        rw [K2.value]; rfl
      · exact K2
    | document =>
      have : isTop = false := by cases isTop <;> simp_all [Tree.value, Value.isElement]
      subst this
      simp only [rebuild, Bool.false_eq_true, if_false]
      exact keeps_node _ (keepsList_rebuildKids nsOf nd hnd h00 ks top hks) (nodeOK_of_allNodes h)
    | text s =>
      have : isTop = false := by cases isTop <;> simp_all [Tree.value, Value.isElement]
      subst this
      simp only [rebuild, Bool.false_eq_true, if_false]
      exact keeps_node _ (keepsList_rebuildKids nsOf nd hnd h00 ks top hks) (nodeOK_of_allNodes h)
    | comment s =>
      have : isTop = false := by cases isTop <;> simp_all [Tree.value, Value.isElement]
      subst this
      simp only [rebuild, Bool.false_eq_true, if_false]
      exact keeps_node _ (keepsList_rebuildKids nsOf nd hnd h00 ks top hks) (nodeOK_of_allNodes h)
    | pi a b =>
      have : isTop = false := by cases isTop <;> simp_all [Tree.value, Value.isElement]
      subst this
      simp only [rebuild, Bool.false_eq_true, if_false]
      exact keeps_node _ (keepsList_rebuildKids nsOf nd hnd h00 ks top hks) (nodeOK_of_allNodes h)
    | «attribute» a b =>
      have : isTop = false := by cases isTop <;> simp_all [Tree.value, Value.isElement]
      subst this
      simp only [rebuild, Bool.false_eq_true, if_false]
      exact keeps_node _ (keepsList_rebuildKids nsOf nd hnd h00 ks top hks) (nodeOK_of_allNodes h)
    | «namespace» a b =>
      have : isTop = false := by cases isTop <;> simp_all [Tree.value, Value.isElement]
      subst this
      simp only [rebuild, Bool.false_eq_true, if_false]
      exact keeps_node _ (keepsList_rebuildKids nsOf nd hnd h00 ks top hks) (nodeOK_of_allNodes h)
theorem keepsList_rebuildKids {env : Env} (nsOf : Nat → Nat) (nd : List (Nat × Nat))
    (hnd : ∀ d ∈ nd, valueOK env (.namespace d.1 d.2) = true)
    (h00 : valueOK env (.namespace Env.emptyPrefix Env.noNamespace) = true) :
    ∀ (ks : List Tree) (top : List (Nat × Nat)), (∀ k ∈ ks, k.allNodes (nodeOK env) = true) →
      KeepsList env (rebuildKids nsOf nd top ks) ks
  | [], _, _ => by simp only [rebuildKids]; exact .nil
  | k :: ks, top, h => by
    simp only [rebuildKids]
    exact .cons (keeps_rebuild nsOf nd hnd h00 k false top (h k (by simp)) (fun hf => by cases hf))
      (keepsList_rebuildKids nsOf nd hnd h00 ks top (fun k' hk' => h k' (by simp [hk'])))
end

/-! ### One call on an element -/

theorem valueOK_undeclaration {env : Env} (he : envOK env = true) :
    valueOK env (.namespace Env.emptyPrefix Env.noNamespace) = true := by
  have f := envFacts_of_envOK he
  have h0 := f.ns0
  simp only [Env.noNamespace] at h0
  have : ([] : Str) ≠ xmlnsNamespaceUri := by decide
  simp [valueOK, h0, Env.emptyPrefix, Env.noNamespace, Env.xmlPrefix, Env.xmlNamespace, this]

/-- A declaration `xmlns:n{k}="URI"` of a reportable, declarable namespace is well formed. -/
theorem valueOK_generated {env : Env} (he : envOK env = true) {p ns : Nat} {s : Str}
    (hp : env.prefixes[p]? = some s) (hs : IsGenerated s) (hns : nsStrOK env ns = true)
    (h0 : ns ≠ Env.noNamespace) (h1 : ns ≠ Env.xmlNamespace) :
    valueOK env (.namespace p ns) = true := by
  have f := envFacts_of_envOK he
  have hstr : env.prefixStr p = s := by simp [Env.prefixStr, List.getD_eq_getElem?_getD, hp]
  obtain ⟨g1, g2⟩ := ncNameNE_generated hs
  have hpx : p ≠ Env.xmlPrefix := by
    intro hx
    rw [hx, f.p1] at hstr
    obtain ⟨k, hk⟩ := hs
    rw [hk] at hstr
    simp [generatedPrefixName] at hstr
  simp only [nsStrOK, Bool.or_eq_true, beq_iff_eq, h0, false_or, Bool.and_eq_true, bne_iff_ne, ne_eq] at hns
  simp only [valueOK, hstr, g1, Bool.and_eq_true, Bool.or_eq_true, bne_iff_ne, ne_eq, beq_iff_eq, hpx,
    not_false_eq_true, h1, h0, g2, and_self, or_true, true_and, hns.1.1, hns.1.2, hns.2]

theorem uniqueBelow_of_allNodes {env : Env} : ∀ (t : Tree), t.allNodes (nodeOK env) = true → UniqueBelow t := by
  have key : ∀ (t : Tree), t.allNodes (nodeOK env) = true → URec t := by
    intro t
    induction t using Tree.rec (motive_2 := fun ks => (∀ k ∈ ks, k.allNodes (nodeOK env) = true) → UKids ks) with
    | node v ks ih =>
      intro h
      obtain ⟨_, _, hu, _, _⟩ := (nodeOK_iff env v ks).mp (nodeOK_of_allNodes h)
      refine ⟨?_, ih (fun k hk => allNodes_kid h hk)⟩
      rw [frameOf_node]
      split
      · exact hu.2.sublist (keys_declsOfKids_sublist ks)
      · exact List.nodup_nil
    | nil => trivial
    | cons k ks ihk ihks =>
      rename_i h
      exact ⟨ihk (h k (by simp)), ihks (fun k' hk' => h k' (by simp [hk']))⟩
  intro t h
  exact (uniqueBelow_iff t).mpr (key t h)

theorem allNodes_at? {p : Value → List Tree → Bool} : ∀ (path : Path) (t sub : Tree),
    t.allNodes p = true → t.at? path = some sub → sub.allNodes p = true
  | [], t, sub, h, hat => by
    simp only [Tree.at?, Option.some.injEq] at hat
    subst hat
    exact h
  | i :: rel, .node v ks, sub, h, hat => by
    rw [at?_cons] at hat
    cases hk : ks[i]? with
    | none => rw [hk] at hat; cases hat
    | some k =>
      rw [hk] at hat
      exact allNodes_at? rel k sub (allNodes_kid h (List.mem_of_getElem? hk)) hat

/-- `create_missing_prefixes_for_element` on an element of a `nodeOK` tree, sane tables: only the
    prefix table grows, and the result is an edit of `t` inside the C01 domain of the NEW tables. -/
theorem repairElement_keeps (env : Env) (he : envOK env = true) (htab : nameTableOK env = true)
    (t : Tree) (hok : t.allNodes (nodeOK env) = true) (path : Path) (name : Nat) (ks : List Tree)
    (hat : t.at? path = some (.node (.element name) ks)) (env' : Env) (t' : Tree)
    (h : repairElement env t path = .ok (env', t')) : PrefixExt env env' ∧ Keeps env' t' t := by
  rw [repairElement_eq env t path _ hat] at h
  generalize hR : collectRec env.nsOfName (inheritedDecls t path) path (.node (.element name) ks) ⟨[], [], []⟩ = R at h
  cases ha : assignPrefixes env (R.used ++ ((namespacesInScope t path).getD []).map (·.1)) 0 R.missing with
  | none => rw [ha] at h; cases h
  | some r =>
    obtain ⟨env1, nd⟩ := r
    rw [ha] at h
    simp only [Outcome.ok.injEq, Prod.mk.injEq] at h
    obtain ⟨rfl, rfl⟩ := h
    obtain ⟨s1, _⟩ := assignPrefixes_spec _ _ _ _ _ _ ha
    obtain ⟨hext, hgen⟩ := assignPrefixes_ext _ _ _ _ _ _ ha
    have he1 := envOK_ext hext he
    have hok1 := allNodes_ext hext t hok
    have hnd : ∀ d ∈ nd, valueOK env1 (.namespace d.1 d.2) = true := by
      intro d hd
      obtain ⟨s, hs1, hs2⟩ := hgen d hd
      have hmem : d.2 ∈ R.missing := by rw [← s1]; exact List.mem_map_of_mem hd
      rw [← hR] at hmem
      rcases mem_missing_collectRec env.nsOfName _ _ _ _ _ hmem with h0 | ⟨r0, r1, a, ra⟩
      · cases h0
      · refine valueOK_generated he1 hs1 hs2 ?_ r0 r1
        rw [ra, ← hext.nsOfName]
        exact nsStrOK_nsOfName (nameTableOK_ext hext htab) a
    refine ⟨hext, keeps_scopeModifyAt_at _ path t hok1 (fun sub hs => ?_)⟩
    rw [hat] at hs
    cases hs
    exact keeps_rebuild env.nsOfName nd hnd (valueOK_undeclaration he1) _ true _
      (allNodes_at? path t _ hok1 hat) (fun _ => rfl)

end XotModel.Repair
