/-
  The `FullnameSerializer` stack along the traversal: before every event of `genOutputs` the
  stack is (in the sense of `StackInv`) the declaration lists of the open elements on the way from
  the start node to the event's node, on top of the scope the serialiser started with.
-/
import XotModel.Model.Output
import XotModel.Lemmas.Events
import XotModel.Lemmas.Scope10

namespace XotModel

variable (esc : Escapers) (env : Env) (pr : TokenParams) (t : Tree)

/-- The stack after rendering one event (`none`: the event fails). -/
def stepStack (s : FStack) (po : Path × Output) : Option FStack :=
  match renderAtWith esc env pr t s po.1 po.2 with
  | .ok (s', _) => some s'
  | _ => none

/-- The stack after rendering a list of events. -/
def runStack : FStack → List (Path × Output) → Option FStack
  | s, [] => some s
  | s, po :: rest =>
    match stepStack esc env pr t s po with
    | some s' => runStack s' rest
    | none => none

/-- The stack held before each event that is reached. -/
def stackTrace : FStack → List (Path × Output) → List (FStack × Path × Output)
  | _, [] => []
  | s, po :: rest =>
    (s, po.1, po.2) ::
      (match stepStack esc env pr t s po with
       | some s' => stackTrace s' rest
       | none => [])

theorem runStack_append (s : FStack) (a b : List (Path × Output)) :
    runStack esc env pr t s (a ++ b) =
      (runStack esc env pr t s a).bind (fun s' => runStack esc env pr t s' b) := by
  induction a generalizing s with
  | nil => simp [runStack]
  | cons po a ih =>
    simp only [List.cons_append, runStack]
    cases stepStack esc env pr t s po with
    | none => simp
    | some s' => exact ih s'

theorem mem_stackTrace_append (s : FStack) (a b : List (Path × Output)) (x : FStack × Path × Output) :
    x ∈ stackTrace esc env pr t s (a ++ b) ↔
      x ∈ stackTrace esc env pr t s a ∨
        ∃ s', runStack esc env pr t s a = some s' ∧ x ∈ stackTrace esc env pr t s' b := by
  induction a generalizing s with
  | nil => simp [stackTrace, runStack]
  | cons po a ih =>
    simp only [List.cons_append, stackTrace, runStack, List.mem_cons]
    cases stepStack esc env pr t s po with
    | none => simp
    | some s' => simp only []; rw [ih s']; simp [or_assoc]

/-- Events that leave the stack alone. -/
def Output.isNeutral : Output → Bool
  | .startTagOpen _ => false
  | .endTag _ => false
  | _ => true

theorem renderXml_neutral (s s' : FStack) (node : Tree) (parent : Option Tree) (o : Output)
    (tok : OutputToken) (ho : o.isNeutral = true)
    (h : renderXmlWith esc env pr s node parent o = .ok (s', tok)) : s' = s := by
  cases o with
  | startTagOpen n => simp [Output.isNeutral] at ho
  | endTag n => simp [Output.isNeutral] at ho
  | startTagClose =>
    simp only [renderXmlWith] at h
    split at h <;> (simp only [Outcome.ok.injEq, Prod.mk.injEq] at h; exact h.1.symm)
  | pfx a b =>
    simp only [renderXmlWith] at h
    split at h
    · simp only [Outcome.ok.injEq, Prod.mk.injEq] at h; exact h.1.symm
    · split at h <;> (simp only [Outcome.ok.injEq, Prod.mk.injEq] at h; exact h.1.symm)
  | «attribute» a v =>
    simp only [renderXmlWith] at h
    split at h
    · simp only [Outcome.ok.injEq, Prod.mk.injEq] at h; exact h.1.symm
    · cases h
  | text x =>
    simp only [renderXmlWith] at h
    split at h <;> (simp only [Outcome.ok.injEq, Prod.mk.injEq] at h; exact h.1.symm)
  | comment x =>
    simp only [renderXmlWith, Outcome.ok.injEq, Prod.mk.injEq] at h
    exact h.1.symm
  | pi a d =>
    simp only [renderXmlWith] at h
    split at h
    · cases h
    · split at h <;> (simp only [Outcome.ok.injEq, Prod.mk.injEq] at h; exact h.1.symm)

theorem stepStack_some (s s' : FStack) (p : Path) (o : Output)
    (h : stepStack esc env pr t s (p, o) = some s') :
    ∃ node tok, t.at? p = some node ∧
      renderXmlWith esc env pr s node (t.parentAt? p) o = .ok (s', tok) := by
  unfold stepStack renderAtWith at h
  cases hn : t.at? p with
  | none => simp [hn] at h
  | some node =>
    simp only [hn] at h
    cases hr : renderXmlWith esc env pr s node (t.parentAt? p) o with
    | ok st =>
      obtain ⟨s1, tok⟩ := st
      simp only [hr, Option.some.injEq] at h
      subst h
      exact ⟨node, tok, rfl, hr⟩
    | err e => simp [hr] at h
    | panic => simp [hr] at h

theorem stepStack_neutral (s s' : FStack) (p : Path) (o : Output) (ho : o.isNeutral = true)
    (h : stepStack esc env pr t s (p, o) = some s') : s' = s := by
  obtain ⟨node, tok, _, hr⟩ := stepStack_some esc env pr t s s' p o h
  exact renderXml_neutral esc env pr s s' node _ o tok ho hr

theorem stepStack_open (s s' : FStack) (p : Path) (name : Nat) (node : Tree) (hn : t.at? p = some node)
    (h : stepStack esc env pr t s (p, .startTagOpen name) = some s') : s' = s.push node.nsDecls := by
  obtain ⟨node', tok, hn', hr⟩ := stepStack_some esc env pr t s s' p _ h
  rw [hn] at hn'
  cases hn'
  simp only [renderXmlWith] at hr
  split at hr
  · cases hr
  · split at hr
    · simp only [Outcome.ok.injEq, Prod.mk.injEq] at hr; exact hr.1.symm
    · cases hr

/-- A `StartTagOpen` that is rendered: the element is not a no-namespace element inside the scope
    of a default namespace (`has_default_namespace` after pushing its own declarations). -/
theorem stepStack_open_noDefault (s s' : FStack) (p : Path) (name : Nat) (node : Tree)
    (hn : t.at? p = some node)
    (h : stepStack esc env pr t s (p, .startTagOpen name) = some s') :
    ¬ (env.nsOfName name = Env.noNamespace ∧ (s.push node.nsDecls).hasDefaultNamespace = true) := by
  obtain ⟨node', tok, hn', hr⟩ := stepStack_some esc env pr t s s' p _ h
  rw [hn] at hn'
  cases hn'
  simp only [renderXmlWith] at hr
  split at hr
  · cases hr
  · rename_i hc
    intro hh
    apply hc
    simp [hh.1, hh.2]

theorem stepStack_end (s s' : FStack) (p : Path) (name : Nat) (node : Tree) (hn : t.at? p = some node)
    (h : stepStack esc env pr t s (p, .endTag name) = some s') : s' = s.pop node.hasNsDecls := by
  obtain ⟨node', tok, hn', hr⟩ := stepStack_some esc env pr t s s' p _ h
  rw [hn] at hn'
  cases hn'
  simp only [renderXmlWith] at hr
  split at hr
  · split at hr
    · simp only [Outcome.ok.injEq, Prod.mk.injEq] at hr; exact hr.1.symm
    · cases hr
  · simp only [Outcome.ok.injEq, Prod.mk.injEq] at hr; exact hr.1.symm

/-- A run of neutral events at one path: the stack never changes. -/
theorem neutral_run (s : FStack) (evs : List (Path × Output))
    (hall : ∀ po ∈ evs, po.2.isNeutral = true) :
    (∀ x ∈ stackTrace esc env pr t s evs, x.1 = s ∧ (x.2.1, x.2.2) ∈ evs) ∧
    (∀ s', runStack esc env pr t s evs = some s' → s' = s) := by
  induction evs with
  | nil => simp [stackTrace, runStack]
  | cons po evs ih =>
    obtain ⟨ih1, ih2⟩ := ih (fun q hq => hall q (by simp [hq]))
    have hpo := hall po (by simp)
    simp only [stackTrace, runStack, List.mem_cons]
    cases hs : stepStack esc env pr t s po with
    | none => simp
    | some s1 =>
      have : s1 = s := stepStack_neutral esc env pr t s s1 po.1 po.2 hpo hs
      subst this
      refine ⟨?_, fun s' h => ih2 s' h⟩
      rintro x (rfl | hx)
      · simp
      · exact ⟨(ih1 x hx).1, Or.inr (ih1 x hx).2⟩

/-! ### Frames of the open elements -/

/-- What an open node contributes to the scope: an element its declarations, anything else nothing. -/
def frameOf (n : Tree) : List (Nat × Nat) :=
  match n.value with
  | .element _ => n.nsDecls
  | _ => []

/-- Frames of the nodes from `n` down to the node at `rel` (both included), innermost first. -/
def framesAlong : Tree → Path → Frames
  | n, [] => [frameOf n]
  | n, i :: rel =>
    match n.kids[i]? with
    | some k => framesAlong k rel ++ [frameOf n]
    | none => [frameOf n]

/-- Before `StartTagOpen` the node's own frame is not pushed yet. -/
def framesFor (o : Output) (fs : Frames) : Frames :=
  match o with
  | .startTagOpen _ => fs.tail
  | _ => fs

theorem framesAlong_ne_nil (n : Tree) (rel : Path) : framesAlong n rel ≠ [] := by
  cases rel with
  | nil => simp [framesAlong]
  | cons i rel =>
    simp only [framesAlong]
    split <;> simp

theorem framesFor_append (o : Output) (n : Tree) (rel : Path) (extra : Frames) :
    framesFor o (framesAlong n rel ++ extra) = framesFor o (framesAlong n rel) ++ extra := by
  cases o <;> simp [framesFor, List.tail_append_of_ne_nil (framesAlong_ne_nil n rel)]

/-- Every element at or below `n` declares no prefix twice. -/
def UniqueBelow (n : Tree) : Prop := ∀ rel n', n.at? rel = some n' → UniquePrefixes (frameOf n')

theorem UniqueBelow.kid {v : Value} {ks : List Tree} (h : UniqueBelow (.node v ks)) {i : Nat} {k : Tree}
    (hk : ks[i]? = some k) : UniqueBelow k := by
  intro rel n' hn
  apply h (i :: rel) n'
  rw [at?_cons, hk]
  exact hn

end XotModel
