/-
  C06 lemmas: one step of `clone_node`: a fresh childless root `m` is added under `cur` with
  `any_append`.  The call succeeds, only `m` is touched, and `m` ends up under `cur` (or, if it
  was a text node merged into its new neighbour, is gone).
-/
import XotModel.Lemmas.FatomInserted

namespace XotModel
open HTree

namespace Forest

/-- A fresh childless parentless node. -/
structure FreshLeaf (f : Forest) (m : Nat) (v : Value) : Prop where
  get : f.get? m = some (.node m v [])
  root : f.isRoot m = true

theorem FreshLeaf.live {f : Forest} {m : Nat} {v : Value} (fl : FreshLeaf f m v) :
    f.isLive m = true := isRoot_live fl.root

theorem FreshLeaf.value {f : Forest} {m : Nat} {v : Value} (fl : FreshLeaf f m v) :
    f.value? m = some v := by unfold value?; rw [fl.get]; rfl

theorem FreshLeaf.notAnc {f : Forest} (w : f.W) {m : Nat} {v : Value} (fl : FreshLeaf f m v)
    {x : Nat} (hx : x ≠ m) : m ∉ f.ancestors x :=
  leaf_not_ancestor w fl.get rfl (Ne.symm hx)

/-- What one step guarantees. -/
structure Step (f1 f2 : Forest) (m cur : Nat) : Prop where
  w : f2.W
  corrupt : f2.corrupt = f1.corrupt
  par : ∀ x, x ≠ m → f2.parent? x = f1.parent? x
  live : ∀ x, x ≠ m → f2.isLive x = f1.isLive x
  kept : ∀ x, x ≠ m → f1.isLive x = true →
    (f1.isElement x = true ∨ f1.isDocument x = true) → Kept f1 f2 x
  newpar : ∀ q, f2.parent? m = some q → q = cur

theorem step_of_frame {f1 f2 : Forest} (w1 : f1.W) (w2 : f2.W) {m cur : Nat} {v : Value}
    (fl : FreshLeaf f1 m v) {P : List Nat} (fr : Frame f1 f2 P) (hP : ∀ x ∈ P, x = m)
    (hnew : ∀ q, f2.parent? m = some q → q = cur) : Step f1 f2 m cur := by
  have hxP : ∀ x, x ≠ m → x ∉ P := fun x hx h' => hx (hP x h')
  refine ⟨w2, fr.corrupt, fun x hx => fr.parent x (hxP x hx), fun x hx => fr.live x (hxP x hx),
    ?_, hnew⟩
  intro x hx hl _
  refine fr.kept w1 w2 hl ?_
  intro y hy hyP
  have := hP y hyP
  subst this
  exact fl.notAnc w1 hx hy

/-! ### The accepted `checked_*` calls, explicitly -/

theorem checkedAppend_eq {f : Forest} {p c : Nat} {tc : HTree} (hg : f.get? c = some tc)
    (w : f.W) (hpc : p ≠ c) (ha : c ∉ f.ancestors p) :
    f.checkedAppend p c = ((f.cut c).1.placeLast p tc, true) := by
  have h1 := (cut_spec w hg).1
  unfold checkedAppend
  have hcond : (p = c || (f.ancestors p).contains c) = false := by simp [hpc, ha]
  simp only [hcond, Bool.false_eq_true, if_false]
  rcases hc : f.cut c with ⟨f', o⟩
  rw [hc] at h1; simp only at h1; subst h1; rfl

theorem checkedPrepend_eq {f : Forest} {p c : Nat} {tc : HTree} (hg : f.get? c = some tc)
    (w : f.W) (hpc : p ≠ c) (ha : c ∉ f.ancestors p) :
    f.checkedPrepend p c = ((f.cut c).1.placeFirst p tc, true) := by
  have h1 := (cut_spec w hg).1
  unfold checkedPrepend
  have hcond : (p = c || (f.ancestors p).contains c) = false := by simp [hpc, ha]
  simp only [hcond, Bool.false_eq_true, if_false]
  rcases hc : f.cut c with ⟨f', o⟩
  rw [hc] at h1; simp only at h1; subst h1; rfl

theorem checkedInsertAfter_eq {f : Forest} {r n : Nat} {tn : HTree} (hg : f.get? n = some tn)
    (w : f.W) (hrn : r ≠ n) (ha : n ∉ f.ancestors r) (hr : f.isRoot r = false) :
    f.checkedInsertAfter r n = ((f.cut n).1.placeAfter r tn, true) := by
  have h1 := (cut_spec w hg).1
  unfold checkedInsertAfter
  have hcond : ((f.ancestors r).contains n || f.isRoot r) = false := by simp [ha, hr]
  simp only [hrn, hcond, Bool.false_eq_true, if_false]
  rcases hc : f.cut n with ⟨f', o⟩
  rw [hc] at h1; simp only at h1; subst h1; rfl

theorem addConsolidate_nontext {f : Forest} {n : Nat} (h : f.textOf n = none)
    (p q : Option Nat) : f.addConsolidate n p q = (f, false) := by
  rw [addConsolidate_eq_old]; exact addConsolidateOld_not_text h _ _

/-- `append` of a parentless node: either it is placed last under the parent, or it was a text
    node merged into the parent's last child and is gone. -/
theorem append_root {f : Forest} (w : f.W) {p t : Nat} {tt : HTree} (ck : Checked f p t)
    (hroot : f.isRoot t = true) (hg : f.get? t = some tt) :
    ((f.append p t).1 = (f.cut t).1.placeLast p tt ∨ (f.append p t).1.isLive t = false) ∧
    (f.textOf t = none → (f.append p t).1 = (f.cut t).1.placeLast p tt) := by
  have hpn : f.parent? t = none := isRoot_noParent w hroot
  have hlc : (f.lastChild p == some t) = false := by
    cases h : f.lastChild p with
    | none => rfl
    | some c =>
      have := lastChild_parent w h
      by_cases e : c = t
      · rw [e, hpn] at this; cases this
      · simp [e]
  have hform : (f.addConsolidate t (f.lastChild p) none).2 = false →
      (f.append p t).1 = (f.cut t).1.placeLast p tt := by
    intro hc2
    obtain ⟨_, hsame, _, _⟩ := addConsolidate_spec w t (f.lastChild p) none
    unfold append
    simp only [structureCheck_of_checked ck, hlc, Bool.not_true, Bool.false_eq_true, if_false]
    rw [prevSibling_none_of_root hpn, fa_removeConsolidate_none_left]
    simp only [hc2, Bool.false_eq_true, if_false]
    rw [hsame hc2, checkedAppend_eq hg w (ck.ne w) ck.notAnc]
    simp
  constructor
  · cases hc2 : (f.addConsolidate t (f.lastChild p) none).2 with
    | false => exact Or.inl (hform hc2)
    | true =>
      right
      obtain ⟨_, _, _, hdead⟩ := addConsolidate_spec w t (f.lastChild p) none
      unfold append
      simp only [structureCheck_of_checked ck, hlc, Bool.not_true, Bool.false_eq_true, if_false]
      rw [prevSibling_none_of_root hpn, fa_removeConsolidate_none_left]
      simp only [hc2, if_true]
      exact hdead hc2
  · intro hnt
    apply hform
    rw [addConsolidate_nontext hnt]

theorem moved_parent_unique {f2 : Forest} {m cur q : Nat} (h1 : f2.parent? m = some cur)
    (h2 : f2.parent? m = some q) : q = cur := Option.some.inj (h2.symm.trans h1)

/-- A step with a normal (non-document) node: `append`. -/
theorem step_append {f1 : Forest} (w1 : f1.W) {m cur : Nat} {v : Value} (fl : FreshLeaf f1 m v)
    (hcur : f1.isLive cur = true) (hc : f1.isElement cur = true ∨ f1.isDocument cur = true)
    (hne : cur ≠ m) (hcat : v.category = .normal) (hdoc : v.isDocument = false) :
    (f1.append cur m).2 = .ok ∧ Step f1 (f1.append cur m).1 m cur ∧
    (v.isElement = true → (f1.append cur m).1.parent? m = some cur ∧
      (f1.append cur m).1.isElement m = true) := by
  have ck : Checked f1 cur m := ⟨hc, fl.notAnc w1 hne, v, fl.value, hcat, hdoc⟩
  have mo := append_ok w1 (structureCheck_of_checked ck)
  obtain ⟨P, fr, hP⟩ := mo.frame
  have hPm : ∀ x ∈ P, x = m := by
    intro x hx
    rcases hP x hx with h' | ⟨h', _⟩
    · by_cases e : x = m
      · exact e
      · exact absurd h' (fl.notAnc w1 e)
    · rw [nextSibling_none_of_root (isRoot_noParent w1 fl.root)] at h'; cases h'
  obtain ⟨n, hgn⟩ := get?_of_isLive hcur
  have hcut := cut_spec w1 fl.get
  have hcm : cur ∉ handles (HTree.node m v []) := by simpa [handles, handlesList] using hne
  have hgn' : (f1.cut m).1.get? cur = some n := by rw [cut_root_get? w1 fl.get fl.root hcm, hgn]
  have hroot := append_root w1 ck fl.root fl.get
  have hplaced : (f1.append cur m).1 = (f1.cut m).1.placeLast cur (.node m v []) →
      (f1.append cur m).1.parent? m = some cur ∧ (f1.append cur m).1.get? m = some (.node m v []) := by
    intro he
    have w2 := mo.w
    rw [he] at w2 ⊢
    have hins := (placeUnder_inserted (t := .node m v []) hgn').1 w2
    simpa only [HTree.handle] using hins
  refine ⟨mo.ok, step_of_frame w1 mo.w fl fr hPm ?_, ?_⟩
  · intro q hq
    rcases hroot.1 with he | hd
    · exact moved_parent_unique (hplaced he).1 hq
    · rw [(parent?_live hq).1] at hd; cases hd
  · intro hel
    have hnt : f1.textOf m = none := by
      unfold textOf; rw [fl.value]; cases v <;> simp_all [Value.isElement]
    obtain ⟨h1, h2⟩ := hplaced (hroot.2 hnt)
    refine ⟨h1, ?_⟩
    unfold isElement value?; rw [h2]; simp [HTree.value, hel]

theorem appendEntryNode_eq {f : Forest} {k : MapKind} {cur m : Nat} {v : Value}
    (hel : f.isElement cur = true) (hv : f.value? m = some v) (hm : k.matches v = true) :
    f.appendEntryNode k cur m =
      match f.mapGetNode k cur (entryKey v) with
      | some e => (f.setValue e.handle (entryUpdate e.value v), .ok, e.handle)
      | none => ((f.mapPlace k cur m).1, (f.mapPlace k cur m).2, m) := by
  unfold appendEntryNode mapInsertNode
  simp only [hel, hv, hm, Bool.not_true, Bool.false_eq_true, if_false]
  cases f.mapGetNode k cur (entryKey v) <;> rfl

/-- A step with an attribute or namespace node: `append_attribute_node` / `append_namespace_node`. -/
theorem step_entry {f1 : Forest} (w1 : f1.W) {m cur : Nat} {v : Value} (fl : FreshLeaf f1 m v)
    (hel : f1.isElement cur = true) (hne : cur ≠ m) (k : MapKind) (hm : k.matches v = true) :
    (f1.appendEntryNode k cur m).2.1 = .ok ∧ Step f1 (f1.appendEntryNode k cur m).1 m cur := by
  have hcur : f1.isLive cur = true := by
    rw [isLive_iff_value?]; obtain ⟨n, e⟩ := isElement_value hel; rw [e]; rfl
  have hpm : f1.parent? m = none := isRoot_noParent w1 fl.root
  rw [appendEntryNode_eq hel fl.value hm]
  cases hgk : f1.mapGetNode k cur (entryKey v) with
  | some e =>
    simp only
    obtain ⟨h1, h2, h3⟩ := mapGetNode_spec w1 hgk
    have ok := okRes_setLeaf w1 h1 h3 (entryUpdate e.value v)
    refine ⟨trivial, ok.w, rfl, fun x _ => setValue_parent? _ _ _ x, fun x _ => setValue_isLive _ _ _ x,
      ?_, ?_⟩
    · intro x hx hl hc
      refine (setValue_frame f1 e.handle _).kept w1 ok.w hl ?_
      intro y hy hyP
      simp only [List.mem_singleton] at hyP
      subst hyP
      by_cases e' : e.handle = x
      · obtain ⟨l1, l2⟩ := matches_leaf h2
        have hvx : f1.value? x = some e.value := by unfold value?; rw [← e', h1]; rfl
        unfold isElement isDocument at hc
        rw [hvx] at hc
        simp [l1, l2] at hc
      · exact leaf_not_ancestor w1 h1 h3 e' hy
    · intro q hq
      rw [setValue_parent?, hpm] at hq; cases hq
  | none =>
    simp only
    have hanc : m ∉ f1.ancestors cur := fl.notAnc w1 hne
    have hcm : cur ∉ handles (HTree.node m v []) := by simpa [handles, handlesList] using hne
    obtain ⟨_, wc, _, frc, _⟩ := cut_spec w1 fl.get
    have fresh := cut_fresh w1 fl.get
    unfold mapPlace
    cases hmi : f1.mapInsertionPoint k cur with
    | none =>
      simp only
      have cko := (checkedUnder_ok w1 hne hanc fl.live hcur (Or.inl hel)).2
      rw [checkedPrepend_eq fl.get w1 hne hanc] at cko ⊢
      simp only [if_true]
      obtain ⟨n, hgn⟩ := get?_of_isLive hcur
      have hgn' : (f1.cut m).1.get? cur = some n := by
        rw [cut_root_get? w1 fl.get fl.root hcm, hgn]
      have hins := (placeUnder_inserted (t := .node m v []) hgn').2 cko.w
      simp only [HTree.handle] at hins
      refine ⟨trivial, step_of_frame w1 cko.w fl (cko.frame _ fl.get) ?_ ?_⟩
      · intro x hx; simpa [handles, handlesList] using hx
      · intro q hq; exact moved_parent_unique hins.1 hq
    | some ip =>
      simp only
      have hpar := (mapInsertionPoint_spec w1 hmi).1
      have hne' : ip ≠ m := fun e => by rw [e, hpm] at hpar; cases hpar
      have hanc' : m ∉ f1.ancestors ip := fl.notAnc w1 hne'
      have hroot' := isRoot_false_of_parent w1 hpar
      have cko := (checkedBeside_ok w1 hne' hanc' hroot' fl.live (parent?_live hpar).1).1
      rw [checkedInsertAfter_eq fl.get w1 hne' hanc' hroot'] at cko ⊢
      simp only [if_true]
      have hipm : ip ∉ handles (HTree.node m v []) := by simpa [handles, handlesList] using hne'
      have hins : ((f1.cut m).1.placeAfter ip (.node m v [])).parent? m = some cur := by
        have := placeAfter_parent_inserted fresh ip
        simp only [HTree.handle] at this
        rw [this, frc.parent ip hipm, hpar]
      refine ⟨trivial, step_of_frame w1 cko.w fl (cko.frame _ fl.get) ?_ ?_⟩
      · intro x hx; simpa [handles, handlesList] using hx
      · intro q hq; exact moved_parent_unique hins hq

/-- One step of `clone_node`: `any_append(cur, m)` for a fresh childless root `m`. -/
theorem step_anyAppend {f1 : Forest} (w1 : f1.W) {m cur : Nat} {v : Value} (fl : FreshLeaf f1 m v)
    (hcur : f1.isLive cur = true) (hc : f1.isElement cur = true ∨ f1.isDocument cur = true)
    (hne : cur ≠ m) (hdoc : v.isDocument = false)
    (hent : v.category ≠ .normal → f1.isElement cur = true) :
    (f1.anyAppend cur m).2.1 = .ok ∧ Step f1 (f1.anyAppend cur m).1 m cur ∧
    (v.isElement = true → (f1.anyAppend cur m).1.parent? m = some cur ∧
      (f1.anyAppend cur m).1.isElement m = true) := by
  unfold anyAppend
  rw [fl.value]
  cases v with
  | «namespace» a b =>
    have := step_entry w1 fl (hent (by simp [Value.category])) hne .namespaces rfl
    exact ⟨this.1, this.2, fun h => by cases h⟩
  | «attribute» a b =>
    have := step_entry w1 fl (hent (by simp [Value.category])) hne .attributes rfl
    exact ⟨this.1, this.2, fun h => by cases h⟩
  | document => cases hdoc
  | element n => exact step_append w1 fl hcur hc hne rfl rfl
  | text s => exact step_append w1 fl hcur hc hne rfl rfl
  | pi t d => exact step_append w1 fl hcur hc hne rfl rfl
  | comment s => exact step_append w1 fl hcur hc hne rfl rfl

end Forest
end XotModel
