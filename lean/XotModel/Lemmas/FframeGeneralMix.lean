/-
  FframeGeneralMix — `C11_histories_interleaved_sharp`: the interleaved histories of Lemmas/FmapMix.lean with the sharp
  side condition `sharpTouches` (Model/FframeSpec.lean) in the place of `touchesEntries`.
-/
import XotModel.Lemmas.FframeGeneralAll
import XotModel.Lemmas.FmapMix
import XotModel.Lemmas.FhistAtomic

namespace XotModel
namespace Fmap
open HTree Spec
open Forest (MapKind mapChildren)

/-! ### The views read the values of the children only -/

theorem takeWhile_map_value (φ : HTree → HTree) (p : HTree → Bool) : ∀ ks : List HTree,
    (∀ k ∈ ks, p (φ k) = p k) → (ks.map φ).takeWhile p = (ks.takeWhile p).map φ
  | [], _ => rfl
  | k :: ks, h => by
    rw [List.map_cons, List.takeWhile_cons, List.takeWhile_cons, h k (List.mem_cons_self ..)]
    cases p k with
    | true =>
      simp only [if_true, List.map_cons]
      rw [takeWhile_map_value φ p ks (fun a ha => h a (List.mem_cons_of_mem _ ha))]
    | false => rfl

theorem dropWhile_map_value (φ : HTree → HTree) (p : HTree → Bool) : ∀ ks : List HTree,
    (∀ k ∈ ks, p (φ k) = p k) → (ks.map φ).dropWhile p = (ks.dropWhile p).map φ
  | [], _ => rfl
  | k :: ks, h => by
    rw [List.map_cons, List.dropWhile_cons, List.dropWhile_cons, h k (List.mem_cons_self ..)]
    cases p k with
    | true =>
      simp only [if_true]
      exact dropWhile_map_value φ p ks (fun a ha => h a (List.mem_cons_of_mem _ ha))
    | false => rfl

/-- A map of the children that keeps every child's value keeps both views. -/
theorem absT_map_kids (k : MapKind) (x : Nat) (vx : Value) (ks : List HTree) (φ : HTree → HTree)
    (hφ : ∀ c ∈ ks, (φ c).value = c.value) :
    absT k (.node x vx (ks.map φ)) = absT k (.node x vx ks) := by
  have hp : ∀ (cat : Category), ∀ c ∈ ks,
      (fun c : HTree => c.value.category == cat) (φ c) = (fun c : HTree => c.value.category == cat) c := by
    intro cat c hc
    show ((φ c).value.category == cat) = (c.value.category == cat)
    rw [hφ c hc]
  have hfin : ∀ L : List HTree, (∀ c ∈ L, c ∈ ks) → (L.map φ).map entryPair = L.map entryPair := by
    intro L hL
    rw [List.map_map]
    apply List.map_congr_left
    intro c hc
    show entryPair (φ c) = entryPair c
    unfold entryPair
    rw [hφ c (hL c hc)]
  unfold absT
  cases k with
  | namespaces =>
    show ((ks.map φ).takeWhile _).map entryPair = (ks.takeWhile _).map entryPair
    rw [takeWhile_map_value φ _ ks (hp .namespace)]
    exact hfin _ (fun c hc => (List.takeWhile_sublist _).subset hc)
  | attributes =>
    show (((ks.map φ).dropWhile _).takeWhile _).map entryPair = ((ks.dropWhile _).takeWhile _).map entryPair
    rw [dropWhile_map_value φ _ ks (hp .namespace),
      takeWhile_map_value φ _ _ (fun c hc => hp .attribute c ((List.dropWhile_sublist _).subset hc))]
    exact hfin _ (fun c hc => (List.dropWhile_sublist _).subset ((List.takeWhile_sublist _).subset hc))

theorem abs_specSetValue {f : Forest} (nd : f.allHandles.Nodup) {n x : Nat} (v : Value) (k : MapKind)
    (hne : x ≠ n) (hk : n ∉ f.kidHandles x) : abs k (specSetValue n v f) x = abs k f x := by
  unfold abs
  rw [specSetValue_get nd n x v]
  cases hg : f.get? x with
  | none => rfl
  | some t =>
    have hth : t.handle = x := (findList?_some f.roots t hg).1
    cases t with
    | node h w ks =>
      have hh : h = x := hth
      subst hh
      simp only [Option.map_some]
      rw [mapAt_node, if_neg hne, mapAtList_eq_map]
      apply absT_map_kids
      intro c hc
      refine (fg_mapAt_setValue_top v c ?_).1
      intro e
      apply hk
      unfold Forest.kidHandles
      rw [hg]
      exact List.mem_map.2 ⟨c, hc, e⟩

/-! ### The views from the frame of the element and of its children -/

theorem values_of_handles : ∀ (ks ks' : List HTree), ks'.map (·.handle) = ks.map (·.handle) →
    (∀ k ∈ ks, ∀ k' ∈ ks', k'.handle = k.handle → k'.value = k.value) → ks'.map (·.value) = ks.map (·.value)
  | [], [], _, _ => rfl
  | [], _ :: _, h, _ => by cases h
  | _ :: _, [], h, _ => by cases h
  | k :: ks, k' :: ks', h, hv => by
    simp only [List.map_cons, List.cons.injEq] at h ⊢
    exact ⟨hv k (List.mem_cons_self ..) k' (List.mem_cons_self ..) h.1,
      values_of_handles ks ks' h.2 (fun a ha b hb => hv a (List.mem_cons_of_mem _ ha) b (List.mem_cons_of_mem _ hb))⟩

/-- The view as a function of the values of the children. -/
def absV (k : MapKind) (vs : List Value) : List (Nat × Payload) :=
  match k with
  | .namespaces => (vs.takeWhile (fun v => v.category == .namespace)).map (fun v => (Forest.entryKey v, payloadOf v))
  | .attributes =>
    ((vs.dropWhile (fun v => v.category == .namespace)).takeWhile (fun v => v.category == .attribute)).map
      (fun v => (Forest.entryKey v, payloadOf v))

theorem absT_eq_absV (k : MapKind) (t : HTree) : absT k t = absV k (t.kids.map (·.value)) := by
  cases k with
  | namespaces =>
    simp only [absT, absV, mapChildren, List.takeWhile_map, List.map_map]
    rfl
  | attributes =>
    simp only [absT, absV, mapChildren, List.takeWhile_map, List.dropWhile_map, List.map_map]
    rfl

theorem abs_of_frame {f f' : Forest} (nd : f.allHandles.Nodup) (nd' : f'.allHandles.Nodup) {x : Nat}
    (hl : f.isLive x = true) (fr : Forest.FrameAt f f' x)
    (hk : ∀ a ∈ f.kidHandles x, f'.value? a = f.value? a) (k : MapKind) : abs k f' x = abs k f x := by
  obtain ⟨t, hg⟩ := Forest.get_of_live hl
  obtain ⟨t', hg'⟩ := Forest.get_of_live fr.live
  have hkids := fr.kids
  unfold Forest.kidHandles at hkids
  rw [hg, hg'] at hkids
  unfold abs
  rw [hg, hg']
  simp only []
  rw [absT_eq_absV, absT_eq_absV]
  congr 1
  have hth : t.handle = x := (findList?_some f.roots t hg).1
  have hth' : t'.handle = x := (findList?_some f'.roots t' hg').1
  cases t with
  | node q v L =>
    cases t' with
    | node q' v' L' =>
      have e1 : q = x := hth
      have e2 : q' = x := hth'
      subst e1; subst e2
      have so : SiteAt f _ v L := ⟨nd, hg⟩
      have so' : SiteAt f' _ v' L' := ⟨nd', hg'⟩
      apply values_of_handles L L' hkids
      intro c hc c' hc' e
      have g1 := PairAfter.site_getKid so hc
      have g2 := PairAfter.site_getKid so' hc'
      rw [e] at g2
      have := hk c.handle (by unfold Forest.kidHandles; rw [hg]; exact List.mem_map_of_mem hc)
      simp only [Forest.value?, g1, g2, Option.map_some, Option.some.injEq] at this
      exact this

/-! ### A step that does not touch `x` in the sharp reading -/

theorem sharp_step {s : PStore} (hi : s.forest.Inv) (c : PCall) (hw : c.wellKinded) (x : Nat)
    (ht : sharpTouches s x c = false) :
    (∀ k, abs k (s.step c).forest x = abs k s.forest x) ∧
      (s.step c).forest.isElement x = s.forest.isElement x := by
  have coarse : touchesEntries s.forest x c = false →
      (∀ k, abs k (s.step c).forest x = abs k s.forest x) ∧
        (s.step c).forest.isElement x = s.forest.isElement x :=
    fun h => ⟨fun k => abs_step_of_not_touches hi c hw x h k, isElement_step_of_not_touches hi c hw x h⟩
  cases c with
  | parse m t => exact coarse ht
  | api y =>
    by_cases herr : (y.args.all (fun a => s.forest.isLive a) && (y.run s.store).2.isErr) = true
    · simp only [Bool.and_eq_true, List.all_eq_true] at herr
      obtain ⟨hla, he⟩ := herr
      have hsame : (s.step (.api y)).forest = s.forest := by
        cases hr : (y.run s.store).2 with
        | err e =>
          rcases Forest.xcall_clauses (s := s.store) hi y hla with ⟨_, h'⟩ | ⟨_, h'⟩
          · exact congrArg Store.forest (h'.atomic e hr)
          · exact congrArg Store.forest (congrArg Prod.fst h')
        | ok => rw [hr] at he; cases he
        | panic => rw [hr] at he; cases he
      rw [hsame]
      exact ⟨fun _ => rfl, rfl⟩
    by_cases hf : (y.framed && decide ((y.run s.store).2 = .ok) && y.args.all (fun a => s.forest.isLive a)) = true
    · simp only [sharpTouches, if_neg herr, if_pos hf, Bool.or_eq_false_iff, Bool.not_eq_false'] at ht
      obtain ⟨hl, hany⟩ := ht
      simp only [Bool.and_eq_true, decide_eq_true_eq, List.all_eq_true] at hf
      obtain ⟨⟨hfr, hok⟩, hla⟩ := hf
      have hi' : (s.step (.api y)).forest.Inv := PStore.fph_step_inv hi (.api y) hw
      have hnot : ∀ a ∈ x :: s.forest.kidHandles x, a ∉ y.writtenParents s.forest ∧
          a ∉ y.removedHandles s.forest ∧ a ∉ y.movedSubtree s.forest := by
        intro a ha
        have := List.any_eq_false.1 hany a ha
        simp only [decide_eq_true_eq, List.mem_append, not_or] at this
        exact ⟨this.1.1, this.1.2, this.2⟩
      have frame : ∀ a, s.forest.isLive a = true → a ∈ x :: s.forest.kidHandles x →
          Forest.FrameAt s.forest (s.step (.api y)).forest a := by
        intro a hal ha
        obtain ⟨h1, h2, h3⟩ := hnot a ha
        exact frame_general (s := s.store) hi hw hfr hla hok hal h1 h2 h3
      have frx := frame x hl (List.mem_cons_self ..)
      have hkl : ∀ a ∈ s.forest.kidHandles x, s.forest.isLive a = true := by
        intro a ha
        have := parent?_of_kid hi.nodup ha
        unfold Forest.parent? at this
        cases hc : s.forest.ctx? a with
        | none => rw [hc] at this; cases this
        | some cx =>
          have := Forest.get?_of_ctx hi.nodup hc
          exact Forest.isLive_of_get this
      refine ⟨fun k => abs_of_frame hi.nodup hi'.nodup hl frx
        (fun a ha => (frame a (hkl a ha) (List.mem_cons_of_mem _ ha)).value) k, ?_⟩
      unfold Forest.isElement
      rw [frx.value]
    · have : sharpTouches s x (.api y) = touchesEntries s.forest x (.api y) := by
        simp only [sharpTouches, if_neg herr, if_neg hf]
      exact coarse (this ▸ ht)

theorem mix_history_sharp (T : List Nat) : ∀ (steps : List MixStep) (s : PStore) (F : Fam), s.forest.Inv →
    (∀ x ∈ T, ∀ k, abs k s.forest x = F x k) → mixOkSharp T s steps →
    (mixRun s steps).forest.Inv ∧
    (∀ x ∈ T, ∀ k, abs k (mixRun s steps).forest x = specOps2 F (mapOpsOf steps) x k) ∧
    (∀ x ∈ T, (mixRun s steps).forest.isElement x = s.forest.isElement x)
  | [], s, F, hi, hF, _ => ⟨hi, hF, fun _ _ => rfl⟩
  | .map op :: rest, s, F, hi, hF, hok => by
    obtain ⟨h1, hcl, h3⟩ := hok
    obtain ⟨_, st⟩ := step_all (F := famOf s.forest) hi (fun _ _ => rfl) op h1
    have hF' : ∀ x ∈ T, ∀ k, abs k (MixStep.run s (.map op)).forest x = specStep F op x k := by
      intro x hx k
      show abs k (op.run s.forest).1 x = _
      rw [st.agree x k]
      exact specStep_congr T (famOf s.forest) F op hF hcl x hx k
    obtain ⟨g1, g2, g3⟩ := mix_history_sharp T rest (MixStep.run s (.map op)) (specStep F op) st.inv hF' h3
    refine ⟨g1, g2, fun x hx => ?_⟩
    rw [show mixRun s (.map op :: rest) = mixRun (MixStep.run s (.map op)) rest from rfl, g3 x hx]
    exact st.elem x
  | .other c :: rest, s, F, hi, hF, hok => by
    obtain ⟨hw, hnt, h3⟩ := hok
    have hi' : (MixStep.run s (.other c)).forest.Inv := PStore.fph_step_inv hi c hw
    have hF' : ∀ x ∈ T, ∀ k, abs k (MixStep.run s (.other c)).forest x = F x k := by
      intro x hx k
      show abs k (s.step c).forest x = _
      rw [(sharp_step hi c hw x (hnt x hx)).1 k]; exact hF x hx k
    obtain ⟨g1, g2, g3⟩ := mix_history_sharp T rest (MixStep.run s (.other c)) F hi' hF' h3
    refine ⟨g1, g2, fun x hx => ?_⟩
    rw [show mixRun s (.other c :: rest) = mixRun (MixStep.run s (.other c)) rest from rfl, g3 x hx]
    exact (sharp_step hi c hw x (hnt x hx)).2

end Fmap
end XotModel
