/-
  FframeGeneralMix — `C11_histories_interleaved_sharp`: the interleaved histories of Lemmas/FmapMix.lean with the sharp
  side condition `sharpTouches` (Model/FframeSpec.lean) in the place of `touchesEntries`.
-/
import XotModel.Lemmas.FframeGeneral
import XotModel.Lemmas.FmapMix

namespace XotModel
namespace Fmap
open HTree Spec
open Forest (MapKind mapChildren)

/-! ### The views read the values of the children only -/

theorem takeWhile_map_value (φ : HTree → HTree) (p : HTree → Bool) : ∀ ks : List HTree,
    (∀ k ∈ ks, p (φ k) = p k) → (ks.map φ).takeWhile p = (ks.takeWhile p).map φ
  | [], _ => rfl
  | k :: ks, h => by
    rw [List.map_cons, List.takeWhile_cons, List.takeWhile_cons, h k (List.mem_cons_self ..)]
    cases p k with
    | true =>
      simp only [if_true, List.map_cons]
      rw [takeWhile_map_value φ p ks (fun a ha => h a (List.mem_cons_of_mem _ ha))]
    | false => rfl

theorem dropWhile_map_value (φ : HTree → HTree) (p : HTree → Bool) : ∀ ks : List HTree,
    (∀ k ∈ ks, p (φ k) = p k) → (ks.map φ).dropWhile p = (ks.dropWhile p).map φ
  | [], _ => rfl
  | k :: ks, h => by
    rw [List.map_cons, List.dropWhile_cons, List.dropWhile_cons, h k (List.mem_cons_self ..)]
    cases p k with
    | true =>
      simp only [if_true]
      exact dropWhile_map_value φ p ks (fun a ha => h a (List.mem_cons_of_mem _ ha))
    | false => rfl

/-- A map of the children that keeps every child's value keeps both views. -/
theorem absT_map_kids (k : MapKind) (x : Nat) (vx : Value) (ks : List HTree) (φ : HTree → HTree)
    (hφ : ∀ c ∈ ks, (φ c).value = c.value) :
    absT k (.node x vx (ks.map φ)) = absT k (.node x vx ks) := by
  have hp : ∀ (cat : Category), ∀ c ∈ ks,
      (fun c : HTree => c.value.category == cat) (φ c) = (fun c : HTree => c.value.category == cat) c := by
    intro cat c hc
    show ((φ c).value.category == cat) = (c.value.category == cat)
    rw [hφ c hc]
  have hfin : ∀ L : List HTree, (∀ c ∈ L, c ∈ ks) → (L.map φ).map entryPair = L.map entryPair := by
    intro L hL
    rw [List.map_map]
    apply List.map_congr_left
    intro c hc
    show entryPair (φ c) = entryPair c
    unfold entryPair
    rw [hφ c (hL c hc)]
  unfold absT
  cases k with
  | namespaces =>
    show ((ks.map φ).takeWhile _).map entryPair = (ks.takeWhile _).map entryPair
    rw [takeWhile_map_value φ _ ks (hp .namespace)]
    exact hfin _ (fun c hc => (List.takeWhile_sublist _).subset hc)
  | attributes =>
    show (((ks.map φ).dropWhile _).takeWhile _).map entryPair = ((ks.dropWhile _).takeWhile _).map entryPair
    rw [dropWhile_map_value φ _ ks (hp .namespace),
      takeWhile_map_value φ _ _ (fun c hc => hp .attribute c ((List.dropWhile_sublist _).subset hc))]
    exact hfin _ (fun c hc => (List.dropWhile_sublist _).subset ((List.takeWhile_sublist _).subset hc))

theorem abs_specSetValue {f : Forest} (nd : f.allHandles.Nodup) {n x : Nat} (v : Value) (k : MapKind)
    (hne : x ≠ n) (hk : n ∉ f.kidHandles x) : abs k (specSetValue n v f) x = abs k f x := by
  unfold abs
  rw [specSetValue_get nd n x v]
  cases hg : f.get? x with
  | none => rfl
  | some t =>
    have hth : t.handle = x := (findList?_some f.roots t hg).1
    cases t with
    | node h w ks =>
      have hh : h = x := hth
      subst hh
      simp only [Option.map_some]
      rw [mapAt_node, if_neg hne, mapAtList_eq_map]
      apply absT_map_kids
      intro c hc
      refine (fg_mapAt_setValue_top v c ?_).1
      intro e
      apply hk
      unfold Forest.kidHandles
      rw [hg]
      exact List.mem_map.2 ⟨c, hc, e⟩

/-! ### A step that does not touch `x` in the sharp reading -/

theorem sharp_step {s : PStore} (hi : s.forest.Inv) (c : PCall) (hw : c.wellKinded) (x : Nat)
    (ht : sharpTouches s.forest x c = false) :
    (∀ k, abs k (s.step c).forest x = abs k s.forest x) ∧
      (s.step c).forest.isElement x = s.forest.isElement x := by
  have coarse : touchesEntries s.forest x c = false →
      (∀ k, abs k (s.step c).forest x = abs k s.forest x) ∧
        (s.step c).forest.isElement x = s.forest.isElement x :=
    fun h => ⟨fun k => abs_step_of_not_touches hi c hw x h k, isElement_step_of_not_touches hi c hw x h⟩
  cases c with
  | parse m t => exact coarse ht
  | api y =>
    by_cases hf : y.framed = true
    · simp only [sharpTouches, if_pos hf, Bool.or_eq_false_iff, Bool.not_eq_false'] at ht
      obtain ⟨hl, hany⟩ := ht
      have hnot : ∀ a ∈ x :: s.forest.kidHandles x, a ∉ y.writtenParents s.forest := by
        intro a ha hm
        have := List.any_eq_false.1 hany a ha
        simp only [decide_eq_true_eq] at this
        exact this (List.mem_append_left _ hm)
      have hnx : x ∉ y.writtenParents s.forest := hnot x (List.mem_cons_self ..)
      have fr := (frame_general_framed (s := s.store) hi hf hl hnx).1
      have hel : (s.step (.api y)).forest.isElement x = s.forest.isElement x := by
        unfold Forest.isElement
        have : (s.step (.api y)).forest.value? x = s.forest.value? x := fr.value
        rw [this]
      refine ⟨fun k => ?_, hel⟩
      show abs k (y.run s.store).1.forest x = abs k s.store.forest x
      rcases framedShape s.store y hf with e | ⟨b, e⟩ | ⟨v, e⟩ | ⟨n, v, hwp, e⟩
      · rw [e]
      · rw [e]; rfl
      · rw [e]
        obtain ⟨t, hg⟩ := Forest.get_of_live hl
        have hg' : s.store.forest.get? x = some t := hg
        unfold abs
        rw [get?_newNode_live v hg', hg']
      · rw [e]
        have hwp' : y.writtenParents s.forest = [n] := hwp
        apply abs_specSetValue hi.nodup v k
        · intro eq; apply hnx; rw [hwp', eq]; exact List.mem_singleton.2 rfl
        · intro hm
          apply hnot n (List.mem_cons_of_mem _ hm)
          rw [hwp']; exact List.mem_singleton.2 rfl
    · have : sharpTouches s.forest x (.api y) = touchesEntries s.forest x (.api y) := by
        simp only [sharpTouches, if_neg hf]
      exact coarse (this ▸ ht)

theorem mix_history_sharp (T : List Nat) : ∀ (steps : List MixStep) (s : PStore) (F : Fam), s.forest.Inv →
    (∀ x ∈ T, ∀ k, abs k s.forest x = F x k) → mixOkSharp T s steps →
    (mixRun s steps).forest.Inv ∧
    (∀ x ∈ T, ∀ k, abs k (mixRun s steps).forest x = specOps2 F (mapOpsOf steps) x k) ∧
    (∀ x ∈ T, (mixRun s steps).forest.isElement x = s.forest.isElement x)
  | [], s, F, hi, hF, _ => ⟨hi, hF, fun _ _ => rfl⟩
  | .map op :: rest, s, F, hi, hF, hok => by
    obtain ⟨h1, hcl, h3⟩ := hok
    obtain ⟨_, st⟩ := step_all (F := famOf s.forest) hi (fun _ _ => rfl) op h1
    have hF' : ∀ x ∈ T, ∀ k, abs k (MixStep.run s (.map op)).forest x = specStep F op x k := by
      intro x hx k
      show abs k (op.run s.forest).1 x = _
      rw [st.agree x k]
      exact specStep_congr T (famOf s.forest) F op hF hcl x hx k
    obtain ⟨g1, g2, g3⟩ := mix_history_sharp T rest (MixStep.run s (.map op)) (specStep F op) st.inv hF' h3
    refine ⟨g1, g2, fun x hx => ?_⟩
    rw [show mixRun s (.map op :: rest) = mixRun (MixStep.run s (.map op)) rest from rfl, g3 x hx]
    exact st.elem x
  | .other c :: rest, s, F, hi, hF, hok => by
    obtain ⟨hw, hnt, h3⟩ := hok
    have hi' : (MixStep.run s (.other c)).forest.Inv := PStore.fph_step_inv hi c hw
    have hF' : ∀ x ∈ T, ∀ k, abs k (MixStep.run s (.other c)).forest x = F x k := by
      intro x hx k
      show abs k (s.step c).forest x = _
      rw [(sharp_step hi c hw x (hnt x hx)).1 k]; exact hF x hx k
    obtain ⟨g1, g2, g3⟩ := mix_history_sharp T rest (MixStep.run s (.other c)) F hi' hF' h3
    refine ⟨g1, g2, fun x hx => ?_⟩
    rw [show mixRun s (.other c :: rest) = mixRun (MixStep.run s (.other c)) rest from rfl, g3 x hx]
    exact (sharp_step hi c hw x (hnt x hx)).2

end Fmap
end XotModel
