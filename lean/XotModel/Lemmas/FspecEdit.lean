/-
  FspecEdit — the algebra of `editAt` (apply a list function to the child list of one node):
  composition at one site, commutation of edits at two different sites, lookups after an edit,
  handles after an edit, and the forest primitives (`replaceBelow`, `mapAt` on a child) as edits
  of the parent's child list.
-/
import XotModel.Lemmas.FspecBase

namespace XotModel
open HTree

/-- The node-level function behind `editAt`. -/
def kidsFn (g : List HTree → List HTree) : HTree → HTree := fun n => n.setKids (g n.kids)

theorem editAt_def (s : Nat) (g : List HTree → List HTree) : HTree.editAt s g = mapAt s (kidsFn g) := rfl

theorem editAt_node (s : Nat) (g : List HTree → List HTree) (h : Nat) (v : Value) (ks : List HTree) :
    HTree.editAt s g (.node h v ks) =
      if h = s then .node h v (g ks) else .node h v (ks.map (HTree.editAt s g)) := by
  rw [editAt_def, mapAt_node, mapAtList_eq_map]
  simp [kidsFn, HTree.setKids, HTree.kids]

theorem editAt_handle (s : Nat) (g : List HTree → List HTree) (t : HTree) :
    (HTree.editAt s g t).handle = t.handle := by
  cases t with
  | node h v ks => rw [editAt_node]; split <;> rfl

theorem editAt_value (s : Nat) (g : List HTree → List HTree) (t : HTree) :
    (HTree.editAt s g t).value = t.value := by
  cases t with
  | node h v ks => rw [editAt_node]; split <;> rfl

theorem editAt_of_not_mem {s : Nat} {g : List HTree → List HTree} (t : HTree) (hn : s ∉ handles t) :
    HTree.editAt s g t = t := fs_mapAt_of_not_mem t hn

theorem map_editAt_of_not_mem {s : Nat} {g : List HTree → List HTree} (ks : List HTree)
    (hn : s ∉ handlesList ks) : ks.map (HTree.editAt s g) = ks := by
  rw [editAt_def, ← mapAtList_eq_map]
  exact fs_mapAtList_of_not_mem ks hn

/-! ### Composition at one site -/

mutual
  theorem editAt_editAt (s : Nat) (g1 g2 : List HTree → List HTree) : ∀ t : HTree,
      HTree.editAt s g2 (HTree.editAt s g1 t) = HTree.editAt s (g2 ∘ g1) t
    | .node h v ks => by
      rw [editAt_node s g1, editAt_node s (g2 ∘ g1)]
      by_cases hh : h = s
      · rw [if_pos hh, if_pos hh, editAt_node, if_pos hh]; rfl
      · rw [if_neg hh, if_neg hh, editAt_node, if_neg hh, editAt_editAt_list s g1 g2 ks]
  theorem editAt_editAt_list (s : Nat) (g1 g2 : List HTree → List HTree) : ∀ ks : List HTree,
      (ks.map (HTree.editAt s g1)).map (HTree.editAt s g2) = ks.map (HTree.editAt s (g2 ∘ g1))
    | [] => rfl
    | k :: ks => by
      simp only [List.map_cons]
      rw [editAt_editAt s g1 g2 k, editAt_editAt_list s g1 g2 ks]
end

/-! ### The identity edit -/

mutual
  theorem editAt_id (s : Nat) : ∀ t : HTree, HTree.editAt s id t = t
    | .node h v ks => by
      rw [editAt_node]
      by_cases hh : h = s
      · rw [if_pos hh]; rfl
      · rw [if_neg hh, editAt_id_list s ks]
  theorem editAt_id_list (s : Nat) : ∀ ks : List HTree, ks.map (HTree.editAt s id) = ks
    | [] => rfl
    | k :: ks => by rw [List.map_cons, editAt_id s k, editAt_id_list s ks]
end

theorem Forest.editAt_id (f : Forest) (s : Option Nat) : f.editAt s id = f := by
  cases s with
  | none => rfl
  | some p => simp only [Forest.editAt]; rw [editAt_id_list]

/-! ### Commutation at two sites -/

/-- `g` commutes with applying `φ` to every child. -/
def NatFor (φ : HTree → HTree) (g : List HTree → List HTree) : Prop :=
  ∀ L, g (L.map φ) = (g L).map φ

mutual
  theorem editAt_comm {s s' : Nat} {g g' : List HTree → List HTree} (hne : s ≠ s')
      (n1 : NatFor (HTree.editAt s' g') g) (n2 : NatFor (HTree.editAt s g) g') : ∀ t : HTree,
      HTree.editAt s g (HTree.editAt s' g' t) = HTree.editAt s' g' (HTree.editAt s g t)
    | .node h v ks => by
      by_cases h1 : h = s
      · have h2 : ¬ h = s' := fun e => hne (h1.symm.trans e)
        rw [editAt_node s' g', if_neg h2, editAt_node s g, if_pos h1, editAt_node s g, if_pos h1,
          editAt_node s' g', if_neg h2, n1 ks]
      · by_cases h2 : h = s'
        · rw [editAt_node s' g', if_pos h2, editAt_node s g, if_neg h1, editAt_node s g, if_neg h1,
            editAt_node s' g', if_pos h2, n2 ks]
        · rw [editAt_node s' g', if_neg h2, editAt_node s g, if_neg h1, editAt_node s g, if_neg h1,
            editAt_node s' g', if_neg h2, editAt_comm_list hne n1 n2 ks]
  theorem editAt_comm_list {s s' : Nat} {g g' : List HTree → List HTree} (hne : s ≠ s')
      (n1 : NatFor (HTree.editAt s' g') g) (n2 : NatFor (HTree.editAt s g) g') : ∀ ks : List HTree,
      (ks.map (HTree.editAt s' g')).map (HTree.editAt s g) =
        (ks.map (HTree.editAt s g)).map (HTree.editAt s' g')
    | [] => rfl
    | k :: ks => by
      simp only [List.map_cons]
      rw [editAt_comm hne n1 n2 k, editAt_comm_list hne n1 n2 ks]
end

/-! ### Lookups after an edit -/

mutual
  /-- The edited node itself. -/
  theorem find?_editAt_self {s : Nat} {g : List HTree → List HTree} {v : Value} {L : List HTree} :
      ∀ t : HTree, find? s t = some (.node s v L) →
      find? s (HTree.editAt s g t) = some (.node s v (g L))
    | .node h v' ks => by
      intro e
      rw [find?_node] at e
      rw [editAt_node]
      by_cases hh : h = s
      · rw [if_pos hh] at e
        rw [if_pos hh]
        have e' := Option.some.inj e
        injection e' with e1 e2 e3
        subst e2 e3
        rw [find?_node, if_pos hh, hh]
      · rw [if_neg hh] at e
        rw [if_neg hh, find?_node, if_neg hh]
        exact findList?_editAt_self ks e
  theorem findList?_editAt_self {s : Nat} {g : List HTree → List HTree} {v : Value} {L : List HTree} :
      ∀ ks : List HTree, findList? s ks = some (.node s v L) →
      findList? s (ks.map (HTree.editAt s g)) = some (.node s v (g L))
    | [] => by intro e; rw [findList?_nil] at e; cases e
    | k :: ks => by
      intro e
      rw [List.map_cons]
      cases hk : find? s k with
      | some t =>
        rw [findList?_cons_some hk] at e
        have e' := Option.some.inj e
        subst e'
        exact findList?_cons_some (find?_editAt_self k hk)
      | none =>
        rw [findList?_cons_none hk] at e
        have : s ∉ handles k := by
          intro hm
          have := find?_isSome_of_mem k hm
          rw [hk] at this; cases this
        rw [editAt_of_not_mem k this, findList?_cons_none hk]
        exact findList?_editAt_self ks e
end

mutual
  /-- Any other node `x`, provided the edit does not disturb the lookup of `x` in the edited
      child list: the subtree found is the old one with the edit applied inside it. -/
  theorem find?_editAt_other {s x : Nat} {g : List HTree → List HTree} (hxs : x ≠ s) :
      ∀ t : HTree, (handles t).Nodup →
      (∀ v L, find? s t = some (.node s v L) → findList? x (g L) = findList? x L) →
      find? x (HTree.editAt s g t) = (find? x t).map (HTree.editAt s g)
    | .node h v ks => by
      intro nd hg
      obtain ⟨n1, n2⟩ := nodup_handles_node nd
      rw [editAt_node]
      by_cases hh : h = s
      · rw [if_pos hh]
        have hx : ¬ h = x := fun e => hxs (e.symm.trans hh)
        rw [find?_node, if_neg hx, find?_node, if_neg hx]
        have := hg v ks (by rw [find?_node, if_pos hh, hh])
        rw [this]
        -- the subtree found lies strictly inside `s`, where the edit is the identity
        cases hf : findList? x ks with
        | none => rfl
        | some u =>
          simp only [Option.map_some]
          have hsub := (findList?_some ks u hf).2
          have : s ∉ handles u := fun hm => n1 (hh ▸ hsub s hm)
          rw [editAt_of_not_mem u this]
      · rw [if_neg hh, find?_node, find?_node]
        by_cases hx : h = x
        · rw [if_pos hx, if_pos hx]
          simp only [Option.map_some]
          rw [editAt_node, if_neg hh]
        · rw [if_neg hx, if_neg hx]
          apply findList?_editAt_other hxs ks n2
          intro v' L e
          apply hg v' L
          rw [find?_node, if_neg hh]
          exact e
  theorem findList?_editAt_other {s x : Nat} {g : List HTree → List HTree} (hxs : x ≠ s) :
      ∀ ks : List HTree, (handlesList ks).Nodup →
      (∀ v L, findList? s ks = some (.node s v L) → findList? x (g L) = findList? x L) →
      findList? x (ks.map (HTree.editAt s g)) = (findList? x ks).map (HTree.editAt s g)
    | [] => by intro _ _; simp [findList?]
    | k :: ks => by
      intro nd hg
      obtain ⟨n1, n2, n3⟩ := nodup_handlesList_cons nd
      rw [List.map_cons]
      by_cases hsk : s ∈ handles k
      · -- the site is inside `k`; the other children are untouched
        have hsn : s ∉ handlesList ks := n3 s hsk
        rw [map_editAt_of_not_mem ks hsn]
        have ih := find?_editAt_other (g := g) hxs k n1 (by
          intro v' L e
          exact hg v' L (findList?_cons_some e))
        cases hk : find? x k with
        | some u =>
          rw [hk] at ih
          rw [findList?_cons_some ih, findList?_cons_some hk]
          rfl
        | none =>
          rw [hk] at ih
          rw [findList?_cons_none ih, findList?_cons_none hk]
          cases hf : findList? x ks with
          | none => rfl
          | some u =>
            simp only [Option.map_some]
            have hsub := (findList?_some ks u hf).2
            have : s ∉ handles u := fun hm => hsn (hsub s hm)
            rw [editAt_of_not_mem u this]
      · rw [editAt_of_not_mem k hsk]
        cases hk : find? x k with
        | some u =>
          rw [findList?_cons_some hk, findList?_cons_some hk]
          simp only [Option.map_some]
          have hsub := (find?_some k u hk).2
          have : s ∉ handles u := fun hm => hsk (hsub s hm)
          rw [editAt_of_not_mem u this]
        | none =>
          rw [findList?_cons_none hk, findList?_cons_none hk]
          apply findList?_editAt_other hxs ks n2
          intro v' L e
          apply hg v' L
          rw [findList?_cons_none (find?_eq_none k hsk)]
          exact e
end

/-! ### Handles after an edit -/

mutual
  theorem handles_editAt_sublist {s : Nat} {g : List HTree → List HTree}
      (hg : ∀ L, (handlesList (g L)).Sublist (handlesList L)) : ∀ t : HTree,
      (handles (HTree.editAt s g t)).Sublist (handles t)
    | .node h v ks => by
      rw [editAt_node]
      by_cases hh : h = s
      · rw [if_pos hh, handles_node, handles_node]
        exact (hg ks).cons_cons h
      · rw [if_neg hh, handles_node, handles_node]
        exact (handlesList_editAt_sublist hg ks).cons_cons h
  theorem handlesList_editAt_sublist {s : Nat} {g : List HTree → List HTree}
      (hg : ∀ L, (handlesList (g L)).Sublist (handlesList L)) : ∀ ks : List HTree,
      (handlesList (ks.map (HTree.editAt s g))).Sublist (handlesList ks)
    | [] => by simp [handlesList]
    | k :: ks => by
      rw [List.map_cons, handlesList_cons, handlesList_cons]
      exact (handles_editAt_sublist hg k).append (handlesList_editAt_sublist hg ks)
end

end XotModel
