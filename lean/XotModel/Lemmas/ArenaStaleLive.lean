/-
  XotModel.Lemmas.ArenaStaleLive — no accessor and no iterator hands out a removed id.

  In a well-formed arena every pointer stored in a LIVE slot (`parent`, `previous_sibling`,
  `next_sibling`, `first_child`, `last_child`) is the current id of a live slot
  (`Rep.ptr_liveId`).  Every iterator of `traverse.rs` pulls its next item from a pointer of the slot
  of the item before; so, started at a live id, everything it yields is live — for EVERY limit (also
  one that cuts the walk short), by induction on the limit, without knowing what the result is
  (`Props/C07` says what it is when the limit suffices).
-/
import XotModel.Lemmas.ArenaStale

namespace XotModel
namespace Arena

theorem liveId_of_map {a : Arena} (o : Option Nat) (ho : ∀ j, o = some j → Live a j) (y : NodeId)
    (h : o.map a.idAt = some y) : LiveId a y := by
  cases o with
  | none => simp at h
  | some j =>
    simp only [Option.map_some, Option.some.injEq] at h
    subst h
    exact LiveId.idAt (ho j rfl)

/-- The five pointers of a live slot of a well-formed arena are live ids. -/
theorem Rep.ptr_liveId {a : Arena} {g : Shape} (r : Rep a g) {i : Nat} {s : Slot} (hs : a.slot i = some s)
    (h0 : 0 ≤ s.stamp) :
    (∀ y, s.parent = some y → LiveId a y) ∧ (∀ y, s.prev = some y → LiveId a y) ∧
    (∀ y, s.next = some y → LiveId a y) ∧ (∀ y, s.first = some y → LiveId a y) ∧
    (∀ y, s.last = some y → LiveId a y) := by
  have P := r.ptrs i s hs h0
  have kl : ∀ p c, c ∈ g.kids p → Live a c := fun p c hc => (r.kidsLive p c hc).2.1
  refine ⟨fun y h => ?_, fun y h => ?_, fun y h => ?_, fun y h => ?_, fun y h => ?_⟩
  · rw [P.parent] at h
    exact liveId_of_map _ (fun j hj => (r.live_of_par hj).2) y h
  · cases hp : g.par i with
    | none => rw [(P.root hp).1] at h; cases h
    | some p =>
      obtain ⟨L, R, e, hv, _⟩ := P.sib p hp
      rw [hv] at h
      exact liveId_of_map _ (fun j hj => kl p j (by rw [e]; exact List.mem_append_left _ (List.mem_of_getLast? hj))) y h
  · cases hp : g.par i with
    | none => rw [(P.root hp).2] at h; cases h
    | some p =>
      obtain ⟨L, R, e, _, hn⟩ := P.sib p hp
      rw [hn] at h
      exact liveId_of_map _ (fun j hj => kl p j (by
        rw [e]; exact List.mem_append_right _ (List.mem_cons_of_mem _ (List.mem_of_mem_head? hj)))) y h
  · rw [P.first] at h
    exact liveId_of_map _ (fun j hj => kl i j (List.mem_of_mem_head? hj)) y h
  · rw [P.last] at h
    exact liveId_of_map _ (fun j hj => kl i j (List.mem_of_getLast? hj)) y h

/-- The slot of a live id, with its pointers live. -/
theorem Rep.liveId_ptrs {a : Arena} {g : Shape} (r : Rep a g) {x : NodeId} (hx : LiveId a x) :
    ∃ s, a.slot x.index0 = some s ∧ 0 ≤ s.stamp ∧
      (∀ y, s.parent = some y → LiveId a y) ∧ (∀ y, s.prev = some y → LiveId a y) ∧
      (∀ y, s.next = some y → LiveId a y) ∧ (∀ y, s.first = some y → LiveId a y) ∧
      (∀ y, s.last = some y → LiveId a y) := by
  obtain ⟨s, hs, h0⟩ := hx.2.1
  exact ⟨s, hs, h0, r.ptr_liveId hs h0⟩

/-- `next` picks one of the five pointers. -/
def PicksPtr (next : Slot → Option NodeId) : Prop :=
  ∀ s y, next s = some y → s.parent = some y ∨ s.prev = some y ∨ s.next = some y ∨ s.first = some y ∨ s.last = some y

theorem PicksPtr.live {a : Arena} {g : Shape} (r : Rep a g) {next : Slot → Option NodeId} (hp : PicksPtr next)
    {x : NodeId} (hx : LiveId a x) {s : Slot} (hs : a.slot x.index0 = some s) (y : NodeId) (h : next s = some y) :
    LiveId a y := by
  obtain ⟨s', hs', _, h1, h2, h3, h4, h5⟩ := r.liveId_ptrs hx
  rw [hs] at hs'; cases hs'
  rcases hp s y h with e | e | e | e | e
  · exact h1 y e
  · exact h2 y e
  · exact h3 y e
  · exact h4 y e
  · exact h5 y e

theorem picks_parent : PicksPtr (·.parent) := fun _ _ h => Or.inl h
theorem picks_prev : PicksPtr (·.prev) := fun _ _ h => Or.inr (Or.inl h)
theorem picks_next : PicksPtr (·.next) := fun _ _ h => Or.inr (Or.inr (Or.inl h))
theorem picks_prev_or_parent : PicksPtr (fun s => s.prev.or s.parent) := fun s y h => by
  have h' : s.prev.or s.parent = some y := h
  cases hp : s.prev with
  | none => rw [hp] at h'; exact Or.inl (by simpa using h')
  | some p => rw [hp] at h'; simp at h'; exact Or.inr (Or.inl (by rw [← h']))

/-- `Iter` walks (`ancestors`, `predecessors`, `reverse_children`) from a live id or `None`. -/
theorem Rep.walk_live {a : Arena} {g : Shape} (r : Rep a g) {next : Slot → Option NodeId} (hp : PicksPtr next) :
    ∀ (limit : Nat) (cur : Option NodeId) (a' : Arena) (l : List NodeId), (∀ y, cur = some y → LiveId a y) →
      walk a next limit cur = .done a' l → ∀ y ∈ l, LiveId a y
  | 0, _, _, l, _, h => by unfold walk at h; cases h; simp
  | limit + 1, cur, a', l, hc, h => by
    unfold walk at h
    cases cur with
    | none => cases h; simp
    | some node =>
      simp only [] at h
      have hn := hc node rfl
      obtain ⟨s, hs, _⟩ := hn.2.1
      rw [rd_some _ _ _ _ hs] at h
      cases hw : walk a next limit (next s) with
      | panic b => rw [hw] at h; cases h
      | diverge b => rw [hw] at h; cases h
      | done b rest =>
        rw [hw] at h
        simp only [Step.bind_done] at h
        cases h
        intro y hy
        rcases List.mem_cons.mp hy with e | e
        · rw [e]; exact hn
        · exact r.walk_live hp limit (next s) b rest (fun y h => hp.live r hn hs y h) hw y e

/-- `DoubleEndedIter` forward walks (`children`, `following_siblings`, `preceding_siblings`). -/
theorem Rep.walkTo_live {a : Arena} {g : Shape} (r : Rep a g) {next : Slot → Option NodeId} (hp : PicksPtr next) :
    ∀ (limit : Nat) (head tail : Option NodeId) (a' : Arena) (l : List NodeId), (∀ y, head = some y → LiveId a y) →
      walkTo a next limit head tail = .done a' l → ∀ y ∈ l, LiveId a y
  | 0, _, _, _, l, _, h => by unfold walkTo at h; cases h; simp
  | limit + 1, head, tail, a', l, hc, h => by
    unfold walkTo at h
    cases head with
    | none => cases h; simp
    | some hd =>
      have hn := hc hd rfl
      obtain ⟨s, hs, _⟩ := hn.2.1
      have step : ∀ t, (rd a hd fun s => (walkTo a next limit (next s) t).bind fun _ rest => Step.done a (hd :: rest))
          = .done a' l → ∀ y ∈ l, LiveId a y := by
        intro t h
        rw [rd_some _ _ _ _ hs] at h
        cases hw : walkTo a next limit (next s) t with
        | panic b => rw [hw] at h; cases h
        | diverge b => rw [hw] at h; cases h
        | done b rest =>
          rw [hw] at h
          simp only [Step.bind_done] at h
          cases h
          intro y hy
          rcases List.mem_cons.mp hy with e | e
          · rw [e]; exact hn
          · exact r.walkTo_live hp limit (next s) t b rest (fun y h => hp.live r hn hs y h) hw y e
      cases tail with
      | none => exact step none h
      | some t =>
        simp only [] at h
        split at h
        · cases h
          intro y hy
          simp at hy; rw [hy]; exact hn
        · exact step (some t) h

/-- `next_back` walks (`children().rev()`, defective in 4.7.2 and not used by xot): only the tail is
    ever yielded. -/
theorem Rep.walkBack_live {a : Arena} {g : Shape} (r : Rep a g) (nb : Slot → Option NodeId) :
    ∀ (limit : Nat) (head tail : Option NodeId) (a' : Arena) (l : List NodeId), (∀ y, tail = some y → LiveId a y) →
      walkBack a nb limit head tail = .done a' l → ∀ y ∈ l, LiveId a y
  | 0, _, _, _, l, _, h => by unfold walkBack at h; cases h; simp
  | limit + 1, head, tail, a', l, hc, h => by
    unfold walkBack at h
    cases tail with
    | none => cases head <;> (cases h; simp)
    | some t =>
      have hn := hc t rfl
      obtain ⟨s, hs, _⟩ := hn.2.1
      have step : (rd a t fun s => (walkBack a nb limit (nb s) (some t)).bind fun _ rest => Step.done a (t :: rest))
          = .done a' l → ∀ y ∈ l, LiveId a y := by
        intro h
        rw [rd_some _ _ _ _ hs] at h
        cases hw : walkBack a nb limit (nb s) (some t) with
        | panic b => rw [hw] at h; cases h
        | diverge b => rw [hw] at h; cases h
        | done b rest =>
          rw [hw] at h
          simp only [Step.bind_done] at h
          cases h
          intro y hy
          rcases List.mem_cons.mp hy with e | e
          · rw [e]; exact hn
          · exact r.walkBack_live nb limit (nb s) (some t) b rest hc hw y e
      cases head with
      | none => exact step h
      | some hd =>
        simp only [] at h
        split at h
        · rename_i heq
          cases h
          intro y hy
          simp at hy; rw [hy, heq]; exact hn
        · exact step h

/-- The node of an edge. -/
def NodeEdge.node : NodeEdge → NodeId
  | .start n => n
  | .end n => n

/-- `NodeEdge::next_traverse` from an edge of a live node continues with an edge of a live node. -/
theorem Rep.nextTraverse_live {a : Arena} {g : Shape} (r : Rep a g) {α : Type} (e : NodeEdge) (he : LiveId a e.node)
    (k : Option NodeEdge → Step α) :
    ∃ o, nextTraverse a e k = k o ∧ ∀ e', o = some e' → LiveId a e'.node := by
  obtain ⟨s, hs, _, h1, _, h3, h4, _⟩ := r.liveId_ptrs he
  unfold nextTraverse
  cases e with
  | start n =>
    simp only [NodeEdge.node] at hs he
    simp only []
    rw [rd_some _ _ _ _ hs]
    cases hf : s.first with
    | none => exact ⟨_, rfl, fun e' h => by cases h; exact he⟩
    | some fc => exact ⟨_, rfl, fun e' h => by cases h; exact h4 fc hf⟩
  | «end» n =>
    simp only [NodeEdge.node] at hs he
    simp only []
    rw [rd_some _ _ _ _ hs]
    cases hn : s.next with
    | some ns => exact ⟨_, rfl, fun e' h => by cases h; exact h3 ns hn⟩
    | none =>
      refine ⟨_, rfl, fun e' h => ?_⟩
      cases hp : s.parent with
      | none => rw [hp] at h; cases h
      | some p => rw [hp] at h; cases h; exact h1 p hp

/-- `NodeEdge::prev_traverse` likewise. -/
theorem Rep.prevTraverse_live {a : Arena} {g : Shape} (r : Rep a g) {α : Type} (e : NodeEdge) (he : LiveId a e.node)
    (k : Option NodeEdge → Step α) :
    ∃ o, prevTraverse a e k = k o ∧ ∀ e', o = some e' → LiveId a e'.node := by
  obtain ⟨s, hs, _, h1, h2, _, _, h5⟩ := r.liveId_ptrs he
  unfold prevTraverse
  cases e with
  | «end» n =>
    simp only [NodeEdge.node] at hs he
    simp only []
    rw [rd_some _ _ _ _ hs]
    cases hl : s.last with
    | none => exact ⟨_, rfl, fun e' h => by cases h; exact he⟩
    | some lc => exact ⟨_, rfl, fun e' h => by cases h; exact h5 lc hl⟩
  | start n =>
    simp only [NodeEdge.node] at hs he
    simp only []
    rw [rd_some _ _ _ _ hs]
    cases hv : s.prev with
    | some ps => exact ⟨_, rfl, fun e' h => by cases h; exact h2 ps hv⟩
    | none =>
      refine ⟨_, rfl, fun e' h => ?_⟩
      cases hp : s.parent with
      | none => rw [hp] at h; cases h
      | some p => rw [hp] at h; cases h; exact h1 p hp

/-- `Traverse` from an edge of a live node: every edge yielded is an edge of a live node. -/
theorem Rep.traverseGo_live {a : Arena} {g : Shape} (r : Rep a g) (root : NodeId) :
    ∀ (limit : Nat) (cur : Option NodeEdge) (a' : Arena) (l : List NodeEdge), (∀ e, cur = some e → LiveId a e.node) →
      traverseGo a root limit cur = .done a' l → ∀ e ∈ l, LiveId a e.node
  | 0, _, _, l, _, h => by unfold traverseGo at h; cases h; simp
  | limit + 1, cur, a', l, hc, h => by
    unfold traverseGo at h
    cases cur with
    | none => cases h; simp
    | some e =>
      have he := hc e rfl
      simp only [] at h
      have fin : ∀ o, (∀ e', o = some e' → LiveId a e'.node) →
          ((traverseGo a root limit o).bind fun _ rest => Step.done a (e :: rest)) = .done a' l →
          ∀ e' ∈ l, LiveId a e'.node := by
        intro o ho h
        cases hw : traverseGo a root limit o with
        | panic b => rw [hw] at h; cases h
        | diverge b => rw [hw] at h; cases h
        | done b rest =>
          rw [hw] at h
          simp only [Step.bind_done] at h
          cases h
          intro e' hy
          rcases List.mem_cons.mp hy with q | q
          · rw [q]; exact he
          · exact r.traverseGo_live root limit o b rest ho hw e' q
      split at h
      · exact fin none (fun e' h => by cases h) h
      · obtain ⟨o, ho, hl⟩ := r.nextTraverse_live e he
          (fun nx => (traverseGo a root limit nx).bind fun _ rest => Step.done a (e :: rest))
        rw [ho] at h
        exact fin o hl h

/-- `ReverseTraverse` likewise. -/
theorem Rep.reverseTraverseGo_live {a : Arena} {g : Shape} (r : Rep a g) (root : NodeId) :
    ∀ (limit : Nat) (cur : Option NodeEdge) (a' : Arena) (l : List NodeEdge), (∀ e, cur = some e → LiveId a e.node) →
      reverseTraverseGo a root limit cur = .done a' l → ∀ e ∈ l, LiveId a e.node
  | 0, _, _, l, _, h => by unfold reverseTraverseGo at h; cases h; simp
  | limit + 1, cur, a', l, hc, h => by
    unfold reverseTraverseGo at h
    cases cur with
    | none => cases h; simp
    | some e =>
      have he := hc e rfl
      simp only [] at h
      have fin : ∀ o, (∀ e', o = some e' → LiveId a e'.node) →
          ((reverseTraverseGo a root limit o).bind fun _ rest => Step.done a (e :: rest)) = .done a' l →
          ∀ e' ∈ l, LiveId a e'.node := by
        intro o ho h
        cases hw : reverseTraverseGo a root limit o with
        | panic b => rw [hw] at h; cases h
        | diverge b => rw [hw] at h; cases h
        | done b rest =>
          rw [hw] at h
          simp only [Step.bind_done] at h
          cases h
          intro e' hy
          rcases List.mem_cons.mp hy with q | q
          · rw [q]; exact he
          · exact r.reverseTraverseGo_live root limit o b rest ho hw e' q
      split at h
      · exact fin none (fun e' h => by cases h) h
      · obtain ⟨o, ho, hl⟩ := r.prevTraverse_live e he
          (fun nx => (reverseTraverseGo a root limit nx).bind fun _ rest => Step.done a (e :: rest))
        rw [ho] at h
        exact fin o hl h

/-- All the iterators, started at a live id, for every limit: every id yielded is live. -/
theorem Rep.iterators_live {a : Arena} {g : Shape} (r : Rep a g) {x : NodeId} (hx : LiveId a x) (limit : Nat) :
    (∀ a' l, ancestors a x limit = .done a' l → ∀ y ∈ l, LiveId a y) ∧
    (∀ a' l, predecessors a x limit = .done a' l → ∀ y ∈ l, LiveId a y) ∧
    (∀ a' l, children a x limit = .done a' l → ∀ y ∈ l, LiveId a y) ∧
    (∀ a' l, childrenRev a x limit = .done a' l → ∀ y ∈ l, LiveId a y) ∧
    (∀ a' l, reverseChildren a x limit = .done a' l → ∀ y ∈ l, LiveId a y) ∧
    (∀ a' l, followingSiblings a x limit = .done a' l → ∀ y ∈ l, LiveId a y) ∧
    (∀ a' l, precedingSiblings a x limit = .done a' l → ∀ y ∈ l, LiveId a y) ∧
    (∀ a' l, traverse a x limit = .done a' l → ∀ e ∈ l, LiveId a e.node) ∧
    (∀ a' l, reverseTraverse a x limit = .done a' l → ∀ e ∈ l, LiveId a e.node) ∧
    (∀ a' l, descendants a x limit = .done a' l → ∀ y ∈ l, LiveId a y) := by
  obtain ⟨s, hs, _, _, _, _, h4, h5⟩ := r.liveId_ptrs hx
  have hsome : ∀ y, some x = some y → LiveId a y := fun y h => by cases h; exact hx
  refine ⟨fun a' l h => r.walk_live picks_parent limit _ a' l hsome h,
    fun a' l h => r.walk_live picks_prev_or_parent limit _ a' l hsome h, fun a' l h => ?_, fun a' l h => ?_,
    fun a' l h => ?_, fun a' l h => ?_, fun a' l h => ?_,
    fun a' l h => r.traverseGo_live x limit _ a' l (fun e h => by cases h; exact hx) h,
    fun a' l h => r.reverseTraverseGo_live x limit _ a' l (fun e h => by cases h; exact hx) h, fun a' l h => ?_⟩
  · unfold children at h
    rw [rd_some _ _ _ _ hs] at h
    exact r.walkTo_live picks_next limit _ _ a' l h4 h
  · unfold childrenRev at h
    rw [rd_some _ _ _ _ hs] at h
    exact r.walkBack_live _ limit _ _ a' l h5 h
  · unfold reverseChildren at h
    rw [rd_some _ _ _ _ hs] at h
    exact r.walk_live picks_prev limit _ a' l h5 h
  · unfold followingSiblings parentField at h
    split at h
    · cases h
    · split at h
      · exact r.walkTo_live picks_next limit _ _ a' l hsome h
      · split at h <;> exact r.walkTo_live picks_next limit _ _ a' l hsome h
  · unfold precedingSiblings parentField at h
    split at h
    · cases h
    · split at h
      · exact r.walkTo_live picks_prev limit _ _ a' l hsome h
      · split at h <;> exact r.walkTo_live picks_prev limit _ _ a' l hsome h
  · unfold descendants at h
    cases ht : traverse a x limit with
    | panic b => rw [ht] at h; cases h
    | diverge b => rw [ht] at h; cases h
    | done b es =>
      rw [ht] at h
      simp only [Step.bind_done] at h
      cases h
      intro y hy
      obtain ⟨e, he, hey⟩ := List.mem_filterMap.mp hy
      have hl := r.traverseGo_live x limit _ b es (fun e h => by cases h; exact hx) ht e he
      cases e with
      | start n => simp [NodeEdge.startNode?] at hey; subst hey; exact hl
      | «end» n => simp [NodeEdge.startNode?] at hey

end Arena
end XotModel
