/-
  Siblings, `reverse_children` (contract, and the behaviour of the shipped indextree), `child_index`.
-/
import XotModel.Lemmas.AxesKids

namespace XotModel.Axes

/-! ### following / preceding siblings -/

theorem arenaFollowingSiblings_snoc (t : Tree) (π : Path) (i : Nat) :
    arenaFollowingSiblings t (π ++ [i]) = (rawChildPaths t π).drop i := by
  simp [arenaFollowingSiblings, rawChildPaths, List.range_eq_range', ← List.map_drop, List.drop_range']

theorem arenaPrecedingSiblings_snoc (t : Tree) (π : Path) (i : Nat)
    (hi : i < (subAt t π).kids.length) :
    arenaPrecedingSiblings (π ++ [i]) = ((rawChildPaths t π).take (i + 1)).reverse := by
  simp only [arenaPrecedingSiblings, splitLast_snoc, rawChildPaths, ← List.map_take, List.take_range,
    List.map_reverse]
  rw [Nat.min_eq_left (by omega)]

theorem rawChildPaths_getElem? (t : Tree) (π : Path) (i : Nat) (hi : i < (subAt t π).kids.length) :
    (rawChildPaths t π)[i]? = some (π ++ [i]) := by
  simp [rawChildPaths, hi]

/-- `following_siblings`: the node, then its later raw siblings of the same category.
    `axis(FollowingSibling)`: without the node. Every node (also attribute and namespace nodes:
    they have same-kind siblings). -/
theorem followingSiblings_snoc {t : Tree} {π : Path} {i : Nat} (h : Valid t (π ++ [i])) :
    followingSiblings t (π ++ [i]) = (π ++ [i]) ::
      ((rawChildPaths t π).drop (i + 1)).filter (fun s => categoryAt t s == categoryAt t (π ++ [i])) ∧
    axis t .followingSibling (π ++ [i]) =
      ((rawChildPaths t π).drop (i + 1)).filter (fun s => categoryAt t s == categoryAt t (π ++ [i])) := by
  have hi := (valid_snoc_iff (valid_prefix h) i).mp h
  have h1 : followingSiblings t (π ++ [i]) = (π ++ [i]) ::
      ((rawChildPaths t π).drop (i + 1)).filter (fun s => categoryAt t s == categoryAt t (π ++ [i])) := by
    unfold followingSiblings
    rw [arenaFollowingSiblings_snoc, List.drop_eq_getElem_cons (by simpa [rawChildPaths] using hi)]
    have := rawChildPaths_getElem? t π i hi
    rw [List.getElem?_eq_getElem (by simpa [rawChildPaths] using hi)] at this
    rw [Option.some.inj this]
    simp
  exact ⟨h1, by simp [axis, h1]⟩

/-- `preceding_siblings`: the node, then its earlier raw siblings of the same category, nearest
    first. `axis(PrecedingSibling)`: without the node. -/
theorem precedingSiblings_snoc {t : Tree} {π : Path} {i : Nat} (h : Valid t (π ++ [i])) :
    precedingSiblings t (π ++ [i]) = (π ++ [i]) ::
      (((rawChildPaths t π).take i).filter (fun s => categoryAt t s == categoryAt t (π ++ [i]))).reverse ∧
    axis t .precedingSibling (π ++ [i]) =
      (((rawChildPaths t π).take i).filter (fun s => categoryAt t s == categoryAt t (π ++ [i]))).reverse := by
  have hi := (valid_snoc_iff (valid_prefix h) i).mp h
  have h1 : precedingSiblings t (π ++ [i]) = (π ++ [i]) ::
      (((rawChildPaths t π).take i).filter (fun s => categoryAt t s == categoryAt t (π ++ [i]))).reverse := by
    unfold precedingSiblings
    rw [arenaPrecedingSiblings_snoc t π i hi, List.take_add_one, rawChildPaths_getElem? t π i hi]
    simp [List.filter_reverse]
  exact ⟨h1, by simp [axis, h1]⟩

/-- The root has no siblings. -/
theorem siblings_root (t : Tree) :
    followingSiblings t [] = [[]] ∧ precedingSiblings t [] = [[]] ∧
    axis t .followingSibling [] = [] ∧ axis t .precedingSibling [] = [] ∧
    nextSibling t [] = none ∧ previousSibling t [] = none := by
  simp [followingSiblings, precedingSiblings, arenaFollowingSiblings, arenaPrecedingSiblings, axis,
    nextSibling, previousSibling, internalPreviousSibling]

/-- `next_sibling` of a normal node in a well-formed tree: the first of its following siblings. -/
theorem nextSibling_normal {t : Tree} {π : Path} {i : Nat} (hw : wf t = true)
    (h : Valid t (π ++ [i])) (hn : isNormalAt t (π ++ [i]) = true) :
    nextSibling t (π ++ [i]) = (axis t .followingSibling (π ++ [i])).head? ∧
    nextSibling t (π ++ [i]) = if i + 1 < (subAt t π).kids.length then some (π ++ [i + 1]) else none := by
  have hπ := valid_prefix h
  have hi := (valid_snoc_iff hπ i).mp h
  have hat := hπ.at?
  rw [tree_eta (subAt t π)] at hat
  have hws := wf_at? t π _ hw hπ.at?
  rw [tree_eta (subAt t π)] at hws
  simp only [wf, Bool.and_eq_true] at hws
  have hki : (subAt t π).kids[i]? = some (subAt t π).kids[i] := List.getElem?_eq_getElem hi
  have hni : (subAt t π).kids[i].value.isNormal = true := by rw [← isNormalAt_snoc hat hki]; exact hn
  have h2 : nextSibling t (π ++ [i]) =
      if i + 1 < (subAt t π).kids.length then some (π ++ [i + 1]) else none := by
    unfold nextSibling
    rw [internalNextSibling_snoc hat]
    by_cases hlt : i + 1 < (subAt t π).kids.length
    · have hk1 : (subAt t π).kids[i + 1]? = some (subAt t π).kids[i + 1] := List.getElem?_eq_getElem hlt
      have hn1 := kidsOrdered_mono _ hws.1.2 i (i + 1) _ _ (by omega) hki hk1 hni
      simp only [hlt, if_true, categoryAt_snoc hat hki, categoryAt_snoc hat hk1]
      simp only [Value.isNormal, beq_iff_eq] at hni hn1
      simp [hni, hn1]
    · simp [hlt]
  refine ⟨?_, h2⟩
  rw [h2, (followingSiblings_snoc h).2]
  by_cases hlt : i + 1 < (subAt t π).kids.length
  · have hk1 : (subAt t π).kids[i + 1]? = some (subAt t π).kids[i + 1] := List.getElem?_eq_getElem hlt
    have hn1 := kidsOrdered_mono _ hws.1.2 i (i + 1) _ _ (by omega) hki hk1 hni
    rw [List.drop_eq_getElem_cons (by simpa [rawChildPaths] using hlt)]
    have := rawChildPaths_getElem? t π (i + 1) hlt
    rw [List.getElem?_eq_getElem (by simpa [rawChildPaths] using hlt)] at this
    rw [Option.some.inj this]
    simp only [Value.isNormal, beq_iff_eq] at hni hn1
    simp [hlt, categoryAt_snoc hat hki, categoryAt_snoc hat hk1, hni, hn1]
  · have : (rawChildPaths t π).drop (i + 1) = [] := by
      apply List.drop_eq_nil_of_le; simp [rawChildPaths]; omega
    simp [hlt, this]

/-- `previous_sibling` of a normal node in a well-formed tree: the previous raw sibling if that
    one is normal. -/
theorem previousSibling_snoc (t : Tree) (π : Path) (i : Nat) :
    previousSibling t (π ++ [i]) =
      if i = 0 then none
      else if categoryAt t (π ++ [i - 1]) == categoryAt t (π ++ [i]) then some (π ++ [i - 1]) else none := by
  unfold previousSibling
  rw [internalPreviousSibling_snoc]
  by_cases h0 : i = 0
  · simp [h0]
  · simp only [h0, if_false]
    by_cases hc : categoryAt t (π ++ [i]) = categoryAt t (π ++ [i - 1])
    · simp [hc]
    · have : ¬ categoryAt t (π ++ [i - 1]) = categoryAt t (π ++ [i]) := fun e => hc e.symm
      simp [hc, this]

/-! ### reverse_children -/

/-- The raw children of `p`, last first, up to the first non-normal one (specification). -/
def reverseChildrenSpec (t : Tree) (p : Path) : List Path :=
  (rawChildPaths t p).reverse.takeWhile (isNormalAt t)

/-- Walking `previous_sibling` from child `i` of `π` lists the children `i, i-1, …, 0`. -/
theorem backwardSiblings_snoc (π : Path) : ∀ (i fuel : Nat), i + 1 ≤ fuel →
    backwardSiblings fuel (some (π ++ [i])) = (List.range (i + 1)).reverse.map (fun j => π ++ [j])
  | _, 0, h => by omega
  | 0, fuel + 1, _ => by
    cases fuel <;> simp [backwardSiblings, internalPreviousSibling_snoc]
  | i + 1, fuel + 1, h => by
    simp only [backwardSiblings, internalPreviousSibling_snoc, Nat.add_one_ne_zero, if_false,
      Nat.add_sub_cancel]
    rw [backwardSiblings_snoc π i fuel (by omega), List.range_succ (n := i + 1)]
    simp

theorem internalLastChild_eq (t : Tree) (p : Path) :
    internalLastChild t p =
      if (subAt t p).kids.length = 0 then none else some (p ++ [(subAt t p).kids.length - 1]) := by
  unfold internalLastChild
  rw [← List.getLast?_map, allChildren_paths, rawChildPaths]
  cases hn : (subAt t p).kids.length with
  | zero => simp
  | succ n => simp [List.range_succ]

/-- `reverse_children` walks all raw children backwards and stops at the first non-normal one;
    the fuel is adequate. -/
theorem reverseChildren_eq_spec {t : Tree} {p : Path} (h : Valid t p) :
    reverseChildren t p = reverseChildrenSpec t p := by
  unfold reverseChildren reverseChildrenSpec
  rw [internalLastChild_eq]
  cases hn : (subAt t p).kids.length with
  | zero => simp [rawChildPaths, hn]; cases t.size <;> rfl
  | succ n =>
    have hfuel : n + 1 ≤ t.size := by
      have h1 := kids_length_lt_size (subAt t p)
      have h2 := size_at?_le t p _ h.at?
      omega
    simp only [Nat.add_one_ne_zero, if_false, Nat.add_sub_cancel]
    rw [backwardSiblings_snoc p n t.size hfuel]
    simp [rawChildPaths, hn, List.map_reverse]

/-- `reverse_children` = `children` reversed (well-formed trees). -/
theorem reverseChildren_eq {t : Tree} {p : Path} (hw : wf t = true) (h : Valid t p) :
    reverseChildren t p = (children t p).reverse := by
  rw [reverseChildren_eq_spec h]
  have hws := wf_at? t p _ hw h.at?
  have hord : kidsOrdered (subAt t p).kids = true := by
    cases hs : subAt t p with
    | node v ks => rw [hs] at hws; simp only [wf, Bool.and_eq_true] at hws; exact hws.1.2
  rw [children_eq hw h]
  unfold reverseChildrenSpec
  -- reversed, an ordered list is: normal ... normal, then non-normal ... non-normal
  have key : ∀ (r : List Path), r.Pairwise (fun x y => isNormalAt t y = true → isNormalAt t x = true) →
      r.takeWhile (isNormalAt t) = r.filter (isNormalAt t) := by
    intro r
    induction r with
    | nil => intro _; rfl
    | cons x r ih =>
      intro hp
      rw [List.pairwise_cons] at hp
      by_cases hx : isNormalAt t x = true
      · simp [hx, ih hp.2]
      · have : r.filter (isNormalAt t) = [] := by
          apply List.filter_eq_nil_iff.mpr
          intro y hy hyn; exact hx (hp.1 y hy hyn)
        simp [hx, this]
  rw [← List.filter_reverse]
  apply key
  rw [List.pairwise_reverse]
  unfold rawChildPaths
  rw [List.pairwise_map]
  apply List.Pairwise.imp_of_mem _ List.pairwise_lt_range
  intro a b ha hb hab hxn
  have hat := h.at?
  rw [tree_eta (subAt t p)] at hat
  have hla' : a < (subAt t p).kids.length := by simpa using ha
  have hlb' : b < (subAt t p).kids.length := by simpa using hb
  have hka := List.getElem?_eq_getElem hla'
  have hkb := List.getElem?_eq_getElem hlb'
  rw [isNormalAt_snoc hat hka] at hxn
  rw [isNormalAt_snoc hat hkb]
  exact kidsOrdered_mono _ hord a b _ _ (by omega) hka hkb hxn


/-! ### child_index -/

/-- `child_index(parent, child)`: the position of `child` among the normal children of `parent`. -/
theorem childIndex_iff {t : Tree} {par child : Path} (hw : wf t = true) (h : Valid t par) (i : Nat) :
    childIndex t par child = some i ↔ (children t par)[i]? = some child := by
  have hnd : (children t par).Nodup := by
    rw [children_spec hw h]; exact (pre_nodup t).filter _
  have hpar : ∀ c ∈ children t par, parent c = some par := by
    intro c hc
    rw [children_spec hw h] at hc
    simpa using (List.mem_filter.mp hc).2
  unfold childIndex
  constructor
  · intro hci
    split at hci
    · cases hci
    · rw [List.findIdx?_eq_some_iff_getElem] at hci
      obtain ⟨hlt, heq, _⟩ := hci
      rw [List.getElem?_eq_getElem hlt]
      simpa using heq
  · intro hget
    obtain ⟨hlt, heq⟩ := List.getElem?_eq_some_iff.mp hget
    have hmem : child ∈ children t par := by rw [← heq]; exact List.getElem_mem hlt
    have hp := hpar child hmem
    simp only [hp, bne_self_eq_false, Bool.false_eq_true, if_false]
    rw [List.findIdx?_eq_some_iff_getElem]
    refine ⟨hlt, by simp [heq], ?_⟩
    intro j hj
    have hjlt : j < (children t par).length := by omega
    have : (children t par)[j] ≠ (children t par)[i] := by
      intro e
      have := (List.getElem_inj (h₀ := hjlt) (h₁ := hlt) hnd).mp e
      omega
    rw [heq] at this
    simpa using this

theorem childIndex_none_of_not_child {t : Tree} {par child : Path} (hne : parent child ≠ some par) :
    childIndex t par child = none := by
  unfold childIndex
  have : (parent child != some par) = true := by simpa using hne
  simp [this]

end XotModel.Axes
