/-
  XotModel.Lemmas.ArenaRemoveLeaf — `NodeId::remove` of a live childless node on a well-formed
  arena: `detach`, then `free_node`.
-/
import XotModel.Lemmas.ArenaFree

namespace XotModel
namespace Arena

theorem Shape.detach_kids_self (g : Shape) (r : ∀ c p, g.par c = some p → p ≠ c) (i : Nat) :
    (g.detach i).kids i = g.kids i := by
  unfold Shape.detach
  cases hp : g.par i with
  | none => rfl
  | some p => simp [(r i p hp).symm]

theorem Shape.detach_free (g : Shape) (i : Nat) : (g.detach i).free = g.free := by
  unfold Shape.detach
  cases g.par i <;> rfl

/-- List-level `remove` of a childless node. -/
def Shape.removeLeaf (g : Shape) (i : Nat) : Shape := { g.detach i with free := g.free ++ [i] }

theorem Rep.remove_leaf {a : Arena} {g : Shape} (r : Rep a g) (i : Nat) (hi : Live a i) (hk : g.kids i = []) :
    ∃ a1 a', Arena.detach a (a.idAt i) = .done a1 () ∧ MetaEq a a1 ∧ Rep a1 (g.detach i) ∧
      Arena.remove a (a.idAt i) = .done a' () ∧ FreeNodeOk a1 (g.detach i) i a' ∧ Rep a' (g.removeLeaf i) := by
  obtain ⟨a1, hd, r1, hM⟩ := r.detach (a.idAt i) (LiveId.idAt hi)
  rw [idAt_index0] at r1
  have hi1 : Live a1 i := (hM.live i).mpr hi
  have hk1 : (g.detach i).kids i = [] := by
    rw [Shape.detach_kids_self g (fun c p h => r.par_ne h) i]; exact hk
  obtain ⟨a', hf, hok⟩ := r1.freeNode i hi1 (Shape.detach_par_self g i) hk1
  refine ⟨a1, a', hd, hM, r1, ?_, hok, ?_⟩
  · obtain ⟨s, hs, h0⟩ := hi
    unfold Arena.remove
    rw [rd_some _ _ _ _ (show a.slot (a.idAt i).index0 = some s by rw [idAt_index0]; exact hs)]
    have P := r.ptrs i s hs h0
    have hfirst : s.first = none := by rw [P.first, hk]; rfl
    have hlast : s.last = none := by rw [P.last, hk]; rfl
    simp only [hfirst, hlast, Option.isSome_none, bne_self_eq_false, Bool.false_eq_true, if_false]
    rw [hd]
    simp only [Step.bind_done]
    rw [← hM.idAt i]
    exact hf
  · have := hok.rep
    rw [Shape.detach_free] at this
    exact this

end Arena
end XotModel
