/-
  Finv (C04), part 17: the mutable node maps (`insert`, `insert_node`, `append_*_node`) and
  `any_append` preserve the invariant.
-/
import XotModel.Lemmas.FinvMove2
import XotModel.Lemmas.FinvOps1

namespace XotModel
open HTree

def isCat (cat : Category) (k : HTree) : Bool := k.value.category == cat

theorem rank_inj {a b : Category} (h : a.rank = b.rank) : a = b := by
  cases a <;> cases b <;> simp [Category.rank] at h ⊢

theorem Sorted.tail {k : HTree} {ks : List HTree} (h : Sorted (k :: ks)) : Sorted ks := by
  unfold Sorted at h ⊢; rw [List.map_cons, List.pairwise_cons] at h; exact h.2

theorem Sorted.head_le {k : HTree} {ks : List HTree} (h : Sorted (k :: ks)) :
    ∀ y ∈ ks, rankOf k ≤ rankOf y := by
  unfold Sorted at h; rw [List.map_cons, List.pairwise_cons] at h
  intro y hy; exact h.1 _ (List.mem_map.mpr ⟨y, hy, rfl⟩)

/-- In a sorted list whose ranks are all at least that of `cat`, the nodes of category `cat` are
    exactly the leading ones. -/
theorem mem_takeWhile_of_sorted (cat : Category) {ks : List HTree} (hs : Sorted ks)
    (hlow : ∀ z ∈ ks, cat.rank ≤ rankOf z) {y : HTree} (hy : y ∈ ks) (hc : y.value.category = cat) :
    y ∈ ks.takeWhile (isCat cat) := by
  induction ks with
  | nil => cases hy
  | cons k ks ih =>
    by_cases hk : isCat cat k = true
    · rw [List.takeWhile_cons_of_pos hk]
      rw [List.mem_cons] at hy ⊢
      rcases hy with hy | hy
      · exact Or.inl hy
      · exact Or.inr (ih hs.tail (fun z hz => hlow z (by simp [hz])) hy)
    · exfalso
      have hkc : k.value.category ≠ cat := by simpa [isCat] using hk
      have hlt : cat.rank < rankOf k := by
        have := hlow k (by simp)
        rcases Nat.lt_or_eq_of_le this with h | h
        · exact h
        · exact absurd (rank_inj h).symm hkc
      rw [List.mem_cons] at hy
      rcases hy with hy | hy
      · subst hy; exact hkc hc
      · have := hs.head_le y hy
        simp only [rankOf, hc] at this hlt
        omega

/-- After the leading namespace nodes of a sorted list every rank is at least 1. -/
theorem rank_dropWhile_ns {ks : List HTree} (hs : Sorted ks) :
    ∀ z ∈ ks.dropWhile (isCat .namespace), 1 ≤ rankOf z := by
  induction ks with
  | nil => simp
  | cons k ks ih =>
    by_cases hk : isCat .namespace k = true
    · rw [List.dropWhile_cons_of_pos hk]; exact ih hs.tail
    · rw [List.dropWhile_cons_of_neg hk]
      have hk1 : 1 ≤ rankOf k := by
        have : k.value.category ≠ .namespace := by simpa [isCat] using hk
        unfold rankOf
        cases h : k.value.category <;> simp_all [Category.rank]
      intro z hz
      rw [List.mem_cons] at hz
      rcases hz with hz | hz
      · subst hz; exact hk1
      · exact Nat.le_trans hk1 (hs.head_le z hz)

theorem Sorted.sublist {a b : List HTree} (h : Sorted b) (hs : a.Sublist b) : Sorted a :=
  List.Pairwise.sublist (hs.map _) h

namespace Forest

theorem mapChildren_ns (t : HTree) : mapChildren .namespaces t = t.kids.takeWhile (isCat .namespace) := rfl
theorem mapChildren_attr (t : HTree) :
    mapChildren .attributes t = (t.kids.dropWhile (isCat .namespace)).takeWhile (isCat .attribute) := rfl

theorem fi_mapChildren_sub (k : MapKind) (t : HTree) : ∀ y ∈ mapChildren k t, y ∈ t.kids := by
  intro y hy
  cases k with
  | namespaces => exact List.takeWhile_subset _ hy
  | attributes => exact List.dropWhile_subset _ (List.takeWhile_subset _ hy)

/-- An attribute / namespace node, or any other non-element non-document, is no proper ancestor. -/
theorem fi_leaf_not_ancestor {g : Forest} (hi : g.Inv) {node x : Nat} {ev : Value}
    (hnv : g.value? node = some ev) (he : ev.isElement = false) (hd : ev.isDocument = false)
    (hx : x ∈ g.allHandles) (hne : x ≠ node) : (g.ancestors x).contains node = false := by
  cases hc : (g.ancestors x).contains node with
  | false => rfl
  | true =>
    exfalso
    obtain ⟨path, l, C, r, lc⟩ := exists_loc (mem_allHandles_of_isLive (isLive_of_value? hnv))
    have hmem := mem_subtree_of_anc lc hi.nodup hx hc
    have hCv : C.value = ev := by
      have := value?_of_loc lc hi.nodup; rw [hnv] at this; exact (Option.some.inj this).symm
    have hkids : C.kids = [] := fi_kids_nil_of_valid (hi.validTree_of_loc lc) (by rw [hCv]; exact he) (by rw [hCv]; exact hd)
    rw [fi_handles_eq, hkids, lc.hk] at hmem
    simp at hmem
    exact hne hmem

/-- An attribute or namespace node can always be cut. -/
theorem cutOK_of_abnormal {g : Forest} (hi : g.Inv) {c : Nat} {cv : Value} (hcv : g.value? c = some cv)
    (hcn : cv.category ≠ .normal) : g.CutOK c := by
  intro hoff ctx hctx
  obtain ⟨init, fr, lc, _⟩ := ctx?_some_loc hi.nodup hctx
  have hself := value?_of_ctx_self hi.nodup hctx
  rw [hcv] at hself
  have hsv : ctx.self.value = cv := (Option.some.inj hself).symm
  obtain ⟨k1, _⟩ := hi.kids_at lc.eq
  rw [innerValue_snoc] at k1
  have K0 := (kidsOK_iff _ _ _).mp k1
  cases hl : lastText ctx.left with
  | false => rfl
  | true =>
    exfalso
    obtain ⟨l0, P, hl0, hPt⟩ := exists_of_lastText hl
    rw [hl0] at K0
    have K1 : KidsOK (!g.everOff) fr.v (l0 ++ P :: ctx.self :: ctx.right) := by simpa using K0
    have := K1.normal_after_normal (category_normal_of_isText hPt)
    rw [hsv] at this
    exact hcn this

theorem entry_facts {k : MapKind} {ev : Value} (hm : k.matches ev = true) :
    ev.category ≠ .normal ∧ ev.isDocument = false ∧ ev.isElement = false ∧ ev.isText = false ∧
    (k = .namespaces → ev.category = .namespace) ∧ (k = .attributes → ev.category = .attribute) := by
  cases k <;> cases ev <;> simp_all [MapKind.matches, Value.category, Value.isDocument, Value.isElement, Value.isText]

/-- Placing after a child `IP` of the element `parent`. -/
theorem mapPlace_after {g : Forest} (hi : g.Inv) {parent node : Nat} {en : Nat} {ev : Value}
    {path lp K rp} (locp : Loc g.roots parent path lp K rp) (hKv : K.value = .element en)
    {left : List HTree} {IP : HTree} {right : List HTree} (hkids : K.kids = left ++ IP :: right)
    (hnv : g.value? node = some ev) (hcn : ev.category ≠ .normal) (hd : ev.isDocument = false)
    (he : ev.isElement = false) (ht : ev.isText = false) (hne : IP.handle ≠ node)
    (hrankL : ∀ y ∈ left ++ [IP], y.value.category.rank ≤ ev.category.rank)
    (hrankR : ∀ y ∈ right, ev.category.rank ≤ y.value.category.rank)
    (hkeys : ∀ y ∈ K.kids, y.value.category = ev.category → entryKey y.value ≠ entryKey ev) :
    (g.checkedInsertAfter IP.handle node).1.Inv := by
  have nd := hi.nodup
  have locip : Loc g.roots IP.handle (path ++ [⟨lp, parent, .element en, rp⟩]) left IP right := by
    refine ⟨?_, rfl⟩
    rw [plug_append, locp.eq, ← hkids, ← hKv, ← locp.hk]
    simp [node_eta]
  have hctxip := ctx?_of_loc_snoc locip nd
  have hpar : parent ∈ g.allHandles := by
    unfold allHandles; rw [locp.eq, mem_handlesList_plug]
    refine Or.inr ?_
    simp only [fi_handlesList_append, fi_handlesList_cons, List.mem_append]
    exact Or.inr (Or.inl (locp.hk ▸ fi_handle_mem_handles K))
  have hpv : g.value? parent = some (.element en) := by rw [value?_of_loc locp nd, hKv]
  apply checkedInsertAfter_gen hi hnv (value?_of_loc locip nd)
    (isRoot_of_loc_ne locip (by simp) nd) ?_ (cutOK_of_abnormal hi hnv hcn)
  · intro ctx pv hctx hpv'
    rw [hctxip] at hctx; cases hctx
    simp only at hpv'
    rw [hpv] at hpv'; cases hpv'
    refine ⟨by simp [kidAllowed, hd], hrankL, hrankR, Or.inr ?_, ?_⟩
    · intro y hy; exact hkeys y (by rw [hkids]; exact hy)
    · intro _ htt; rw [ht] at htt; cases htt
  · rw [ancestors_of_ctx? nd hctxip]
    simp only [List.contains_cons, Bool.or_eq_false_iff, beq_eq_false_iff_ne, ne_eq]
    refine ⟨fun e => hne e.symm, ?_⟩
    apply fi_leaf_not_ancestor hi hnv he hd hpar
    intro e
    rw [e, hnv] at hpv; cases hpv; cases he

/-- `mapPlace`: put the entry node `node` (whose key is not yet in the map) at the insertion
    point of the element `parent`. -/
theorem mapPlace_inv {g : Forest} (hi : g.Inv) {k : MapKind} {parent node en : Nat} {ev : Value}
    (hpe : g.value? parent = some (.element en)) (hnv : g.value? node = some ev)
    (hm : k.matches ev = true) (hget : g.mapGetNode k parent (entryKey ev) = none) :
    (g.mapPlace k parent node).1.Inv := by
  have nd := hi.nodup
  obtain ⟨hcn, hd, he, ht, hns, hat⟩ := entry_facts hm
  have hpar : parent ∈ g.allHandles := mem_allHandles_of_isLive (isLive_of_value? hpe)
  obtain ⟨path, lp, K, rp, locp⟩ := exists_loc hpar
  have hK := get?_of_loc locp nd
  have hKv : K.value = .element en := by
    have := value?_of_loc locp nd; rw [hpe] at this; exact (Option.some.inj this).symm
  have hKvalid := hi.validTree_of_loc locp
  rw [validTree_eq, Bool.and_eq_true] at hKvalid
  have KK := (kidsOK_iff _ _ _).mp hKvalid.1
  have hsorted := KK.sorted
  -- no child in the map has the key
  have hnokey : ∀ y ∈ mapChildren k K, entryKey y.value ≠ entryKey ev := by
    unfold mapGetNode at hget
    rw [hK] at hget
    simp only [List.find?_eq_none, beq_iff_eq] at hget
    exact hget
  have hsplit1 : K.kids.takeWhile (isCat .namespace) ++ K.kids.dropWhile (isCat .namespace) = K.kids :=
    List.takeWhile_append_dropWhile
  have hs2 : Sorted (K.kids.dropWhile (isCat .namespace)) := hsorted.sublist (List.dropWhile_sublist _)
  have hlow2 := rank_dropWhile_ns hsorted
  -- same-category children are in the map
  have hkeys : ∀ y ∈ K.kids, y.value.category = ev.category → entryKey y.value ≠ entryKey ev := by
    intro y hy hcat
    apply hnokey
    cases k with
    | namespaces =>
      rw [mapChildren_ns]
      rw [hns rfl] at hcat
      exact mem_takeWhile_of_sorted .namespace hsorted (fun z _ => by simp [Category.rank]) hy hcat
    | attributes =>
      rw [mapChildren_attr]
      rw [hat rfl] at hcat
      have hy2 : y ∈ K.kids.dropWhile (isCat .namespace) := by
        rw [← hsplit1, List.mem_append] at hy
        rcases hy with hy | hy
        · exfalso
          have := List.all_takeWhile (l := K.kids) (p := isCat .namespace)
          rw [List.all_eq_true] at this
          have := this y hy
          simp [isCat, hcat] at this
        · exact hy
      exact mem_takeWhile_of_sorted .attribute hs2 (fun z hz => by simpa [Category.rank] using hlow2 z hz) hy2 hcat
  -- the node is not one of the children in the map (its key would be there)
  have hnotin : ∀ y ∈ K.kids, y.value.category = ev.category → y.handle ≠ node := by
    intro y hy hcat e
    have := value?_of_mem_kids nd hK hy
    rw [e, hnv] at this
    cases this
    exact hkeys y hy hcat rfl
  have finish : ∀ r : Forest × Bool, r.1.Inv → (if r.2 = true then (r.1, Res.ok) else (r.1, Res.panic)).1.Inv := by
    intro r h; split <;> exact h
  unfold mapPlace
  apply finish
  -- helper: the prepend case
  have prependCase : (∀ y ∈ K.kids, ev.category.rank ≤ y.value.category.rank) →
      (g.checkedPrepend parent node).1.Inv := by
    intro hr
    apply checkedPrepend_gen hi hnv hpar (cutOK_of_abnormal hi hnv hcn)
    intro K' hK'
    rw [hK] at hK'; cases hK'
    refine ⟨by simp [hKv, kidAllowed, hd], hr, Or.inr hkeys, ?_⟩
    intro _ htt; rw [ht] at htt; cases htt
  unfold mapInsertionPoint
  rw [hK]
  simp only
  rw [show (fun c : HTree => c.value.category == Category.namespace) = isCat .namespace from rfl]
  cases k with
  | namespaces =>
    have hevc := hns rfl
    rw [mapChildren_ns]
    cases hlast : (K.kids.takeWhile (isCat .namespace)).getLast? with
    | none =>
      simp only
      apply prependCase
      intro y _; rw [hevc]; simp [Category.rank]
    | some IP =>
      simp only
      obtain ⟨a, hnn⟩ : ∃ a, K.kids.takeWhile (isCat .namespace) = a ++ [IP] := by
        rcases List.eq_nil_or_concat (K.kids.takeWhile (isCat .namespace)) with h0 | ⟨a, x, h0⟩
        · rw [h0] at hlast; simp at hlast
        · rw [List.concat_eq_append] at h0
          rw [h0] at hlast; simp at hlast; subst hlast; exact ⟨a, h0⟩
      have hkids : K.kids = a ++ IP :: K.kids.dropWhile (isCat .namespace) := by
        have : K.kids = (a ++ [IP]) ++ K.kids.dropWhile (isCat .namespace) := by rw [← hnn]; exact hsplit1.symm
        simpa using this
      have hall := List.all_takeWhile (l := K.kids) (p := isCat .namespace)
      rw [hnn, List.all_eq_true] at hall
      have hIPmem : IP ∈ K.kids := by rw [hkids]; simp
      have hIPns : IP.value.category = .namespace := by simpa [isCat] using hall IP (by simp)
      apply mapPlace_after hi locp hKv hkids hnv hcn hd he ht
        (hnotin IP hIPmem (by rw [hIPns, hevc]))
      · intro y hy
        have : y.value.category = .namespace := by simpa [isCat] using hall y hy
        rw [this, hevc]; exact Nat.le_refl _
      · intro y _; rw [hevc]; simp [Category.rank]
      · exact hkeys
  | attributes =>
    have hevc := hat rfl
    rw [mapChildren_attr]
    have hsplit2 : (K.kids.dropWhile (isCat .namespace)).takeWhile (isCat .attribute) ++
        (K.kids.dropWhile (isCat .namespace)).dropWhile (isCat .attribute) = K.kids.dropWhile (isCat .namespace) :=
      List.takeWhile_append_dropWhile
    have hallns := List.all_takeWhile (l := K.kids) (p := isCat .namespace)
    rw [List.all_eq_true] at hallns
    cases hlast : ((K.kids.dropWhile (isCat .namespace)).takeWhile (isCat .attribute)).getLast? with
    | some IP =>
      simp only
      obtain ⟨a2, hnn⟩ : ∃ a2, (K.kids.dropWhile (isCat .namespace)).takeWhile (isCat .attribute) = a2 ++ [IP] := by
        rcases List.eq_nil_or_concat ((K.kids.dropWhile (isCat .namespace)).takeWhile (isCat .attribute)) with h0 | ⟨a, x, h0⟩
        · rw [h0] at hlast; simp at hlast
        · rw [List.concat_eq_append] at h0
          rw [h0] at hlast; simp at hlast; subst hlast; exact ⟨a, h0⟩
      have hkids : K.kids = (K.kids.takeWhile (isCat .namespace) ++ a2) ++ IP ::
          (K.kids.dropWhile (isCat .namespace)).dropWhile (isCat .attribute) := by
        have h1 : K.kids.dropWhile (isCat .namespace) = a2 ++ IP ::
            (K.kids.dropWhile (isCat .namespace)).dropWhile (isCat .attribute) := by
          have := hsplit2.symm
          rw [hnn] at this
          simpa using this
        rw [List.append_assoc, ← h1]
        exact hsplit1.symm
      have hall := List.all_takeWhile (l := K.kids.dropWhile (isCat .namespace)) (p := isCat .attribute)
      rw [hnn, List.all_eq_true] at hall
      have hIPmem : IP ∈ K.kids := by rw [hkids]; simp
      have hIPat : IP.value.category = .attribute := by simpa [isCat] using hall IP (by simp)
      apply mapPlace_after hi locp hKv hkids hnv hcn hd he ht
        (hnotin IP hIPmem (by rw [hIPat, hevc]))
      · intro y hy
        rw [List.append_assoc, List.mem_append] at hy
        rcases hy with hy | hy
        · have : y.value.category = .namespace := by simpa [isCat] using hallns y hy
          rw [this, hevc]; simp [Category.rank]
        · have : y.value.category = .attribute := by simpa [isCat] using hall y hy
          rw [this, hevc]; exact Nat.le_refl _
      · intro y hy
        have K1 : KidsOK (!g.everOff) K.value ((K.kids.takeWhile (isCat .namespace) ++ a2) ++ IP ::
            (K.kids.dropWhile (isCat .namespace)).dropWhile (isCat .attribute)) := by rw [← hkids]; exact KK
        have := K1.right_normal (S := IP) y hy
        simpa [rankOf, hIPat, hevc] using this
      · exact hkeys
    | none =>
      simp only
      rw [List.getLast?_eq_none_iff] at hlast
      cases hlast2 : (K.kids.takeWhile (isCat .namespace)).getLast? with
      | none =>
        simp only [Option.map_none]
        rw [List.getLast?_eq_none_iff] at hlast2
        apply prependCase
        intro y hy
        have : y ∈ K.kids.dropWhile (isCat .namespace) := by
          rw [← hsplit1, hlast2, List.nil_append] at hy; exact hy
        have := hlow2 y this
        rw [hevc]; simpa [rankOf, Category.rank] using this
      | some IP =>
        simp only [Option.map_some]
        obtain ⟨a, hnn⟩ : ∃ a, K.kids.takeWhile (isCat .namespace) = a ++ [IP] := by
          rcases List.eq_nil_or_concat (K.kids.takeWhile (isCat .namespace)) with h0 | ⟨a, x, h0⟩
          · rw [h0] at hlast2; simp at hlast2
          · rw [List.concat_eq_append] at h0
            rw [h0] at hlast2; simp at hlast2; subst hlast2; exact ⟨a, h0⟩
        have hkids : K.kids = a ++ IP :: K.kids.dropWhile (isCat .namespace) := by
          have : K.kids = (a ++ [IP]) ++ K.kids.dropWhile (isCat .namespace) := by rw [← hnn]; exact hsplit1.symm
          simpa using this
        rw [hnn] at hallns
        have hIPns : IP.value.category = .namespace := by simpa [isCat] using hallns IP (by simp)
        have hIPne : IP.handle ≠ node := by
          intro e
          have := value?_of_mem_kids nd hK (show IP ∈ K.kids by rw [hkids]; simp)
          rw [e, hnv] at this
          cases this
          rw [hIPns] at hevc; cases hevc
        apply mapPlace_after hi locp hKv hkids hnv hcn hd he ht hIPne
        · intro y hy
          have : y.value.category = .namespace := by simpa [isCat] using hallns y hy
          rw [this, hevc]; simp [Category.rank]
        · intro y hy
          have := hlow2 y hy
          rw [hevc]; simpa [rankOf, Category.rank] using this
        · exact hkeys

end Forest
end XotModel
