/-
  Basic lemmas about the forest primitives: handles under `mapAt`/`setValue`, the empty store.
-/
import XotModel.Model.ForestInv
import XotModel.Lemmas.SelfMergeBridge

namespace XotModel
open HTree

mutual
  theorem handles_mapAt_setValue (h : Nat) (v : Value) : ∀ t : HTree,
      handles (mapAt h (HTree.setValue v) t) = handles t
    | .node h' v' ks => by
      unfold mapAt
      by_cases hh : h' = h
      · simp [hh, HTree.setValue, handles]
      · simp only [hh, if_false, handles]
        rw [handlesList_mapAtList_setValue h v ks]
  theorem handlesList_mapAtList_setValue (h : Nat) (v : Value) : ∀ ks : List HTree,
      handlesList (mapAtList h (HTree.setValue v) ks) = handlesList ks
    | [] => by simp [mapAtList, handlesList]
    | k :: ks => by
      simp only [mapAtList, handlesList]
      rw [handles_mapAt_setValue h v k, handlesList_mapAtList_setValue h v ks]
end

theorem mapAtList_eq_map (h : Nat) (g : HTree → HTree) (ks : List HTree) :
    mapAtList h g ks = ks.map (mapAt h g) := by
  induction ks with
  | nil => rfl
  | cons k ks ih => simp [mapAtList, ih]

/-- Changing a node's value never changes which handles are in the forest, nor their order. -/
theorem Forest.allHandles_setValue (f : Forest) (h : Nat) (v : Value) :
    (f.setValue h v).allHandles = f.allHandles := by
  unfold Forest.setValue Forest.allHandles
  simp only
  rw [← mapAtList_eq_map, handlesList_mapAtList_setValue]

/-- The invariant, unpacked into propositions. -/
structure Forest.Inv (f : Forest) : Prop where
  notCorrupt : f.corrupt = false
  nodup : f.allHandles.Nodup
  below : ∀ h ∈ f.allHandles, h < f.next
  valid : validList (!f.everOff) f.roots = true
  consOn : f.consolidation = true ∨ f.everOff = true

theorem Forest.inv_iff (f : Forest) : f.inv = true ↔ f.Inv := by
  unfold Forest.inv
  constructor
  · intro h
    simp only [Bool.and_eq_true, Bool.not_eq_true', decide_eq_true_eq, List.all_eq_true,
      Bool.or_eq_true] at h
    obtain ⟨⟨⟨⟨h1, h2⟩, h3⟩, h4⟩, h5⟩ := h
    exact ⟨h1, h2, h3, h4, h5⟩
  · intro ⟨h1, h2, h3, h4, h5⟩
    simp only [Bool.and_eq_true, Bool.not_eq_true', decide_eq_true_eq, List.all_eq_true,
      Bool.or_eq_true]
    exact ⟨⟨⟨⟨h1, h2⟩, h3⟩, h4⟩, h5⟩

mutual
  /-- Strict validity (no adjacent text) implies non-strict validity. -/
  theorem validTree_weaken : ∀ t : HTree, validTree true t = true → validTree false t = true
    | .node h v ks => by
      intro hv
      simp only [validTree, Bool.and_eq_true] at hv ⊢
      obtain ⟨⟨⟨⟨⟨h1, h2⟩, h3⟩, h4⟩, _⟩, h6⟩ := hv
      exact ⟨⟨⟨⟨⟨h1, h2⟩, h3⟩, h4⟩, by simp⟩, validList_weaken ks h6⟩
  theorem validList_weaken : ∀ ks : List HTree, validList true ks = true → validList false ks = true
    | [] => by simp [validList]
    | k :: ks => by
      intro hv
      simp only [validList, Bool.and_eq_true] at hv ⊢
      exact ⟨validTree_weaken k hv.1, validList_weaken ks hv.2⟩
end

theorem validList_weaken' (b : Bool) (ks : List HTree) (h : validList b ks = true) :
    validList false ks = true := by
  cases b with
  | false => exact h
  | true => exact validList_weaken ks h

end XotModel
