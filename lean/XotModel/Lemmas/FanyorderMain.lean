/-
  Lemmas for C20 (any construction order), part 7: the invariant along a run, and the refinement
  theorem from `Forest.Inv` of the start store alone.

  `spec_inv`: every call the specification accepts preserves `Forest.Inv` (moves: `specMove_inv`;
  creation and entries: the C11 lemmas through the handle-for-handle equalities).  Together with
  `call_impl_spec` (a call answered `ok` IS the specification's call) the invariant holds in every
  state of a successful implementation run: `invAlong_of_inv`.
-/
import XotModel.Lemmas.FanyorderRun
import XotModel.Lemmas.FanyorderInv
import XotModel.Lemmas.FanyorderOk

namespace XotModel
namespace Prog
open Spec Fmap

/-- A call the specification accepts preserves the invariant. -/
theorem spec_inv {f f' : Forest} {c : Call} {o : Option Nat} (inv : f.Inv) (hfl : FlagsOk f)
    (h : c.spec f = some (f', o)) : f'.Inv := by
  have norm := normal_of_flags inv hfl
  cases c with
  | create v =>
    simp only [Call.spec, Option.some.injEq, Prod.mk.injEq] at h
    rw [← h.1]
    exact newNode_inv f inv v
  | move d n =>
    simp only [Call.spec] at h
    split at h
    · rename_i hm
      simp only [Option.some.injEq, Prod.mk.injEq] at h
      rw [← h.1]
      exact specMove_inv inv norm (by rw [← moveOk_eq]; exact hm)
    · cases h
  | anyAppend p c =>
    simp only [Call.spec] at h
    split at h
    · cases h
    · rename_i t hg
      split at h
      · split at h
        · rename_i hn hm
          simp only [Option.some.injEq, Prod.mk.injEq] at h
          rw [← h.1]
          exact specMove_inv inv norm (by rw [← moveOk_eq]; exact hm)
        · cases h
      · rename_i hn
        split at h
        · rename_i hc
          simp only [Option.some.injEq, Prod.mk.injEq] at h
          rw [← h.1]
          simp only [Bool.and_eq_true, isElementAt_eq] at hc
          have hn' : t.value.isNormal = false := by simpa using hn
          obtain ⟨k, hm, _⟩ := anyAppend_entry' f p c t hg hn'
          have hv : f.value? c = some t.value := by simp [Forest.value?, hg]
          rw [← (appendEntryNode_spec inv k p c t hc.1 hg hc.2 hm).1]
          exact appendEntryNode_inv f inv k p c t.value hc.1 hc.2 hv hm
        · cases h
  | setAttribute e name v =>
    simp only [Call.spec] at h
    split at h
    · rename_i he
      simp only [Option.some.injEq, Prod.mk.injEq] at h
      rw [← h.1]
      have := mapInsert_spec inv .attributes e (.attribute name v) he rfl
      rw [show specSetEntry e (.attribute name v) f = (f.mapInsert .attributes e (.attribute name v)).1 by rw [this]]
      exact mapInsert_inv f inv .attributes e _ he rfl
    · cases h
  | setNamespace e pfx ns =>
    simp only [Call.spec] at h
    split at h
    · rename_i he
      simp only [Option.some.injEq, Prod.mk.injEq] at h
      rw [← h.1]
      have := mapInsert_spec inv .namespaces e (.namespace pfx ns) he rfl
      rw [show specSetEntry e (.namespace pfx ns) f = (f.mapInsert .namespaces e (.namespace pfx ns)).1 by rw [this]]
      exact mapInsert_inv f inv .namespaces e _ he rfl
    · cases h

theorem stepSpec_inv {s s' : State} {st : Step} (inv : s.forest.Inv) (hfl : FlagsOk s.forest)
    (h : stepSpec s st = some s') : s'.forest.Inv ∧ FlagsOk s'.forest := by
  unfold stepSpec at h
  cases hr : st.resolve s.env with
  | none => rw [hr] at h; cases h
  | some c =>
    rw [hr] at h
    simp only at h
    cases hc : c.spec s.forest with
    | none => rw [hc] at h; cases h
    | some fo =>
      obtain ⟨f', o⟩ := fo
      rw [hc] at h
      simp only [Option.some.injEq] at h
      rw [← h]
      obtain ⟨a, b⟩ := spec_fields hc
      exact ⟨spec_inv inv hfl hc, hfl.of_eq a b⟩

/-- The specification's run preserves the invariant. -/
theorem runSpec_inv : ∀ (P : Program) (s s' : State), s.forest.Inv → FlagsOk s.forest →
    runSpec s P = some s' → s'.forest.Inv ∧ FlagsOk s'.forest
  | [], s, s', inv, hfl, h => by
    simp only [runSpec, Option.some.injEq] at h
    rw [← h]; exact ⟨inv, hfl⟩
  | st :: rest, s, s', inv, hfl, h => by
    simp only [runSpec] at h
    cases hs : stepSpec s st with
    | none => rw [hs] at h; cases h
    | some s1 =>
      rw [hs] at h
      obtain ⟨i1, f1⟩ := stepSpec_inv inv hfl hs
      exact runSpec_inv rest s1 s' i1 f1 h

/-- **C04 along a successful run, through the specification**: from a store satisfying `Forest.Inv`
    every state the implementation passes through while answering `ok` satisfies it. -/
theorem invAlong_of_inv : ∀ (P : Program) (s : State), s.forest.Inv → FlagsOk s.forest → inScope s P = true →
    InvAlong s P
  | [], s, inv, _, _ => inv
  | st :: rest, s, inv, hfl, hsc => by
    refine ⟨inv, ?_⟩
    simp only [inScope, Bool.and_eq_true] at hsc
    obtain ⟨hsc1, hsc2⟩ := hsc
    cases hst : stepImpl s st with
    | mk s' r =>
      rw [hst] at hsc2
      cases r with
      | ok =>
        simp only at hsc2 ⊢
        have hsc' : ∀ c, st.resolve s.env = some c → c.inScope s.forest = true := by
          intro c hc; rw [hc] at hsc1; exact hsc1
        obtain ⟨e1, hfl'⟩ := step_impl_spec inv hfl hsc' hst
        exact invAlong_of_inv rest s' (stepSpec_inv inv hfl e1).1 hfl' hsc2
      | err e => trivial
      | panic => trivial

/-- **Refinement** from the invariant of the start store alone. -/
theorem run_refine_inv (P : Program) (s : State) (inv : s.forest.Inv) (hfl : FlagsOk s.forest)
    (hsc : inScope s P = true) (hok : (runImpl s P).2 = .ok) :
    runSpec s P = some (runImpl s P).1 ∧ (runImpl s P).1.forest.Inv ∧ FlagsOk (runImpl s P).1.forest := by
  have h := run_refine P s (invAlong_of_inv P s inv hfl hsc) hfl hsc hok
  exact ⟨h, runSpec_inv P s _ inv hfl h⟩

/-! ### The other direction: what the specification accepts, the implementation carries out -/

/-- **One call, specification ⇒ implementation**: a call the specification accepts is answered `ok`
    and yields the specification's store, handle for handle. -/
theorem call_spec_impl {f : Forest} (inv : f.Inv) (hfl : FlagsOk f) (c : Call)
    {f' : Forest} {o : Option Nat} (h : c.spec f = some (f', o)) : c.impl f = (f', .ok, o) := by
  have norm := normal_of_flags inv hfl
  cases c with
  | create v =>
    simp only [Call.spec, Option.some.injEq, Prod.mk.injEq] at h
    simp only [Call.impl, Forest.newNode]
    rw [← h.1, ← h.2]
  | move d n =>
    simp only [Call.spec] at h
    split at h
    · rename_i hm
      simp only [Option.some.injEq, Prod.mk.injEq] at h
      have hck : implCheck f d n = true := by rw [← moveOk_eq]; exact hm
      have hok := moveImpl_ok inv norm hck
      simp only [Call.impl]
      rw [← h.1, ← h.2, ← moveImpl_spec inv norm hok, ← hok]
    · cases h
  | anyAppend p c =>
    simp only [Call.spec] at h
    split at h
    · cases h
    · rename_i t hg
      split at h
      · rename_i hn
        split at h
        · rename_i hm
          simp only [Option.some.injEq, Prod.mk.injEq] at h
          have hck : implCheck f (.lastChildOf p) c = true := by rw [← moveOk_eq]; exact hm
          have hok := moveImpl_ok inv norm hck
          have hst := moveImpl_spec inv norm hok
          simp only [moveImpl] at hok hst
          simp only [Call.impl]
          rw [anyAppend_normal f p c t hg hn]
          simp only
          rw [← h.1, ← h.2, ← hst, hok]
        · cases h
      · rename_i hn
        split at h
        · rename_i hc
          simp only [Option.some.injEq, Prod.mk.injEq] at h
          simp only [Bool.and_eq_true, isElementAt_eq] at hc
          have hn' : t.value.isNormal = false := by simpa using hn
          obtain ⟨k, hm, hk⟩ := anyAppend_entry' f p c t hg hn'
          obtain ⟨e1, e2⟩ := appendEntryNode_spec inv k p c t hc.1 hg hc.2 hm
          simp only [Call.impl]
          rw [hk, ← h.1, ← h.2, ← e1, ← e2]
        · cases h
  | setAttribute e name v =>
    simp only [Call.spec] at h
    split at h
    · rename_i he
      simp only [Option.some.injEq, Prod.mk.injEq] at h
      have := mapInsert_spec inv .attributes e (.attribute name v) he rfl
      simp only [Call.impl]
      rw [this, ← h.1, ← h.2]
    · cases h
  | setNamespace e pfx ns =>
    simp only [Call.spec] at h
    split at h
    · rename_i he
      simp only [Option.some.injEq, Prod.mk.injEq] at h
      have := mapInsert_spec inv .namespaces e (.namespace pfx ns) he rfl
      simp only [Call.impl]
      rw [this, ← h.1, ← h.2]
    · cases h

theorem step_spec_impl {s s' : State} {st : Step} (inv : s.forest.Inv) (hfl : FlagsOk s.forest)
    (h : stepSpec s st = some s') : stepImpl s st = (s', .ok) := by
  unfold stepSpec at h
  unfold stepImpl
  cases hr : st.resolve s.env with
  | none => rw [hr] at h; cases h
  | some c =>
    rw [hr] at h
    simp only at h ⊢
    cases hc : c.spec s.forest with
    | none => rw [hc] at h; cases h
    | some fo =>
      obtain ⟨f', o⟩ := fo
      rw [hc] at h
      simp only [Option.some.injEq] at h
      rw [call_spec_impl inv hfl c hc, ← h]

/-- **Refinement, specification ⇒ implementation**: a program the specification accepts is carried
    out by the implementation without a refusal, and ends in the specification's state. -/
theorem run_spec_impl : ∀ (P : Program) (s s' : State), s.forest.Inv → FlagsOk s.forest →
    runSpec s P = some s' → runImpl s P = (s', .ok)
  | [], s, s', _, _, h => by
    simp only [runSpec, Option.some.injEq] at h
    simp only [runImpl, h]
  | st :: rest, s, s', inv, hfl, h => by
    simp only [runSpec] at h
    cases hs : stepSpec s st with
    | none => rw [hs] at h; cases h
    | some s1 =>
      rw [hs] at h
      obtain ⟨i1, f1⟩ := stepSpec_inv inv hfl hs
      simp only [runImpl, step_spec_impl inv hfl hs]
      exact run_spec_impl rest s1 s' i1 f1 h

/-- The first step the implementation does not answer `ok` is the first step the specification
    calls ill-formed. -/
theorem firstRefused_eq : ∀ (P : Program) (s : State), s.forest.Inv → FlagsOk s.forest → inScope s P = true →
    firstRefused s P = firstIllFormed s P
  | [], _, _, _, _ => rfl
  | st :: rest, s, inv, hfl, hsc => by
    simp only [inScope, Bool.and_eq_true] at hsc
    obtain ⟨hsc1, hsc2⟩ := hsc
    simp only [firstRefused, firstIllFormed]
    cases hs : stepSpec s st with
    | some s1 =>
      have hi := step_spec_impl inv hfl hs
      rw [hi] at hsc2 ⊢
      simp only at hsc2 ⊢
      obtain ⟨i1, f1⟩ := stepSpec_inv inv hfl hs
      rw [firstRefused_eq rest s1 i1 f1 hsc2]
    | none =>
      cases hst : stepImpl s st with
      | mk s' r =>
        cases r with
        | ok =>
          exfalso
          have hsc' : ∀ c, st.resolve s.env = some c → c.inScope s.forest = true := by
            intro c hc; rw [hc] at hsc1; exact hsc1
          have := (step_impl_spec inv hfl hsc' hst).1
          rw [hs] at this; cases this
        | err e => rfl
        | panic => rfl

end Prog
end XotModel
