/-
  C06 lemmas: navigation results are children of the expected parent; the two consolidation
  helpers keep the invariant and only touch text leaves.
-/
import XotModel.Lemmas.FatomCut

namespace XotModel
open HTree

namespace Forest

theorem ctx?_self {f : Forest} (w : f.W) {x : Nat} {c : Ctx} (e : f.ctx? x = some c) :
    f.get? x = some c.self := by
  obtain ⟨⟨v, hg⟩, hh⟩ := ctx?_spec w e
  have := (kid_spec w hg (k := c.self) (by simp [HTree.kids])).1
  rwa [hh] at this

/-- The other children named by a context are live children of the same parent. -/
theorem ctx?_sibling {f : Forest} (w : f.W) {x : Nat} {c : Ctx} (e : f.ctx? x = some c)
    {k : HTree} (hk : k ∈ c.left ∨ k ∈ c.right) :
    f.get? k.handle = some k ∧ f.parent? k.handle = some c.parent ∧ k.handle ≠ x := by
  obtain ⟨⟨v, hg⟩, hh⟩ := ctx?_spec w e
  have hmem : k ∈ (HTree.node c.parent v (c.left ++ c.self :: c.right)).kids := by
    simp only [HTree.kids, List.mem_append, List.mem_cons]
    rcases hk with h | h
    · exact Or.inl h
    · exact Or.inr (Or.inr h)
  have hks := kid_spec w hg hmem
  refine ⟨hks.1, hks.2, ?_⟩
  have hn : (handles (.node c.parent v (c.left ++ c.self :: c.right))).Nodup :=
    List.Sublist.nodup (findList?_sublist _ _ _ hg) w.nodup
  unfold handles at hn
  have hn2 := (List.nodup_cons.1 hn).2
  rw [fa_handlesList_append, show handlesList (c.self :: c.right) =
    handles c.self ++ handlesList c.right from rfl] at hn2
  have hn3 := List.nodup_append.1 hn2
  have hxs : x ∈ handles c.self := hh ▸ handle_mem_handles c.self
  intro e'
  rcases hk with h | h
  · have : k.handle ∈ handlesList c.left := handles_sub_of_mem h _ (handle_mem_handles k)
    exact hn3.2.2 _ this _ (List.mem_append_left _ hxs) e'
  · have : k.handle ∈ handlesList c.right := handles_sub_of_mem h _ (handle_mem_handles k)
    exact (List.nodup_append.1 hn3.2.1).2.2 _ hxs _ this e'.symm

/-- `y` is another child of `x`'s parent, of the same category. -/
structure Sib (f : Forest) (x y : Nat) : Prop where
  ne : y ≠ x
  parent : ∃ q, f.parent? x = some q ∧ f.parent? y = some q
  cat : (f.value? y).map Value.category = (f.value? x).map Value.category

theorem Sib.live {f : Forest} {x y : Nat} (s : Sib f x y) : f.isLive y = true := by
  obtain ⟨q, _, h⟩ := s.parent; exact (parent?_live h).1

theorem prevSibling_sib {f : Forest} (w : f.W) {x y : Nat} (e : f.prevSibling x = some y) :
    Sib f x y := by
  unfold prevSibling at e
  cases hc : f.ctx? x with
  | none => rw [hc] at e; cases e
  | some c =>
    rw [hc] at e
    simp only at e
    cases hl : c.left.getLast? with
    | none => rw [hl] at e; cases e
    | some p =>
      rw [hl] at e
      simp only at e
      split at e
      · rename_i hcat
        injection e with e
        have hp : p ∈ c.left := List.mem_of_getLast? hl
        obtain ⟨h1, h2, h3⟩ := ctx?_sibling w hc (Or.inl hp)
        rw [e] at h1 h2 h3
        refine ⟨h3, ⟨c.parent, parent?_of_ctx? hc, h2⟩, ?_⟩
        unfold value?
        rw [h1, ctx?_self w hc]
        simpa using hcat
      · cases e

theorem nextSibling_sib {f : Forest} (w : f.W) {x y : Nat} (e : f.nextSibling x = some y) :
    Sib f x y := by
  unfold nextSibling at e
  cases hc : f.ctx? x with
  | none => rw [hc] at e; cases e
  | some c =>
    rw [hc] at e
    simp only at e
    cases hl : c.right.head? with
    | none => rw [hl] at e; cases e
    | some p =>
      rw [hl] at e
      simp only at e
      split at e
      · rename_i hcat
        injection e with e
        have hp : p ∈ c.right := List.mem_of_head? hl
        obtain ⟨h1, h2, h3⟩ := ctx?_sibling w hc (Or.inr hp)
        rw [e] at h1 h2 h3
        refine ⟨h3, ⟨c.parent, parent?_of_ctx? hc, h2⟩, ?_⟩
        unfold value?
        rw [h1, ctx?_self w hc]
        simpa using hcat
      · cases e

theorem prevSibling_none_of_root {f : Forest} {x : Nat} (h : f.parent? x = none) :
    f.prevSibling x = none := by
  unfold prevSibling; rw [(ctx?_none_iff f x).2 h]

theorem nextSibling_none_of_root {f : Forest} {x : Nat} (h : f.parent? x = none) :
    f.nextSibling x = none := by
  unfold nextSibling; rw [(ctx?_none_iff f x).2 h]

theorem lastChild_parent {f : Forest} (w : f.W) {p c : Nat} (e : f.lastChild p = some c) :
    f.parent? c = some p := by
  unfold lastChild at e
  cases hg : f.get? p with
  | none => rw [hg] at e; cases e
  | some t =>
    rw [hg] at e
    simp only at e
    cases hl : t.kids.getLast? with
    | none => rw [hl] at e; cases e
    | some k =>
      rw [hl] at e
      simp only at e
      split at e
      · injection e with e
        rw [← e]; exact (kid_spec w hg (List.mem_of_getLast? hl)).2
      · cases e

theorem firstChild_parent {f : Forest} (w : f.W) {p c : Nat} (e : f.firstChild p = some c) :
    f.parent? c = some p := by
  unfold firstChild at e
  cases hg : f.get? p with
  | none => rw [hg] at e; cases e
  | some t =>
    rw [hg] at e
    simp only at e
    cases hl : (t.kids.dropWhile (fun k => !k.value.isNormal)).head? with
    | none => rw [hl] at e; cases e
    | some k =>
      rw [hl] at e
      simp only [Option.map_some, Option.some.injEq] at e
      have : k ∈ t.kids := (List.dropWhile_sublist _).subset (List.mem_of_head? hl)
      rw [← e]; exact (kid_spec w hg this).2

theorem prependPoint_parent {f : Forest} (w : f.W) {p c : Nat} (e : f.prependPoint p = some c) :
    f.parent? c = some p := by
  unfold prependPoint at e
  cases hg : f.get? p with
  | none => rw [hg] at e; cases e
  | some t =>
    rw [hg] at e
    simp only at e
    cases hl : (t.kids.takeWhile (fun k => k.value.category != .normal)).getLast? with
    | none => rw [hl] at e; cases e
    | some k =>
      rw [hl] at e
      simp only [Option.map_some, Option.some.injEq] at e
      have : k ∈ t.kids := (List.takeWhile_sublist _).subset (List.mem_of_getLast? hl)
      rw [← e]; exact (kid_spec w hg this).2

/-! ### Text nodes are leaves -/

theorem textOf_value {f : Forest} {x : Nat} {s : Str} (e : f.textOf x = some s) :
    f.value? x = some (.text s) := by
  unfold textOf at e
  split at e
  · rename_i s' hv; injection e with e; rw [hv, e]
  · cases e

theorem text_leaf {f : Forest} (w : f.W) {x : Nat} {s : Str} (e : f.textOf x = some s) :
    ∃ t, f.get? x = some t ∧ t.kids = [] ∧ handles t = [x] := by
  have hv := textOf_value e
  unfold value? at hv
  cases hg : f.get? x with
  | none => rw [hg] at hv; cases hv
  | some t =>
    rw [hg] at hv
    simp only [Option.map_some, Option.some.injEq] at hv
    have hl := findList?_leafOk x f.roots t w.leaves hg
    have hk : t.kids = [] := leafOk_kids_nil hl (by rw [hv]; rfl) (by rw [hv]; rfl)
    refine ⟨t, rfl, hk, ?_⟩
    rw [handles_eq, hk, get?_handle hg]; rfl

/-- Merge text into `target` and delete the text leaf `src` (both consolidation helpers). -/
theorem merge_spec {f : Forest} (w : f.W) {target src : Nat} {a b : Str} (v : Str)
    (ht : f.textOf target = some a) (hs : f.textOf src = some b) :
    ((f.setValue target (.text v)).spliceOut src).W ∧
    Frame f ((f.setValue target (.text v)).spliceOut src) [src] ∧
    ((f.setValue target (.text v)).spliceOut src).isLive src = false := by
  obtain ⟨tt, htg, htk, _⟩ := text_leaf w ht
  have w0 : (f.setValue target (.text v)).W := setValue_W w target _ (fun t e => by
    rw [htg] at e; injection e with e; subst e; exact Or.inl htk)
  have fr0 := setValue_frame_text f ht v
  have hs0 : ∃ s', (f.setValue target (.text v)).textOf src = some s' := by
    unfold textOf
    rw [setValue_value?]
    by_cases hst : src = target
    · subst hst; rw [textOf_value ht]; exact ⟨v, by simp⟩
    · simp only [hst, if_false]; rw [textOf_value hs]; exact ⟨b, by simp⟩
  obtain ⟨s', hs0⟩ := hs0
  obtain ⟨ts, hsg, hsk, hsh⟩ := text_leaf w0 hs0
  obtain ⟨w1, hcnt, fr1⟩ := spliceOut_spec w0 hsg (fun _ => by rw [hsk]; exact Nat.zero_le _)
  rw [hsh] at fr1
  refine ⟨w1, (fr0.trans fr1).mono (fun x hx => by simpa using hx), ?_⟩
  cases hl : ((f.setValue target (.text v)).spliceOut src).isLive src with
  | false => rfl
  | true => exact absurd (List.mem_singleton.2 rfl) ((isLive_of_count w0 hcnt src).1 hl).2

theorem removeConsolidate_spec {f : Forest} (w : f.W) (prev next : Option Nat) :
    (f.removeConsolidate prev next).1.W ∧
    ((f.removeConsolidate prev next).2 = false → (f.removeConsolidate prev next).1 = f) ∧
    ∃ P, (∀ x ∈ P, next = some x ∧ (f.textOf x).isSome = true ∧
        (f.removeConsolidate prev next).2 = true ∧ ∃ p, prev = some p) ∧
      Frame f (f.removeConsolidate prev next).1 P := by
  unfold removeConsolidate
  cases hc : f.consolidation with
  | false => exact ⟨w, fun _ => rfl, [], by simp, Frame.refl _ _⟩
  | true =>
    simp only [Bool.not_true, Bool.false_eq_true, if_false]
    cases prev with
    | none => exact ⟨w, fun _ => rfl, [], by simp, Frame.refl _ _⟩
    | some p =>
      cases next with
      | none => exact ⟨w, fun _ => rfl, [], by simp, Frame.refl _ _⟩
      | some n =>
        simp only
        cases hp : f.textOf p with
        | none => exact ⟨w, fun _ => rfl, [], by simp, Frame.refl _ _⟩
        | some ps =>
          cases hn : f.textOf n with
          | none => exact ⟨w, fun _ => rfl, [], by simp, Frame.refl _ _⟩
          | some ns =>
            obtain ⟨w1, fr, _⟩ := merge_spec w (ps ++ ns) hp hn
            refine ⟨w1, (fun h => by cases h), [n], ?_, fr⟩
            intro x hx; simp only [List.mem_singleton] at hx; subst hx; simp [hn]

theorem addConsolidate_spec {f : Forest} (w : f.W) (node : Nat) (prev next : Option Nat) :
    (f.addConsolidate node prev next).1.W ∧
    ((f.addConsolidate node prev next).2 = false → (f.addConsolidate node prev next).1 = f) ∧
    Frame f (f.addConsolidate node prev next).1 [node] ∧
    ((f.addConsolidate node prev next).2 = true →
      (f.addConsolidate node prev next).1.isLive node = false) := by
  have trivialCase : (f, false).1.W ∧ ((f, false).2 = false → (f, false).1 = f) ∧
      Frame f (f, false).1 [node] ∧ ((f, false).2 = true → (f, false).1.isLive node = false) :=
    ⟨w, fun _ => rfl, Frame.refl _ _, fun h => by cases h⟩
  rw [addConsolidate_eq_old]
  generalize f.selfPrev node prev = prev
  generalize f.selfNext node next = next
  unfold addConsolidateOld
  cases hc : f.consolidation with
  | false => exact trivialCase
  | true =>
    simp only [Bool.not_true, Bool.false_eq_true, if_false]
    cases ha : f.textOf node with
    | none => exact trivialCase
    | some added =>
      simp only
      have viaNext : (match next with
          | some n => (match f.textOf n with
              | some ns => ((f.setValue n (.text (added ++ ns))).spliceOut node, true)
              | none => (f, false))
          | none => (f, false)).1.W ∧
          ((match next with
          | some n => (match f.textOf n with
              | some ns => ((f.setValue n (.text (added ++ ns))).spliceOut node, true)
              | none => (f, false))
          | none => (f, false)).2 = false → (match next with
          | some n => (match f.textOf n with
              | some ns => ((f.setValue n (.text (added ++ ns))).spliceOut node, true)
              | none => (f, false))
          | none => (f, false)).1 = f) ∧
          Frame f (match next with
          | some n => (match f.textOf n with
              | some ns => ((f.setValue n (.text (added ++ ns))).spliceOut node, true)
              | none => (f, false))
          | none => (f, false)).1 [node] ∧
          ((match next with
          | some n => (match f.textOf n with
              | some ns => ((f.setValue n (.text (added ++ ns))).spliceOut node, true)
              | none => (f, false))
          | none => (f, false)).2 = true → (match next with
          | some n => (match f.textOf n with
              | some ns => ((f.setValue n (.text (added ++ ns))).spliceOut node, true)
              | none => (f, false))
          | none => (f, false)).1.isLive node = false) := by
        cases next with
        | none => exact trivialCase
        | some n =>
          simp only
          cases hn : f.textOf n with
          | none => exact trivialCase
          | some ns =>
            obtain ⟨w1, fr, hd⟩ := merge_spec w (added ++ ns) hn ha
            exact ⟨w1, (fun h => by cases h), fr, fun _ => hd⟩
      cases prev with
      | none => exact viaNext
      | some p =>
        simp only
        cases hp : f.textOf p with
        | none => exact viaNext
        | some ps =>
          obtain ⟨w1, fr, hd⟩ := merge_spec w (ps ++ added) hp ha
          exact ⟨w1, (fun h => by cases h), fr, fun _ => hd⟩

end Forest
end XotModel
