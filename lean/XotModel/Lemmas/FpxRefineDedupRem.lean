/-
  FpxRefineDedup, part 1: `namespaces_mut(e).remove(p)` of the forest model (`Forest.mapRemove
  .namespaces e p`) as ONE edit of the child list of `e` by `removeNsKidH`, the tree-level `removeNsKid`
  (Model/Scope.lean) with handles: the first namespace node with prefix `p` in the leading run of
  namespace nodes goes, nothing else changes; `next` is unchanged.  `eraseList` turns `removeNsKidH`
  into `removeNsKid`.
-/
import XotModel.Lemmas.FpxRefineMain
import XotModel.Lemmas.FpxDedup
import XotModel.Lemmas.FinvHV

namespace XotModel
open HTree
open Forest (MapKind entryKey entryUpdate)

namespace HTree

/-- `removeNsKid` (Model/Scope.lean) on a child list with handles. -/
def removeNsKidH (p : Nat) : List HTree → List HTree
  | [] => []
  | k :: ks =>
    match k.value with
    | .namespace q _ => if q == p then ks else k :: removeNsKidH p ks
    | _ => k :: ks

/-- Forgetting the handles gives the tree-level removal. -/
theorem eraseList_removeNsKidH (p : Nat) : ∀ ks : List HTree,
    eraseList (removeNsKidH p ks) = removeNsKid p (eraseList ks)
  | [] => rfl
  | k :: ks => by
    have ih := eraseList_removeNsKidH p ks
    cases k with
    | node h v kk =>
      cases v with
      | «namespace» q x =>
        by_cases hq : (q == p) = true
        · simp [removeNsKidH, removeNsKid, eraseList, erase, HTree.value, Tree.value, hq]
        · simp [removeNsKidH, removeNsKid, eraseList, erase, HTree.value, Tree.value, hq, ih]
      | _ => simp [removeNsKidH, removeNsKid, eraseList, erase, HTree.value, Tree.value]

/-- Leading namespace nodes with other prefixes are walked over. -/
theorem removeNsKidH_skip (p : Nat) : ∀ (X rest : List HTree),
    (∀ a ∈ X, a.value.category = .namespace) → (∀ a ∈ X, Fmap.keyOf a ≠ p) →
    removeNsKidH p (X ++ rest) = X ++ removeNsKidH p rest
  | [], _, _, _ => rfl
  | a :: X, rest, hc, hk => by
    obtain ⟨q, x, hv⟩ := (fpxr_cat_ns a).mp (hc a (by simp))
    have hq : (q == p) = false := by
      have := hk a (by simp)
      simp only [Fmap.keyOf, hv, entryKey] at this
      simpa using this
    have ih := removeNsKidH_skip p X rest (fun b hb => hc b (by simp [hb])) (fun b hb => hk b (by simp [hb]))
    simp only [List.cons_append, removeNsKidH, hv, hq, Bool.false_eq_true, if_false, ih]

theorem removeNsKidH_hit (p : Nat) (n : HTree) (rest : List HTree)
    (hc : n.value.category = .namespace) (hk : Fmap.keyOf n = p) :
    removeNsKidH p (n :: rest) = rest := by
  obtain ⟨q, x, hv⟩ := (fpxr_cat_ns n).mp hc
  have hq : q = p := by simpa [Fmap.keyOf, hv, entryKey] using hk
  subst hq
  simp [removeNsKidH, hv]

theorem removeNsKidH_end (p : Nat) (rest : List HTree)
    (hc : ∀ a ∈ rest, a.value.category ≠ .namespace) : removeNsKidH p rest = rest := by
  cases rest with
  | nil => rfl
  | cons a rest =>
    have := hc a (by simp)
    cases a with
    | node h v kk => cases v <;> simp_all [removeNsKidH, HTree.value, Value.category]

/-! ### Handles and values under the removal -/

theorem handlesList_removeNsKidH_sublist (p : Nat) : ∀ ks : List HTree,
    (handlesList (removeNsKidH p ks)).Sublist (handlesList ks)
  | [] => List.Sublist.refl _
  | k :: ks => by
    have ih := handlesList_removeNsKidH_sublist p ks
    cases k with
    | node h v kk =>
      by_cases hv : ∃ q x, v = .namespace q x
      · obtain ⟨q, x, rfl⟩ := hv
        by_cases hq : (q == p) = true
        · simp only [removeNsKidH, HTree.value, hq, if_true, fi_handlesList_cons]
          exact List.sublist_append_right _ _
        · simp only [removeNsKidH, HTree.value, hq, Bool.false_eq_true, if_false, fi_handlesList_cons]
          exact List.Sublist.append (List.Sublist.refl _) ih
      · have h1 : removeNsKidH p (node h v kk :: ks) = node h v kk :: ks := by
          cases v <;> first | (exfalso; exact hv ⟨_, _, rfl⟩) | rfl
        rw [h1]
        exact List.Sublist.refl _

/-- A pair `(handle, value)` is that of a node which is not a namespace node. -/
def notNsPair (x : Nat × Value) : Bool := x.2.category != .namespace

/-- Namespace nodes being leaves, only pairs of namespace nodes go. -/
theorem hvList_removeNsKidH (p : Nat) : ∀ ks : List HTree,
    (∀ k ∈ ks, k.value.category = .namespace → k.kids = []) →
    (hvList (removeNsKidH p ks)).filter notNsPair = (hvList ks).filter notNsPair
  | [], _ => rfl
  | k :: ks, hl => by
    have ih := hvList_removeNsKidH p ks (fun k' hk' => hl k' (by simp [hk']))
    have hk := hl k (by simp)
    cases k with
    | node h v kk =>
      by_cases hv : ∃ q x, v = .namespace q x
      · obtain ⟨q, x, rfl⟩ := hv
        have hkk : kk = [] := hk rfl
        subst hkk
        by_cases hq : (q == p) = true
        · simp [removeNsKidH, HTree.value, hq, notNsPair, Value.category]
        · simp only [removeNsKidH, HTree.value, hq, Bool.false_eq_true, if_false, hvList_cons,
            List.filter_append, ih]
      · have h1 : removeNsKidH p (node h v kk :: ks) = node h v kk :: ks := by
          cases v <;> first | (exfalso; exact hv ⟨_, _, rfl⟩) | rfl
        rw [h1]

end HTree

namespace Forest
open Fmap

/-- **One call `namespaces_mut(e).remove(p)`** on an element of a forest with the invariant: it answers
    `ok`, and the forest afterwards is the forest with the child list of `e` edited by `removeNsKidH`
    (in particular `next` is unchanged). -/
theorem fpxd_mapRemove {f : Forest} (hi : f.Inv) {e : Nat} (he : f.isElement e = true) (p : Nat) :
    f.mapRemove .namespaces e p =
      ({ f with roots := mapAtList e (atKids (removeNsKidH p)) f.roots }, .ok) := by
  obtain ⟨nm, N, A, S, h⟩ := minv_of_inv f e hi he
  have hw := withKids_of f.roots e (removeNsKidH p) _ h.loc.nodup h.loc.get
  rw [hw]
  simp only [HTree.kids]
  have hrest : ∀ a ∈ A ++ S, a.value.category ≠ .namespace := by
    intro a ha
    rcases List.mem_append.mp ha with ha | ha
    · rw [h.sect.allAt a ha]; decide
    · rw [h.sect.allNm a ha]; decide
  unfold Forest.mapRemove
  rw [he]
  simp only [Bool.not_true, Bool.false_eq_true, if_false]
  cases hn : f.mapGetNode .namespaces e p with
  | some n =>
    simp only
    rw [h.getNode .namespaces] at hn
    obtain ⟨hkey, s1, s2, hs, hs1⟩ := find?_key_split _ _ _ hn
    obtain ⟨hrem, _, _⟩ := remove_present h .namespaces p n s1 s2 hs hkey hs1
    simp only [Sect.sec] at hs
    have hNs : ∀ a ∈ s1, a.value.category = .namespace := fun a ha => h.sect.allNs a (by rw [hs]; simp [ha])
    have hnc : n.value.category = .namespace := h.sect.allNs n (by rw [hs]; simp)
    rw [hrem]
    simp only [preK, postK, List.nil_append]
    have : N ++ A ++ S = s1 ++ (n :: (s2 ++ (A ++ S))) := by rw [hs]; simp
    rw [this, removeNsKidH_skip p s1 _ hNs hs1, removeNsKidH_hit p n _ hnc hkey]
    simp
  | none =>
    simp only
    rw [h.getNode .namespaces] at hn
    have habs := find?_key_none _ _ hn
    simp only [Sect.sec] at habs
    rw [List.append_assoc N A S, removeNsKidH_skip p N _ h.sect.allNs habs, removeNsKidH_end p _ hrest,
      ← List.append_assoc, withKids_self h.loc]

end Forest
end XotModel
