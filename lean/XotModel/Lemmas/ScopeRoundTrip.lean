/-
  C15 and the round trip: `deduplicate_namespaces` keeps a tree inside the C01 domain
  (`Representable`: it only deletes namespace-node children, Lemmas/RepresentableEdit.lean), and what it
  leaves is `deep_equal` to what it was given (the eraser `stripNs` of Lemmas/ScopeDedup.lean is the
  neutral `dropNs` of Lemmas/CanonDropNs.lean).
-/
import XotModel.Lemmas.RepresentableEdit
import XotModel.Lemmas.CanonDropNs
import XotModel.Lemmas.RoundTripDeepEqual
import XotModel.Lemmas.ScopeDedup

namespace XotModel

variable {env : Env}

theorem keeps_removeNamespacesAt (path : Path) (pfxs : List Nat) :
    ∀ t : Tree, t.allNodes (nodeOK env) = true → Keeps env (removeNamespacesAt t path pfxs) t := by
  induction pfxs with
  | nil => intro t h; exact Keeps.refl h
  | cons pfx rest ih =>
    intro t h
    simp only [removeNamespacesAt, List.foldl_cons]
    have h1 := keeps_scopeModifyAt (removeNsKidsOf pfx) (keeps_removeNsKidsOf pfx) path t h
    exact (ih _ h1.ok).trans h1

theorem keeps_applyFixups (fps : List (Path × List Nat)) :
    ∀ t : Tree, t.allNodes (nodeOK env) = true → Keeps env (applyFixups t fps) t := by
  induction fps with
  | nil => intro t h; exact Keeps.refl h
  | cons fp rest ih =>
    intro t h
    simp only [applyFixups, List.foldl_cons]
    have h1 := keeps_removeNamespacesAt fp.1 fp.2 t h
    exact (ih _ h1.ok).trans h1

theorem keeps_dedupLoop (path : Path) : ∀ (fuel : Nat) (t : Tree),
    t.allNodes (nodeOK env) = true → Keeps env (dedupLoop env path fuel t) t
  | 0, t, h => Keeps.refl h
  | fuel + 1, t, h => by
    unfold dedupLoop
    split
    · exact Keeps.refl h
    · rename_i sub _
      dsimp only
      have h1 : Keeps env (dedupPass env t path sub).1 t := keeps_applyFixups _ t h
      split
      · exact (keeps_dedupLoop path fuel _ h1.ok).trans h1
      · exact h1

/-- `deduplicate_namespaces` (any node, whatever the traversals decided to remove) is an edit that
    stays in the C01 domain. -/
theorem keeps_deduplicateNamespaces (t t' : Tree) (path : Path) (hok : t.allNodes (nodeOK env) = true)
    (h : deduplicateNamespaces env t path = some t') : Keeps env t' t := by
  unfold deduplicateNamespaces at h
  split at h
  · cases h
  · simp only [Option.some.injEq] at h
    subst h
    exact keeps_dedupLoop path _ t hok

theorem representable_deduplicateNamespaces (t t' : Tree) (path : Path) (hr : Representable env t = true)
    (h : deduplicateNamespaces env t path = some t') : Representable env t' = true := by
  have hr' := hr
  simp only [Representable, Bool.and_eq_true] at hr'
  exact representable_of_keeps hr
    (keeps_deduplicateNamespaces t t' path ((representableFragment_iff env t).mp hr'.1).2.2.1 h)

theorem representableFragment_deduplicateNamespaces (t t' : Tree) (path : Path)
    (hr : RepresentableFragment env t = true)
    (h : deduplicateNamespaces env t path = some t') : RepresentableFragment env t' = true :=
  representableFragment_of_keeps hr
    (keeps_deduplicateNamespaces t t' path ((representableFragment_iff env t).mp hr).2.2.1 h)

mutual
theorem stripNs_eq_dropNs : ∀ t : Tree, stripNs t = dropNs t
  | .node v ks => by simp only [stripNs, dropNs, stripNsList_eq_dropNsList ks]
theorem stripNsList_eq_dropNsList : ∀ ks : List Tree, stripNs.stripNsList ks = dropNsList ks
  | [] => by simp [stripNs.stripNsList, dropNsList]
  | k :: ks => by
    simp only [stripNs.stripNsList, dropNsList, stripNs_eq_dropNs k, stripNsList_eq_dropNsList ks]
end

/-- Two `nodeOK` trees with the same skeleton (namespace nodes erased) are `deep_equal`. -/
theorem deepEqual_of_stripNs {a b : Tree} (ha : a.allNodes (nodeOK env) = true)
    (hb : b.allNodes (nodeOK env) = true) (h : stripNs a = stripNs b) : deepEqual a b = true :=
  deepEqual_of_dropNs a b (valid_of_nodeOK a ha) (valid_of_nodeOK b hb)
    (by rw [← stripNs_eq_dropNs, ← stripNs_eq_dropNs, h])

end XotModel
