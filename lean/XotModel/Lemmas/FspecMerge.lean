/-
  FspecMerge — xot's `remove_consolidate_text_nodes` at one site: what the model's
  `removeConsolidate (prev) (next)` does to the child list `l ++ mid ++ r` when `prev` / `next`
  are the siblings computed around the node that is leaving (`mid` = that node if it is still
  in place, `[]` if it has been cut already).
-/
import XotModel.Lemmas.FspecList

namespace XotModel
open HTree Spec

/-- `previous_sibling` / `next_sibling` computed from the pieces of a context. -/
def prevOf (l : List HTree) (k : HTree) : Option Nat :=
  match l.getLast? with
  | none => none
  | some q => if q.value.category == k.value.category then some q.handle else none

def nextOf (r : List HTree) (k : HTree) : Option Nat :=
  match r.head? with
  | none => none
  | some q => if q.value.category == k.value.category then some q.handle else none

theorem setValue_handles (v : Value) (t : HTree) : handles (t.setValue v) = handles t := by
  cases t; simp [HTree.setValue, handles]

theorem setValue_handle (v : Value) (t : HTree) : (t.setValue v).handle = t.handle := by
  cases t; rfl

theorem setValue_value (v : Value) (t : HTree) : (t.setValue v).value = v := by
  cases t; rfl

theorem setValue_kids (v : Value) (t : HTree) : (t.setValue v).kids = t.kids := by
  cases t; rfl

namespace Forest

theorem prevSibling_of_ctx {f : Forest} {n : Nat} {c : Ctx} (e : f.ctx? n = some c) :
    f.prevSibling n = prevOf c.left c.self := by
  unfold prevSibling prevOf
  rw [e]
  simp only
  cases c.left.getLast? <;> rfl

theorem nextSibling_of_ctx {f : Forest} {n : Nat} {c : Ctx} (e : f.ctx? n = some c) :
    f.nextSibling n = nextOf c.right c.self := by
  unfold nextSibling nextOf
  rw [e]
  simp only
  cases c.right.head? <;> rfl

theorem prevSibling_of_no_ctx {f : Forest} {n : Nat} (e : f.ctx? n = none) : f.prevSibling n = none := by
  unfold prevSibling; rw [e]

theorem nextSibling_of_no_ctx {f : Forest} {n : Nat} (e : f.ctx? n = none) : f.nextSibling n = none := by
  unfold nextSibling; rw [e]

theorem removeConsolidate_off {f : Forest} (h : f.consolidation = false) (a b : Option Nat) :
    f.removeConsolidate a b = (f, false) := by
  simp [removeConsolidate, h]

theorem removeConsolidate_none_left (f : Forest) (b : Option Nat) :
    f.removeConsolidate none b = (f, false) := by
  unfold removeConsolidate
  split <;> rfl

theorem removeConsolidate_none_right (f : Forest) (a : Option Nat) :
    f.removeConsolidate a none = (f, false) := by
  unfold removeConsolidate
  split
  · rfl
  · cases a <;> rfl

theorem removeConsolidate_text {f : Forest} (hc : f.consolidation = true) {a b : Nat} {x y : Str}
    (ha : f.textOf a = some x) (hb : f.textOf b = some y) :
    f.removeConsolidate (some a) (some b) = ((f.setValue a (.text (x ++ y))).spliceOut b, true) := by
  unfold removeConsolidate
  simp [hc, ha, hb]

theorem removeConsolidate_not_text_left {f : Forest} {a b : Nat} (ha : f.textOf a = none) :
    f.removeConsolidate (some a) (some b) = (f, false) := by
  unfold removeConsolidate
  cases f.consolidation <;> simp [ha]

theorem removeConsolidate_not_text_right {f : Forest} {a b : Nat} (hb : f.textOf b = none) :
    f.removeConsolidate (some a) (some b) = (f, false) := by
  unfold removeConsolidate
  cases f.consolidation <;> cases h : f.textOf a <;> simp [hb]

theorem textOf_of_get {f : Forest} {a : Nat} {t : HTree} (e : f.get? a = some t) : f.textOf a = textData t := by
  unfold textOf value? textData
  rw [e]
  simp only [Option.map_some]
  cases t.value <;> rfl

theorem editAt_consolidation (f : Forest) (s : Option Nat) (g : List HTree → List HTree) :
    (f.editAt s g).consolidation = f.consolidation := by
  cases s <;> rfl

end Forest

/-- The two text nodes `a … b` (with `mid` between them) become one: the model's merge as an
    edit of the child list. -/
theorem merge_at_site {f : Forest} {p : Nat} {v : Value} {l' mid r' : List HTree} {a b : HTree} {x y : Str}
    (s : SiteAt f p v (l' ++ a :: (mid ++ b :: r'))) (hc : f.consolidation = true)
    (hx : a.value = .text x) (hy : b.value = .text y) (hleaf : b.kids = []) :
    f.removeConsolidate (some a.handle) (some b.handle) =
      (f.editAt (some p) (fun _ => l' ++ a.setValue (.text (x ++ y)) :: (mid ++ r')), true) := by
  have ha : f.textOf a.handle = some x := by
    rw [Forest.textOf_of_get s.getKid]; exact textData_of_value hx
  have s' : SiteAt f p v ((l' ++ a :: mid) ++ b :: r') := by
    have : (l' ++ a :: mid) ++ b :: r' = l' ++ a :: (mid ++ b :: r') := by simp
    rw [this]; exact s
  have hb : f.textOf b.handle = some y := by
    rw [Forest.textOf_of_get s'.getKid]; exact textData_of_value hy
  rw [Forest.removeConsolidate_text hc ha hb]
  -- the value update
  obtain ⟨ndL, _⟩ := s.nodupKids
  obtain ⟨ta, tb⟩ := tops_ne_of_nodup ndL
  let g1 : List HTree → List HTree := replaceTop a.handle (fun k => [k.setValue (.text (x ++ y))])
  have e1 : f.setValue a.handle (.text (x ++ y)) = f.editAt (some p) g1 :=
    Forest.setValue_of_ctx _ s.nd s.ctx
  have hg1 : g1 (l' ++ a :: (mid ++ b :: r')) = l' ++ a.setValue (.text (x ++ y)) :: (mid ++ b :: r') := by
    simp only [g1]
    rw [replaceTop_mid rfl ta]
    simp
  have s1 : SiteAt (f.editAt (some p) g1) p v (l' ++ a.setValue (.text (x ++ y)) :: (mid ++ b :: r')) := by
    have := s.edit g1 (by
      rw [hg1]
      simp only [fs_handlesList_append, handlesList_cons, setValue_handles]
      exact List.Sublist.refl _)
    rw [hg1] at this
    exact this
  -- the removal of the later node
  have s1' : SiteAt (f.editAt (some p) g1) p v ((l' ++ a.setValue (.text (x ++ y)) :: mid) ++ b :: r') := by
    have : (l' ++ a.setValue (.text (x ++ y)) :: mid) ++ b :: r'
        = l' ++ a.setValue (.text (x ++ y)) :: (mid ++ b :: r') := by simp
    rw [this]; exact s1
  obtain ⟨ndL1, _⟩ := s1'.nodupKids
  obtain ⟨tb1, _⟩ := tops_ne_of_nodup ndL1
  let g2 : List HTree → List HTree := replaceTop b.handle (fun k => k.kids)
  have e2 : (f.editAt (some p) g1).spliceOut b.handle = (f.editAt (some p) g1).editAt (some p) g2 :=
    Forest.spliceOut_of_ctx s1'.nd s1'.ctx
  rw [e1, e2, Forest.editAt_editAt]
  congr 1
  apply s.congr
  simp only [Function.comp]
  rw [hg1]
  have : l' ++ a.setValue (.text (x ++ y)) :: (mid ++ b :: r')
      = (l' ++ a.setValue (.text (x ++ y)) :: mid) ++ b :: r' := by simp
  rw [this]
  simp only [g2]
  rw [replaceTop_mid rfl tb1, hleaf]
  simp

/-- The outcome of the model's old-site merge around the leaving node `k`. -/
theorem oldSite {f : Forest} {p : Nat} {v : Value} {l mid r : List HTree} {k : HTree}
    (s : SiteAt f p v (l ++ (mid ++ r)))
    (hleaf : ∀ t ∈ r, t.value.isText = true → t.kids = [])
    (hcat : ∀ a b, l.getLast? = some a → r.head? = some b → a.value.isText = true → b.value.isText = true →
      a.value.category = k.value.category ∧ b.value.category = k.value.category) :
    (f.removeConsolidate (prevOf l k) (nextOf r k) = (f, false) ∧
      (f.consolidation = true → ∀ a b, l.getLast? = some a → r.head? = some b →
        ¬ (a.value.isText = true ∧ b.value.isText = true)))
    ∨ (f.consolidation = true ∧ ∃ l' a b r' x y, l = l' ++ [a] ∧ r = b :: r' ∧
        a.value = .text x ∧ b.value = .text y ∧
        prevOf l k = some a.handle ∧ nextOf r k = some b.handle ∧
        f.removeConsolidate (prevOf l k) (nextOf r k) =
          (f.editAt (some p) (fun _ => l' ++ a.setValue (.text (x ++ y)) :: (mid ++ r')), true)) := by
  rcases Bool.eq_false_or_eq_true f.consolidation with hc | hc
  case inr =>
    left
    exact ⟨Forest.removeConsolidate_off hc _ _, fun h => by rw [hc] at h; cases h⟩
  cases hl : l.getLast? with
  | none =>
    left
    refine ⟨?_, fun _ a b ea => by cases ea⟩
    simp only [prevOf, hl]
    exact Forest.removeConsolidate_none_left _ _
  | some a =>
    cases hr : r.head? with
    | none =>
      left
      refine ⟨?_, fun _ a b _ eb => by cases eb⟩
      simp only [nextOf, hr]
      exact Forest.removeConsolidate_none_right _ _
    | some b =>
      obtain ⟨l', el⟩ := List.getLast?_eq_some_iff.1 hl
      obtain ⟨r', er⟩ := List.head?_eq_some_iff.1 hr
      subst el er
      have s0 : SiteAt f p v (l' ++ a :: (mid ++ b :: r')) := by
        have : l' ++ a :: (mid ++ b :: r') = (l' ++ [a]) ++ (mid ++ b :: r') := by simp
        rw [this]; exact s
      have s0' : SiteAt f p v ((l' ++ a :: mid) ++ b :: r') := by
        have : (l' ++ a :: mid) ++ b :: r' = l' ++ a :: (mid ++ b :: r') := by simp
        rw [this]; exact s0
      cases hxa : textData a with
      | none =>
        left
        refine ⟨?_, ?_⟩
        · simp only [prevOf, nextOf, hl, hr]
          split
          · split
            · apply Forest.removeConsolidate_not_text_left
              rw [Forest.textOf_of_get s0.getKid]; exact hxa
            · exact Forest.removeConsolidate_none_right _ _
          · exact Forest.removeConsolidate_none_left _ _
        · intro _ a' b' ea eb
          cases ea; cases eb
          intro ⟨h1, _⟩
          obtain ⟨x, hx⟩ := isText_iff_textData.1 h1
          rw [hxa] at hx; cases hx
      | some x =>
        cases hyb : textData b with
        | none =>
          left
          refine ⟨?_, ?_⟩
          · simp only [prevOf, nextOf, hl, hr]
            split
            · split
              · apply Forest.removeConsolidate_not_text_right
                rw [Forest.textOf_of_get s0'.getKid]; exact hyb
              · exact Forest.removeConsolidate_none_right _ _
            · exact Forest.removeConsolidate_none_left _ _
          · intro _ a' b' ea eb
            cases ea; cases eb
            intro ⟨_, h2⟩
            obtain ⟨y, hy⟩ := isText_iff_textData.1 h2
            rw [hyb] at hy; cases hy
        | some y =>
          right
          have hx := textData_some hxa
          have hy := textData_some hyb
          have hta : a.value.isText = true := by rw [hx]; rfl
          have htb : b.value.isText = true := by rw [hy]; rfl
          obtain ⟨c1, c2⟩ := hcat a b hl hr hta htb
          have hp : prevOf (l' ++ [a]) k = some a.handle := by simp [prevOf, c1]
          have hn : nextOf (b :: r') k = some b.handle := by simp [nextOf, c2]
          refine ⟨hc, l', a, b, r', x, y, rfl, rfl, hx, hy, hp, hn, ?_⟩
          rw [hp, hn]
          exact merge_at_site s0 hc hx hy (hleaf b List.mem_cons_self htb)

end XotModel
