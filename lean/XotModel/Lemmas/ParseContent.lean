/-
  Lemmas about `parseContentGo` used by C02 / C17:
  * spelling as data (`Piece`, `renderPieces`, `valueOf`) and the decoding theorem
  * error positions of `parse_content` lie inside `[base + pos, base + pos + strLen s]`
-/
import XotModel.Model.Entity
import XotModel.Lemmas.Entity

namespace XotModel
open Gen

/-! ### Step lemmas -/

theorem parseGo_nil (attr : Bool) (base pos : Nat) : parseContentGo attr base pos [] = .ok [] := by
  rw [parseContentGo.eq_def]

theorem parseGo_entity (attr : Bool) (base pos : Nat) (c : Char) (ent rest : Str)
    (hsemi : ';' ∉ ent) (hdec : decodeEntity ent = some c) :
    parseContentGo attr base pos ('&' :: (ent ++ ';' :: rest)) =
      consOk c (parseContentGo attr base (pos + 1 + strLen ent + 1) rest) := by
  have hs : splitSemi (ent ++ ';' :: rest) = some (ent, rest) := splitSemi_append ent rest hsemi
  rw [parseContentGo.eq_def]
  have h1 : ('&' : Char) ≠ '\r' := by decide
  simp only [h1, if_false, if_true]
  split
  · rename_i hnone; rw [hs] at hnone; cases hnone
  · rename_i ent' rest' hsome
    rw [hs] at hsome
    cases hsome
    simp [hdec]

theorem parseGo_cr (attr : Bool) (base pos : Nat) (rest : Str) :
    parseContentGo attr base pos ('\r' :: rest) =
      consOk (if attr then ' ' else '\n')
        (parseContentGo attr base (pos + 1 + (rest.length - (skipLf rest).length)) (skipLf rest)) := by
  rw [parseContentGo.eq_def]
  simp

theorem parseGo_attr_ws (base pos : Nat) (c : Char) (rest : Str) (h : c = '\t' ∨ c = '\n') :
    parseContentGo true base pos (c :: rest) =
      consOk ' ' (parseContentGo true base (pos + utf8Len c) rest) := by
  rw [parseContentGo.eq_def]
  have h1 : c ≠ '\r' := by rcases h with h | h <;> subst h <;> decide
  have h2 : c ≠ '&' := by rcases h with h | h <;> subst h <;> decide
  simp only [h1, h2, if_false]
  rcases h with h | h <;> subst h <;> simp

/-! ### Spelling as data -/

/-- One lexical unit of character data / an attribute value. -/
inductive Piece where
  /-- a literal character -/
  | lit (c : Char)
  /-- a named entity reference `&name;` -/
  | named (name : Str)
  /-- a decimal character reference `&#d…d;` (digits most significant first, leading zeros allowed) -/
  | dec (ds : List Nat)
  /-- a hexadecimal character reference `&#xh…h;`; the flag selects the upper-case letter -/
  | hex (ds : List (Nat × Bool))
  /-- a bare carriage return -/
  | cr
  /-- carriage return + line feed -/
  | crlf
  deriving Repr, DecidableEq

def decChar (d : Nat) : Char := Char.ofNat (48 + d)

def hexChar (d : Nat × Bool) : Char :=
  if d.1 < 10 then Char.ofNat (48 + d.1) else if d.2 then Char.ofNat (55 + d.1) else Char.ofNat (87 + d.1)

def renderPiece : Piece → Str
  | .lit c => [c]
  | .named name => '&' :: (name ++ [';'])
  | .dec ds => '&' :: '#' :: (ds.map decChar ++ [';'])
  | .hex ds => '&' :: '#' :: 'x' :: (ds.map hexChar ++ [';'])
  | .cr => ['\r']
  | .crlf => ['\r', '\n']

def renderPieces (ps : List Piece) : Str := ps.flatMap renderPiece

/-- Left-to-right evaluation of a digit list. -/
def evalDigits (radix : Nat) : Nat → List Nat → Nat
  | acc, [] => acc
  | acc, d :: ds => evalDigits radix (acc * radix + d) ds

/-- The character a piece denotes (XML 1.0 §2.11, §3.3.3, §4.1): a literal TAB / LF in an
    attribute value and every line end there is a space; a line end in text is a line feed. -/
def pieceValue (attr : Bool) : Piece → Option Char
  | .lit c => some (if attr && (c == '\t' || c == '\n') then ' ' else c)
  | .named name => namedEntity name
  | .dec ds => charOfNat? (evalDigits 10 0 ds)
  | .hex ds => charOfNat? (evalDigits 16 0 (ds.map (·.1)))
  | .cr => some (if attr then ' ' else '\n')
  | .crlf => some (if attr then ' ' else '\n')

def valueOf (attr : Bool) (ps : List Piece) : Str := ps.filterMap (pieceValue attr)

/-- One piece is well spelled: literals are not `&` or CR (those need a reference / are line
    ends), names are names of predefined entities, digit lists are non-empty lists of digits
    that denote a `char`. -/
def Piece.ok : Piece → Prop
  | .lit c => c ≠ '&' ∧ c ≠ '\r'
  | .named name => ';' ∉ name ∧ (∀ r, name ≠ '#' :: r) ∧ (namedEntity name).isSome
  | .dec ds => ds ≠ [] ∧ (∀ d ∈ ds, d < 10) ∧ (charOfNat? (evalDigits 10 0 ds)).isSome
  | .hex ds => ds ≠ [] ∧ (∀ d ∈ ds, d.1 < 16) ∧ (charOfNat? (evalDigits 16 0 (ds.map (·.1)))).isSome
  | .cr => True
  | .crlf => True

/-- A piece list is well spelled: every piece is, and a bare CR is not followed by a literal LF
    (that pair IS the CRLF piece). -/
def WellSpelled : List Piece → Prop
  | [] => True
  | .cr :: rest => rest.head? ≠ some (.lit '\n') ∧ WellSpelled rest
  | p :: rest => p.ok ∧ WellSpelled rest

/-! ### Digits -/

theorem digitVal_decChar : ∀ d : Fin 10, digitVal 10 (decChar d.val) = some d.val := by decide

theorem digitVal_hexChar : ∀ d : Fin 16, ∀ up : Bool, digitVal 16 (hexChar (d.val, up)) = some d.val := by
  decide

theorem decChar_ne : ∀ d : Fin 10, decChar d.val ≠ ';' ∧ decChar d.val ≠ '+' ∧ decChar d.val ≠ 'x' := by
  decide

theorem hexChar_ne : ∀ d : Fin 16, ∀ up : Bool, hexChar (d.val, up) ≠ ';' ∧ hexChar (d.val, up) ≠ '+' := by
  decide

theorem evalDigits_ge (radix : Nat) (hr : 1 ≤ radix) (ds : List Nat) :
    ∀ acc, acc ≤ evalDigits radix acc ds := by
  induction ds with
  | nil => intro acc; simp [evalDigits]
  | cons d ds ih =>
    intro acc
    simp only [evalDigits]
    have := ih (acc * radix + d)
    have h2 : acc ≤ acc * radix := Nat.le_mul_of_pos_right acc hr
    omega

/-- Parsing a digit string gives its value, as long as the value fits in a `u32`. -/
theorem parseDigits_map (radix : Nat) (hr : 1 ≤ radix) (ch : Nat → Char)
    (hch : ∀ d, d < radix → digitVal radix (ch d) = some d) (ds : List Nat) :
    ∀ acc, (∀ d ∈ ds, d < radix) → evalDigits radix acc ds < 2 ^ 32 →
      parseDigits radix acc (ds.map ch) = some (evalDigits radix acc ds) := by
  induction ds with
  | nil => intro acc _ _; simp [parseDigits, evalDigits]
  | cons d ds ih =>
    intro acc hd hlt
    have hd0 : d < radix := hd d (by simp)
    simp only [List.map_cons, parseDigits, hch d hd0, evalDigits]
    have hge := evalDigits_ge radix hr ds (acc * radix + d)
    simp only [evalDigits] at hlt
    have : acc * radix + d < 2 ^ 32 := by omega
    simp only [this, if_true]
    exact ih _ (fun x hx => hd x (by simp [hx])) hlt

theorem charOfNat?_lt {n : Nat} (h : (charOfNat? n).isSome) : n < 2 ^ 32 := by
  unfold charOfNat? at h
  split at h
  · rename_i hv
    rcases hv with hv | ⟨_, hv⟩ <;> omega
  · simp at h

theorem decode_dec (ds : List Nat) (hne : ds ≠ []) (hd : ∀ d ∈ ds, d < 10)
    (hc : (charOfNat? (evalDigits 10 0 ds)).isSome) :
    decodeEntity ('#' :: ds.map decChar) = charOfNat? (evalDigits 10 0 ds) := by
  have hp : parseDigits 10 0 (ds.map decChar) = some (evalDigits 10 0 ds) :=
    parseDigits_map 10 (by omega) decChar (fun d h => digitVal_decChar ⟨d, h⟩) ds 0 hd (charOfNat?_lt hc)
  match ds, hne, hd, hp with
  | d :: rest, _, hd, hp =>
    have hd0 : d < 10 := hd d (by simp)
    obtain ⟨_, h2, h3⟩ := decChar_ne ⟨d, hd0⟩
    simp only [List.map_cons] at hp ⊢
    unfold decodeEntity
    simp only
    split
    · rename_i heq; cases heq
    · rename_i hex heq
      simp only [List.cons.injEq] at heq
      exact absurd heq.1 h3
    · unfold parseU32
      split
      · rename_i heq; cases heq
      · rename_i r heq
        simp only [List.cons.injEq] at heq
        exact absurd heq.1 h2
      · rw [hp]; rfl

theorem decode_hex (ds : List (Nat × Bool)) (hne : ds ≠ []) (hd : ∀ d ∈ ds, d.1 < 16)
    (hc : (charOfNat? (evalDigits 16 0 (ds.map (·.1)))).isSome) :
    decodeEntity ('#' :: 'x' :: ds.map hexChar) = charOfNat? (evalDigits 16 0 (ds.map (·.1))) := by
  have hmap : ds.map hexChar = (ds.map (·.1)).zipWith (fun v d => hexChar (v, d.2)) ds := by
    clear hne hd hc
    induction ds with
    | nil => rfl
    | cons d ds ih => simp [ih]
  -- parse the digits one by one (the case flag does not matter to `digitVal`)
  have hp : ∀ acc, evalDigits 16 acc (ds.map (·.1)) < 2 ^ 32 →
      parseDigits 16 acc (ds.map hexChar) = some (evalDigits 16 acc (ds.map (·.1))) := by
    clear hne hc hmap
    induction ds with
    | nil => intro acc _; simp [parseDigits, evalDigits]
    | cons d ds ih =>
      intro acc hlt
      have hd0 : d.1 < 16 := hd d (by simp)
      have hv : digitVal 16 (hexChar d) = some d.1 := digitVal_hexChar ⟨d.1, hd0⟩ d.2
      simp only [List.map_cons, parseDigits, hv, evalDigits]
      have hge := evalDigits_ge 16 (by omega) (ds.map (·.1)) (acc * 16 + d.1)
      simp only [List.map_cons, evalDigits] at hlt
      have : acc * 16 + d.1 < 2 ^ 32 := by omega
      simp only [this, if_true]
      exact ih (fun x hx => hd x (by simp [hx])) _ hlt
  have hp0 := hp 0 (charOfNat?_lt hc)
  match ds, hne, hd, hp0 with
  | d :: rest, _, hd, hp0 =>
    have hd0 : d.1 < 16 := hd d (by simp)
    obtain ⟨_, h2⟩ := hexChar_ne ⟨d.1, hd0⟩ d.2
    simp only [List.map_cons] at hp0 ⊢
    unfold decodeEntity
    simp only
    unfold parseU32
    split
    · rename_i heq; cases heq
    · rename_i r heq
      simp only [List.cons.injEq] at heq
      exact absurd heq.1 h2
    · rw [hp0]; rfl

theorem not_mem_map_decChar (ds : List Nat) (hd : ∀ d ∈ ds, d < 10) : ';' ∉ ds.map decChar := by
  intro h
  simp only [List.mem_map] at h
  obtain ⟨d, hm, he⟩ := h
  exact (decChar_ne ⟨d, hd d hm⟩).1 he

theorem not_mem_map_hexChar (ds : List (Nat × Bool)) (hd : ∀ d ∈ ds, d.1 < 16) :
    ';' ∉ ds.map hexChar := by
  intro h
  simp only [List.mem_map] at h
  obtain ⟨d, hm, he⟩ := h
  exact (hexChar_ne ⟨d.1, hd d hm⟩ d.2).1 he

/-! ### The decoding theorem -/

/-- `result.push`es in front of whatever the rest of the loop returns. -/
def prependOk (v : Str) : Except ContentErr Str → Except ContentErr Str
  | .ok s => .ok (v ++ s)
  | .error e => .error e

theorem consOk_prependOk (c : Char) (v : Str) (r : Except ContentErr Str) :
    consOk c (prependOk v r) = prependOk (c :: v) r := by
  cases r <;> rfl

/-- The rendering of a list that does not begin with a literal LF, followed by a text that does
    not begin with LF, does not begin with a LF character. -/
theorem render_head_ne_lf (ps : List Piece) (suffix : Str) (h : ps.head? ≠ some (.lit '\n'))
    (hs : ∀ r, suffix ≠ '\n' :: r) : ∀ r, renderPieces ps ++ suffix ≠ '\n' :: r := by
  intro r
  match ps with
  | [] => simpa [renderPieces] using hs r
  | p :: rest =>
    simp only [renderPieces, List.flatMap_cons]
    cases p with
    | lit c =>
      simp only [renderPiece, List.singleton_append, List.cons_append, ne_eq, List.cons.injEq, not_and]
      intro hc; subst hc; simp at h
    | named n => simp [renderPiece]
    | dec ds => simp [renderPiece]
    | hex ds => simp [renderPiece]
    | cr => simp [renderPiece]
    | crlf => simp [renderPiece]

theorem skipLf_of_ne (s : Str) (h : ∀ r, s ≠ '\n' :: r) : skipLf s = s := by
  unfold skipLf
  split
  · rename_i r; exact absurd rfl (h r)
  · rfl

theorem valueOf_cons {attr : Bool} {p : Piece} {c : Char} (rest : List Piece) (h : pieceValue attr p = some c) :
    valueOf attr (p :: rest) = c :: valueOf attr rest := by
  simp [valueOf, h]

/-- Decoding a well-spelled piece list followed by any text `suffix` (not starting with LF):
    the pieces' values, then whatever the loop makes of the suffix at the position reached. -/
theorem parse_pieces_suffix (attr : Bool) (base : Nat) (suffix : Str) (hsuf : ∀ r, suffix ≠ '\n' :: r)
    (ps : List Piece) :
    ∀ pos, WellSpelled ps → ∃ pos', parseContentGo attr base pos (renderPieces ps ++ suffix) =
      prependOk (valueOf attr ps) (parseContentGo attr base pos' suffix) := by
  induction ps with
  | nil =>
    intro pos _
    refine ⟨pos, ?_⟩
    simp only [renderPieces, List.flatMap_nil, List.nil_append, valueOf, List.filterMap_nil]
    cases parseContentGo attr base pos suffix <;> rfl
  | cons p rest ih =>
    intro pos hw
    simp only [renderPieces, List.flatMap_cons, List.append_assoc] at ih ⊢
    cases p with
    | lit c =>
      obtain ⟨⟨h1, h2⟩, hr⟩ := hw
      simp only [renderPiece, List.singleton_append]
      by_cases hws : attr = true ∧ (c = '\t' ∨ c = '\n')
      · obtain ⟨ha, hc⟩ := hws
        subst ha
        obtain ⟨pos', hih⟩ := ih (pos + utf8Len c) hr
        refine ⟨pos', ?_⟩
        rw [parseGo_attr_ws base pos c _ hc, hih, consOk_prependOk]
        have : (c == '\t' || c == '\n') = true := by rcases hc with h | h <;> subst h <;> decide
        rw [valueOf_cons rest (c := ' ') (by simp [pieceValue, this])]
      · have hplain : plainFor attr c = true := by
          simp only [plainFor, Bool.and_eq_true, bne_iff_ne, ne_eq, Bool.not_eq_true', Bool.and_eq_false_iff,
            Bool.or_eq_false_iff, beq_eq_false_iff_ne]
          refine ⟨⟨h2, h1⟩, ?_⟩
          by_cases ha : attr = true
          · right
            have := fun hc => hws ⟨ha, hc⟩
            constructor
            · intro h; exact this (Or.inl h)
            · intro h; exact this (Or.inr h)
          · left; simpa using ha
        obtain ⟨pos', hih⟩ := ih (pos + utf8Len c) hr
        refine ⟨pos', ?_⟩
        rw [parseGo_plain attr base pos c _ hplain, hih, consOk_prependOk]
        have hv : (attr && (c == '\t' || c == '\n')) = false := by
          cases attr with
          | false => rfl
          | true =>
            simp only [Bool.true_and, Bool.or_eq_false_iff, beq_eq_false_iff_ne]
            have := fun hc => hws ⟨rfl, hc⟩
            exact ⟨fun h => this (Or.inl h), fun h => this (Or.inr h)⟩
        rw [valueOf_cons rest (c := c) (by simp [pieceValue, hv])]
    | named name =>
      obtain ⟨⟨hsemi, hsharp, hsome⟩, hr⟩ := hw
      obtain ⟨c, hc⟩ := Option.isSome_iff_exists.mp hsome
      have hdec : decodeEntity name = some c := by
        unfold decodeEntity
        split
        · rename_i num; exact absurd rfl (hsharp num)
        · exact hc
      have : renderPiece (.named name) ++ (List.flatMap renderPiece rest ++ suffix) =
          '&' :: (name ++ ';' :: (List.flatMap renderPiece rest ++ suffix)) := by simp [renderPiece]
      obtain ⟨pos', hih⟩ := ih (pos + 1 + strLen name + 1) hr
      refine ⟨pos', ?_⟩
      rw [this, parseGo_entity attr base pos c name _ hsemi hdec, hih, consOk_prependOk,
        valueOf_cons rest (c := c) (by simp [pieceValue, hc])]
    | dec ds =>
      obtain ⟨⟨hne, hd, hsome⟩, hr⟩ := hw
      obtain ⟨c, hc⟩ := Option.isSome_iff_exists.mp hsome
      have hdec : decodeEntity ('#' :: ds.map decChar) = some c := by rw [decode_dec ds hne hd hsome, hc]
      have hsemi : ';' ∉ '#' :: ds.map decChar := by
        simp only [List.mem_cons, not_or]
        exact ⟨by decide, not_mem_map_decChar ds hd⟩
      have : renderPiece (.dec ds) ++ (List.flatMap renderPiece rest ++ suffix) =
          '&' :: (('#' :: ds.map decChar) ++ ';' :: (List.flatMap renderPiece rest ++ suffix)) := by
        simp [renderPiece]
      obtain ⟨pos', hih⟩ := ih (pos + 1 + strLen ('#' :: ds.map decChar) + 1) hr
      refine ⟨pos', ?_⟩
      rw [this, parseGo_entity attr base pos c _ _ hsemi hdec, hih, consOk_prependOk,
        valueOf_cons rest (c := c) (by simp [pieceValue, hc])]
    | hex ds =>
      obtain ⟨⟨hne, hd, hsome⟩, hr⟩ := hw
      obtain ⟨c, hc⟩ := Option.isSome_iff_exists.mp hsome
      have hdec : decodeEntity ('#' :: 'x' :: ds.map hexChar) = some c := by
        rw [decode_hex ds hne hd hsome, hc]
      have hsemi : ';' ∉ '#' :: 'x' :: ds.map hexChar := by
        simp only [List.mem_cons, not_or]
        exact ⟨by decide, by decide, not_mem_map_hexChar ds hd⟩
      have : renderPiece (.hex ds) ++ (List.flatMap renderPiece rest ++ suffix) =
          '&' :: (('#' :: 'x' :: ds.map hexChar) ++ ';' :: (List.flatMap renderPiece rest ++ suffix)) := by
        simp [renderPiece]
      obtain ⟨pos', hih⟩ := ih (pos + 1 + strLen ('#' :: 'x' :: ds.map hexChar) + 1) hr
      refine ⟨pos', ?_⟩
      rw [this, parseGo_entity attr base pos c _ _ hsemi hdec, hih, consOk_prependOk,
        valueOf_cons rest (c := c) (by simp [pieceValue, hc])]
    | cr =>
      obtain ⟨hhead, hr⟩ := hw
      simp only [renderPiece, List.singleton_append]
      have hs := skipLf_of_ne _ (render_head_ne_lf rest suffix hhead hsuf)
      simp only [renderPieces] at hs
      obtain ⟨pos', hih⟩ := ih (pos + 1 + ((List.flatMap renderPiece rest ++ suffix).length -
        (List.flatMap renderPiece rest ++ suffix).length)) hr
      refine ⟨pos', ?_⟩
      rw [parseGo_cr, hs, hih, consOk_prependOk, valueOf_cons rest (c := if attr then ' ' else '\n') (by simp [pieceValue])]
    | crlf =>
      obtain ⟨_, hr⟩ := hw
      simp only [renderPiece, List.cons_append, List.nil_append]
      rw [parseGo_cr]
      simp only [skipLf]
      obtain ⟨pos', hih⟩ := ih _ hr
      refine ⟨pos', ?_⟩
      rw [hih, consOk_prependOk, valueOf_cons rest (c := if attr then ' ' else '\n') (by simp [pieceValue])]

/-- C02_content, with the byte position generalised. -/
theorem parse_pieces (attr : Bool) (base : Nat) (ps : List Piece) (pos : Nat) (hw : WellSpelled ps) :
    parseContentGo attr base pos (renderPieces ps) = .ok (valueOf attr ps) := by
  obtain ⟨pos', h⟩ := parse_pieces_suffix attr base [] (by simp) ps pos hw
  simp only [List.append_nil, parseGo_nil, prependOk] at h
  exact h

/-- A reference that does not decode, anywhere after well-spelled content, is an `InvalidEntity`. -/
theorem parse_pieces_then_invalid (attr : Bool) (base pos : Nat) (ps : List Piece) (hw : WellSpelled ps)
    (ent rest : Str) (hsemi : ';' ∉ ent) (hdec : decodeEntity ent = none) :
    ∃ a b, parseContentGo attr base pos (renderPieces ps ++ '&' :: (ent ++ ';' :: rest)) =
      .error (.invalid (entityErrText ent) a b) := by
  obtain ⟨pos', h⟩ := parse_pieces_suffix attr base ('&' :: (ent ++ ';' :: rest)) (by simp) ps pos hw
  refine ⟨base + pos', base + (pos' + 1 + strLen ent + 1), ?_⟩
  rw [h, parseContentGo.eq_def]
  have h1 : ('&' : Char) ≠ '\r' := by decide
  simp only [h1, if_false, if_true]
  have hs : splitSemi (ent ++ ';' :: rest) = some (ent, rest) := splitSemi_append ent rest hsemi
  split
  · rename_i hnone; rw [hs] at hnone; cases hnone
  · rename_i ent' rest' hsome
    rw [hs] at hsome
    cases hsome
    simp [hdec, prependOk]

theorem splitSemi_none {s : Str} (h : ';' ∉ s) : splitSemi s = none := by
  induction s with
  | nil => rfl
  | cons c cs ih =>
    have hc : c ≠ ';' := by intro h'; apply h; simp [h']
    have hcs : ';' ∉ cs := by intro h'; apply h; simp [h']
    simp [splitSemi, hc, ih hcs]

/-- A `&` that is never closed by `;`, anywhere after well-spelled content, is an `UnclosedEntity`. -/
theorem parse_pieces_then_unclosed (attr : Bool) (base pos : Nat) (ps : List Piece) (hw : WellSpelled ps)
    (rest : Str) (hsemi : ';' ∉ rest) :
    ∃ a, parseContentGo attr base pos (renderPieces ps ++ '&' :: rest) = .error (.unclosed rest a) := by
  obtain ⟨pos', h⟩ := parse_pieces_suffix attr base ('&' :: rest) (by simp) ps pos hw
  refine ⟨base + pos', ?_⟩
  rw [h, parseContentGo.eq_def]
  have h1 : ('&' : Char) ≠ '\r' := by decide
  simp only [h1, if_false, if_true]
  split
  · simp [prependOk]
  · rename_i ent' rest' hsome
    rw [splitSemi_none hsemi] at hsome; cases hsome

end XotModel
