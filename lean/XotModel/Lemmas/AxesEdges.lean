/-
  `NodeEdge::next` stepping enumerates `traverse` (well-formed trees, normal start node).
-/
import XotModel.Lemmas.AxesSibs

namespace XotModel.Axes

/-! ### The edge lists -/

theorem Edge.mapPath_mapPath (f g : Path → Path) (e : Edge) :
    Edge.mapPath f (Edge.mapPath g e) = Edge.mapPath (f ∘ g) e := by cases e <;> rfl

@[simp] theorem Edge.node_mapPath (f : Path → Path) (e : Edge) : (Edge.mapPath f e).node = f e.node := by
  cases e <;> rfl

theorem rawEdgesList_append (j : Nat) (a b : List Tree) :
    rawEdgesList j (a ++ b) = rawEdgesList j a ++ rawEdgesList (j + a.length) b := by
  induction a generalizing j with
  | nil => simp [rawEdgesList]
  | cons k a ih =>
    simp only [List.cons_append, rawEdgesList, ih, List.append_assoc, List.length_cons]
    congr 3; omega

/-- The filtered edges of the children `ks` of `π`, the first of them having raw index `i`. -/
def kidEdges (t : Tree) (π : Path) (i : Nat) (ks : List Tree) : List Edge :=
  ((rawEdgesList i ks).map (Edge.mapPath (π ++ ·))).filter (edgeNormal t)

theorem kidEdges_append (t : Tree) (π : Path) (i : Nat) (a b : List Tree) :
    kidEdges t π i (a ++ b) = kidEdges t π i a ++ kidEdges t π (i + a.length) b := by
  simp [kidEdges, rawEdgesList_append]

@[simp] theorem kidEdges_nil (t : Tree) (π : Path) (i : Nat) : kidEdges t π i [] = [] := by
  simp [kidEdges, rawEdgesList]

theorem kidEdges_cons {t : Tree} {π : Path} {v : Value} {all : List Tree}
    (h : t.at? π = some (.node v all)) {i : Nat} {k : Tree} (hk : all[i]? = some k) (ks : List Tree) :
    kidEdges t π i (k :: ks) = traverse t (π ++ [i]) ++ kidEdges t π (i + 1) ks := by
  have hsub : subAt t (π ++ [i]) = k := by simp [subAt, at?_snoc h, hk]
  simp only [kidEdges, rawEdgesList, List.map_append, List.filter_append, traverse, arenaTraverse, hsub,
    List.map_map]
  congr 2
  apply List.map_congr_left
  intro e _
  cases e <;> simp [Edge.mapPath]

theorem traverse_node {t : Tree} {π : Path} {v : Value} {ks : List Tree}
    (h : t.at? π = some (.node v ks)) (hn : v.isNormal = true) :
    traverse t π = .start π :: (kidEdges t π 0 ks ++ [.stop π]) := by
  have hnπ : isNormalAt t π = true := by simp [isNormalAt, valueAt, subAt_of_at? h, Tree.value, hn]
  simp [traverse, arenaTraverse, subAt_of_at? h, rawEdges, kidEdges, Edge.mapPath, edgeNormal, Edge.node,
    hnπ]

theorem traverse_abnormal_leaf {t : Tree} {π : Path} {v : Value}
    (h : t.at? π = some (.node v [])) (hn : v.isNormal = false) : traverse t π = [] := by
  have hnπ : isNormalAt t π = false := by simp [isNormalAt, valueAt, subAt_of_at? h, Tree.value, hn]
  simp [traverse, arenaTraverse, subAt_of_at? h, rawEdges, rawEdgesList, Edge.mapPath, edgeNormal,
    Edge.node, hnπ]

/-- A run of non-normal leaves contributes no edge. -/
theorem kidEdges_abnormal {t : Tree} {π : Path} {v : Value} {all : List Tree}
    (h : t.at? π = some (.node v all)) : ∀ (ks : List Tree) (i : Nat),
    (∀ j k, ks[j]? = some k → all[i + j]? = some k) →
    (∀ k ∈ ks, k.value.isNormal = false ∧ k.kids = []) → kidEdges t π i ks = []
  | [], _, _, _ => by simp
  | k :: ks, i, hidx, hab => by
    have hk : all[i]? = some k := by simpa using hidx 0 k rfl
    rw [kidEdges_cons h hk]
    have hk' := hab k (by simp)
    cases k with
    | node vk kk =>
      simp only [Tree.value, Tree.kids] at hk'
      obtain ⟨h1, rfl⟩ := hk'
      have hat : t.at? (π ++ [i]) = some (.node vk []) := by rw [at?_snoc h, hk]
      rw [traverse_abnormal_leaf hat h1, List.nil_append]
      apply kidEdges_abnormal h ks (i + 1)
      · intro j k' hj
        have := hidx (j + 1) k' (by simpa using hj)
        rw [show i + 1 + j = i + (j + 1) by omega]; exact this
      · intro k' hk''; exact hab k' (by simp [hk''])

/-! ### Walking with `NodeEdge::next` -/

/-- Continue the walk from an optional edge. -/
def contN (t : Tree) (m : Nat) : Option Edge → List Edge
  | none => []
  | some e => edgeWalk (Edge.next t) m e

@[simp] theorem contN_none (t : Tree) (m : Nat) : contN t m none = [] := rfl
@[simp] theorem contN_zero (t : Tree) (o : Option Edge) : contN t 0 o = [] := by
  cases o <;> simp [contN, edgeWalk]

theorem contN_succ (t : Tree) (m : Nat) (e : Edge) :
    contN t (m + 1) (some e) = e :: contN t m (Edge.next t e) := by
  simp only [contN, edgeWalk]
  cases Edge.next t e <;> rfl

/-- What the walk does from the start edge of a normal node with subtree `s`. -/
def FwdSub (t : Tree) (s : Tree) : Prop :=
  ∀ (π : Path) (m : Nat), t.at? π = some s → s.value.isNormal = true →
    contN t ((traverse t π).length + m) (some (.start π)) =
      traverse t π ++ contN t m (Edge.next t (.stop π))

theorem next_stop_snoc {t : Tree} {π : Path} {v : Value} {all : List Tree}
    (h : t.at? π = some (.node v all)) (i : Nat) :
    Edge.next t (.stop (π ++ [i])) =
      if i + 1 < all.length then
        (if categoryAt t (π ++ [i]) != categoryAt t (π ++ [i + 1]) then some (.stop π)
         else some (.start (π ++ [i + 1])))
      else some (.stop π) := by
  simp only [Edge.next, nextSibling, internalNextSibling_snoc h]
  by_cases hlt : i + 1 < all.length
  · simp only [hlt, if_true]
    by_cases hc : (categoryAt t (π ++ [i]) != categoryAt t (π ++ [i + 1])) = true
    · simp [hc]
    · simp [hc]
  · simp [hlt]

/-- From the start edge of normal child `i`: the edges of the children `i..`, then `End(π)`. -/
theorem fwd_kids {t : Tree} {π : Path} {v : Value} {all : List Tree}
    (h : t.at? π = some (.node v all)) (hord : kidsOrdered all = true)
    (hsub : ∀ k ∈ all, FwdSub t k) : ∀ (n i : Nat) (m : Nat), i + n + 1 = all.length →
    (∀ k, all[i]? = some k → k.value.isNormal = true) →
    contN t ((kidEdges t π i (all.drop i)).length + 1 + m) (some (.start (π ++ [i]))) =
      kidEdges t π i (all.drop i) ++ .stop π :: contN t m (Edge.next t (.stop π))
  | n, i, m, hlen, hnorm => by
    have hi : i < all.length := by omega
    have hk : all[i]? = some all[i] := List.getElem?_eq_getElem hi
    have hn := hnorm _ hk
    have hat : t.at? (π ++ [i]) = some all[i] := by rw [at?_snoc h, hk]
    rw [List.drop_eq_getElem_cons hi, kidEdges_cons h hk, List.length_append]
    have := hsub all[i] (List.getElem_mem hi) (π ++ [i])
      ((kidEdges t π (i + 1) (all.drop (i + 1))).length + 1 + m) hat hn
    rw [show (traverse t (π ++ [i])).length + (kidEdges t π (i + 1) (all.drop (i + 1))).length + 1 + m =
      (traverse t (π ++ [i])).length + ((kidEdges t π (i + 1) (all.drop (i + 1))).length + 1 + m) by omega,
      this, next_stop_snoc h, List.append_assoc]
    congr 1
    cases n with
    | zero =>
      have hnil : all.drop (i + 1) = [] := by apply List.drop_eq_nil_of_le; omega
      have : ¬ (i + 1 < all.length) := by omega
      simp only [this, if_false, hnil, kidEdges_nil, List.length_nil, Nat.zero_add, List.nil_append]
      rw [Nat.add_comm 1 m, contN_succ]
    | succ n =>
      have hlt : i + 1 < all.length := by omega
      have hk1 : all[i + 1]? = some all[i + 1] := List.getElem?_eq_getElem hlt
      have hn1 := kidsOrdered_mono all hord i (i + 1) _ _ (by omega) hk hk1 hn
      have hcat : (categoryAt t (π ++ [i]) != categoryAt t (π ++ [i + 1])) = false := by
        rw [categoryAt_snoc h hk, categoryAt_snoc h hk1]
        simp only [Value.isNormal, beq_iff_eq] at hn hn1
        simp [hn, hn1]
      simp only [hlt, if_true, hcat, Bool.false_eq_true, if_false]
      exact fwd_kids h hord hsub n (i + 1) m (by omega)
        (by intro k hk'; rw [hk1] at hk'; cases hk'; exact hn1)

theorem firstChild_of {t : Tree} {π : Path} {v : Value} {all : List Tree}
    (h : t.at? π = some (.node v all)) :
    firstChild t π =
      if all.dropWhile (fun k => !k.value.isNormal) = [] then none
      else some (π ++ [(all.takeWhile (fun k => !k.value.isNormal)).length]) := by
  unfold firstChild normalChildren
  rw [allChildren_of_at? h]
  have := kidPaths_dropWhile π (fun k => !k.value.isNormal) 0 all
  simp only [itemNormal] at this ⊢
  rw [this]
  cases all.dropWhile (fun k => !k.value.isNormal) with
  | nil => simp [kidPaths]
  | cons k ks => simp [kidPaths]

/-- A child list split at the first normal child. -/
theorem split_kids (f : Tree → Bool) : ∀ (all : List Tree), ∃ abn nor, all = abn ++ nor ∧
    all.takeWhile f = abn ∧ all.dropWhile f = nor ∧ (∀ k ∈ abn, f k = true) ∧
    (∀ k, nor.head? = some k → f k = false)
  | [] => ⟨[], [], rfl, rfl, rfl, by simp, by simp⟩
  | k :: ks => by
    by_cases hk : f k = true
    · obtain ⟨abn, nor, h1, h2, h3, h4, h5⟩ := split_kids f ks
      refine ⟨k :: abn, nor, by rw [h1]; rfl, by simp [hk, h2],
        by simp [hk, h3], ?_, h5⟩
      intro k' hk'
      rcases List.mem_cons.mp hk' with rfl | h
      · exact hk
      · exact h4 k' h
    · refine ⟨[], k :: ks, rfl, by simp [hk], by simp [hk],
        by simp, ?_⟩
      intro k' hk'
      simp at hk'; subst hk'; simpa using hk

theorem abnormal_leaf_of_wf {k : Tree} (hw : wf k = true) (hab : k.value.isNormal = false) : k.kids = [] := by
  cases k with
  | node vk kk =>
    simp only [wf, Bool.and_eq_true, Bool.or_eq_true] at hw
    simp only [Tree.value] at hab
    rcases hw.1.1 with h1 | h1
    · rw [hab] at h1; cases h1
    · simpa [Tree.kids] using h1

theorem wfList_mem : ∀ (ks : List Tree) (k : Tree), wfList ks = true → k ∈ ks → wf k = true := by
  intro ks k hw hk
  obtain ⟨i, hi, rfl⟩ := List.getElem_of_mem hk
  exact wfList_getElem? ks i _ hw (List.getElem?_eq_getElem hi)

theorem fwdSub_all (t : Tree) (hw : wf t = true) : ∀ (n : Nat) (s : Tree), s.size ≤ n → FwdSub t s
  | 0, s, hs => by cases s; simp [Tree.size] at hs
  | n + 1, .node v all, hs => by
    intro π m h hn
    simp only [Tree.value] at hn
    have hws := wf_at? t π _ hw h
    simp only [wf, Bool.and_eq_true] at hws
    have hsub : ∀ k ∈ all, FwdSub t k := by
      intro k hk
      apply fwdSub_all t hw n k
      obtain ⟨i, hi, rfl⟩ := List.getElem_of_mem hk
      have := size_getElem?_le all i _ (List.getElem?_eq_getElem hi)
      simp [Tree.size] at hs; omega
    rw [traverse_node h hn]
    simp only [List.length_cons, List.length_append, List.length_nil]
    rw [show (kidEdges t π 0 all).length + (0 + 1) + 1 + m = ((kidEdges t π 0 all).length + 1 + m) + 1 by omega,
      contN_succ]
    simp only [Edge.next, firstChild_of h]
    obtain ⟨abn, nor, hall, htw, hdw, habn, hnor⟩ := split_kids (fun k : Tree => !k.value.isNormal) all
    rw [htw, hdw]
    -- the leading non-normal children are leaves and contribute nothing
    have hpre : kidEdges t π 0 abn = [] := by
      apply kidEdges_abnormal h abn 0
      · intro j k hj
        obtain ⟨hlt, _⟩ := List.getElem?_eq_some_iff.mp hj
        rw [Nat.zero_add, hall, List.getElem?_append_left hlt]; exact hj
      · intro k hk
        have hab : k.value.isNormal = false := by simpa using habn k hk
        exact ⟨hab, abnormal_leaf_of_wf (wfList_mem all k hws.2 (by rw [hall]; simp [hk])) hab⟩
    have hke : kidEdges t π 0 all = kidEdges t π abn.length nor := by
      rw [hall, kidEdges_append, hpre]; simp
    by_cases hd : nor = []
    · simp only [hd, if_true]
      rw [hke, hd]
      simp only [kidEdges_nil, List.length_nil, Nat.zero_add, List.nil_append, List.cons_append]
      rw [Nat.add_comm 1 m, contN_succ]
      rfl
    · simp only [hd, if_false]
      have hdrop : all.drop abn.length = nor := by rw [hall]; simp
      have hlen : abn.length + (nor.length - 1) + 1 = all.length := by
        have hpos : 0 < nor.length := List.length_pos_iff.mpr hd
        rw [hall]; simp; omega
      have hfirst : ∀ k, all[abn.length]? = some k → k.value.isNormal = true := by
        intro k hk
        rw [hall, List.getElem?_append_right (Nat.le_refl _), Nat.sub_self] at hk
        have := hnor k (by rw [List.head?_eq_getElem?]; exact hk)
        simpa using this
      have := fwd_kids h hws.1.2 hsub (nor.length - 1) abn.length m hlen hfirst
      rw [hdrop, ← hke] at this
      rw [this]; simp [Edge.next]

theorem fwdSub (t : Tree) (hw : wf t = true) (s : Tree) : FwdSub t s :=
  fwdSub_all t hw s.size s (Nat.le_refl _)

/-- `NodeEdge::next` from `Start(π)` (normal node of a well-formed tree) runs through
    `traverse(π)` and goes on with whatever follows `End(π)`. -/
theorem edgeWalk_next_eq {t : Tree} {π : Path} (hw : wf t = true) (h : Valid t π)
    (hn : isNormalAt t π = true) (m : Nat) :
    edgeWalk (Edge.next t) ((traverse t π).length + m) (.start π) =
      traverse t π ++ contN t m (Edge.next t (.stop π)) :=
  fwdSub t hw (subAt t π) π m h.at? hn

/-- From `Start(root)` the walk is exactly `traverse(root)`, whatever fuel is left over. -/
theorem edgeWalk_next_root {t : Tree} (hw : wf t = true) (hn : isNormalAt t [] = true) (m : Nat) :
    edgeWalk (Edge.next t) ((traverse t []).length + m) (.start []) = traverse t [] := by
  rw [edgeWalk_next_eq hw (valid_nil t) hn]
  simp [Edge.next, nextSibling]

end XotModel.Axes
