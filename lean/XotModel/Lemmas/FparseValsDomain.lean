/-
  FparseVals, part 4: THE VALUES OF AN EDITED TREE ARE IN THE XML DOMAIN when the values handed to the API
  are (`Q = valueOK env`, Model/SerTokens.lean).

    fpvd_qcat                 `valueOK` is closed under concatenation of text values
    fpvd_repairCalls          what `create_missing_prefixes_for_element` inserts: declarations `xmlns:n{k}="URI"` of
                              namespaces of registered names under generated NCNames, and `xmlns=""` — all `valueOK`
                              for the tables the call leaves (well-formed tables, declarable namespaces)
    fpvd_createMissingPrefixes  the call keeps "every value is `valueOK`" — for the NEW tables —, `envOK`, `nameTableOK`
    fpvd_xstep / fpvd_xrun    every extended call / history: `Store.FpvdOK` (invariant, well-formed tables, every value
                              in the domain of the CURRENT tables) is kept when the arguments are in the domain of the
                              tables at the time of the call (`Store.argValuesOKAlong`)
-/
import XotModel.Lemmas.FparseValsHist
import XotModel.Lemmas.RepairRoundTrip
import XotModel.Lemmas.RepairWalk
import XotModel.Lemmas.FhistExt
import XotModel.Model.FparseHist

namespace XotModel
open HTree Repair

/-- The predicate on values. -/
abbrev fpvdVal (env : Env) : Value → Prop := fun v => valueOK env v = true

theorem fpvd_qcat (env : Env) : fpvQCat (fpvdVal env) := by
  intro a b ha hb
  simp only [fpvdVal, valueOK, Bool.and_eq_true, Bool.not_eq_true', List.isEmpty_eq_false_iff] at ha hb ⊢
  refine ⟨?_, ?_⟩
  · intro h; exact ha.1 (List.append_eq_nil_iff.mp h).1
  · rw [List.all_append, ha.2, hb.2]; rfl

theorem fpv_QL_mono {Q Q' : Value → Prop} (h : ∀ v, Q v → Q' v) {ks : List HTree} (hq : fpvQL Q ks) : fpvQL Q' ks :=
  fun v hv => h v (hq v hv)

theorem fpvd_QF_ext {env env' : Env} (h : PrefixExt env env') {f : Forest} (hq : Forest.fpvQF (fpvdVal env) f) :
    Forest.fpvQF (fpvdVal env') f := fpv_QL_mono (fun v hv => valueOK_ext h v hv) hq

/-! ### `fpvQF` and `Tree.allNodes` of the erased trees -/

mutual
  theorem fpvd_allNodes_erase (P : Value → Bool) : ∀ t : HTree,
      (erase t).allNodes (fun v _ => P v) = true ↔ fpvQT (fun v => P v = true) t
    | .node h v ks => by
      rw [erase, Tree.allNodes, Bool.and_eq_true, fpvd_allList_erase P ks, fpv_QT_node]
  theorem fpvd_allList_erase (P : Value → Bool) : ∀ ks : List HTree,
      Tree.allNodes.allList (fun v _ => P v) (eraseList ks) = true ↔ fpvQL (fun v => P v = true) ks
    | [] => by simp [eraseList, Tree.allNodes.allList, fpv_QL_nil]
    | k :: ks => by
      rw [eraseList, Tree.allNodes.allList, Bool.and_eq_true, fpvd_allNodes_erase P k, fpvd_allList_erase P ks,
        fpv_QL_cons]
end

/-- "Every node of every tree of the forest has a value in the domain", as `Props` say it. -/
theorem fpvd_QF_iff (env : Env) (f : Forest) :
    Forest.fpvQF (fpvdVal env) f ↔ ∀ r ∈ f.roots, r.erase.allNodes (fun v _ => valueOK env v) = true := by
  unfold Forest.fpvQF
  rw [fpv_QL_iff]
  exact ⟨fun h r hr => (fpvd_allNodes_erase _ r).mpr (h r hr), fun h r hr => (fpvd_allNodes_erase _ r).mp (h r hr)⟩

/-! ### The arguments -/

theorem fpvd_newQ_of_argValuesOK {env : Env} (c : Forest.XCall) (h : c.argValuesOK env) :
    c.fpvNewQ (fpvdVal env) := by
  cases c with
  | call c => cases c <;> first | exact h | trivial
  | newNode v => exact h
  | cloneWithPrefixes n order => exact h
  | _ => trivial

/-! ### `create_missing_prefixes` -/

namespace Forest

/-- What `create_missing_prefixes_for_element(node)` is going to insert is in the domain of the tables it
    leaves. -/
theorem fpvd_repairCalls {env : Env} (he : envOK env = true) (htab : nameTableOK env = true) {f : Forest}
    {node : Nat} {env' : Env} {calls : List Call} (h : f.repairCalls env node = some (env', calls)) :
    PrefixExt env env' ∧ ∀ c ∈ calls, c.fpvNewQ (fpvdVal env') ∧ ¬ c.fpvIsTextContentSet := by
  unfold repairCalls at h
  split at h
  · cases h
  · rename_i r _
    split at h
    · cases h
    · rename_i path _
      dsimp only at h
      split at h
      · cases h
      · rename_i sub _
        split at h
        · cases h
        · rw [repairWalk_eq] at h
          generalize hR : collectRec env.nsOfName (inheritedDecls r.erase path) path sub ⟨[], [], []⟩ = R at h
          simp only [withAcc] at h
          cases ha : assignPrefixes env (R.used ++ ((namespacesInScope r.erase path).getD []).map (·.1)) 0 R.missing with
          | none => rw [ha] at h; cases h
          | some rr =>
            obtain ⟨env1, nd⟩ := rr
            rw [ha] at h
            simp only [Option.some.injEq, Prod.mk.injEq] at h
            obtain ⟨rfl, rfl⟩ := h
            obtain ⟨s1, _⟩ := assignPrefixes_spec _ _ _ _ _ _ ha
            obtain ⟨hext, hgen⟩ := assignPrefixes_ext _ _ _ _ _ _ ha
            have he1 := envOK_ext hext he
            refine ⟨hext, fun c hc => ?_⟩
            rcases List.mem_append.mp hc with hc | hc
            · obtain ⟨d, hd, rfl⟩ := List.mem_map.mp hc
              refine ⟨?_, fun hh => hh⟩
              show valueOK env1 (.namespace d.1 d.2) = true
              obtain ⟨s, hs1, hs2⟩ := hgen d hd
              have hmem : d.2 ∈ R.missing := by rw [← s1]; exact List.mem_map_of_mem hd
              rw [← hR] at hmem
              rcases mem_missing_collectRec env.nsOfName _ _ _ _ _ hmem with h0 | ⟨r0, r1, a, ra⟩
              · cases h0
              · refine valueOK_generated he1 hs1 hs2 ?_ r0 r1
                rw [ra, ← hext.nsOfName]
                exact nsStrOK_nsOfName (nameTableOK_ext hext htab) a
            · obtain ⟨up, _, hup⟩ := List.mem_filterMap.mp hc
              cases hh : r.handleAt up with
              | none => rw [hh] at hup; cases hup
              | some hd =>
                rw [hh] at hup
                simp only [Option.map_some, Option.some.injEq] at hup
                subst hup
                exact ⟨valueOK_undeclaration he1, fun hx => hx⟩

theorem fpvd_repairElementF {env : Env} (he : envOK env = true) (htab : nameTableOK env = true) {f : Forest}
    (hq : fpvQF (fpvdVal env) f) (node : Nat) :
    PrefixExt env (f.repairElementF env node).2.1 ∧
      fpvQF (fpvdVal (f.repairElementF env node).2.1) (f.repairElementF env node).1 := by
  unfold repairElementF
  cases hr : f.repairCalls env node with
  | none => exact ⟨PrefixExt.refl _, hq⟩
  | some ec =>
    obtain ⟨env', calls⟩ := ec
    obtain ⟨hext, hcalls⟩ := fpvd_repairCalls he htab hr
    exact ⟨hext, fpv_runCalls (fpvd_qcat env') calls (fpvd_QF_ext hext hq) hcalls⟩

theorem fpvd_repairElementsF : ∀ (es : List Nat) {env : Env} {f : Forest}, envOK env = true →
    nameTableOK env = true → fpvQF (fpvdVal env) f →
    PrefixExt env (repairElementsF es env f).2.1 ∧
      fpvQF (fpvdVal (repairElementsF es env f).2.1) (repairElementsF es env f).1
  | [], env, f, _, _, hq => ⟨PrefixExt.refl _, hq⟩
  | e :: rest, env, f, he, htab, hq => by
    have h1 := fpvd_repairElementF he htab hq e
    unfold repairElementsF
    rcases hc : f.repairElementF env e with ⟨f', env', r⟩
    rw [hc] at h1
    cases r with
    | ok =>
      have ih := fpvd_repairElementsF rest (envOK_ext h1.1 he) (nameTableOK_ext h1.1 htab) h1.2
      exact ⟨h1.1.trans ih.1, ih.2⟩
    | err e => exact h1
    | panic => exact h1

/-- `create_missing_prefixes(node)`: only the prefix table grows, and every value is in the domain of
    the tables the call leaves. -/
theorem fpvd_createMissingPrefixes {env : Env} (he : envOK env = true) (htab : nameTableOK env = true)
    {f : Forest} (hq : fpvQF (fpvdVal env) f) (node : Nat) :
    PrefixExt env (f.createMissingPrefixes env node).2.1 ∧
      fpvQF (fpvdVal (f.createMissingPrefixes env node).2.1) (f.createMissingPrefixes env node).1 := by
  unfold createMissingPrefixes
  by_cases hd : f.isDocument node = true
  · rw [if_pos hd]
    cases f.get? node with
    | none => exact ⟨PrefixExt.refl _, hq⟩
    | some t =>
      simp only
      split
      · exact ⟨PrefixExt.refl _, hq⟩
      · exact fpvd_repairElementsF _ he htab hq
  · rw [if_neg hd]
    split
    · exact ⟨PrefixExt.refl _, hq⟩
    · exact fpvd_repairElementF he htab hq node

end Forest

/-! ### Stores and histories -/

namespace Store

/-- The invariant of the value-level conditions along extended histories. -/
structure FpvdOK (s : Store) : Prop where
  inv : s.forest.Inv
  tables : envOK s.env = true
  names : nameTableOK s.env = true
  values : Forest.fpvQF (fpvdVal s.env) s.forest

/-- **One extended call keeps `FpvdOK`** when its arguments are in the domain of the current tables; only
    the prefix table grows. -/
theorem fpvd_xstep {s : Store} (h : s.FpvdOK) (c : Forest.XCall) (hw : c.wellKinded) (ha : c.argValuesOK s.env) :
    (s.xstep c).FpvdOK ∧ PrefixExt s.env (s.xstep c).env := by
  have hinv := Store.xstep_inv h.inv c hw
  by_cases hc : ∃ n, c = .createMissingPrefixes n
  · obtain ⟨n, rfl⟩ := hc
    obtain ⟨h1, h2⟩ := Forest.fpvd_createMissingPrefixes h.tables h.names h.values n
    exact ⟨⟨hinv, envOK_ext h1 h.tables, nameTableOK_ext h1 h.names, h2⟩, h1⟩
  · have hne : ∀ n, c ≠ .createMissingPrefixes n := fun n e => hc ⟨n, e⟩
    obtain ⟨h1, h2⟩ := Forest.fpv_xcall (fpvd_qcat s.env) h.inv h.values c (fpvd_newQ_of_argValuesOK c ha) hne
    have he : (s.xstep c).env = s.env := h2
    refine ⟨⟨hinv, by rw [he]; exact h.tables, by rw [he]; exact h.names, by rw [he]; exact h1⟩, ?_⟩
    rw [he]; exact PrefixExt.refl _

theorem fpvd_xrun : ∀ (cs : List Forest.XCall) {s : Store}, s.FpvdOK → (∀ c ∈ cs, c.wellKinded) →
    s.argValuesOKAlong cs → (s.xrun cs).FpvdOK ∧ PrefixExt s.env (s.xrun cs).env
  | [], s, h, _, _ => ⟨h, PrefixExt.refl _⟩
  | c :: cs, s, h, hw, ha => by
    obtain ⟨h1, h2⟩ := fpvd_xstep h c (hw c (List.mem_cons_self ..)) ha.1
    obtain ⟨h3, h4⟩ := fpvd_xrun cs h1 (fun c' h' => hw c' (List.mem_cons_of_mem _ h')) ha.2
    exact ⟨h3, h2.trans h4⟩

/-- Without `create_missing_prefixes` steps the tables do not change: the condition on the arguments
    can be stated once, for the tables of the start. -/
theorem fpvd_argValuesOKAlong_static : ∀ (cs : List Forest.XCall) (s : Store),
    (∀ c ∈ cs, ∀ n, c ≠ .createMissingPrefixes n) → (∀ c ∈ cs, c.argValuesOK s.env) → s.argValuesOKAlong cs
  | [], _, _, _ => trivial
  | c :: cs, s, hne, ha => by
    have he : (s.xstep c).env = s.env := by
      have := hne c (List.mem_cons_self ..)
      cases c with
      | createMissingPrefixes n => exact absurd rfl (this n)
      | _ => rfl
    refine ⟨ha c (List.mem_cons_self ..), fpvd_argValuesOKAlong_static cs _
      (fun c' h' => hne c' (List.mem_cons_of_mem _ h')) (fun c' h' => ?_)⟩
    rw [he]; exact ha c' (List.mem_cons_of_mem _ h')

end Store
end XotModel
