/-
  XotModel.Lemmas.LexRejectShapes — the ill-formed continuations on which the reference tokenizer
  fails (`FailsAt`), one lemma per shape; Props/C03.lean combines them with the rejection scheme.
-/
import XotModel.Lemmas.LexReject
import XotModel.Model.ParseString

namespace XotModel.Lex.Canon

open XotModel.Lex XotModel.Lex.Stream

/-! ### Scanning without finding the terminator -/

/-- `f` holds at every position of `body` (given the text from there on). -/
def AllSuffix (f : Str → Char → Bool) : Str → Prop
  | [] => True
  | c :: cs => f (c :: cs) c = true ∧ AllSuffix f cs

theorem scanChars_all {f : Str → Char → Bool} {body : Str} (h : AllSuffix f body) :
    scanChars f body = none ∨ scanChars f body = some body.length := by
  induction body with
  | nil => exact .inr rfl
  | cons c cs ih =>
    simp only [scanChars]
    split
    · exact .inl rfl
    · rcases ih h.2 with e | e <;> simp [h.1, e]

theorem allSuffix_of_noInfix {close : Str} {c0 : Char} {body : Str}
    (h : hasInfix close body = false) :
    AllSuffix (fun r c => !(c == c0 && close.isPrefixOf r)) body := by
  induction body with
  | nil => trivial
  | cons c cs ih =>
    simp only [hasInfix, Bool.or_eq_false_iff] at h
    exact ⟨by simp [h.1], ih h.2⟩

/-- After scanning a body that does not contain the terminator, `skip_string(terminator)` fails. -/
theorem skip_close_fails {close : Str} {c0 : Char} (pos : Nat) {body : Str} (hne : close ≠ [])
    (h : hasInfix close body = false) :
    (skipChars (fun r c => !(c == c0 && close.isPrefixOf r)) ⟨pos, body⟩).bind (skipString close) = none := by
  rcases scanChars_all (allSuffix_of_noInfix (c0 := c0) h) with e | e
  · unfold skipChars; rw [e]; rfl
  · have : (Stream.mk pos body).adv body.length = ⟨pos + strLen body, []⟩ := by
      have := adv_app pos body [] body.length rfl
      simpa using this
    simp only [skipChars, e, Option.map_some, Option.bind_some, this, skipString, startsWith]
    cases close with
    | nil => exact absurd rfl hne
    | cons x xs => simp [List.isPrefixOf]

theorem parseComment_unterminated (pos : Nat) (body : Str) (h : hasInfix litCommentClose body = false) :
    parseComment ⟨pos, litCommentOpen ++ body⟩ = none := by
  have e4 : (Stream.mk pos (litCommentOpen ++ body)).adv 4 = ⟨pos + 4, body⟩ := by
    rw [adv_app pos _ _ 4 rfl]; rfl
  have := skip_close_fails (c0 := '-') (pos + 4) (by simp [litCommentClose]) h
  simp only [Option.bind_eq_none_iff] at this
  simp only [parseComment, e4, Option.bind_eq_bind, Option.bind_eq_none_iff]
  intro s2 h2 s3 h3
  rw [this s2 h2] at h3; cases h3

theorem parseCdata_unterminated (pos : Nat) (body : Str) (h : hasInfix litCdataClose body = false) :
    parseCdata ⟨pos, litCdataOpen ++ body⟩ = none := by
  have e9 : (Stream.mk pos (litCdataOpen ++ body)).adv 9 = ⟨pos + 9, body⟩ := by
    rw [adv_app pos _ _ 9 rfl]; rfl
  have := skip_close_fails (c0 := ']') (pos + 9) (by simp [litCdataClose]) h
  simp only [Option.bind_eq_none_iff] at this
  simp only [parseCdata, e9, Option.bind_eq_bind, Option.bind_eq_none_iff]
  intro s2 h2 s3 h3
  rw [this s2 h2] at h3; cases h3

theorem hasInfix_drop {close body : Str} (k : Nat) (h : hasInfix close body = false) :
    hasInfix close (body.drop k) = false := by
  induction k generalizing body with
  | zero => simpa using h
  | succ n ih =>
    cases body with
    | nil => simpa using h
    | cons c cs =>
      simp only [hasInfix, Bool.or_eq_false_iff] at h
      simpa using ih h.2

theorem parsePI_unterminated (pos : Nat) (body : Str) (h : hasInfix litPiClose body = false) :
    parsePI ⟨pos, litPiOpen ++ body⟩ = none := by
  have e2 : (Stream.mk pos (litPiOpen ++ body)).adv 2 = ⟨pos + 2, body⟩ := by
    rw [adv_app pos _ _ 2 rfl]; rfl
  simp only [parsePI, e2, Option.bind_eq_bind, Option.bind_eq_none_iff]
  intro ⟨target, s2⟩ h2 s4 h4 s5 h5
  obtain ⟨k, hk⟩ := (consumeName_reach h2).trans (skipSpaces_reach s2)
  have hrest : s2.skipSpaces.rest = body.drop k := by rw [hk]; rfl
  have hno := hasInfix_drop k h
  rw [← hrest] at hno
  have := skip_close_fails (c0 := '?') s2.skipSpaces.pos (by simp [litPiClose]) hno
  simp only [Option.bind_eq_none_iff] at this
  have h4' : skipChars (fun r c => !(c == '?' && litPiClose.isPrefixOf r))
      ⟨s2.skipSpaces.pos, s2.skipSpaces.rest⟩ = some s4 := h4
  rw [this s4 h4'] at h5; cases h5

/-- `<!-- … -->` whose body contains `--` or ends with `-` (and does not contain `-->`). -/
theorem scanChars_comment_body {body rest : Str} (h : hasInfix litCommentClose body = false) :
    scanChars (fun r c => !(c == '-' && litCommentClose.isPrefixOf r)) (body ++ litCommentClose ++ rest) = none ∨
    scanChars (fun r c => !(c == '-' && litCommentClose.isPrefixOf r)) (body ++ litCommentClose ++ rest) =
      some body.length := by
  induction body with
  | nil => right; simp [scanChars, litCommentClose, isXmlChar]
  | cons c cs ih =>
    simp only [hasInfix, Bool.or_eq_false_iff] at h
    have hf : (!(c == '-' && litCommentClose.isPrefixOf (c :: cs ++ litCommentClose ++ rest))) = true := by
      have := h.1
      cases cs with
      | nil => simp [litCommentClose, List.isPrefixOf_cons_cons]
      | cons d ds =>
        cases ds with
        | nil => simp [litCommentClose, List.isPrefixOf_cons_cons]
        | cons e es =>
          simp only [litCommentClose, List.cons_append, List.isPrefixOf_cons_cons, List.isPrefixOf_nil_left,
            Bool.and_true] at this ⊢
          cases hc : c == '-' <;> simp_all
          by_cases hd : '-' = d
          · exact .inr (this hd)
          · exact .inl hd
    simp only [List.cons_append, List.append_assoc] at hf ⊢
    simp only [scanChars]
    split
    · exact .inl rfl
    · have ih' := ih h.2
      simp only [List.append_assoc] at ih'
      rcases ih' with e | e <;> rw [e] <;> simp

theorem parseComment_dashes (pos : Nat) (body rest : Str) (h : hasInfix litCommentClose body = false)
    (hd : hasInfix litDashDash body = true ∨ body.getLast? = some '-') :
    parseComment ⟨pos, litCommentOpen ++ (body ++ litCommentClose ++ rest)⟩ = none := by
  have e4 : (Stream.mk pos (litCommentOpen ++ (body ++ litCommentClose ++ rest))).adv 4 =
      ⟨pos + 4, body ++ litCommentClose ++ rest⟩ := by
    rw [adv_app pos _ _ 4 rfl]; rfl
  simp only [parseComment, e4, Option.bind_eq_bind]
  rcases scanChars_comment_body (rest := rest) h with e | e
  · unfold skipChars; rw [e]; rfl
  · have ea : (Stream.mk (pos + 4) (body ++ litCommentClose ++ rest)).adv body.length =
        ⟨pos + 4 + strLen body, litCommentClose ++ rest⟩ := by
      rw [List.append_assoc, adv_app _ _ _ _ rfl]
    unfold skipChars
    rw [e]
    simp only [Option.map_some, Option.bind_some, ea, skipString_app]
    rw [sliceBack_eq body (by simp)]
    rcases hd with hd | hd
    · simp [hd]
    · simp [hd]

/-! ### Element content (`State::Elements`) -/

theorem failsAt_content_of_markup {frag : Bool} {d pos : Nat} {r : Str} {c : Char} {cs : Str}
    (hr : r = '<' :: c :: cs)
    (h : ∀ tk : Tokenizer, tk.state = .elements → tk.stream = ⟨pos, r⟩ → parseNextImpl tk = .error) :
    FailsAt frag (.content d) pos r := by
  intro tk p hm hs
  have he : tk.stream.atEnd = false := by rw [hs, hr]; rfl
  exact lexLoop_error p he (by rw [hm.2.2]; simp) (h tk hm.2.2 hs)

/-- An unterminated comment. -/
theorem failsAt_unterminated_comment (frag : Bool) (d pos : Nat) (body : Str)
    (h : hasInfix litCommentClose body = false) :
    FailsAt frag (.content d) pos (litCommentOpen ++ body) := by
  refine failsAt_content_of_markup (c := '!') (cs := '-' :: '-' :: body) rfl ?_
  intro tk hst hs
  have he : tk.stream.atEnd = false := by rw [hs]; rfl
  unfold parseNextImpl
  simp only [he, Bool.false_eq_true, if_false, hst]
  rw [hs, parseComment_unterminated pos body h]
  simp [curr?, next?, startsWith, litCommentOpen, Step.ofParse]

/-- A comment whose body contains `--` or ends with `-`. -/
theorem failsAt_comment_dashes (frag : Bool) (d pos : Nat) (body rest : Str)
    (h : hasInfix litCommentClose body = false)
    (hd : hasInfix litDashDash body = true ∨ body.getLast? = some '-') :
    FailsAt frag (.content d) pos (litCommentOpen ++ (body ++ litCommentClose ++ rest)) := by
  refine failsAt_content_of_markup (c := '!') (cs := '-' :: '-' :: (body ++ litCommentClose ++ rest)) rfl ?_
  intro tk hst hs
  have he : tk.stream.atEnd = false := by rw [hs]; rfl
  unfold parseNextImpl
  simp only [he, Bool.false_eq_true, if_false, hst]
  rw [hs, parseComment_dashes pos body rest h hd]
  simp [curr?, next?, startsWith, litCommentOpen, Step.ofParse]

/-- An unterminated CDATA section. -/
theorem failsAt_unterminated_cdata (frag : Bool) (d pos : Nat) (body : Str)
    (h : hasInfix litCdataClose body = false) :
    FailsAt frag (.content d) pos (litCdataOpen ++ body) := by
  refine failsAt_content_of_markup (c := '!') (cs := '[' :: 'C' :: 'D' :: 'A' :: 'T' :: 'A' :: '[' :: body) rfl ?_
  intro tk hst hs
  have he : tk.stream.atEnd = false := by rw [hs]; rfl
  unfold parseNextImpl
  simp only [he, Bool.false_eq_true, if_false, hst]
  rw [hs, parseCdata_unterminated pos body h]
  simp [curr?, next?, startsWith, litCommentOpen, litCdataOpen, List.isPrefixOf_cons_cons, Step.ofParse]

/-- An unterminated processing instruction. -/
theorem failsAt_unterminated_pi (frag : Bool) (d pos : Nat) (body : Str)
    (h : hasInfix litPiClose body = false) :
    FailsAt frag (.content d) pos (litPiOpen ++ body) := by
  refine failsAt_content_of_markup (c := '?') (cs := body) rfl ?_
  intro tk hst hs
  have he : tk.stream.atEnd = false := by rw [hs]; rfl
  have h1 : tk.stream.curr? = some '<' := by rw [hs]; rfl
  have h2 : tk.stream.next? = some '?' := by rw [hs]; rfl
  unfold parseNextImpl
  simp only [he, Bool.false_eq_true, if_false, hst, h1, h2, beq_self_eq_true, if_true,
    show ('?' == '!') = false from by decide]
  rw [hs, parsePI_unterminated pos body h]
  split <;> rfl

/-- Character data containing `]]>`. -/
theorem failsAt_text_cdata_close (frag : Bool) (d pos : Nat) (body rest : Str) (hne : body ≠ [])
    (hall : body.all (fun c => isXmlChar c && c != '<') = true)
    (hinf : hasInfix litCdataClose body = true) (hrest : StartsMarkup rest) :
    FailsAt frag (.content d) pos (body ++ rest) := by
  intro tk p hm hs
  obtain ⟨c, cs, hc⟩ := List.exists_cons_of_ne_nil hne
  have hall' := hall
  rw [hc] at hall'
  simp only [List.all_cons, Bool.and_eq_true, bne_iff_ne, ne_eq] at hall'
  have he : tk.stream.atEnd = false := by rw [hs, hc]; rfl
  have hcur : (tk.stream.curr? == some '<') = false := by
    rw [hs, hc]; simp [curr?, hall'.1.2]
  have hr' : rest = [] ∨ ∃ c cs, rest = c :: cs ∧ isXmlChar c = true ∧ (fun c => c != '<') c = false := by
    rcases hrest with rfl | ⟨cs, rfl⟩
    · exact .inl rfl
    · exact .inr ⟨'<', cs, rfl, by decide, by decide⟩
  have hscan := scanChars_simple (g := fun c => c != '<') (a := body) (r := rest) hall hr'
  have e := skipChars_of_scan (f := fun _ c => c != '<') pos hscan
  have hgt : body.contains '>' = true := by
    clear hscan e hr' hcur he hall' hc hall hne hs hm
    induction body with
    | nil => simp [hasInfix, litCdataClose] at hinf
    | cons x xs ih =>
      simp only [hasInfix, Bool.or_eq_true] at hinf
      rcases hinf with h | h
      · rcases xs with _ | ⟨y, _ | ⟨z, zs⟩⟩ <;>
          simp [litCdataClose, List.isPrefixOf_cons_cons] at h
        simp [h.2.2.symm]
      · have := ih h
        simp only [List.contains_cons, Bool.or_eq_true] at this ⊢
        exact .inr this
  apply lexLoop_error p he (by rw [hm.2.2]; simp)
  unfold parseNextImpl
  simp only [he, Bool.false_eq_true, if_false, hm.2.2, hcur]
  rw [hs]
  simp only [parseText, e, Option.bind_eq_bind, Option.bind_some, sliceBack_app, hgt, hinf,
    Bool.and_self, if_true, Step.ofParse]

/-! ### Inside a start tag (`State::Attributes`) -/

theorem parseAttribute_lt (pos : Nat) (p l v rest : Str) (h : qnameOK p l = true)
    (hv : v.all (fun c => isXmlChar c && c != '"' && c != '<') = true) :
    parseAttribute ⟨pos, ' ' :: (tokQName p l ++ '=' :: '"' :: (v ++ '<' :: rest))⟩ = none := by
  obtain ⟨qc, qs, hq, hqc⟩ := tokQName_head h
  have hsp1 : isXmlSpace ' ' = true := by decide
  have hrest : Stops isXmlSpace (tokQName p l ++ '=' :: '"' :: (v ++ '<' :: rest)) := by
    rw [hq]; exact Stops.cons _ (nameStart_not_space hqc)
  have e1 : skipSpaces ⟨pos, ' ' :: (tokQName p l ++ '=' :: '"' :: (v ++ '<' :: rest))⟩ =
      ⟨pos + 1, tokQName p l ++ '=' :: '"' :: (v ++ '<' :: rest)⟩ := by
    have := skipBytes_app (f := isXmlSpace) pos (a := [' ']) (by simp [hsp1]) hrest
    simpa [skipSpaces, strLen, show utf8Len ' ' = 1 from by decide] using this
  have hc1 : ((Stream.mk (pos + 1) (tokQName p l ++ '=' :: '"' :: (v ++ '<' :: rest))).curr?
      == some '/') = false := by
    rw [hq]; simp [curr?, nameStart_ne hqc (d := '/') (by decide)]
  have hc2 : ((Stream.mk (pos + 1) (tokQName p l ++ '=' :: '"' :: (v ++ '<' :: rest))).curr?
      == some '>') = false := by
    rw [hq]; simp [curr?, nameStart_ne hqc (d := '>') (by decide)]
  have heq : Stops isNameChar ('=' :: '"' :: (v ++ '<' :: rest)) := Stops.cons _ (by decide)
  have hs3 : Stops isXmlSpace ('"' :: (v ++ '<' :: rest)) := Stops.cons _ (by decide)
  have hv' : v.all (fun c => isXmlChar c && (fun c => c != '"' && c != '<') c) = true := by
    simpa [Bool.and_assoc] using hv
  have hscan := scanChars_simple (g := fun c => c != '"' && c != '<') (a := v) (r := '<' :: rest) hv'
    (.inr ⟨'<', rest, rfl, by decide, by decide⟩)
  have e5 := fun q => skipChars_of_scan (f := fun _ c => c != '"' && c != '<') q hscan
  simp only [parseAttribute, startsWithSpace, hsp1, e1, hc1, hc2, Bool.false_eq_true, if_false,
    Bool.not_true, Option.bind_eq_bind, consumeQName_app (pos + 1) h heq, Option.bind_some,
    consumeEq_eq _ _ hs3, consumeQuote_dq, e5]
  simp [consumeByte, curr?]

/-- A raw `<` inside an attribute value. -/
theorem failsAt_attr_lt (frag : Bool) (d pos : Nat) (p l v rest : Str) (h : qnameOK p l = true)
    (hv : v.all (fun c => isXmlChar c && c != '"' && c != '<') = true) :
    FailsAt frag (.inTag d) pos (' ' :: (tokQName p l ++ '=' :: '"' :: (v ++ '<' :: rest))) := by
  intro tk q hm hs
  have he : tk.stream.atEnd = false := by rw [hs]; rfl
  apply lexLoop_error q he (by rw [hm.2.2]; simp)
  unfold parseNextImpl
  simp only [he, Bool.false_eq_true, if_false, hm.2.2]
  rw [hs, parseAttribute_lt pos p l v rest h hv]

/-! ### Outside the root element of a document -/

theorem startsWith_lt_false (pos : Nat) (c : Char) (rest lit : Str) (hc : c ≠ '<') :
    (Stream.mk pos (c :: rest)).startsWith ('<' :: lit) = false := by
  have : ¬ '<' = c := fun e => hc e.symm
  simp [startsWith, List.isPrefixOf_cons_cons, this]

theorem miscStep_other_of_ne (tk : Tokenizer) (other : Step) (pos : Nat) (c : Char) (rest : Str)
    (hs : tk.stream = ⟨pos, c :: rest⟩) (hc : c ≠ '<') : miscStep tk other = other := by
  unfold miscStep
  rw [hs]
  dsimp only
  rw [show litCommentOpen = '<' :: ['!', '-', '-'] from rfl, show litPiOpen = '<' :: ['?'] from rfl,
    startsWith_lt_false pos c rest _ hc, startsWith_lt_false pos c rest _ hc]
  simp

/-- Character data before the root element of a document. -/
theorem failsAt_text_prolog (pos : Nat) (c : Char) (rest : Str) (hc : c ≠ '<')
    (hsp : isXmlSpace c = false) : FailsAt false .prolog pos (c :: rest) := by
  -- the three prolog states, last first
  have s3 : ∀ (tk : Tokenizer) (q : Nat), tk.state = .afterDtd → tk.stream = ⟨pos, c :: rest⟩ →
      lexLoop tk q = ([], some q) := by
    intro tk q hst hs
    have he : tk.stream.atEnd = false := by rw [hs]; rfl
    apply lexLoop_error q he (by rw [hst]; simp)
    unfold parseNextImpl
    simp only [he, Bool.false_eq_true, if_false, hst, miscStep_other_of_ne tk _ pos c rest hs hc]
    rw [hs, show litBang = '<' :: ['!'] from rfl, show litLt = '<' :: [] from rfl,
      startsWith_lt_false pos c rest _ hc, startsWith_lt_false pos c rest _ hc]
    simp [startsWithSpace, hsp]
  have s2 : ∀ (tk : Tokenizer) (q : Nat), tk.state = .afterDeclaration → tk.stream = ⟨pos, c :: rest⟩ →
      lexLoop tk q = ([], some q) := by
    intro tk q hst hs
    have he : tk.stream.atEnd = false := by rw [hs]; rfl
    have hstep : parseNextImpl tk = .skip { tk with state := .afterDtd } := by
      unfold parseNextImpl
      simp only [he, Bool.false_eq_true, if_false, hst, miscStep_other_of_ne tk _ pos c rest hs hc]
      rw [hs, show litDoctype = '<' :: ['!', 'D', 'O', 'C', 'T', 'Y', 'P', 'E'] from rfl,
        startsWith_lt_false pos c rest _ hc]
      simp [startsWithSpace, hsp]
    rw [lexLoop_skip q he (by rw [hst]; simp) hstep]
    exact s3 _ q rfl hs
  intro tk q hm hs
  obtain ⟨_, _, hst | hst | hst⟩ := hm
  · have he : tk.stream.atEnd = false := by rw [hs]; rfl
    have hx : tk.stream.startsWith litXmlDecl = false := by
      rw [hs, show litXmlDecl = '<' :: ['?', 'x', 'm', 'l', ' '] from rfl]
      exact startsWith_lt_false pos c rest _ hc
    rw [loop_declaration tk q hst he hx]
    exact s2 _ q rfl hs
  · exact s2 tk q hst hs
  · exact s3 tk q hst hs

/-- Character data after the root element of a document. -/
theorem failsAt_text_after (pos : Nat) (c : Char) (rest : Str) (hc : c ≠ '<')
    (hsp : isXmlSpace c = false) : FailsAt false .after pos (c :: rest) := by
  intro tk q hm hs
  have he : tk.stream.atEnd = false := by rw [hs]; rfl
  apply lexLoop_error q he (by rw [hm.2]; simp)
  unfold parseNextImpl
  simp only [he, Bool.false_eq_true, if_false, hm.2, miscStep_other_of_ne tk _ pos c rest hs hc]
  rw [hs]
  simp [startsWithSpace, hsp]

/-- A second root element (any `<` that does not open a comment or a PI) after the root element
    of a document. -/
theorem failsAt_second_root (pos : Nat) (rest : Str) (h1 : rest.head? ≠ some '!')
    (h2 : rest.head? ≠ some '?') : FailsAt false .after pos ('<' :: rest) := by
  intro tk q hm hs
  have he : tk.stream.atEnd = false := by rw [hs]; rfl
  apply lexLoop_error q he (by rw [hm.2]; simp)
  have hm1 : ∀ st : State, miscStep tk (if tk.stream.startsWithSpace then
      .skip { tk with stream := tk.stream.skipSpaces, state := st } else .error) = .error := by
    intro st
    unfold miscStep
    rw [hs]
    dsimp only
    cases rest with
    | nil => simp [startsWith, litCommentOpen, litPiOpen, List.isPrefixOf, startsWithSpace, isXmlSpace]
    | cons x xs =>
      have n1 : ¬ '!' = x := fun e => h1 (by simp [← e])
      have n2 : ¬ '?' = x := fun e => h2 (by simp [← e])
      simp [startsWith, litCommentOpen, litPiOpen, List.isPrefixOf_cons_cons, n1, n2, startsWithSpace,
        isXmlSpace]
  unfold parseNextImpl
  simp only [he, Bool.false_eq_true, if_false, hm.2]
  exact hm1 _

/-! ### `JoinOK` from the context a token list ends in -/

theorem lexNest_append_right {frag : Bool} (a b : List Token) :
    ∀ ctx, lexNest frag ctx (a ++ b) = true → lexNest frag (ctxAfter frag ctx a) b = true := by
  induction a with
  | nil => intro ctx h; simpa [ctxAfter] using h
  | cons t a ih =>
    intro ctx h
    have key : ∀ ctx1, ctxStep frag ctx t = ctx1 → lexNest frag ctx1 (a ++ b) = true →
        lexNest frag (ctxAfter frag ctx (t :: a)) b = true := by
      intro ctx1 h1 h2
      have := ih ctx1 h2
      simpa [ctxAfter, h1] using this
    cases ctx with
    | prolog =>
      cases t with
      | comment => exact key _ rfl (by simpa [lexNest, ctxStep] using h)
      | pi => exact key _ rfl (by simpa [lexNest, ctxStep] using h)
      | elementStart => exact key _ rfl (by simpa [lexNest, ctxStep] using h)
      | _ => simp [lexNest] at h
    | inTag d =>
      cases t with
      | «attribute» => exact key _ rfl (by simpa [lexNest, ctxStep] using h)
      | elementEnd e sp =>
        cases e with
        | «open» => exact key _ rfl (by simpa [lexNest, ctxStep] using h)
        | empty => exact key _ rfl (by simpa [lexNest, ctxStep] using h)
        | close => simp [lexNest] at h
      | _ => simp [lexNest] at h
    | content d =>
      cases t with
      | text x =>
        exact key (.content d) rfl (nest_after_text h).2
      | cdata => exact key _ rfl (by simpa [lexNest, ctxStep] using h)
      | comment => exact key _ rfl (by simpa [lexNest, ctxStep] using h)
      | pi => exact key _ rfl (by simpa [lexNest, ctxStep] using h)
      | elementStart => exact key _ rfl (by simpa [lexNest, ctxStep] using h)
      | elementEnd e sp =>
        cases e with
        | close => exact key _ rfl (by simpa [lexNest, ctxStep] using h)
        | «open» => simp [lexNest] at h
        | empty => simp [lexNest] at h
      | _ => simp [lexNest] at h
    | after =>
      cases t with
      | comment => exact key _ rfl (by simpa [lexNest, ctxStep] using h)
      | pi => exact key _ rfl (by simpa [lexNest, ctxStep] using h)
      | _ => simp [lexNest] at h

theorem ctxAfter_concat (frag : Bool) (ctx : LexCtx) (a : List Token) (t : Token) :
    ctxAfter frag ctx (a ++ [t]) = ctxStep frag (ctxAfter frag ctx a) t := by
  simp [ctxAfter, List.foldl_append]

theorem closed_ne_inTag (frag : Bool) (d e : Nat) : LexCtx.closed frag d ≠ .inTag e := by
  unfold LexCtx.closed; split <;> simp

/-- Inside a start tag, any text that does not begin with a name character may follow. -/
theorem joinOK_inTag {frag : Bool} {ctx : LexCtx} {ts : List Token} {r : Str} {d : Nat}
    (hn : lexNest frag ctx ts = true) (hc : ctxAfter frag ctx ts = .inTag d)
    (hr : Stops isNameChar r) : JoinOK ts r := by
  rcases List.eq_nil_or_concat ts with rfl | ⟨a, t, rfl⟩
  · simp [JoinOK]
  · rw [List.concat_eq_append] at hn hc ⊢
    have h1 := lexNest_append_right a [t] ctx hn
    rw [ctxAfter_concat] at hc
    unfold JoinOK
    rw [List.getLast?_concat]
    cases t with
    | elementStart => exact hr
    | text x =>
      cases hca : ctxAfter frag ctx a with
      | content e => rw [hca] at hc; simp [ctxStep] at hc
      | _ => rw [hca] at h1; simp [lexNest] at h1
    | _ => trivial

/-- Elsewhere, any text that is empty or begins with `<` may follow. -/
theorem joinOK_markup {frag : Bool} {ctx : LexCtx} {ts : List Token} {r : Str}
    (hn : lexNest frag ctx ts = true) (hc : ∀ d, ctxAfter frag ctx ts ≠ .inTag d)
    (hr : StartsMarkup r) : JoinOK ts r := by
  rcases List.eq_nil_or_concat ts with rfl | ⟨a, t, rfl⟩
  · simp [JoinOK]
  · rw [List.concat_eq_append] at hn hc ⊢
    have h1 := lexNest_append_right a [t] ctx hn
    rw [ctxAfter_concat] at hc
    unfold JoinOK
    rw [List.getLast?_concat]
    cases t with
    | text => exact hr
    | elementStart p l sp =>
      cases hca : ctxAfter frag ctx a with
      | prolog => rw [hca] at hc; exact absurd rfl (hc 0)
      | content e => rw [hca] at hc; exact absurd rfl (hc e)
      | _ => rw [hca] at h1; simp [lexNest] at h1
    | _ => trivial

/-- Outside the root element of a document anything may follow. -/
theorem joinOK_outside {frag : Bool} {ctx : LexCtx} {ts : List Token} {r : Str}
    (hn : lexNest frag ctx ts = true)
    (hc : ctxAfter frag ctx ts = .prolog ∨ ctxAfter frag ctx ts = .after) : JoinOK ts r := by
  rcases List.eq_nil_or_concat ts with rfl | ⟨a, t, rfl⟩
  · simp [JoinOK]
  · rw [List.concat_eq_append] at hn hc ⊢
    have h1 := lexNest_append_right a [t] ctx hn
    rw [ctxAfter_concat] at hc
    unfold JoinOK
    rw [List.getLast?_concat]
    cases t with
    | text x =>
      cases hca : ctxAfter frag ctx a with
      | content e => rw [hca] at hc; simp [ctxStep] at hc
      | _ => rw [hca] at h1; simp [lexNest] at h1
    | elementStart p l sp =>
      cases hca : ctxAfter frag ctx a with
      | prolog => rw [hca] at hc; simp [ctxStep] at hc
      | content e => rw [hca] at hc; simp [ctxStep] at hc
      | _ => rw [hca] at h1; simp [lexNest] at h1
    | _ => trivial

end XotModel.Lex.Canon

namespace XotModel

open XotModel.Lex XotModel.Lex.Canon

/-- `true` ↦ `parse_fragment`, `false` ↦ `parse`. -/
def modeOf (frag : Bool) : Mode := if frag then .fragment else .document

/-- **Rejection scheme** in either mode: after the canonical spelling of `ts`, a continuation on
    which the tokenizer fails in the context `ts` ends in makes the whole text fail, with the
    tokens of `ts` before the error and the end of `ts` as error position. -/
theorem lexMode_reject_after (frag : Bool) (ts : List Token) (r : Str) (hok : LexOK frag ts = true)
    (hj : JoinOK ts r) (hbom : frag = false → ts = [] → r.head? ≠ some '\uFEFF')
    (hbad : FailsAt frag (ctxAfter frag (LexCtx.init frag) ts) (strLen (renderTokens ts)) r) :
    lexMode (modeOf frag) (renderTokens ts ++ r) = (placeTokens 0 ts, some (strLen (renderTokens ts))) := by
  cases frag with
  | true => exact lexFragment_reject_after ts r hok hj hbad
  | false => exact lexDocument_reject_after ts r hok hj (hbom rfl) hbad

end XotModel
