/-
  FspecFrameComposite — the frame of `detach`, `element_unwrap` and `element_wrap` for EVERY forest with the
  invariant (no `Forest.Normal`): a node whose parent is not a touched node keeps its parent, its value and
  the handles of its left and right siblings (`HTree.Ctx.shape`).  From the pair readings (`detach_pair`,
  `unwrap_pair`, `wrap_spec_kid` / `wrap_spec_root`) and the one-edit frame `SiteAt.frame`.
-/
import XotModel.Lemmas.FspecAllFrame2
import XotModel.Lemmas.FspecAllUnwrap
import XotModel.Lemmas.FspecWrap
import XotModel.Lemmas.FmapForest

namespace XotModel
open HTree Spec PairAll

/-- The parent of a node does not lie in the node's subtree. -/
theorem parent_not_mem_subtree {f : Forest} (nd : f.allHandles.Nodup) {c po : Nat} {t : HTree}
    (hgc : f.get? c = some t) (hpar : f.parent? c = some po) : po ∉ handles t := by
  have hctx : ∃ cx, f.ctx? c = some cx := by
    cases h : f.ctx? c with
    | none => rw [Forest.parent?_of_no_ctx h] at hpar; cases hpar
    | some cx => exact ⟨cx, rfl⟩
  obtain ⟨cx, hctx⟩ := hctx
  obtain ⟨_, vo, so⟩ := SiteAt.of_ctx nd hctx
  have hpo : cx.parent = po := by
    rw [Forest.parent?_of_ctx hctx] at hpar
    exact Option.some.inj hpar
  rw [hpo] at so
  intro hin
  have hself : cx.self = t := by
    have := Forest.get?_of_ctx nd hctx
    rw [hgc] at this
    exact (Option.some.inj this).symm
  apply so.nodupKids.2
  rw [fs_handlesList_append, handlesList_cons, hself]
  exact List.mem_append_right _ (List.mem_append_left _ hin)

/-! ### detach -/

/-- A new parentless tree at the end of the list leaves every context found before alone. -/
theorem ctx_insertLast_root {Z : Forest} {x : Nat} {cx : Ctx} (t : HTree) (h : Z.ctx? x = some cx) :
    (Z.editAt none (insertLast t)).ctx? x = some cx := by
  show (Z.roots ++ [t]).findSome? (ctxBelow x) = some cx
  rw [List.findSome?_append]
  have : Z.roots.findSome? (ctxBelow x) = some cx := h
  rw [this]; rfl

/-- `specDetachP` is `specRemoveP` followed by listing the subtree as a parentless tree. -/
theorem specDetachP_eq {f : Forest} {n : Nat} {t : HTree} (nd : f.allHandles.Nodup) (hg : f.get? n = some t) :
    specDetachP n f = (specRemoveP n f).editAt none (insertLast t) := by
  unfold specDetachP
  rw [hg]
  simp only
  cases hpar : f.parent? n with
  | none => rw [specRemoveP_root hpar]; rfl
  | some p =>
    have hpt : p ∉ handles t := parent_not_mem_subtree nd hg hpar
    rw [specRemoveP_kid hpar, mergeLeftAt_eq_pairOpt]
    simp only [Forest.editAt_consolidation]
    rw [← Forest.editAt_editAt]
    simp only [Forest.editAt, insertLast, List.map_append, List.map_cons, List.map_nil, editAt_of_not_mem t hpt]

/-- **Frame of detach, pair reading**: every forest with the invariant. -/
theorem frame_specDetachP {f : Forest} {n : Nat} {t : HTree} (inv : f.Inv)
    (hg : f.get? n = some t) {x : Nat} {cx : Ctx} (hx : f.ctx? x = some cx)
    (h1 : some cx.parent ≠ f.parent? n) (h3 : cx.parent ∉ handles t) (h4 : x ∉ handles t) :
    ∃ cx', (specDetachP n f).ctx? x = some cx' ∧ cx'.shape = cx.shape := by
  obtain ⟨cx', h', hs'⟩ := frame_specRemoveP inv hg hx h1 h3 h4
  rw [specDetachP_eq inv.nodup hg]
  exact ⟨cx', ctx_insertLast_root t h', hs'⟩

theorem detach_frame_all {f : Forest} {n : Nat} {t : HTree} (inv : f.Inv)
    (hg : f.get? n = some t) {x : Nat} {cx : Ctx} (hx : f.ctx? x = some cx)
    (h1 : some cx.parent ≠ f.parent? n) (h3 : cx.parent ∉ handles t) (h4 : x ∉ handles t) :
    ∃ cx', (f.detach n).1.ctx? x = some cx' ∧ cx'.shape = cx.shape := by
  rw [detach_pair inv (Forest.isLive_of_get hg)]
  exact frame_specDetachP inv hg hx h1 h3 h4

/-! ### element_unwrap -/

/-- A node that is neither an element nor a document - in particular an attribute or namespace node - is a leaf. -/
theorem leaf_of_not_normal {f : Forest} {c : Nat} {t : HTree} {b : Bool} (hv : validList b f.roots = true)
    (hg : f.get? c = some t) (ht : t.value.isNormal = false) : t.kids = [] := by
  have := valid_findList f.roots t hv hg
  cases t with
  | node h v ks =>
    simp only [HTree.value] at ht
    simp only [HTree.kids]
    apply kids_nil_of_valid this
    · cases v <;> simp_all [Value.isNormal, Value.category, Value.isElement]
    · cases v <;> simp_all [Value.isNormal, Value.category, Value.isDocument]

/-- `specUnwrapP` of a node with a parent is ONE edit of the parent's child list. -/
theorem specUnwrapP_kid {f : Forest} {n p : Nat} (h : f.parent? n = some p) :
    specUnwrapP n f = f.editAt (some p)
      (pairOpt f.consolidation (f.nbOf n) ∘
       pairOpt f.consolidation ((((f.kidsOf n).filter (fun k => k.value.isNormal)).getLast?.map (·.handle)), (f.nbOf n).2) ∘
       pairOpt f.consolidation ((f.nbOf n).1, (((f.kidsOf n).filter (fun k => k.value.isNormal)).head?.map (·.handle))) ∘
       replaceTop n (fun w => w.kids.filter (fun k => k.value.isNormal))) := by
  unfold specUnwrapP
  rw [h]
  simp only
  rw [mergeLeftAt_eq_pairOpt, mergeLeftAt_eq_pairOpt, mergeLeftAt_eq_pairOpt]
  simp only [Forest.editAt_consolidation]
  rw [Forest.editAt_editAt, Forest.editAt_editAt, Forest.editAt_editAt]
  rfl

/-- **Frame of unwrap, pair reading**: the wrapper `n` has the parent `p`; a node whose parent is neither `p`
    (the siblings of `n`) nor `n` (its children: the normal ones move up, the others disappear) keeps parent,
    value and siblings - in particular everything deeper inside `n`. -/
theorem frame_specUnwrapP {f : Forest} {n p : Nat} (inv : f.Inv) (hp : f.parent? n = some p)
    {x : Nat} {cx : Ctx} (hx : f.ctx? x = some cx) (h1 : cx.parent ≠ p) (h2 : cx.parent ≠ n) :
    ∃ cx', (specUnwrapP n f).ctx? x = some cx' ∧ cx'.shape = cx.shape := by
  have nd := inv.nodup
  cases hctx : f.ctx? n with
  | none => rw [Forest.parent?_of_no_ctx hctx] at hp; cases hp
  | some cc =>
    obtain ⟨e0, vo, so⟩ := SiteAt.of_ctx nd hctx
    obtain ⟨po', l, W, r⟩ := cc
    simp only at e0 so
    subst e0
    have hpo' : po' = p := by
      rw [Forest.parent?_of_ctx hctx] at hp
      exact Option.some.inj hp
    subst hpo'
    obtain ⟨ndL, _⟩ := so.nodupKids
    obtain ⟨tl, tr⟩ := tops_ne_of_nodup ndL
    have hgW : f.get? W.handle = some W := so.getKid
    rw [specUnwrapP_kid hp]
    have hLZ := leafZ_of_site so inv.valid hx
    -- the children of the wrapper
    have hWkids : LeafZ cx.parent W.kids ∧
        (∀ k ∈ W.kids, k.value.isNormal = false → find? cx.parent k = none) := by
      cases W with
      | node wh wv wks =>
        have sW : SiteAt f wh wv wks := ⟨nd, hgW⟩
        refine ⟨leafZ_of_site sW inv.valid hx, ?_⟩
        intro k hk hkn
        obtain ⟨A, B, hAB⟩ := List.append_of_mem hk
        have sW' : SiteAt f wh wv (A ++ k :: B) := hAB ▸ sW
        have hkl : k.kids = [] := leaf_of_not_normal inv.valid sW'.getKid hkn
        exact find?_leaf hkl (not_text_leaf_of_parent nd hx sW'.getKid hkl)
    obtain ⟨hLZW, hWabn⟩ := hWkids
    have hrep : replaceTop W.handle (fun w => w.kids.filter (fun k => k.value.isNormal)) (l ++ W :: r) =
        l ++ W.kids.filter (fun k => k.value.isNormal) ++ r := replaceTop_mid rfl tl
    have hLZ1 : LeafZ cx.parent (l ++ W.kids.filter (fun k => k.value.isNormal) ++ r) := by
      intro k hk hkt
      rcases List.mem_append.1 hk with hk' | hk'
      · rcases List.mem_append.1 hk' with hk'' | hk''
        · exact hLZ k (List.mem_append_left _ hk'') hkt
        · exact hLZW k (List.mem_filter.1 hk'').1 hkt
      · exact hLZ k (List.mem_append_right _ (List.mem_cons_of_mem _ hk')) hkt
    apply so.frame _ _ hx h1
    · simp only [Function.comp]
      rw [hrep]
      have hLZ2 := leafZ_pairOpt f.consolidation ((f.nbOf W.handle).1,
        (((f.kidsOf W.handle).filter (fun k => k.value.isNormal)).head?.map (·.handle))) hLZ1
      have hLZ3 := leafZ_pairOpt f.consolidation
        ((((f.kidsOf W.handle).filter (fun k => k.value.isNormal)).getLast?.map (·.handle)), (f.nbOf W.handle).2) hLZ2
      rw [findList?_pairOpt _ _ hLZ3, findList?_pairOpt _ _ hLZ2, findList?_pairOpt _ _ hLZ1]
      rw [findList?_append, findList?_append, findList?_append, findList?_cons,
        Fmap.findList?_filter cx.parent _ W.kids hWabn]
      cases W with
      | node wh wv wks =>
        simp only [HTree.handle] at h2
        rw [find?_node, if_neg (fun e => h2 e.symm)]
        simp only [HTree.kids]
        cases findList? cx.parent l <;> rfl
    · apply so.nodup_of_count
      intro z
      simp only [Function.comp]
      rw [hrep]
      have c3 := (pairOpt_sublist f.consolidation ((f.nbOf W.handle).1,
        (((f.kidsOf W.handle).filter (fun k => k.value.isNormal)).head?.map (·.handle)))
        (l ++ W.kids.filter (fun k => k.value.isNormal) ++ r)).count_le z
      have c2 := (pairOpt_sublist f.consolidation
        ((((f.kidsOf W.handle).filter (fun k => k.value.isNormal)).getLast?.map (·.handle)), (f.nbOf W.handle).2)
        (pairOpt f.consolidation ((f.nbOf W.handle).1,
          (((f.kidsOf W.handle).filter (fun k => k.value.isNormal)).head?.map (·.handle)))
          (l ++ W.kids.filter (fun k => k.value.isNormal) ++ r))).count_le z
      have c1 := (pairOpt_sublist f.consolidation (f.nbOf W.handle)
        (pairOpt f.consolidation
          ((((f.kidsOf W.handle).filter (fun k => k.value.isNormal)).getLast?.map (·.handle)), (f.nbOf W.handle).2)
          (pairOpt f.consolidation ((f.nbOf W.handle).1,
            (((f.kidsOf W.handle).filter (fun k => k.value.isNormal)).head?.map (·.handle)))
            (l ++ W.kids.filter (fun k => k.value.isNormal) ++ r)))).count_le z
      have c4 : (handlesList (l ++ W.kids.filter (fun k => k.value.isNormal) ++ r)).count z ≤
          (handlesList (l ++ W :: r)).count z := by
        apply List.Sublist.count_le
        rw [fs_handlesList_append, fs_handlesList_append, fs_handlesList_append, handlesList_cons, List.append_assoc]
        refine (List.Sublist.refl _).append (List.Sublist.append ?_ (List.Sublist.refl _))
        cases W with
        | node wh wv wks =>
          rw [handles_node]
          exact (Fmap.handlesList_filter_sublist _ wks).trans (List.sublist_cons_self _ _)
      have c5 := (List.nodup_iff_count.1 nd) z
      omega

/-- A parentless element that `element_unwrap` accepts has no normal child: the call is `remove`. -/
theorem elementUnwrap_parentless {f : Forest} {n : Nat} (hok : (f.elementUnwrap n).2 = .ok)
    (hp : f.parent? n = none) : f.elementUnwrap n = f.remove n := by
  unfold Forest.elementUnwrap at hok ⊢
  cases he : f.isElement n with
  | false => simp [he] at hok
  | true =>
    simp only [he, Bool.not_true, Bool.false_eq_true, if_false] at hok ⊢
    cases hfc : f.firstChild n with
    | none => rfl
    | some c => simp [hfc, hp] at hok

theorem unwrap_frame_all {f : Forest} {n p : Nat} (inv : f.Inv) (hok : (f.elementUnwrap n).2 = .ok)
    (hp : f.parent? n = some p) {x : Nat} {cx : Ctx} (hx : f.ctx? x = some cx)
    (h1 : cx.parent ≠ p) (h2 : cx.parent ≠ n) :
    ∃ cx', (f.elementUnwrap n).1.ctx? x = some cx' ∧ cx'.shape = cx.shape := by
  rw [unwrap_pair inv hok]
  exact frame_specUnwrapP inv hp hx h1 h2

/-! ### element_wrap -/

/-- No tree of the list holds `x`: no context of `x` is found there. -/
theorem ctx_none_of_not_mem_list {x : Nat} {L : List HTree} (h : x ∉ handlesList L) :
    L.findSome? (ctxBelow x) = none := by
  rw [List.findSome?_eq_none_iff]
  intro k hk
  apply ctxBelow_of_not_mem
  intro hx
  apply h
  obtain ⟨A, B, e⟩ := List.append_of_mem hk
  rw [e, fs_handlesList_append, handlesList_cons]
  exact List.mem_append_right _ (List.mem_append_left _ hx)

/-- **Frame of wrap** (`specWrap` merges nothing, it is its own pair reading): every node with a parent other than
    the parent of `n` keeps parent, value and siblings - everything inside `n` included; when `n` is parentless,
    every node that has a parent does. -/
theorem frame_specWrap {f : Forest} {n : Nat} (name : Nat) {t : HTree} (inv : f.Inv) (hg : f.get? n = some t)
    {x : Nat} {cx : Ctx} (hx : f.ctx? x = some cx) (h1 : some cx.parent ≠ f.parent? n) :
    ∃ cx', (specWrap n name f).ctx? x = some cx' ∧ cx'.shape = cx.shape := by
  have nd := inv.nodup
  -- the parent of `x` is an old handle
  have hzlt : cx.parent ≠ f.next := by
    obtain ⟨_, vx, sx⟩ := SiteAt.of_ctx nd hx
    intro e
    have hm : cx.parent ∈ f.allHandles := mem_of_findList?_some sx.kids
    exact Nat.lt_irrefl _ (e ▸ inv.below _ hm)
  unfold specWrap
  rw [hg]
  simp only
  rcases Forest.root_or_ctx hg with hroot | ⟨c, hctx⟩
  · -- parentless: the tree moves to the end of the list, inside the wrapper
    have hno : f.ctx? n = none := Forest.ctx_none_of_root nd hroot
    rw [Forest.parent?_of_no_ctx hno]
    simp only
    refine ⟨cx, ?_, rfl⟩
    show (dropTop n f.roots ++ [HTree.node f.next (.element name) [t]]).findSome? (ctxBelow x) = some cx
    have hxn : x ≠ n := fun e => by rw [e, hno] at hx; cases hx
    have htn : t.handle = n := (findList?_some f.roots t hg).1
    by_cases hxt : x ∈ handles t
    · unfold Forest.isRoot at hroot
      obtain ⟨k, hk, hkc⟩ := List.any_eq_true.1 hroot
      have hkc' : k.handle = n := by simpa using hkc
      have hkt := root_is nd hg k hk hkc'
      subst hkt
      obtain ⟨A, B, hAB⟩ := List.append_of_mem hk
      have nd' := nd
      unfold Forest.allHandles at nd'
      rw [hAB] at nd'
      obtain ⟨m1, m2, _⟩ := nodup_mid nd'
      obtain ⟨tl, tr⟩ := tops_ne_of_nodup nd'
      have hA := ctx_none_of_not_mem_list (m1 x hxt)
      have hB := ctx_none_of_not_mem_list (m2 x hxt)
      have hxk : ctxBelow x k = some cx := by
        have : (A ++ k :: B).findSome? (ctxBelow x) = some cx := by rw [← hAB]; exact hx
        rw [List.findSome?_append, hA, List.findSome?_cons] at this
        cases hk' : ctxBelow x k with
        | some c => rw [hk'] at this; simpa using this
        | none => rw [hk', hB] at this; cases this
      rw [hAB, dropTop_mid hkc' (fun k' hk' => hkc' ▸ tl k' hk') (fun k' hk' => hkc' ▸ tr k' hk'),
        List.findSome?_append, List.findSome?_append, hA, hB, List.findSome?_cons, ctxBelow_node,
        ctxKids_cons_below (fun e => hxn (by rw [← e, hkc'])) hxk]
      rfl
    · rw [List.findSome?_append, ctx_dropRoot f.roots (by
        intro k hk hkn
        rw [root_is nd hg k hk hkn]; exact hxt)]
      have : f.roots.findSome? (ctxBelow x) = some cx := hx
      rw [this]; rfl
  · obtain ⟨e0, v, so⟩ := SiteAt.of_ctx nd hctx
    obtain ⟨p, l, k, r⟩ := c
    simp only at e0 so
    subst e0
    have hpar : f.parent? k.handle = some p := Forest.parent?_of_ctx hctx
    rw [hpar] at h1 ⊢
    simp only
    have hne : cx.parent ≠ p := fun e => h1 (by rw [e])
    obtain ⟨ndL, _⟩ := so.nodupKids
    obtain ⟨tl, tr⟩ := tops_ne_of_nodup ndL
    have hrep : replaceTop k.handle (fun k' => [HTree.node f.next (.element name) [k']]) (l ++ k :: r) =
        l ++ [HTree.node f.next (.element name) [k]] ++ r := replaceTop_mid rfl tl
    have := so.frame (replaceTop k.handle (fun k' => [HTree.node f.next (.element name) [k']])) (by
      apply so.nodup_of_count
      intro z
      rw [hrep]
      have c5 := (List.nodup_iff_count.1 nd) z
      have c6 : (handlesList (l ++ [HTree.node f.next (.element name) [k]] ++ r)).count z =
          (handlesList (l ++ k :: r)).count z + (if f.next = z then 1 else 0) := by
        simp only [fs_handlesList_append, handlesList_cons, handlesList_nil, handles_node, List.count_append,
          List.count_cons, List.append_nil, beq_iff_eq]
        omega
      by_cases hz : f.next = z
      · have : f.allHandles.count z = 0 := by
          apply List.count_eq_zero.2
          intro hm
          exact Nat.lt_irrefl _ (hz ▸ inv.below _ hm)
        rw [c6, if_pos hz]; omega
      · rw [c6, if_neg hz]; omega) hx hne (by
      rw [hrep, findList?_append, findList?_append, findList?_append, findList?_cons, findList?_cons, find?_node,
        if_neg (fun e => hzlt e.symm), findList?_cons, findList?_nil]
      cases findList? cx.parent l <;> cases find? cx.parent k <;> rfl)
    exact this

theorem wrap_frame_all {f : Forest} {n name : Nat} {t : HTree} (inv : f.Inv)
    (hok : (f.elementWrap n name).2.1 = .ok) (hg : f.get? n = some t)
    {x : Nat} {cx : Ctx} (hx : f.ctx? x = some cx) (h1 : some cx.parent ≠ f.parent? n) :
    ∃ cx', (f.elementWrap n name).1.ctx? x = some cx' ∧ cx'.shape = cx.shape := by
  have e : (f.elementWrap n name).1 = specWrap n name f := by
    cases hpar : f.parent? n with
    | none => exact (wrap_spec_root inv hpar hok).1
    | some p => exact (wrap_spec_kid inv hpar hok).1
  rw [e]
  exact frame_specWrap name inv hg hx h1

end XotModel
