/-
  XotModel.Lemmas.DedupInside — `deduplicate_namespaces(node)` keeps `to_string(start)` from failing
  with `MissingPrefix` for EVERY start node, those strictly inside the call's subtree included.

  Such a node may have another raw path afterwards (namespace nodes before it, or before one of its
  ancestors, are gone), so start nodes are matched by position in `startPaths`: the raw-order list of
  the nodes that are not namespace nodes (nor inside one) — the enumeration of `declsOfTree`.
  `startW env anc x` lists, in that order, whether serialisation started at each node of `x` finds
  every prefix, `anc` being the ancestors of `x` (`startPaths_map`: it is `namesWritable` along
  `startPaths`).

  For a start node `y` inside the subtree the serialiser's first frame is `namespaces_in_scope(y)`:
  the nearest-declaration scope of ALL ancestors, a STRICT push (`IsPush true`, Lemmas/DedupKeep) of
  `y`'s declarations onto `namespaces_in_scope(parent)`.  The invariants `KW` / `DdInv` / `DdInv3`
  of Lemmas/DedupKeep are carried down the subtree on these frames (`inside_tree`); at `y` the frame
  after the serialiser's own `push` of `y`'s declarations is a plain push onto the parent's scope
  (`IsPush.absorb`), so `keep_element` applies.  This needs that inside the call's subtree only
  elements carry namespace nodes (`OnlyElementsDeclare`): the call reads the declarations of
  elements, `namespaces_in_scope` those of every ancestor.
-/
import XotModel.Lemmas.DedupSerialise
import XotModel.Lemmas.Scope
import XotModel.Model.Valid

namespace XotModel

/-! ### Only elements carry declarations -/

/-- No node other than an element has namespace nodes as leading children. -/
def OnlyElementsDeclare (t : Tree) : Prop :=
  t.Forall (fun v ks => v.isElement = false → (Tree.node v ks).nsDecls = [])

theorem ddRemoveNsKid_sublist (p : Nat) : ∀ ks : List Tree, (removeNsKid p ks).Sublist ks
  | [] => List.Sublist.refl _
  | k :: ks => by
    unfold removeNsKid
    split
    · split
      · exact List.sublist_cons_self _ _
      · exact (ddRemoveNsKid_sublist p ks).cons_cons _
    · exact List.Sublist.refl _

theorem ddRemoveOwn_sublist (pfxs : List Nat) (ks : List Tree) : (removeOwn pfxs ks).Sublist ks := by
  unfold removeOwn
  generalize pfxs.reverse = l
  induction l generalizing ks with
  | nil => exact List.Sublist.refl _
  | cons a rest ih => exact (ih _).trans (ddRemoveNsKid_sublist a ks)

mutual
theorem onlyElementsDeclare_dpWalk (env : Env) : ∀ (x : Tree) (K : List (List (Nat × Nat))),
    OnlyElementsDeclare x → OnlyElementsDeclare (dpWalk env K x)
  | .node v ks, K, h => by
    unfold OnlyElementsDeclare at h ⊢
    rw [Tree.forall_node] at h
    by_cases he : v.isElement = true
    · have hw : dpWalk env K (.node v ks) = .node v (removeOwn ((dpRed env K (.node v ks)).map (·.1))
          (dpWalk.dpWalkList env (dpKeep env K (.node v ks) :: K) ks)) := by
        simp only [dpWalk, he, ↓reduceIte]
      rw [hw, Tree.forall_node]
      refine ⟨fun hne => (by rw [he] at hne; cases hne), fun k hk => ?_⟩
      exact onlyElementsDeclare_dpWalkList env ks _ h.2 k ((ddRemoveOwn_sublist _ _).subset hk)
    · have he' : v.isElement = false := by simpa using he
      have hw : dpWalk env K (.node v ks) = .node v (dpWalk.dpWalkList env K ks) := by
        simp only [dpWalk, he', Bool.false_eq_true, ↓reduceIte]
      have hd := nsDecls_dpWalk_nonElement env K v ks he'
      rw [hw] at hd ⊢
      rw [Tree.forall_node]
      exact ⟨fun _ => by rw [hd]; exact h.1 he', onlyElementsDeclare_dpWalkList env ks K h.2⟩
theorem onlyElementsDeclare_dpWalkList (env : Env) : ∀ (ks : List Tree) (K : List (List (Nat × Nat))),
    (∀ k ∈ ks, OnlyElementsDeclare k) → ∀ k' ∈ dpWalk.dpWalkList env K ks, OnlyElementsDeclare k'
  | [], _, _, k', hk' => by simp [dpWalk.dpWalkList] at hk'
  | k :: ks, K, h, k', hk' => by
    simp only [dpWalk.dpWalkList, List.mem_cons] at hk'
    rcases hk' with rfl | hk'
    · exact onlyElementsDeclare_dpWalk env k K (h k (List.mem_cons_self ..))
    · exact onlyElementsDeclare_dpWalkList env ks K (fun k0 hk0 => h k0 (List.mem_cons_of_mem _ hk0)) k' hk'
end

/-! ### `namespaces_in_scope` as strict pushes -/

theorem inScope_no_undecl (chain : List Tree) (p n : Nat)
    (h : (p, n) ∈ namespacesInScopeChain chain) : ¬ (p = Env.emptyPrefix ∧ n = Env.noNamespace) := by
  rintro ⟨rfl, rfl⟩
  exact scopeSpecChain_empty_ne chain ((mem_namespacesInScopeChain chain _ _).1 h)

theorem inScope_isPush (a : Tree) (rest : List Tree) (hnd : (a.nsDecls.map Prod.fst).Nodup) :
    IsPush true (namespacesInScopeChain rest) a.nsDecls (namespacesInScopeChain (a :: rest)) := by
  intro p n
  rw [mem_namespacesInScopeChain, mem_namespacesInScopeChain]
  simp only [scopeSpecChain, true_implies]
  cases hl : a.nsDecls.lookup p with
  | none =>
    have hk : p ∉ a.nsDecls.map Prod.fst := by
      intro hm
      have := (lookup_isSome_iff_mem_keys _ _).2 hm
      rw [hl] at this; cases this
    have hnm : (p, n) ∉ a.nsDecls := fun hm => hk (List.mem_map.2 ⟨(p, n), hm, rfl⟩)
    simp only [hnm, hk, not_false_eq_true, true_and, false_or]
    constructor
    · intro h
      refine ⟨?_, h⟩
      rintro ⟨rfl, rfl⟩
      exact scopeSpecChain_empty_ne rest h
    · exact fun h => h.2
  | some m =>
    have hk : p ∈ a.nsDecls.map Prod.fst := (lookup_isSome_iff_mem_keys _ _).1 (by rw [hl]; rfl)
    have hmem : (p, n) ∈ a.nsDecls ↔ m = n := by
      rw [mem_iff_lookup_of_nodup _ hnd, hl]; simp
    simp only [hk, not_true_eq_false, false_and, or_false, hmem]
    by_cases hu : p = Env.emptyPrefix ∧ m = Env.noNamespace
    · obtain ⟨rfl, rfl⟩ := hu
      simp only [beq_self_eq_true, Bool.and_self, ↓reduceIte]
      constructor
      · intro h; cases h
      · rintro ⟨h1, h2⟩
        exact absurd ⟨trivial, h2.symm⟩ h1
    · have hb : (p == Env.emptyPrefix && m == Env.noNamespace) = false := by
        cases hpe : (p == Env.emptyPrefix && m == Env.noNamespace) with
        | false => rfl
        | true =>
          simp only [Bool.and_eq_true, beq_iff_eq] at hpe
          exact absurd hpe hu
      simp only [hb, Bool.false_eq_true, ↓reduceIte, Option.some.injEq]
      constructor
      · rintro rfl; exact ⟨hu, rfl⟩
      · exact fun h => h.2

/-- The serialiser's push of a node's declarations onto the scope of that very node: a plain push
    onto the scope of the parent. -/
theorem IsPush.absorb {S d W : List (Nat × Nat)} (h : IsPush true S d W)
    (hS : ∀ p n, (p, n) ∈ S → ¬ (p = Env.emptyPrefix ∧ n = Env.noNamespace)) :
    IsPush false S d (XotModel.pushTop W d) := by
  intro p n
  rw [ddMem_pushTop]
  simp only [Bool.false_eq_true, false_implies, true_and]
  constructor
  · rintro (h1 | ⟨hk, h1⟩)
    · exact .inl h1
    · exact ((h p n).1 h1).2
  · rintro (h1 | ⟨hk, h1⟩)
    · exact .inl h1
    · exact .inr ⟨hk, (h p n).2 ⟨fun _ => hS p n h1, .inr ⟨hk, h1⟩⟩⟩

theorem namespacesInScopeChain_cons_nil (a : Tree) (rest : List Tree) (h : a.nsDecls = []) :
    namespacesInScopeChain (a :: rest) = namespacesInScopeChain rest := by
  simp [namespacesInScopeChain, traverseChain, h, traverseDecls]

/-! ### Writability of every start node, in raw document order -/

/-- For every node of `x` that is not a namespace node (nor inside one), in raw document order:
    does serialisation started there find every prefix?  `anc`: the ancestors of `x`, nearest first. -/
def startW (env : Env) (anc : List Tree) : Tree → List Bool
  | .node v ks =>
    wr env (namespacesInScopeChain (.node v ks :: anc)) (.node v ks) ::
      startWList env (.node v ks :: anc) ks
where
  startWList (env : Env) (anc : List Tree) : List Tree → List Bool
    | [] => []
    | k :: ks =>
      if k.value.category == .namespace then startWList env anc ks
      else startW env anc k ++ startWList env anc ks

/-- Pointwise implication. -/
inductive ImpAll : List Bool → List Bool → Prop
  | nil : ImpAll [] []
  | cons {a b : Bool} {as bs : List Bool} : (a = true → b = true) → ImpAll as bs → ImpAll (a :: as) (b :: bs)

theorem ImpAll.refl : ∀ l, ImpAll l l
  | [] => .nil
  | _ :: as => .cons id (ImpAll.refl as)

theorem ImpAll.of_eq {a b : List Bool} (h : a = b) : ImpAll a b := h ▸ ImpAll.refl a

theorem ImpAll.trans {a b c : List Bool} (h1 : ImpAll a b) (h2 : ImpAll b c) : ImpAll a c := by
  induction h1 generalizing c with
  | nil => exact h2
  | cons hs _ ih =>
    cases h2 with
    | cons hs2 h2' => exact .cons (fun h => hs2 (hs h)) (ih h2')

theorem ImpAll.append {a b c d : List Bool} (h1 : ImpAll a b) (h2 : ImpAll c d) :
    ImpAll (a ++ c) (b ++ d) := by
  induction h1 with
  | nil => exact h2
  | cons hs _ ih => exact .cons hs ih

theorem ImpAll.length_eq {a b : List Bool} (h : ImpAll a b) : a.length = b.length := by
  induction h with
  | nil => rfl
  | cons _ _ ih => simp [ih]

theorem ImpAll.get {a b : List Bool} (h : ImpAll a b) (i : Nat) (hx : a[i]? = some true) :
    b[i]? = some true := by
  induction h generalizing i with
  | nil => simp at hx
  | cons hs _ ih =>
    cases i with
    | zero =>
      simp only [List.getElem?_cons_zero, Option.some.injEq] at hx ⊢
      exact hs hx
    | succ j => simpa using ih j (by simpa using hx)

mutual
theorem startW_congr (env : Env) : ∀ (x : Tree) (A A' : List Tree),
    A.map Tree.nsDecls = A'.map Tree.nsDecls → startW env A x = startW env A' x
  | .node v ks, A, A', h => by
    have h1 : (Tree.node v ks :: A).map Tree.nsDecls = (Tree.node v ks :: A').map Tree.nsDecls := by
      simp [h]
    simp only [startW, ddNamespacesInScopeChain_congr _ _ h1, startWList_congr env ks _ _ h1]
theorem startWList_congr (env : Env) : ∀ (ks : List Tree) (A A' : List Tree),
    A.map Tree.nsDecls = A'.map Tree.nsDecls → startW.startWList env A ks = startW.startWList env A' ks
  | [], _, _, _ => rfl
  | k :: ks, A, A', h => by
    simp only [startW.startWList, startW_congr env k A A' h, startWList_congr env ks A A' h]
end

theorem startWList_removeNsKid (env : Env) (A : List Tree) (p : Nat) : ∀ ks : List Tree,
    startW.startWList env A (removeNsKid p ks) = startW.startWList env A ks
  | [] => rfl
  | k :: ks => by
    by_cases hc : (k.value.category == Category.namespace) = true
    · obtain ⟨q, n, hv⟩ := (category_namespace_iff_ex _).1 hc
      simp only [removeNsKid, hv]
      by_cases hp : q = p
      · simp [hp, startW.startWList, hc]
      · have : (q == p) = false := by simpa using hp
        simp [this, startW.startWList, hc, startWList_removeNsKid env A p ks]
    · rw [removeNsKid_not_namespace p k ks hc]

theorem startWList_removeOwn (env : Env) (A : List Tree) (pfxs : List Nat) (ks : List Tree) :
    startW.startWList env A (removeOwn pfxs ks) = startW.startWList env A ks := by
  unfold removeOwn
  generalize pfxs.reverse = l
  induction l generalizing ks with
  | nil => rfl
  | cons a rest ih => simp only [List.foldl_cons]; rw [ih, startWList_removeNsKid]

/-! ### Inside the call's subtree -/

mutual
theorem inside_tree (env : Env) : ∀ (x : Tree) (K : List (List (Nat × Nat))) (A A' : List Tree),
    UniqueDeclsBelow x → OnlyElementsDeclare x → KW K (namespacesInScopeChain A') →
    DdInv env x (namespacesInScopeChain A) (namespacesInScopeChain A') →
    DdInv3 (namespacesInScopeChain A) (namespacesInScopeChain A') →
    ImpAll (startW env A x) (startW env A' (dpWalk env K x))
  | .node v ks, K, A, A', hu, ho, hK, hI, h3 => by
    have hukids : ∀ (i : Nat) (k : Tree), ks[i]? = some k → UniqueDeclsBelow k :=
      fun i k hk => hu.kid hk
    have ho' := ho
    unfold OnlyElementsDeclare at ho'
    rw [Tree.forall_node] at ho'
    have hokids : ∀ k ∈ ks, OnlyElementsDeclare k := ho'.2
    by_cases he : v.isElement = true
    · obtain ⟨name, rfl⟩ := (isElement_iff_ex v).1 he
      have hnd := hu.self (t := .node (.element name) ks) rfl
      have hd := nsDecls_dpWalk env K (.element name) ks rfl hnd
      have hnd' : ((dpWalk env K (.node (.element name) ks)).nsDecls.map Prod.fst).Nodup := by
        rw [hd]; exact ((dpKeep_sublist env K _).map Prod.fst).nodup hnd
      -- the scopes of the node itself: strict pushes onto the scopes of the parents
      have hP := inScope_isPush (.node (.element name) ks) A hnd
      have hP' := inScope_isPush (dpWalk env K (.node (.element name) ks)) A' hnd'
      rw [hd] at hP'
      have hK₁ := hK.push hP'
      have hI₁ := DdInv.push (K := K) (x := .node (.element name) ks) rfl hnd hK hI hP hP'
        (fun _ => inScope_no_undecl A')
      have h3₁ := DdInv3.push h3 hP hP'
      -- the frames after the serialiser's own push: plain pushes onto the scopes of the parents
      have hQ := hP.absorb (inScope_no_undecl A)
      have hQ' := hP'.absorb (inScope_no_undecl A')
      have hhead : wr env (namespacesInScopeChain (.node (.element name) ks :: A))
            (.node (.element name) ks) = true →
          wr env (namespacesInScopeChain (dpWalk env K (.node (.element name) ks) :: A'))
            (dpWalk env K (.node (.element name) ks)) = true :=
        keep_element env name ks K _ _ _ _ hnd hK hI h3 hQ hQ'
          (fun W₁ W₁' hK₂ hI₂ h3₂ hwk => keep_wr_list env ks _ W₁ W₁' hukids hK₂ hI₂ h3₂ hwk)
      have htail := inside_list env ks (dpKeep env K (.node (.element name) ks) :: K)
        (.node (.element name) ks :: A) (dpWalk env K (.node (.element name) ks) :: A') hukids hokids
        hK₁ (fun k hk => hI₁.kid hk) h3₁
      rw [dpWalk_element] at hhead htail ⊢
      simp only [startW, startWList_removeOwn]
      exact .cons hhead htail
    · have he' : v.isElement = false := by simpa using he
      have hd0 : (Tree.node v ks).nsDecls = [] := ho'.1 he'
      have hd := nsDecls_dpWalk_nonElement env K v ks he'
      have hwalk : dpWalk env K (.node v ks) = .node v (dpWalk.dpWalkList env K ks) := by
        simp only [dpWalk, he', Bool.false_eq_true, ↓reduceIte]
      rw [hwalk] at hd ⊢
      have e1 := namespacesInScopeChain_cons_nil (.node v ks) A hd0
      have e2 := namespacesInScopeChain_cons_nil (.node v (dpWalk.dpWalkList env K ks)) A'
        (by rw [hd]; exact hd0)
      have htail := inside_list env ks K (.node v ks :: A) (.node v (dpWalk.dpWalkList env K ks) :: A')
        hukids hokids (by rw [e2]; exact hK) (fun k hk => by rw [e1, e2]; exact hI.kid hk)
        (by rw [e1, e2]; exact h3)
      simp only [startW]
      refine .cons ?_ htail
      rw [e1, e2, wr_nonElement env _ v ks he', wr_nonElement env _ v _ he']
      exact keep_wr_list env ks K _ _ hukids hK (fun k hk => hI.kid hk) h3
theorem inside_list (env : Env) : ∀ (ks : List Tree) (K : List (List (Nat × Nat))) (A A' : List Tree),
    (∀ (i : Nat) (k : Tree), ks[i]? = some k → UniqueDeclsBelow k) →
    (∀ k ∈ ks, OnlyElementsDeclare k) → KW K (namespacesInScopeChain A') →
    (∀ k ∈ ks, DdInv env k (namespacesInScopeChain A) (namespacesInScopeChain A')) →
    DdInv3 (namespacesInScopeChain A) (namespacesInScopeChain A') →
    ImpAll (startW.startWList env A ks) (startW.startWList env A' (dpWalk.dpWalkList env K ks))
  | [], _, _, _, _, _, _, _, _ => by simp only [dpWalk.dpWalkList, startW.startWList]; exact .nil
  | k :: ks, K, A, A', hu, ho, hK, hI, h3 => by
    have htail := inside_list env ks K A A' (fun i k' hk => hu (i + 1) k' (by simpa using hk))
      (fun k' hk' => ho k' (List.mem_cons_of_mem _ hk')) hK
      (fun k' hk' => hI k' (List.mem_cons_of_mem _ hk')) h3
    simp only [dpWalk.dpWalkList, startW.startWList, dpWalk_value env k K]
    split
    · exact htail
    · exact (inside_tree env k K A A' (hu 0 k rfl) (ho k (List.mem_cons_self ..)) hK
        (hI k (List.mem_cons_self ..)) h3).append htail
end

/-! ### From the root down to the call node -/

theorem outside_list (env : Env) (g : Tree → Tree) (B B' : List Tree)
    (hB : B.map Tree.nsDecls = B'.map Tree.nsDecls) (hgv : ∀ k, (g k).value = k.value) :
    ∀ (l : List Tree) (i : Nat) (k : Tree), l[i]? = some k →
    ImpAll (startW env B k) (startW env B' (g k)) →
    ImpAll (startW.startWList env B l) (startW.startWList env B' (l.modify i g))
  | [], _, _, h, _ => by simp at h
  | a :: l, 0, k, h, hk => by
    simp only [List.getElem?_cons_zero, Option.some.injEq] at h
    subst h
    simp only [List.modify_zero_cons, startW.startWList, hgv]
    split
    · exact ImpAll.of_eq (startWList_congr env l B B' hB)
    · exact hk.append (ImpAll.of_eq (startWList_congr env l B B' hB))
  | a :: l, i + 1, k, h, hk => by
    simp only [List.getElem?_cons_succ] at h
    have ih := outside_list env g B B' hB hgv l i k h hk
    simp only [List.modify_succ_cons, startW.startWList]
    split
    · exact ih
    · exact (ImpAll.of_eq (startW_congr env a B B' hB)).append ih

/-- One pass rebuilt at `path`, all start nodes, from any ancestors with the same declarations. -/
theorem outside_tree (env : Env) : ∀ (path : Path) (x sub : Tree) (A A' : List Tree),
    x.at? path = some sub → UniqueDeclsBelow sub → OnlyElementsDeclare sub →
    A.map Tree.nsDecls = A'.map Tree.nsDecls →
    ImpAll (startW env A x) (startW env A' (scopeModifyAt (dpWalk env []) x path))
  | [], x, sub, A, A', hs, hu, ho, hA => by
    simp only [Tree.at?, Option.some.injEq] at hs
    subst hs
    simp only [scopeModifyAt]
    have e := ddNamespacesInScopeChain_congr A A' hA
    exact inside_tree env x [] A A' hu ho (KW.nil _) (by rw [e]; exact DdInv.refl env x _)
      (by rw [e]; exact DdInv3.refl _)
  | i :: p, .node v l, sub, A, A', hs, hu, ho, hA => by
    have hfv : ∀ s, (dpWalk env [] s).value = s.value := fun s => dpWalk_value env s []
    have hd := nsDecls_scopeModifyAt _ hfv (i :: p) (.node v l) sub hs (nsDecls_dpWalk_nil env sub)
    have hwr := wr_modifyAt env (dpWalk env []) hfv (i :: p) (.node v l) sub
      (namespacesInScopeChain (.node v l :: A)) hs (fun W => keep_from_empty env sub W hu)
    simp only [scopeModifyAt] at hd hwr ⊢
    simp only [Tree.at?] at hs
    cases hk : l[i]? with
    | none => simp [hk] at hs
    | some k =>
      simp only [hk] at hs
      have hB : (Tree.node v l :: A).map Tree.nsDecls =
          (Tree.node v (l.modify i (fun k => scopeModifyAt (dpWalk env []) k p)) :: A').map Tree.nsDecls := by
        simp only [List.map_cons, hd, hA]
      have e := ddNamespacesInScopeChain_congr _ _ hB
      have ih := outside_tree env p k sub (.node v l :: A)
        (.node v (l.modify i (fun k => scopeModifyAt (dpWalk env []) k p)) :: A') hs hu ho hB
      have htail := outside_list env (fun k => scopeModifyAt (dpWalk env []) k p) _ _ hB
        (fun k => scopeModifyAt_value _ hfv p k) l i k hk ih
      simp only [startW]
      refine .cons ?_ htail
      rw [← e]
      exact hwr

/-! ### The enumeration by paths -/

/-- The raw paths of the nodes that are not namespace nodes (nor inside one), in raw document order. -/
def startPaths : Tree → List Path
  | .node _ ks => [] :: startPathsList 0 ks
where
  startPathsList (i : Nat) : List Tree → List Path
    | [] => []
    | k :: ks =>
      if k.value.category == .namespace then startPathsList (i + 1) ks
      else (startPaths k).map (i :: ·) ++ startPathsList (i + 1) ks

/-- `namesWritable` for a node of `x` given by its path inside `x`, `x` having the ancestors `A`. -/
def startAt (env : Env) (A : List Tree) (x : Tree) (r : Path) : Option Bool :=
  match x.ancestorsOrSelf r, x.at? r with
  | some c, some s => some (wr env (namespacesInScopeChain (c ++ A)) s)
  | _, _ => none

theorem namesWritable_eq_startAt (env : Env) (t : Tree) (q : Path) :
    namesWritable env t q = startAt env [] t q := by
  unfold namesWritable startAt
  split <;> simp_all [namesWritableChain_eq]

theorem startAt_nil (env : Env) (A : List Tree) (x : Tree) :
    startAt env A x [] = some (wr env (namespacesInScopeChain (x :: A)) x) := by
  simp [startAt, Tree.ancestorsOrSelf, Tree.at?]

theorem startAt_cons (env : Env) (A : List Tree) (v : Value) (l : List Tree) (j : Nat) (r : Path)
    (k : Tree) (hk : l[j]? = some k) :
    startAt env A (.node v l) (j :: r) = startAt env (.node v l :: A) k r := by
  simp only [startAt, Tree.ancestorsOrSelf, Tree.kids, Tree.at?, hk]
  cases k.ancestorsOrSelf r with
  | none => rfl
  | some c => cases k.at? r <;> simp

mutual
theorem startPaths_map (env : Env) : ∀ (x : Tree) (A : List Tree),
    (startPaths x).map (startAt env A x) = (startW env A x).map some
  | .node v ks, A => by
    have := startPathsList_map env ks v [] A
    simp only [List.nil_append, List.length_nil] at this
    simp only [startPaths, startW, List.map_cons, startAt_nil, this]
theorem startPathsList_map (env : Env) : ∀ (ks : List Tree) (v : Value) (done : List Tree) (A : List Tree),
    (startPaths.startPathsList done.length ks).map (startAt env A (.node v (done ++ ks))) =
      (startW.startWList env (.node v (done ++ ks) :: A) ks).map some
  | [], _, _, _ => rfl
  | k :: ks, v, done, A => by
    have ih := startPathsList_map env ks v (done ++ [k]) A
    simp only [List.append_assoc, List.singleton_append, List.length_append, List.length_cons,
      List.length_nil, Nat.zero_add] at ih
    simp only [startPaths.startPathsList, startW.startWList]
    split
    · exact ih
    · have hk : (done ++ k :: ks)[done.length]? = some k := by simp
      rw [List.map_append, List.map_append, ih, List.map_map]
      congr 1
      rw [← startPaths_map env k (.node v (done ++ k :: ks) :: A)]
      apply List.map_congr_left
      intro r _
      exact startAt_cons env A v (done ++ k :: ks) done.length r k hk
end

theorem startPaths_namesWritable (env : Env) (t : Tree) :
    (startPaths t).map (namesWritable env t) = (startW env [] t).map some := by
  rw [← startPaths_map env t []]
  apply List.map_congr_left
  intro q _
  exact namesWritable_eq_startAt env t q

/-- The statement by positions, from the pointwise implication of the `startW` lists. -/
theorem positions_of_impAll (env : Env) (t t' : Tree)
    (h : ImpAll (startW env [] t) (startW env [] t')) :
    (startPaths t').length = (startPaths t).length ∧
    ∀ (i : Nat) (q q' : Path), (startPaths t)[i]? = some q → (startPaths t')[i]? = some q' →
      namesWritable env t q = some true → namesWritable env t' q' = some true := by
  have e := startPaths_namesWritable env t
  have e' := startPaths_namesWritable env t'
  refine ⟨?_, fun i q q' hq hq' hw => ?_⟩
  · have l1 := congrArg List.length e
    have l2 := congrArg List.length e'
    simp only [List.length_map] at l1 l2
    rw [l1, l2, h.length_eq]
  · have h1 : ((startPaths t).map (namesWritable env t))[i]? = some (some true) := by
      simp [List.getElem?_map, hq, hw]
    rw [e, List.getElem?_map] at h1
    have h2 : (startW env [] t)[i]? = some true := by
      cases hx : (startW env [] t)[i]? with
      | none => simp [hx] at h1
      | some b => simp only [hx, Option.map_some, Option.some.injEq] at h1; rw [h1]
    have h3 := h.get i h2
    have h4 : ((startPaths t').map (namesWritable env t'))[i]? = some (some true) := by
      rw [e', List.getElem?_map, h3]; rfl
    simpa [List.getElem?_map, hq'] using h4

/-! ### The pass, the loop -/

theorem dedupPass_everywhere (env : Env) (t : Tree) (path : Path) (sub : Tree)
    (hs : t.at? path = some sub) (hu : UniqueDeclsBelow sub) (ho : OnlyElementsDeclare sub) :
    ImpAll (startW env [] t) (startW env [] (dedupPass env t path sub).1) := by
  rw [dedupPass_eq env t path sub hs]
  exact outside_tree env path t sub [] [] hs hu ho rfl

theorem dedupLoop_everywhere (env : Env) (path : Path) : ∀ (fuel : Nat) (t sub : Tree),
    t.at? path = some sub → UniqueDeclsBelow sub → OnlyElementsDeclare sub →
    ImpAll (startW env [] t) (startW env [] (dedupLoop env path fuel t))
  | 0, t, _, _, _, _ => ImpAll.refl _
  | fuel + 1, t, sub, hs, hu, ho => by
    unfold dedupLoop
    simp only [hs]
    have h1 := dedupPass_everywhere env t path sub hs hu ho
    split
    · exact h1.trans (dedupLoop_everywhere env path fuel _ _ (dedupPass_at? env t path sub hs)
        (hu.dpWalk env []) (onlyElementsDeclare_dpWalk env sub [] ho))
    · exact h1

/-- `deduplicate_namespaces(node)`: every start node, matched by position in `startPaths`. -/
theorem namesWritable_dedup_everywhere (env : Env) (t t' : Tree) (path : Path) (sub : Tree)
    (hs : t.at? path = some sub) (hu : UniqueDeclsBelow sub) (ho : OnlyElementsDeclare sub)
    (hd : deduplicateNamespaces env t path = some t') :
    (startPaths t').length = (startPaths t).length ∧
    ∀ (i : Nat) (q q' : Path), (startPaths t)[i]? = some q → (startPaths t')[i]? = some q' →
      namesWritable env t q = some true → namesWritable env t' q' = some true := by
  simp only [deduplicateNamespaces, hs, Option.some.injEq] at hd
  subst hd
  exact positions_of_impAll env t _ (dedupLoop_everywhere env path _ t sub hs hu ho)

end XotModel
