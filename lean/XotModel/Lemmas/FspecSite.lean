/-
  FspecSite — working at one site: a forest with distinct handles in which the node `p` has
  the child list `L` (`SiteAt`).  An edit of `p` only depends on `g L`; the site description
  after an edit; validity facts (`validTree`) of the subtrees found by `get?`.
-/
import XotModel.Lemmas.FspecForest

namespace XotModel
open HTree Spec

/-! ### An edit only depends on what it does to the actual child list -/

mutual
  theorem editAt_congr_tree {p : Nat} {v : Value} {L : List HTree} {g g' : List HTree → List HTree}
      (hg : g L = g' L) : ∀ t : HTree, (handles t).Nodup → find? p t = some (.node p v L) →
      HTree.editAt p g t = HTree.editAt p g' t
    | .node h v' ks => by
      intro nd e
      obtain ⟨n1, n2⟩ := nodup_handles_node nd
      rw [find?_node] at e
      rw [editAt_node, editAt_node]
      by_cases hh : h = p
      · rw [if_pos hh] at e
        have e' := Option.some.inj e
        injection e' with _ _ e3
        subst e3
        rw [if_pos hh, if_pos hh, hg]
      · rw [if_neg hh] at e
        rw [if_neg hh, if_neg hh, editAt_congr_list hg ks n2 e]
  theorem editAt_congr_list {p : Nat} {v : Value} {L : List HTree} {g g' : List HTree → List HTree}
      (hg : g L = g' L) : ∀ ks : List HTree, (handlesList ks).Nodup → findList? p ks = some (.node p v L) →
      ks.map (HTree.editAt p g) = ks.map (HTree.editAt p g')
    | [] => by intro _ _; rfl
    | k :: ks => by
      intro nd e
      obtain ⟨n1, n2, n3⟩ := nodup_handlesList_cons nd
      rw [List.map_cons, List.map_cons]
      cases hk : find? p k with
      | some t =>
        rw [findList?_cons_some hk] at e
        have e' := Option.some.inj e
        subst e'
        have hpn : p ∉ handlesList ks := n3 p (mem_of_find?_some hk)
        rw [editAt_congr_tree hg k n1 hk, map_editAt_of_not_mem ks hpn, map_editAt_of_not_mem ks hpn]
      | none =>
        rw [findList?_cons_none hk] at e
        have hpk : p ∉ handles k := by
          intro hm
          have := find?_isSome_of_mem k hm
          rw [hk] at this; cases this
        rw [editAt_of_not_mem k hpk, editAt_of_not_mem k hpk, editAt_congr_list hg ks n2 e]
end

/-- The node `p` is live with value `v` and child list `L`, in a forest with distinct handles. -/
structure SiteAt (f : Forest) (p : Nat) (v : Value) (L : List HTree) : Prop where
  nd : f.allHandles.Nodup
  kids : f.get? p = some (.node p v L)

namespace SiteAt

theorem congr {f : Forest} {p : Nat} {v : Value} {L : List HTree} (s : SiteAt f p v L)
    {g g' : List HTree → List HTree} (hg : g L = g' L) :
    f.editAt (some p) g = f.editAt (some p) g' := by
  simp only [Forest.editAt]
  rw [editAt_congr_list hg f.roots s.nd s.kids]

/-- The site after an edit that neither invents nor duplicates handles. -/
theorem edit {f : Forest} {p : Nat} {v : Value} {L : List HTree} (s : SiteAt f p v L)
    (g : List HTree → List HTree) (hg : (handlesList (g L)).Sublist (handlesList L)) :
    SiteAt (f.editAt (some p) g) p v (g L) := by
  let g' : List HTree → List HTree := fun L' => if L' = L then g L else L'
  have e : f.editAt (some p) g = f.editAt (some p) g' := s.congr (by simp [g'])
  have hg' : ∀ L', (handlesList (g' L')).Sublist (handlesList L') := by
    intro L'
    by_cases h : L' = L
    · simp only [g', if_pos h]; rw [h]; exact hg
    · simp only [g', if_neg h]; exact List.Sublist.refl _
  constructor
  · rw [e]; exact Forest.nodup_editAt s.nd hg'
  · exact Forest.get?_editAt_self g s.kids

/-- A child, its context and its lookup. -/
theorem ctx {f : Forest} {p : Nat} {v : Value} {l : List HTree} {k : HTree} {r : List HTree}
    (s : SiteAt f p v (l ++ k :: r)) : f.ctx? k.handle = some ⟨p, l, k, r⟩ :=
  Forest.ctx_of_kids s.nd s.kids

theorem getKid {f : Forest} {p : Nat} {v : Value} {l : List HTree} {k : HTree} {r : List HTree}
    (s : SiteAt f p v (l ++ k :: r)) : f.get? k.handle = some k :=
  findList?_kid f.roots s.nd s.kids

theorem of_ctx {f : Forest} {h : Nat} {c : Ctx} (nd : f.allHandles.Nodup) (e : f.ctx? h = some c) :
    c.self.handle = h ∧ ∃ v, SiteAt f c.parent v (c.left ++ c.self :: c.right) := by
  obtain ⟨e0, v, e1⟩ := Forest.kids_of_ctx nd e
  exact ⟨e0, v, nd, e1⟩

/-- Distinctness of the children's handles. -/
theorem nodupKids {f : Forest} {p : Nat} {v : Value} {L : List HTree} (s : SiteAt f p v L) :
    (handlesList L).Nodup ∧ p ∉ handlesList L := by
  have hsub := fs_findList?_sublist f.roots _ s.kids
  have := nodup_handles_node (hsub.nodup s.nd)
  exact ⟨this.2, this.1⟩

end SiteAt

/-! ### Validity of the subtrees found -/

theorem fs_validList_cons (b : Bool) (k : HTree) (ks : List HTree) :
    validList b (k :: ks) = (validTree b k && validList b ks) := by simp [validList]

mutual
  theorem valid_find {b : Bool} {h : Nat} : ∀ (t u : HTree), validTree b t = true → find? h t = some u →
      validTree b u = true
    | .node h' v ks, u => by
      intro hv e
      rw [find?_node] at e
      by_cases hh : h' = h
      · rw [if_pos hh] at e
        have e' := Option.some.inj e
        subst e'
        exact hv
      · rw [if_neg hh] at e
        simp only [validTree, Bool.and_eq_true] at hv
        exact valid_findList ks u hv.2 e
  theorem valid_findList {b : Bool} {h : Nat} : ∀ (ks : List HTree) (u : HTree), validList b ks = true →
      findList? h ks = some u → validTree b u = true
    | [], u => by intro _ e; rw [findList?_nil] at e; cases e
    | k :: ks, u => by
      intro hv e
      rw [fs_validList_cons, Bool.and_eq_true] at hv
      cases hk : find? h k with
      | some t =>
        rw [findList?_cons_some hk] at e
        have e' := Option.some.inj e
        subst e'
        exact valid_find k t hv.1 hk
      | none =>
        rw [findList?_cons_none hk] at e
        exact valid_findList ks u hv.2 e
end

/-- What validity says about one node. -/
theorem validTree_node {b : Bool} {h : Nat} {v : Value} {ks : List HTree}
    (hv : validTree b (.node h v ks) = true) :
    (∀ k ∈ ks, kidAllowed v k.value = true) ∧ kidsOrdered ks = true ∧
    (b = true → noAdjacentText ks = true) ∧ validList b ks = true := by
  simp only [validTree, Bool.and_eq_true, List.all_eq_true, Bool.or_eq_true, Bool.not_eq_true'] at hv
  obtain ⟨⟨⟨⟨⟨h1, h2⟩, _⟩, _⟩, h5⟩, h6⟩ := hv
  refine ⟨h1, h2, ?_, h6⟩
  intro hb
  cases h5 with
  | inl h => rw [hb] at h; cases h
  | inr h => exact h

/-- Only elements and documents have children. -/
theorem kids_nil_of_valid {b : Bool} {h : Nat} {v : Value} {ks : List HTree}
    (hv : validTree b (.node h v ks) = true) (hne : v.isElement = false) (hnd : v.isDocument = false) :
    ks = [] := by
  cases ks with
  | nil => rfl
  | cons k ks =>
    have := (validTree_node hv).1 k List.mem_cons_self
    cases v <;> simp_all [kidAllowed, Value.isElement, Value.isDocument]

end XotModel
