/-
  Lemmas for C13, part 13: `advanced_deep_equal` with a CUSTOM text comparison.
  * where the supplied comparison is consulted (`compareAttributes_true_iff`, `compareValue_*`);
  * the equivalence-relation laws of `cmp` on strings carry over to `advancedDeepEqual f cmp` on trees,
    for every filter: transitivity on ALL trees, reflexivity and symmetry whenever no attribute view
    repeats a name (`attrViewsNodup`, implied by `valid`).
  The `==` instance of all this is Lemmas/CompareAllTrees.lean.
-/
import XotModel.Lemmas.CompareAllTrees

namespace XotModel

/-- `advanced_compare_attributes` with any comparison: same number of entries, and every entry of `a` has
    an entry of the same name in `b` whose value the SUPPLIED comparison relates to it — nothing else about
    the two values (length, bytes) is looked at. -/
theorem compareAttributes_true_iff (cmp : TextCmp) (a b : Tree) :
    compareAttributes cmp a b = true ↔
      a.attrs.length = b.attrs.length ∧
        ∀ kv ∈ a.attrs, ∃ w, b.attrs.lookup kv.1 = some w ∧ cmp kv.2 w = true := by
  unfold compareAttributes
  rw [attrLen_eq_attrs_length, attrLen_eq_attrs_length]
  unfold Tree.getAttribute
  by_cases hlen : a.attrs.length = b.attrs.length
  · simp only [hlen, bne_self_eq_false, Bool.false_eq_true, ↓reduceIte, List.all_eq_true, true_and]
    constructor
    · intro h kv hkv
      have := h kv hkv
      cases hl : List.lookup kv.1 b.attrs with
      | none => rw [hl] at this; simp [cmpFound] at this
      | some v => rw [hl] at this; exact ⟨v, rfl, by simpa [cmpFound] using this⟩
    · intro h kv hkv
      obtain ⟨w, hw, hc⟩ := h kv hkv
      rw [hw]; simpa [cmpFound] using hc
  · have : (a.attrs.length != b.attrs.length) = true := by simpa using hlen
    simp [this, hlen]

theorem compareAttributes_refl {cmp : TextCmp} (hr : ∀ s, cmp s s = true) {a : Tree} (h : keysNodup a.attrs) :
    compareAttributes cmp a a = true := by
  rw [compareAttributes_true_iff]
  exact ⟨rfl, fun kv hkv => ⟨kv.2, lookup_of_mem h hkv, hr _⟩⟩

theorem compareAttributes_trans {cmp : TextCmp} (ht : ∀ s t u, cmp s t = true → cmp t u = true → cmp s u = true)
    {a b c : Tree} (h1 : compareAttributes cmp a b = true) (h2 : compareAttributes cmp b c = true) :
    compareAttributes cmp a c = true := by
  rw [compareAttributes_true_iff] at *
  refine ⟨h1.1.trans h2.1, fun kv hkv => ?_⟩
  obtain ⟨w, hw, hc⟩ := h1.2 kv hkv
  obtain ⟨u, hu, hc'⟩ := h2.2 (kv.1, w) (mem_of_lookup hw)
  exact ⟨u, hu, ht _ _ _ hc hc'⟩

theorem compareAttributes_symm' {cmp : TextCmp} (hs : ∀ s t, cmp s t = true → cmp t s = true) {a b : Tree}
    (ha : keysNodup a.attrs) (_hb : keysNodup b.attrs)
    (h : compareAttributes cmp a b = true) : compareAttributes cmp b a = true := by
  rw [compareAttributes_true_iff] at *
  obtain ⟨hlen, hall⟩ := h
  refine ⟨hlen.symm, ?_⟩
  -- `a` with every value replaced by the one `b` holds under that name: key-unique, included in `b`,
  -- of the same length, hence a permutation of `b`
  let g : Nat × Str → Nat × Str := fun kv => (kv.1, (b.attrs.lookup kv.1).getD [])
  have hkeys : (a.attrs.map g).map (·.1) = a.attrs.map (·.1) := by
    rw [List.map_map]; rfl
  have hn : keysNodup (a.attrs.map g) := by unfold keysNodup; rw [hkeys]; exact ha
  have hsub : ∀ x ∈ a.attrs.map g, x ∈ b.attrs := by
    intro x hx
    obtain ⟨kv, hkv, rfl⟩ := List.mem_map.mp hx
    obtain ⟨w, hw, _⟩ := hall kv hkv
    show (kv.1, (b.attrs.lookup kv.1).getD []) ∈ b.attrs
    rw [hw]; exact mem_of_lookup hw
  have hp : (a.attrs.map g).Perm b.attrs :=
    perm_of_subset_length (nodup_of_keysNodup hn) hsub (by rw [List.length_map]; exact hlen)
  intro kv hkv
  obtain ⟨kv0, hkv0, he⟩ := List.mem_map.mp (hp.symm.subset hkv)
  obtain ⟨w, hw, hc⟩ := hall kv0 hkv0
  have hk : kv.1 = kv0.1 := by rw [← he]
  have hv : kv.2 = w := by rw [← he]; show (b.attrs.lookup kv0.1).getD [] = w; rw [hw]; rfl
  refine ⟨kv0.2, ?_, ?_⟩
  · rw [hk]; exact lookup_of_mem ha hkv0
  · rw [hv]; exact hs _ _ hc

/-! ### `compareValue` with a custom comparison -/

/-- The seven arms of `advanced_compare_value`, with the place of the supplied comparison visible: text,
    PI data (both present), the value of an attribute node, and (through `compareAttributes`) the values of
    the attributes of an element; comment data, names, PI targets, prefixes, namespaces: `==`. -/
theorem compareValue_cases (cmp : TextCmp) (a b : Tree) :
    compareValue cmp a b = true ↔
      (a.value = .document ∧ b.value = .document) ∨
      (∃ n, a.value = .element n ∧ b.value = .element n ∧ compareAttributes cmp a b = true) ∨
      (∃ s t, a.value = .text s ∧ b.value = .text t ∧ cmp s t = true) ∨
      (∃ s, a.value = .comment s ∧ b.value = .comment s) ∨
      (∃ tg, a.value = .pi tg none ∧ b.value = .pi tg none) ∨
      (∃ tg s t, a.value = .pi tg (some s) ∧ b.value = .pi tg (some t) ∧ cmp s t = true) ∨
      (∃ n s t, a.value = .attribute n s ∧ b.value = .attribute n t ∧ cmp s t = true) ∨
      (∃ p n, a.value = .namespace p n ∧ b.value = .namespace p n) := by
  obtain ⟨va, ka⟩ := a
  obtain ⟨vb, kb⟩ := b
  cases va <;> cases vb <;> simp [compareValue, Tree.value]
  case pi.pi t d t' d' =>
    by_cases ht : t = t'
    · subst ht
      cases d <;> cases d' <;> simp
      case some.some x y =>
        constructor
        · intro h; exact ⟨t, x, ⟨rfl, rfl⟩, y, ⟨rfl, rfl⟩, h⟩
        · rintro ⟨_, _, ⟨_, rfl⟩, _, ⟨_, rfl⟩, h⟩; exact h
    · simp [ht]
      exact ⟨fun _ h => absurd h.symm ht, fun x _ h1 _ _ h2 _ => absurd (h1.trans h2.symm) ht⟩
  case element.element n m => intro _; exact eq_comm
  case comment.comment s t => exact eq_comm
  case attribute.attribute n v m w =>
    constructor
    · rintro ⟨rfl, h⟩; exact ⟨n, v, ⟨rfl, rfl⟩, w, ⟨rfl, rfl⟩, h⟩
    · rintro ⟨_, _, ⟨rfl, rfl⟩, _, ⟨rfl, rfl⟩, h⟩; exact ⟨rfl, h⟩

theorem compareValue_refl {cmp : TextCmp} (hr : ∀ s, cmp s s = true) {a : Tree} (h : keysNodup a.attrs) :
    compareValue cmp a a = true := by
  rw [compareValue_cases]
  obtain ⟨v, ks⟩ := a
  cases v
  case document => exact Or.inl ⟨rfl, rfl⟩
  case element n => exact Or.inr (Or.inl ⟨n, rfl, rfl, compareAttributes_refl hr h⟩)
  case text s => exact Or.inr (Or.inr (Or.inl ⟨s, s, rfl, rfl, hr s⟩))
  case comment s => exact Or.inr (Or.inr (Or.inr (Or.inl ⟨s, rfl, rfl⟩)))
  case pi t d =>
    cases d with
    | none => exact Or.inr (Or.inr (Or.inr (Or.inr (Or.inl ⟨t, rfl, rfl⟩))))
    | some s => exact Or.inr (Or.inr (Or.inr (Or.inr (Or.inr (Or.inl ⟨t, s, s, rfl, rfl, hr s⟩)))))
  case «attribute» n s => exact Or.inr (Or.inr (Or.inr (Or.inr (Or.inr (Or.inr (Or.inl ⟨n, s, s, rfl, rfl, hr s⟩))))))
  case «namespace» p n => exact Or.inr (Or.inr (Or.inr (Or.inr (Or.inr (Or.inr (Or.inr ⟨p, n, rfl, rfl⟩))))))

theorem compareValue_symm' {cmp : TextCmp} (hs : ∀ s t, cmp s t = true → cmp t s = true) {a b : Tree}
    (ha : keysNodup a.attrs) (hb : keysNodup b.attrs)
    (h : compareValue cmp a b = true) : compareValue cmp b a = true := by
  rw [compareValue_cases] at *
  rcases h with ⟨h1, h2⟩ | ⟨n, h1, h2, h3⟩ | ⟨s, t, h1, h2, h3⟩ | ⟨s, h1, h2⟩ | ⟨t, h1, h2⟩ |
    ⟨tg, s, t, h1, h2, h3⟩ | ⟨n, s, t, h1, h2, h3⟩ | ⟨p, n, h1, h2⟩
  · exact Or.inl ⟨h2, h1⟩
  · exact Or.inr (Or.inl ⟨n, h2, h1, compareAttributes_symm' hs ha hb h3⟩)
  · exact Or.inr (Or.inr (Or.inl ⟨t, s, h2, h1, hs _ _ h3⟩))
  · exact Or.inr (Or.inr (Or.inr (Or.inl ⟨s, h2, h1⟩)))
  · exact Or.inr (Or.inr (Or.inr (Or.inr (Or.inl ⟨t, h2, h1⟩))))
  · exact Or.inr (Or.inr (Or.inr (Or.inr (Or.inr (Or.inl ⟨tg, t, s, h2, h1, hs _ _ h3⟩)))))
  · exact Or.inr (Or.inr (Or.inr (Or.inr (Or.inr (Or.inr (Or.inl ⟨n, t, s, h2, h1, hs _ _ h3⟩))))))
  · exact Or.inr (Or.inr (Or.inr (Or.inr (Or.inr (Or.inr (Or.inr ⟨p, n, h2, h1⟩))))))

theorem compareValue_symm {cmp : TextCmp} (hs : ∀ s t, cmp s t = true → cmp t s = true) {a b : Tree}
    (ha : keysNodup a.attrs) (hb : keysNodup b.attrs) :
    compareValue cmp a b = compareValue cmp b a := by
  cases h1 : compareValue cmp a b
  · cases h2 : compareValue cmp b a
    · rfl
    · rw [compareValue_symm' hs hb ha h2] at h1; cases h1
  · exact (compareValue_symm' hs ha hb h1).symm

theorem compareValue_trans {cmp : TextCmp} (ht : ∀ s t u, cmp s t = true → cmp t u = true → cmp s u = true)
    {a b c : Tree} (h1 : compareValue cmp a b = true) (h2 : compareValue cmp b c = true) :
    compareValue cmp a c = true := by
  rw [compareValue_cases] at h1 h2
  rw [compareValue_cases]
  rcases h1 with ⟨a1, b1⟩ | ⟨n, a1, b1, c1⟩ | ⟨s, t, a1, b1, c1⟩ | ⟨s, a1, b1⟩ | ⟨t, a1, b1⟩ |
    ⟨tg, s, t, a1, b1, c1⟩ | ⟨n, s, t, a1, b1, c1⟩ | ⟨p, n, a1, b1⟩ <;>
  rcases h2 with ⟨a2, b2⟩ | ⟨n', a2, b2, c2⟩ | ⟨s', t', a2, b2, c2⟩ | ⟨s', a2, b2⟩ | ⟨t', a2, b2⟩ |
    ⟨tg', s', t', a2, b2, c2⟩ | ⟨n', s', t', a2, b2, c2⟩ | ⟨p', n', a2, b2⟩ <;>
  (rw [b1] at a2) <;> first
    | (cases a2; done)
    | skip
  · exact Or.inl ⟨a1, b2⟩
  · cases a2; exact Or.inr (Or.inl ⟨n, a1, b2, compareAttributes_trans ht c1 c2⟩)
  · cases a2; exact Or.inr (Or.inr (Or.inl ⟨s, t', a1, b2, ht _ _ _ c1 c2⟩))
  · cases a2; exact Or.inr (Or.inr (Or.inr (Or.inl ⟨s, a1, b2⟩)))
  · cases a2; exact Or.inr (Or.inr (Or.inr (Or.inr (Or.inl ⟨t, a1, b2⟩))))
  · cases a2; exact Or.inr (Or.inr (Or.inr (Or.inr (Or.inr (Or.inl ⟨tg, s, t', a1, b2, ht _ _ _ c1 c2⟩)))))
  · cases a2; exact Or.inr (Or.inr (Or.inr (Or.inr (Or.inr (Or.inr (Or.inl ⟨n, s, t', a1, b2, ht _ _ _ c1 c2⟩))))))
  · cases a2; exact Or.inr (Or.inr (Or.inr (Or.inr (Or.inr (Or.inr (Or.inr ⟨p, n, a1, b2⟩))))))

/-- A true answer relates nodes of the same normality. -/
theorem compareValue_isNormal {cmp : TextCmp} {a b : Tree} (h : compareValue cmp a b = true) :
    a.value.isNormal = b.value.isNormal := by
  rw [compareValue_cases] at h
  rcases h with ⟨h1, h2⟩ | ⟨n, h1, h2, _⟩ | ⟨s, t, h1, h2, _⟩ | ⟨s, h1, h2⟩ | ⟨t, h1, h2⟩ |
    ⟨tg, s, t, h1, h2, _⟩ | ⟨n, s, t, h1, h2, _⟩ | ⟨p, n, h1, h2⟩ <;> rw [h1, h2] <;> rfl

/-! ### Forests -/

section
variable {cmp : TextCmp}

mutual
theorem nodeEqv_cmp_trans (ht : ∀ s t u, cmp s t = true → cmp t u = true → cmp s u = true) :
    ∀ (x y z : FNode), nodeEqv cmp x y = true → nodeEqv cmp y z = true → nodeEqv cmp x z = true
  | .mk a ka, .mk b kb, .mk c kc, h1, h2 => by
    simp only [nodeEqv, Bool.and_eq_true] at *
    exact ⟨compareValue_trans ht h1.1 h2.1, forestEqv_cmp_trans ht ka kb kc h1.2 h2.2⟩
theorem forestEqv_cmp_trans (ht : ∀ s t u, cmp s t = true → cmp t u = true → cmp s u = true) :
    ∀ (xs ys zs : List FNode), forestEqv cmp xs ys = true → forestEqv cmp ys zs = true →
      forestEqv cmp xs zs = true
  | [], [], [], _, _ => rfl
  | [], [], _ :: _, _, h2 => by simp [forestEqv] at h2
  | [], _ :: _, _, h1, _ => by simp [forestEqv] at h1
  | _ :: _, [], _, h1, _ => by simp [forestEqv] at h1
  | _ :: _, _ :: _, [], _, h2 => by simp [forestEqv] at h2
  | x :: xs, y :: ys, z :: zs, h1, h2 => by
    simp only [forestEqv, Bool.and_eq_true] at *
    exact ⟨nodeEqv_cmp_trans ht x y z h1.1 h2.1, forestEqv_cmp_trans ht xs ys zs h1.2 h2.2⟩
end

mutual
theorem nodeEqv_cmp_refl (hr : ∀ s, cmp s s = true) : ∀ (x : FNode), x.ok → nodeEqv cmp x x = true
  | .mk a ka, h => by
    simp only [nodeEqv, Bool.and_eq_true]
    exact ⟨compareValue_refl hr h.1, forestEqv_cmp_refl hr ka h.2⟩
theorem forestEqv_cmp_refl (hr : ∀ s, cmp s s = true) :
    ∀ (xs : List FNode), FNode.ok.okList xs → forestEqv cmp xs xs = true
  | [], _ => rfl
  | x :: xs, h => by
    simp only [forestEqv, Bool.and_eq_true]
    exact ⟨nodeEqv_cmp_refl hr x h.1, forestEqv_cmp_refl hr xs h.2⟩
end

mutual
theorem nodeEqv_cmp_symm (hs : ∀ s t, cmp s t = true → cmp t s = true) :
    ∀ (x y : FNode), x.ok → y.ok → nodeEqv cmp x y = nodeEqv cmp y x
  | .mk a ka, .mk b kb, hx, hy => by
    simp only [nodeEqv, compareValue_symm hs hx.1 hy.1, forestEqv_cmp_symm hs ka kb hx.2 hy.2]
theorem forestEqv_cmp_symm (hs : ∀ s t, cmp s t = true → cmp t s = true) :
    ∀ (xs ys : List FNode), FNode.ok.okList xs → FNode.ok.okList ys →
      forestEqv cmp xs ys = forestEqv cmp ys xs
  | [], [], _, _ => rfl
  | [], _ :: _, _, _ => rfl
  | _ :: _, [], _, _ => rfl
  | x :: xs, y :: ys, hx, hy => by
    simp only [forestEqv, nodeEqv_cmp_symm hs x y hx.1 hy.1, forestEqv_cmp_symm hs xs ys hx.2 hy.2]
end

end

/-! ### `advanced_deep_equal` with any filter and comparison -/

theorem advancedDeepEqual_cases (f : NodeFilter) (cmp : TextCmp) (a b : Tree) :
    (a.value.isNormal = true ∧ b.value.isNormal = true ∧
        advancedDeepEqual f cmp a b = forestEqv cmp (proj f a) (proj f b)) ∨
    ((¬ a.value.isNormal = true ∨ ¬ b.value.isNormal = true) ∧
        advancedDeepEqual f cmp a b = compareValue cmp a b) := by
  by_cases ha : a.value.isNormal = true
  · by_cases hb : b.value.isNormal = true
    · exact Or.inl ⟨ha, hb, advancedDeepEqual_eq _ _ _ _ ha hb⟩
    · exact Or.inr ⟨Or.inr hb, advancedDeepEqual_abnormal _ _ _ _ (Or.inr hb)⟩
  · exact Or.inr ⟨Or.inl ha, advancedDeepEqual_abnormal _ _ _ _ (Or.inl ha)⟩

theorem advancedDeepEqual_refl (f : NodeFilter) {cmp : TextCmp} (hr : ∀ s, cmp s s = true) (a : Tree)
    (h : a.attrViewsNodup = true) : advancedDeepEqual f cmp a a = true := by
  rcases advancedDeepEqual_cases f cmp a a with ⟨_, _, e⟩ | ⟨_, e⟩
  · rw [e]; exact forestEqv_cmp_refl hr _ (proj_ok _ a h)
  · rw [e]; exact compareValue_refl hr (attrViewsNodup_root h)

theorem advancedDeepEqual_symm (f : NodeFilter) {cmp : TextCmp} (hs : ∀ s t, cmp s t = true → cmp t s = true)
    (a b : Tree) (ha : a.attrViewsNodup = true) (hb : b.attrViewsNodup = true) :
    advancedDeepEqual f cmp a b = advancedDeepEqual f cmp b a := by
  rcases advancedDeepEqual_cases f cmp a b with ⟨na, nb, e1⟩ | ⟨hn, e1⟩
  · rcases advancedDeepEqual_cases f cmp b a with ⟨_, _, e2⟩ | ⟨hn, _⟩
    · rw [e1, e2]; exact forestEqv_cmp_symm hs _ _ (proj_ok _ a ha) (proj_ok _ b hb)
    · rcases hn with h | h <;> contradiction
  · rcases advancedDeepEqual_cases f cmp b a with ⟨nb, na, _⟩ | ⟨_, e2⟩
    · rcases hn with h | h <;> contradiction
    · rw [e1, e2]; exact compareValue_symm hs (attrViewsNodup_root ha) (attrViewsNodup_root hb)

/-- Transitivity needs nothing of the trees — but the three nodes must agree on being normal, which a true
    answer of the direct comparison gives and the filtered zip does not (a filter that drops everything
    makes any two normal nodes equal): hence the statement is per case. -/
theorem advancedDeepEqual_trans (f : NodeFilter) {cmp : TextCmp}
    (ht : ∀ s t u, cmp s t = true → cmp t u = true → cmp s u = true) (a b c : Tree)
    (hab : advancedDeepEqual f cmp a b = true) (hbc : advancedDeepEqual f cmp b c = true) :
    advancedDeepEqual f cmp a c = true := by
  rcases advancedDeepEqual_cases f cmp a b with ⟨ha, hb, e1⟩ | ⟨hn, e1⟩
  · rcases advancedDeepEqual_cases f cmp b c with ⟨_, hc, e2⟩ | ⟨hn, e2⟩
    · rcases advancedDeepEqual_cases f cmp a c with ⟨_, _, e3⟩ | ⟨hn, _⟩
      · rw [e3]; exact forestEqv_cmp_trans ht _ _ _ (e1 ▸ hab) (e2 ▸ hbc)
      · rcases hn with h | h <;> contradiction
    · have := compareValue_isNormal (e2 ▸ hbc)
      rcases hn with h | h
      · contradiction
      · rw [← this] at h; contradiction
  · have n1 := compareValue_isNormal (e1 ▸ hab)
    have ha : ¬ a.value.isNormal = true := by rcases hn with h | h; exact h; rw [n1]; exact h
    have hb : ¬ b.value.isNormal = true := by rw [← n1]; exact ha
    rcases advancedDeepEqual_cases f cmp b c with ⟨hb', _, _⟩ | ⟨_, e2⟩
    · contradiction
    · rcases advancedDeepEqual_cases f cmp a c with ⟨ha', _, _⟩ | ⟨_, e3⟩
      · contradiction
      · rw [e3]; exact compareValue_trans ht (e1 ▸ hab) (e2 ▸ hbc)

end XotModel
