/-
  FspecNat — the specification's list functions commute with maps over the children that keep
  handle and value (`KidMap`, e.g. an edit somewhere below): what is needed to commute edits at
  two different sites; lookups through a changed child list; a site seen after an edit elsewhere.
-/
import XotModel.Lemmas.FspecMerge
import XotModel.Lemmas.FspecAnc

namespace XotModel
open HTree Spec

/-- A map over trees that keeps the root's handle and value and commutes with value updates. -/
structure KidMap (φ : HTree → HTree) : Prop where
  handle : ∀ k, (φ k).handle = k.handle
  value : ∀ k, (φ k).value = k.value
  setValue : ∀ k v, φ (k.setValue v) = (φ k).setValue v

theorem editAt_setValue (s : Nat) (g : List HTree → List HTree) (t : HTree) (v : Value) :
    HTree.editAt s g (t.setValue v) = (HTree.editAt s g t).setValue v := by
  cases t with
  | node h v' ks =>
    simp only [HTree.setValue]
    rw [editAt_node, editAt_node]
    split <;> rfl

theorem kidMap_editAt (s : Nat) (g : List HTree → List HTree) : KidMap (HTree.editAt s g) :=
  ⟨editAt_handle s g, editAt_value s g, editAt_setValue s g⟩

theorem NatFor.comp {φ : HTree → HTree} {g1 g2 : List HTree → List HTree} (h1 : NatFor φ g1)
    (h2 : NatFor φ g2) : NatFor φ (g2 ∘ g1) := by
  intro L; simp only [Function.comp]; rw [h1 L, h2]

theorem natFor_id (φ : HTree → HTree) : NatFor φ id := fun _ => rfl

theorem natFor_dropTop {φ : HTree → HTree} (hφ : KidMap φ) (n : Nat) : NatFor φ (dropTop n) := by
  intro L
  induction L with
  | nil => rfl
  | cons k ks ih =>
    rw [List.map_cons, dropTop_cons, dropTop_cons, hφ.handle, ih]
    split <;> rfl

theorem natFor_replaceTop {φ : HTree → HTree} (hφ : KidMap φ) (h : Nat) {F : HTree → List HTree}
    (hF : ∀ k, F (φ k) = (F k).map φ) : NatFor φ (replaceTop h F) := by
  intro L
  induction L with
  | nil => rfl
  | cons k ks ih =>
    rw [List.map_cons, replaceTop_cons, replaceTop_cons, hφ.handle, ih, hF]
    split <;> simp

theorem natFor_insertLast {φ : HTree → HTree} {t : HTree} (ht : φ t = t) : NatFor φ (insertLast t) := by
  intro L; simp [insertLast, ht]

theorem natFor_insertFirstNormal {φ : HTree → HTree} (hφ : KidMap φ) {t : HTree} (ht : φ t = t) :
    NatFor φ (insertFirstNormal t) := by
  intro L
  induction L with
  | nil => simp [insertFirstNormal, ht]
  | cons k ks ih =>
    simp only [List.map_cons, insertFirstNormal, hφ.value]
    split
    · simp [ht]
    · rw [ih]; rfl

theorem natFor_insertAfterTop {φ : HTree → HTree} (hφ : KidMap φ) (r : Nat) {t : HTree} (ht : φ t = t) :
    NatFor φ (insertAfterTop r t) :=
  natFor_replaceTop hφ r (by intro k; simp [ht])

theorem natFor_insertBeforeTop {φ : HTree → HTree} (hφ : KidMap φ) (r : Nat) {t : HTree} (ht : φ t = t) :
    NatFor φ (insertBeforeTop r t) :=
  natFor_replaceTop hφ r (by intro k; simp [ht])

theorem natFor_setValTop {φ : HTree → HTree} (hφ : KidMap φ) (a : Nat) (v : Value) :
    NatFor φ (replaceTop a (fun k => [k.setValue v])) :=
  natFor_replaceTop hφ a (by intro k; simp [hφ.setValue])

theorem natFor_cutTop {φ : HTree → HTree} (hφ : KidMap φ) (a : Nat) :
    NatFor φ (replaceTop a (fun _ => [])) :=
  natFor_replaceTop hφ a (by intro k; rfl)

theorem join_map {φ : HTree → HTree} (hφ : KidMap φ) (keep : Keep) (a b : HTree) (x y : Str) :
    join keep (φ a) (φ b) x y = φ (join keep a b x y) := by
  unfold join
  rw [hφ.handle, hφ.handle]
  split <;> rw [hφ.setValue]

theorem mergeInto_map {φ : HTree → HTree} (hφ : KidMap φ) (keep : Keep) : ∀ (rest : List HTree) (cur : HTree),
    mergeInto keep (φ cur) (rest.map φ) = (mergeInto keep cur rest).map φ
  | [], cur => rfl
  | b :: rest, cur => by
    rw [List.map_cons]
    by_cases h : cur.value.isText = true ∧ b.value.isText = true
    · obtain ⟨x, hx⟩ := isText_iff_textData.1 h.1
      obtain ⟨y, hy⟩ := isText_iff_textData.1 h.2
      have hx' := textData_some hx
      have hy' := textData_some hy
      rw [mergeInto_cons_text (by rw [hφ.value]; exact hx') (by rw [hφ.value]; exact hy'),
        mergeInto_cons_text hx' hy', join_map hφ, mergeInto_map hφ keep rest]
    · have h' : ¬ ((φ cur).value.isText = true ∧ (φ b).value.isText = true) := by
        rw [hφ.value, hφ.value]; exact h
      rw [mergeInto_cons_other h', mergeInto_cons_other h, List.map_cons, mergeInto_map hφ keep rest]

theorem natFor_mergeRuns {φ : HTree → HTree} (hφ : KidMap φ) (keep : Keep) : NatFor φ (mergeRuns keep) := by
  intro L
  cases L with
  | nil => rfl
  | cons a rest => exact mergeInto_map hφ keep rest a

/-! ### Lookups in a child list -/

theorem findList?_append (x : Nat) : ∀ (A B : List HTree),
    findList? x (A ++ B) = (findList? x A).or (findList? x B)
  | [], B => by simp [findList?_nil]
  | k :: A, B => by
    rw [List.cons_append]
    cases hk : find? x k with
    | some t => rw [findList?_cons_some hk, findList?_cons_some hk]; rfl
    | none => rw [findList?_cons_none hk, findList?_cons_none hk]; exact findList?_append x A B

theorem findList?_cons (x : Nat) (k : HTree) (ks : List HTree) :
    findList? x (k :: ks) = (find? x k).or (findList? x ks) := by
  cases hk : find? x k with
  | some t => rw [findList?_cons_some hk]; rfl
  | none => rw [findList?_cons_none hk]; rfl

theorem find?_setValue {x : Nat} {k : HTree} (v : Value) (hx : k.handle ≠ x) :
    find? x (k.setValue v) = find? x k := by
  cases k with
  | node h v' ks =>
    simp only [HTree.handle] at hx
    simp only [HTree.setValue]
    rw [find?_node, find?_node, if_neg hx, if_neg hx]

/-! ### A site seen after an edit at another site -/

theorem SiteAt.other {f : Forest} {p : Nat} {v : Value} {L : List HTree} (s : SiteAt f p v L)
    {x : Nat} {vx : Value} {Lx : List HTree} (hx : f.get? x = some (.node x vx Lx)) (hne : x ≠ p)
    (g : List HTree → List HTree)
    (hsub : (handlesList (g L)).Sublist (handlesList L))
    (hlook : findList? x (g L) = findList? x L) :
    SiteAt (f.editAt (some p) g) x vx (Lx.map (HTree.editAt p g)) := by
  constructor
  · exact (s.edit g hsub).nd
  · have := Forest.get?_editAt_other (g := g) hne s.nd (by
      intro v' L' e
      rw [s.kids] at e
      have e' := Option.some.inj e
      injection e' with _ _ e3
      subst e3
      exact hlook)
    rw [this, hx]
    simp only [Option.map_some]
    rw [editAt_node, if_neg hne]

/-! ### The list of parentless trees as a site -/

theorem findList?_dropTop {x n : Nat} : ∀ L : List HTree,
    (∀ k ∈ L, k.handle = n → x ∉ handles k) → findList? x (dropTop n L) = findList? x L
  | [] => fun _ => rfl
  | k :: ks => by
    intro h
    rw [dropTop_cons]
    have ih := findList?_dropTop ks (fun k' hk' => h k' (List.mem_cons_of_mem _ hk'))
    by_cases hk : k.handle = n
    · rw [if_pos hk, ih, findList?_cons_none (find?_eq_none k (h k List.mem_cons_self hk))]
    · rw [if_neg hk, findList?_cons, findList?_cons, ih]

theorem handlesList_dropTop_sublist (n : Nat) : ∀ L : List HTree,
    (handlesList (dropTop n L)).Sublist (handlesList L)
  | [] => List.Sublist.refl _
  | k :: ks => by
    rw [dropTop_cons, handlesList_cons]
    split
    · exact (handlesList_dropTop_sublist n ks).trans (List.sublist_append_right _ _)
    · rw [handlesList_cons]
      exact (List.Sublist.refl _).append (handlesList_dropTop_sublist n ks)

/-- A site after a parentless tree `c` was dropped. -/
theorem SiteAt.dropRoot {f : Forest} {q : Nat} {v : Value} {L : List HTree} (s : SiteAt f q v L)
    {c : Nat} {t : HTree} (hc : f.get? c = some t) (hq : q ∉ handles t) :
    SiteAt (f.editAt none (dropTop c)) q v L := by
  constructor
  · exact (handlesList_dropTop_sublist c f.roots).nodup s.nd
  · show findList? q (dropTop c f.roots) = _
    rw [findList?_dropTop f.roots, ← Forest.get?_eq]
    · exact s.kids
    · intro k hk hkc
      -- the parentless tree with handle `c` is `t`
      obtain ⟨A, B, hAB⟩ := List.append_of_mem hk
      have nd := s.nd
      unfold Forest.allHandles at nd
      rw [hAB] at nd
      obtain ⟨m1, _⟩ := nodup_mid nd
      have : f.get? k.handle = some k := by
        rw [Forest.get?_eq, hAB]
        exact findList?_mid (m1 _ (fs_handle_mem_handles k))
      rw [hkc, hc] at this
      have := Option.some.inj this
      subst this
      exact hq

theorem Forest.editAt_none_comm (f : Forest) (q c : Nat) (g : List HTree → List HTree) :
    (f.editAt (some q) g).editAt none (dropTop c) = (f.editAt none (dropTop c)).editAt (some q) g := by
  simp only [Forest.editAt]
  rw [natFor_dropTop (kidMap_editAt q g) c]

end XotModel
