/-
  XotModel.Lemmas.ArenaDetach — closed forms of `SiblingsRange::new(x, x).detach_from_siblings`
  and `NodeId::detach` (as slot modifications), for any arena in which the three neighbours of
  `x` are in range and are other slots than `x`.
-/
import XotModel.Lemmas.ArenaMeta

namespace XotModel
namespace Arena

/-- `previous_sibling.take()` and `next_sibling.take()` on one slot. -/
def clearSib (s : Slot) : Slot := { s with prev := none, next := none }

/-- The three writes of `connect_neighbors`. -/
def unlink (b : Arena) (parent prev next : Option NodeId) : Arena :=
  ((b.modOpt prev (fun s => { s with next := next })).modOpt next
      (fun s => { s with prev := prev })).modOpt parent
      (fun s => { s with first := newFirst (b.parentEnds parent).1 prev next,
                         last := newLast (b.parentEnds parent).2 prev next })

theorem mod_mod_same (a : Arena) (i : Nat) (f g : Slot → Slot) : (a.mod i f).mod i g = a.mod i (g ∘ f) := by
  unfold mod
  simp [List.modify_modify_eq]

theorem detachFromSiblings_self_eq (a : Arena) (x : NodeId) (s : Slot) (hs : a.slot x.index0 = some s)
    (hp : InRange a s.parent) (hv : InRange a s.prev) (hn : InRange a s.next) :
    detachFromSiblings a x x = .done (unlink (a.mod x.index0 clearSib) s.parent s.prev s.next) () := by
  unfold detachFromSiblings
  rw [rd_some _ _ _ _ hs, wr_some _ _ _ _ _ hs]
  have hs1 : (a.mod x.index0 (fun s => { s with prev := none })).slot x.index0 = some { s with prev := none } := by
    simp [hs]
  rw [rd_some _ _ _ _ hs1, wr_some _ _ _ _ _ hs1, mod_mod_same]
  have hf : ((fun s : Slot => { s with next := none }) ∘ fun s : Slot => { s with prev := none }) = clearSib := by
    funext s; rfl
  rw [hf]
  exact connectNeighbors_eq _ _ _ _ (hp.mod _ _) (hv.mod _ _) (hn.mod _ _)

theorem slot_modOpt_ne (a : Arena) (o : Option NodeId) (f : Slot → Slot) (j : Nat)
    (h : ∀ id, o = some id → id.index0 ≠ j) : (a.modOpt o f).slot j = a.slot j := by
  cases o with
  | none => rfl
  | some id => simp [h id rfl]

theorem slot_unlink_ne (b : Arena) (parent prev next : Option NodeId) (j : Nat)
    (h1 : ∀ id, parent = some id → id.index0 ≠ j) (h2 : ∀ id, prev = some id → id.index0 ≠ j)
    (h3 : ∀ id, next = some id → id.index0 ≠ j) : (unlink b parent prev next).slot j = b.slot j := by
  unfold unlink
  rw [slot_modOpt_ne _ _ _ _ h1, slot_modOpt_ne _ _ _ _ h3, slot_modOpt_ne _ _ _ _ h2]

theorem MetaEq.unlink (b : Arena) (parent prev next : Option NodeId) : MetaEq b (unlink b parent prev next) := by
  unfold Arena.unlink
  exact (MetaEq.modOpt b prev (f := fun s => { s with next := next }) (fun s => ⟨rfl, rfl⟩)).trans
    ((MetaEq.modOpt _ next (f := fun s => { s with prev := prev }) (fun s => ⟨rfl, rfl⟩)).trans
      (MetaEq.modOpt _ parent (fun s => ⟨rfl, rfl⟩)))

theorem two_le_fuel {a : Arena} {j : Nat} {s : Slot} (h : a.slot j = some s) : 2 ≤ a.fuel := by
  have := lt_of_slot h
  unfold fuel; omega

theorem unlink_fuel (b : Arena) (parent prev next : Option NodeId) : (unlink b parent prev next).fuel = b.fuel := by
  simp [unlink]

/-- Closed form of `detach`. -/
theorem detach_eq (a : Arena) (x : NodeId) (s : Slot) (hs : a.slot x.index0 = some s)
    (hp : InRange a s.parent) (hv : InRange a s.prev) (hn : InRange a s.next)
    (h1 : ∀ id, s.parent = some id → id.index0 ≠ x.index0) (h2 : ∀ id, s.prev = some id → id.index0 ≠ x.index0)
    (h3 : ∀ id, s.next = some id → id.index0 ≠ x.index0) :
    detach a x = .done ((unlink (a.mod x.index0 clearSib) s.parent s.prev s.next).mod x.index0
      (fun s => { s with parent := none })) () := by
  unfold detach
  rw [detachFromSiblings_self_eq a x s hs hp hv hn]
  simp only [Step.bind_done]
  have hb : (a.mod x.index0 clearSib).slot x.index0 = some (clearSib s) := by simp [hs]
  have hu : (unlink (a.mod x.index0 clearSib) s.parent s.prev s.next).slot x.index0 = some (clearSib s) := by
    rw [slot_unlink_ne _ _ _ _ _ h1 h2 h3, hb]
  have hfuel : (unlink (a.mod x.index0 clearSib) s.parent s.prev s.next).fuel = a.fuel := by
    rw [unlink_fuel]; simp
  rw [hfuel]
  obtain ⟨n, hn2⟩ : ∃ n, a.fuel = n + 2 := ⟨a.fuel - 2, by have := two_le_fuel hs; omega⟩
  rw [hn2]
  unfold rewriteParents
  simp only [reduceCtorEq, if_false]
  rw [wr_some _ _ _ _ _ hu]
  have hu2 : ((unlink (a.mod x.index0 clearSib) s.parent s.prev s.next).mod x.index0
      (fun s => { s with parent := none })).slot x.index0 = some { clearSib s with parent := none } := by
    simp [hu]
  rw [rd_some _ _ _ _ hu2]
  simp only [clearSib]
  unfold rewriteParents
  rfl

end Arena
end XotModel
