/-
  C08 and parsing, part 8: the ids `html5()` stores.  For each of the five name tables,
  `HtmlNames.ids` holds exactly the ids of the four (local name, namespace id) pairs per entry —
  which, read through the tables, is the predicate `HtmlNames.idsContain` the HTML5 serializer
  model (`Model/Html5.lean`, C19) uses instead of a set of ids.
-/
import XotModel.Lemmas.IdMapHistory

namespace XotModel
open IdParse IdMap Gen

/-- The ids a sequence of calls returns are exactly the ids that stand — in any later,
    duplicate-free state of the tables — for one of the values registered. -/
theorem Env.regAll_mem_ids (e : Env) (rs : List Reg) {e' : Env} (hp : (e.regAll rs).1.PrefixOf e')
    (hd : e'.DupFree) (id : Nat) : id ∈ (e.regAll rs).2 ↔ ∃ r ∈ rs, e'.Holds r id := by
  constructor
  · intro h
    obtain ⟨i, hi, hid⟩ := List.getElem_of_mem h
    have hi' : i < rs.length := by rw [← Env.regAll_length rs e]; exact hi
    refine ⟨rs[i], List.getElem_mem hi', ?_⟩
    refine (Env.regAll_holds rs e i rs[i] id (List.getElem?_eq_getElem hi') ?_).mono hp
    rw [List.getElem?_eq_getElem hi, hid]
  · rintro ⟨r, hr, hh⟩
    obtain ⟨i, hi, rfl⟩ := List.getElem_of_mem hr
    have hi' : i < (e.regAll rs).2.length := by rw [Env.regAll_length rs e]; exact hi
    have h1 := (Env.regAll_holds rs e i rs[i] _ (List.getElem?_eq_getElem hi)
      (List.getElem?_eq_getElem hi')).mono hp
    rw [hh.id_eq hd h1]
    exact List.getElem_mem hi'

/-- Table by table. -/
theorem Interner.html5Names_ids (xh : Nat) (tables : List (List Str)) : ∀ (x : Interner), x.Inv →
    ∀ (e' : Env), (x.html5Names xh tables).1.env.PrefixOf e' → e'.Cap → e'.DupFree →
    ∀ (j : Nat) (L : List Str) (ids : List Nat), tables[j]? = some L → (x.html5Names xh tables).2[j]? = some ids →
    ∀ id, id ∈ ids ↔ ∃ r ∈ htmlNamesRegs x.noNamespaceId xh L, e'.Holds r id := by
  induction tables with
  | nil => intro x _ e' _ _ _ j L ids hL; simp at hL
  | cons t ts ih =>
    intro x hinv e' hp hc hd j L ids hL hids
    have hinv1 := Interner.regAll_inv (htmlNamesRegs x.noNamespaceId xh t) hinv
    have hmono : (x.regAll (htmlNamesRegs x.noNamespaceId xh t)).1.env.PrefixOf
        ((x.regAll (htmlNamesRegs x.noNamespaceId xh t)).1.html5Names xh ts).1.env := by
      rw [(Interner.html5Names_eq xh ts _).1]
      exact (Interner.regAll_mono _ _).prefixOf
    cases j with
    | zero =>
      simp only [Interner.html5Names, List.getElem?_cons_zero, Option.some.injEq] at hL hids
      subst hL
      have hp1 : (x.regAll (htmlNamesRegs x.noNamespaceId xh t)).1.env.PrefixOf e' := hmono.trans hp
      have hcap : (x.env.regAll (htmlNamesRegs x.noNamespaceId xh t)).1.Cap := by
        rw [← Interner.regAll_env _ hinv]; exact Env.Cap.of_prefix hp1 hc
      rw [← hids, Interner.regAll_ids _ hinv hcap]
      rw [Interner.regAll_env _ hinv] at hp1
      exact Env.regAll_mem_ids x.env _ hp1 hd
    | succ j =>
      simp only [Interner.html5Names, List.getElem?_cons_succ] at hL hids
      have := ih _ hinv1 e' hp hc hd j L ids hL hids
      rw [(Interner.regAll_consts _ x).1] at this
      exact this

/-- `html5()`: the `ids` of table `j` (in the order `html5_names`, `void_names`,
    `phrasing_content_names`, `formatted_names`, `no_escape_names`) are exactly the ids that stand —
    in the tables `html5()` leaves, or any later ones — for `(n, no namespace)`, `(N, no namespace)`,
    `(n, xhtml)`, `(N, xhtml)` with `n` an entry of the table and `N` its upper-casing. -/
theorem Interner.html5_ids {x : Interner} (h : x.Inv) {e' : Env} (hp : x.html5.1.env.PrefixOf e')
    (hc : e'.Cap) (hd : e'.DupFree) {j : Nat} {L : List Str} {ids : List Nat}
    (hL : html5Tables[j]? = some L) (hids : x.html5.2.ids[j]? = some ids) (id : Nat) :
    id ∈ ids ↔ ∃ r ∈ htmlNamesRegs x.noNamespaceId x.html5.2.xhtml L, e'.Holds r id := by
  have h3 : (((x.addNamespace xhtmlNs).1.addNamespace mathmlNs).1.addNamespace svgNs).1.Inv :=
    Interner.inv_addNamespace (Interner.inv_addNamespace (Interner.inv_addNamespace h _) _) _
  revert hp hids
  unfold Interner.html5
  generalize html5Tables = T at hL ⊢
  intro hp hids
  exact Interner.html5Names_ids (x.addNamespace xhtmlNs).2 T _ h3 e' hp hc hd j L ids hL hids id

/-- The three namespace ids `html5()` keeps are found under their URIs afterwards. -/
theorem Interner.html5_namespaces {x : Interner} (h : x.Inv) :
    x.html5.1.namespace xhtmlNs = some x.html5.2.xhtml ∧
    x.html5.1.namespace mathmlNs = some x.html5.2.mathml ∧
    x.html5.1.namespace svgNs = some x.html5.2.svg := by
  unfold Interner.html5
  generalize html5Tables = T
  have i1 := Interner.inv_addNamespace h xhtmlNs
  have i2 := Interner.inv_addNamespace i1 mathmlNs
  have m3 : (((x.addNamespace xhtmlNs).1.addNamespace mathmlNs).1.addNamespace svgNs).1.Mono
      ((((x.addNamespace xhtmlNs).1.addNamespace mathmlNs).1.addNamespace svgNs).1.html5Names
        (x.addNamespace xhtmlNs).2 T).1 := by
    rw [(Interner.html5Names_eq _ _ _).1]; exact Interner.regAll_mono _ _
  have m2 := (Interner.reg_mono ((x.addNamespace xhtmlNs).1.addNamespace mathmlNs).1 (.ns svgNs)).trans m3
  have m1 := (Interner.reg_mono (x.addNamespace xhtmlNs).1 (.ns mathmlNs)).trans m2
  exact ⟨m1.nsId _ _ (IdMap.getId_getIdMut_self h.ns xhtmlNs),
    m2.nsId _ _ (IdMap.getId_getIdMut_self i1.ns mathmlNs),
    m3.nsId _ _ (IdMap.getId_getIdMut_self i2.ns svgNs)⟩

/-! ### … which is `HtmlNames.idsContain` -/

theorem Env.holds_name_iff (e : Env) (l : Str) (n id : Nat) :
    e.Holds (.name l n) id ↔ id < e.names.length ∧ e.localName id = l ∧ e.nsOfName id = n := by
  simp only [Env.Holds, Env.localName, Env.nsOfName]
  constructor
  · intro h
    have hlt : id < e.names.length := by
      rcases Nat.lt_or_ge id e.names.length with h' | h'
      · exact h'
      · rw [List.getElem?_eq_none h'] at h; cases h
    rw [List.getElem?_eq_getElem hlt, Option.some.injEq] at h
    simp [List.getD_eq_getElem?_getD, hlt, h]
  · rintro ⟨hlt, h1, h2⟩
    rw [List.getD_eq_getElem?_getD, List.getElem?_eq_getElem hlt] at h1 h2
    rw [List.getElem?_eq_getElem hlt]
    simp only [Option.getD_some] at h1 h2
    rw [← h1, ← h2]

/-- The four registrations per entry, read back through the tables, are the membership test the
    serializer model makes. -/
theorem htmlNamesRegs_idsContain (e : Env) (xh : Nat) (L : List Str) (id : Nat) (hlt : id < e.names.length) :
    (∃ r ∈ htmlNamesRegs Env.noNamespace xh L, e.Holds r id) ↔ (HtmlNames.mk xh L).idsContain e id = true := by
  simp only [htmlNamesRegs, List.mem_flatMap, List.mem_cons, List.not_mem_nil, or_false,
    HtmlNames.idsContain, Bool.and_eq_true, Bool.or_eq_true, beq_iff_eq, List.contains_iff_mem, List.mem_map]
  constructor
  · rintro ⟨r, ⟨n, hn, hr⟩, hh⟩
    rcases hr with rfl | rfl | rfl | rfl <;> rw [Env.holds_name_iff] at hh <;> obtain ⟨_, h1, h2⟩ := hh
    · exact ⟨Or.inl h2, Or.inl (h1 ▸ hn)⟩
    · exact ⟨Or.inl h2, Or.inr ⟨n, hn, h1.symm⟩⟩
    · exact ⟨Or.inr h2, Or.inl (h1 ▸ hn)⟩
    · exact ⟨Or.inr h2, Or.inr ⟨n, hn, h1.symm⟩⟩
  · rintro ⟨hns, hl⟩
    rcases hns with hns | hns <;> rcases hl with hl | ⟨n, hn, hl⟩
    · exact ⟨_, ⟨_, hl, Or.inl rfl⟩, (Env.holds_name_iff _ _ _ _).2 ⟨hlt, rfl, hns⟩⟩
    · exact ⟨_, ⟨n, hn, Or.inr (Or.inl rfl)⟩, (Env.holds_name_iff _ _ _ _).2 ⟨hlt, hl.symm, hns⟩⟩
    · exact ⟨_, ⟨_, hl, Or.inr (Or.inr (Or.inl rfl))⟩, (Env.holds_name_iff _ _ _ _).2 ⟨hlt, rfl, hns⟩⟩
    · exact ⟨_, ⟨n, hn, Or.inr (Or.inr (Or.inr rfl))⟩, (Env.holds_name_iff _ _ _ _).2 ⟨hlt, hl.symm, hns⟩⟩

end XotModel
