/-
  Lemmas for C11 with the nodes that carry the entries, part 3: `next`, the handle the next node
  creation hands out, exactly — for the primitives and for every model function behind a
  `MapCall`.  Only `newNode` moves it (all forests, all arguments).
-/
import XotModel.Lemmas.FmapNodesHist

namespace XotModel
namespace Fmap
open HTree
open Forest (MapKind entryKey mapChildren MapEntry)

/-! ### Primitives -/

theorem nx_setValue (f : Forest) (h : Nat) (v : Value) : (f.setValue h v).next = f.next := rfl

theorem nx_cut (f : Forest) (b : Nat) : (f.cut b).1.next = f.next := by
  unfold Forest.cut
  cases f.get? b with
  | none => rfl
  | some t => simp only; split <;> rfl

theorem nx_dropSubtree (f : Forest) (h : Nat) : (f.dropSubtree h).next = f.next := nx_cut f h

theorem nx_detachRaw (f : Forest) (h : Nat) : (f.detachRaw h).next = f.next := by
  unfold Forest.detachRaw
  have := nx_cut f h
  cases hc : f.cut h with
  | mk f' o =>
    rw [hc] at this
    cases o <;> exact this

theorem nx_spliceOut (f : Forest) (h : Nat) : (f.spliceOut h).next = f.next := by
  unfold Forest.spliceOut
  cases f.get? h with
  | none => rfl
  | some t =>
    simp only
    split
    · split <;> rfl
    · rfl

theorem nx_removeConsolidate (f : Forest) (prev next : Option Nat) :
    (f.removeConsolidate prev next).1.next = f.next := by
  unfold Forest.removeConsolidate
  split
  · rfl
  · split
    · rename_i p n
      cases f.textOf p with
      | none => rfl
      | some ps =>
        cases f.textOf n with
        | none => rfl
        | some ns => exact nx_spliceOut _ n
    · rfl

theorem nx_detach (f : Forest) (node : Nat) : (f.detach node).1.next = f.next :=
  (nx_removeConsolidate _ _ _).trans (nx_detachRaw f node)

theorem nx_remove (f : Forest) (node : Nat) : (f.remove node).1.next = f.next :=
  (nx_removeConsolidate _ _ _).trans (nx_dropSubtree f node)

theorem nx_foldl_remove {α : Type} (g : α → Nat) (xs : List α) (f : Forest) :
    (xs.foldl (fun acc c => (acc.remove (g c)).1) f).next = f.next := by
  induction xs generalizing f with
  | nil => rfl
  | cons x xs ih => exact (ih _).trans (nx_remove f (g x))

theorem nx_checkedInsertAfter (f : Forest) (a b : Nat) :
    (f.checkedInsertAfter a b).1.next = f.next := by
  unfold Forest.checkedInsertAfter
  split
  · rfl
  · split
    · rfl
    · have h := nx_cut f b
      cases hcut : f.cut b with
      | mk f' o =>
        rw [hcut] at h
        cases o <;> exact h

theorem nx_checkedPrepend (f : Forest) (a b : Nat) : (f.checkedPrepend a b).1.next = f.next := by
  unfold Forest.checkedPrepend
  split
  · rfl
  · have h := nx_cut f b
    cases hcut : f.cut b with
    | mk f' o =>
      rw [hcut] at h
      cases o <;> exact h

theorem nx_mapPlace (f : Forest) (k : MapKind) (parent node : Nat) :
    (f.mapPlace k parent node).1.next = f.next := by
  unfold Forest.mapPlace
  cases f.mapInsertionPoint k parent with
  | some ip =>
    simp only
    have n1 := nx_checkedInsertAfter f ip node
    generalize f.checkedInsertAfter ip node = ca at n1 ⊢
    obtain ⟨f', b'⟩ := ca
    cases b' <;> exact n1
  | none =>
    simp only
    have n1 := nx_checkedPrepend f parent node
    generalize f.checkedPrepend parent node = ca at n1 ⊢
    obtain ⟨f', b'⟩ := ca
    cases b' <;> exact n1

/-! ### The map calls -/

/-- `insert` makes a node exactly when it is addressed to an element that lacks the key. -/
theorem nx_mapInsert (f : Forest) (k : MapKind) (e : Nat) (v : Value) :
    (f.mapInsert k e v).1.next =
      f.next + (if f.isElement e && (f.mapGetNode k e (entryKey v)).isNone then 1 else 0) := by
  unfold Forest.mapInsert
  cases he : f.isElement e with
  | false => simp
  | true =>
    simp only [Bool.not_true, Bool.false_eq_true, if_false, Bool.true_and]
    cases f.mapGetNode k e (entryKey v) with
    | some n => simp [nx_setValue]
    | none =>
      simp only [Option.isNone_none, if_true]
      exact nx_mapPlace _ k e _

theorem nx_mapInsertNode (f : Forest) (k : MapKind) (parent node : Nat) :
    (f.mapInsertNode k parent node).1.next = f.next := by
  unfold Forest.mapInsertNode
  cases f.value? node with
  | none => rfl
  | some v =>
    simp only
    split
    · rfl
    · cases f.mapGetNode k parent (entryKey v) with
      | some e => rfl
      | none => exact nx_mapPlace f k parent node

theorem nx_mapRemove (f : Forest) (k : MapKind) (parent key : Nat) :
    (f.mapRemove k parent key).1.next = f.next := by
  unfold Forest.mapRemove
  split
  · rfl
  · cases f.mapGetNode k parent key with
    | some n => exact nx_remove f _
    | none => rfl

theorem nx_mapClear (f : Forest) (k : MapKind) (parent : Nat) :
    (f.mapClear k parent).1.next = f.next := by
  unfold Forest.mapClear
  split
  · rfl
  · cases f.get? parent with
    | none => rfl
    | some t => exact nx_foldl_remove (fun c : HTree => c.handle) _ f

theorem nx_appendEntryNode (f : Forest) (k : MapKind) (parent child : Nat) :
    (f.appendEntryNode k parent child).1.next = f.next := by
  unfold Forest.appendEntryNode
  split
  · rfl
  · cases f.value? child with
    | none => rfl
    | some v =>
      simp only
      split
      · rfl
      · exact nx_mapInsertNode f k parent child

theorem nx_mapGetMutSet (f : Forest) (k : MapKind) (e key : Nat) (new : Value) :
    (f.mapGetMutSet k e key new).1.next = f.next := by
  unfold Forest.mapGetMutSet
  split
  · rfl
  · cases f.mapGetNode k e key <;> rfl

theorem nx_entryAndModify (f : Forest) (k : MapKind) (e key : Nat) (g : Value → Value) :
    (f.entryAndModify k e key g).1.next = f.next := by
  unfold Forest.entryAndModify
  split
  · rfl
  · cases f.mapEntry k e key with
    | occupied key' => simp only; cases f.mapGetNode k e key' <;> rfl
    | vacant key' => rfl

theorem nx_entryRemove (f : Forest) (k : MapKind) (e key : Nat) :
    (f.entryRemove k e key).1.next = f.next := by
  unfold Forest.entryRemove
  split
  · rfl
  · cases f.mapEntry k e key with
    | occupied key' => simp only; rw [occRemove_fst]; exact nx_mapRemove f k e key'
    | vacant key' => rfl

/-- The number of nodes `insert` makes, in terms of the view. -/
theorem nx_mapInsert_abs (f : Forest) (k : MapKind) (e : Nat) (v : Value)
    (he : f.isElement e = true) :
    (f.mapInsert k e v).1.next =
      f.next + (if omContainsKey (abs k f e) (entryKey v) then 0 else 1) := by
  rw [nx_mapInsert, he, ← containsKey_eq]
  cases f.mapGetNode k e (entryKey v) <;> rfl

/-- `f` or the forest after `insert`, when the key is there resp. absent. -/
theorem nx_ite_insert (f : Forest) (k : MapKind) (e : Nat) (v : Value) (he : f.isElement e = true) :
    (if omContainsKey (abs k f e) (entryKey v) then f else (f.mapInsert k e v).1).next =
      f.next + (if omContainsKey (abs k f e) (entryKey v) then 0 else 1) := by
  cases hc : omContainsKey (abs k f e) (entryKey v) with
  | true => rfl
  | false =>
    simp only [Bool.false_eq_true, if_false]
    rw [nx_mapInsert_abs f k e v he, hc]
    rfl

end Fmap
end XotModel
