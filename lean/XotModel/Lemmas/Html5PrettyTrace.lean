/-
  The `Pretty` stack along the HTML run (`prettifyHtml`): before every event of `genOutputs` the
  stack consists of the entries of the open elements (those with children) between the start node
  and the event's node — `hpentriesAbove` / `hpentriesIncl`, explicit functions of the tree.
  Same traversal argument as Lemmas/PrettyTrace (XML), with the HTML closures: an element is
  `Mixed` when it has a text or inline-element child, is formatted, or matches the suppress list.
-/
import XotModel.Model.Html5
import XotModel.Lemmas.PrettyTrace

namespace XotModel

variable (c : HtmlCtx) (sup : List Nat) (t : Tree)

/-- The stack after `prettify` of one event. -/
def hstep (ps : PStack) (po : Path × Output) : PStack := (prettifyHtmlAt c sup t ps po.1 po.2).1

/-- The stack after a list of events. -/
def hrun : PStack → List (Path × Output) → PStack
  | ps, [] => ps
  | ps, po :: rest => hrun (hstep c sup t ps po) rest

/-- The stack held before each event. -/
def htrace : PStack → List (Path × Output) → List (PStack × Path × Output)
  | _, [] => []
  | ps, po :: rest => (ps, po.1, po.2) :: htrace (hstep c sup t ps po) rest

theorem hrun_append (ps : PStack) (a b : List (Path × Output)) :
    hrun c sup t ps (a ++ b) = hrun c sup t (hrun c sup t ps a) b := by
  induction a generalizing ps with
  | nil => rfl
  | cons po a ih => simp only [List.cons_append, hrun]; exact ih _

theorem mem_htrace_append (ps : PStack) (a b : List (Path × Output)) (x : PStack × Path × Output) :
    x ∈ htrace c sup t ps (a ++ b) ↔ x ∈ htrace c sup t ps a ∨ x ∈ htrace c sup t (hrun c sup t ps a) b := by
  induction a generalizing ps with
  | nil => simp [htrace, hrun]
  | cons po a ih => simp only [List.cons_append, htrace, hrun, List.mem_cons, ih, or_assoc]

theorem hstep_neutral (ps : PStack) (p : Path) (o : Output) (ho : o.isPrettyNeutral = true) :
    hstep c sup t ps (p, o) = ps := by
  unfold hstep prettifyHtmlAt
  cases t.at? p with
  | none => rfl
  | some node => cases o <;> simp [Output.isPrettyNeutral] at ho <;> rfl

/-- The entry `StartTagClose` pushes for an element with children (HTML closures): `Mixed` for a
    text or inline-element child, a formatted element or a suppressed name. -/
def hentryFor (node : Tree) : StackEntry :=
  if htmlHasInlineChild c node then .mixed
  else if (match node.value with
           | .element name => htmlIsSuppressed c sup name
           | _ => false) then .mixed
  else .unmixed (elementSpace node)

/-- What an open node has on the stack: elements with children one entry, anything else nothing. -/
def hopenEntryOf (node : Tree) : PStack :=
  match node.value with
  | .element _ => if node.firstChild?.isSome then [hentryFor c sup node] else []
  | _ => []

theorem hstep_close (ps : PStack) (p : Path) (name : Nat) (ks : List Tree)
    (hn : t.at? p = some (.node (.element name) ks)) :
    hstep c sup t ps (p, .startTagClose) = hopenEntryOf c sup (.node (.element name) ks) ++ ps := by
  unfold hstep prettifyHtmlAt
  simp only [hn, prettifyHtml, hopenEntryOf, hentryFor, Tree.value]
  by_cases hc : (Tree.node (.element name) ks).firstChild?.isSome = true
  · simp only [hc, if_true]
    by_cases hi : htmlHasInlineChild c (.node (.element name) ks) = true
    · simp [hi]
    · by_cases hsup : htmlIsSuppressed c sup name = true
      · simp [hi, hsup]
      · simp [hi, hsup]
  · simp [hc]

theorem hstep_end (ps : PStack) (p : Path) (name : Nat) (ks : List Tree)
    (hn : t.at? p = some (.node (.element name) ks)) :
    hstep c sup t (hopenEntryOf c sup (.node (.element name) ks) ++ ps) (p, .endTag name) = ps := by
  unfold hstep prettifyHtmlAt
  simp only [hn, prettifyHtml, hopenEntryOf, Tree.value]
  by_cases hc : (Tree.node (.element name) ks).firstChild?.isSome = true
  · simp [hc]
  · simp [hc]

theorem neutral_hrun (ps : PStack) (evs : List (Path × Output))
    (hall : ∀ po ∈ evs, po.2.isPrettyNeutral = true) :
    (∀ x ∈ htrace c sup t ps evs, x.1 = ps ∧ (x.2.1, x.2.2) ∈ evs) ∧ hrun c sup t ps evs = ps := by
  induction evs with
  | nil => simp [htrace, hrun]
  | cons po evs ih =>
    obtain ⟨ih1, ih2⟩ := ih (fun q hq => hall q (by simp [hq]))
    have hpo : hstep c sup t ps po = ps := hstep_neutral c sup t ps po.1 po.2 (hall po (by simp))
    simp only [htrace, hrun, hpo, List.mem_cons]
    refine ⟨?_, ih2⟩
    rintro x (rfl | hx)
    · simp
    · exact ⟨(ih1 x hx).1, Or.inr (ih1 x hx).2⟩

/-! ### Entries of the open elements -/

/-- Entries of the nodes from `n` down to the parent of the node at `rel`, innermost first. -/
def hpentriesAbove : Tree → Path → PStack
  | _, [] => []
  | n, i :: rel =>
    match n.kids[i]? with
    | some k => hpentriesAbove k rel ++ hopenEntryOf c sup n
    | none => []

/-- … down to the node at `rel` itself. -/
def hpentriesIncl : Tree → Path → PStack
  | n, [] => hopenEntryOf c sup n
  | n, i :: rel =>
    match n.kids[i]? with
    | some k => hpentriesIncl k rel ++ hopenEntryOf c sup n
    | none => hopenEntryOf c sup n

/-- The stack an event of the node at `rel` sees: the end tag is handled with the element's own
    entry still on the stack. -/
def hpentriesFor (o : Output) (n : Tree) (rel : Path) : PStack :=
  match o with
  | .endTag _ => hpentriesIncl c sup n rel
  | _ => hpentriesAbove c sup n rel

theorem hpentriesFor_cons (o : Output) (v : Value) (ks : List Tree) (j : Nat) (k : Tree) (rel : Path)
    (hk : ks[j]? = some k) :
    hpentriesFor c sup o (.node v ks) (j :: rel) = hpentriesFor c sup o k rel ++ hopenEntryOf c sup (.node v ks) := by
  cases o <;> simp [hpentriesFor, hpentriesAbove, hpentriesIncl, Tree.kids, hk]

/-- The claim about one trace entry, relative to node `n` at `path` entered with stack `ps`. -/
def HEntryOk (path : Path) (n : Tree) (ps : PStack) (x : PStack × Path × Output) : Prop :=
  ∃ rel, x.2.1 = path ++ rel ∧ x.1 = hpentriesFor c sup x.2.2 n rel ++ ps

mutual
theorem genNode_htrace (inScope : List (Nat × Nat)) (isTop : Bool) (path : Path) (n : Tree)
    (hat : t.at? path = some n) (ps : PStack) :
    (∀ x ∈ htrace c sup t ps (genNode inScope isTop path n), HEntryOk c sup path n ps x) ∧
    hrun c sup t ps (genNode inScope isTop path n) = ps := by
  cases n with
  | node v ks =>
    have hkat : ∀ (j : Nat) (k : Tree), ks[j]? = some k → t.at? (path ++ [0 + j]) = some k := by
      intro j k hk
      rw [at?_append, hat]
      simp only [Nat.zero_add]
      rw [at?_cons, hk]
      rfl
    have kidsPart : ∀ ps1, ps1 = hopenEntryOf c sup (.node v ks) ++ ps →
        (∀ x ∈ htrace c sup t ps1 (genNode.genKids inScope path 0 ks), HEntryOk c sup path (.node v ks) ps x) ∧
        hrun c sup t ps1 (genNode.genKids inScope path 0 ks) = ps1 := by
      intro ps1 h1
      obtain ⟨k1, k2⟩ := genKids_htrace inScope path 0 ks hkat ps1
      refine ⟨fun x hx => ?_, k2⟩
      obtain ⟨j, k, rel, hk, hp, hs⟩ := k1 x hx
      refine ⟨j :: rel, by simpa using hp, ?_⟩
      rw [hpentriesFor_cons c sup _ v ks j k rel hk, hs, h1, List.append_assoc]
    have leaf : ∀ (o : Output), o.isPrettyNeutral = true → hopenEntryOf c sup (.node v ks) = [] →
        (∀ x ∈ htrace c sup t ps ((path, o) :: genNode.genKids inScope path 0 ks),
            HEntryOk c sup path (.node v ks) ps x) ∧
        hrun c sup t ps ((path, o) :: genNode.genKids inScope path 0 ks) = ps := by
      intro o ho he
      obtain ⟨k1, k2⟩ := kidsPart ps (by simp [he])
      have hstep := hstep_neutral c sup t ps path o ho
      simp only [htrace, hrun, hstep, List.mem_cons]
      refine ⟨?_, k2⟩
      rintro x (rfl | hx)
      · exact ⟨[], by simp, by cases o <;> simp [hpentriesFor, hpentriesAbove, Output.isPrettyNeutral] at ho ⊢⟩
      · exact k1 x hx
    cases v with
    | element name =>
      rw [genNode_element_psplit]
      obtain ⟨n1, n2⟩ := neutral_hrun c sup t ps _
        (fun po hpo => (preCloseEvents_neutral inScope isTop path (.node (.element name) ks) po hpo).1)
      have hclose := hstep_close c sup t ps path name ks hat
      obtain ⟨k1, k2⟩ := kidsPart (hopenEntryOf c sup (.node (.element name) ks) ++ ps) rfl
      constructor
      · intro x hx
        rcases (mem_htrace_append c sup t ps _ _ x).mp hx with hx | hx
        · obtain ⟨e1, e2⟩ := n1 x hx
          obtain ⟨e3, e4⟩ := preCloseEvents_neutral inScope isTop path _ _ e2
          obtain ⟨xs, xp, xo⟩ := x
          simp only at e1 e3 e4
          subst e1; subst e4
          exact ⟨[], by simp, by cases xo <;> simp [hpentriesFor, hpentriesAbove, Output.isPrettyNeutral] at e3 ⊢⟩
        · rw [n2] at hx
          simp only [htrace, List.mem_cons, hclose] at hx
          rcases hx with rfl | hx
          · exact ⟨[], by simp, by simp [hpentriesFor, hpentriesAbove]⟩
          · rcases (mem_htrace_append c sup t _ _ _ x).mp hx with hx | hx
            · exact k1 x hx
            · rw [k2] at hx
              simp only [htrace, List.mem_cons, List.not_mem_nil, or_false] at hx
              subst hx
              exact ⟨[], by simp, by simp [hpentriesFor, hpentriesIncl]⟩
      · rw [hrun_append, n2]
        simp only [hrun, hclose]
        rw [hrun_append, k2]
        simp only [hrun]
        exact hstep_end c sup t ps path name ks hat
    | document => rw [genNode_document]; exact kidsPart ps (by simp [hopenEntryOf, Tree.value])
    | «attribute» a val => rw [genNode_attribute]; exact kidsPart ps (by simp [hopenEntryOf, Tree.value])
    | «namespace» p ns => rw [genNode_namespace]; exact kidsPart ps (by simp [hopenEntryOf, Tree.value])
    | text x => rw [genNode_text]; exact leaf _ rfl (by simp [hopenEntryOf, Tree.value])
    | comment x => rw [genNode_comment]; exact leaf _ rfl (by simp [hopenEntryOf, Tree.value])
    | pi tg d => rw [genNode_pi]; exact leaf _ rfl (by simp [hopenEntryOf, Tree.value])

theorem genKids_htrace (inScope : List (Nat × Nat)) (path : Path) (i : Nat) (ks : List Tree)
    (hat : ∀ (j : Nat) (k : Tree), ks[j]? = some k → t.at? (path ++ [i + j]) = some k) (ps : PStack) :
    (∀ x ∈ htrace c sup t ps (genNode.genKids inScope path i ks),
        ∃ (j : Nat) (k : Tree) (rel : Path), ks[j]? = some k ∧ x.2.1 = path ++ (i + j) :: rel ∧
          x.1 = hpentriesFor c sup x.2.2 k rel ++ ps) ∧
    hrun c sup t ps (genNode.genKids inScope path i ks) = ps := by
  cases ks with
  | nil => simp [genNode.genKids, htrace, hrun]
  | cons k ks' =>
    simp only [genNode.genKids]
    obtain ⟨a1, a2⟩ := genNode_htrace inScope false (path ++ [i]) k (by simpa using hat 0 k rfl) ps
    obtain ⟨b1, b2⟩ := genKids_htrace inScope path (i + 1) ks'
      (fun j k' hk => by
        have := hat (j + 1) k' (by simpa using hk)
        rwa [show i + (j + 1) = i + 1 + j by omega] at this) ps
    constructor
    · intro x hx
      rcases (mem_htrace_append c sup t ps _ _ x).mp hx with hx1 | hx1
      · obtain ⟨rel, hp, hs⟩ := a1 x hx1
        exact ⟨0, k, rel, rfl, by simp [hp], hs⟩
      · rw [a2] at hx1
        obtain ⟨j, k', rel, hk, hp, hs⟩ := b1 x hx1
        exact ⟨j + 1, k', rel, by simpa using hk, by rw [hp]; simp; omega, hs⟩
    · rw [hrun_append, a2, b2]
end

/-- From the start node: the `Pretty` stack starts empty. -/
theorem genOutputs_htrace (start : Path) (n : Tree) (inScope : List (Nat × Nat))
    (hat : t.at? start = some n) (hs : namespacesInScope t start = some inScope)
    (x : PStack × Path × Output) (hx : x ∈ htrace c sup t [] (genOutputs t start)) :
    ∃ rel, x.2.1 = start ++ rel ∧ x.1 = hpentriesFor c sup x.2.2 n rel := by
  have hg : genOutputs t start = genNode inScope true start n := by simp [genOutputs, hat, hs]
  rw [hg] at hx
  obtain ⟨rel, h1, h2⟩ := (genNode_htrace c sup t inScope true start n hat []).1 x hx
  exact ⟨rel, h1, by simpa using h2⟩

theorem mem_hopenEntryOf {a : Tree} {e : StackEntry} (h : e ∈ hopenEntryOf c sup a) :
    (∃ name, a.value = .element name) ∧ a.firstChild?.isSome = true ∧ e = hentryFor c sup a := by
  unfold hopenEntryOf at h
  cases hv : a.value <;> simp [hv] at h
  rename_i name
  exact ⟨⟨name, rfl⟩, h.1, h.2⟩

theorem mem_hpentriesAbove (n : Tree) (rel : Path) (node : Tree) (hat : n.at? rel = some node)
    (e : StackEntry) (h : e ∈ hpentriesAbove c sup n rel) :
    ∃ a, OpenAbove n rel a ∧ e ∈ hopenEntryOf c sup a := by
  induction rel generalizing n with
  | nil => simp [hpentriesAbove] at h
  | cons i rel ih =>
    cases n with
    | node v ks =>
      rw [at?_cons] at hat
      cases hk : ks[i]? with
      | none => simp [hk] at hat
      | some k =>
        simp only [hk, Option.bind_some] at hat
        simp only [hpentriesAbove, Tree.kids, hk, List.mem_append] at h
        rcases h with h | h
        · obtain ⟨a, ⟨r1, r2, hr, hne, _, ha⟩, he⟩ := ih k hat h
          refine ⟨a, ⟨i :: r1, r2, by simp [hr], hne, ⟨node, by rw [at?_cons, hk]; exact hat⟩, ?_⟩, he⟩
          rw [at?_cons, hk]; exact ha
        · exact ⟨.node v ks, ⟨[], i :: rel, rfl, by simp, ⟨node, by rw [at?_cons, hk]; exact hat⟩, rfl⟩, h⟩

theorem hentryFor_mixed_iff (a : Tree) (name : Nat) (hv : a.value = .element name) :
    hentryFor c sup a = .mixed ↔ (htmlHasInlineChild c a = true ∨ htmlIsSuppressed c sup name = true) := by
  unfold hentryFor
  rw [hv]
  by_cases h1 : htmlHasInlineChild c a = true
  · simp [h1]
  · by_cases h2 : htmlIsSuppressed c sup name = true
    · simp [h1, h2]
    · simp [h1, h2]

theorem openAbove_hentry (n : Tree) (rel : Path) (a : Tree) (h : OpenAbove n rel a) :
    ∀ e ∈ hopenEntryOf c sup a, e ∈ hpentriesAbove c sup n rel := by
  obtain ⟨rel1, rel2, hr, hne, ⟨node, hnode⟩, ha⟩ := h
  subst hr
  induction rel1 generalizing n with
  | nil =>
    simp only [Tree.at?, Option.some.injEq] at ha
    subst ha
    cases rel2 with
    | nil => exact absurd rfl hne
    | cons i rel' =>
      cases n with
      | node v ks =>
        simp only [List.nil_append] at hnode ⊢
        rw [at?_cons] at hnode
        cases hk : ks[i]? with
        | none => simp [hk] at hnode
        | some k =>
          intro e he
          simp [hpentriesAbove, Tree.kids, hk, he]
  | cons i r1 ih =>
    cases n with
    | node v ks =>
      simp only [List.cons_append] at hnode ⊢
      rw [at?_cons] at hnode ha
      cases hk : ks[i]? with
      | none => simp [hk] at ha
      | some k =>
        simp only [hk, Option.bind_some] at hnode ha
        intro e he
        simp only [hpentriesAbove, Tree.kids, hk, List.mem_append]
        exact Or.inl (ih k ha hnode e he)

theorem hpentriesIncl_eq (n : Tree) (rel : Path) (node : Tree) (h : n.at? rel = some node) :
    hpentriesIncl c sup n rel = hopenEntryOf c sup node ++ hpentriesAbove c sup n rel := by
  induction rel generalizing n with
  | nil =>
    simp only [Tree.at?, Option.some.injEq] at h
    subst h
    simp [hpentriesIncl, hpentriesAbove]
  | cons i rel ih =>
    cases n with
    | node v ks =>
      rw [at?_cons] at h
      cases hk : ks[i]? with
      | none => simp [hk] at h
      | some k =>
        simp only [hk, Option.bind_some] at h
        simp [hpentriesIncl, hpentriesAbove, Tree.kids, hk, ih k h]


end XotModel
