/-
  Forest-level lemmas for C20: a forest with pairwise distinct handles in which the node to be
  moved (`tc`) is a root.  Lookup, context, ancestors and `cut` of that root, and of any handle
  that lives in the other trees.
-/
import XotModel.Lemmas.FfixedSubtrees
import XotModel.Model.Fixed

namespace XotModel
open HTree

/-- `tc` is a root of `f` (between the roots `X` and `Y`) and all handles are distinct. -/
structure RootAt (f : Forest) (X : List HTree) (tc : HTree) (Y : List HTree) : Prop where
  roots : f.roots = X ++ tc :: Y
  nodup : (handlesList f.roots).Nodup

namespace RootAt
variable {f : Forest} {X Y : List HTree} {tc : HTree}

theorem handles_split (h : RootAt f X tc Y) :
    handlesList f.roots = handlesList X ++ (handles tc ++ handlesList Y) := by
  rw [h.roots, handlesList_append_ff]; simp [handlesList]

theorem nodup' (h : RootAt f X tc Y) : (handlesList X ++ (handles tc ++ handlesList Y)).Nodup := by
  rw [← h.handles_split]; exact h.nodup

theorem not_mem_X (h : RootAt f X tc Y) : ∀ x ∈ handles tc, x ∉ handlesList X := by
  intro x hx hX
  have := (List.nodup_append.1 h.nodup').2.2 x hX x (List.mem_append_left _ hx)
  exact this rfl

theorem not_mem_Y (h : RootAt f X tc Y) : ∀ x ∈ handles tc, x ∉ handlesList Y := by
  intro x hx hY
  have h2 := (List.nodup_append.1 h.nodup').2.1
  exact (List.nodup_append.1 h2).2.2 x hx x hY rfl

theorem not_mem_rest (h : RootAt f X tc Y) : ∀ x ∈ handles tc, x ∉ handlesList (X ++ Y) := by
  intro x hx
  rw [handlesList_append_ff, List.mem_append, not_or]
  exact ⟨h.not_mem_X x hx, h.not_mem_Y x hx⟩

theorem nodup_tc (h : RootAt f X tc Y) : (handles tc).Nodup :=
  (List.nodup_append.1 (List.nodup_append.1 h.nodup').2.1).1

theorem handle_not_mem_kids (h : RootAt f X tc Y) : tc.handle ∉ handlesList tc.kids := by
  have := h.nodup_tc
  rw [ff_handles_eq, List.nodup_cons] at this
  exact this.1

theorem nodup_rest (h : RootAt f X tc Y) : (handlesList (X ++ Y)).Nodup := by
  rw [handlesList_append_ff]
  have h1 := List.nodup_append.1 h.nodup'
  have h2 := List.nodup_append.1 h1.2.1
  refine List.nodup_append.2 ⟨h1.1, h2.2.1, ?_⟩
  intro a ha b hb
  exact h1.2.2 a ha b (List.mem_append_right _ hb)

/-- A handle of the other trees is not in `tc`. -/
theorem rest_not_mem_tc (h : RootAt f X tc Y) {p : Nat} (hp : p ∈ handlesList (X ++ Y)) :
    p ∉ handles tc := fun hx => h.not_mem_rest p hx hp

theorem get?_self (h : RootAt f X tc Y) : f.get? tc.handle = some tc := by
  unfold Forest.get?
  rw [h.roots, ffx_findList?_append_of_not_mem _ _ _ (h.not_mem_X _ (handle_mem_handles_ff tc))]
  exact ffx_findList?_cons_self tc Y

theorem get?_rest (h : RootAt f X tc Y) {p : Nat} (hp : p ∈ handlesList (X ++ Y)) :
    f.get? p = findList? p (X ++ Y) := by
  have hn := h.rest_not_mem_tc hp
  unfold Forest.get?
  rw [h.roots]
  by_cases hX : findList? p X = none
  · rw [findList?_append_of_none _ _ _ hX, findList?_append_of_none _ _ _ hX,
      ffx_findList?_cons_of_not_mem _ _ _ hn]
  · cases hx : findList? p X with
    | none => exact absurd hx hX
    | some s =>
      have : ∀ B, findList? p (X ++ B) = some s := by
        intro B
        clear hX hp hn h
        induction X with
        | nil => simp [findList?] at hx
        | cons k ks ih =>
          simp only [List.cons_append]
          unfold findList? at hx ⊢
          cases hk : find? p k with
          | some t => rw [hk] at hx; exact hx
          | none => rw [hk] at hx; exact ih hx
      rw [this, this]

theorem ctx?_self (h : RootAt f X tc Y) : f.ctx? tc.handle = none := by
  unfold Forest.ctx?
  rw [List.findSome?_eq_none_iff]
  intro r hr
  rw [h.roots, List.mem_append, List.mem_cons] at hr
  rcases hr with hr | rfl | hr
  · apply ffx_ctxBelow_none_of_not_mem'
    intro hm
    exact h.not_mem_X _ (handle_mem_handles_ff tc) (mem_handlesList_ff.2 ⟨r, hr, hm⟩)
  · exact ffx_ctxBelow_none_of_not_mem _ _ h.handle_not_mem_kids
  · apply ffx_ctxBelow_none_of_not_mem'
    intro hm
    exact h.not_mem_Y _ (handle_mem_handles_ff tc) (mem_handlesList_ff.2 ⟨r, hr, hm⟩)

theorem root_handle_ne (h : RootAt f X tc Y) {r : HTree} (hr : r ∈ X ++ Y) : r.handle ≠ tc.handle := by
  intro e
  apply h.not_mem_rest tc.handle (handle_mem_handles_ff tc)
  exact mem_handlesList_ff.2 ⟨r, hr, e ▸ handle_mem_handles_ff r⟩

theorem isRoot_self (h : RootAt f X tc Y) : f.isRoot tc.handle = true := by
  unfold Forest.isRoot
  rw [h.roots]; simp

theorem filter_self (h : RootAt f X tc Y) :
    f.roots.filter (fun r => r.handle != tc.handle) = X ++ Y := by
  rw [h.roots, List.filter_append, List.filter_cons]
  have hX : X.filter (fun r => r.handle != tc.handle) = X := by
    rw [List.filter_eq_self]; intro a ha
    simpa using h.root_handle_ne (List.mem_append_left _ ha)
  have hY : Y.filter (fun r => r.handle != tc.handle) = Y := by
    rw [List.filter_eq_self]; intro a ha
    simpa using h.root_handle_ne (List.mem_append_right _ ha)
  simp [hX, hY]

/-- indextree `detach` of a root: the tree leaves the root list. -/
theorem cut_self (h : RootAt f X tc Y) :
    f.cut tc.handle = ({ f with roots := X ++ Y }, some tc) := by
  unfold Forest.cut
  rw [h.get?_self]
  simp only [h.isRoot_self, if_true, h.filter_self]

theorem ancestors_rest (h : RootAt f X tc Y) {p : Nat} (hp : p ∈ handlesList (X ++ Y)) :
    tc.handle ∉ f.ancestors p := by
  have hn := h.rest_not_mem_tc hp
  unfold Forest.ancestors
  rw [h.roots, List.findSome?_append, List.findSome?_cons, ffx_ancestorsOf_none_of_not_mem p tc hn]
  intro hmem
  -- the answer comes from X or Y
  have key : ∀ (Z : List HTree), (∀ r ∈ Z, r ∈ X ++ Y) → ∀ l, Z.findSome? (ancestorsOf p) = some l →
      tc.handle ∉ l := by
    intro Z hZ l hl hm
    obtain ⟨r, hr, hrl⟩ := List.exists_of_findSome?_eq_some hl
    have := ancestorsOf_subset p r l hrl _ hm
    exact h.not_mem_rest _ (handle_mem_handles_ff tc) (mem_handlesList_ff.2 ⟨r, hZ r hr, this⟩)
  cases hx : X.findSome? (ancestorsOf p) with
  | some l =>
    rw [hx] at hmem
    exact key X (fun r hr => List.mem_append_left _ hr) l hx (by simpa using hmem)
  | none =>
    rw [hx] at hmem
    cases hy : Y.findSome? (ancestorsOf p) with
    | some l =>
      rw [hy] at hmem
      exact key Y (fun r hr => List.mem_append_right _ hr) l hy (by simpa using hmem)
    | none => rw [hy] at hmem; simp at hmem

end RootAt
end XotModel
