/-
  Lemmas for C20 (extended construction programs), part 2: ONE CALL, specification ⇒ implementation.

  `call_spec_impl`: a call of an extended program that the ordered-tree specification accepts is
  answered `ok` by the forest model, and the model's store afterwards IS the specification's, handle
  for handle, with the same created node.  Per kind of call this is the C05 theorem of that call
  (`C05_pair_detach`, `C05_pair_remove`, `C05_pair_replace…`, `C05_pair_wrap`, `C05_pair_unwrap`,
  `C05_setText`, `C05_setElementName`, `C05_creation_setters`, `C05_setComment`, `C05_setPiData`,
  `C05_clone_node`, `C05_clone_node_exact`, used by name) together with "after the argument checks
  nothing goes wrong" (`Lemmas/Fprog2Ok.lean`).
-/
import XotModel.Props.C05
import XotModel.Lemmas.Fprog2OkWrap

namespace XotModel
namespace Prog2
open HTree Spec Prog XotModel.Props

/-- In a forest without adjacent text nodes the corner of finding
    `C05:replace-selfmerge-leaves-adjacent-text` cannot occur. -/
theorem selfMergeReplace_false {f : Forest} (inv : f.Inv) (norm : f.Normal) (a b : Nat) :
    selfMergeReplace f a b = false := by
  unfold selfMergeReplace
  cases hc : f.consolidation with
  | false => rfl
  | true =>
    simp only [Bool.true_and]
    cases hctx : f.ctx? b with
    | none => rfl
    | some c =>
      simp only
      obtain ⟨e0, v, s⟩ := SiteAt.of_ctx inv.nodup hctx
      have hvalid : validTree true (.node c.parent v (c.left ++ c.self :: c.right)) = true :=
        valid_findList f.roots _ (norm hc) s.kids
      obtain ⟨_, _, hna, _⟩ := validTree_node hvalid
      have hna := hna rfl
      cases hs : c.self.value.isText with
      | false => rfl
      | true =>
        cases hl : c.left.getLast? with
        | none => simp
        | some x =>
          cases hx : x.value.isText with
          | false => simp [hx]
          | true =>
            exfalso
            obtain ⟨l', el⟩ : ∃ l', c.left = l' ++ [x] := by
              rw [List.getLast?_eq_some_iff] at hl
              exact hl
            rw [el, List.append_assoc] at hna
            have := (noAdj_append.1 hna).2.1
            simp only [List.singleton_append, noAdj_cons_cons, hx, hs, Bool.and_self, Bool.not_true,
              Bool.false_and] at this
            cases this

theorem value_of_get {f : Forest} {n : Nat} {t : HTree} (h : f.get? n = some t) : f.value? n = some t.value := by
  simp [Forest.value?, h]

/-- **One call, specification ⇒ implementation**: a call the specification accepts is answered `ok`
    and yields the specification's store, handle for handle, and the same created node. -/
theorem call_spec_impl {f : Forest} (inv : f.Inv) (hfl : FlagsOk f) (c : Call)
    {f' : Forest} {o : Option Nat} (h : c.spec f = some (f', o)) : c.impl f = (f', .ok, o) := by
  have norm := normal_of_flags inv hfl
  cases c with
  | base c => exact Prog.call_spec_impl inv hfl c h
  | detach n =>
    simp only [Call.spec] at h
    split at h
    · rename_i hl
      simp only [Option.some.injEq, Prod.mk.injEq] at h
      obtain ⟨h1, h2⟩ := h
      subst h1 h2
      show ((f.detach n).1, (f.detach n).2, none) = _
      rw [C05_pair_detach inv hl]; rfl
    · cases h
  | remove n =>
    simp only [Call.spec] at h
    split at h
    · rename_i hl
      simp only [Option.some.injEq, Prod.mk.injEq] at h
      obtain ⟨h1, h2⟩ := h
      subst h1 h2
      show ((f.remove n).1, (f.remove n).2, none) = _
      rw [C05_pair_remove inv hl]; rfl
    · cases h
  | replace a b =>
    simp only [Call.spec] at h
    split at h
    · rename_i hk
      simp only [Option.some.injEq, Prod.mk.injEq] at h
      obtain ⟨h1, h2⟩ := h
      subst h1 h2
      have hok := replace_ok inv norm hk
      have hcorner := selfMergeReplace_false inv norm a b
      have e : (f.replace a b).1 = specReplaceP a b f := by
        first
          | exact C05_pair_replace_partial inv hok hcorner
          | exact C05_pair_replace_partial inv hok
          | exact C05_pair_replace inv hok
      show ((f.replace a b).1, (f.replace a b).2, none) = _
      rw [e, hok]
    · cases h
  | wrap n name =>
    simp only [Call.spec] at h
    split at h
    · rename_i hk
      simp only [Option.some.injEq, Prod.mk.injEq] at h
      obtain ⟨h1, h2⟩ := h
      subst h1 h2
      have hok := elementWrap_ok name inv norm hk
      obtain ⟨e1, e2⟩ := C05_pair_wrap inv hok
      show ((f.elementWrap n name).1, (f.elementWrap n name).2.1, some (f.elementWrap n name).2.2) = _
      rw [e1, e2, hok]
    · cases h
  | unwrap n =>
    simp only [Call.spec] at h
    split at h
    · rename_i hk
      simp only [Option.some.injEq, Prod.mk.injEq] at h
      obtain ⟨h1, h2⟩ := h
      subst h1 h2
      have hok := elementUnwrap_ok inv hk
      show ((f.elementUnwrap n).1, (f.elementUnwrap n).2, none) = _
      rw [C05_pair_unwrap inv hok, hok]
    · cases h
  | setText n s =>
    simp only [Call.spec] at h
    split at h
    · rename_i x hv
      simp only [Option.some.injEq, Prod.mk.injEq] at h
      obtain ⟨h1, h2⟩ := h
      subst h1 h2
      have hok : (f.setText n s).2 = .ok := by
        unfold Forest.setText
        have : f.isText n = true := by simp [Forest.isText, hv, Value.isText]
        rw [this]; rfl
      show ((f.setText n s).1, (f.setText n s).2, none) = _
      rw [(C05_setText hok).1, hok]
    · cases h
  | setElementName n name =>
    simp only [Call.spec] at h
    split at h
    · rename_i he
      simp only [Option.some.injEq, Prod.mk.injEq] at h
      obtain ⟨h1, h2⟩ := h
      subst h1 h2
      rw [isElementAt_eq] at he
      have hok : (f.setElementName n name).2 = .ok := by
        unfold Forest.setElementName
        rw [he]; rfl
      show ((f.setElementName n name).1, (f.setElementName n name).2, none) = _
      rw [(C05_setElementName hok).1, hok]
    · cases h
  | setAttributeValue n s =>
    simp only [Call.spec] at h
    split at h
    · rename_i k x hv
      simp only [Option.some.injEq, Prod.mk.injEq] at h
      obtain ⟨h1, h2⟩ := h
      subst h1 h2
      have hok : (f.attributeSetValue n s).2 = .ok := by
        unfold Forest.attributeSetValue
        rw [hv]
      obtain ⟨k', old, hv', e⟩ := (C05_creation_setters (f := f) (n := n)).2.1 s hok
      rw [hv] at hv'
      have hk : k = k' := by injection hv' with e1; injection e1
      show ((f.attributeSetValue n s).1, (f.attributeSetValue n s).2, none) = _
      rw [e, hok, hk]
    · cases h
  | setComment n s =>
    simp only [Call.spec] at h
    split at h
    · rename_i x hv
      split at h
      · cases h
      · rename_i hd
        simp only [Option.some.injEq, Prod.mk.injEq] at h
        obtain ⟨h1, h2⟩ := h
        subst h1 h2
        have hok : (f.setComment n s).2 = .ok := by
          unfold Forest.setComment
          rw [hv]
          simp only [hd, Bool.false_eq_true, if_false]
        show ((f.setComment n s).1, (f.setComment n s).2, none) = _
        rw [(C05_setComment hok).1, hok]
    · cases h
  | setPiData n d =>
    simp only [Call.spec] at h
    split at h
    · rename_i t x hv
      simp only [Option.some.injEq, Prod.mk.injEq] at h
      obtain ⟨h1, h2⟩ := h
      subst h1 h2
      have hok : (f.setPiData n d).2 = .ok := by
        unfold Forest.setPiData
        rw [hv]
      obtain ⟨t', old, hv', e⟩ := C05_setPiData hok
      rw [hv] at hv'
      have ht : t = t' := by injection hv' with e1; injection e1
      show ((f.setPiData n d).1, (f.setPiData n d).2, none) = _
      rw [e, hok, ht]
    · cases h
  | clone n =>
    simp only [Call.spec] at h
    split at h
    · rename_i src hg
      simp only [Option.some.injEq, Prod.mk.injEq] at h
      obtain ⟨h1, h2⟩ := h
      subst h1 h2
      obtain ⟨c, C, hc, hC, hroots, _⟩ := C05_clone_node inv hg
      have hex := C05_clone_node_exact inv hg
      have hC' : C = (copyRoot f.consolidation f.next src).1 := by
        rw [hex] at hroots
        simp only [specClone, hg] at hroots
        have := List.append_cancel_left hroots
        simpa using this.symm
      simp only [Call.impl]
      have hpair : f.cloneNode n = (specClone n f, some c) := by
        rw [← hex, ← hc]
      rw [hpair]
      simp only
      rw [← hC, hC']
    · cases h

end Prog2
end XotModel
