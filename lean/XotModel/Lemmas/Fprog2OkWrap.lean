/-
  Lemmas for C20 (extended construction programs), part 1b: `element_wrap` answers `ok` whenever the
  ordered-tree test `wrapOk` passes — `new_element`, the raw detach, `append(wrapper, node)` and the
  final `insert_after(previous, wrapper)` / `prepend(parent, wrapper)` cannot be refused.
-/
import XotModel.Lemmas.Fprog2Ok
import XotModel.Lemmas.FspecWrap

namespace XotModel
namespace Prog2
open HTree Spec Prog

/-- The guards of `element_wrap`, from the ordered-tree test. -/
theorem wrapOk_guards {f : Forest} {n : Nat} (h : wrapOk f n = true) :
    f.isDocument n = false ∧ f.isNormalNode n = true ∧
      (f.hasDocumentParent n && !f.isDocumentElement n) = false ∧
      ∃ t, f.get? n = some t ∧ t.value.isNormal = true ∧ t.value.isDocument = false := by
  simp only [wrapOk, Bool.and_eq_true, isMovableAt] at h
  obtain ⟨hm, hp⟩ := h
  cases hv : f.value? n with
  | none => rw [hv] at hm; simp at hm
  | some v =>
    rw [hv] at hm
    obtain ⟨t, hg, htv⟩ := get_of_value hv
    have hn : v.isNormal = true := by cases v <;> simp_all [movable, Value.isNormal, Value.category]
    have hd : v.isDocument = false := by cases v <;> simp_all [movable, Value.isDocument]
    refine ⟨by simp [Forest.isDocument, hv, hd], by simp [Forest.isNormalNode, hv, hn], ?_,
      t, hg, by rw [htv]; exact hn, by rw [htv]; exact hd⟩
    unfold Forest.hasDocumentParent Forest.isDocumentElement Forest.hasDocumentParent
    cases hpar : f.parent? n with
    | none => rfl
    | some p =>
      rw [hpar] at hp
      simp only [Bool.or_eq_true, Bool.not_eq_true'] at hp
      simp only
      rcases hp with h1 | h1
      · have : f.isDocument p = false := by
          unfold Forest.isDocument
          cases hb : ((f.value? p).map Value.isDocument == some true) with
          | false => rfl
          | true => rw [hb] at h1; cases h1
        rw [this]; rfl
      · rw [isElementAt_eq] at h1
        rw [h1]; simp

/-- The argument check of a move of the parentless tree `c` under / next to nodes of another tree. -/
theorem structureCheck_root {X : Forest} {p c : Nat} {vp : Value} {Lp : List HTree} {t : HTree}
    (nd : X.allHandles.Nodup) (hgp : X.get? p = some (.node p vp Lp)) (hvp : vp.isElement = true ∨ vp.isDocument = true)
    (hgc : X.get? c = some t) (hpt : p ∉ handles t) (hn : t.value.isNormal = true)
    (hd : t.value.isDocument = false) : X.structureCheck (some p) c = true := by
  rw [structureCheck_eq]
  have hvq : X.value? p = some vp := by simp [Forest.value?, hgp, HTree.value]
  have hvc : X.value? c = some t.value := by simp [Forest.value?, hgc]
  simp only [hvq, hvc, Option.map_some, Bool.and_eq_true, Bool.not_eq_true']
  refine ⟨⟨?_, ?_⟩, ?_⟩
  · rcases hvp with h | h <;> (cases vp <;> simp_all [holdsChildren, Value.isElement, Value.isDocument])
  · cases h : (X.ancestors p).contains c with
    | false => rfl
    | true =>
      obtain ⟨u, hu, hqu⟩ := (Forest.ancestors_contains_iff nd).1 h
      rw [hgc] at hu
      rw [← Option.some.inj hu] at hqu
      exact absurd hqu hpt
  · cases hv : t.value <;> simp_all [movable, Value.isNormal, Value.category, Value.isDocument]

theorem holds_of_kid' {v : Value} {k : Value} (h : kidAllowed v k = true) :
    v.isElement = true ∨ v.isDocument = true := by
  cases v <;> simp_all [kidAllowed, Value.isElement, Value.isDocument]

/-- `append(wrapper, node)` in the middle of `element_wrap` (node with a parent) is `ok`. -/
theorem wrapMid_ok {f : Forest} {p : Nat} {v : Value} {l : List HTree} {t : HTree} {r : List HTree} (name : Nat)
    (inv : f.Inv) (s : SiteAt f p v (l ++ t :: r)) (hn : t.value.isNormal = true)
    (hd : t.value.isDocument = false) : (f.wrapMid t.handle name).2 = .ok := by
  have nd := inv.nodup
  have sF : SiteAt f.bump p v (l ++ t :: r) := ⟨s.nd, s.kids⟩
  obtain ⟨ndL, hpL⟩ := s.nodupKids
  obtain ⟨tl, tr⟩ := tops_ne_of_nodup ndL
  have hgL : replaceTop t.handle (fun _ => []) (l ++ t :: r) = l ++ r := by
    rw [replaceTop_mid rfl tl]; simp
  have hw : f.next ∉ f.bump.allHandles := fun h => Nat.lt_irrefl _ (inv.below _ h)
  have hpin : p ∈ f.allHandles := mem_of_findList?_some s.kids
  have hpw : p ≠ f.next := fun e => hw (e ▸ hpin)
  have hperm : ((cutSite f p t.handle).allHandles ++ handles t).Perm f.allHandles :=
    handlesList_editAt_perm (g := replaceTop t.handle (fun _ => [])) (E := handles t)
      (by
        rw [hgL]
        simp only [fs_handlesList_append, handlesList_cons]
        rw [List.append_assoc]
        exact List.Perm.append_left _ List.perm_append_comm) f.roots nd s.kids
  have hcnt : ∀ z, (cutSite f p t.handle).allHandles.count z + (handles t).count z = f.allHandles.count z := by
    intro z
    rw [← List.count_append]
    exact hperm.count_eq z
  have hle : ∀ z, f.allHandles.count z ≤ 1 := List.nodup_iff_count.1 nd
  have hwc : f.next ∉ (cutSite f p t.handle).allHandles := fun h => hw (hperm.subset (List.mem_append_left _ h))
  have hwt : f.next ∉ handles t := fun h => hw (hperm.subset (List.mem_append_right _ h))
  have hnc : t.handle ∉ (cutSite f p t.handle).allHandles := by
    intro h
    have h1 := List.count_pos_iff.2 h
    have h2 := List.count_pos_iff.2 (fs_handle_mem_handles t)
    have := hcnt t.handle
    have := hle t.handle
    omega
  have hnw : t.handle ≠ f.next := fun e => hwt (e ▸ fs_handle_mem_handles t)
  have ndZ1 : (f.bump.addRoot (wrapNew f name)).allHandles.Nodup := by
    rw [Forest.addRoot_allHandles, wrapNew, handles_node, handlesList_nil]
    apply List.nodup_append.2
    refine ⟨nd, by simp, ?_⟩
    intro a ha b hb e
    simp only [List.mem_singleton] at hb
    exact hw (hb ▸ e ▸ ha)
  have s1 : SiteAt (f.bump.addRoot (wrapNew f name)) p v (l ++ t :: r) := Forest.addRoot_site _ sF ndZ1
  have hpw0 : p ∉ handles (wrapNew f name) := by
    rw [wrapNew, handles_node, handlesList_nil]; simpa using hpw
  have hdet : (f.bump.addRoot (wrapNew f name)).detachRaw t.handle =
      ((cutSite f p t.handle).addRoot (wrapNew f name)).addRoot t := by
    unfold Forest.detachRaw
    rw [Forest.cut_of_ctx s1.nd s1.ctx]
    simp only
    rw [Forest.addRoot_editAt_old _ _ _ _ hpw0]
    rfl
  have hZ1h : ((cutSite f p t.handle).addRoot (wrapNew f name)).allHandles =
      (cutSite f p t.handle).allHandles ++ [f.next] := by
    rw [Forest.addRoot_allHandles, wrapNew, handles_node, handlesList_nil]
  have nd2 : (((cutSite f p t.handle).addRoot (wrapNew f name)).addRoot t).allHandles.Nodup := by
    rw [Forest.addRoot_allHandles, hZ1h, List.nodup_iff_count]
    intro z
    simp only [List.count_append]
    have := hcnt z
    have := hle z
    by_cases hz : z = f.next
    · subst hz
      have : f.allHandles.count f.next = 0 := List.count_eq_zero.2 hw
      simp only [List.count_cons_self, List.count_nil]
      omega
    · have : [f.next].count z = 0 := List.count_eq_zero.2 (by simpa using hz)
      omega
  have hgw2 : (((cutSite f p t.handle).addRoot (wrapNew f name)).addRoot t).get? f.next =
      some (.node f.next (.element name) []) := by
    apply Forest.addRoot_get_left
    rw [Forest.addRoot_get_new _ hwc, wrapNew, find?_node, if_pos rfl]
  have hnZ : t.handle ∉ ((cutSite f p t.handle).addRoot (wrapNew f name)).allHandles := by
    rw [hZ1h]
    intro h
    cases List.mem_append.1 h with
    | inl h => exact hnc h
    | inr h => exact hnw (by simpa using h)
  have hgn2 : (((cutSite f p t.handle).addRoot (wrapNew f name)).addRoot t).get? t.handle = some t := by
    rw [Forest.addRoot_get_new _ hnZ, fs_find?_self]
  unfold Forest.wrapMid
  change ((f.bump.addRoot (wrapNew f name)).detachRaw t.handle |>.append f.next t.handle).2 = .ok
  rw [hdet]
  apply append_root_ok nd2 _ hgn2 (Forest.addRoot_isRoot _ t)
  have hwt' : f.next ∉ handles t := hwt
  exact structureCheck_root nd2 hgw2 (Or.inl rfl) hgn2 hwt' hn hd

theorem elementWrap_ok {f : Forest} {n : Nat} (name : Nat) (inv : f.Inv) (_norm : f.Normal)
    (h : wrapOk f n = true) : (f.elementWrap n name).2.1 = .ok := by
  have nd := inv.nodup
  obtain ⟨h1, h2, h3, t, hg, hn, hd⟩ := wrapOk_guards h
  have hw : f.next ∉ f.bump.allHandles := fun h => Nat.lt_irrefl _ (inv.below _ h)
  cases hp : f.parent? n with
  | none =>
    rw [elementWrap_root_eq h1 h2 h3 hp]
    simp only
    have hroot : f.isRoot n = true := by
      rcases Forest.root_or_ctx hg with h | ⟨c, h⟩
      · exact h
      · rw [Forest.parent?_of_ctx h] at hp; cases hp
    have ndZ : (f.bump.addRoot (.node f.next (.element name) [])).allHandles.Nodup := by
      rw [Forest.addRoot_allHandles, handles_node, handlesList_nil]
      apply List.nodup_append.2
      refine ⟨nd, by simp, ?_⟩
      intro a ha b hb e
      simp only [List.mem_singleton] at hb
      exact hw (hb ▸ e ▸ ha)
    have hgn : (f.bump.addRoot (.node f.next (.element name) [])).get? n = some t :=
      Forest.addRoot_get_left _ hg
    have hgw : (f.bump.addRoot (.node f.next (.element name) [])).get? f.next =
        some (.node f.next (.element name) []) := by
      rw [Forest.addRoot_get_new _ hw, find?_node, if_pos rfl]
    have hwt : f.next ∉ handles t := by
      intro hm
      have : f.next ∈ f.allHandles := (fs_findList?_sublist f.roots t hg).subset hm
      exact Nat.lt_irrefl _ (inv.below _ this)
    apply append_root_ok ndZ _ hgn (isRoot_addRoot_left _ hroot)
    exact structureCheck_root ndZ hgw (Or.inl rfl) hgn hwt hn hd
  | some p =>
    cases hctx : f.ctx? n with
    | none => rw [Forest.parent?_of_no_ctx hctx] at hp; cases hp
    | some cx =>
      obtain ⟨e0, vo, so⟩ := SiteAt.of_ctx nd hctx
      have hq : cx.parent = p := by
        have := Forest.parent?_of_ctx hctx
        rw [hp] at this
        exact (Option.some.inj this).symm
      have hself : cx.self = t := by
        have := Forest.get?_of_ctx nd hctx
        rw [hg] at this
        exact (Option.some.inj this).symm
      have hprev : f.prevSibling n = prevOf cx.left cx.self := Forest.prevSibling_of_ctx hctx
      obtain ⟨p0, l, k, r⟩ := cx
      simp only at e0 so hq hself hprev
      subst hq hself e0
      have hmid := wrapMid_ok name inv so hn hd
      have W := wrapMid_spec inv so hmid
      -- the parent holds children
      have hvo : vo.isElement = true ∨ vo.isDocument = true := by
        have hv := valid_findList f.roots _ inv.valid so.kids
        have := (validTree_node hv).1 k (by simp)
        exact holds_of_kid' this
      have hwn : (wrapTree f name k).value.isNormal = true := rfl
      have hwd : (wrapTree f name k).value.isDocument = false := rfl
      have hck : ((cutSite f p0 k.handle).addRoot (wrapTree f name k)).structureCheck (some p0) f.next = true :=
        structureCheck_root W.site.nd W.site.kids hvo W.getw W.hq hwn hwd
      have hroot : ((cutSite f p0 k.handle).addRoot (wrapTree f name k)).isRoot f.next = true :=
        Forest.addRoot_isRoot _ (wrapTree f name k)
      unfold Forest.elementWrap
      rw [h1, h2, h3, hp]
      simp only [Bool.false_eq_true, if_false, Bool.not_true, Forest.newElement_eq]
      have hmid' := hmid
      have hmidst := W.mid
      unfold Forest.wrapMid at hmid' hmidst
      generalize ((f.bump.addRoot (.node f.next (.element name) [])).detachRaw k.handle).append f.next k.handle = x
        at hmid' hmidst ⊢
      obtain ⟨f3, r3⟩ := x
      simp only at hmid' hmidst
      subst hmid' hmidst
      simp only
      cases hpv : prevOf l k with
      | none =>
        rw [hprev, hpv]
        simp only
        exact prepend_root_ok W.site.nd hck W.getw hroot
      | some q' =>
        rw [hprev, hpv]
        simp only
        obtain ⟨A2, ka, el, ekp, ekc⟩ := prevOf_eq_some hpv
        have s1' : SiteAt ((cutSite f p0 k.handle).addRoot (wrapTree f name k)) p0 vo (A2 ++ ka :: r) := by
          have := W.site
          rw [el, List.append_assoc] at this
          exact this
        have hpar : ((cutSite f p0 k.handle).addRoot (wrapTree f name k)).parent? q' = some p0 := by
          rw [← ekp]; exact Forest.parent?_of_ctx s1'.ctx
        have hgq : ((cutSite f p0 k.handle).addRoot (wrapTree f name k)).get? q' = some ka := by
          rw [← ekp]; exact s1'.getKid
        apply insertAfter_ok_of_checks W.site.nd
        · rw [hpar]; exact hck
        · simp only [Forest.siblingReferenceCheck, Bool.and_eq_true, bne_iff_ne]
          refine ⟨?_, ?_⟩
          · rw [← ekp]
            exact W.fresh ka (by rw [el]; simp)
          · simp only [Forest.isNormalNode, Forest.value?, hgq, Option.map_some]
            have : ka.value.isNormal = true := by
              simp only [Value.isNormal, ekc]
              exact hn
            simp [this]

end Prog2
end XotModel
