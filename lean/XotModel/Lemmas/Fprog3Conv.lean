/-
  Lemmas for C20 (construction programs with navigation and inputs), the converse direction: a
  program every step of which the implementation answers `ok` is accepted by the specification, with
  the same final state; refusals are exact.  As for `Prog2` (`Lemmas/Fprog2Conv.lean`): "answered ok ⇒
  accepted" per call (`spec_of_ok`), then `call_spec_impl` gives the equality of the results.
  Navigation: a navigation that finds nothing is a `panic`, so an `ok` run has resolved every step.
-/
import XotModel.Lemmas.Fprog3Clear
import XotModel.Lemmas.Fprog2Conv

namespace XotModel
namespace Prog3
open HTree Spec Prog XotModel.Props
open Forest (MapKind)

theorem spec_of_ok {f : Forest} (inv : f.Inv) (hfl : FlagsOk f) (c : Call) (hs : c.inScope f = true)
    {f' : Forest} {o : Option Nat} (h : c.impl f = (f', .ok, o)) : ∃ g o', c.spec f = some (g, o') := by
  cases c with
  | old c => exact ⟨f', o, Prog2.call_impl_spec inv hfl c hs h⟩
  | found x => exact ⟨f, some x, rfl⟩
  | mapRemove k e key =>
    have he : f.isElement e = true := by
      cases hh : f.isElement e with
      | true => rfl
      | false =>
        simp only [Call.impl] at h
        unfold Forest.mapRemove at h
        simp [hh] at h
    simp only [Call.spec, isElementAt_eq, he, if_true]
    cases f.mapGetNode k e key with
    | none => exact ⟨_, _, rfl⟩
    | some n => exact ⟨_, _, rfl⟩
  | mapClear k e =>
    have he : f.isElement e = true := by
      cases hh : f.isElement e with
      | true => rfl
      | false =>
        simp only [Call.impl] at h
        unfold Forest.mapClear at h
        simp [hh] at h
    simp only [Call.spec, isElementAt_eq, he, if_true]
    obtain ⟨g, hg⟩ := clear_accepted inv hfl k he
    rw [hg]
    exact ⟨g, none, rfl⟩
  | nsSetNamespace n ns =>
    simp only [Call.impl] at h
    unfold Forest.namespaceSetNamespace at h
    simp only [Call.spec]
    cases hv : f.value? n with
    | none => rw [hv] at h; simp at h
    | some v =>
      rw [hv] at h
      cases v <;> first | exact ⟨_, _, rfl⟩ | (simp at h)
  | piSetTarget n t =>
    simp only [Call.impl] at h
    unfold Forest.piSetTarget at h
    simp only [Call.spec]
    cases hv : f.value? n with
    | none => rw [hv] at h; simp at h
    | some v =>
      rw [hv] at h
      cases v <;> first | exact ⟨_, _, rfl⟩ | (simp at h)

/-- **One call, implementation ⇒ specification**, same store, same result. -/
theorem call_impl_spec {f : Forest} (inv : f.Inv) (hfl : FlagsOk f) (c : Call) (hs : c.inScope f = true)
    {f' : Forest} {o : Option Nat} (h : c.impl f = (f', .ok, o)) : c.spec f = some (f', o) := by
  obtain ⟨g, o', hsp⟩ := spec_of_ok inv hfl c hs h
  have := (call_spec_impl inv hfl hsp).1
  rw [h] at this
  simp only [Prod.mk.injEq, true_and] at this
  rw [hsp, this.1, this.2]

theorem step_impl_spec {s s' : State} {st : Step} (inv : s.forest.Inv) (hfl : FlagsOk s.forest)
    (hsc : ∀ c, st.resolve s.forest s.env = some c → c.inScope s.forest = true)
    (h : stepImpl s st = (s', .ok)) : stepSpec s st = some s' := by
  unfold stepImpl at h
  unfold stepSpec
  cases hr : st.resolve s.forest s.env with
  | none => rw [hr] at h; simp at h
  | some c =>
    rw [hr] at h
    simp only at h ⊢
    cases hi : c.impl s.forest with
    | mk f' ro =>
      obtain ⟨r, o⟩ := ro
      rw [hi] at h
      simp only [Prod.mk.injEq] at h
      obtain ⟨h1, h2⟩ := h
      subst h2
      rw [call_impl_spec inv hfl c (hsc c hr) hi]
      simp only
      rw [← h1]

/-- **Refinement, implementation ⇒ specification**, programs with navigation and inputs. -/
theorem run_impl_spec : ∀ (P : Program) (s : State), s.forest.Inv → FlagsOk s.forest → inScope s P = true →
    (runImpl s P).2 = .ok → runSpec s P = some (runImpl s P).1
  | [], _, _, _, _, _ => rfl
  | st :: rest, s, inv, hfl, hsc, hok => by
    simp only [runImpl] at hok ⊢
    simp only [runSpec]
    simp only [inScope, Bool.and_eq_true] at hsc
    obtain ⟨hsc1, hsc2⟩ := hsc
    cases hst : stepImpl s st with
    | mk s' r =>
      rw [hst] at hok hsc2
      cases r with
      | ok =>
        simp only at hok hsc2 ⊢
        have hsc' : ∀ c, st.resolve s.forest s.env = some c → c.inScope s.forest = true := by
          intro c hc; rw [hc] at hsc1; exact hsc1
        have e1 := step_impl_spec inv hfl hsc' hst
        rw [e1]
        obtain ⟨_, i1, f1⟩ := step_spec_impl inv hfl e1
        exact run_impl_spec rest s' i1 f1 hsc2 hok
      | err e => simp at hok
      | panic => simp at hok

/-- The first step the implementation does not answer `ok` is the first step the specification calls
    ill-formed (a navigation that finds nothing included). -/
theorem firstRefused_eq : ∀ (P : Program) (s : State), s.forest.Inv → FlagsOk s.forest → inScope s P = true →
    firstRefused s P = firstIllFormed s P
  | [], _, _, _, _ => rfl
  | st :: rest, s, inv, hfl, hsc => by
    simp only [inScope, Bool.and_eq_true] at hsc
    obtain ⟨hsc1, hsc2⟩ := hsc
    simp only [firstRefused, firstIllFormed]
    cases hs : stepSpec s st with
    | some s1 =>
      obtain ⟨hi, i1, f1⟩ := step_spec_impl inv hfl hs
      rw [hi] at hsc2 ⊢
      simp only at hsc2 ⊢
      rw [firstRefused_eq rest s1 i1 f1 hsc2]
    | none =>
      cases hst : stepImpl s st with
      | mk s' r =>
        cases r with
        | ok =>
          exfalso
          have hsc' : ∀ c, st.resolve s.forest s.env = some c → c.inScope s.forest = true := by
            intro c hc; rw [hc] at hsc1; exact hsc1
          have := step_impl_spec inv hfl hsc' hst
          rw [hs] at this; cases this
        | err e => rfl
        | panic => rfl

end Prog3
end XotModel
