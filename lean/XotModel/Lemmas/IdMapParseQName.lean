/-
  XotModel.Lemmas.IdMapParseQName — the registration trace of one token (`Builder.stepRegs`) behind
  `check_qname` (/repo a5fafb0): a refused name registers nothing; for a token that passes, the
  trace is the one of the arm (`stepRegsCore`, the trace as it was before the check existed).
-/
import XotModel.Model.IdMapParse
import XotModel.Lemmas.ParseQName

namespace XotModel

/-- The registrations of an arm of `_parse` after `check_qname`. -/
def Builder.stepRegsCore (b : Builder) : Token → List Reg
  | .attribute pfx loc value _ =>
    if pfx.text == ['x', 'm', 'l', 'n', 's'] then prefixRegs loc.text value
    else if pfx.text.isEmpty && loc.text == ['x', 'm', 'l', 'n', 's'] then prefixRegs [] value
    else []
  | .elementEnd .open _ => b.openRegs
  | .elementEnd (.close pfx loc) _ => elementNameRegs b.env b.nsStack pfx.text loc.text
  | .elementEnd .empty _ => b.openRegs
  | .pi target _ _ => if isReservedPiTarget target.text then [] else [.name target.text Env.noNamespace]
  | _ => []

theorem Builder.stepRegs_eq_core (b : Builder) {t : Token} (h : t.prefixOk = true) :
    b.stepRegs t = b.stepRegsCore t := by
  cases t with
  | «attribute» pfx loc value sp =>
    simp only [Token.prefixOk, Bool.not_eq_true'] at h
    simp only [Builder.stepRegs, Builder.stepRegsCore, h, Bool.false_eq_true, if_false]
  | elementEnd e sp =>
    cases e with
    | close pfx loc =>
      simp only [Token.prefixOk, Bool.not_eq_true'] at h
      simp only [Builder.stepRegs, Builder.stepRegsCore, h, Bool.false_eq_true, if_false]
    | «open» => rfl
    | empty => rfl
  | _ => rfl

/-- Nothing is registered for a name `check_qname` refuses. -/
theorem Builder.stepRegs_refused (b : Builder) {t : Token} (h : t.prefixOk = false) :
    b.stepRegs t = [] := by
  cases t with
  | «attribute» pfx loc value sp =>
    simp only [Token.prefixOk, Bool.not_eq_false'] at h
    simp only [Builder.stepRegs, h, if_true]
  | elementStart pfx loc sp => rfl
  | elementEnd e sp =>
    cases e with
    | close pfx loc =>
      simp only [Token.prefixOk, Bool.not_eq_false'] at h
      simp only [Builder.stepRegs, h, if_true]
    | «open» => simp [Token.prefixOk] at h
    | empty => simp [Token.prefixOk] at h
  | _ => simp [Token.prefixOk] at h

end XotModel
