/-
  XotModel.Lemmas.ArenaStale — ids that are not (or no longer) the current id of a live slot.

  `classify a x` sorts every id into exactly one of four classes with respect to the arena `a`:
    `live`     the current id of a slot that holds a node;
    `freed`    REMOVED, the slot is on the free list (its stamp is negative) and the id's stamp is
               one the slot has handed out before;
    `stale`    REMOVED, the slot has been reused: it holds a node again, under a later stamp;
    `foreign`  never issued by this arena: index out of range (or 0), a negative stamp, or a stamp
               the slot has not reached yet.
  `Removed a x` = `freed` or `stale`.  The slot's stamp runs 0, -1, 1, -2, 2, …, 32766, -32767,
  32767, -32767, 32767, … (`Stamp.asRemoved`, `Stamp.reuse`): a slot whose stamp is `c ≥ 0` has
  issued the stamps `0 … c`, a slot whose stamp is `c < 0` the stamps `0 … -c - 1` (and, saturated
  at `c = -32767`, possibly 32767).

  What the operations look at is less than the class: whether the slot exists, the SIGN of the
  slot's stamp (`Node::is_removed`, used by the `checked_*` functions) or the EQUALITY of the two
  stamps (`NodeId::is_removed`).  `Freed` / `Stale` below are these slot-level conditions; the
  theorems about the calls are stated with them (so they also cover in-range foreign ids).

  This file: the classification, its relation to `LiveId` / `Gone`, removed-for-ever in terms of the
  classes, and the READ accessors on removed ids.  No accessor and no iterator writes: the arena
  reached is the arena given, whatever the id (`*_arena`).
-/
import XotModel.Lemmas.ArenaHistory

namespace XotModel
namespace Arena

/-- The class of an id with respect to an arena. -/
inductive IdClass where
  | live | freed | stale | foreign
  deriving DecidableEq, Repr

/-- Could a slot whose stamp is now `c < 0` have handed out the stamp `t`? -/
def Stamp.issuedFree (c t : Int) : Bool := decide (t < -c) || (decide (c = -32767) && decide (t = 32767))

/-- The classification (total, computable). -/
def classify (a : Arena) (x : NodeId) : IdClass :=
  if x.index1 = 0 ∨ x.stamp < 0 then .foreign
  else
    match a.nodes[x.index0]? with
    | none => .foreign
    | some s =>
      if 0 ≤ s.stamp then
        if s.stamp = x.stamp then .live else if x.stamp < s.stamp then .stale else .foreign
      else if Stamp.issuedFree s.stamp x.stamp then .freed else .foreign

/-- The id was issued by this arena and its node has been removed since. -/
def Removed (a : Arena) (x : NodeId) : Prop := a.classify x = .freed ∨ a.classify x = .stale

instance (a : Arena) (x : NodeId) : Decidable (Removed a x) := by unfold Removed; infer_instance

/-- The id's slot exists and is free (`arena[id].is_removed()`). -/
def Freed (a : Arena) (x : NodeId) : Prop := ∃ s, a.slot x.index0 = some s ∧ s.stamp < 0

/-- The id's slot exists and holds a node under ANOTHER stamp. -/
def Stale (a : Arena) (x : NodeId) : Prop := ∃ s, a.slot x.index0 = some s ∧ 0 ≤ s.stamp ∧ s.stamp ≠ x.stamp

/-- The id's slot exists and holds a node (under whatever stamp): live or stale. -/
def Occupied (a : Arena) (x : NodeId) : Prop := ∃ s, a.slot x.index0 = some s ∧ 0 ≤ s.stamp

theorem classify_live_iff (a : Arena) (x : NodeId) : a.classify x = .live ↔ LiveId a x := by
  unfold classify LiveId Live idAt slot
  by_cases h1 : x.index1 = 0 ∨ x.stamp < 0
  · rw [if_pos h1]
    constructor
    · intro h; cases h
    · rintro ⟨h2, ⟨s, hs, h0⟩, he⟩
      rcases h1 with h1 | h1
      · omega
      · rw [hs] at he
        have := congrArg NodeId.stamp he
        simp at this
        omega
  · rw [if_neg h1]
    have h11 : 1 ≤ x.index1 := by omega
    cases hs : a.nodes[x.index0]? with
    | none =>
      constructor
      · intro h; cases h
      · rintro ⟨_, ⟨s, hs', _⟩, _⟩; cases hs'
    | some s =>
      simp only []
      by_cases h0 : 0 ≤ s.stamp
      · rw [if_pos h0]
        by_cases he : s.stamp = x.stamp
        · rw [if_pos he]
          refine ⟨fun _ => ⟨h11, ⟨s, rfl, h0⟩, ?_⟩, fun _ => rfl⟩
          cases x with
          | mk i st =>
            simp only [NodeId.index0] at *
            simp only [he]
            congr 1; omega
        · rw [if_neg he]
          constructor
          · intro h; split at h <;> cases h
          · rintro ⟨_, _, e⟩
            exact absurd (by have := congrArg NodeId.stamp e; simpa using this) he
      · rw [if_neg h0]
        constructor
        · intro h; split at h <;> cases h
        · rintro ⟨_, ⟨s', hs', h0'⟩, _⟩
          cases hs'; exact absurd h0' h0

theorem classify_freed {a : Arena} {x : NodeId} (h : a.classify x = .freed) :
    Freed a x ∧ 1 ≤ x.index1 ∧ 0 ≤ x.stamp ∧
      ∃ s, a.slot x.index0 = some s ∧ (x.stamp < -s.stamp ∨ (s.stamp = -32767 ∧ x.stamp = 32767)) := by
  unfold classify at h
  split at h
  · cases h
  · rename_i h1
    split at h
    · cases h
    · rename_i s hs
      split at h
      · split at h
        · cases h
        · split at h <;> cases h
      · rename_i h0
        split at h
        · rename_i hi
          refine ⟨⟨s, hs, by omega⟩, by omega, by omega, s, hs, ?_⟩
          simpa [Stamp.issuedFree] using hi
        · cases h

theorem classify_stale {a : Arena} {x : NodeId} (h : a.classify x = .stale) :
    Stale a x ∧ 1 ≤ x.index1 ∧ 0 ≤ x.stamp ∧ ∃ s, a.slot x.index0 = some s ∧ x.stamp < s.stamp := by
  unfold classify at h
  split at h
  · cases h
  · rename_i h1
    split at h
    · cases h
    · rename_i s hs
      split at h
      · rename_i h0
        split at h
        · cases h
        · rename_i hne
          split at h
          · rename_i hlt
            exact ⟨⟨s, hs, h0, hne⟩, by omega, by omega, s, hs, hlt⟩
          · cases h
      · split at h <;> cases h

/-- `Gone` (the notion the removed-for-ever theorems are stated with) is `Removed` below saturation. -/
theorem Gone.removed {a : Arena} {x : NodeId} (h : Gone a x) (h1 : 1 ≤ x.index1) : Removed a x := by
  obtain ⟨s, hs, h0, hlt⟩ := h
  unfold Removed classify
  unfold slot at hs
  rw [if_neg (by omega), hs]
  simp only []
  by_cases hs0 : 0 ≤ s.stamp
  · right
    rw [if_pos hs0, if_neg (by omega), if_pos (by omega)]
  · left
    rw [if_neg hs0, if_pos (by simp [Stamp.issuedFree]; omega)]

theorem Removed.gone {a : Arena} {x : NodeId} (h : Removed a x) :
    Gone a x ∨ (x.stamp = 32767 ∧ ∃ s, a.slot x.index0 = some s ∧ s.stamp = -32767) := by
  rcases h with h | h
  · obtain ⟨_, _, h0, s, hs, hc⟩ := classify_freed h
    rcases hc with hc | hc
    · exact Or.inl ⟨s, hs, h0, Or.inr hc⟩
    · exact Or.inr ⟨hc.2, s, hs, hc.1⟩
  · obtain ⟨_, _, h0, s, hs, hc⟩ := classify_stale h
    exact Or.inl ⟨s, hs, h0, Or.inl hc⟩

theorem Removed.not_liveId {a : Arena} {x : NodeId} (h : Removed a x) : ¬ LiveId a x := by
  intro hl
  have := (classify_live_iff a x).mpr hl
  rcases h with h | h <;> rw [this] at h <;> cases h

theorem Removed.freed_or_stale {a : Arena} {x : NodeId} (h : Removed a x) : Freed a x ∨ Stale a x := by
  rcases h with h | h
  · exact Or.inl (classify_freed h).1
  · exact Or.inr (classify_stale h).1

/-- Removed is for ever, in terms of the classes: an id that is removed (freed or stale) and whose
    stamp is below 32767 is removed after every further history of calls. -/
theorem Removed.forever {a a' : Arena} {x : NodeId} (w : Wf a) (h : Removed a x) (hlt : x.stamp < 32767)
    (hist : Steps a a') : Removed a' x := by
  have h1 : 1 ≤ x.index1 := by
    rcases h with h | h
    · exact (classify_freed h).2.1
    · exact (classify_stale h).2.1
  rcases h.gone with hg | ⟨h32, _⟩
  · exact (hg.mono (hist.wf w).2).removed h1
  · omega

/-! ### The read accessors never write -/

theorem rd_arena {α : Type} (a : Arena) (id : NodeId) (k : Slot → Step α) (hk : ∀ s, (k s).arena = a) :
    (rd a id k).arena = a := by
  unfold rd
  split
  · rfl
  · exact hk _

theorem Step.bind_arena_const {α β : Type} (a : Arena) (s : Step α) (f : α → β) (h : s.arena = a) :
    (s.bind fun _ r => Step.done a (f r)).arena = a := by
  cases s with
  | done b v => rfl
  | panic b => exact h
  | diverge b => exact h

theorem isRemoved_arena (a : Arena) (x : NodeId) : (isRemoved a x).arena = a :=
  rd_arena a x _ (fun _ => rfl)

theorem value_arena (a : Arena) (x : NodeId) : (value a x).arena = a :=
  rd_arena a x _ (fun s => by cases s.data <;> rfl)

theorem walk_arena (a : Arena) (next : Slot → Option NodeId) :
    ∀ (limit : Nat) (cur : Option NodeId), (walk a next limit cur).arena = a
  | 0, _ => rfl
  | limit + 1, cur => by
    unfold walk
    cases cur with
    | none => rfl
    | some node =>
      exact rd_arena a node _ (fun s => Step.bind_arena_const a _ _ (walk_arena a next limit (next s)))

theorem walkTo_arena (a : Arena) (next : Slot → Option NodeId) :
    ∀ (limit : Nat) (head tail : Option NodeId), (walkTo a next limit head tail).arena = a
  | 0, _, _ => rfl
  | limit + 1, head, tail => by
    unfold walkTo
    cases head with
    | none => rfl
    | some h =>
      cases tail with
      | none => exact rd_arena a h _ (fun s => Step.bind_arena_const a _ _ (walkTo_arena a next limit (next s) none))
      | some t =>
        simp only []
        split
        · rfl
        · exact rd_arena a h _ (fun s => Step.bind_arena_const a _ _ (walkTo_arena a next limit (next s) (some t)))

theorem walkBack_arena (a : Arena) (nb : Slot → Option NodeId) :
    ∀ (limit : Nat) (head tail : Option NodeId), (walkBack a nb limit head tail).arena = a
  | 0, _, _ => rfl
  | limit + 1, head, tail => by
    unfold walkBack
    cases tail with
    | none => cases head <;> rfl
    | some t =>
      cases head with
      | none => exact rd_arena a t _ (fun s => Step.bind_arena_const a _ _ (walkBack_arena a nb limit (nb s) (some t)))
      | some h =>
        simp only []
        split
        · rfl
        · exact rd_arena a t _ (fun s => Step.bind_arena_const a _ _ (walkBack_arena a nb limit (nb s) (some t)))

theorem parentField_arena {α : Type} (a : Arena) (id : NodeId) (f : Slot → Option NodeId) (k : Option NodeId → Step α)
    (hk : ∀ o, (k o).arena = a) : (parentField a id f k).arena = a := by
  unfold parentField
  split
  · rfl
  · split
    · exact hk _
    · split <;> exact hk _

theorem nextTraverse_arena {α : Type} (a : Arena) (e : NodeEdge) (k : Option NodeEdge → Step α)
    (hk : ∀ o, (k o).arena = a) : (nextTraverse a e k).arena = a := by
  unfold nextTraverse
  cases e with
  | start n => exact rd_arena a n _ (fun s => by cases s.first <;> exact hk _)
  | «end» n => exact rd_arena a n _ (fun s => by cases s.next <;> exact hk _)

theorem prevTraverse_arena {α : Type} (a : Arena) (e : NodeEdge) (k : Option NodeEdge → Step α)
    (hk : ∀ o, (k o).arena = a) : (prevTraverse a e k).arena = a := by
  unfold prevTraverse
  cases e with
  | start n => exact rd_arena a n _ (fun s => by cases s.prev <;> exact hk _)
  | «end» n => exact rd_arena a n _ (fun s => by cases s.last <;> exact hk _)

theorem traverseGo_arena (a : Arena) (root : NodeId) :
    ∀ (limit : Nat) (cur : Option NodeEdge), (traverseGo a root limit cur).arena = a
  | 0, _ => rfl
  | limit + 1, cur => by
    unfold traverseGo
    cases cur with
    | none => rfl
    | some e =>
      simp only []
      split
      · exact Step.bind_arena_const a _ _ (traverseGo_arena a root limit none)
      · exact nextTraverse_arena a e _ (fun o => Step.bind_arena_const a _ _ (traverseGo_arena a root limit o))

theorem reverseTraverseGo_arena (a : Arena) (root : NodeId) :
    ∀ (limit : Nat) (cur : Option NodeEdge), (reverseTraverseGo a root limit cur).arena = a
  | 0, _ => rfl
  | limit + 1, cur => by
    unfold reverseTraverseGo
    cases cur with
    | none => rfl
    | some e =>
      simp only []
      split
      · exact Step.bind_arena_const a _ _ (reverseTraverseGo_arena a root limit none)
      · exact prevTraverse_arena a e _ (fun o => Step.bind_arena_const a _ _ (reverseTraverseGo_arena a root limit o))

/-- Every iterator, from every id (live, removed, foreign), on every arena: the arena reached is the
    arena given. -/
theorem iterators_arena (a : Arena) (x : NodeId) (limit : Nat) :
    (ancestors a x limit).arena = a ∧ (predecessors a x limit).arena = a ∧ (children a x limit).arena = a ∧
    (childrenRev a x limit).arena = a ∧ (reverseChildren a x limit).arena = a ∧
    (followingSiblings a x limit).arena = a ∧ (precedingSiblings a x limit).arena = a ∧
    (traverse a x limit).arena = a ∧ (reverseTraverse a x limit).arena = a ∧ (descendants a x limit).arena = a :=
  ⟨walk_arena a _ limit _, walk_arena a _ limit _, rd_arena a x _ (fun s => walkTo_arena a _ limit _ _),
   rd_arena a x _ (fun s => walkBack_arena a _ limit _ _), rd_arena a x _ (fun s => walk_arena a _ limit _),
   parentField_arena a x _ _ (fun o => walkTo_arena a _ limit _ _),
   parentField_arena a x _ _ (fun o => walkTo_arena a _ limit _ _),
   traverseGo_arena a x limit _, reverseTraverseGo_arena a x limit _,
   Step.bind_arena_const a _ _ (traverseGo_arena a x limit _)⟩

/-! ### The read accessors on removed and foreign ids -/

/-- `NodeId::is_removed` of an id whose slot is free: `true` (the id's stamp is not negative). -/
theorem Freed.isRemoved {a : Arena} {x : NodeId} (h : Freed a x) (h0 : 0 ≤ x.stamp) :
    Arena.isRemoved a x = .done a true := by
  obtain ⟨s, hs, hn⟩ := h
  unfold Arena.isRemoved
  rw [rd_some _ _ _ _ hs]
  have : s.stamp ≠ x.stamp := by omega
  simp [this]

/-- `NodeId::is_removed` of an id whose slot has been reused: `true`. -/
theorem Stale.isRemoved {a : Arena} {x : NodeId} (h : Stale a x) : Arena.isRemoved a x = .done a true := by
  obtain ⟨s, hs, _, hne⟩ := h
  unfold Arena.isRemoved
  rw [rd_some _ _ _ _ hs]
  simp [hne]

theorem Removed.isRemoved {a : Arena} {x : NodeId} (h : Removed a x) : Arena.isRemoved a x = .done a true := by
  rcases h with h | h
  · exact (classify_freed h).1.isRemoved (classify_freed h).2.2.1
  · exact (classify_stale h).1.isRemoved

/-- `NodeId::is_removed` of an id beyond the slot vector: `arena[self]` panics (index out of bounds). -/
theorem isRemoved_out_of_range {a : Arena} {x : NodeId} (h : a.slot x.index0 = none) :
    Arena.isRemoved a x = .panic a := by
  unfold Arena.isRemoved rd
  unfold slot at h
  rw [h]

/-- `Arena::get` does not look at the stamp: for an id whose slot is free it returns the freed slot
    (`Node::is_removed()` is `true` on it) … -/
theorem Freed.get {a : Arena} {x : NodeId} (h : Freed a x) : ∃ s, a.get x = some s ∧ s.isRemoved = true := by
  obtain ⟨s, hs, hn⟩ := h
  exact ⟨s, hs, by simp [Slot.isRemoved, Stamp.isRemoved, hn]⟩

/-- … and for a stale id the slot of the NEW occupant. -/
theorem Stale.get {a : Arena} {x : NodeId} (h : Stale a x) :
    ∃ s, a.get x = some s ∧ s.isRemoved = false ∧ s.stamp ≠ x.stamp ∧ LiveId a ⟨x.index0 + 1, s.stamp⟩ := by
  obtain ⟨s, hs, h0, hne⟩ := h
  refine ⟨s, hs, by simp [Slot.isRemoved, Stamp.isRemoved]; omega, hne, ?_⟩
  have := LiveId.idAt (a := a) (i := x.index0) ⟨s, hs, h0⟩
  rwa [idAt_of_slot hs] at this

/-- `arena[id].get()` on an id whose slot is free: `unreachable!("Try to access a freed node")`. -/
theorem Freed.value_panics {a : Arena} {g : Shape} (r : Rep a g) {x : NodeId} (h : Freed a x) :
    Arena.value a x = .panic a := by
  obtain ⟨s, hs, hn⟩ := h
  unfold Arena.value
  rw [rd_some _ _ _ _ hs]
  cases hd : s.data with
  | nextFree n => rfl
  | data v =>
    have := (r.dataLive _ s hs).mpr ⟨v, hd⟩
    omega

/-- … on a stale id: the payload of the new occupant. -/
theorem Stale.value {a : Arena} {g : Shape} (r : Rep a g) {x : NodeId} (h : Stale a x) :
    ∃ v, Arena.value a x = .done a v := by
  obtain ⟨s, hs, h0, _⟩ := h
  obtain ⟨v, hv⟩ := (r.dataLive _ s hs).mp h0
  refine ⟨v, ?_⟩
  unfold Arena.value
  rw [rd_some _ _ _ _ hs, hv]

/-- `Arena::get_node_id_at` only ever answers with a live id. -/
theorem getNodeIdAt_live {a : Arena} {i : Nat} {x : NodeId} (h1 : 1 ≤ i) (h : a.getNodeIdAt i = some x) : LiveId a x := by
  unfold getNodeIdAt at h
  split at h
  · cases h
  · rename_i n hn
    split at h
    · cases h
    · rename_i hr
      cases h
      have h0 : 0 ≤ n.stamp := by
        simp [Slot.isRemoved, Stamp.isRemoved] at hr; exact hr
      have hl : Live a (i - 1) := ⟨n, hn, h0⟩
      have := LiveId.idAt hl
      rw [idAt_of_slot (show a.slot (i - 1) = some n from hn)] at this
      have e : i - 1 + 1 = i := by omega
      rwa [e] at this

end Arena
end XotModel
