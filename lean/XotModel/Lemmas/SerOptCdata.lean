/-
  Character level of C14_options, CDATA-section elements: `serialize_cdata s` IS the canonical rendering of
  the run `cdataPartsGo [] s` (CDATA tokens, and one text token `&#xD;` between two sections for every
  carriage return); the run denotes `s` (no carriage return ever stands inside a section, so the parser's
  line-end normalisation changes nothing), every part is well spelled, every token meets the tokenizer's
  side condition (no `]]>` inside a section), no two text tokens are neighbours.
-/
import XotModel.Lemmas.SerOptChars
import XotModel.Lemmas.SerTokensEvents

namespace XotModel
open Gen

/-! ### Rendering -/

theorem startsBrBr_replicate (k : Nat) (cur : Str) (hk : k ≤ 2) (hcur : k < 2 → cur.head? ≠ some ']') :
    startsBrBr (List.replicate k ']' ++ cur) = decide (k = 2) := by
  match k, hk with
  | 0, _ =>
    have h0 := hcur (by omega)
    match cur, h0 with
    | [], _ => rfl
    | [a], h0 =>
      have : a ≠ ']' := fun e => h0 (by simp [e])
      simp [startsBrBr]
    | a :: b :: r, h0 =>
      have : a ≠ ']' := fun e => h0 (by simp [e])
      simp [startsBrBr, this]
  | 1, _ =>
    have h0 := hcur (by omega)
    match cur, h0 with
    | [], _ => rfl
    | a :: r, h0 =>
      have : a ≠ ']' := fun e => h0 (by simp [e])
      simp [startsBrBr, List.replicate, this]
  | 2, _ => simp [startsBrBr, List.replicate]

theorem renderToken_cd (x : Str) :
    renderToken (SPart.token (.cd (sp0 x) noSpan)) = cdataOpen ++ x ++ cdataClose := by
  simp [SPart.token, renderToken, sp0, cdataOpen, cdataClose]

theorem renderToken_crPart : renderToken (SPart.token crPart) = ['&', '#', 'x', 'D', ';'] := by decide

/-- `serialize_cdata`, mid-way: `k` brackets pending, `cur` (reversed) already written into the section. -/
theorem render_cdataPartsGo (s : Str) : ∀ (k : Nat) (cur : Str), k ≤ 2 → (k < 2 → cur.head? ≠ some ']') →
    renderTokens ((cdataPartsGo (List.replicate k ']' ++ cur) s).map SPart.token) =
      cdataOpen ++ (cur.reverse ++ serializeCdataGo k s) := by
  induction s with
  | nil =>
    intro k cur _ _
    simp only [cdataPartsGo, List.map_cons, List.map_nil, renderTokens_single, renderToken_cd,
      serializeCdataGo, List.reverse_append, List.reverse_replicate, List.append_assoc]
  | cons c cs ih =>
    intro k cur hk hcur
    have hbr := startsBrBr_replicate k cur hk hcur
    unfold cdataPartsGo serializeCdataGo
    by_cases hb : c = ']'
    · subst hb
      have e1 : ¬ (']' = '>' ∧ startsBrBr (List.replicate k ']' ++ cur) = true) := by
        intro h; exact absurd h.1 (by decide)
      have e2 : ¬ (']' = '\r') := by decide
      simp only [e1, e2, if_false, if_true]
      by_cases hk2 : k < 2
      · simp only [hk2, if_true]
        have := ih (k + 1) cur (by omega) (fun h => hcur (by omega))
        rw [List.replicate_succ, List.cons_append] at this
        exact this
      · have hk' : k = 2 := by omega
        subst hk'
        simp only [Nat.lt_irrefl, if_false]
        have := ih 2 (']' :: cur) (by omega) (fun h => absurd h (by omega))
        have e : ']' :: (List.replicate 2 ']' ++ cur) = List.replicate 2 ']' ++ ']' :: cur := by
          simp [List.replicate]
        rw [e, this]
        simp
    · simp only [hb, if_false]
      by_cases hg : c = '>'
      · subst hg
        by_cases hk2 : k = 2
        · subst hk2
          have hbr' : startsBrBr (List.replicate 2 ']' ++ cur) = true := by rw [hbr]; rfl
          simp only [hbr', and_self, if_true, List.map_cons, renderTokens_cons, renderToken_cd]
          have := ih 0 ['>'] (by omega) (fun _ => by simp)
          simp only [List.replicate_zero, List.nil_append] at this
          rw [this]
          simp [cdataSplit, cdataOpen, cdataClose, List.replicate]
        · have hbr' : startsBrBr (List.replicate k ']' ++ cur) = false := by rw [hbr]; simp [hk2]
          have e2 : ¬ ('>' = '\r') := by decide
          simp only [hbr', Bool.false_eq_true, and_false, if_false, hk2, e2]
          have := ih 0 ('>' :: (List.replicate k ']' ++ cur)) (by omega) (fun _ => by simp)
          simp only [List.replicate_zero, List.nil_append] at this
          rw [this]
          simp [List.reverse_replicate]
      · have e1 : ¬ (c = '>' ∧ startsBrBr (List.replicate k ']' ++ cur) = true) := fun h => hg h.1
        simp only [hg, false_and, if_false]
        by_cases hr : c = '\r'
        · subst hr
          simp only [if_true, List.map_cons, renderTokens_cons, renderToken_cd, renderToken_crPart]
          have := ih 0 [] (by omega) (fun _ => by simp)
          simp only [List.replicate_zero, List.nil_append, List.reverse_nil] at this
          rw [this]
          simp [cdataCr, cdataOpen, cdataClose, List.reverse_replicate]
        · simp only [hr, if_false]
          have := ih 0 (c :: (List.replicate k ']' ++ cur)) (by omega) (fun _ => by simp [hb])
          simp only [List.replicate_zero, List.nil_append] at this
          rw [this]
          simp [List.reverse_replicate]

/-- **`serialize_cdata s` is the canonical rendering of `cdataTokens s`.** -/
theorem renderTokens_cdataTokens (s : Str) : renderTokens (cdataTokens s) = serializeCdata s := by
  have := render_cdataPartsGo s 0 [] (by omega) (fun _ => by simp)
  simpa [cdataTokens, serializeCdata] using this

/-! ### Value -/

theorem replaceCrLf_noCr : ∀ (x : Str), '\r' ∉ x → replaceCrLf x = x
  | [], _ => rfl
  | [c], _ => rfl
  | c :: d :: rest, h => by
    have hc : c ≠ '\r' := fun e => h (by simp [e])
    have := replaceCrLf_noCr (d :: rest) (fun h' => h (List.mem_cons_of_mem _ h'))
    simp only [replaceCrLf, hc, false_and, if_false, this]

theorem replaceCr_noCr (x : Str) (h : '\r' ∉ x) : replaceCr x = x := by
  induction x with
  | nil => rfl
  | cons c cs ih =>
    have hc : c ≠ '\r' := fun e => h (by simp [e])
    have := ih (fun h' => h (List.mem_cons_of_mem _ h'))
    simp only [replaceCr, List.map_cons, hc, if_false] at this ⊢
    rw [this]

/-- A section without carriage return is read back verbatim. -/
theorem cdValue_noCr (x : Str) (h : '\r' ∉ x) : SPart.value (.cd (sp0 x) noSpan) = x := by
  simp only [SPart.value, sp0, replaceCrLf_noCr x h, replaceCr_noCr x h]

theorem crPart_value : SPart.value crPart = ['\r'] := by decide

/-- The run denotes the string; in particular **no carriage return stands inside a section**. -/
theorem partsValue_cdataPartsGo (s : Str) : ∀ (rc : Str), '\r' ∉ rc →
    partsValue (cdataPartsGo rc s) = rc.reverse ++ s := by
  induction s with
  | nil =>
    intro rc h
    simp [cdataPartsGo, partsValue, cdValue_noCr rc.reverse (by simpa using h)]
  | cons c cs ih =>
    intro rc h
    have hrev : '\r' ∉ rc.reverse := by simpa using h
    unfold cdataPartsGo
    split
    · rename_i hc
      have := ih ['>'] (by decide)
      simp only [partsValue] at this
      simp [partsValue, cdValue_noCr _ hrev, this, hc.1]
    · split
      · rename_i hc
        have := ih [] (by simp)
        simp only [partsValue] at this
        simp [partsValue, cdValue_noCr _ hrev, this, hc, crPart_value]
      · rename_i _ hc
        have := ih (c :: rc) (by simp [h, Ne.symm hc])
        rw [this]
        simp

/-- Every CDATA section of the run is free of carriage returns. -/
theorem cdataPartsGo_noCr (s : Str) : ∀ (rc : Str), '\r' ∉ rc →
    ∀ t j, SPart.cd t j ∈ cdataPartsGo rc s → '\r' ∉ t.text := by
  induction s with
  | nil =>
    intro rc h t j hm
    simp only [cdataPartsGo, List.mem_singleton, SPart.cd.injEq] at hm
    rw [hm.1]; simpa [sp0] using h
  | cons c cs ih =>
    intro rc h t j hm
    unfold cdataPartsGo at hm
    split at hm
    · rcases List.mem_cons.mp hm with hm | hm
      · simp only [SPart.cd.injEq] at hm; rw [hm.1]; simpa [sp0] using h
      · exact ih ['>'] (by decide) t j hm
    · split at hm
      · rcases List.mem_cons.mp hm with hm | hm
        · simp only [SPart.cd.injEq] at hm; rw [hm.1]; simpa [sp0] using h
        · rcases List.mem_cons.mp hm with hm | hm
          · simp [crPart] at hm
          · exact ih [] (by simp) t j hm
      · rename_i _ hc
        exact ih (c :: rc) (by simp [h, Ne.symm hc]) t j hm

/-! ### Well spelled, tokenizer side conditions, shape -/

theorem crPart_well : crPart.Well := by
  refine ⟨by simp, ?_⟩
  exact wellSpelled_cons (by simp) (hex_ok 13 (by decide) (by decide)) trivial

theorem cdataPartsGo_well (s : Str) : ∀ (rc : Str), ∀ p ∈ cdataPartsGo rc s, p.Well := by
  induction s with
  | nil => intro rc p hp; simp only [cdataPartsGo, List.mem_singleton] at hp; subst hp; trivial
  | cons c cs ih =>
    intro rc p hp
    unfold cdataPartsGo at hp
    split at hp
    · rcases List.mem_cons.mp hp with rfl | hp
      · trivial
      · exact ih _ p hp
    · split at hp
      · rcases List.mem_cons.mp hp with rfl | hp
        · trivial
        · rcases List.mem_cons.mp hp with rfl | hp
          · exact crPart_well
          · exact ih _ p hp
      · exact ih _ p hp

theorem cd_lexOK {x : Str} (h1 : x.all isXmlChar = true) (h2 : hasCdataEnd x = false) :
    (SPart.token (.cd (sp0 x) noSpan)).lexOK = true := by
  simp [SPart.token, Token.lexOK, sp0, hasInfix_cdataEnd, h2, -List.all_eq_true, h1]

theorem crPart_lexOK : (SPart.token crPart).lexOK = true := by decide

/-- Every token of the run meets the tokenizer's side condition: XML characters, no `]]>` in a section. -/
theorem cdataPartsGo_lexOK (s : Str) (hs : s.all isXmlChar = true) : ∀ (rc : Str), rc.all isXmlChar = true →
    hasCdataEnd rc.reverse = false → ∀ p ∈ cdataPartsGo rc s, (SPart.token p).lexOK = true := by
  induction s with
  | nil =>
    intro rc h1 h2 p hp
    simp only [cdataPartsGo, List.mem_singleton] at hp
    subst hp
    exact cd_lexOK (by simpa using h1) h2
  | cons c cs ih =>
    intro rc h1 h2 p hp
    simp only [List.all_cons, Bool.and_eq_true] at hs
    have hrev : rc.reverse.all isXmlChar = true := by simpa using h1
    unfold cdataPartsGo at hp
    split at hp
    · rcases List.mem_cons.mp hp with rfl | hp
      · exact cd_lexOK hrev h2
      · exact ih hs.2 ['>'] (by decide) (by decide) p hp
    · rename_i hsplit
      split at hp
      · rcases List.mem_cons.mp hp with rfl | hp
        · exact cd_lexOK hrev h2
        · rcases List.mem_cons.mp hp with rfl | hp
          · exact crPart_lexOK
          · exact ih hs.2 [] rfl rfl p hp
      · apply ih hs.2 (c :: rc) (by simp [hs.1, h1]) _ p hp
        simp only [List.reverse_cons]
        by_cases hg : c = '>'
        · subst hg
          apply hasCdataEnd_append_gt _ h2
          intro r hr
          rw [List.reverse_reverse] at hr
          apply hsplit
          refine ⟨rfl, ?_⟩
          rw [hr]; rfl
        · rw [hasCdataEnd_append_noGt _ _ (by simpa using Ne.symm hg)]
          exact h2

def SPart.isCd : SPart → Bool
  | .cd _ _ => true
  | _ => false

theorem cdataPartsGo_head (rc s : Str) : ∃ t rest, cdataPartsGo rc s = .cd t noSpan :: rest := by
  induction s generalizing rc with
  | nil => exact ⟨_, _, rfl⟩
  | cons c cs ih =>
    unfold cdataPartsGo
    split
    · exact ⟨_, _, rfl⟩
    · split
      · exact ⟨_, _, rfl⟩
      · exact ih _

theorem cdataPartsGo_noAdj (s : Str) : ∀ (rc : Str),
    noAdjTextTok ((cdataPartsGo rc s).map SPart.token) = true := by
  induction s with
  | nil => intro rc; rfl
  | cons c cs ih =>
    intro rc
    unfold cdataPartsGo
    split
    · obtain ⟨t, rest, e⟩ := cdataPartsGo_head ['>'] cs
      have := ih ['>']
      rw [e] at this ⊢
      simpa [noAdjTextTok, SPart.token, Token.isText] using this
    · split
      · obtain ⟨t, rest, e⟩ := cdataPartsGo_head [] cs
        have := ih []
        rw [e] at this ⊢
        simpa [noAdjTextTok, SPart.token, Token.isText, crPart] using this
      · exact ih _

theorem parts_charData (ps : List SPart) : ∀ k ∈ ps.map SPart.token, k.isCharData = true := by
  intro k hk
  obtain ⟨p, _, rfl⟩ := List.mem_map.mp hk
  cases p <;> rfl

/-- The tokens `serialize_cdata s` stands for may replace a text token. -/
theorem cdataTokens_goodRun (s : Str) (hs : s.all isXmlChar = true) : GoodRun (cdataTokens s) := by
  refine ⟨?_, ?_, parts_charData _, cdataPartsGo_noAdj s []⟩
  · obtain ⟨t, rest, e⟩ := cdataPartsGo_head [] s
    simp [cdataTokens, e]
  · intro k hk
    obtain ⟨p, hp, rfl⟩ := List.mem_map.mp hk
    exact cdataPartsGo_lexOK s hs [] rfl rfl p hp

end XotModel
