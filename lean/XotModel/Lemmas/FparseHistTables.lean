/-
  FparseHist, part 5: the interning tables along histories that parse and edit.

  An extended API call only appends to the PREFIX table (`create_missing_prefixes`: `add_prefix`; every other
  call leaves the tables alone) — `Repair.PrefixExt`, for all stores and arguments —, so well-formed tables
  (`envOK`) stay well formed; an accepted parse keeps `envOK` too (`fph_accepted_envOK`).  Hence every parse of
  a history without REJECTED parses runs on well-formed tables (`fph_parsesOnOKTables_of_noRejected`), which is
  what the uniqueness of the xml:id index keys needs (`C04_reach_full_index`).  (What a rejected parse leaves in
  the tables is not characterised.)
-/
import XotModel.Lemmas.FparseValsDomain
import XotModel.Lemmas.FparseHistIds

namespace XotModel
open HTree Repair

namespace Forest

theorem fpht_repairCalls_ext {env : Env} {f : Forest} {node : Nat} {env' : Env} {calls : List Call}
    (h : f.repairCalls env node = some (env', calls)) : PrefixExt env env' := by
  unfold repairCalls at h
  split at h
  · cases h
  · rename_i r _
    split at h
    · cases h
    · rename_i path _
      dsimp only at h
      split at h
      · cases h
      · rename_i sub _
        split at h
        · cases h
        · split at h
          · cases h
          · rename_i env1 nd ha
            simp only [Option.some.injEq, Prod.mk.injEq] at h
            obtain ⟨rfl, _⟩ := h
            exact (assignPrefixes_ext _ _ _ _ _ _ ha).1

theorem fpht_repairElementF_ext (env : Env) (f : Forest) (node : Nat) :
    PrefixExt env (f.repairElementF env node).2.1 := by
  unfold repairElementF
  cases hr : f.repairCalls env node with
  | none => exact PrefixExt.refl _
  | some ec => exact fpht_repairCalls_ext hr

theorem fpht_repairElementsF_ext : ∀ (es : List Nat) (env : Env) (f : Forest),
    PrefixExt env (repairElementsF es env f).2.1
  | [], env, _ => PrefixExt.refl env
  | e :: rest, env, f => by
    have h1 := fpht_repairElementF_ext env f e
    unfold repairElementsF
    rcases hc : f.repairElementF env e with ⟨f', env', r⟩
    rw [hc] at h1
    cases r with
    | ok => exact h1.trans (fpht_repairElementsF_ext rest env' f')
    | err e => exact h1
    | panic => exact h1

theorem fpht_createMissingPrefixes_ext (env : Env) (f : Forest) (node : Nat) :
    PrefixExt env (f.createMissingPrefixes env node).2.1 := by
  unfold createMissingPrefixes
  by_cases hd : f.isDocument node = true
  · rw [if_pos hd]
    cases f.get? node with
    | none => exact PrefixExt.refl _
    | some t =>
      simp only
      split
      · exact PrefixExt.refl _
      · exact fpht_repairElementsF_ext _ env f
  · rw [if_neg hd]
    split
    · exact PrefixExt.refl _
    · exact fpht_repairElementF_ext env f node

/-- **An extended call only appends to the prefix table**, for all stores and arguments. -/
theorem fpht_xcall_ext (s : Store) (c : XCall) : PrefixExt s.env (c.run s).1.env := by
  cases c with
  | createMissingPrefixes n => exact fpht_createMissingPrefixes_ext s.env s.forest n
  | _ => exact PrefixExt.refl _

end Forest

namespace PStore

/-- An API step keeps the tables well formed. -/
theorem fpht_envOK_step_api (s : PStore) (c : Forest.XCall) (h : envOK s.env = true) :
    envOK (s.step (.api c)).env = true := envOK_ext (Forest.fpht_xcall_ext s.store c) h

/-- A history without rejected parses, from well-formed tables: every parse runs on well-formed tables,
    and the tables are well formed at the end. -/
theorem fpht_parsesOnOKTables_of_noRejected : ∀ (cs : List PCall) (s : PStore), envOK s.env = true →
    s.noRejected cs → s.parsesOnOKTables cs ∧ envOK (s.run cs).env = true
  | [], _, he, _ => ⟨trivial, he⟩
  | .api c :: cs, s, he, hn =>
    fpht_parsesOnOKTables_of_noRejected cs (s.step (.api c)) (fpht_envOK_step_api s c he) hn
  | .parse m text :: cs, s, he, hn => by
    obtain ⟨⟨p, hp⟩, hn'⟩ := hn
    have he' : envOK (s.step (.parse m text)).env = true := by
      rw [fph_step_parse_ok s hp]; exact fph_accepted_envOK he hp
    obtain ⟨h1, h2⟩ := fpht_parsesOnOKTables_of_noRejected cs (s.step (.parse m text)) he' hn'
    exact ⟨⟨he, h1⟩, h2⟩

end PStore
end XotModel
