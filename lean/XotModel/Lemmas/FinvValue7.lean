/-
  Finv (C04), part 39: the root of a moved subtree.  If the moved node is still live after the
  move it has exactly the value it had: a text node that arrives next to a text node is merged
  into that node and removed (`add_consolidate_text_nodes` answers `true` and the move ends there);
  otherwise nothing writes to it.
-/
import XotModel.Lemmas.FinvValue6

namespace XotModel
open HTree

namespace Forest

/-- Only the previous sibling of `c` may be extended. -/
def PrevOf (f : Forest) (c : Nat) : Nat → Prop := fun q => f.prevSibling c = some q

theorem vstep_afterOldSite (f : Forest) (c : Nat) :
    VStep (fun _ => False) (f.PrevOf c) f (f.afterOldSite c) :=
  vstep_removeConsolidate f _ _ (fun _ h => h)

/-- The tail shared by the four moves: after the old-site merge, `add_consolidate_text_nodes`
    either deletes `c` (answer `true`) or changes nothing; `k` is the rest of the move. -/
theorem move_root_exact {f : Forest} (hi : f.Inv) {c : Nat} {v v' : Value} (prev next : Option Nat)
    (k : Forest → Forest × Res)
    (hk : ∀ g, VStep (fun _ => False) (f.PrevOf c) g (k g).1)
    (hv : f.value? c = some v)
    (hv' : (if ((f.afterOldSite c).addConsolidate c prev next).2 = true
        then (((f.afterOldSite c).addConsolidate c prev next).1, Res.ok)
        else k ((f.afterOldSite c).addConsolidate c prev next).1).1.value? c = some v') : v' = v := by
  have w := hi.toW
  have w1 := afterOldSite_W w c
  obtain ⟨_, hsame, _, hdead⟩ := addConsolidate_spec w1 c prev next
  have h1 := vstep_afterOldSite f c
  cases hflag : ((f.afterOldSite c).addConsolidate c prev next).2 with
  | true =>
    rw [hflag] at hv'
    simp only [if_true] at hv'
    have := hdead hflag
    rw [isLive_iff_value?, hv'] at this
    cases this
  | false =>
    rw [hflag] at hv'
    simp only [Bool.false_eq_true, if_false] at hv'
    rw [hsame hflag] at hv'
    rcases (h1.trans (hk _)).value hi hv hv' with e | e | e
    · exact e
    · exact absurd e.1 (fun h => (prevSibling_sib w h).ne rfl)
    · exact e.1.elim

theorem append_root_exact {f : Forest} (hi : f.Inv) (p c : Nat) {v v' : Value}
    (hv : f.value? c = some v) (hv' : (f.append p c).1.value? c = some v') : v' = v := by
  unfold append at hv'
  split at hv'
  · rw [hv] at hv'; cases hv'; rfl
  split at hv'
  · rw [hv] at hv'; cases hv'; rfl
  refine move_root_exact hi ((f.afterOldSite c).lastChild p) none
    (fun g => (if (g.checkedAppend p c).2 = true then ((g.checkedAppend p c).1, Res.ok)
      else ((g.checkedAppend p c).1, Res.err .nodeError))) ?_ hv ?_
  · intro g
    have := (vstep_checked (S := fun _ => False) (T := f.PrevOf c) g p c).1
    split <;> exact this
  · unfold afterOldSite
    rcases hr : f.removeConsolidate (f.prevSibling c) (f.nextSibling c) with ⟨f1, b1⟩
    rw [hr] at hv'
    simp only at hv' ⊢
    rcases ha : f1.addConsolidate c (f1.lastChild p) none with ⟨f2, cc⟩
    rw [ha] at hv'
    simp only at hv' ⊢
    cases cc with
    | true => simpa using hv'
    | false =>
      simp only [Bool.false_eq_true, if_false] at hv' ⊢
      rcases hc : f2.checkedAppend p c with ⟨f3, okb⟩
      rw [hc] at hv'
      simp only at hv' ⊢
      cases okb <;> simpa using hv'

theorem prepend_root_exact {f : Forest} (hi : f.Inv) (p c : Nat) {v v' : Value}
    (hv : f.value? c = some v) (hv' : (f.prepend p c).1.value? c = some v') : v' = v := by
  unfold prepend at hv'
  split at hv'
  · rw [hv] at hv'; cases hv'; rfl
  split at hv'
  · rw [hv] at hv'; cases hv'; rfl
  let X : Forest → Forest × Bool := fun g =>
    match g.prependPoint p with
    | some ip => g.checkedInsertAfter ip c
    | none => g.checkedPrepend p c
  refine move_root_exact hi none ((f.afterOldSite c).firstChild p)
    (fun g => (if (X g).2 = true then ((X g).1, Res.ok) else ((X g).1, Res.err .nodeError))) ?_ hv ?_
  · intro g
    have : VStep (fun _ => False) (f.PrevOf c) g (X g).1 := by
      show VStep _ _ g (match g.prependPoint p with
        | some ip => g.checkedInsertAfter ip c
        | none => g.checkedPrepend p c).1
      cases g.prependPoint p with
      | some ip => exact (vstep_checked g ip c).2.2.1
      | none => exact (vstep_checked g p c).2.1
    split <;> exact this
  · unfold afterOldSite
    rcases hr : f.removeConsolidate (f.prevSibling c) (f.nextSibling c) with ⟨f1, b1⟩
    rw [hr] at hv'
    simp only at hv' ⊢
    rcases ha : f1.addConsolidate c none (f1.firstChild p) with ⟨f2, cc⟩
    rw [ha] at hv'
    simp only at hv' ⊢
    cases cc with
    | true => simpa using hv'
    | false =>
      simp only [Bool.false_eq_true, if_false] at hv' ⊢
      revert hv'
      show _ → (if (X f2).2 = true then ((X f2).1, Res.ok) else ((X f2).1, Res.err XotError.nodeError)).1.value? c = some v'
      simp only [X]
      cases f2.prependPoint p with
      | some ip =>
        simp only
        intro hv'
        rcases hc : f2.checkedInsertAfter ip c with ⟨f3, okb⟩
        rw [hc] at hv'
        simp only at hv' ⊢
        cases okb <;> simpa using hv'
      | none =>
        simp only
        intro hv'
        rcases hc : f2.checkedPrepend p c with ⟨f3, okb⟩
        rw [hc] at hv'
        simp only at hv' ⊢
        cases okb <;> simpa using hv'

theorem insertBefore_root_exact {f : Forest} (hi : f.Inv) (r c : Nat) {v v' : Value}
    (hv : f.value? c = some v) (hv' : (f.insertBefore r c).1.value? c = some v') : v' = v := by
  unfold insertBefore at hv'
  split at hv'
  · rw [hv] at hv'; cases hv'; rfl
  split at hv'
  · rw [hv] at hv'; cases hv'; rfl
  split at hv'
  · rw [hv] at hv'; cases hv'; rfl
  refine move_root_exact hi ((f.afterOldSite c).prevSibling r) (some r)
    (fun g => (if (g.checkedInsertBefore r c).2 = true then ((g.checkedInsertBefore r c).1, Res.ok)
      else ((g.checkedInsertBefore r c).1, Res.err .nodeError))) ?_ hv ?_
  · intro g
    have := (vstep_checked (S := fun _ => False) (T := f.PrevOf c) g r c).2.2.2
    split <;> exact this
  · unfold afterOldSite
    rcases hr : f.removeConsolidate (f.prevSibling c) (f.nextSibling c) with ⟨f1, b1⟩
    rw [hr] at hv'
    simp only at hv' ⊢
    rcases ha : f1.addConsolidate c (f1.prevSibling r) (some r) with ⟨f2, cc⟩
    rw [ha] at hv'
    simp only at hv' ⊢
    cases cc with
    | true => simpa using hv'
    | false =>
      simp only [Bool.false_eq_true, if_false] at hv' ⊢
      rcases hc : f2.checkedInsertBefore r c with ⟨f3, okb⟩
      rw [hc] at hv'
      simp only at hv' ⊢
      cases okb <;> simpa using hv'

theorem insertAfter_root_exact {f : Forest} (hi : f.Inv) (r c : Nat) {v v' : Value}
    (hv : f.value? c = some v) (hv' : (f.insertAfter r c).1.value? c = some v') : v' = v := by
  unfold insertAfter at hv'
  split at hv'
  · rw [hv] at hv'; cases hv'; rfl
  split at hv'
  · rw [hv] at hv'; cases hv'; rfl
  split at hv'
  · rw [hv] at hv'; cases hv'; rfl
  refine move_root_exact hi (some (f.insertAfterRef r c))
    ((f.afterOldSite c).nextSibling (f.insertAfterRef r c))
    (fun g => (if (g.checkedInsertAfter (f.insertAfterRef r c) c).2 = true
      then ((g.checkedInsertAfter (f.insertAfterRef r c) c).1, Res.ok)
      else ((g.checkedInsertAfter (f.insertAfterRef r c) c).1, Res.err .nodeError))) ?_ hv ?_
  · intro g
    have := (vstep_checked (S := fun _ => False) (T := f.PrevOf c) g (f.insertAfterRef r c) c).2.2.1
    split <;> exact this
  · unfold afterOldSite insertAfterRef
    dsimp only at hv'
    rcases hr : f.removeConsolidate (f.prevSibling c) (f.nextSibling c) with ⟨f1, b1⟩
    rw [hr] at hv'
    simp only at hv' ⊢
    generalize (if (b1 && f.nextSibling c == some r) = true then (f.prevSibling c).getD r else r) = ref'
      at hv' ⊢
    rcases ha : f1.addConsolidate c (some ref') (f1.nextSibling ref') with ⟨f2, cc⟩
    rw [ha] at hv'
    simp only at hv' ⊢
    cases cc with
    | true => simpa using hv'
    | false =>
      simp only [Bool.false_eq_true, if_false] at hv' ⊢
      rcases hc : f2.checkedInsertAfter ref' c with ⟨f3, okb⟩
      rw [hc] at hv'
      simp only at hv' ⊢
      cases okb <;> simpa using hv'

end Forest
end XotModel
