/-
  XotModel.Lemmas.SerOptDefs — specification side of C14_options: the token list and the spelling of a
  tree under ANY `TokenSerializeParameters` (`unescaped_gt`, CDATA-section elements).  NOT a model of
  Rust code; `Lemmas/SerOpt*.lean` prove that `serialize_xml_string` IS `renderTokens` of it.

  * `gtPieces`      : `serialize_text(unescaped_gt = true)` as spelling-as-data, one `Piece` per character
                      (a `>` is the entity `&gt;` exactly after `]]`).
  * `cdataPartsGo`  : `serialize_cdata` as a run of parts: CDATA sections, cut inside every `]]>` (between
                      `]]` and `>`) and at every carriage return, which is written BETWEEN two sections as the
                      text part `&#xD;` (since /repo c51f6e9).  A run begins and ends with a section, so no
                      two text parts are neighbours.
  * `textParts`     : the parts of one text node (`cd` = its parent is a CDATA-section element).
  * `serNodeO` / `spellNodeO` : `serNode` (Model/SerTokens.lean) / `spellNode` (Lemmas/RoundTripDefs.lean)
                      with `textParts` for text nodes; the flag is threaded from the parent.
  * `NSNode.Resp`   : "the same spelling up to how the character data runs are spelled".
  * `TokRel`        : the same on token lists: a text token replaced by a `GoodRun`.
-/
import XotModel.Lemmas.RoundTripDefs
import XotModel.Lemmas.Entity
import XotModel.Lemmas.SharedDefs

namespace XotModel
open Gen

/-! ### `unescaped_gt` as pieces -/

/-- The content written so far (reversed) ends with `]]`. -/
def startsBrBr : Str → Bool
  | a :: b :: _ => a == ']' && b == ']'
  | _ => false

/-- The piece `serialize_text(unescaped_gt = true)` writes for `c` when the output so far, reversed, is
    `racc` (`gtPiece`, Lemmas/Entity.lean, is its rendering). -/
def gtPieceP (racc : Str) (c : Char) : Piece :=
  if c = '>' then (if startsBrBr racc then .named ['g', 't'] else .lit '>') else textPiece c

def gtPieces : Str → Str → List Piece
  | _, [] => []
  | racc, c :: cs => gtPieceP racc c :: gtPieces ((gtPiece racc c).reverse ++ racc) cs

/-- The pieces of a text node outside CDATA-section elements. -/
def txtPieces (ugt : Bool) (s : Str) : List Piece := if ugt then gtPieces [] s else textPieces s

/-! ### `serialize_cdata` as parts -/

/-- The reference written for a carriage return between two sections. -/
def crPart : SPart := .txt [.hex [(13, true)]] 0

/-- `rc` = content of the section being written, reversed. -/
def cdataPartsGo : Str → Str → List SPart
  | rc, [] => [.cd (sp0 rc.reverse) noSpan]
  | rc, c :: cs =>
    if c = '>' ∧ startsBrBr rc = true then .cd (sp0 rc.reverse) noSpan :: cdataPartsGo ['>'] cs
    else if c = '\r' then .cd (sp0 rc.reverse) noSpan :: crPart :: cdataPartsGo [] cs
    else cdataPartsGo (c :: rc) cs

/-- The parts of one text node: `cd` = the parent is a CDATA-section element. -/
def textParts (pr : TokenParams) (cd : Bool) (s : Str) : List SPart :=
  if cd then cdataPartsGo [] s else [.txt (txtPieces pr.unescapedGt s) 0]

/-- The tokens of one text node. -/
def textTokens (pr : TokenParams) (cd : Bool) (s : Str) : List Token := (textParts pr cd s).map SPart.token

/-- The tokens `serialize_cdata s` stands for. -/
def cdataTokens (s : Str) : List Token := (cdataPartsGo [] s).map SPart.token

/-- Are the text children of a node with this value written as CDATA sections?
    (`isCdataElement pr (some parent)`.) -/
def kidsCd (pr : TokenParams) : Value → Bool
  | .element name => pr.cdataSectionElements.contains name
  | _ => false

/-! ### Tokens and spelling of a tree under any token parameters -/

/-- `serNode` with CDATA-section elements: `cd` = the node's parent is one. -/
def serNodeO (env : Env) (pr : TokenParams) (inScope : List (Nat × Nat)) (isTop : Bool) (s : FStack)
    (cd : Bool) : Tree → Except XotError (List Token)
  | .node v ks =>
    match v with
    | .element name =>
      let n := Tree.node (.element name) ks
      let s' := s.push n.nsDecls
      if env.nsOfName name == Env.noNamespace && s'.hasDefaultNamespace then
        .error (.missingPrefix Env.noNamespace)
      else match s'.elementPrefix env name with
        | .error e => .error e
        | .ok p =>
          match attrTokens env s' n.attrs with
          | .error e => .error e
          | .ok ats =>
            match serKidsO env pr inScope s' (kidsCd pr (.element name)) ks with
            | .error e => .error e
            | .ok content =>
              .ok (elementTokens (prefixText env p) (env.localName name)
                (((if isTop then inScope.filter (fun d => !n.declaresPrefix d.1) else []) ++ n.nsDecls).flatMap
                  (declTokens env))
                ats n.firstChild?.isNone content)
    | .text str => appendOk (.ok (textTokens pr cd str)) (serKidsO env pr inScope s false ks)
    | .comment str => appendOk (.ok [.comment (sp0 str) noSpan]) (serKidsO env pr inScope s false ks)
    | .pi target data =>
      if !(env.namespaceStr (env.nsOfName target)).isEmpty then .error .namespaceInProcessingInstruction
      else appendOk (.ok [.pi (sp0 (env.localName target)) (data.map sp0) noSpan])
        (serKidsO env pr inScope s false ks)
    | _ => serKidsO env pr inScope s false ks
where
  serKidsO (env : Env) (pr : TokenParams) (inScope : List (Nat × Nat)) (s : FStack) (cd : Bool) :
      List Tree → Except XotError (List Token)
    | [] => .ok []
    | k :: ks => appendOk (serNodeO env pr inScope false s cd k) (serKidsO env pr inScope s cd ks)

/-- The flag of the start node. -/
def startCd (pr : TokenParams) (t : Tree) (start : Path) : Bool := isCdataElement pr (t.parentAt? start)

/-- `serTokensAt` for any token parameters. -/
def serTokensAtO (env : Env) (pr : TokenParams) (t : Tree) (start : Path) : Except XotError (List Token) :=
  match t.at? start, namespacesInScope t start with
  | some n, some inScope => serNodeO env pr inScope true (FStack.new inScope) (startCd pr t start) n
  | _, _ => .ok []

/-- `spellNode` with CDATA-section elements and `unescaped_gt`. -/
def spellNodeO (env : Env) (pr : TokenParams) (inScope : List (Nat × Nat)) (isTop : Bool) (s : FStack)
    (cd : Bool) : Tree → List NSNode
  | .node v ks =>
    match v with
    | .element name =>
      let n := Tree.node (.element name) ks
      let s' := s.push n.nsDecls
      let pfx := sp0 (prefixText env (okPrefix (s'.elementPrefix env name)))
      let loc := sp0 (env.localName name)
      if n.firstChild?.isNone then
        .empty pfx loc noSpan (spellItems env inScope isTop s' n) noSpan ::
          spellKidsO env pr inScope s' (kidsCd pr (.element name)) ks
      else
        [.elem pfx loc noSpan (spellItems env inScope isTop s' n) noSpan
          (spellKidsO env pr inScope s' (kidsCd pr (.element name)) ks) pfx loc noSpan]
    | .text str => .chars (textParts pr cd str) :: spellKidsO env pr inScope s false ks
    | .comment str => .comment (sp0 str) noSpan :: spellKidsO env pr inScope s false ks
    | .pi target data =>
      .pi (sp0 (env.localName target)) (data.map sp0) noSpan :: spellKidsO env pr inScope s false ks
    | _ => spellKidsO env pr inScope s false ks
where
  spellKidsO (env : Env) (pr : TokenParams) (inScope : List (Nat × Nat)) (s : FStack) (cd : Bool) :
      List Tree → List NSNode
    | [] => []
    | k :: ks => spellNodeO env pr inScope false s cd k ++ spellKidsO env pr inScope s cd ks

def spellAtO (env : Env) (pr : TokenParams) (t : Tree) (start : Path) : List NSNode :=
  match t.at? start, namespacesInScope t start with
  | some n, some inScope => spellNodeO env pr inScope true (FStack.new inScope) (startCd pr t start) n
  | _, _ => []

/-! ### Same spelling up to the character data runs -/

def Token.isText : Token → Bool
  | .text _ => true
  | _ => false

-- `Token.isCharData` (text and CDATA tokens) is in `Lemmas/SharedDefs.lean`.

/-- No two text tokens in a row. -/
def noAdjTextTok : List Token → Bool
  | a :: b :: rest => !(a.isText && b.isText) && noAdjTextTok (b :: rest)
  | _ => true

/-- A run of tokens that may stand where one text token stood: text and CDATA tokens only, at least one,
    each meeting the tokenizer's side condition, no two text tokens in a row. -/
structure GoodRun (r : List Token) : Prop where
  ne : r ≠ []
  ok : ∀ k ∈ r, k.lexOK = true
  kind : ∀ k ∈ r, k.isCharData = true
  adj : noAdjTextTok r = true

/-- `b` spells what `a` spells, node for node, except that a character data run of `a` — one text part —
    may be spelled in `b` as any well-spelled run of parts with the same value. -/
def NSNode.Resp : NSNode → NSNode → Prop
  | .elem p l j as o ks cp cl c, b => ∃ ks', b = .elem p l j as o ks' cp cl c ∧ respList ks ks'
  | .empty p l j as e, b => b = .empty p l j as e
  | .chars ps, b => ∃ ps', b = .chars ps' ∧ (∃ q st, ps = [.txt q st]) ∧ partsValue ps' = partsValue ps ∧
      (∀ p ∈ ps', p.Well) ∧ GoodRun (ps'.map SPart.token)
  | .comment a j, b => b = .comment a j
  | .pi a c j, b => b = .pi a c j
where
  respList : List NSNode → List NSNode → Prop
    | [], bs => bs = []
    | k :: ks, bs => ∃ k' ks', bs = k' :: ks' ∧ NSNode.Resp k k' ∧ respList ks ks'

/-- The same on token lists. -/
inductive TokRel : List Token → List Token → Prop where
  | nil : TokRel [] []
  | same (k : Token) {a b : List Token} : TokRel a b → TokRel (k :: a) (k :: b)
  | run (x : StrSpan) {r a b : List Token} : GoodRun r → TokRel a b → TokRel (.text x :: a) (r ++ b)

end XotModel
