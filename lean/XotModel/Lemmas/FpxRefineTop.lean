/-
  FpxRefine, part 8: `create_missing_prefixes(node)` — the forest model (`Forest.createMissingPrefixes`)
  refines the tree model (`createMissingPrefixes`, Model/Repair.lean) in all three branches: element,
  document / fragment (the loop over the element children, collected before the first call: handles in
  the forest model, raw child indices in the tree model — `elemPairs` pairs them), and the two refusals.
-/
import XotModel.Lemmas.FpxRefineDoc

namespace XotModel
open HTree Repair

namespace HTree

/-- The element children of a child list: handle and raw index (from `i`). -/
def elemPairs : Nat → List HTree → List (Nat × Nat)
  | _, [] => []
  | i, k :: ks => if k.value.isElement then (k.handle, i) :: elemPairs (i + 1) ks else elemPairs (i + 1) ks

theorem elemPairs_cons (i : Nat) (k : HTree) (ks : List HTree) :
    elemPairs i (k :: ks) =
      if k.value.isElement then (k.handle, i) :: elemPairs (i + 1) ks else elemPairs (i + 1) ks := rfl

theorem elemPairs_fst : ∀ (i : Nat) (ks : List HTree),
    (elemPairs i ks).map (·.1) = (ks.filter (fun k => k.value.isElement)).map (·.handle)
  | _, [] => rfl
  | i, k :: ks => by
    unfold elemPairs
    by_cases hk : k.value.isElement = true
    · simp [hk, elemPairs_fst (i + 1) ks]
    · simp [hk, elemPairs_fst (i + 1) ks]

theorem eraseList_length (ks : List HTree) : (eraseList ks).length = ks.length := by
  rw [Fmap.eraseList_eq_map, List.length_map]

theorem elemPairs_snd : ∀ (i : Nat) (ks : List HTree),
    (elemPairs i ks).map (·.2) = (List.range' i ks.length).filter (fun j =>
      match (eraseList ks)[j - i]? with
      | some k => k.value.isElement
      | none => false)
  | _, [] => rfl
  | i, k :: ks => by
    have ih := elemPairs_snd (i + 1) ks
    have htail : (List.range' (i + 1) ks.length).filter (fun j =>
        match (erase k :: eraseList ks)[j - i]? with
        | some k => k.value.isElement
        | none => false) = (List.range' (i + 1) ks.length).filter (fun j =>
        match (eraseList ks)[j - (i + 1)]? with
        | some k => k.value.isElement
        | none => false) := by
      apply List.filter_congr
      intro j hj
      have hji : i + 1 ≤ j := (List.mem_range'_1.mp hj).1
      have : j - i = (j - (i + 1)) + 1 := by omega
      rw [this]
      simp
    simp only [List.length_cons, List.range'_succ, List.filter_cons, Nat.sub_self, eraseList,
      List.getElem?_cons_zero, erase_value']
    rw [htail, ← ih, elemPairs_cons]
    by_cases hk : k.value.isElement = true
    · simp [hk]
    · simp [hk]

theorem elemPairs_snd0 (ks : List HTree) : (elemPairs 0 ks).map (·.2) = elementKidIndices (eraseList ks) := by
  rw [elemPairs_snd]
  unfold elementKidIndices
  rw [List.range_eq_range', eraseList_length]
  rfl

theorem mem_elemPairs : ∀ (i : Nat) (ks : List HTree) (h j : Nat), (h, j) ∈ elemPairs i ks →
    ∃ k, i ≤ j ∧ ks[j - i]? = some k ∧ k.handle = h ∧ k.value.isElement = true
  | _, [], _, _, hm => by simp [elemPairs] at hm
  | i, k :: ks, h, j, hm => by
    unfold elemPairs at hm
    have rec_ : (h, j) ∈ elemPairs (i + 1) ks → ∃ k', i ≤ j ∧ (k :: ks)[j - i]? = some k' ∧ k'.handle = h ∧
        k'.value.isElement = true := by
      intro hm'
      obtain ⟨k', h1, h2, h3, h4⟩ := mem_elemPairs (i + 1) ks h j hm'
      refine ⟨k', by omega, ?_, h3, h4⟩
      have : j - i = (j - (i + 1)) + 1 := by omega
      rw [this]; simpa using h2
    by_cases hk : k.value.isElement = true
    · rw [if_pos hk] at hm
      rcases List.mem_cons.mp hm with e | e
      · simp only [Prod.mk.injEq] at e
        obtain ⟨rfl, rfl⟩ := e
        exact ⟨k, Nat.le_refl _, by simp, rfl, hk⟩
      · exact rec_ e
    · rw [if_neg hk] at hm
      exact rec_ hm

end HTree

namespace Forest

theorem fpxr_kinds {f : Forest} {nd : Nat} {D : HTree} (hg : f.get? nd = some D) :
    f.isElement nd = D.value.isElement ∧ f.isDocument nd = D.value.isDocument := by
  unfold isElement isDocument value?
  rw [hg]
  constructor
  · cases h : D.value.isElement <;> simp [h]
  · cases h : D.value.isDocument <;> simp [h]

/-- The node of a live handle: root tree, path, subtree, erased subtree. -/
theorem fpxr_locate {f : Forest} (hi : f.Inv) {nd : Nat} {r : HTree} (hr : f.rootOf? nd = some r)
    {path : Path} (hp : r.pathOf nd = some path) :
    ∃ D, r ∈ f.roots ∧ f.get? nd = some D ∧ r.at? path = some D ∧ D.handle = nd ∧
      r.erase.at? path = some D.erase := by
  obtain ⟨hrm, _⟩ := fpxr_rootOf_mem hr
  obtain ⟨D, hD, hDh⟩ := ftrav_pathOf_at? nd r path hp
  refine ⟨D, hrm, ?_, hD, hDh, by rw [ftrav_at?_erase, hD]; rfl⟩
  have := fpx_get?_of_at? hi.nodup hrm hD
  rwa [hDh] at this

/-- Element branch: both models call their `create_missing_prefixes_for_element`. -/
theorem fpxr_cmp_element {f : Forest} (hi : f.Inv) (env : Env) {nd : Nat} (he : f.isElement nd = true)
    {r : HTree} (hr : f.rootOf? nd = some r) {path : Path} (hp : r.pathOf nd = some path) :
    f.createMissingPrefixes env nd = f.repairElementF env nd ∧
      XotModel.createMissingPrefixes env r.erase path = repairElement env r.erase path := by
  obtain ⟨D, _, hg, _, _, hDe⟩ := fpxr_locate hi hr hp
  obtain ⟨k1, k2⟩ := fpxr_kinds hg
  rw [he] at k1
  have hdoc : D.value.isDocument = false := by
    have h := k1.symm
    cases hv : D.value <;> rw [hv] at h <;> first | rfl | (simp [Value.isElement] at h)
  constructor
  · unfold Forest.createMissingPrefixes
    rw [k2, hdoc, he]
    simp
  · unfold XotModel.createMissingPrefixes
    rw [hDe]
    simp only [erase_value', hdoc, ← k1]
    simp

/-- Refusal `NotElement`: neither model touches anything. -/
theorem fpxr_cmp_notElement {f : Forest} (hi : f.Inv) (env : Env) {nd : Nat} (he : f.isElement nd = false)
    (hd : f.isDocument nd = false) {r : HTree} (hr : f.rootOf? nd = some r) {path : Path}
    (hp : r.pathOf nd = some path) :
    f.createMissingPrefixes env nd = (f, env, .err .notElement) ∧
      XotModel.createMissingPrefixes env r.erase path = .err .notElement := by
  obtain ⟨D, _, hg, _, _, hDe⟩ := fpxr_locate hi hr hp
  obtain ⟨k1, k2⟩ := fpxr_kinds hg
  rw [he] at k1
  rw [hd] at k2
  constructor
  · unfold Forest.createMissingPrefixes
    simp [hd, he]
  · unfold XotModel.createMissingPrefixes
    rw [hDe]
    simp only [erase_value', ← k1, ← k2]
    simp

/-- Document / fragment branch: both models collect the element children of the node (`elemPairs`:
    handles for the forest model, raw indices for the tree model), refuse when there is none, and loop
    otherwise. -/
theorem fpxr_cmp_document {f : Forest} (hi : f.Inv) (env : Env) {nd : Nat} (hd : f.isDocument nd = true)
    {r : HTree} (hr : f.rootOf? nd = some r) {path : Path} (hp : r.pathOf nd = some path) :
    ∃ D, f.get? nd = some D ∧ r.at? path = some D ∧ LoopOK f r path (elemPairs 0 D.kids) ∧
      f.createMissingPrefixes env nd =
        (if (elemPairs 0 D.kids).isEmpty then (f, env, .err .noElementAtTopLevel)
         else repairElementsF ((elemPairs 0 D.kids).map (·.1)) env f) ∧
      XotModel.createMissingPrefixes env r.erase path =
        (if (elemPairs 0 D.kids).isEmpty then .err .noElementAtTopLevel
         else repairElements ((elemPairs 0 D.kids).map (·.2)) path env r.erase) := by
  obtain ⟨D, hrm, hg, hD, hDh, hDe⟩ := fpxr_locate hi hr hp
  obtain ⟨_, k2⟩ := fpxr_kinds hg
  rw [hd] at k2
  have hndr : (handles r).Nodup := ftrav_nodup_mem _ r hi.nodup hrm
  refine ⟨D, hg, hD, ?_, ?_, ?_⟩
  · intro e hem
    obtain ⟨h, j⟩ := e
    obtain ⟨k, _, hk, hkh, hke⟩ := mem_elemPairs 0 D.kids h j hem
    simp only [Nat.sub_zero] at hk
    have hat : r.at? (path ++ [j]) = some k := at?_child hD hk
    constructor
    · have hgk := fpx_get?_of_at? hi.nodup hrm hat
      rw [hkh] at hgk
      rw [(fpxr_kinds hgk).1]; exact hke
    · have := ftrav_pathOf_of_at? _ r k hndr hat
      rwa [hkh] at this
  · unfold Forest.createMissingPrefixes
    rw [hd]
    simp only [if_true, hg, ← elemPairs_fst 0 D.kids]
    cases elemPairs 0 D.kids <;> rfl
  · unfold XotModel.createMissingPrefixes
    rw [hDe]
    simp only [erase_value', ← k2, if_true, erase_kids', ← elemPairs_snd0]
    cases elemPairs 0 D.kids <;> rfl

/-- **Document / fragment case, forest model against tree model.** -/
theorem fpxr_createMissingPrefixes_document {f : Forest} (hi : f.Inv) (env : Env) {nd : Nat}
    (hd : f.isDocument nd = true) {r : HTree} (hr : f.rootOf? nd = some r) {path : Path}
    (hp : r.pathOf nd = some path) :
    -- no element at the top: both refuse, nothing changes
    ((∀ D, f.get? nd = some D → ∀ k ∈ D.kids, k.value.isElement = false) →
      f.createMissingPrefixes env nd = (f, env, .err .noElementAtTopLevel) ∧
      XotModel.createMissingPrefixes env r.erase path = .err .noElementAtTopLevel) ∧
    -- otherwise
    ((∃ D k, f.get? nd = some D ∧ k ∈ D.kids ∧ k.value.isElement = true) →
      ∃ r', r'.handle = r.handle ∧
        (f.createMissingPrefixes env nd).2.2 = .ok ∧
        (f.createMissingPrefixes env nd).1.Inv ∧
        (∀ x, (f.createMissingPrefixes env nd).1.isElement x = f.isElement x) ∧
        f.next ≤ (f.createMissingPrefixes env nd).1.next ∧
        (f.createMissingPrefixes env nd).1.roots = mapAtList r.handle (fun _ => r') f.roots ∧
        XotModel.createMissingPrefixes env r.erase path =
          .ok ((f.createMissingPrefixes env nd).2.1, r'.erase) ∧
        (handles r').filter (· < f.next) = handles r ∧
        ∀ x q, pathOf x r = some q → q.length ≤ path.length + 1 → pathOf x r' = some q) := by
  obtain ⟨D, hg, hD, hloop, hF, hT⟩ := fpxr_cmp_document hi env hd hr hp
  obtain ⟨hrm, _⟩ := fpxr_rootOf_mem hr
  constructor
  · intro hno
    have : elemPairs 0 D.kids = [] := by
      have h1 := elemPairs_fst 0 D.kids
      have : D.kids.filter (fun k => k.value.isElement) = [] := by
        rw [List.filter_eq_nil_iff]; intro k hk; simp [hno D hg k hk]
      rw [this] at h1
      simpa using h1
    rw [hF, hT, this]
    exact ⟨rfl, rfl⟩
  · rintro ⟨D', k, hg', hk, hke⟩
    rw [hg] at hg'; cases hg'
    have hne : (elemPairs 0 D.kids).isEmpty = false := by
      have h1 := elemPairs_fst 0 D.kids
      have : k ∈ D.kids.filter (fun k => k.value.isElement) := List.mem_filter.mpr ⟨hk, hke⟩
      cases hep : elemPairs 0 D.kids with
      | nil =>
        rw [hep] at h1
        simp only [List.map_nil] at h1
        have h2 := congrArg List.length h1
        simp only [List.length_nil, List.length_map] at h2
        have := List.length_pos_of_mem this
        omega
      | cons a l => rfl
    rw [hF, hT, hne]
    simp only [Bool.false_eq_true, if_false]
    obtain ⟨r', k1, k2, k3, k4, k5, k6, k7, k8, k9⟩ :=
      fpxr_repairElementsF path (elemPairs 0 D.kids) env hi hrm hloop
    refine ⟨r', k1, k2, k3, k4, k5, k6, k7, k8, fun x q hx hq => k9 x q hx (fun e _ hpre => ?_)⟩
    exact (List.IsPrefix.eq_of_length hpre (by have := hpre.length_le; simp at this ⊢; omega)).symm

end Forest
end XotModel
