/-
  XotModel.Lemmas.BytesUtf16 — UTF-16 WITHOUT byte order mark: the detector recognises the `<?`
  pattern (`3C 00 3F 00` / `00 3C 00 3F`), xot's reader finds the label among the ASCII bytes, and
  `endianify` turns the label `utf-16` into `utf-16le` / `utf-16be`.
-/
import XotModel.Lemmas.BytesDecode

namespace XotModel.Bytes

def order16 (be : Bool) : ByteOrder := if be then .bigEndian else .littleEndian
def enc16 (be : Bool) : Enc := if be then .utf16be else .utf16le

/-- The label as `for_label` gets it for a text recognised as 16-bit in byte order `be`. -/
def label16 (be : Bool) (L : Str) : Str := endianify (normalise L) (some ⟨.unknown, .sixteen, order16 be⟩)

theorem encodingOf_utf16Head (be : Bool) (rest : Bytes) (L : Str)
    (hD : xmlDeclaration ((if be then [0x00, 0x3C, 0x00, 0x3F, 0x00] else [0x3C, 0x00, 0x3F, 0x00, 0x78]) ++ rest) =
      some L) :
    encodingOf ((if be then [0x00, 0x3C, 0x00, 0x3F, 0x00] else [0x3C, 0x00, 0x3F, 0x00, 0x78]) ++ rest) =
      forLabel (label16 be L) := by
  unfold encodingOf
  rw [hD]
  cases be
  · have hb : detectByteOrderMark 0x3C 0x00 0x3F 0x00 = some ⟨.unknown, .sixteen, .littleEndian⟩ := by decide
    have hl : bomLabel (some ⟨.unknown, .sixteen, .littleEndian⟩) = none := by decide
    simp only [Bool.false_eq_true, if_false, List.cons_append, List.nil_append, List.take, detectHead, hb, hl,
      pushIfNotContains_nil, List.isEmpty_cons, Bool.false_and, label16, order16]
  · have hb : detectByteOrderMark 0x00 0x3C 0x00 0x3F = some ⟨.unknown, .sixteen, .bigEndian⟩ := by decide
    have hl : bomLabel (some ⟨.unknown, .sixteen, .bigEndian⟩) = none := by decide
    simp only [if_true, List.cons_append, List.nil_append, List.take, detectHead, hb, hl,
      pushIfNotContains_nil, List.isEmpty_cons, Bool.false_and, Bool.false_eq_true, if_false, label16, order16]

theorem encodeUtf16_render_head (be : Bool) (d : LDecl) :
    ∃ rest, encodeUtf16 be d.render =
      (if be then [0x00, 0x3C, 0x00, 0x3F, 0x00] else [0x3C, 0x00, 0x3F, 0x00, 0x78]) ++ rest := by
  rw [render_eq_attrs, encodeUtf16_append]
  cases be
  · exact ⟨[0x00, 0x6D, 0x00, 0x6C, 0x00] ++ _, by
      rw [show encodeUtf16 false ['<', '?', 'x', 'm', 'l'] = [0x3C, 0x00, 0x3F, 0x00, 0x78, 0x00, 0x6D, 0x00, 0x6C, 0x00]
        by decide]; rfl⟩
  · exact ⟨[0x78, 0x00, 0x6D, 0x00, 0x6C] ++ _, by
      rw [show encodeUtf16 true ['<', '?', 'x', 'm', 'l'] = [0x00, 0x3C, 0x00, 0x3F, 0x00, 0x78, 0x00, 0x6D, 0x00, 0x6C]
        by decide]; rfl⟩

/-- **Declared UTF-16 text without byte order mark**: the label `UTF-16` / `utf-16` (any label that
    `for_label` maps, after `normalise` and `endianify`, to the UTF-16 of the byte order in use). -/
theorem decodeBytes_utf16_declared (be : Bool) (d : LDecl) (hok : d.ok = true)
    (L : Str) (hL : d.encoding = some L) (hlabel : forLabel (label16 be L) = some (enc16 be)) (body : Str) :
    decodeBytes (encodeUtf16 be (d.render ++ body)) = some (d.render ++ body) := by
  have hasc := render_ascii d hok
  have hdec := decodeUtf16_encode be (d.render ++ body)
  rw [encodeUtf16_append] at hdec ⊢
  have hx := xmlDeclaration_spelled d hok [] (encodeUtf16 be d.render) (encodeUtf16 be body) (by simp [declBoms])
    (spells_utf16 be _ hasc)
  rw [List.nil_append] at hx
  rw [hL] at hx
  obtain ⟨rest, hr⟩ := encodeUtf16_render_head be d
  rw [hr] at hx hdec ⊢
  have he := encodingOf_utf16Head be (rest ++ encodeUtf16 be body) L (by rw [← List.append_assoc]; exact hx)
  rw [← List.append_assoc] at he
  have hb : bomSniff ((if be then [0x00, 0x3C, 0x00, 0x3F, 0x00] else [0x3C, 0x00, 0x3F, 0x00, 0x78]) ++ rest ++
      encodeUtf16 be body) = none := by
    cases be
    · exact bomSniff_lt _ _ (by omega)
    · exact bomSniff_lt _ _ (by omega)
  unfold decodeBytes decodeSniffed
  rw [hb, he, hlabel]
  cases be
  · simpa [enc16, decodeWith] using hdec
  · simpa [enc16, decodeWith] using hdec

/-- The labels the suite uses. -/
theorem label16_utf16 (be : Bool) :
    forLabel (label16 be ['U', 'T', 'F', '-', '1', '6']) = some (enc16 be) ∧
    forLabel (label16 be ['u', 't', 'f', '-', '1', '6']) = some (enc16 be) := by
  cases be <;> decide

end XotModel.Bytes
