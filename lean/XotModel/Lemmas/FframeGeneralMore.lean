/-
  FframeGeneralMore — the `get?`-form frame of the map updates insert / remove (from `specMapInsert_get_frame`,
  `specMapRemove_get_frame`, Lemmas/FspecMapUpd2.lean), of `clone_node` (the old trees stay, one tree is added) and of
  `element_wrap` (one edit that replaces the node by the wrapper holding it; no text is merged).
-/
import XotModel.Lemmas.FframeGeneralMove
import XotModel.Lemmas.FspecMapUpd3
import XotModel.Lemmas.FspecClone

namespace XotModel
open HTree Spec PairAll
open Forest (MapKind)

/-! ### Map updates -/

theorem not_entry_of_not_mem {f : Forest} {k : MapKind} {e z : Nat} (hz : z ∉ f.entryHandles k e) :
    ∀ c ∈ f.kidsOf e, k.matches c.value = true → c.handle ≠ z := by
  intro c hc hm e'
  apply hz
  unfold Forest.entryHandles
  unfold Forest.kidsOf at hc
  cases hg : f.get? e with
  | none => rw [hg] at hc; cases hc
  | some t =>
    rw [hg] at hc
    exact List.mem_map.2 ⟨c, List.mem_filter.2 ⟨hc, hm⟩, e'⟩

theorem getFrame_mapInsert {f : Forest} (inv : f.Inv) {k : MapKind} {e : Nat} {entry : Value}
    (he : f.isElement e = true) (hm : k.matches entry = true) {z : Nat} (hne : z ≠ e)
    (hz : z ∉ f.entryHandles k e) : GetFrame f (f.mapInsert k e entry).1 z := by
  rw [mapInsert_spec inv he hm]
  intro u hu
  obtain ⟨u', h1, _, h3, h4, _⟩ := specMapInsert_get_frame (k := k) (e := e) (entry := entry) inv hne hu
    (fun c hc hce => by
      unfold isEntry at hce
      rw [Bool.and_eq_true] at hce
      exact not_entry_of_not_mem hz c hc hce.1)
  exact ⟨u', h1, h3, h4⟩

theorem getFrame_mapRemove {f : Forest} (inv : f.Inv) {k : MapKind} {e key : Nat}
    (he : f.isElement e = true) {z : Nat} (hne : z ≠ e)
    (hz : z ∉ f.entryHandles k e) : GetFrame f (f.mapRemove k e key).1 z := by
  rw [mapRemove_spec inv he]
  obtain ⟨nm, N, A, S, h⟩ := Fmap.minv_of_inv f e inv he
  have s := MInv_site h
  intro u hu
  obtain ⟨u', h1, _, h3, h4, _⟩ := specMapRemove_get_frame (k := k) (e := e) (key := key) inv hne hu
    (fun c hc hce hin => by
      have hcL : c ∈ N ++ A ++ S := by rw [← Forest.kidsOf_of_get s.kids]; exact hc
      have hvalid := (validTree_node (s.valid inv.valid)).2.2.2
      have hvc := Fmap.validList_mem' _ _ hvalid c hcL
      unfold isEntry at hce
      rw [Bool.and_eq_true] at hce
      have hcat : c.value.category ≠ .normal := by
        rw [(Fmap.matches_iff_cat k c.value).1 hce.1]
        exact Fmap.kindCat_ne_normal k
      have hleaf := Fmap.entry_leaf _ c hvc hcat
      cases c with
      | node ch cv cks =>
        simp only [HTree.kids] at hleaf
        subst hleaf
        rw [handles_node, handlesList_nil, List.mem_singleton] at hin
        exact not_entry_of_not_mem hz _ hc hce.1 hin.symm)
  exact ⟨u', h1, h3, h4⟩

/-! ### clone_node -/

theorem getFrame_cloneNode {f : Forest} {n : Nat} {src : HTree} (inv : f.Inv) (hsrc : f.get? n = some src)
    (z : Nat) : GetFrame f (f.cloneNode n).1 z := by
  obtain ⟨c, C, _, _, h3, _⟩ := cloneNode_spec' inv hsrc
  intro u hu
  refine ⟨u, ?_, rfl, rfl⟩
  show findList? z (f.cloneNode n).1.roots = some u
  rw [h3, findList?_append]
  have : findList? z f.roots = some u := hu
  rw [this]; rfl

/-! ### element_wrap -/

theorem getFrame_specWrap {f : Forest} {n : Nat} (name : Nat) {t : HTree} (inv : f.Inv) (hg : f.get? n = some t)
    {z : Nat} (hzl : f.isLive z = true) (h1 : some z ≠ f.parent? n) (h3 : z ∉ handles t) :
    GetFrame f (specWrap n name f) z := by
  have nd := inv.nodup
  have hzlt : z ≠ f.next := by
    obtain ⟨u, hu⟩ := Forest.get_of_live hzl
    intro e
    exact Nat.lt_irrefl _ (e ▸ inv.below _ (mem_of_findList?_some hu))
  unfold specWrap
  rw [hg]
  simp only
  rcases Forest.root_or_ctx hg with hroot | ⟨c, hctx⟩
  · have hno : f.ctx? n = none := Forest.ctx_none_of_root nd hroot
    rw [Forest.parent?_of_no_ctx hno]
    simp only
    intro u hu
    refine ⟨u, ?_, rfl, rfl⟩
    show findList? z (dropTop n f.roots ++ [HTree.node f.next (.element name) [t]]) = some u
    rw [findList?_append, findList?_dropTop f.roots (by
      intro k hk hkn
      rw [root_is nd hg k hk hkn]; exact h3)]
    have : findList? z f.roots = some u := hu
    rw [this]; rfl
  · obtain ⟨e0, v, so⟩ := SiteAt.of_ctx nd hctx
    obtain ⟨p, l, k, r⟩ := c
    simp only at e0 so
    subst e0
    have hpar : f.parent? k.handle = some p := Forest.parent?_of_ctx hctx
    rw [hpar] at h1 ⊢
    simp only
    have hne : z ≠ p := fun e => h1 (by rw [e])
    obtain ⟨ndL, _⟩ := so.nodupKids
    obtain ⟨tl, tr⟩ := tops_ne_of_nodup ndL
    have hrep : replaceTop k.handle (fun k' => [HTree.node f.next (.element name) [k']]) (l ++ k :: r) =
        l ++ [HTree.node f.next (.element name) [k]] ++ r := replaceTop_mid rfl tl
    have := so.frameGet (replaceTop k.handle (fun k' => [HTree.node f.next (.element name) [k']])) hne (by
      rw [hrep, findList?_append, findList?_append, findList?_append, findList?_cons, findList?_cons, find?_node,
        if_neg (fun e => hzlt e.symm), findList?_cons, findList?_nil]
      cases findList? z l <;> cases find? z k <;> rfl)
    exact this

theorem getFrame_wrap {f : Forest} {n name : Nat} {t : HTree} (inv : f.Inv)
    (hok : (f.elementWrap n name).2.1 = .ok) (hg : f.get? n = some t)
    {z : Nat} (hzl : f.isLive z = true) (h1 : some z ≠ f.parent? n) (h3 : z ∉ handles t) :
    GetFrame f (f.elementWrap n name).1 z := by
  have e : (f.elementWrap n name).1 = specWrap n name f := by
    cases hpar : f.parent? n with
    | none => exact (wrap_spec_root inv hpar hok).1
    | some p => exact (wrap_spec_kid inv hpar hok).1
  rw [e]
  exact getFrame_specWrap name inv hg hzl h1 h3

/-! ### text_content_mut().set() -/

theorem getFrame_specSetValue {f : Forest} (nd : f.allHandles.Nodup) {n z : Nat} (v : Value) (hne : z ≠ n) :
    GetFrame f (specSetValue n v f) z := by
  intro t hg
  have hth : t.handle = z := (findList?_some f.roots t hg).1
  have hg' : (specSetValue n v f).get? z = some (mapAt n (HTree.setValue v) t) := by
    rw [specSetValue_get nd n z v, hg]; rfl
  obtain ⟨a, b⟩ := fg_mapAt_setValue_top v t (by rw [hth]; exact hne)
  exact ⟨_, hg', a, b⟩

theorem getFrame_textContentSet {f : Forest} (inv : f.Inv) {n : Nat} {s : Str}
    (hok : (f.textContentSet n s).2 = .ok) {z : Nat} (hzl : f.isLive z = true) (hne : z ≠ n)
    (hk : z ∉ f.kidHandles n) : GetFrame f (f.textContentSet n s).1 z := by
  rw [textContentSet_spec inv hok]
  have hzn : z ≠ f.next := by
    obtain ⟨u, hu⟩ := Forest.get_of_live hzl
    intro e
    exact Nat.lt_irrefl _ (e ▸ inv.below _ (mem_of_findList?_some hu))
  unfold specTextContentSet
  split
  · intro u hu
    obtain ⟨u', h1, _, _, h3, h4, _⟩ := Forest.editAt_get_frame
      (g := insertLast (.node f.next (.text s) [])) inv.nodup hne hu (fun v L _ => by
        show findList? z (L ++ [HTree.node f.next (.text s) []]) = findList? z L
        rw [findList?_append, findList?_cons, find?_fresh_leaf _ hzn, findList?_nil]
        cases findList? z L <;> rfl)
    exact ⟨u', h1, h3, h4⟩
  · rename_i c hc
    apply getFrame_specSetValue inv.nodup
    intro e
    apply hk
    have hcm : c ∈ (f.kidsOf n).filter (fun k => k.value.isNormal) := by
      rw [hc]; exact List.mem_singleton.2 rfl
    have hm := (List.mem_filter.1 hcm).1
    unfold Forest.kidsOf at hm
    unfold Forest.kidHandles
    cases hg : f.get? n with
    | none => rw [hg] at hm; cases hm
    | some t =>
      rw [hg] at hm
      exact List.mem_map.2 ⟨c, hm, e.symm⟩
  · exact GetFrame.refl f z

end XotModel
