/-
  FspecSet — C05, last clause: the value setters.  A setter changes exactly one value
  (`Spec.specSetValue`) and nothing else: handles, positions, every other value and every subtree
  that does not hold the node stay; a refused call changes nothing.
  (`text_content_mut().set` is in `FspecSet2.lean`.)
-/
import XotModel.Model.FspecSpec2
import XotModel.Lemmas.FspecFrame
import XotModel.Lemmas.FspecWrap

namespace XotModel
open HTree Spec

/-! ### The model's `setValue` is the specification's -/

theorem setValue_eq_spec (f : Forest) (n : Nat) (v : Value) : f.setValue n v = Spec.specSetValue n v f := by
  unfold Forest.setValue Spec.specSetValue
  rw [mapAtList_eq_map]

namespace Forest

theorem value_text_of_isText {f : Forest} {n : Nat} (h : f.isText n = true) :
    ∃ old, f.value? n = some (.text old) := by
  unfold Forest.isText at h
  cases hv : f.value? n with
  | none => rw [hv] at h; simp at h
  | some v => rw [hv] at h; cases v <;> simp [Value.isText] at h; exact ⟨_, rfl⟩

theorem value_element_of_isElement {f : Forest} {n : Nat} (h : f.isElement n = true) :
    ∃ old, f.value? n = some (.element old) := by
  unfold Forest.isElement at h
  cases hv : f.value? n with
  | none => rw [hv] at h; simp at h
  | some v => rw [hv] at h; cases v <;> simp [Value.isElement] at h; exact ⟨_, rfl⟩

end Forest

/-! ### The four plain setters -/

theorem setText_spec {f : Forest} {n : Nat} {s : Str} (hok : (f.setText n s).2 = .ok) :
    (f.setText n s).1 = Spec.specSetValue n (.text s) f ∧ ∃ old, f.value? n = some (.text old) := by
  unfold Forest.setText at hok ⊢
  cases h : f.isText n with
  | false => rw [h] at hok; simp at hok
  | true =>
    simp only [if_true]
    exact ⟨setValue_eq_spec f n _, Forest.value_text_of_isText h⟩

theorem setText_refused {f : Forest} {n : Nat} {s : Str} (h : (f.setText n s).2 ≠ .ok) :
    (f.setText n s).1 = f := by
  unfold Forest.setText at h ⊢
  cases ht : f.isText n with
  | false => simp
  | true => rw [ht] at h; simp at h

theorem setElementName_spec {f : Forest} {n name : Nat} (hok : (f.setElementName n name).2 = .ok) :
    (f.setElementName n name).1 = Spec.specSetValue n (.element name) f ∧
      ∃ old, f.value? n = some (.element old) := by
  unfold Forest.setElementName at hok ⊢
  cases h : f.isElement n with
  | false => rw [h] at hok; simp at hok
  | true =>
    simp only [if_true]
    exact ⟨setValue_eq_spec f n _, Forest.value_element_of_isElement h⟩

theorem setElementName_refused {f : Forest} {n name : Nat} (h : (f.setElementName n name).2 ≠ .ok) :
    (f.setElementName n name).1 = f := by
  unfold Forest.setElementName at h ⊢
  cases ht : f.isElement n with
  | false => simp
  | true => rw [ht] at h; simp at h

/-- `set_element_name` on an element never panics. -/
theorem setElementName_ok {f : Forest} {n name old : Nat} (h : f.value? n = some (.element old)) :
    (f.setElementName n name).2 = .ok := by
  unfold Forest.setElementName Forest.isElement
  rw [h]
  rfl

theorem setComment_spec {f : Forest} {n : Nat} {s : Str} (hok : (f.setComment n s).2 = .ok) :
    (f.setComment n s).1 = Spec.specSetValue n (.comment s) f ∧ ∃ old, f.value? n = some (.comment old) := by
  unfold Forest.setComment at hok ⊢
  cases hv : f.value? n with
  | none => rw [hv] at hok; simp at hok
  | some v =>
    rw [hv] at hok
    cases v with
    | comment old =>
      simp only at hok ⊢
      cases hd : Forest.hasDoubleDash s with
      | true => rw [hd] at hok; simp at hok
      | false =>
        simp only [Bool.false_eq_true, if_false]
        exact ⟨setValue_eq_spec f n _, old, rfl⟩
    | _ => simp at hok

theorem setComment_refused {f : Forest} {n : Nat} {s : Str} (h : (f.setComment n s).2 ≠ .ok) :
    (f.setComment n s).1 = f := by
  unfold Forest.setComment at h ⊢
  cases hv : f.value? n with
  | none => rfl
  | some v =>
    rw [hv] at h
    cases v with
    | comment old =>
      simp only at h ⊢
      cases hd : Forest.hasDoubleDash s with
      | true => simp
      | false => rw [hd] at h; simp at h
    | _ => rfl

theorem setPiData_spec {f : Forest} {n : Nat} {d : Option Str} (hok : (f.setPiData n d).2 = .ok) :
    ∃ t old, f.value? n = some (.pi t old) ∧
      (f.setPiData n d).1 = Spec.specSetValue n (.pi t (Spec.piData d)) f := by
  unfold Forest.setPiData at hok ⊢
  cases hv : f.value? n with
  | none => rw [hv] at hok; simp at hok
  | some v =>
    rw [hv] at hok
    cases v with
    | pi t old =>
      refine ⟨t, old, rfl, ?_⟩
      simp only
      rw [← setValue_eq_spec]
      cases d with
      | none => rfl
      | some l => cases l <;> rfl
    | _ => simp at hok

theorem setPiData_refused {f : Forest} {n : Nat} {d : Option Str} (h : (f.setPiData n d).2 ≠ .ok) :
    (f.setPiData n d).1 = f := by
  unfold Forest.setPiData at h ⊢
  cases hv : f.value? n with
  | none => rfl
  | some v =>
    rw [hv] at h
    cases v with
    | pi t old => simp at h
    | _ => rfl

/-! ### The frame of `specSetValue`: nothing else is created, lost, reordered or altered -/

theorem specSetValue_allHandles (n : Nat) (v : Value) (f : Forest) :
    (Spec.specSetValue n v f).allHandles = f.allHandles := by
  rw [← setValue_eq_spec]; exact Forest.allHandles_setValue f n v

theorem specSetValue_next (n : Nat) (v : Value) (f : Forest) : (Spec.specSetValue n v f).next = f.next := rfl
theorem specSetValue_consolidation (n : Nat) (v : Value) (f : Forest) :
    (Spec.specSetValue n v f).consolidation = f.consolidation := rfl
theorem specSetValue_everOff (n : Nat) (v : Value) (f : Forest) :
    (Spec.specSetValue n v f).everOff = f.everOff := rfl
theorem specSetValue_corrupt (n : Nat) (v : Value) (f : Forest) :
    (Spec.specSetValue n v f).corrupt = f.corrupt := rfl

theorem mapAt_setValue_handle (n : Nat) (v : Value) (t : HTree) :
    (mapAt n (HTree.setValue v) t).handle = t.handle := by
  cases t with
  | node h v' ks =>
    rw [mapAt_node]
    split <;> rfl

theorem mapAtList_setValue_handles (n : Nat) (v : Value) : ∀ ks : List HTree,
    (mapAtList n (HTree.setValue v) ks).map (·.handle) = ks.map (·.handle)
  | [] => by simp [mapAtList]
  | k :: ks => by
    simp only [mapAtList, List.map_cons]
    rw [mapAt_setValue_handle, mapAtList_setValue_handles n v ks]

theorem mapAtList_cons (n : Nat) (G : HTree → HTree) (k : HTree) (ks : List HTree) :
    mapAtList n G (k :: ks) = mapAt n G k :: mapAtList n G ks := by simp [mapAtList]

theorem mapAtList_nil (n : Nat) (G : HTree → HTree) : mapAtList n G [] = [] := by simp [mapAtList]

/-! #### lookups -/

mutual
  /-- The node itself: same handle, same children, the new value. -/
  theorem find?_mapAt_setValue_self (n : Nat) (v : Value) : ∀ t : HTree,
      find? n (mapAt n (HTree.setValue v) t) = (find? n t).map (HTree.setValue v)
    | .node h v' ks => by
      rw [mapAt_node]
      by_cases hh : h = n
      · rw [if_pos hh, find?_node, if_pos hh]
        simp only [HTree.setValue]
        rw [find?_node, if_pos hh]
        rfl
      · rw [if_neg hh, find?_node, find?_node, if_neg hh, if_neg hh]
        exact findList?_mapAtList_setValue_self n v ks
  theorem findList?_mapAtList_setValue_self (n : Nat) (v : Value) : ∀ ks : List HTree,
      findList? n (mapAtList n (HTree.setValue v) ks) = (findList? n ks).map (HTree.setValue v)
    | [] => by rw [mapAtList_nil, findList?_nil]; rfl
    | k :: ks => by
      rw [mapAtList_cons, findList?_cons, findList?_cons, find?_mapAt_setValue_self n v k,
        findList?_mapAtList_setValue_self n v ks]
      cases find? n k <;> rfl
end

mutual
  /-- A subtree that does not hold the node is found unchanged. -/
  theorem find?_mapAt_setValue_far {n x : Nat} {u : HTree} (v : Value) (hn : n ∉ handles u) : ∀ t : HTree,
      find? x t = some u → find? x (mapAt n (HTree.setValue v) t) = some u
    | .node h v' ks => by
      intro e
      have hxu : u.handle = x := (find?_some _ u e).1
      have hxn : x ≠ n := fun e' => hn (e' ▸ hxu ▸ fs_handle_mem_handles u)
      rw [find?_node] at e
      rw [mapAt_node]
      by_cases hh : h = n
      · rw [if_pos hh]
        have hhx : ¬ h = x := fun e' => hxn (e'.symm.trans hh)
        rw [if_neg hhx] at e
        simp only [HTree.setValue]
        rw [find?_node, if_neg hhx]
        exact e
      · rw [if_neg hh, find?_node]
        by_cases hhx : h = x
        · rw [if_pos hhx] at e
          have e' := Option.some.inj e
          subst e'
          rw [if_pos hhx]
          rw [handles_node] at hn
          rw [fs_mapAtList_of_not_mem ks (fun hm => hn (List.mem_cons_of_mem _ hm))]
        · rw [if_neg hhx] at e
          rw [if_neg hhx]
          exact findList?_mapAtList_setValue_far v hn ks e
  theorem findList?_mapAtList_setValue_far {n x : Nat} {u : HTree} (v : Value) (hn : n ∉ handles u) :
      ∀ ks : List HTree, findList? x ks = some u → findList? x (mapAtList n (HTree.setValue v) ks) = some u
    | [] => by intro e; rw [findList?_nil] at e; cases e
    | k :: ks => by
      intro e
      rw [mapAtList_cons]
      cases hk : find? x k with
      | some t =>
        rw [findList?_cons_some hk] at e
        have e' := Option.some.inj e
        subst e'
        exact findList?_cons_some (find?_mapAt_setValue_far v hn k hk)
      | none =>
        rw [findList?_cons_none hk] at e
        have hx : x ∉ handles (mapAt n (HTree.setValue v) k) := by
          rw [handles_mapAt_setValue]
          intro hm
          have := find?_isSome_of_mem k hm
          rw [hk] at this; cases this
        rw [findList?_cons_none (find?_eq_none _ hx)]
        exact findList?_mapAtList_setValue_far v hn ks e
end

mutual
  /-- With distinct handles: every subtree found afterwards is the old one with the value at `n` replaced. -/
  theorem find?_mapAt_setValue_any (n x : Nat) (v : Value) : ∀ t : HTree, (handles t).Nodup →
      find? x (mapAt n (HTree.setValue v) t) = (find? x t).map (mapAt n (HTree.setValue v))
    | .node h v' ks => by
      intro nd
      obtain ⟨n1, n2⟩ := nodup_handles_node nd
      rw [mapAt_node]
      by_cases hh : h = n
      · rw [if_pos hh]
        simp only [HTree.setValue]
        rw [find?_node, find?_node]
        by_cases hhx : h = x
        · rw [if_pos hhx, if_pos hhx, Option.map_some, mapAt_node, if_pos hh]
          rfl
        · rw [if_neg hhx, if_neg hhx]
          cases hf : findList? x ks with
          | none => rfl
          | some u =>
            have hnu : n ∉ handles u := fun hm => n1 (hh ▸ (findList?_some ks u hf).2 n hm)
            rw [Option.map_some, fs_mapAt_of_not_mem u hnu]
      · rw [if_neg hh, find?_node, find?_node]
        by_cases hhx : h = x
        · rw [if_pos hhx, if_pos hhx, Option.map_some, mapAt_node, if_neg hh]
        · rw [if_neg hhx, if_neg hhx]
          exact findList?_mapAtList_setValue_any n x v ks n2
  theorem findList?_mapAtList_setValue_any (n x : Nat) (v : Value) : ∀ ks : List HTree, (handlesList ks).Nodup →
      findList? x (mapAtList n (HTree.setValue v) ks) = (findList? x ks).map (mapAt n (HTree.setValue v))
    | [] => by intro _; rw [mapAtList_nil, findList?_nil]; rfl
    | k :: ks => by
      intro nd
      obtain ⟨n1, n2, _⟩ := nodup_handlesList_cons nd
      rw [mapAtList_cons, findList?_cons, findList?_cons, find?_mapAt_setValue_any n x v k n1,
        findList?_mapAtList_setValue_any n x v ks n2]
      cases find? x k <;> rfl
end

/-- Content: every subtree of the new forest is the old subtree with the value at `n` replaced
    (same handles, same shape, same order, every other value the same). -/
theorem specSetValue_get {f : Forest} (nd : f.allHandles.Nodup) (n x : Nat) (v : Value) :
    (Spec.specSetValue n v f).get? x = (f.get? x).map (mapAt n (HTree.setValue v)) :=
  findList?_mapAtList_setValue_any n x v f.roots nd

/-- Every subtree that does not hold `n` is still there, unchanged (handles, values, order). -/
theorem specSetValue_get_far {f : Forest} {n x : Nat} {t : HTree} (v : Value)
    (hx : f.get? x = some t) (hn : n ∉ handles t) : (Spec.specSetValue n v f).get? x = some t :=
  findList?_mapAtList_setValue_far v hn f.roots hx

/-- The node itself keeps its handle and its children and carries the new value. -/
theorem specSetValue_get_self (f : Forest) (n : Nat) (v : Value) :
    (Spec.specSetValue n v f).get? n = (f.get? n).map (HTree.setValue v) :=
  findList?_mapAtList_setValue_self n v f.roots

theorem specSetValue_value_self {f : Forest} {n : Nat} (v : Value) (hl : f.isLive n = true) :
    (Spec.specSetValue n v f).value? n = some v := by
  unfold Forest.value?
  rw [specSetValue_get_self]
  unfold Forest.isLive at hl
  cases hg : f.get? n with
  | none => rw [hg] at hl; cases hl
  | some t => cases t; rfl

mutual
  theorem find?_value_mapAt_setValue {n x : Nat} (v : Value) (hx : x ≠ n) : ∀ t : HTree,
      (find? x (mapAt n (HTree.setValue v) t)).map HTree.value = (find? x t).map HTree.value
    | .node h v' ks => by
      rw [mapAt_node]
      by_cases hh : h = n
      · rw [if_pos hh]
        have hhx : ¬ h = x := fun e' => hx (e'.symm.trans hh)
        simp only [HTree.setValue]
        rw [find?_node, find?_node, if_neg hhx, if_neg hhx]
      · rw [if_neg hh, find?_node, find?_node]
        by_cases hhx : h = x
        · rw [if_pos hhx, if_pos hhx]; rfl
        · rw [if_neg hhx, if_neg hhx]
          exact findList?_value_mapAtList_setValue v hx ks
  theorem findList?_value_mapAtList_setValue {n x : Nat} (v : Value) (hx : x ≠ n) : ∀ ks : List HTree,
      (findList? x (mapAtList n (HTree.setValue v) ks)).map HTree.value = (findList? x ks).map HTree.value
    | [] => by rw [mapAtList_nil]
    | k :: ks => by
      rw [mapAtList_cons, findList?_cons, findList?_cons]
      have h1 := find?_value_mapAt_setValue v hx k
      have h2 := findList?_value_mapAtList_setValue v hx ks
      cases ha : find? x (mapAt n (HTree.setValue v) k) with
      | some a =>
        rw [ha] at h1
        cases hb : find? x k with
        | some b => rw [hb] at h1; exact h1
        | none => rw [hb] at h1; cases h1
      | none =>
        rw [ha] at h1
        cases hb : find? x k with
        | some b => rw [hb] at h1; cases h1
        | none => exact h2
end

/-- Every other node keeps its value (and liveness). -/
theorem specSetValue_value_other {f : Forest} {n x : Nat} (v : Value) (hx : x ≠ n) :
    (Spec.specSetValue n v f).value? x = f.value? x :=
  findList?_value_mapAtList_setValue v hx f.roots

theorem specSetValue_isLive (f : Forest) (n x : Nat) (v : Value) :
    (Spec.specSetValue n v f).isLive x = f.isLive x := by
  by_cases hx : x = n
  · subst hx
    unfold Forest.isLive
    rw [specSetValue_get_self]
    cases f.get? x <;> rfl
  · have := specSetValue_value_other (f := f) v hx
    unfold Forest.value? at this
    unfold Forest.isLive
    cases ha : (Spec.specSetValue n v f).get? x <;> cases hb : f.get? x <;> rw [ha, hb] at this <;>
      first | rfl | cases this

/-! #### positions -/

/-- The place of a node: parent, handles of the siblings before and after it. -/
def HTree.Ctx.place (c : Ctx) : Nat × List Nat × List Nat :=
  (c.parent, c.left.map (·.handle), c.right.map (·.handle))

mutual
  theorem ctxBelow_mapAt_setValue (n x : Nat) (v : Value) : ∀ t : HTree,
      (ctxBelow x (mapAt n (HTree.setValue v) t)).map HTree.Ctx.place = (ctxBelow x t).map HTree.Ctx.place
    | .node h v' ks => by
      rw [mapAt_node]
      by_cases hh : h = n
      · rw [if_pos hh]; rfl
      · rw [if_neg hh, ctxBelow_node, ctxBelow_node]
        exact ctxKids_mapAtList_setValue n x v h [] [] ks rfl
  theorem ctxKids_mapAtList_setValue (n x : Nat) (v : Value) (p : Nat) : ∀ (left left' ks : List HTree),
      left'.map (·.handle) = left.map (·.handle) →
      (ctxKids x p left' (mapAtList n (HTree.setValue v) ks)).map HTree.Ctx.place =
        (ctxKids x p left ks).map HTree.Ctx.place
    | left, left', [] => by intro _; rw [mapAtList_nil, ctxKids_nil, ctxKids_nil]
    | left, left', k :: ks => by
      intro hl
      rw [mapAtList_cons]
      by_cases hk : k.handle = x
      · rw [ctxKids_cons_hit hk, ctxKids_cons_hit ((mapAt_setValue_handle n v k).trans hk)]
        simp only [Option.map_some, HTree.Ctx.place, hl, mapAtList_setValue_handles]
      · have hk' : (mapAt n (HTree.setValue v) k).handle ≠ x := by rw [mapAt_setValue_handle]; exact hk
        have h1 := ctxBelow_mapAt_setValue n x v k
        cases ha : ctxBelow x (mapAt n (HTree.setValue v) k) with
        | some a =>
          rw [ha] at h1
          cases hb : ctxBelow x k with
          | some b =>
            rw [hb] at h1
            rw [ctxKids_cons_below hk' ha, ctxKids_cons_below hk hb]
            exact h1
          | none => rw [hb] at h1; cases h1
        | none =>
          rw [ha] at h1
          cases hb : ctxBelow x k with
          | some b => rw [hb] at h1; cases h1
          | none =>
            rw [ctxKids_cons_skip hk' ha, ctxKids_cons_skip hk hb]
            apply ctxKids_mapAtList_setValue n x v p (left ++ [k]) (left' ++ [mapAt n (HTree.setValue v) k]) ks
            rw [List.map_append, List.map_append, hl]
            simp only [List.map_cons, List.map_nil, mapAt_setValue_handle]
end

theorem findSome_ctxBelow_setValue (n x : Nat) (v : Value) : ∀ rs : List HTree,
    ((mapAtList n (HTree.setValue v) rs).findSome? (ctxBelow x)).map HTree.Ctx.place =
      (rs.findSome? (ctxBelow x)).map HTree.Ctx.place
  | [] => by rw [mapAtList_nil]
  | k :: rs => by
    rw [mapAtList_cons, List.findSome?_cons, List.findSome?_cons]
    have h1 := ctxBelow_mapAt_setValue n x v k
    cases ha : ctxBelow x (mapAt n (HTree.setValue v) k) with
    | some a =>
      rw [ha] at h1
      cases hb : ctxBelow x k with
      | some b => rw [hb] at h1; exact h1
      | none => rw [hb] at h1; cases h1
    | none =>
      rw [ha] at h1
      cases hb : ctxBelow x k with
      | some b => rw [hb] at h1; cases h1
      | none => exact findSome_ctxBelow_setValue n x v rs

/-- Every node (the node `n` included) keeps its place: same parent, same siblings before and
    after it, in the same order; a parentless node stays parentless. -/
theorem specSetValue_ctx (f : Forest) (n x : Nat) (v : Value) :
    ((Spec.specSetValue n v f).ctx? x).map HTree.Ctx.place = (f.ctx? x).map HTree.Ctx.place :=
  findSome_ctxBelow_setValue n x v f.roots

theorem specSetValue_parent (f : Forest) (n x : Nat) (v : Value) :
    (Spec.specSetValue n v f).parent? x = f.parent? x := by
  have := specSetValue_ctx f n x v
  unfold Forest.parent?
  cases ha : (Spec.specSetValue n v f).ctx? x with
  | none =>
    cases hb : f.ctx? x with
    | none => rfl
    | some b => rw [ha, hb] at this; cases this
  | some a =>
    cases hb : f.ctx? x with
    | none => rw [ha, hb] at this; cases this
    | some b =>
      rw [ha, hb] at this
      simp only [Option.map_some, HTree.Ctx.place, Option.some.injEq, Prod.mk.injEq] at this
      simp only [Option.map_some, this.1]

/-- The parentless trees stay the same trees, in the same order. -/
theorem specSetValue_roots (f : Forest) (n : Nat) (v : Value) :
    (Spec.specSetValue n v f).roots.map (·.handle) = f.roots.map (·.handle) :=
  mapAtList_setValue_handles n v f.roots

/-- In a forest where `n` is not live nothing changes at all. -/
theorem specSetValue_dead {f : Forest} {n : Nat} (v : Value) (h : f.isLive n = false) :
    Spec.specSetValue n v f = f := by
  unfold Spec.specSetValue
  have : n ∉ handlesList f.roots := by
    intro hm
    have := findList?_isSome_of_mem f.roots hm
    unfold Forest.isLive Forest.get? at h
    rw [h] at this; cases this
  rw [fs_mapAtList_of_not_mem f.roots this]

end XotModel
